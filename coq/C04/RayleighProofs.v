(** * Rayleigh: full validity under a checked hypothesis on the fitted parameters, acceptance bound,
    and the candidates that can never be accepted.  Proofs over R. *)
From Coq Require Import Reals ZArith List Bool Lra Lia Psatz.
From Celer Require Import Base.Num Base.NumR Base.Stream Base.Vec3 C15.Samplers C15.SamplersProofs
  C04.Common C04.CommonProofs C04.KleinNishinaProofs C04.Rayleigh C04.FinalStatesProofs C04.AcceptNumerics.
Import ListNotations.
Local Open Scope R_scope.

(** The hypothesis on the data: every b > 0, every n in [1/100, 50] (run.py checks it on all 100
    elements of RayleighModel.cc's table on every run and on the parameters read back from the real
    RayleighModel), positive energy and unit-conversion factor. *)
Definition ry_n_ok (n : R) : Prop := 1 / 100 <= n <= 50.
Definition ry_ok (p : ry_params R) : Prop :=
  0 < ry_kfac p /\ 0 < ry_energy p /\ Forall (fun b => 0 < b) (ry_b p) /\ Forall ry_n_ok (ry_n p).

Lemma ry_factor_pos (p : ry_params R) : ry_ok p -> 0 < ry_factor p.
Proof.
  intros (Hk & HE & _). unfold ry_factor. numR.
  assert (0 < ry_kfac p * ry_energy p) by (apply Rmult_lt_0_compat; lra). apply Rmult_lt_0_compat; assumption.
Qed.

Lemma nth_Forall_default {A} (P : A -> Prop) (l : list A) (d : A) : Forall P l -> P d -> forall i, P (nth i l d).
Proof.
  intros Hl Hd. induction Hl as [|x l Hx Hl IH]; intros i; destruct i; cbn [nth]; auto.
Qed.

Lemma Forall_combine {A B} (P : A -> Prop) (Q : B -> Prop) (l1 : list A) : Forall P l1 ->
  forall l2, Forall Q l2 -> Forall (fun ab => P (fst ab) /\ Q (snd ab)) (combine l1 l2).
Proof.
  intros H1. induction H1 as [|x l Hx Hl IH]; intros l2 H2; [constructor|].
  destruct H2 as [|y l2 Hy H2]; [constructor|]. cbn [combine]. constructor; [split; assumption|apply IH; exact H2].
Qed.

Lemma fastpow_ge_1 (a b : R) : 0 <= b * ln a -> 1 <= fastpow a b.
Proof. intros H. unfold fastpow. numR. rewrite <- exp_0. apply exp_le. exact H. Qed.
Lemma fastpow_range (a b : R) : b * ln a <= 0 -> 0 < fastpow a b <= 1.
Proof. intros H. unfold fastpow. numR. split; [apply exp_pos|]. rewrite <- exp_0. apply exp_le. exact H. Qed.

Lemma ry_weight1_range (factor b n : R) : 0 < factor -> 0 < b -> ry_n_ok n -> 0 <= ry_weight1 factor b n <= 1.
Proof.
  intros Hf Hb [Hn0 Hn1]. unfold ry_weight1, fit_slice. numR; numR.
  assert (Hx : 0 < factor * b + b) by nra. set (x := factor * b + b) in *.
  destruct (Rltb_spec (2 / 100) x) as [Hgt|Hle].
  - assert (Hl : 0 < ln (1 + x)) by (rewrite <- ln_1; apply ln_increasing; lra).
    destruct (fastpow_range (1 + x) (- n)) as [A B]; [nra|]. lra.
  - apply ry_series_weight_range; [split; assumption|lra].
Qed.

Lemma ry_weights_range (p : ry_params R) : ry_ok p -> Forall (fun w => 0 <= w <= 1) (ry_weights p).
Proof.
  intros Hok. pose proof (ry_factor_pos p Hok) as Hf. destruct Hok as (_ & _ & Hb & Hn).
  unfold ry_weights. apply Forall_map.
  pose proof (Forall_combine _ _ _ Hb _ Hn) as Hc.
  eapply Forall_impl; [|exact Hc]. intros [b n] [H1 H2]. cbn [fst snd] in *. apply ry_weight1_range; assumption.
Qed.

(** the sampled x is >= 0: series branch for y < 0.02, power branch otherwise *)
Definition ry_x (y ninv : R) : R :=
  if Rltb y (2 / 100)
  then y * ninv * (1 + 1 / 2 * (ninv + 1) * y * (1 - (ninv + 2) * y / 3))
  else fastpow (1 - y) (- ninv) - 1.

Lemma ry_x_nonneg (y ninv : R) : 0 <= y < 1 -> 0 < ninv <= 100 -> 0 <= ry_x y ninv.
Proof.
  intros [Hy0 Hy1] [Hn0 Hn1]. unfold ry_x. destruct (Rltb_spec y (2 / 100)) as [Hlt|Hge].
  - assert (H1 : 0 <= (ninv + 2) * y / 3 <= 68 / 100).
    { split; [apply div_ge_c; nra | apply div_le_c; nra]. }
    assert (H2 : 0 <= 1 / 2 * (ninv + 1) * y) by (apply Rmult_le_pos; nra).
    assert (H3 : 0 <= 1 / 2 * (ninv + 1) * y * (1 - (ninv + 2) * y / 3)) by (apply Rmult_le_pos; lra).
    apply Rmult_le_pos; [apply Rmult_le_pos; lra|lra].
  - assert (Hl : ln (1 - y) <= 0).
    { destruct (Req_dec y 0) as [->|Hne]; [rewrite Rminus_0_r, ln_1; lra|].
      left. rewrite <- ln_1. apply ln_increasing; lra. }
    pose proof (fastpow_ge_1 (1 - y) (- ninv)) as H. assert (0 <= - ninv * ln (1 - y)) by nra. lra.
Qed.

(** one iteration, as a function of its three uniforms *)
Definition ry_cost (p : ry_params R) (ws probs : list R) (u0 u : R) : R :=
  let index := selector_loop probs 0 (- 1 * u0) in
  let x := ry_x (nth index ws 0 * u) (1 / nth index (ry_n p) 1) in
  1 - 2 * x / (nth index (ry_b p) 1 * ry_factor p).

Lemma ry_loop_step (p : ry_params R) ws probs f u0 u t s :
  ry_loop (S f) p ws probs (u0 :: u :: t :: s) =
  let c := ry_cost p ws probs u0 u in
  if orb (Rltb (1 + c * c) (2 * t)) (Rltb c (- 1)) then ry_loop f p ws probs s else Some (c, s).
Proof.
  cbn [ry_loop]. unfold selector, bind, draw, ret, ry_cost, ry_x, fit_slice. numR; numR.
  destruct (orb _ _); reflexivity.
Qed.

Lemma ry_loop_short (p : ry_params R) ws probs f s : (length s < 3)%nat -> ry_loop (S f) p ws probs s = None.
Proof.
  destruct s as [|a [|b [|c s0]]]; cbn [length]; intros Hl; try lia; reflexivity.
Qed.

Lemma ry_cost_le_1 (p : ry_params R) probs u0 u : ry_ok p -> canonical u ->
  ry_cost p (ry_weights p) probs u0 u <= 1.
Proof.
  intros Hok [Hu0 Hu1]. pose proof (ry_factor_pos p Hok) as Hf. pose proof (ry_weights_range p Hok) as Hw.
  destruct Hok as (_ & _ & Hb & Hn). unfold ry_cost. cbv zeta.
  set (i := selector_loop probs 0 (- 1 * u0)).
  pose proof (nth_Forall_default _ _ 0 Hw ltac:(lra) i) as Hwi. cbv beta in Hwi.
  pose proof (nth_Forall_default _ _ 1 Hb ltac:(lra) i) as Hbi. cbv beta in Hbi.
  assert (Hn1 : ry_n_ok 1) by (unfold ry_n_ok; lra).
  pose proof (nth_Forall_default _ _ 1 Hn Hn1 i) as Hni. unfold ry_n_ok in Hni.
  set (w := nth i (ry_weights p) 0) in *. set (b := nth i (ry_b p) 1) in *. set (n := nth i (ry_n p) 1) in *.
  assert (Hninv : 0 < 1 / n <= 100).
  { split; [apply Rdiv_lt_0_compat; lra|]. apply div_le_c; lra. }
  assert (Hy : 0 <= w * u < 1) by nra.
  pose proof (ry_x_nonneg _ _ Hy Hninv) as Hx.
  assert (Hden : 0 < b * ry_factor p) by (apply Rmult_lt_0_compat; assumption).
  assert (0 <= 2 * ry_x (w * u) (1 / n) / (b * ry_factor p)) by (apply div_ge_c; lra).
  lra.
Qed.

(** the accepted cosine is in [-1, 1] *)
Lemma ry_loop_range (p : ry_params R) probs : ry_ok p -> forall fuel s c s',
  ry_loop fuel p (ry_weights p) probs s = Some (c, s') -> canon s -> -1 <= c <= 1 /\ canon s'.
Proof.
  intros Hok. induction fuel as [|f IH]; intros s c s' E Hc; [discriminate|].
  destruct s as [|u0 [|u [|t s0]]]; try (rewrite ry_loop_short in E by (cbn; lia); discriminate).
  apply canon_cons in Hc as [_ Hc]. apply canon_cons in Hc as [Hu Hc]. apply canon_cons in Hc as [_ Hc].
  rewrite ry_loop_step in E. cbv zeta in E.
  pose proof (ry_cost_le_1 p probs u0 u Hok Hu) as Hle.
  set (cc := ry_cost p (ry_weights p) probs u0 u) in *.
  destruct (Rltb (1 + cc * cc) (2 * t)); cbn [orb] in E; [apply (IH _ _ _ E Hc)|].
  destruct (Rltb_spec cc (- 1)) as [Hlt|Hge]; [apply (IH _ _ _ E Hc)|].
  inversion E; subst. split; [lra|exact Hc].
Qed.

Lemma ry_loop_consumes (p : ry_params R) ws probs : forall fuel s c s1,
  ry_loop fuel p ws probs s = Some (c, s1) -> (length s1 < length s)%nat.
Proof.
  induction fuel as [|f IH]; intros s c s1 E; [discriminate|].
  destruct s as [|u0 [|u1 [|t s0]]]; try (rewrite ry_loop_short in E by (cbn; lia); discriminate).
  rewrite ry_loop_step in E. cbv zeta in E.
  destruct (orb _ _); [apply IH in E; cbn [length] in *; lia|]. inversion E; subst. cbn [length]. lia.
Qed.

Theorem ry_outputs_valid (p : ry_params R) a s r a' s' :
  ry_ok p -> unitv (ry_dir p) -> canon s -> ry_sample p a s = Some ((r, a'), s') ->
  i_action r = Scattered /\ i_energy r = ry_energy p /\ unitv (i_dir r) /\ i_secs r = [] /\ i_deposit r = 0 /\
  a' = a /\ (length s' < length s)%nat.
Proof.
  intros Hok Hd Hc E. unfold ry_sample in E. apply bind_some in E as (c & s1 & E1 & E).
  apply bind_some in E as (d & s2 & E2 & E). apply ret_some in E. inversion E; subst.
  destruct (ry_loop_range p _ Hok _ _ _ _ E1 Hc) as [Hcr Hc1].
  destruct (exiting_direction_spec _ _ _ _ _ E2 Hcr Hd) as (u & Hs1 & Hu & _).
  cbn [i_action i_energy i_dir i_secs i_deposit]. repeat split; try assumption.
  pose proof (ry_loop_consumes _ _ _ _ _ _ _ E1) as Hl. rewrite Hs1 in Hl. cbn [length] in Hl. lia.
Qed.

(** ** acceptance *)
(** a candidate whose cosine is >= -1 is accepted by every test draw t <= 1/2 *)
Theorem ry_accept_lower_bound (c t : R) : -1 <= c -> t <= 1 / 2 ->
  orb (Rltb (1 + c * c) (2 * t)) (Rltb c (- 1)) = false.
Proof.
  intros Hc Ht. assert (H1 : Rltb (1 + c * c) (2 * t) = false) by (apply Rltb_false; nra).
  assert (H2 : Rltb c (- 1) = false) by (apply Rltb_false; lra). rewrite H1, H2. reflexivity.
Qed.

Theorem ry_terminates_on_low_draw (p : ry_params R) ws probs f u0 u t s :
  -1 <= ry_cost p ws probs u0 u -> t <= 1 / 2 ->
  ry_loop (S f) p ws probs (u0 :: u :: t :: s) = Some (ry_cost p ws probs u0 u, s).
Proof.
  intros Hc Ht. rewrite ry_loop_step. cbv zeta. rewrite ry_accept_lower_bound by assumption. reflexivity.
Qed.

(** ... and a candidate whose cosine is < -1 is rejected by EVERY test draw *)
Theorem ry_candidate_below_minus_one_rejected (p : ry_params R) ws probs f u0 u t s :
  ry_cost p ws probs u0 u < -1 ->
  ry_loop (S f) p ws probs (u0 :: u :: t :: s) = ry_loop f p ws probs s.
Proof.
  intros Hc. rewrite ry_loop_step. cbv zeta.
  assert (H2 : Rltb (ry_cost p ws probs u0 u) (- 1) = true) by (apply Rltb_true; exact Hc).
  rewrite H2, orb_true_r. reflexivity.
Qed.

Example ry_ok_nonvacuous : ry_ok (RY 1 (V3 0 0 1) [1; 1; 1] [1; 2; 3] [1; 1 / 2; 30] 1).
Proof.
  unfold ry_ok, ry_n_ok. cbn [ry_kfac ry_energy ry_b ry_n]. repeat split; try lra;
    repeat constructor; lra.
Qed.

(** ** no positive acceptance bound on (0, 1e8] MeV: the fraction of candidates that can be accepted
    vanishes as E -> 0.  Family: n = (1,1,1), b = (b,b,b) with b (f + 1) <= 0.02 where
    f = (kfac E)^2 (true for the real b ~ 1e-16 cm^2 whenever f <= 1e14): the candidate drawn with
    u > f / (f + 1) has cos(theta) < -1 and is rejected by every test draw. *)
Definition ry_low (E b : R) : ry_params R := RY E (V3 0 0 1) [1; 1; 1] [b; b; b] [1; 1; 1] 1.

Theorem ry_accept_lower_bound_refuted (E b u0 u : R) :
  0 < E -> 0 < b -> b * (E * E + 1) <= 2 / 100 -> E * E / (E * E + 1) < u < 1 ->
  ry_ok (ry_low E b) /\
  ry_cost (ry_low E b) (ry_weights (ry_low E b)) (ry_probs (ry_low E b)) u0 u < -1.
Proof.
  intros HE Hb Hx0 [Hu0 Hu1]. split.
  { unfold ry_ok, ry_low, ry_n_ok. cbn [ry_kfac ry_energy ry_b ry_n]. repeat split; try lra; repeat constructor; lra. }
  set (f := E * E) in *. assert (Hf : 0 < f) by (unfold f; nra).
  assert (Hfac : ry_factor (ry_low E b) = f) by (unfold ry_factor, ry_low, f; cbn [ry_kfac ry_energy]; numR; ring).
  set (x0 := f * b + b). assert (Hx : 0 < x0 <= 2 / 100) by (unfold x0; nra).
  assert (Hw1 : ry_weight1 f b 1 = x0).
  { unfold ry_weight1, fit_slice. numR; numR. fold x0.
    assert (Hc : Rltb (2 / 100) x0 = false) by (apply Rltb_false; lra). rewrite Hc. field. }
  assert (Hws : ry_weights (ry_low E b) = [x0; x0; x0]).
  { unfold ry_weights. rewrite Hfac. unfold ry_low. cbn [ry_b ry_n combine map fst snd]. rewrite Hw1. reflexivity. }
  unfold ry_cost. cbv zeta. rewrite Hws, Hfac.
  set (i := selector_loop (ry_probs (ry_low E b)) 0 (- 1 * u0)).
  assert (Hi : (i < 3)%nat).
  { pose proof (selector_loop_bound (ry_probs (ry_low E b)) 0 (- 1 * u0)) as Hbnd.
    assert (Hlen : length (ry_probs (ry_low E b)) = 3%nat) by reflexivity.
    rewrite Hlen in Hbnd. apply Hbnd. intro Hnil. rewrite Hnil in Hlen. discriminate. }
  unfold ry_low. cbn [ry_n ry_b].
  assert (Hn : nth i [x0; x0; x0] 0 = x0 /\ nth i [1; 1; 1] 1 = 1 /\ nth i [b; b; b] 1 = b).
  { destruct i as [|[|[|k]]]; try lia; repeat split; reflexivity. }
  destruct Hn as (-> & -> & ->).
  set (y := x0 * u).
  assert (Hue : 0 < u) by (apply Rle_lt_trans with (f / (f + 1)); [apply div_ge_c; lra|exact Hu0]).
  assert (Hy : 0 < y < 2 / 100) by (unfold y; nra).
  unfold ry_x. assert (Hc : Rltb y (2 / 100) = true) by (apply Rltb_true; lra). rewrite Hc.
  replace (1 / 1) with 1 by field.
  assert (Hxs : y <= y * 1 * (1 + 1 / 2 * (1 + 1) * y * (1 - (1 + 2) * y / 3))).
  { assert (0 <= y * (y * (1 - y))) by (apply Rmult_le_pos; [lra|apply Rmult_le_pos; lra]). nra. }
  set (xs := y * 1 * (1 + 1 / 2 * (1 + 1) * y * (1 - (1 + 2) * y / 3))) in *.
  assert (Hbf : 0 < b * f) by (apply Rmult_lt_0_compat; lra).
  (* 2 xs / (b f) >= 2 y / (b f) = 2 u (f+1)/f > 2 *)
  assert (Hq : 2 < 2 * xs / (b * f)).
  { apply div_gt_c; [exact Hbf|].
    assert (Hu' : f < u * (f + 1)).
    { apply Rmult_lt_compat_r with (r := f + 1) in Hu0; [|lra].
      replace (f / (f + 1) * (f + 1)) with f in Hu0 by (field; lra). exact Hu0. }
    assert (Hyb : y = b * (u * (f + 1))) by (unfold y, x0; ring).
    assert (b * f < y) by (rewrite Hyb; apply Rmult_lt_compat_l; lra).
    lra. }
  lra.
Qed.
