(** * C04: entry points for the correspondence check (float instance).
    Every interactor is normalised to
    [option (action, E, [dx;dy;dz], deposit, [(pid, E, [d])...], allocator size, draws)]. *)
From Coq Require Import ZArith List Floats.
From Celer Require Import Base.Num Base.NumF Base.FloatFun Base.Stream Base.Vec3
  C15.Samplers C04.Common C04.KleinNishina.
Import ListNotations.

Definition ofv (v : vec3 float) := [vx v; vy v; vz v].
Definition ofsec (s : secondary float) := (pid_code (s_pid s), s_energy s, ofv (s_dir s)).
Definition fin (s : list float) (r : option ((interaction float * alloc) * list float)) :=
  match r with
  | None => None
  | Some ((i, a), s') =>
      Some (action_code (i_action i), i_energy i, ofv (i_dir i), i_deposit i,
            map ofsec (i_secs i), Z.of_nat (fst a), Z.of_nat (length s - length s'))
  end.

Definition run_kn (inv_me e : float) (d : vec3 float) (size cap : nat) s :=
  fin s (kn_sample (KN inv_me e d) (size, cap) s).
(** rotate alone (for the replay of the near-z finding) *)
Definition run_rotate (d r : vec3 float) := ofv (rotate (min_acc (T:=float)) d r).
