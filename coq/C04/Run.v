(** * C04: entry points for the correspondence check (float instance).
    Every interactor is normalised to
    [option (action, E, [dx;dy;dz], deposit, [(pid, E, [d])...], allocator size, draws)]. *)
From Coq Require Import ZArith List Floats.
From Celer Require Import Base.Num Base.NumF Base.FloatFun Base.Stream Base.Vec3
  C15.Samplers C04.Common C04.KleinNishina.
Import ListNotations.

Definition ofv (v : vec3 float) := [vx v; vy v; vz v].
Definition ofsec (s : secondary float) := (pid_code (s_pid s), s_energy s, ofv (s_dir s)).
Definition fin (s : list float) (r : option ((interaction float * alloc) * list float)) :=
  match r with
  | None => None
  | Some ((i, a), s') =>
      Some (action_code (i_action i), i_energy i, ofv (i_dir i), i_deposit i,
            map ofsec (i_secs i), Z.of_nat (fst a), Z.of_nat (length s - length s'))
  end.

Definition run_kn (inv_me e : float) (d : vec3 float) (size cap : nat) s :=
  fin s (kn_sample (KN inv_me e d) (size, cap) s).
(** rotate alone (for the replay of the near-z finding) *)
Definition run_rotate (d r : vec3 float) := ofv (rotate (min_acc (T:=float)) d r).

From Celer Require Import C04.EPlusGG C04.Ionization C04.BetheHeitler C04.Rayleigh C04.FinalStates.

Definition run_eplusgg (fixed : bool) (me e : float) (d : vec3 float) (size cap : nat) s :=
  fin s (ep_sample fixed (EP me e d) (size, cap) s).
Definition run_mb (me cut e : float) (d : vec3 float) (is_electron : bool) (size cap : nat) s :=
  fin s (mb_sample (MB me cut e d is_electron) (size, cap) s).
Definition run_muhad (kind : Z) (minc e : float) (d : vec3 float) (me tmin : float) (size cap : nat) s :=
  let k := match kind with 0%Z => KBetheBloch | 1%Z => KMuBB | _ => KBragg end in
  fin s (mh_sample (MH minc e d me tmin k) (size, cap) s).
Definition run_bh (me e : float) (d : vec3 float) (cbrt_z log_z coul : float) (size cap : nat) s :=
  fin s (bh_sample (BH me e d cbrt_z log_z coul) (size, cap) s).
Definition run_rayleigh (e : float) (d : vec3 float) (a b n : list float) (kfac : float) (size cap : nat) s :=
  fin s (ry_sample (RY e d a b n kfac) (size, cap) s).
(** calc_exiting_direction on the implementation's own outputs (Tier B consistency) *)
Definition run_calc_exit (pin : float) (din : vec3 float) (pout : float) (dout : vec3 float) :=
  ofv (calc_exiting_direction pin din pout dout).
