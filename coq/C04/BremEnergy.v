(** * Bremsstrahlung photon-energy samplers: detail/SBEnergySampler.hh (with SBEnergyDistribution /
    SBEnergyDistHelper::sample_exit_energy) and detail/RBEnergySampler.hh.

    Both are the same rejection loop: E_gamma^2 + d_rho sampled from a reciprocal distribution on
    [tmin^2 + d_rho, tmax^2 + d_rho], the density correction subtracted, square root, then a
    RejectionSampler against the (tabulated / calculated) differential cross section.  The cross
    section is an ORACLE [xs i e] (value returned by SBEnergyDistHelper::calc_xs(e) * scale_xs(e), resp.
    RBDiffXsCalculator(e), at iteration i) with its bound [xs_max] (SBEnergyDistHelper::max_xs, resp.
    RBDiffXsCalculator::maximum_value).  Executable over any [Num]; no proofs here. *)
From Coq Require Import ZArith List Bool.
From Celer Require Import Base.Num Base.Stream Base.Vec3 C15.Samplers C04.Common C04.FinalStates.
Import ListNotations.
Local Open Scope num_scope.

Section BremEnergy.
  Context {T : Type} `{Num T}.
  Notation M := (M T).

  Fixpoint be_loop (fuel i : nat) (tmin_sq tmax_sq dc : T) (xs : nat -> T -> T) (xs_max : T) : M T :=
    match fuel with
    | O => fail
    | S f =>
        esq <- reciprocal (tmin_sq + dc) (tmax_sq + dc) ;;
        let e := nsqrt (esq - dc) in
        rej <- rejection (xs i e) xs_max ;;
        if rej then be_loop f (S i) tmin_sq tmax_sq dc xs xs_max else ret e
    end.

  (** SBEnergySampler: [cut, E_inc], density correction = electron density * migdal * E_total^2 *)
  Definition sb_energy (cut e_inc dc : T) (xs : nat -> T -> T) (xs_max : T) : M T :=
    fun s => be_loop (length s) 0 (nsq cut) (nsq e_inc) dc xs xs_max s.

  (** detail::high_energy_limit() = 1e8 MeV *)
  Definition high_energy_limit : T := nofZ 100000000.
  (** RBEnergySampler: [min(cut, E), min(1e8 MeV, E)] *)
  Definition rb_energy (cut e_inc dc : T) (xs : nat -> T -> T) (xs_max : T) : M T :=
    fun s => be_loop (length s) 0 (nsq (nmin cut e_inc)) (nsq (nmin high_energy_limit e_inc)) dc xs xs_max s.

  (** the interactor shells: SeltzerBergerInteractor / RelativisticBremInteractor = allocate, photon
      energy from the sampler above, polar cosine from an angular sampler (TsaiUrban, abstract here),
      BremFinalStateHelper *)
  Definition sb_sample (angle : M T) (cut e_inc dc : T) xs xs_max (dir : vec3 T) (p_inc : T) (a : alloc)
    : M (interaction T * alloc) :=
    brem_sample (e <- sb_energy cut e_inc dc xs xs_max ;; c <- angle ;; ret (e, c)) e_inc dir p_inc a.
  Definition rb_sample (angle : M T) (cut e_inc dc : T) xs xs_max (dir : vec3 T) (p_inc : T) (a : alloc)
    : M (interaction T * alloc) :=
    brem_sample (e <- rb_energy cut e_inc dc xs xs_max ;; c <- angle ;; ret (e, c)) e_inc dir p_inc a.
End BremEnergy.
