(** * C04 common model: interaction record, secondary allocator, direction helpers.

    Mirrors src/celeritas/phys/{Interaction,Secondary,InteractionUtils}.hh and
    the part of corecel/data/StackAllocator.hh the interactors use.  Executable
    over any [Num]; no proofs here. *)
From Coq Require Import ZArith List Bool.
From Celer Require Import Base.Num Base.Stream Base.Vec3 C15.Samplers.
Import ListNotations.
Local Open Scope num_scope.

(** Interaction::Action *)
Inductive action := Scattered | Absorbed | Unchanged | Failed.
Definition action_code (a : action) : Z :=
  match a with Scattered => 0 | Absorbed => 1 | Unchanged => 2 | Failed => 3 end%Z.

(** particle ids used by the modelled interactors; [PNone] is the invalid
    (default constructed) ParticleId of a cleared secondary *)
Inductive pid := PNone | PElectron | PPositron | PGamma | POther.
Definition pid_code (p : pid) : Z :=
  match p with PNone => (-1) | PElectron => 0 | PPositron => 1 | PGamma => 2 | POther => 3 end%Z.

(** StackAllocator<Secondary> as a capacity counter: (size, capacity).
    operator()(count): start = atomic_add(size, count); if start + count >
    capacity then (size restored to start; nullptr) else pointer. *)
Definition alloc := (nat * nat)%type.
Definition allocate (count : nat) (a : alloc) : option alloc :=
  let '(size, cap) := a in
  if Nat.leb (size + count) cap then Some ((size + count)%nat, cap) else None.

Section Common.
  Context {T : Type} `{Num T}.
  Notation M := (M T).

  Record secondary := Sec { s_pid : pid; s_energy : T; s_dir : vec3 T }.
  (** [*secondary = {}] *)
  Definition sec_clear : secondary := Sec PNone n0 (V3 n0 n0 n0).

  Record interaction := Inter {
    i_action : action; i_energy : T; i_dir : vec3 T;
    i_secs : list secondary; i_deposit : T }.

  Definition vzero : vec3 T := V3 n0 n0 n0.
  (** Interaction::from_failure / from_absorption / from_unchanged.  Energy
      and direction of a default constructed Interaction are indeterminate in
      C++; the model reports 0 and the comparison ignores them for
      failed/unchanged (and the direction for absorbed). *)
  Definition from_failure : interaction := Inter Failed n0 vzero [] n0.
  Definition from_absorption : interaction := Inter Absorbed n0 vzero [] n0.
  Definition from_unchanged : interaction := Inter Unchanged n0 vzero [] n0.

  (** RealVecTraits<double>::min_accurate_sintheta() *)
  Definition min_acc : T := nQ 5 1000.

  (** Two frozen copies of [Base.Vec3.rotate_raw]: [rotate_raw_old] is the code as
      pinned (in the branch 0 < sintheta < min_acc, sinphi = sqrt(1 - cosphi^2)
      drops the sign of rot[Y], and x = y = 0 with sintheta > 0 by rounding gives 0/0);
      [rotate_raw_new] is the repaired code: branch on rho^2 = x^2 + y^2 > 0 and
      (cosphi, sinphi) = (x, y) / sqrt(rho^2).  [Base.Vec3.rotate_raw] is
      convertible to one of them (CommonProofs.base_rotate_is). *)
  Definition rotate_raw_old (min_acc : T) (dir rot : vec3 T) : vec3 T :=
    let sintheta := nsqrt (n1 - nsq (vz rot)) in
    let '(cosphi, sinphi) :=
      if min_acc <=? sintheta then
        let inv := n1 / sintheta in (vx rot * inv, vy rot * inv)
      else if n0 <? sintheta then
        let c := vx rot / nsqrt (nsq (vx rot) + nsq (vy rot)) in (c, nsqrt (n1 - nsq c))
      else (n1, n0) in
    let a := vz rot * vx dir + sintheta * vz dir in
    V3 (a * cosphi - sinphi * vy dir)
       (a * sinphi + cosphi * vy dir)
       (- sintheta * vx dir + vz rot * vz dir).
  Definition rotate_raw_new (min_acc : T) (dir rot : vec3 T) : vec3 T :=
    let sintheta := nsqrt (n1 - nsq (vz rot)) in
    let '(cosphi, sinphi) :=
      if min_acc <=? sintheta then
        let inv := n1 / sintheta in (vx rot * inv, vy rot * inv)
      else if n0 <? nsq (vx rot) + nsq (vy rot) then
        let inv := n1 / nsqrt (nsq (vx rot) + nsq (vy rot)) in (vx rot * inv, vy rot * inv)
      else (n1, n0) in
    let a := vz rot * vx dir + sintheta * vz dir in
    V3 (a * cosphi - sinphi * vy dir)
       (a * sinphi + cosphi * vy dir)
       (- sintheta * vx dir + vz rot * vz dir).
  Definition rotate_old (min_acc : T) (dir rot : vec3 T) := make_unit_vector (rotate_raw_old min_acc dir rot).
  Definition rotate_new (min_acc : T) (dir rot : vec3 T) := make_unit_vector (rotate_raw_new min_acc dir rot).

  (** ExitingDirectionSampler{costheta, direction}(rng):
      rotate(from_spherical(costheta, U(0, 2 pi)), direction) *)
  Definition exiting_direction (costheta : T) (dir : vec3 T) : M (vec3 T) :=
    phi <- uniform n0 twopi ;; ret (rotate min_acc (from_spherical costheta phi) dir).

  (** calc_exiting_direction({p_in, d_in}, {p_out, d_out}) *)
  Definition momentum_diff (pin : T) (din : vec3 T) (pout : T) (dout : vec3 T) : vec3 T :=
    V3 (vx din * pin - vx dout * pout) (vy din * pin - vy dout * pout) (vz din * pin - vz dout * pout).
  Definition calc_exiting_direction (pin : T) (din : vec3 T) (pout : T) (dout : vec3 T) : vec3 T :=
    make_unit_vector (momentum_diff pin din pout dout).

  (** sum of the kinetic energies of a list of secondaries *)
  Definition sec_energy_sum (l : list secondary) : T := nsum (map s_energy l).

  (** ParticleTrackView::momentum(): sqrt(E^2 + 2 m E) *)
  Definition calc_momentum (mass energy : T) : T := nsqrt (nsq energy + n2 * mass * energy).
End Common.
Arguments secondary T : clear implicits.
Arguments interaction T : clear implicits.
