(** * C04: float entry point for the CHIPS neutron elastic final state (Q^2 from the real sampler) *)
From Coq Require Import ZArith List Floats.
From Celer Require Import Base.Num Base.NumF Base.FloatFun Base.Stream Base.Vec3 C15.Samplers C04.Common C04.Chips.
Import ListNotations.

Definition run_chips (mn e : float) (d : vec3 float) (mt q2 : float) (s : list float) :=
  match chips_final (CH mn e d mt) q2 s with
  | None => None
  | Some (i, s') =>
      Some (action_code (i_action i), i_energy i, [vx (i_dir i); vy (i_dir i); vz (i_dir i)], i_deposit i,
            Z.of_nat (length (i_secs i)), Z.of_nat (length s - length s'))
  end.
