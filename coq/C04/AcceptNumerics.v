(** * Numerical facts (pure statements over R, discharged by CoqInterval) used by AcceptProofs.v
    and RayleighProofs.v.  No model code here. *)
From Coq Require Import Reals Lra.
From Interval Require Import Tactic.
Local Open Scope R_scope.

(** Bhabha rejection function in the variable y = 1/(1+gamma) in (0, 1/2] *)
Definition bhabha_G (y emin emax : R) : R :=
  1 + (emax * emax * (emax * emax) * ((1 - 2 * y) * (1 - 2 * y) * (1 - 2 * y))
       - emin * emin * emin * ((1 - 2 * y) * (1 - 2 * y) + (1 - 2 * y) * (1 - 2 * y) * (1 - 2 * y))
       + emax * emax * ((1 - 2 * y) * (3 + y * y)) - emin * (2 - y * y))
      * ((1 - 2 * y) / ((1 - y) * (1 - y))).

Lemma bhabha_G_ratio (y e : R) : 0 <= y <= 1 / 2 -> 0 <= e <= 1 ->
  1 / 10 * bhabha_G y 0 1 <= bhabha_G y e e.
Proof.
  intros Hy He.
  assert (H : 0 <= bhabha_G y e e - 1 / 10 * bhabha_G y 0 1).
  { unfold bhabha_G. interval with (i_bisect y, i_bisect e, i_depth 40, i_prec 40). }
  lra.
Qed.

Lemma bhabha_G_pos (y m : R) : 0 <= y <= 1 / 2 -> 0 <= m <= 1 -> 1 / 4 <= bhabha_G y m 1.
Proof.
  intros Hy Hm. unfold bhabha_G.
  interval with (i_bisect y, i_bisect m, i_depth 40, i_prec 40).
Qed.

(** MuBB radiative correction: alpha/(2 pi) ln^2 bounds on the applicability interval (E <= 1e8 MeV) *)
Definition alpha_c : R :=
  72973525693 / 10000000000000 / (2 * (3141592653589793238 / 1000000000000000000)).

Lemma alpha_c_pos : 0 < alpha_c.
Proof. unfold alpha_c. interval. Qed.
Lemma alpha_c_ln_a1 : alpha_c * (ln 400000000 * ln 400000000) <= 1 / 2.
Proof. unfold alpha_c. interval. Qed.
Lemma alpha_c_ln_env : alpha_c * (ln 2000000 * ln 2000000) <= 1 / 4.
Proof. unfold alpha_c. interval. Qed.

(** Rayleigh: the series form of the weight stays in [0, 1] for 0 < x0 <= 0.02, 1/100 <= n <= 50 *)
Lemma ry_series_weight_range (n x : R) : 1 / 100 <= n <= 50 -> 0 <= x <= 2 / 100 ->
  0 <= n * x * (1 - (n - 1) / 2 * x * (1 - (n - 2) / 3 * x)) <= 1.
Proof.
  intros Hn Hx.
  assert (Hf : 1 / 2 <= 1 - (n - 1) / 2 * x * (1 - (n - 2) / 3 * x))
    by (interval with (i_bisect n, i_bisect x, i_depth 30)).
  assert (Hnx : 0 <= n * x) by (apply Rmult_le_pos; lra).
  split; [apply Rmult_le_pos; lra|].
  interval with (i_bisect n, i_bisect x, i_depth 30).
Qed.

(** Bethe-Heitler witness numbers: E = 2 MeV on hydrogen (Z = 1: cbrt Z = 1, ln Z = 0, no Coulomb
    correction below 50 MeV), m_e = 0.51099891 MeV *)
Definition bhw_eps0 : R := 51099891 / 100000000 / 2.
Definition bhw_dmin : R := 544 / 1 * bhw_eps0.
Definition bhw_dmax : R := exp ((42038 / 1000 - 8 / 3 * 0) / (829 / 100)) - 958 / 1000.
Lemma bhw_facts : 14 / 10 < bhw_dmax /\ 0 < bhw_dmin < bhw_dmax /\
  bhw_eps0 <= 1 / 2 - 1 / 2 * sqrt (1 - bhw_dmin / bhw_dmax) < 1 / 2.
Proof.
  unfold bhw_dmax, bhw_dmin, bhw_eps0. repeat split; interval.
Qed.

Lemma bhw_f0_pos : 14 / 10 < bhw_dmin /\ 0 < 42038 / 1000 - 829 / 100 * ln (bhw_dmin + 958 / 1000).
Proof. unfold bhw_dmin, bhw_eps0. split; interval. Qed.
