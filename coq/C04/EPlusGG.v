(** * e+ annihilation into two gammas (src/celeritas/em/interactor/EPlusGGInteractor.hh) *)
From Coq Require Import ZArith List Bool.
From Celer Require Import Base.Num Base.Stream Base.Vec3 C15.Samplers C04.Common.
Import ListNotations.
Local Open Scope num_scope.

Section EPlusGG.
  Context {T : Type} `{Num T}.
  Notation M := (M T).

  (** electron mass [MeV], incident positron kinetic energy, direction *)
  Record ep_params := EP { ep_me : T; ep_energy : T; ep_dir : vec3 T }.

  Definition ep_tau (p : ep_params) : T := ep_energy p / ep_me p.
  Definition ep_sqgrate (tau : T) : T := nsqrt (tau / (tau + n2)) * nhalf.
  (** rejection probability of a candidate epsil *)
  Definition ep_reject_prob (tau epsil : T) : T :=
    epsil - (n2 * (tau + n1) * epsil - n1) / (epsil * nsq (tau + n2)).

  Fixpoint ep_loop (fuel : nat) (tau : T) : M T :=
    match fuel with
    | O => fail
    | S f =>
        epsil <- reciprocal (nhalf - ep_sqgrate tau) (nhalf + ep_sqgrate tau) ;;
        rej <- bernoulli (ep_reject_prob tau epsil) ;;
        if rej then ep_loop f tau else ret epsil
    end.

  (** in-flight final state from the accepted epsil *)
  Definition ep_assemble (fixed : bool) (p : ep_params) (epsil : T) : M (interaction T) :=
    let tau := ep_tau p in
    let tau2 := tau + n2 in
    (* clamp(..., -1, 1): since /repo 9ddc3d9 *)
    let cost := nclamp ((epsil * tau2 - n1) / (epsil * nsqrt (tau * tau2))) (- n1) n1 in
    let total_energy := ep_energy p + n2 * ep_me p in
    let gamma_energy := epsil * total_energy in
    let eplus_moment := nsqrt (ep_energy p * total_energy) in
    d0 <- exiting_direction cost (ep_dir p) ;;
    (* [fixed = false]: the pinned source passes {inc_energy_, inc_direction_} as the
       outgoing momentum, so the second gamma always leaves along the incident direction;
       [fixed = true]: repaired code, {gamma_energy, secondaries[0].direction} *)
    let d1 := if fixed then calc_exiting_direction eplus_moment (ep_dir p) gamma_energy d0
              else calc_exiting_direction eplus_moment (ep_dir p) (ep_energy p) (ep_dir p) in
    ret (Inter Absorbed n0 vzero
           [Sec PGamma gamma_energy d0; Sec PGamma (total_energy - gamma_energy) d1] n0).

  (** annihilation at rest: two back-to-back gammas of energy m c^2 *)
  Definition ep_at_rest (p : ep_params) : M (interaction T) :=
    d <- isotropic ;;
    ret (Inter Absorbed n0 vzero [Sec PGamma (ep_me p) d; Sec PGamma (ep_me p) (vneg d)] n0).

  Definition ep_sample (fixed : bool) (p : ep_params) (a : alloc) : M (interaction T * alloc) :=
    fun s =>
    match allocate 2 a with
    | None => Some ((from_failure, a), s)
    | Some a' =>
        (if ep_energy p =? n0 then r <- ep_at_rest p ;; ret (r, a')
         else epsil <- ep_loop (length s) (ep_tau p) ;; r <- ep_assemble fixed p epsil ;; ret (r, a')) s
    end.
End EPlusGG.
Arguments ep_params T : clear implicits.
