(** * C05 property theorems — statements only; proofs live in C05/StepProofs*.v. *)
From Coq Require Import Reals ZArith List Bool.
From Celer Require Import Base.Num Base.NumR Base.Vec3 C01.LedgerModel
  C05.StepModel C05.StepProofs C05.StepProofs2 C05.StepRefute C05.StatusCheck C05.StatusCheckProofs
  C05.MfpProofs C05.Boundary C05.BoundaryProofs.
From Celer Require Import Base.Stream C15.Samplers C05.MscLimit C05.MscLimitProofs.
Import ListNotations.
Local Open Scope R_scope.

(** SimTrackView::step_limit only ever lowers the limit (strictly smaller wins) *)
Theorem C05_step_limit_only_lowers : forall st a (s : sim R),
  let '(s', lim) := step_limit st a s in
  mstep s' <= mstep s
  /\ (lim = true -> st < mstep s /\ mstep s' = st /\ mpost s' = a)
  /\ (lim = false -> mstep s <= st /\ s' = s).
Proof. exact step_limit_only_lowers. Qed.
Print Assumptions C05_step_limit_only_lowers.

(** every state after pre-step keeps step length <= the physics limit of pre-step *)
Theorem C05_limit_only_shrinks : forall fixed i (s : sim R),
  mstat s <> Errored ->
  Forall (fun x => mstep x <= in_phys_step i) (tl (step_trace fixed i s)).
Proof. exact limit_only_shrinks. Qed.
Print Assumptions C05_limit_only_shrinks.

Theorem C05_status_monotone : forall fixed i (s : sim R),
  (mstat s = Initializing \/ mstat s = Alive \/ mstat s = Errored) ->
  mono_chain (step_trace fixed i s).
Proof. exact status_monotone. Qed.
Print Assumptions C05_status_monotone.

Theorem C05_steps_join : forall fixed ins (s : sim R), joined (run_steps fixed ins s).
Proof. exact steps_join. Qed.
Print Assumptions C05_steps_join.

Theorem C05_time_nondecreasing : forall fixed i (s : sim R),
  0 <= in_phys_step i -> 0 <= in_next i ->
  let '(pre, _, s1) := one_step fixed i s in ptime pre <= mtime s1.
Proof. exact time_nondecreasing. Qed.
Print Assumptions C05_time_nondecreasing.

Theorem C05_energy_nonincreasing : forall fixed i (s : sim R),
  0 <= mE s -> 0 <= in_eloss i <= mE s ->
  0 <= iE (in_inter i) <= mE (along_step_act i (pre_step i s)) ->
  let '(pre, _, s1) := one_step fixed i s in mE s1 <= pE pre /\ 0 <= mE s1.
Proof. exact energy_nonincreasing. Qed.
Print Assumptions C05_energy_nonincreasing.

(** full strength for the repaired failure branch ([fixed = true]: the branch only sets
    the post-step action) *)
Theorem C05_step_positive_or_stopped : forall i (s : sim R),
  (mstat s = Initializing \/ mstat s = Alive) ->
  0 < in_next i ->
  (0 < in_phys_step i \/ (in_phys_step i = 0 /\ mE s = 0)) ->
  let '(pre, _, s1) := one_step true i s in
  0 < mstep s1 \/ (mstep s1 = 0 /\ pE pre = 0).
Proof. intros i s Hs. apply step_positive_or_stopped; auto. Qed.
Print Assumptions C05_step_positive_or_stopped.

(** the branch as it was when finding F5 was made ([fixed = false]): only when the
    interaction did not fail to allocate; see the refutation below *)
Theorem C05_step_positive_or_stopped_old_partial : forall i (s : sim R),
  (mstat s = Initializing \/ mstat s = Alive) ->
  iact (in_inter i) <> IFailed ->
  0 < in_next i ->
  (0 < in_phys_step i \/ (in_phys_step i = 0 /\ mE s = 0)) ->
  let '(pre, _, s1) := one_step false i s in
  0 < mstep s1 \/ (mstep s1 = 0 /\ pE pre = 0).
Proof. intros i s Hs Hf. apply step_positive_or_stopped; auto. Qed.
Print Assumptions C05_step_positive_or_stopped_old_partial.

Theorem C05_volume_changes_only_at_boundary : forall fixed i (s : sim R),
  let '(pre, _, s1) := one_step fixed i s in
  pvol pre <> mvol s1 -> mpost s1 = ABoundary.
Proof. exact volume_changes_only_at_boundary. Qed.
Print Assumptions C05_volume_changes_only_at_boundary.

(** full strength for the repaired failure branch *)
Theorem C05_step_ge_displacement : forall i (s : sim R),
  (mstat s = Initializing \/ mstat s = Alive) ->
  dot (mdir s) (mdir s) = 1 -> 0 < in_next i -> 0 <= in_phys_step i ->
  let '(pre, _, s1) := one_step true i s in
  distance (ppos pre) (mpos s1) <= mstep s1.
Proof. intros i s Hs. apply step_ge_displacement; auto. Qed.
Print Assumptions C05_step_ge_displacement.

Theorem C05_step_ge_displacement_old_partial : forall i (s : sim R),
  (mstat s = Initializing \/ mstat s = Alive) ->
  iact (in_inter i) <> IFailed ->
  dot (mdir s) (mdir s) = 1 -> 0 < in_next i -> 0 <= in_phys_step i ->
  let '(pre, _, s1) := one_step false i s in
  distance (ppos pre) (mpos s1) <= mstep s1.
Proof. intros i s Hs Hf. apply step_ge_displacement; auto. Qed.
Print Assumptions C05_step_ge_displacement_old_partial.

(** the faithful model of InteractionApplier's OLD allocation-failure branch
    ([sim.step_limit({0, failure})], [fixed = false]) REFUTES
    "step length >= displacement" and "step length positive unless stopped":
    the track has moved, is alive with E > 0, and its step length reads 0 (F5) *)
Theorem C05_step_ge_displacement_refuted :
  exists (i : sinput R) (s : sim R),
    mstat s = Alive /\ dot (mdir s) (mdir s) = 1 /\ 0 < in_next i /\ 0 < in_phys_step i
    /\ 0 < mE s /\ iact (in_inter i) = IFailed
    /\ let '(pre, _, s1) := one_step false i s in
       mstep s1 = 0 /\ mstep s1 < distance (ppos pre) (mpos s1) /\ 0 < pE pre
       /\ mstat s1 = Alive.
Proof. exact step_ge_displacement_refuted. Qed.
Print Assumptions C05_step_ge_displacement_refuted.

(** PropagationApplier: a boundary hit always selects the boundary action (also when the
    distance equals the pre-step physics limit), otherwise the step only shrinks *)
Theorem C05_propagation_boundary_sets_action : forall d (s : sim R),
  mstep s <> 0 ->
  let s' := propagation_result_apply d true s in
  mpost s' = ABoundary /\ mstep s' = d.
Proof. exact propagation_boundary_sets_action. Qed.
Print Assumptions C05_propagation_boundary_sets_action.

Theorem C05_propagation_result_step_le : forall d b (s : sim R),
  (b = true -> d <= mstep s) ->
  mstep (propagation_result_apply d b s) <= mstep s.
Proof. exact propagation_result_step_le. Qed.
Print Assumptions C05_propagation_result_step_le.

(** MscStepLimitApplier/MscApplier: MSC is applied back only on steps on which it limited *)
Theorem C05_msc_apply_only_after_limit : forall t g (s : sim R) (m : mscstep R),
  (let '(s1, m1) := msc_limit_act false t g s m in
   msc_apply_act s1 m1 = (s, false))
  /\ (mstat s = Alive -> 0 < g ->
      let '(s1, m1) := msc_limit_act true t g s m in
      snd (msc_apply_act s1 m1) = true /\ mstep (fst (msc_apply_act s1 m1)) = t).
Proof. exact msc_apply_only_after_limit. Qed.
Print Assumptions C05_msc_apply_only_after_limit.

(** calc_physics_step_limit: a stopped particle gets (0, discrete action); consequently a
    stopped live track takes a zero-length step IN PLACE that is handed to discrete-select
    and then to the selected (at-rest) interaction -- never to a pure step limiter *)
Theorem C05_stopped_particle_interacts_at_rest :
  forall fixed i (s : sim R) mfp xs has_eloss eloss_step fixed_limit no_processes,
  (mstat s = Initializing \/ mstat s = Alive) ->
  mE s = 0 ->
  (in_phys_step i, in_phys_action i)
    = calc_physics_step_limit true mfp xs has_eloss eloss_step fixed_limit no_processes ->
  let a := along_step_act i (pre_step i s) in
  mstep a = 0 /\ mpost a = ADiscrete /\ mpos a = mpos s /\ mtime a = mtime s /\ mE a = 0
  /\ mstat a = Alive
  /\ mpost (discrete_select i a) = in_select i
  /\ (in_select i = AModel ->
      mpost (interact_act fixed i (discrete_select i a)) = AModel
      \/ mpost (interact_act fixed i (discrete_select i a)) = AFailure).
Proof. exact stopped_particle_interacts_at_rest. Qed.
Print Assumptions C05_stopped_particle_interacts_at_rest.

Theorem C05_physics_limit_le_mfp : forall mfp xs he es fx np,
  fst (calc_physics_step_limit (T:=R) false mfp xs he es fx np) <= mfp / xs.
Proof. exact calc_limit_le_mfp. Qed.
Print Assumptions C05_physics_limit_le_mfp.

(** ** the repo's own debug checker (track/detail/StatusCheckExecutor.hh)

    [status_check] mirrors the executor condition by condition; [check_step] applies it
    after every action of one iteration of the step model (pre-step, along-step kernel,
    discrete-select, interaction, boundary, tracking cut).  For every conforming input
    (live slot; physics limit action in {range, discrete, fixed limiter}; discrete
    selection yields a model or the rejection/failure action; a track that failed its
    initialisation carries the tracking-cut action) and every action registry in which
    discrete-select is a pre_post action, models/boundary/tracking-cut are post actions
    and range/failure/limiter actions are implicit, EVERY call passes: enabling the
    checker cannot throw on a conforming history.
    Checker condition -> C05 clause: "status was improperly reverted" and "cannot be
    initializing after pre-step" = "within one step a track's status only moves forward"
    ([C05_status_monotone]); "missing post-step action" / "out of order" = the step limit
    and the action that set it are chosen in pre-step and only replaced by a later-ordered
    limiter ([C05_limit_only_shrinks], [C05_step_limit_only_lowers]); "missing / changed
    along-step action" = the along-step variant is fixed in pre-step (no clause of its own). *)
Theorem C05_status_checker_accepts_model :
  forall tb orders along0 fixed (i : sinput R) (s : sim R),
  table_ok tb orders -> conforming i s ->
  Forall (fun r => r = CPass) (check_step tb orders noinf along0 fixed i s).
Proof. exact status_checker_accepts_model. Qed.
Print Assumptions C05_status_checker_accepts_model.

(** non-vacuity: a registry and an input satisfy the hypotheses; and the checker model
    does reject each kind of non-conforming transition *)
Theorem C05_status_checker_nonvacuous :
  table_ok ex_tb ex_orders /\ conforming ex_input (ex_sim Initializing ANone).
Proof. exact (conj ex_table_ok ex_conforming). Qed.
Print Assumptions C05_status_checker_nonvacuous.

(** ** interaction-MFP bookkeeping (PhysicsTrackView::interaction_mfp: PreStepExecutor,
    calc_physics_step_limit, TrackUpdater, DiscreteSelectExecutor) *)

(** the remaining MFP never becomes negative when the pre-step limit is <= mfp/xs
    ([C05_physics_limit_le_mfp]) -- the along-step can only shorten the step *)
Theorem C05_mfp_stays_nonneg : forall i (s0 : sim R),
  mstat s0 = Alive -> 0 < in_xs i -> 0 <= mmfp s0 ->
  mstep s0 <= mmfp s0 / in_xs i ->
  0 <= mmfp (along_step_act i s0).
Proof. exact mfp_stays_nonneg. Qed.
Print Assumptions C05_mfp_stays_nonneg.

(** TrackUpdater's CELER_ASSERT(mfp > 0): holds whenever the step ends strictly before
    the interaction point *)
Theorem C05_mfp_stays_positive : forall i (s0 : sim R),
  mstat s0 = Alive -> 0 < in_xs i -> 0 < mmfp s0 ->
  mstep (along_step_act i s0) < mmfp s0 / in_xs i ->
  0 < mmfp (along_step_act i s0).
Proof. exact mfp_stays_positive. Qed.
Print Assumptions C05_mfp_stays_positive.

(** a moving particle reaches discrete-select EXACTLY when the interaction limit of
    calc_physics_step_limit won and nothing shortened the step; the MFP is then exhausted *)
Theorem C05_discrete_selected_iff_mfp_exhausted :
  forall mfp xs he es fx np i (s0 : sim R),
  mstat s0 = Alive -> 0 < xs -> in_xs i = xs -> mmfp s0 = mfp ->
  (mstep s0, mpost s0) = calc_physics_step_limit false mfp xs he es fx np ->
  mstep s0 <> 0 ->
  mE (along_step i s0) <> 0 ->
  (mpost (along_step_act i s0) = ADiscrete
   <-> (mpost s0 = ADiscrete /\ mstep s0 < in_next i))
  /\ (mpost (along_step_act i s0) = ADiscrete ->
      mmfp s0 - mstep (along_step_act i s0) * in_xs i = 0).
Proof. exact discrete_selected_iff_mfp_exhausted. Qed.
Print Assumptions C05_discrete_selected_iff_mfp_exhausted.

(** discrete-select resets the MFP, the next pre-step samples a new one exactly then *)
Theorem C05_mfp_reset_and_resampled : forall i i' (s : sim R),
  mpost s = ADiscrete -> mstat s = Alive ->
  mmfp (discrete_select i s) = 0
  /\ mmfp (pre_step i' (discrete_select i s)) = in_newmfp i'
  /\ (0 < mmfp s -> mmfp (pre_step i' s) = mmfp s).
Proof. exact mfp_reset_and_resampled. Qed.
Print Assumptions C05_mfp_reset_and_resampled.

(** ** the failure branches of BoundaryExecutor (geometry failure / volume without
    material -> CoreTrackView::apply_errored -> tracking cut in the same iteration) *)
Theorem C05_boundary_failure_is_cut : forall gf nm i (s : sim R),
  mpost s = ABoundary -> mstat s = Alive ->
  (gf = true \/ (nm = true /\ in_nextvol i <> None)) ->
  let s' := tracking_cut_act (boundary_act_full gf nm i s) in
  mstat s' = Killed /\ mE s' = 0
  /\ mdep s' - mdep s = weight (mkTrack (mE s) (mm s) (manti s))
  /\ mstep s' = mstep s /\ mtime s' = mtime s /\ mpos s' = mpos s.
Proof. exact boundary_failure_is_cut. Qed.
Print Assumptions C05_boundary_failure_is_cut.

Theorem C05_boundary_full_status_forward : forall gf nm i (s : sim R),
  mstat s = Alive -> (rank (mstat s) <= rank (mstat (boundary_act_full gf nm i s)))%nat.
Proof. exact boundary_act_full_stat. Qed.
Print Assumptions C05_boundary_full_status_forward.

Theorem C05_boundary_full_extends_model : forall i (s : sim R),
  boundary_act_full false false i s = boundary_act i s.
Proof. exact boundary_act_full_ok. Qed.
Print Assumptions C05_boundary_full_extends_model.

(** ** Urban MSC true-path limiters (em/msc/detail/UrbanMsc{Safety,Minimal}StepLimit.hh):
    for EVERY input and EVERY random stream the returned true path never exceeds the physics
    step limit chosen in pre-step (it is exactly that limit when it is the shorter one),
    given limit_min <= limit, which both constructors establish *)
Theorem C05_msc_step_limit_le_physics_limit :
  forall (max_step limit limit_min : R) (s : list R) r s',
  limit_min <= limit ->
  msc_true_path_limit max_step limit limit_min s = Some (r, s') ->
  r <= max_step /\ (max_step <= limit -> r = max_step) /\ (limit_min <= max_step -> limit_min <= r).
Proof. exact msc_step_limit_le_physics_limit. Qed.
Print Assumptions C05_msc_step_limit_le_physics_limit.

(** composed with the "safety" / "safety plus" constructor: no hypothesis left *)
Theorem C05_msc_safety_step_limit_le_physics_limit :
  forall usp phys_step range safety rf ri sf lmin rho alpha (s : list R) r s',
  msc_true_path_limit (safety_plus_max_step usp phys_step range rho alpha)
                      (safety_limit range safety rf ri sf lmin) lmin s = Some (r, s') ->
  r <= phys_step.
Proof. exact msc_safety_step_limit_le_physics_limit. Qed.
Print Assumptions C05_msc_safety_step_limit_le_physics_limit.

Theorem C05_msc_minimal_limit_ge_min : forall ob (ri rf range mfp lmin : R),
  lmin <= ri -> lmin <= minimal_limit ob ri rf range mfp lmin.
Proof. exact minimal_limit_ge_min. Qed.
Print Assumptions C05_msc_minimal_limit_ge_min.

(** non-vacuity: the collapsed case (limit = limit_min = 4) with a shorter physics limit 1
    returns the physics limit; with a longer one (9) it returns limit_min *)
Theorem C05_msc_limit_examples :
  msc_true_path_limit (T:=R) 1 4 4 [] = Some (1, []) /\ msc_true_path_limit (T:=R) 9 4 4 [] = Some (4, []).
Proof. exact (conj ex_collapsed ex_min_returned). Qed.
Print Assumptions C05_msc_limit_examples.
