(** * C05 property theorems — statements only; proofs live in C05/StepProofs*.v. *)
From Coq Require Import Reals ZArith List Bool.
From Celer Require Import Base.Num Base.NumR Base.Vec3 C01.LedgerModel
  C05.StepModel C05.StepProofs C05.StepProofs2 C05.StepRefute.
Import ListNotations.
Local Open Scope R_scope.

(** SimTrackView::step_limit only ever lowers the limit (strictly smaller wins) *)
Theorem C05_step_limit_only_lowers : forall st a (s : sim R),
  let '(s', lim) := step_limit st a s in
  mstep s' <= mstep s
  /\ (lim = true -> st < mstep s /\ mstep s' = st /\ mpost s' = a)
  /\ (lim = false -> mstep s <= st /\ s' = s).
Proof. exact step_limit_only_lowers. Qed.
Print Assumptions C05_step_limit_only_lowers.

(** every state after pre-step keeps step length <= the physics limit of pre-step *)
Theorem C05_limit_only_shrinks : forall fixed i (s : sim R),
  mstat s <> Errored ->
  Forall (fun x => mstep x <= in_phys_step i) (tl (step_trace fixed i s)).
Proof. exact limit_only_shrinks. Qed.
Print Assumptions C05_limit_only_shrinks.

Theorem C05_status_monotone : forall fixed i (s : sim R),
  (mstat s = Initializing \/ mstat s = Alive \/ mstat s = Errored) ->
  mono_chain (step_trace fixed i s).
Proof. exact status_monotone. Qed.
Print Assumptions C05_status_monotone.

Theorem C05_steps_join : forall fixed ins (s : sim R), joined (run_steps fixed ins s).
Proof. exact steps_join. Qed.
Print Assumptions C05_steps_join.

Theorem C05_time_nondecreasing : forall fixed i (s : sim R),
  0 <= in_phys_step i -> 0 <= in_next i ->
  let '(pre, _, s1) := one_step fixed i s in ptime pre <= mtime s1.
Proof. exact time_nondecreasing. Qed.
Print Assumptions C05_time_nondecreasing.

Theorem C05_energy_nonincreasing : forall fixed i (s : sim R),
  0 <= mE s -> 0 <= in_eloss i <= mE s ->
  0 <= iE (in_inter i) <= mE (along_step_act i (pre_step i s)) ->
  let '(pre, _, s1) := one_step fixed i s in mE s1 <= pE pre /\ 0 <= mE s1.
Proof. exact energy_nonincreasing. Qed.
Print Assumptions C05_energy_nonincreasing.

(** full strength for the repaired failure branch ([fixed = true]: the branch only sets
    the post-step action) *)
Theorem C05_step_positive_or_stopped : forall i (s : sim R),
  (mstat s = Initializing \/ mstat s = Alive) ->
  0 < in_next i ->
  (0 < in_phys_step i \/ (in_phys_step i = 0 /\ mE s = 0)) ->
  let '(pre, _, s1) := one_step true i s in
  0 < mstep s1 \/ (mstep s1 = 0 /\ pE pre = 0).
Proof. intros i s Hs. apply step_positive_or_stopped; auto. Qed.
Print Assumptions C05_step_positive_or_stopped.

(** the branch as it was when finding F5 was made ([fixed = false]): only when the
    interaction did not fail to allocate; see the refutation below *)
Theorem C05_step_positive_or_stopped_old_partial : forall i (s : sim R),
  (mstat s = Initializing \/ mstat s = Alive) ->
  iact (in_inter i) <> IFailed ->
  0 < in_next i ->
  (0 < in_phys_step i \/ (in_phys_step i = 0 /\ mE s = 0)) ->
  let '(pre, _, s1) := one_step false i s in
  0 < mstep s1 \/ (mstep s1 = 0 /\ pE pre = 0).
Proof. intros i s Hs Hf. apply step_positive_or_stopped; auto. Qed.
Print Assumptions C05_step_positive_or_stopped_old_partial.

Theorem C05_volume_changes_only_at_boundary : forall fixed i (s : sim R),
  let '(pre, _, s1) := one_step fixed i s in
  pvol pre <> mvol s1 -> mpost s1 = ABoundary.
Proof. exact volume_changes_only_at_boundary. Qed.
Print Assumptions C05_volume_changes_only_at_boundary.

(** full strength for the repaired failure branch *)
Theorem C05_step_ge_displacement : forall i (s : sim R),
  (mstat s = Initializing \/ mstat s = Alive) ->
  dot (mdir s) (mdir s) = 1 -> 0 < in_next i -> 0 <= in_phys_step i ->
  let '(pre, _, s1) := one_step true i s in
  distance (ppos pre) (mpos s1) <= mstep s1.
Proof. intros i s Hs. apply step_ge_displacement; auto. Qed.
Print Assumptions C05_step_ge_displacement.

Theorem C05_step_ge_displacement_old_partial : forall i (s : sim R),
  (mstat s = Initializing \/ mstat s = Alive) ->
  iact (in_inter i) <> IFailed ->
  dot (mdir s) (mdir s) = 1 -> 0 < in_next i -> 0 <= in_phys_step i ->
  let '(pre, _, s1) := one_step false i s in
  distance (ppos pre) (mpos s1) <= mstep s1.
Proof. intros i s Hs Hf. apply step_ge_displacement; auto. Qed.
Print Assumptions C05_step_ge_displacement_old_partial.

(** the faithful model of InteractionApplier's OLD allocation-failure branch
    ([sim.step_limit({0, failure})], [fixed = false]) REFUTES
    "step length >= displacement" and "step length positive unless stopped":
    the track has moved, is alive with E > 0, and its step length reads 0 (F5) *)
Theorem C05_step_ge_displacement_refuted :
  exists (i : sinput R) (s : sim R),
    mstat s = Alive /\ dot (mdir s) (mdir s) = 1 /\ 0 < in_next i /\ 0 < in_phys_step i
    /\ 0 < mE s /\ iact (in_inter i) = IFailed
    /\ let '(pre, _, s1) := one_step false i s in
       mstep s1 = 0 /\ mstep s1 < distance (ppos pre) (mpos s1) /\ 0 < pE pre
       /\ mstat s1 = Alive.
Proof. exact step_ge_displacement_refuted. Qed.
Print Assumptions C05_step_ge_displacement_refuted.

(** PropagationApplier: a boundary hit always selects the boundary action (also when the
    distance equals the pre-step physics limit), otherwise the step only shrinks *)
Theorem C05_propagation_boundary_sets_action : forall d (s : sim R),
  mstep s <> 0 ->
  let s' := propagation_result_apply d true s in
  mpost s' = ABoundary /\ mstep s' = d.
Proof. exact propagation_boundary_sets_action. Qed.
Print Assumptions C05_propagation_boundary_sets_action.

Theorem C05_propagation_result_step_le : forall d b (s : sim R),
  (b = true -> d <= mstep s) ->
  mstep (propagation_result_apply d b s) <= mstep s.
Proof. exact propagation_result_step_le. Qed.
Print Assumptions C05_propagation_result_step_le.

(** MscStepLimitApplier/MscApplier: MSC is applied back only on steps on which it limited *)
Theorem C05_msc_apply_only_after_limit : forall t g (s : sim R) (m : mscstep R),
  (let '(s1, m1) := msc_limit_act false t g s m in
   msc_apply_act s1 m1 = (s, false))
  /\ (mstat s = Alive -> 0 < g ->
      let '(s1, m1) := msc_limit_act true t g s m in
      snd (msc_apply_act s1 m1) = true /\ mstep (fst (msc_apply_act s1 m1)) = t).
Proof. exact msc_apply_only_after_limit. Qed.
Print Assumptions C05_msc_apply_only_after_limit.

(** calc_physics_step_limit: a stopped particle gets (0, discrete action); consequently a
    stopped live track takes a zero-length step IN PLACE that is handed to discrete-select
    and then to the selected (at-rest) interaction -- never to a pure step limiter *)
Theorem C05_stopped_particle_interacts_at_rest :
  forall fixed i (s : sim R) mfp xs has_eloss eloss_step fixed_limit no_processes,
  (mstat s = Initializing \/ mstat s = Alive) ->
  mE s = 0 ->
  (in_phys_step i, in_phys_action i)
    = calc_physics_step_limit true mfp xs has_eloss eloss_step fixed_limit no_processes ->
  let a := along_step_act i (pre_step i s) in
  mstep a = 0 /\ mpost a = ADiscrete /\ mpos a = mpos s /\ mtime a = mtime s /\ mE a = 0
  /\ mstat a = Alive
  /\ mpost (discrete_select i a) = in_select i
  /\ (in_select i = AModel ->
      mpost (interact_act fixed i (discrete_select i a)) = AModel
      \/ mpost (interact_act fixed i (discrete_select i a)) = AFailure).
Proof. exact stopped_particle_interacts_at_rest. Qed.
Print Assumptions C05_stopped_particle_interacts_at_rest.

Theorem C05_physics_limit_le_mfp : forall mfp xs he es fx np,
  fst (calc_physics_step_limit (T:=R) false mfp xs he es fx np) <= mfp / xs.
Proof. exact calc_limit_le_mfp. Qed.
Print Assumptions C05_physics_limit_le_mfp.
