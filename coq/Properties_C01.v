(** * C01 property theorems — statements only; proofs live in C01/LedgerProofs.v. *)
From Coq Require Import Reals ZArith List Bool.
From Celer Require Import Base.Num Base.NumR C01.LedgerModel C01.LedgerProofs C01.LedgerExamples.
From Celer Require C02.TrackInit.
From Celer Require Import C01.InitLedger C01.InitLedgerProofs C01.InitLedgerExamples.
Import ListNotations.
Local Open Scope R_scope.

(** ElossApplier: what leaves the particle is exactly what enters the deposit *)
Theorem C01_eloss_apply_balance : forall applicable has_at_rest deposited (s : slot R),
  let s' := eloss_apply applicable has_at_rest deposited s in
  tE (strk s) = tE (strk s') + (sdep s' - sdep s)
  /\ ssecs s' = ssecs s /\ tm (strk s') = tm (strk s) /\ tanti (strk s') = tanti (strk s).
Proof. exact eloss_apply_balance. Qed.
Print Assumptions C01_eloss_apply_balance.

(** InteractionApplier incl. the production-cut loop (energy + 2mc^2 of a cut
    positron go to the deposit), for an interaction that conserves energy *)
Theorem C01_interaction_apply_balance : forall apply_post cut i (s : slot R),
  ssecs s = [] ->
  interaction_conserves (strk s) i ->
  let '(s', failed) := interaction_apply apply_post cut i s in
  weight (strk s) =
    (match sstat s' with
     | Killed => if match iact i with IAbsorbed => true | _ => false end
                 then 0 else weight (strk s')
     | _ => weight (strk s') end)
    + (sdep s' - sdep s) + sumws (ssecs s').
Proof. exact interaction_apply_balance. Qed.
Print Assumptions C01_interaction_apply_balance.

(** the production-cut loop alone: deposit + surviving weights is invariant and
    a secondary that is not below its cut survives *)
Theorem C01_cut_secondaries_balance : forall cut dep (l : list (sec R)),
  Forall (fun s => svalid s = true) l ->
  let '(d, l') := cut_secondaries cut dep l in
  d + sumws l' = dep + sumws l /\ length l' = length l.
Proof. exact cut_secondaries_total. Qed.
Print Assumptions C01_cut_secondaries_balance.

Theorem C01_cut_secondaries_keeps : forall cut dep (l : list (sec R)) s,
  In s l -> cutoff_apply cut s = false -> In s (snd (cut_secondaries cut dep l)).
Proof. exact cut_secondaries_keeps. Qed.
Print Assumptions C01_cut_secondaries_keeps.

Theorem C01_tracking_cut_balance : forall (s : slot R),
  let s' := tracking_cut_apply s in
  sdep s' - sdep s = weight (strk s) /\ tE (strk s') = 0 /\ sstat s' = Killed
  /\ ssecs s' = ssecs s.
Proof. exact tracking_cut_balance. Qed.
Print Assumptions C01_tracking_cut_balance.

(** the property, first sentence: for EVERY history from ANY multiset of primaries *)
Theorem C01_event_energy_conserved : forall (primaries : list (track R)) (h : list (event R)),
  history_ok h (init_ledger primaries) ->
  let L := run h (init_ledger primaries) in
  sumw primaries = deposited L + escaped L + sumw (live L) + sumws (pending L).
Proof. exact event_energy_conserved. Qed.
Print Assumptions C01_event_energy_conserved.

Theorem C01_event_energy_conserved_complete : forall (primaries : list (track R)) h,
  history_ok h (init_ledger primaries) ->
  let L := run h (init_ledger primaries) in
  live L = [] -> pending L = [] ->
  sumw primaries = deposited L + escaped L.
Proof. exact event_energy_conserved_complete. Qed.
Print Assumptions C01_event_energy_conserved_complete.

(** the property, second sentence: per track *)
Theorem C01_track_energy_balance : forall (t : track R) (h : list (tevent R)),
  thistory_ok h (mkTL (Some t) 0 [] 0) ->
  let L := tl_run h (mkTL (Some t) 0 [] 0) in
  weight t - weight_opt (cur L) = tdep L + sumws (tsecs L) + tesc L.
Proof. exact track_energy_balance. Qed.
Print Assumptions C01_track_energy_balance.

Theorem C01_eloss_le_energy : forall apply_cut lowest E mean (s : slot R) a r,
  tE (strk s) = E -> 0 <= mean <= E ->
  let d := mean_eloss_cut apply_cut lowest E mean in
  let s' := eloss_apply a r d s in
  0 <= d <= E /\ 0 <= sdep s' - sdep s <= E /\ 0 <= tE (strk s') <= E.
Proof. exact eloss_le_energy. Qed.
Print Assumptions C01_eloss_le_energy.

Theorem C01_fluct_eloss_le_energy : forall apply_cut lowest E mean sampled hmean,
  0 <= mean <= E -> 0 <= sampled -> 0 <= hmean < E ->
  0 <= fluct_eloss_cut apply_cut lowest E mean sampled hmean <= E.
Proof. exact fluct_eloss_cut_bounds. Qed.
Print Assumptions C01_fluct_eloss_le_energy.

(** the tracking-cut rule of MeanELoss: a track that starts or would end at or
    below lowest_electron_energy deposits everything, hence never stays alive
    below the cut *)
Theorem C01_mean_eloss_cut_rule : forall lowest E mean,
  ((E < lowest \/ E - mean <= lowest) -> mean_eloss_cut true lowest E mean = E)
  /\ (let d := mean_eloss_cut true lowest E mean in d = E \/ lowest < E - d).
Proof. intros; split; [apply mean_eloss_cut_all | apply mean_eloss_cut_post]. Qed.
Print Assumptions C01_mean_eloss_cut_rule.

Theorem C01_range_step_deposits_all :
  forall lowest E rate lll step inv_range apply_cut (s : slot R) r,
  tE (strk s) = E -> 0 < E -> E * lll <= step * rate ->
  let mean := calc_mean_energy_loss E step rate lll step inv_range in
  let s' := eloss_apply true r (mean_eloss_cut apply_cut lowest E mean) s in
  sdep s' - sdep s = E /\ tE (strk s') = 0 /\
  (r = false -> sstat s' = Killed) /\ (r = true -> spost s' = ADiscrete).
Proof. exact range_step_deposits_all. Qed.
Print Assumptions C01_range_step_deposits_all.

(** non-vacuity: a concrete cascade satisfies [history_ok] with every summand non-zero *)
Theorem C01_example_history_nonvacuous :
  history_ok ex_history (init_ledger ex_primaries)
  /\ let L := run ex_history (init_ledger ex_primaries) in
     live L = [] /\ pending L = [] /\ 0 < deposited L /\ 0 < escaped L
     /\ sumw ex_primaries = deposited L + escaped L.
Proof. exact example_history_nonvacuous. Qed.
Print Assumptions C01_example_history_nonvacuous.

(** ** composition with the concrete slot / initializer-stack machine of C02
    ([C02.TrackInit.step] itself advances the machine state; the energy payload is
    attached to the identity of each track record -- see C01/InitLedger.v) *)

(** over EVERY op sequence of the concrete machine (primaries inserted, tracks
    initialised from the stack in LIFO or charge-partitioned order, incl. the
    in-place initialisation of the first secondary in a dying parent's slot,
    physics outcomes computed from the energy events, extend-from-secondaries,
    reseed): live slots + queued initializers + secondaries pending in the slots
    + deposited + escaped = weight of the primaries inserted.  [eexec = Some]:
    no step was a protocol misuse or threw (capacity CELER_VALIDATE). *)
Theorem C01_machine_energy_conserved :
  forall (cfg : TrackInit.config) (ops : list (eop R)) (E : estate R),
  eops_ok cfg (einit cfg) ops ->
  eexec cfg (einit cfg) ops = Some E ->
  edep E + eesc E + slots_w (ebook E) (TrackInit.slots (es E))
  + tracks_w (ebook E) (TrackInit.stack (es E))
  + (if TrackInit.phase_eqb (TrackInit.ph (es E)) TrackInit.Interacted
     then pend_w (TrackInit.slots (es E)) (epend E) else 0)
  = inserted_w ops.
Proof. exact machine_energy_conserved. Qed.
Print Assumptions C01_machine_energy_conserved.

Theorem C01_machine_energy_conserved_complete :
  forall (cfg : TrackInit.config) (ops : list (eop R)) (E : estate R),
  eops_ok cfg (einit cfg) ops ->
  eexec cfg (einit cfg) ops = Some E ->
  TrackInit.ph (es E) = TrackInit.Ready -> TrackInit.drained (es E) = true ->
  inserted_w ops = edep E + eesc E.
Proof. exact machine_energy_conserved_complete. Qed.
Print Assumptions C01_machine_energy_conserved_complete.

(** every single machine step preserves the invariant (incl. the C02 invariants) *)
Theorem C01_machine_step_invariant :
  forall (cfg : TrackInit.config) (E E' : estate R) (o : eop R),
  EInv cfg E ->
  (match o with EPhysics hs => phys_ok (ebook E) (TrackInit.slots (es E)) hs | _ => True end) ->
  estep cfg E o = Some E' -> EInv cfg E'.
Proof. exact EInv_estep. Qed.
Print Assumptions C01_machine_step_invariant.

(** non-vacuity: under both track orders a 20 MeV electron is absorbed, its two
    secondaries are initialised (in place + from the stack, or both from the stack)
    and the machine drains with deposit + escape = 20, both non-zero *)
Theorem C01_example_machine_nonvacuous :
  forall charge, exists E,
    eops_ok (ex_cfg charge) (einit (ex_cfg charge)) (ex_ops [[TCut]; [TExit]])
    /\ eexec (ex_cfg charge) (einit (ex_cfg charge)) (ex_ops [[TCut]; [TExit]]) = Some E
    /\ TrackInit.ph (es E) = TrackInit.Ready /\ TrackInit.drained (es E) = true
    /\ 0 < edep E /\ 0 < eesc E
    /\ inserted_w (ex_ops [[TCut]; [TExit]]) = 20 /\ edep E + eesc E = 20.
Proof. exact example_machine_nonvacuous. Qed.
Print Assumptions C01_example_machine_nonvacuous.

Theorem C01_example_in_place_initialisation :
  exists E, eexec (ex_cfg false) (einit (ex_cfg false)) (firstn 4 (ex_ops [])) = Some E
    /\ slot_tracks E = [(TrackInit.Inactive, None); (TrackInit.Initializing, Some (mkTrack 8 0 false))]
    /\ stack_tracks E = [mkTrack 10 1 false].
Proof. exact ex_lifo_in_place. Qed.
Print Assumptions C01_example_in_place_initialisation.
