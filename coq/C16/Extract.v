(** extraction of the C16 allocator model (ExtrOcamlBasic only) *)
From Coq Require Import Extraction ExtrOcamlBasic.
From Celer Require Import C16.Allocator C16.StepStack.
Extraction Language OCaml.
Extraction "c16model.ml" run_alloc run_steps.
