(** extraction of the C16 allocator model (ExtrOcamlBasic only) *)
From Coq Require Import Extraction ExtrOcamlBasic.
From Celer Require Import C16.Allocator.
Extraction Language OCaml.
Extraction "c16model.ml" run_alloc.
