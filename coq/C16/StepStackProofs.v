(** * C16: proofs about the per-step use of the secondary stack *)
From Coq Require Import List Arith Bool PeanoNat Lia.
From Celer Require Import C16.Allocator C16.AllocatorProofs C16.StepStack.
Import ListNotations.

(** ** capacity rule *)
Lemma secondary_capacity_floor : forall slots p q,
  0 < q ->
  (secondary_capacity slots p q = None <-> p = 0) /\
  (forall c, secondary_capacity slots p q = Some c ->
     0 < p /\ q * c <= slots * p < q * (c + 1) /\ (c = 0 <-> slots * p < q)).
Proof.
  intros slots p q Hq. unfold secondary_capacity. destruct (p =? 0) eqn:E.
  - apply Nat.eqb_eq in E. split; [split; auto|]. intros c H. discriminate.
  - apply Nat.eqb_neq in E. split; [split; [discriminate|contradiction]|].
    intros c H. inversion H; subst c; clear H. split; [lia|].
    pose proof (Nat.div_mod (slots * p) q ltac:(lia)) as Hd.
    pose proof (Nat.mod_upper_bound (slots * p) q ltac:(lia)) as Hm.
    split; [nia|]. split; intros Hc.
    + rewrite Hc in Hd. lia.
    + apply Nat.div_small. exact Hc.
Qed.

(** ** pre-step *)
Fixpoint clear_spans (ks : list skind) (sps : list span) : list span :=
  match ks, sps with
  | k :: kr, sp :: sr => (match k with SInactive => sp | _ => None end) :: clear_spans kr sr
  | _, _ => []
  end.

Lemma pre_step_all_S : forall ks sps tid a,
  pre_step_all (S tid) a ks sps = (a, clear_spans ks sps).
Proof.
  induction ks as [|k kr IH]; intros sps tid a; [reflexivity|].
  destruct sps as [|sp sr]; [reflexivity|]. cbn [pre_step_all clear_spans].
  unfold pre_step_thread. cbn [Nat.eqb]. destruct k; rewrite IH; reflexivity.
Qed.

(** thread 0 clears the stack (storage untouched), every non-inactive slot
    starts the step with an empty span *)
Lemma pre_step_all_0 : forall k kr sp sr a,
  pre_step_all 0 a (k :: kr) (sp :: sr) = (mkA 0 (a_store a), clear_spans (k :: kr) (sp :: sr)).
Proof.
  intros. cbn [pre_step_all clear_spans]. unfold pre_step_thread. cbn [Nat.eqb].
  destruct k; rewrite pre_step_all_S; reflexivity.
Qed.

Lemma clear_spans_length : forall ks sps, length ks = length sps -> length (clear_spans ks sps) = length ks.
Proof.
  induction ks as [|k kr IH]; intros sps H; destruct sps as [|sp sr]; cbn in *; try lia. rewrite IH; lia.
Qed.

(** ** the allocation of one slot depends on size and capacity only *)
Lemma astep_alloc_sim : forall a a' n t,
  a_size a = a_size a' -> a_cap a = a_cap a' ->
  snd (astep_alloc a n t) = snd (astep_alloc a' n t) /\
  a_size (fst (astep_alloc a n t)) = a_size (fst (astep_alloc a' n t)) /\
  a_cap (fst (astep_alloc a n t)) = a_cap (fst (astep_alloc a' n t)).
Proof.
  intros [sz st] [sz' st'] n t Hs Hc. unfold a_cap in *. cbn [a_size a_store] in *. subst sz'.
  unfold astep_alloc, alloc, a_cap. cbn [a_size a_store]. rewrite <- Hc.
  destruct (length st <? sz + n); cbn [fst snd a_size a_store].
  - auto.
  - rewrite !fill_length. auto.
Qed.

(** observable part of a step's result: allocator size, failure flags, spans
    of the slots that take part in the step *)
Fixpoint live_spans (rs : list sreq) (sps : list span) : list span :=
  match rs, sps with
  | r :: rr, sp :: sr => (match r_kind r with SInactive => None | _ => sp end) :: live_spans rr sr
  | _, _ => []
  end.

Lemma interact_all_sim : forall rs sps sps' a a',
  a_size a = a_size a' -> a_cap a = a_cap a' ->
  live_spans rs sps = live_spans rs sps' -> length sps = length rs -> length sps' = length rs ->
  let r := interact_all a sps rs in
  let r' := interact_all a' sps' rs in
  a_size (fst (fst r)) = a_size (fst (fst r')) /\ a_cap (fst (fst r)) = a_cap (fst (fst r')) /\
  snd r = snd r' /\ live_spans rs (snd (fst r)) = live_spans rs (snd (fst r')).
Proof.
  induction rs as [|q rr IH]; intros sps sps' a a' Hs Hc Hl L1 L2; cbn zeta.
  - destruct sps, sps'; cbn in *; auto; lia.
  - destruct sps as [|sp sr]; [cbn in L1; lia|]. destruct sps' as [|sp' sr']; [cbn in L2; lia|].
    cbn [live_spans] in Hl. injection Hl as Hh Ht.
    cbn [interact_all].
    assert (Hslot : let x := interact_slot a sp q in let x' := interact_slot a' sp' q in
                    a_size (fst (fst x)) = a_size (fst (fst x')) /\ a_cap (fst (fst x)) = a_cap (fst (fst x')) /\
                    snd x = snd x' /\
                    (match r_kind q with SInactive => None | _ => snd (fst x) end)
                    = (match r_kind q with SInactive => None | _ => snd (fst x') end)).
    { cbn zeta. unfold interact_slot. destruct (r_kind q) eqn:Hk; cbn [fst snd]; auto.
      destruct (r_count q) as [|k]; cbn [fst snd]; [auto|].
      destruct (astep_alloc_sim a a' (S k) (r_tag q) Hs Hc) as (R1 & R2 & R3).
      destruct (astep_alloc a (S k) (r_tag q)) as [b res]. destruct (astep_alloc a' (S k) (r_tag q)) as [b' res'].
      cbn [fst snd] in *. subst res'. destruct res; cbn [fst snd]; auto. }
    cbn zeta in Hslot. destruct Hslot as (S1 & S2 & S3 & S4).
    destruct (interact_slot a sp q) as [[a1 sp1] f1]. destruct (interact_slot a' sp' q) as [[a1' sp1'] f1'].
    cbn [fst snd] in *.
    specialize (IH sr sr' a1 a1' S1 S2 Ht ltac:(cbn in L1; lia) ltac:(cbn in L2; lia)). cbn zeta in IH.
    destruct IH as (I1 & I2 & I3 & I4).
    destruct (interact_all a1 sr rr) as [[a2 sr2] fr2]. destruct (interact_all a1' sr' rr) as [[a2' sr2'] fr2'].
    cbn [fst snd live_spans] in *. subst. rewrite S4, I4. auto.
Qed.

Lemma live_spans_clear : forall rs sps sps', length sps = length rs -> length sps' = length rs ->
  live_spans rs (clear_spans (map r_kind rs) sps) = live_spans rs (clear_spans (map r_kind rs) sps').
Proof.
  induction rs as [|q rr IH]; intros sps sps' L1 L2; [reflexivity|].
  destruct sps as [|sp sr]; [cbn in L1; lia|]. destruct sps' as [|sp' sr']; [cbn in L2; lia|].
  cbn [map clear_spans live_spans]. rewrite (IH sr sr') by (cbn in *; lia).
  destruct (r_kind q); reflexivity.
Qed.

(** step_independent: whatever the previous steps left in the stack and in
    the spans, a step's allocator size, failure flags and live spans are those
    of the same step run on any other stack of the same capacity *)
Lemma step_independent : forall rs a a' sps sps',
  rs <> [] -> a_cap a = a_cap a' -> length sps = length rs -> length sps' = length rs ->
  let r := step_stack a sps rs in
  let r' := step_stack a' sps' rs in
  a_size (fst (fst r)) = a_size (fst (fst r')) /\ snd r = snd r' /\
  live_spans rs (snd (fst r)) = live_spans rs (snd (fst r')).
Proof.
  intros rs a a' sps sps' Hne Hc L1 L2. cbn zeta. unfold step_stack.
  destruct rs as [|q rr]; [contradiction|].
  destruct sps as [|sp sr]; [cbn in L1; lia|]. destruct sps' as [|sp' sr']; [cbn in L2; lia|].
  cbn [map]. rewrite !pre_step_all_0.
  pose proof (interact_all_sim (q :: rr) (clear_spans (r_kind q :: map r_kind rr) (sp :: sr))
                (clear_spans (r_kind q :: map r_kind rr) (sp' :: sr'))
                (mkA 0 (a_store a)) (mkA 0 (a_store a')) eq_refl Hc) as H.
  cbn zeta in H. destruct H as (H1 & _ & H3 & H4).
  - exact (live_spans_clear (q :: rr) (sp :: sr) (sp' :: sr') L1 L2).
  - change (r_kind q :: map r_kind rr) with (map r_kind (q :: rr)). rewrite clear_spans_length; rewrite map_length; auto.
  - change (r_kind q :: map r_kind rr) with (map r_kind (q :: rr)). rewrite clear_spans_length; rewrite map_length; auto.
  - auto.
Qed.

(** ** within a step: contiguous, disjoint, intact *)

(** the spans of the slots taking part in the step tile [lo, hi) in slot
    order, each has the requested length and still holds the items its slot
    wrote *)
Fixpoint spans_ok (lo : nat) (sps : list span) (rs : list sreq) (hi : nat) (st : list nat) : Prop :=
  match sps, rs with
  | sp :: sr, r :: rr =>
    match r_kind r, sp with
    | SInactive, _ => spans_ok lo sr rr hi st
    | _, None => spans_ok lo sr rr hi st
    | _, Some (o, c) =>
      o = lo /\ c = r_count r /\ 0 < c /\ r_kind r = SActive /\
      (forall x, o <= x < o + c -> nth x st 0 = r_tag r) /\
      spans_ok (o + c) sr rr hi st
    end
  | _, _ => lo <= hi
  end.

Lemma spans_ok_le : forall sps rs lo hi st, spans_ok lo sps rs hi st -> lo <= hi.
Proof.
  induction sps as [|sp sr IH]; intros rs lo hi st H; [exact H|].
  destruct rs as [|r rr]; [exact H|]. cbn [spans_ok] in H.
  destruct (r_kind r); try (apply IH in H; exact H); destruct sp as [[o c]|]; try (apply IH in H; exact H);
    destruct H as (E1 & _ & _ & _ & _ & H); apply IH in H; lia.
Qed.

(** the stored items below [a_size] survive the rest of the step *)
Lemma interact_all_frame : forall rs sps a,
  a_size a <= a_cap a ->
  let r := interact_all a sps rs in
  a_size a <= a_size (fst (fst r)) /\ a_size (fst (fst r)) <= a_cap (fst (fst r)) /\
  a_cap (fst (fst r)) = a_cap a /\
  (forall x, x < a_size a -> nth x (a_store (fst (fst r))) 0 = nth x (a_store a) 0).
Proof.
  induction rs as [|q rr IH]; intros sps a Hinv; cbn zeta.
  - destruct sps; cbn; auto.
  - destruct sps as [|sp sr]; [cbn; auto|]. cbn [interact_all].
    assert (Hslot : let x := interact_slot a sp q in
                    a_size a <= a_size (fst (fst x)) /\ a_size (fst (fst x)) <= a_cap (fst (fst x)) /\
                    a_cap (fst (fst x)) = a_cap a /\
                    (forall y, y < a_size a -> nth y (a_store (fst (fst x))) 0 = nth y (a_store a) 0)).
    { cbn zeta. unfold interact_slot. destruct (r_kind q); cbn [fst snd]; auto.
      destruct (r_count q) as [|k]; cbn [fst snd]; [auto|].
      destruct (astep_alloc_cases a (S k) (r_tag q) Hinv) as [[Hfull Heq]|[Hfit Heq]]; rewrite Heq; cbn [fst snd]; [auto|].
      unfold a_cap. cbn [a_size a_store]. rewrite !fill_length. fold (a_cap a).
      split; [lia|]. split; [exact Hfit|]. split; [reflexivity|].
      intros y Hy. rewrite !fill_nth_out by lia. reflexivity. }
    cbn zeta in Hslot. destruct Hslot as (S1 & S2 & S3 & S4).
    destruct (interact_slot a sp q) as [[a1 sp1] f1]. cbn [fst snd] in *.
    specialize (IH sr a1 S2). cbn zeta in IH. destruct IH as (I1 & I2 & I3 & I4).
    destruct (interact_all a1 sr rr) as [[a2 sr2] fr2]. cbn [fst snd] in *.
    split; [lia|]. split; [exact I2|]. split; [congruence|].
    intros x Hx. rewrite I4 by lia. apply S4. exact Hx.
Qed.

Lemma interact_all_spans : forall rs sps a,
  a_size a <= a_cap a -> length sps = length rs ->
  live_spans rs sps = repeat None (length rs) ->
  let r := interact_all a sps rs in
  spans_ok (a_size a) (snd (fst r)) rs (a_size (fst (fst r))) (a_store (fst (fst r))) /\
  length (snd (fst r)) = length rs /\ length (snd r) = length rs /\
  (* a failure means: there really was no room, at that moment *)
  Forall2 (fun (f : bool) q => f = true -> r_kind q = SActive /\ 0 < r_count q) (snd r) rs.
Proof.
  induction rs as [|q rr IH]; intros sps a Hinv L Hlive; cbn zeta.
  - destruct sps; cbn in *; try lia. auto.
  - destruct sps as [|sp sr]; [cbn in L; lia|]. cbn [interact_all].
    cbn [live_spans length repeat] in Hlive. injection Hlive as Hh Ht.
    pose proof (interact_all_frame rr) as Hframe.
    unfold interact_slot.
    destruct (r_kind q) eqn:Hk.
    + (* inactive *)
      specialize (IH sr a Hinv ltac:(cbn in L; lia) Ht). cbn zeta in IH. destruct IH as (I1 & I2 & I3 & I4).
      destruct (interact_all a sr rr) as [[a2 sr2] fr2]. cbn [fst snd spans_ok length] in *. rewrite Hk.
      split; [exact I1|]. split; [lia|]. split; [lia|]. constructor; [discriminate|exact I4].
    + (* active *)
      subst sp. destruct (r_count q) as [|k] eqn:Hcnt.
      * specialize (IH sr a Hinv ltac:(cbn in L; lia) Ht). cbn zeta in IH. destruct IH as (I1 & I2 & I3 & I4).
        destruct (interact_all a sr rr) as [[a2 sr2] fr2]. cbn [fst snd spans_ok length] in *. rewrite Hk.
        split; [exact I1|]. split; [lia|]. split; [lia|]. constructor; [discriminate|exact I4].
      * destruct (astep_alloc_cases a (S k) (r_tag q) Hinv) as [[Hfull Heq]|[Hfit Heq]]; rewrite Heq.
        -- specialize (IH sr a Hinv ltac:(cbn in L; lia) Ht). cbn zeta in IH. destruct IH as (I1 & I2 & I3 & I4).
           destruct (interact_all a sr rr) as [[a2 sr2] fr2]. cbn [fst snd spans_ok length] in *. rewrite Hk.
           split; [exact I1|]. split; [lia|]. split; [lia|]. constructor; [intros _; split; [exact Hk|lia]|exact I4].
        -- set (a1 := mkA (a_size a + S k) (fill (a_size a) (S k) (r_tag q) (fill (a_size a) (S k) 0 (a_store a)))).
           assert (Hcap1 : a_cap a1 = a_cap a) by (unfold a1, a_cap; cbn [a_store]; rewrite !fill_length; reflexivity).
           assert (Hinv1 : a_size a1 <= a_cap a1) by (rewrite Hcap1; exact Hfit).
           specialize (IH sr a1 Hinv1 ltac:(cbn in L; lia) Ht). cbn zeta in IH. destruct IH as (I1 & I2 & I3 & I4).
           specialize (Hframe sr a1 Hinv1). cbn zeta in Hframe. destruct Hframe as (_ & _ & _ & F4).
           destruct (interact_all a1 sr rr) as [[a2 sr2] fr2]. cbn [fst snd spans_ok length] in *. rewrite Hk, Hcnt.
           split; [|split; [lia|split; [lia|constructor; [discriminate|exact I4]]]].
           split; [reflexivity|]. split; [reflexivity|]. split; [lia|]. split; [reflexivity|]. split; [|exact I1].
           intros x Hx. rewrite F4 by (unfold a1; cbn [a_size]; lia). unfold a1. cbn [a_store].
           apply fill_nth_in; [lia|]. rewrite fill_length. unfold a_cap in Hfit. lia.
    + (* errored *)
      specialize (IH sr a Hinv ltac:(cbn in L; lia) Ht). cbn zeta in IH. destruct IH as (I1 & I2 & I3 & I4).
      destruct (interact_all a sr rr) as [[a2 sr2] fr2]. cbn [fst snd spans_ok length] in *. rewrite Hk. subst sp.
      split; [exact I1|]. split; [lia|]. split; [lia|]. constructor; [discriminate|exact I4].
Qed.

Lemma live_spans_clear_none : forall rs sps, length sps = length rs ->
  live_spans rs (clear_spans (map r_kind rs) sps) = repeat None (length rs).
Proof.
  induction rs as [|q rr IH]; intros sps L; [reflexivity|].
  destruct sps as [|sp sr]; [cbn in L; lia|].
  cbn [map clear_spans live_spans length repeat]. rewrite (IH sr) by (cbn in *; lia).
  destruct (r_kind q); reflexivity.
Qed.

(** step_spans_ok: for ANY previous contents of the stack and of the spans
    (no invariant needed: thread 0 has cleared the stack), after a step the
    size is within the unchanged capacity and the spans of the slots that took
    part tile [0, size) in slot order with the requested lengths and intact
    items *)
Lemma step_spans_ok : forall rs a sps,
  rs <> [] -> length sps = length rs ->
  let r := step_stack a sps rs in
  a_size (fst (fst r)) <= a_cap a /\ a_cap (fst (fst r)) = a_cap a /\
  spans_ok 0 (snd (fst r)) rs (a_size (fst (fst r))) (a_store (fst (fst r))) /\
  Forall2 (fun (f : bool) q => f = true -> r_kind q = SActive /\ 0 < r_count q) (snd r) rs.
Proof.
  intros rs a sps Hne L. cbn zeta. unfold step_stack.
  destruct rs as [|q rr]; [contradiction|]. destruct sps as [|sp sr]; [cbn in L; lia|].
  cbn [map]. rewrite pre_step_all_0.
  set (a0 := mkA 0 (a_store a)).
  assert (Hinv0 : a_size a0 <= a_cap a0) by (unfold a0; cbn; lia).
  change (r_kind q :: map r_kind rr) with (map r_kind (q :: rr)).
  pose proof (interact_all_spans (q :: rr) (clear_spans (map r_kind (q :: rr)) (sp :: sr)) a0 Hinv0
                ltac:(rewrite clear_spans_length; rewrite map_length; auto)
                (live_spans_clear_none (q :: rr) (sp :: sr) L)) as H.
  pose proof (interact_all_frame (q :: rr) (clear_spans (map r_kind (q :: rr)) (sp :: sr)) a0 Hinv0) as F.
  cbn zeta in H, F. destruct H as (H1 & _ & _ & H4). destruct F as (_ & F2 & F3 & _).
  change (a_cap a0) with (a_cap a) in *. rewrite F3 in F2. auto.
Qed.

(** the tiling gives pairwise disjointness *)
Lemma spans_ok_disjoint : forall sps rs lo hi st i j oi ci oj cj,
  spans_ok lo sps rs hi st -> i < j ->
  r_kind (nth i rs (mkReq SInactive 0 0)) <> SInactive -> r_kind (nth j rs (mkReq SInactive 0 0)) <> SInactive ->
  nth i sps None = Some (oi, ci) -> nth j sps None = Some (oj, cj) ->
  lo <= oi /\ oi + ci <= oj /\ oj + cj <= hi.
Proof.
  induction sps as [|sp sr IH]; intros rs lo hi st i j oi ci oj cj H Hij Ki Kj Si Sj.
  - destruct i; discriminate.
  - destruct rs as [|r rr]; [destruct i; cbn in Ki; contradiction|].
    destruct j as [|j']; [lia|]. cbn [nth] in Kj, Sj.
    (* a lower bound for every later span *)
    assert (Hlater : forall lo', spans_ok lo' sr rr hi st -> lo' <= oj /\ oj + cj <= hi).
    { clear - Kj Sj. revert rr j' Kj Sj. induction sr as [|s2 sr2 IH2]; intros rr j' Kj Sj lo' H; [destruct j'; discriminate|].
      destruct rr as [|r2 rr2]; [destruct j'; cbn in Kj; contradiction|].
      cbn [spans_ok] in H. destruct j' as [|j2].
      - cbn [nth] in Kj, Sj. subst s2. destruct (r_kind r2); try contradiction;
          destruct H as (E & _ & _ & _ & _ & H); apply spans_ok_le in H; lia.
      - cbn [nth] in Kj, Sj. destruct (r_kind r2); [apply (IH2 rr2 j2 Kj Sj lo' H)| |];
          (destruct s2 as [[o c]|]; [destruct H as (E & _ & Hc & _ & _ & H); destruct (IH2 rr2 j2 Kj Sj _ H); lia
                                    |apply (IH2 rr2 j2 Kj Sj lo' H)]). }
    destruct i as [|i'].
    + cbn [nth] in Ki, Si. subst sp. cbn [spans_ok] in H.
      destruct (r_kind r); try contradiction; destruct H as (E & _ & _ & _ & _ & H); destruct (Hlater _ H); lia.
    + cbn [nth] in Ki, Si. cbn [spans_ok] in H.
      destruct (r_kind r).
      * apply (IH rr lo hi st i' j' oi ci oj cj H ltac:(lia) Ki Kj Si Sj).
      * destruct sp as [[o c]|].
        -- destruct H as (E & _ & _ & _ & _ & H).
           destruct (IH rr _ hi st i' j' oi ci oj cj H ltac:(lia) Ki Kj Si Sj). lia.
        -- apply (IH rr lo hi st i' j' oi ci oj cj H ltac:(lia) Ki Kj Si Sj).
      * destruct sp as [[o c]|].
        -- destruct H as (E & _ & _ & _ & _ & H).
           destruct (IH rr _ hi st i' j' oi ci oj cj H ltac:(lia) Ki Kj Si Sj). lia.
        -- apply (IH rr lo hi st i' j' oi ci oj cj H ltac:(lia) Ki Kj Si Sj).
Qed.
