(** * C16: non-vacuity examples for the allocator / applier theorems *)
From Coq Require Import List Arith Bool PeanoNat.
From Celer Require Import C16.Allocator C16.AllocatorProofs.
Import ListNotations.

(** a failing allocation: capacity 4, size 3, ask for 2 *)
Example ex_alloc_fail : alloc (mkA 3 [7; 7; 7; 0]) 2 = (mkA 3 [7; 7; 7; 0], None).
Proof. reflexivity. Qed.

(** capacity 0: everything fails, nothing changes *)
Example ex_alloc_cap0 : arun (ainit 0) [Alloc 1 5; Clear; Alloc 2 6] =
  [(mkA 0 [], Failed); (mkA 0 [], Cleared); (mkA 0 [], Failed)].
Proof. reflexivity. Qed.

(** disjoint ranges between clears, reuse after clear *)
Example ex_alloc_ranges :
  map snd (arun (ainit 5) [Alloc 2 1; Alloc 2 2; Alloc 2 3; Alloc 1 4; Clear; Alloc 3 5]) =
  [Allocated 0; Allocated 2; Failed; Allocated 4; Cleared; Allocated 0].
Proof. reflexivity. Qed.

Example ex_live_ranges :
  let ops := [Alloc 2 1; Alloc 2 2; Alloc 2 3; Alloc 1 4] in
  AllocatorProofs.live_ranges [] (arun (ainit 5) ops) ops = [(4, 1); (2, 2); (0, 2)].
Proof. reflexivity. Qed.

(** a starved interaction: the track is untouched except for the step limit *)
Example ex_failed_interaction :
  let t := mkT 10 1 TAlive [] 0 None in
  let i := mkI IFailed 10 1 [] 0 in
  apply_interaction 99 Nat.add t i = mkT 10 1 TAlive [] 0 (Some (0, 99)).
Proof. reflexivity. Qed.
