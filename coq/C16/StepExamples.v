(** * C16: non-vacuity for the step-stack theorems *)
From Coq Require Import List Arith Bool PeanoNat Lia.
From Celer Require Import C16.Allocator C16.StepStack C16.StepStackProofs.
Import ListNotations.

(** capacity rule: 3 slots, factor 3/8 -> 1; 2 slots, factor 3/8 -> 0; factor 0 rejected *)
Example ex_capacity : secondary_capacity 3 3 8 = Some 1 /\ secondary_capacity 2 3 8 = Some 0 /\
                      secondary_capacity 5 0 8 = None /\ secondary_capacity 4 24 8 = Some 12.
Proof. repeat split; reflexivity. Qed.

(** 4 slots, capacity 4: slot 0 takes 2, slot 1 is inactive (stale span kept),
    slot 2 wants 3 (fails), slot 3 takes 2; the stack is used from 0 again
    although the previous step left it full *)
Definition ex_reqs : list sreq := [mkReq SActive 2 7; mkReq SInactive 5 8; mkReq SActive 3 9; mkReq SActive 2 6].

Example ex_step :
  step_stack (mkA 4 [1; 1; 1; 1]) [Some (0, 1); Some (1, 3); None; Some (2, 2)] ex_reqs
  = (mkA 4 [7; 7; 6; 6], [Some (0, 2); Some (1, 3); None; Some (2, 2)], [false; false; true; false]).
Proof. reflexivity. Qed.

Example ex_step_independent :
  let r := step_stack (mkA 4 [1; 1; 1; 1]) [Some (0, 1); Some (1, 3); None; Some (2, 2)] ex_reqs in
  let r' := step_stack (ainit 4) (repeat None 4) ex_reqs in
  a_size (fst (fst r)) = a_size (fst (fst r')) /\ snd r = snd r' /\
  live_spans ex_reqs (snd (fst r)) = live_spans ex_reqs (snd (fst r')).
Proof. apply step_independent; [discriminate|reflexivity|reflexivity|reflexivity]. Qed.

Example ex_spans_ok :
  spans_ok 0 [Some (0, 2); Some (1, 3); None; Some (2, 2)] ex_reqs 4 [7; 7; 6; 6].
Proof.
  cbn. repeat split; auto; intros x Hx; do 5 (destruct x as [|x]; [try reflexivity; lia|]); lia.
Qed.

(** capacity 0: every interaction that needs a secondary fails, nothing changes *)
Example ex_step_cap0 :
  step_stack (ainit 0) [None; None] [mkReq SActive 1 5; mkReq SActive 0 6] = (mkA 0 [], [None; None], [true; false]).
Proof. reflexivity. Qed.
