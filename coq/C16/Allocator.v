(** * C16: executable model of corecel/data/StackAllocator.hh (serial semantics)
    and of the failure branch of celeritas/phys/InteractionApplier.hh.
    NO proofs here. *)
From Coq Require Import List Arith Bool PeanoNat.
Import ListNotations.

(** ** StackAllocator<T> over StackAllocatorData: [size] and the storage
    (capacity = length of the storage; items are [nat] tags, 0 = the
    default-constructed value) *)
Record astate := mkA { a_size : nat; a_store : list nat }.

Definition a_cap (a : astate) : nat := length (a_store a).

Inductive aop :=
| Alloc (n tag : nat)    (* operator()(n), then the caller fills the items with [tag] *)
| Clear.                 (* clear() *)

(** result of one op: [Some start] for a successful allocation *)
Inductive ares := Allocated (start : nat) | Failed | Cleared | AMisuse.

Fixpoint fill (start n v : nat) (l : list nat) : list nat :=
  match l, start, n with
  | [], _, _ => []
  | x :: r, S s, _ => x :: fill s n v r
  | x :: r, 0, S k => v :: fill 0 k v r
  | x :: r, 0, 0 => x :: r
  end.

(** operator()(count): start = atomic_add(&size, count); if start + count >
    capacity: restore size = start when start <= capacity, return null; else
    placement-new the items (default value) *)
Definition alloc (a : astate) (n : nat) : astate * option nat :=
  let start := a_size a in
  if a_cap a <? start + n then
    (mkA (if start <=? a_cap a then start else start + n) (a_store a), None)
  else
    (mkA (start + n) (fill start n 0 (a_store a)), Some start).

Definition astep_alloc (a : astate) (n tag : nat) : astate * ares :=
  match alloc a n with
  | (a', None) => (a', Failed)
  | (a', Some start) => (mkA (a_size a') (fill start n tag (a_store a')), Allocated start)
  end.

Definition astep (a : astate) (o : aop) : astate * ares :=
  match o with
  | Clear => (mkA 0 (a_store a), Cleared)
  | Alloc 0 _ => (a, AMisuse)            (* CELER_EXPECT(count > 0) *)
  | Alloc n tag => astep_alloc a n tag
  end.

Definition ainit (cap : nat) : astate := mkA 0 (repeat 0 cap).

Fixpoint arun (a : astate) (ops : list aop) : list (astate * ares) :=
  match ops with
  | [] => []
  | o :: r => let '(a', res) := astep a o in (a', res) :: arun a' r
  end.

(** encoding for the differential: [result; size; storage...] with result
    0 = failed, S start = allocated at start, 100 = cleared, 200 = misuse *)
Definition enc_ares (r : ares) : nat :=
  match r with Allocated s => S s | Failed => 0 | Cleared => 100 | AMisuse => 200 end.

Definition run_alloc (cap : nat) (ops : list aop) : list (list nat) :=
  map (fun ar => enc_ares (snd ar) :: a_size (fst ar) :: a_store (fst ar)) (arun (ainit cap) ops).

(** ** InteractionApplier: what the applier does to a track for a sampled
    interaction.  Energies/directions are abstract values (type parameters). *)
Section Applier.
  Context {E D : Type}.

  Inductive iaction := Scattered | Absorbed | Unchanged | IFailed.

  Record interaction := mkI {
    i_action : iaction; i_energy : E; i_dir : D; i_secs : list nat; i_dep : E }.

  Inductive tstatus := TAlive | TKilled.

  Record track := mkT {
    t_energy : E; t_dir : D; t_status : tstatus; t_secs : list nat; t_dep : E;
    t_step_limit : option (nat * nat) }.   (* Some (0, failure_action) after a failure *)

  Variable failure_action : nat.
  Variable add_dep : E -> E -> E.

  (** InteractionApplierBaseImpl::operator() without the cutoff loop (the
      cutoff only nulls secondaries and moves their energy to the deposit) *)
  Definition apply_interaction (t : track) (i : interaction) : track :=
    match i_action i with
    | IFailed =>
      mkT (t_energy t) (t_dir t) (t_status t) (t_secs t) (t_dep t) (Some (0, failure_action))
    | Unchanged => t
    | Scattered =>
      mkT (i_energy i) (i_dir i) (t_status t) (i_secs i) (add_dep (t_dep t) (i_dep i)) (t_step_limit t)
    | Absorbed =>
      mkT (i_energy i) (t_dir t) TKilled (i_secs i) (add_dep (t_dep t) (i_dep i)) (t_step_limit t)
    end.

  (** an interactor that needs [n] secondaries: asks the allocator first and
      returns [Interaction::from_failure()] when it gets a null pointer *)
  Definition interact_with_alloc (a : astate) (n : nat) (i : interaction) : astate * interaction :=
    match n with
    | 0 => (a, i)
    | _ => match alloc a n with
           | (a', None) => (a', mkI IFailed (i_energy i) (i_dir i) [] (i_dep i))
           | (a', Some _) => (a', i)
           end
    end.
End Applier.
