(** * C16: what one step does to the secondary stack.
    Mirrors
    - celeritas/phys/PhysicsData.hh [resize] / PhysicsParams.cc: the stack
      capacity rule [static_cast<size_type>(slots * secondary_stack_factor)],
      factor validated > 0 (the factor is the rational p/q; the check uses q = 8);
    - celeritas/phys/detail/PreStepExecutor.hh: thread 0 clears the stack; every
      thread whose slot is not inactive clears its secondary span (in this
      release build an inactive slot keeps its stale span);
    - celeritas/phys/PhysicsStepView.hh: [make_secondary_allocator] (all slots
      share the one stack), [secondaries(span)];
    - an interaction asking for [k] secondaries through that allocator
      (C16/Allocator.v [astep_alloc]); a null pointer = failed interaction.
    NO proofs in this file. *)
From Coq Require Import List Arith Bool PeanoNat.
From Celer Require Import C16.Allocator.
Import ListNotations.

(** ** capacity rule *)
Definition secondary_capacity (slots p q : nat) : option nat :=
  if p =? 0 then None               (* CELER_VALIDATE(secondary_stack_factor > 0) *)
  else Some (slots * p / q).

(** ** per-slot view of one step *)
Inductive skind := SInactive | SActive | SErrored.   (* status of the slot when pre-step runs *)

Record sreq := mkReq { r_kind : skind; r_count : nat; r_tag : nat }.

Definition span := option (nat * nat).               (* (offset, count); None = empty span *)

(** PreStepExecutor for thread [tid] *)
Definition pre_step_thread (tid : nat) (k : skind) (a : astate) (sp : span) : astate * span :=
  let a' := if tid =? 0 then mkA 0 (a_store a) else a in     (* alloc.clear() *)
  match k with
  | SInactive => (a', sp)            (* returns early: the span is left as it is *)
  | _ => (a', None)                  (* step.secondaries({}) *)
  end.

Fixpoint pre_step_all (tid : nat) (a : astate) (ks : list skind) (sps : list span) : astate * list span :=
  match ks, sps with
  | k :: kr, sp :: sr =>
    let '(a1, sp1) := pre_step_thread tid k a sp in
    let '(a2, sr2) := pre_step_all (S tid) a1 kr sr in
    (a2, sp1 :: sr2)
  | _, _ => (a, [])
  end.

(** the interaction of one slot: (allocator, span, failed?) *)
Definition interact_slot (a : astate) (sp : span) (r : sreq) : astate * span * bool :=
  match r_kind r, r_count r with
  | SActive, S k =>
    match astep_alloc a (S k) (r_tag r) with
    | (a', Allocated start) => (a', Some (start, S k), false)
    | (a', _) => (a', sp, true)      (* null pointer: Interaction::from_failure() *)
    end
  | _, _ => (a, sp, false)           (* not alive after pre-step, or no secondaries needed *)
  end.

Fixpoint interact_all (a : astate) (sps : list span) (rs : list sreq) : astate * list span * list bool :=
  match sps, rs with
  | sp :: sr, r :: rr =>
    let '(a1, sp1, f1) := interact_slot a sp r in
    let '(a2, sr2, fr2) := interact_all a1 sr rr in
    (a2, sp1 :: sr2, f1 :: fr2)
  | _, _ => (a, [], [])
  end.

(** one step: pre-step over all threads, then the interactions *)
Definition step_stack (a : astate) (sps : list span) (rs : list sreq) : astate * list span * list bool :=
  let '(a1, sps1) := pre_step_all 0 a (map r_kind rs) sps in
  interact_all a1 sps1 rs.

(** a run of steps from the freshly resized stack *)
Fixpoint steps_stack (a : astate) (sps : list span) (steps : list (list sreq))
  : list (astate * list span * list bool) :=
  match steps with
  | [] => []
  | rs :: more =>
    let '(a', sps', fl) := step_stack a sps rs in
    (a', sps', fl) :: steps_stack a' sps' more
  end.

(** encoding for the differential: size, capacity, (failed, offset+1, count) per slot, storage *)
Definition enc_span (sp : span) : list nat := match sp with None => [0; 0] | Some (o, c) => [S o; c] end.
Definition b2n (b : bool) : nat := if b then 1 else 0.

Fixpoint enc_slots (sps : list span) (fl : list bool) : list nat :=
  match sps, fl with
  | sp :: sr, f :: fr => b2n f :: enc_span sp ++ enc_slots sr fr
  | _, _ => []
  end.

Definition run_steps (slots p q : nat) (steps : list (list sreq)) : list (list nat) :=
  match secondary_capacity slots p q with
  | None => [[0]]
  | Some cap =>
    map (fun r => let '(a, sps, fl) := r in
                  a_size a :: a_cap a :: enc_slots sps fl ++ a_store a)
        (steps_stack (ainit cap) (repeat None slots) steps)
  end.
