(** * C16: proofs about the StackAllocator / InteractionApplier model *)
From Coq Require Import List Arith Bool PeanoNat Lia.
From Celer Require Import C16.Allocator.
Import ListNotations.

Lemma fill_length : forall l start n v, length (fill start n v l) = length l.
Proof.
  induction l as [|x r IH]; intros start n v; [reflexivity|].
  destruct start; [destruct n|]; cbn; auto.
Qed.

Lemma fill_nth_out : forall l start n v i d,
  i < start \/ start + n <= i -> nth i (fill start n v l) d = nth i l d.
Proof.
  induction l as [|x r IH]; intros start n v i d Hi; [reflexivity|].
  destruct start as [|s].
  - destruct n as [|k]; [reflexivity|].
    destruct i as [|j]; [lia|]. cbn. apply IH. lia.
  - destruct i as [|j]; [reflexivity|]. cbn. apply IH. lia.
Qed.

Lemma fill_nth_in : forall l start n v i d,
  start <= i < start + n -> i < length l -> nth i (fill start n v l) d = v.
Proof.
  induction l as [|x r IH]; intros start n v i d Hi Hl; [cbn in Hl; lia|].
  destruct start as [|s].
  - destruct n as [|k]; [lia|].
    destruct i as [|j]; [reflexivity|]. cbn. apply IH; cbn in Hl; lia.
  - destruct i as [|j]; [lia|]. cbn. apply IH; cbn in Hl; lia.
Qed.

(** ** alloc_fail_noop: a failing allocation changes nothing *)
Lemma alloc_fail_noop : forall a n,
  a_size a <= a_cap a -> a_cap a < a_size a + n ->
  alloc a n = (a, None).
Proof.
  intros [sz st] n Hinv Hfull. unfold alloc, a_cap in *. cbn [a_size a_store] in *.
  destruct (length st <? sz + n) eqn:Hf; [|apply Nat.ltb_ge in Hf; lia].
  destruct (sz <=? length st) eqn:Hl; [reflexivity|apply Nat.leb_gt in Hl; lia].
Qed.

Lemma alloc_ok : forall a n,
  a_size a + n <= a_cap a ->
  exists st, alloc a n = (mkA (a_size a + n) st, Some (a_size a))
             /\ length st = a_cap a
             /\ (forall i d, i < a_size a \/ a_size a + n <= i -> nth i st d = nth i (a_store a) d).
Proof.
  intros [sz st] n Hfit. unfold alloc, a_cap in *. cbn [a_size a_store] in *.
  destruct (length st <? sz + n) eqn:Hf; [apply Nat.ltb_lt in Hf; lia|].
  eexists. split; [reflexivity|]. split.
  - apply fill_length.
  - intros i d Hi. apply fill_nth_out. exact Hi.
Qed.

(** ** Invariant over arbitrary op lists: size <= capacity, capacity fixed,
    and the ranges handed out since the last clear are pairwise disjoint and
    lie inside [0, size) *)

(** ranges (start, count) handed out since the last clear, newest first *)
Fixpoint live_ranges (acc : list (nat * nat)) (trace : list (astate * ares)) (ops : list aop)
  : list (nat * nat) :=
  match trace, ops with
  | (_, Allocated s) :: tr, Alloc n _ :: os => live_ranges ((s, n) :: acc) tr os
  | (_, Cleared) :: tr, _ :: os => live_ranges [] tr os
  | _ :: tr, _ :: os => live_ranges acc tr os
  | _, _ => acc
  end.

Definition ranges_ok (size : nat) (rs : list (nat * nat)) : Prop :=
  (forall s n, In (s, n) rs -> 0 < n /\ s + n <= size) /\
  (forall i j s1 n1 s2 n2, i < j -> nth_error rs i = Some (s1, n1) -> nth_error rs j = Some (s2, n2) ->
      s2 + n2 <= s1).

Lemma ranges_ok_disjoint : forall size rs, ranges_ok size rs ->
  forall i j s1 n1 s2 n2, i <> j -> nth_error rs i = Some (s1, n1) -> nth_error rs j = Some (s2, n2) ->
    s1 + n1 <= s2 \/ s2 + n2 <= s1.
Proof.
  intros size rs [_ Hord] i j s1 n1 s2 n2 Hij H1 H2.
  destruct (Nat.lt_ge_cases i j) as [Hlt|Hge].
  - right. eapply Hord; eauto.
  - left. assert (j < i) by lia. eapply Hord; eauto.
Qed.

Lemma alloc_cases : forall a n, a_size a <= a_cap a ->
  (a_cap a < a_size a + n /\ alloc a n = (a, None)) \/
  (a_size a + n <= a_cap a /\
   alloc a n = (mkA (a_size a + n) (fill (a_size a) n 0 (a_store a)), Some (a_size a))).
Proof.
  intros a n Hinv. destruct (Nat.lt_ge_cases (a_cap a) (a_size a + n)) as [Hlt|Hge].
  - left. split; [exact Hlt|]. apply alloc_fail_noop; assumption.
  - right. split; [exact Hge|]. unfold alloc.
    destruct (a_cap a <? a_size a + n) eqn:Hf; [apply Nat.ltb_lt in Hf; lia|reflexivity].
Qed.

Lemma astep_alloc_cases : forall a n tag, a_size a <= a_cap a ->
  (a_cap a < a_size a + n /\ astep_alloc a n tag = (a, Failed)) \/
  (a_size a + n <= a_cap a /\
   astep_alloc a n tag =
     (mkA (a_size a + n) (fill (a_size a) n tag (fill (a_size a) n 0 (a_store a))), Allocated (a_size a))).
Proof.
  intros a n tag Hinv. unfold astep_alloc.
  destruct (alloc_cases a n Hinv) as [[H1 H2]|[H1 H2]]; rewrite H2; [left|right]; split; auto.
Qed.

Lemma last_cons : forall {A} (l : list A) (x d : A), last (x :: l) d = last l x.
Proof.
  induction l as [|y l IH]; intros x d; [reflexivity|].
  change (last (x :: y :: l) d) with (last (y :: l) d).
  rewrite (IH y d), (IH y x). reflexivity.
Qed.

Lemma last_cons_map : forall (a a' : astate) (r : ares) (tr' : list (astate * ares)),
  last (map fst ((a', r) :: tr')) a = last (map fst tr') a'.
Proof. intros. cbn [map fst]. apply last_cons. Qed.

Lemma arun_ranges : forall ops a acc,
  a_size a <= a_cap a -> ranges_ok (a_size a) acc ->
  ranges_ok (a_size (last (map fst (arun a ops)) a)) (live_ranges acc (arun a ops) ops)
  /\ a_size (last (map fst (arun a ops)) a) <= a_cap a
  /\ a_cap (last (map fst (arun a ops)) a) = a_cap a.
Proof.
  induction ops as [|o os IH]; intros a acc Hinv Hok.
  - cbn. auto.
  - cbn [arun]. destruct o as [n tag|].
    + destruct n as [|k].
      * (* Alloc 0: misuse, nothing happens *)
        cbn [astep]. rewrite last_cons_map. cbn [live_ranges].
        apply IH; assumption.
      * change (astep a (Alloc (S k) tag)) with (astep_alloc a (S k) tag).
        destruct (astep_alloc_cases a (S k) tag Hinv) as [[Hfull Heq]|[Hfit Heq]]; rewrite Heq.
        -- rewrite last_cons_map. cbn [live_ranges]. apply IH; assumption.
        -- rewrite last_cons_map. cbn [live_ranges].
           set (a1 := mkA (a_size a + S k) (fill (a_size a) (S k) tag (fill (a_size a) (S k) 0 (a_store a)))).
           assert (Hcap1 : a_cap a1 = a_cap a).
           { unfold a1, a_cap. cbn [a_store]. rewrite !fill_length. reflexivity. }
           assert (Hinv1 : a_size a1 <= a_cap a1).
           { rewrite Hcap1. unfold a1. cbn [a_size]. exact Hfit. }
           assert (Hok1 : ranges_ok (a_size a1) ((a_size a, S k) :: acc)).
           { destruct Hok as [Hpos Hord]. unfold a1. cbn [a_size]. split.
             - intros s n [Heq'|Hold].
               + inversion Heq'; subst. lia.
               + destruct (Hpos _ _ Hold). lia.
             - intros i j s1 n1 s2 n2 Hij H1 H2.
               destruct i as [|i'].
               + cbn in H1. inversion H1; subst s1 n1.
                 destruct j as [|j']; [lia|]. cbn in H2.
                 apply nth_error_In in H2. destruct (Hpos _ _ H2). lia.
               + destruct j as [|j']; [lia|]. cbn in H1, H2.
                 eapply Hord; [|exact H1|exact H2]. lia. }
           destruct (IH a1 _ Hinv1 Hok1) as [R1 [R2 R3]].
           rewrite Hcap1 in R2, R3. auto.
    + (* Clear *)
      cbn [astep]. rewrite last_cons_map. cbn [live_ranges].
      set (a1 := mkA 0 (a_store a)).
      assert (Hcap1 : a_cap a1 = a_cap a) by reflexivity.
      assert (Hok1 : ranges_ok (a_size a1) []).
      { split; [intros s n []|intros i j s1 n1 s2 n2 _ H1; destruct i; discriminate]. }
      destruct (IH a1 [] ltac:(unfold a1; cbn; lia) Hok1) as [R1 [R2 R3]].
      rewrite Hcap1 in R2, R3. auto.
Qed.

(** alloc_ok_disjoint, final form *)
Lemma alloc_ok_disjoint : forall cap ops,
  let tr := arun (ainit cap) ops in
  let rs := live_ranges [] tr ops in
  let fin := last (map fst tr) (ainit cap) in
  a_size fin <= cap /\ a_cap fin = cap /\
  (forall s n, In (s, n) rs -> 0 < n /\ s + n <= a_size fin) /\
  (forall i j s1 n1 s2 n2, i <> j -> nth_error rs i = Some (s1, n1) -> nth_error rs j = Some (s2, n2) ->
      s1 + n1 <= s2 \/ s2 + n2 <= s1).
Proof.
  intros cap ops tr rs fin.
  assert (Hc : a_cap (ainit cap) = cap) by (unfold a_cap, ainit; cbn; apply repeat_length).
  destruct (arun_ranges ops (ainit cap) []) as [Hok [Hsz Hcap]].
  - unfold ainit; cbn. lia.
  - split; [intros s n []|intros i j s1 n1 s2 n2 _ H1; destruct i; discriminate].
  - fold tr in Hok, Hsz, Hcap. fold fin in Hok, Hsz, Hcap. fold rs in Hok.
    rewrite Hc in *. split; [exact Hsz|]. split; [exact Hcap|]. split.
    + destruct Hok as [Hpos _]. exact Hpos.
    + eapply ranges_ok_disjoint; eauto.
Qed.

(** ** failed_interaction_preserves_track *)
Section Applier.
  Context {E D : Type}.
  Variable failure_action : nat.
  Variable add_dep : E -> E -> E.

  Lemma failed_interaction_preserves_track : forall (t : @track E D) (i : @interaction E D),
    i_action i = IFailed ->
    let t' := apply_interaction failure_action add_dep t i in
    t_energy t' = t_energy t /\ t_dir t' = t_dir t /\ t_status t' = t_status t /\
    t_secs t' = t_secs t /\ t_dep t' = t_dep t /\
    t_step_limit t' = Some (0, failure_action).
  Proof.
    intros t i Hf. unfold apply_interaction. rewrite Hf. cbn. repeat split; reflexivity.
  Qed.

  (** an interactor that cannot get its secondaries leaves the allocator and
      the track (energy, direction, status, secondaries, deposit) untouched:
      nothing is partially emitted *)
  Lemma starved_interaction_noop : forall (a : astate) n (t : @track E D) (i : @interaction E D),
    0 < n -> a_size a <= a_cap a -> a_cap a < a_size a + n ->
    let '(a', i') := interact_with_alloc a n i in
    let t' := apply_interaction failure_action add_dep t i' in
    a' = a /\ t_energy t' = t_energy t /\ t_dir t' = t_dir t /\ t_status t' = t_status t /\
    t_secs t' = t_secs t /\ t_dep t' = t_dep t.
  Proof.
    intros a n t i Hn Hinv Hfull. unfold interact_with_alloc.
    destruct n as [|k]; [lia|].
    rewrite (alloc_fail_noop a (S k) Hinv Hfull). cbn. repeat split; reflexivity.
  Qed.
End Applier.
