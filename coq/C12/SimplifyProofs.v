(** * C12 proofs (instance R): SurfaceSimplifier returns a positive multiple of
    the surface function, negated exactly when it reports a sense flip -
    provided the quantities it snaps are exactly zero / equal (snapping within
    the tolerance moves the surface by <= tol and is outside an exact theorem). *)
From Coq Require Import Reals ZArith List Bool Lra Lia Psatz.
From Celer Require Import Base.Num Base.NumR Base.Vec3 C12.Solver C12.Surfaces C12.Simplify
  C12.SolverProofs C12.SurfacesProofs.
Import ListNotations.
Local Open Scope R_scope.

Definition zero_if_soft (tol v : R) : Prop := soft_zero tol v = true -> v = 0.
Definition eq_if_soft (tol a b : R) : Prop := soft_equal tol a b = true -> a = b.

(** exactness of everything the simplifier would snap *)
Definition snap_exact (tol : R) (s : surface R) : Prop :=
  match s with
  | SPlaneAligned _ p => zero_if_soft tol p
  | SCylAligned _ ou ov _ => ou * ou + ov * ov < tol * tol -> ou = 0 /\ ov = 0
  | SConeAligned _ o _ => zero_if_soft tol (vx o) /\ zero_if_soft tol (vy o) /\ zero_if_soft tol (vz o)
  | SPlane n d => vdot n n = 1 /\ zero_if_soft tol (vx n) /\ zero_if_soft tol (vy n) /\ zero_if_soft tol (vz n)
                  /\ zero_if_soft tol d
  | SSphere o _ => vdot o o < tol * tol -> o = V3 0 0 0
  | SSimpleQuadric abc def g =>
      zero_if_soft tol (vx abc) /\ zero_if_soft tol (vy abc) /\ zero_if_soft tol (vz abc) /\
      eq_if_soft tol (vx abc) (vy abc) /\ eq_if_soft tol (vx abc) (vz abc) /\ eq_if_soft tol (vy abc) (vz abc) /\
      (forall t, eq_if_soft tol 0 (vget t abc) /\ eq_if_soft tol 0 (vget t def)) /\
      (forall x, eq_if_soft tol x (g / ((vget (u_axis AX) abc + vget (v_axis AX) abc) / 2)) /\
                 eq_if_soft tol x (g / ((vget (u_axis AY) abc + vget (v_axis AY) abc) / 2)) /\
                 eq_if_soft tol x (g / ((vget (u_axis AZ) abc + vget (v_axis AZ) abc) / 2))) /\
      vdot def def <> 0
  | SGeneralQuadric _ def _ _ =>
      zero_if_soft tol (vx def) /\ zero_if_soft tol (vy def) /\ zero_if_soft tol (vz def)
  | _ => True
  end.

Definition scaled (s s' : surface R) (flip : bool) : Prop :=
  exists k, 0 < k /\ forall p, surf_f s' p = (if flip then - k else k) * surf_f s p.

Ltac ssimp :=
  unfold vdot, sq, vadd, vsub, vscale, vzero, dot, norm, vnegate in *;
  cbn [vget vset vx vy vz u_axis v_axis fst snd] in *; numR.

Lemma Reqb_refl' x : Reqb x x = true.
Proof. apply Reqb_true. reflexivity. Qed.

Lemma scaled_id s s' : (forall p, surf_f s' p = surf_f s p) -> scaled s s' false.
Proof. intros E. exists 1. split; [lra|]. intros p. rewrite E. ring. Qed.
Lemma scaled_neg s s' : (forall p, surf_f s' p = - surf_f s p) -> scaled s s' true.
Proof. intros E. exists 1. split; [lra|]. intros p. rewrite E. ring. Qed.

(** a sign count that sees no component means all components are soft zeros *)
Lemma count_step_none tol acc v : count_step (T:=R) tol acc v = acc \/ soft_zero tol v = false.
Proof. unfold count_step, soft_zero. numR. destruct (Rltb (Rabs v) tol); auto. Qed.

Lemma count_none_soft tol v :
  sc_any (count_signs (T:=R) tol v) = false ->
  soft_zero tol (vx v) = true /\ soft_zero tol (vy v) = true /\ soft_zero tol (vz v) = true.
Proof.
  unfold count_signs, count_step, soft_zero, sc_any. numR.
  destruct (Rltb (Rabs (vx v)) tol), (Rltb (Rabs (vy v)) tol), (Rltb (Rabs (vz v)) tol);
    cbn; try (intros; repeat split; reflexivity);
    repeat match goal with |- context [Rltb ?a 0] => destruct (Rltb a 0) end; cbn; intros F; discriminate.
Qed.

(** GeneralQuadric *)
Lemma simplify_gq tol abc def ghi j s' flip :
  snap_exact tol (SGeneralQuadric abc def ghi j) ->
  simplify tol (SGeneralQuadric abc def ghi j) = Some (s', flip) ->
  scaled (SGeneralQuadric abc def ghi j) s' flip.
Proof.
  intros (Hx & Hy & Hz). unfold simplify.
  destruct (sc_any (count_signs tol def)) eqn:Ec; cbn [negb].
  - destruct (should_flip (count_signs tol abc) || negb (sc_any (count_signs tol abc)) && should_flip (count_signs tol def));
      [|discriminate].
    intros E; inversion E; subst. apply scaled_neg. intros p. unfold surf_f. ssimp. ring.
  - intros E; inversion E; subst. apply count_none_soft in Ec. destruct Ec as (Sx & Sy & Sz).
    apply scaled_id. intros p. unfold surf_f. rewrite (Hx Sx), (Hy Sy), (Hz Sz). ssimp. ring.
Qed.

(** Sphere, CylAligned, PlaneAligned, ConeAligned *)
Lemma simplify_sphere tol o r s' flip :
  snap_exact tol (SSphere o r) -> simplify tol (SSphere o r) = Some (s', flip) -> scaled (SSphere o r) s' flip.
Proof.
  intros Hs. unfold simplify. rewrite dot_vdot. numR.
  destruct (Rltb_spec (vdot o o) (tol * tol)) as [Hlt|]; [|discriminate].
  intros E; inversion E; subst. rewrite (Hs Hlt). apply scaled_id. intros p. unfold surf_f. ssimp. ring.
Qed.
Lemma simplify_cyl tol t ou ov r s' flip :
  snap_exact tol (SCylAligned t ou ov r) -> simplify tol (SCylAligned t ou ov r) = Some (s', flip) ->
  scaled (SCylAligned t ou ov r) s' flip.
Proof.
  intros Hs. unfold simplify. numR.
  destruct (Rltb_spec (ou * ou + ov * ov) (tol * tol)) as [Hlt|]; [|discriminate].
  intros E; inversion E; subst. destruct (Hs Hlt) as [-> ->]. apply scaled_id. intros p.
  unfold surf_f. destruct t; ssimp; ring.
Qed.
Lemma simplify_plane_aligned tol t pos s' flip :
  snap_exact tol (SPlaneAligned t pos) -> simplify tol (SPlaneAligned t pos) = Some (s', flip) ->
  scaled (SPlaneAligned t pos) s' flip.
Proof.
  intros Hs. unfold simplify. numR.
  destruct (soft_zero tol pos) eqn:Sz; [|rewrite andb_false_r; discriminate].
  rewrite (Hs Sz). assert (Hb : Reqb 0 0 = true) by (apply Reqb_true; reflexivity). rewrite Hb. discriminate.
Qed.

Lemma simplify_cone tol t o tsq s' flip :
  snap_exact tol (SConeAligned t o tsq) -> simplify tol (SConeAligned t o tsq) = Some (s', flip) ->
  scaled (SConeAligned t o tsq) s' flip.
Proof.
  intros (Hx & Hy & Hz). unfold simplify. numR.
  assert (G : forall v, zero_if_soft tol v ->
                (if negb (Reqb v 0) && soft_zero tol v then (0, true) else (v, false)) = (v, false)).
  { intros v Hv. destruct (soft_zero tol v) eqn:Sz.
    - rewrite (Hv Sz). assert (Hb : Reqb 0 0 = true) by (apply Reqb_true; reflexivity). rewrite Hb. reflexivity.
    - rewrite andb_false_r. reflexivity. }
  rewrite (G _ Hx), (G _ Hy), (G _ Hz). cbn. discriminate.
Qed.

(** Plane *)
Lemma sq_pos_zero (a b c : R) : a * a + b * b + c * c = 1 -> b = 0 -> c = 0 -> 0 < a -> a = 1.
Proof. intros E -> -> Ha. assert (F : (a - 1) * (a + 1) = 0) by lra. apply Rmult_integral in F. destruct F; lra. Qed.

Lemma simplify_plane tol n d s' flip : 0 < tol < 1 ->
  snap_exact tol (SPlane n d) -> simplify tol (SPlane n d) = Some (s', flip) -> scaled (SPlane n d) s' flip.
Proof.
  intros Htol (Hn & Hx & Hy & Hz & Hd). unfold simplify.
  destruct (should_flip (count_signs tol n)) eqn:Ef.
  { intros E; inversion E; subst. apply scaled_neg. intros p. unfold surf_f. ssimp. ring. }
  assert (Hsnap : V3 (snap tol (vx n)) (snap tol (vy n)) (snap tol (vz n)) = n).
  { destruct n as [a b c]. cbn [vx vy vz] in *. unfold snap.
    f_equal; match goal with |- (if soft_zero tol ?v then _ else _) = _ =>
      destruct (soft_zero tol v) eqn:S; [symmetry; auto|reflexivity] end. }
  destruct (count_signs tol n) as [[pos neg] first] eqn:Ec.
  destruct (Nat.eqb pos 1 && Nat.eqb neg 0) eqn:Eone.
  - (* exactly one significant, positive component: axis aligned *)
    apply andb_true_iff in Eone. destruct Eone as [Ep En].
    apply Nat.eqb_eq in Ep. apply Nat.eqb_eq in En. subst pos neg.
    revert Ec. unfold count_signs, count_step. numR.
    destruct n as [a b c]. cbn [vx vy vz] in *. unfold vdot in Hn. cbn [vx vy vz] in Hn.
    unfold zero_if_soft, soft_zero in Hx, Hy, Hz. numR.
    destruct (Rltb_spec (Rabs a) tol) as [Sa|Sa]; destruct (Rltb_spec (Rabs b) tol) as [Sb|Sb];
      destruct (Rltb_spec (Rabs c) tol) as [Sc|Sc];
      try (specialize (Hx eq_refl)); try (specialize (Hy eq_refl)); try (specialize (Hz eq_refl)); subst;
      repeat match goal with |- context [Rltb ?v 0] => destruct (Rltb_spec v 0) end; cbn;
      intros E0; inversion E0; subst; clear E0.
    all: rewrite ?Rabs_R0 in *.
    all: try match goal with
         | Hs : ~ Rabs ?v < ?tl, Hnn : ~ ?v < 0 |- _ =>
             assert (v = 1) by (apply (sq_pos_zero v 0 0); try lra; rewrite Rabs_pos_eq in Hs; lra); subst v
         end.
    all: repeat match goal with |- context [Rltb ?tl ?v] => destruct (Rltb_spec tl v) end; try lra.
    all: intros E; inversion E; subst; apply scaled_id; intros p; unfold surf_f; ssimp; ring.
  - rewrite Hsnap.
    assert (Hne : vne n n = false).
    { unfold vne. numR. rewrite !Reqb_refl'. reflexivity. }
    rewrite Hne.
    destruct (soft_zero tol d) eqn:Sd.
    + rewrite (Hd Sd). numR. assert (Hb : Reqb 0 0 = true) by (apply Reqb_true; reflexivity). rewrite Hb. discriminate.
    + rewrite andb_false_r. discriminate.
Qed.

(** SimpleQuadric *)
Lemma count_signs_facts tol (v : vec) pos neg first : 0 < tol ->
  count_signs tol v = (pos, neg, first) ->
  (pos = 3%nat -> 0 < vx v /\ 0 < vy v /\ 0 < vz v) /\
  (pos = 2%nat -> neg = 1%nat -> forall t, vget t v < 0 -> 0 < vget (u_axis t) v /\ 0 < vget (v_axis t) v) /\
  (pos = 2%nat -> neg = 0%nat -> forall t, vget t v = 0 -> 0 < vget (u_axis t) v /\ 0 < vget (v_axis t) v).
Proof.
  intros Htol. destruct v as [a b c]. unfold count_signs, count_step. numR. cbn [vx vy vz].
  unfold Rabs. destruct (Rcase_abs a), (Rcase_abs b), (Rcase_abs c);
  repeat match goal with |- context [Rltb ?x ?y] => destruct (Rltb_spec x y) end; cbn;
  intros E; inversion E; subst; clear E; repeat split; intros; try lia; try lra;
  match goal with t : axis |- _ => destruct t; cbn [vget u_axis v_axis vx vy vz] in *; lra end.
Qed.

Lemma first_some_in {A} (l : list (option A)) x : first_some l = Some x -> In (Some x) l.
Proof.
  induction l as [|[y|] l IH]; cbn; intros E; [discriminate| |].
  - inversion E; subst. left; reflexivity.
  - right. apply IH. assumption.
Qed.

Lemma simplify_sq tol abc def g s' flip : 0 < tol < 1 ->
  snap_exact tol (SSimpleQuadric abc def g) -> simplify tol (SSimpleQuadric abc def g) = Some (s', flip) ->
  scaled (SSimpleQuadric abc def g) s' flip.
Proof.
  intros Htol (Hx & Hy & Hz & Exy & Exz & Eyz & Hcyl & Hcone & Hdef). unfold simplify.
  destruct (sc_any (count_signs tol abc)) eqn:Ea; cbn [negb].
  2:{ (* plane *)
    apply count_none_soft in Ea. destruct Ea as (Sx & Sy & Sz).
    intros E; inversion E; subst.
    assert (Hpos : 0 < vdot def def).
    { unfold vdot in *. pose proof (Rle_0_sqr (vx def)). pose proof (Rle_0_sqr (vy def)). pose proof (Rle_0_sqr (vz def)).
      unfold Rsqr in *. lra. }
    set (m := sqrt (vdot def def)).
    assert (Hm : 0 < m) by (apply sqrt_lt_R0; assumption).
    exists (1 / m). split; [apply Rdiv_lt_0_compat; lra|].
    intros p. unfold sq_to_plane, surf_f, norm. rewrite dot_vdot. fold m.
    rewrite (Hx Sx), (Hy Sy), (Hz Sz). ssimp. subst m. unfold vdot in *. field. lra. }
  destruct (should_flip (count_signs tol abc)) eqn:Ef.
  { intros E; inversion E; subst. apply scaled_neg. intros p. unfold surf_f. ssimp. ring. }
  destruct (count_signs tol abc) as [[pos neg] first] eqn:Ec.
  destruct (count_signs_facts tol abc pos neg first (proj1 Htol) Ec) as (F3 & F21 & F20).
  destruct abc as [a b c], def as [d e f]. cbn [vx vy vz] in *.
  destruct (Nat.eqb pos 3) eqn:E3.
  { (* sphere *)
    apply Nat.eqb_eq in E3. destruct (F3 E3) as (Pa & Pb & Pc).
    unfold sq_to_sphere. cbn [vx vy vz].
    destruct (soft_equal tol a b) eqn:Sab; [|discriminate]. destruct (soft_equal tol a c) eqn:Sac; [|discriminate].
    cbn [negb orb]. pose proof (Exy Sab). pose proof (Exz Sac). subst b c.
    match goal with |- context [if ?t then None else _] => destruct t end; [discriminate|].
    intros E; inversion E; subst. exists (1 / a). split; [apply Rdiv_lt_0_compat; lra|].
    intros p. unfold surf_f. ssimp. field. lra. }
  destruct (Nat.eqb pos 2 && Nat.eqb neg 1) eqn:E21.
  { (* cone *)
    apply andb_true_iff in E21. destruct E21 as [Ep En]. apply Nat.eqb_eq in Ep. apply Nat.eqb_eq in En.
    specialize (F21 Ep En).
    match goal with |- match ?r with _ => _ end = _ -> _ => destruct r as [sr|] eqn:Er end; [|discriminate].
    intros E; inversion E; subst. apply first_some_in in Er.
    assert (G : forall t, sq_to_cone tol t (V3 a b c) (V3 d e f) g = Some s' ->
                          scaled (SSimpleQuadric (V3 a b c) (V3 d e f) g) s' false).
    { intros t. unfold sq_to_cone. numR.
      destruct (Rltb_spec (vget t (V3 a b c)) 0) as [Hneg|]; [|discriminate]. cbn [negb].
      destruct (soft_equal tol (vget (u_axis t) (V3 a b c)) (vget (v_axis t) (V3 a b c))) eqn:Suv; [|discriminate].
      cbn [negb].
      match goal with |- context [soft_equal tol ?x ?y] => destruct (soft_equal tol x y) eqn:Sh end; [|discriminate].
      cbn [negb]. intros E0; inversion E0; subst; clear E0.
      destruct (F21 t Hneg) as [Pu Pv].
      destruct (Hcone ((- (- vget t (V3 a b c) / ((vget (u_axis t) (V3 a b c) + vget (v_axis t) (V3 a b c)) / 2)) *
                   (vget t (V3 d e f) / (-2 * vget t (V3 a b c)) * (vget t (V3 d e f) / (-2 * vget t (V3 a b c)))) +
                   vget (u_axis t) (V3 d e f) / (-2 * ((vget (u_axis t) (V3 a b c) + vget (v_axis t) (V3 a b c)) / 2)) *
                   (vget (u_axis t) (V3 d e f) / (-2 * ((vget (u_axis t) (V3 a b c) + vget (v_axis t) (V3 a b c)) / 2)))) +
                  vget (v_axis t) (V3 d e f) / (-2 * ((vget (u_axis t) (V3 a b c) + vget (v_axis t) (V3 a b c)) / 2)) *
                  (vget (v_axis t) (V3 d e f) / (-2 * ((vget (u_axis t) (V3 a b c) + vget (v_axis t) (V3 a b c)) / 2)))))
        as (HcX & HcY & HcZ).
      destruct t; cbn [vget u_axis v_axis vx vy vz] in *.
      - pose proof (Eyz Suv). subst c. specialize (HcX Sh).
        exists (1 / b). split; [apply Rdiv_lt_0_compat; lra|]. intros p. unfold surf_f. ssimp.
        replace ((b + b) / 2) with b in * by field.
        apply Rmult_eq_reg_l with b; [|lra]. field_simplify; [|lra|lra].
        assert (HH : g = b * (- (- a / b) * (d / (-2 * a) * (d / (-2 * a))) + e / (-2 * b) * (e / (-2 * b)) + f / (-2 * b) * (f / (-2 * b)))).
        { rewrite HcX. field. lra. }
        rewrite HH. field. lra.
      - pose proof (Exz Suv). subst c. specialize (HcY Sh).
        exists (1 / a). split; [apply Rdiv_lt_0_compat; lra|]. intros p. unfold surf_f. ssimp.
        replace ((a + a) / 2) with a in * by field.
        apply Rmult_eq_reg_l with a; [|lra]. field_simplify; [|lra|lra].
        assert (HH : g = a * (- (- b / a) * (e / (-2 * b) * (e / (-2 * b))) + d / (-2 * a) * (d / (-2 * a)) + f / (-2 * a) * (f / (-2 * a)))).
        { rewrite HcY. field. lra. }
        rewrite HH. field. lra.
      - pose proof (Exy Suv). subst b. specialize (HcZ Sh).
        exists (1 / a). split; [apply Rdiv_lt_0_compat; lra|]. intros p. unfold surf_f. ssimp.
        replace ((a + a) / 2) with a in * by field.
        apply Rmult_eq_reg_l with a; [|lra]. field_simplify; [|lra|lra].
        assert (HH : g = a * (- (- c / a) * (f / (-2 * c) * (f / (-2 * c))) + d / (-2 * a) * (d / (-2 * a)) + e / (-2 * a) * (e / (-2 * a)))).
        { rewrite HcZ. field. lra. }
        rewrite HH. field. lra. }
    destruct Er as [Er|[Er|[Er|[]]]]; eapply G; eauto. }
  destruct (Nat.eqb pos 2 && Nat.eqb neg 0) eqn:E20; [|discriminate].
  (* cylinder *)
  apply andb_true_iff in E20. destruct E20 as [Ep En]. apply Nat.eqb_eq in Ep. apply Nat.eqb_eq in En.
  specialize (F20 Ep En).
  match goal with |- match ?r with _ => _ end = _ -> _ => destruct r as [sr|] eqn:Er end; [|discriminate].
  intros E; inversion E; subst. apply first_some_in in Er.
  assert (G : forall t, sq_to_cyl tol t (V3 a b c) (V3 d e f) g = Some s' ->
                        scaled (SSimpleQuadric (V3 a b c) (V3 d e f) g) s' false).
  { intros t. unfold sq_to_cyl. numR.
    destruct (soft_equal tol 0 (vget t (V3 a b c))) eqn:S0; [|discriminate]. cbn [negb].
    destruct (soft_equal tol 0 (vget t (V3 d e f))) eqn:S1; [|discriminate]. cbn [negb].
    destruct (soft_equal tol (vget (u_axis t) (V3 a b c)) (vget (v_axis t) (V3 a b c))) eqn:Suv; [|discriminate].
    cbn [negb].
    match goal with |- context [if ?t then None else _] => destruct t end; [discriminate|].
    intros E0; inversion E0; subst; clear E0.
    destruct (Hcyl t) as [Z0 Z1]. pose proof (Z0 S0) as A0. pose proof (Z1 S1) as A1.
    destruct (F20 t (eq_sym A0)) as [Pu Pv].
    destruct t; cbn [vget u_axis v_axis vx vy vz] in *.
    - pose proof (Eyz Suv). subst c. subst a d.
      exists (1 / b). split; [apply Rdiv_lt_0_compat; lra|]. intros p. unfold surf_f. ssimp. field. lra.
    - pose proof (Exz Suv). subst c. subst b e.
      exists (1 / a). split; [apply Rdiv_lt_0_compat; lra|]. intros p. unfold surf_f. ssimp. field. lra.
    - pose proof (Exy Suv). subst b. subst c f.
      exists (1 / a). split; [apply Rdiv_lt_0_compat; lra|]. intros p. unfold surf_f. ssimp. field. lra. }
  destruct Er as [Er|[Er|[Er|[]]]]; eapply G; eauto.
Qed.

(** ** simplify_sense *)
Theorem simplify_scaled tol s s' flip : 0 < tol < 1 ->
  snap_exact tol s -> simplify tol s = Some (s', flip) -> scaled s s' flip.
Proof.
  intros Htol Hs E.
  destruct s as [a pos|a r|r|a ou ov r|n d|o r|a o tsq|abc def g|abc def ghi j].
  - eapply simplify_plane_aligned; eauto.
  - discriminate.
  - discriminate.
  - eapply simplify_cyl; eauto.
  - eapply simplify_plane; eauto.
  - eapply simplify_sphere; eauto.
  - eapply simplify_cone; eauto.
  - eapply simplify_sq; eauto.
  - eapply simplify_gq; eauto.
Qed.

Theorem simplify_sense tol s s' flip p : 0 < tol < 1 ->
  snap_exact tol s -> simplify tol s = Some (s', flip) ->
  surf_sense s' p = if flip then flip_ssense (surf_sense s p) else surf_sense s p.
Proof.
  intros Htol Hs E. destruct (simplify_scaled tol s s' flip Htol Hs E) as (k & Hk & Hf).
  pose proof (surf_sense_is_sign s' p) as S1. pose proof (surf_sense_is_sign s p) as S0.
  rewrite Hf in S1. set (x := surf_f s p) in *.
  assert (P1 : x < 0 -> k * x < 0) by (intros; nra).
  assert (P2 : 0 < x -> 0 < k * x) by (intros; nra).
  assert (P3 : x = 0 -> k * x = 0) by (intros ->; ring).
  replace (- k * x) with (- (k * x)) in S1 by ring.
  destruct flip, (surf_sense s' p), (surf_sense s p); cbn in *; try reflexivity; exfalso;
    try (specialize (P3 S0)); try (specialize (P1 S0)); try (specialize (P2 S0)); lra.
Qed.

(** hypotheses are satisfiable: a flipped plane *)
Example simplify_example :
  snap_exact (1/10000000000) (SPlane (V3 (-1) 0 0) 2) /\
  simplify (1/10000000000) (SPlane (V3 (-1) 0 0) 2) = Some (SPlane (V3 1 0 0) (-2), true).
Proof.
  split.
  - cbn. unfold vdot, zero_if_soft, soft_zero. cbn [vx vy vz]. numR. repeat split; try lra.
    all: intros F; apply Rltb_true in F; unfold Rabs in F;
      match type of F with context [Rcase_abs ?v] => destruct (Rcase_abs v) end; lra.
  - unfold simplify, should_flip, sc_any, count_signs, count_step, vnegate. cbn [vx vy vz]. numR.
    rewrite Rabs_R0.
    destruct (Rltb_spec (Rabs (-1)) (1 / 10000000000)) as [F|_].
    { rewrite Rabs_left in F; lra. }
    destruct (Rltb_spec 0 (1 / 10000000000)); [|lra].
    destruct (Rltb_spec (-1) 0); [|lra]. cbn. repeat f_equal; ring.
Qed.
