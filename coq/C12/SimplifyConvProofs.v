(** * C12: the early exits of Quadric{Cyl,Sphere}Converter, stated on their own
    (a converter answers only when its shape test holds; otherwise nullopt). *)
From Coq Require Import Reals Lra Lia Psatz ZArith List Bool.
From Celer Require Import Base.Num Base.NumR Base.Vec3
  C12.Solver C12.Surfaces C12.SurfacesProofs C12.Transforms C12.Simplify C12.SimplifyProofs.
Local Open Scope R_scope.
Notation vec := (vec3 R).

(** QuadricCylConverter(axis t) answers only if BOTH the second-order and the first-order
    coefficient along t are soft zeros and the two other second-order coefficients are softly equal *)
Theorem sq_to_cyl_some_only tol t (abc def : vec) g s' :
  sq_to_cyl tol t abc def g = Some s' ->
  soft_equal tol 0 (vget t abc) = true /\ soft_equal tol 0 (vget t def) = true /\
  soft_equal tol (vget (u_axis t) abc) (vget (v_axis t) abc) = true /\
  exists ou ov rsq, s' = SCylAligned t ou ov rsq /\ 0 < rsq.
Proof.
  unfold sq_to_cyl. numR.
  destruct (soft_equal tol 0 (vget t abc)); cbn [negb]; [|discriminate].
  destruct (soft_equal tol 0 (vget t def)); cbn [negb]; [|discriminate].
  destruct (soft_equal tol (vget (u_axis t) abc) (vget (v_axis t) abc)); cbn [negb]; [|discriminate].
  match goal with |- context [Rleb ?x 0] => destruct (Rleb_spec x 0) as [|Hpos]; [discriminate|] end.
  intros Hs. inversion Hs; subst. repeat split; try reflexivity. eexists _, _, _. split; [reflexivity|apply Rnot_le_lt; exact Hpos].
Qed.

(** a nonzero linear or quadratic term along the axis (paraboloids, ...) is never a cylinder *)
Corollary sq_to_cyl_none_axis_terms tol t (abc def : vec) g :
  soft_equal tol 0 (vget t abc) = false \/ soft_equal tol 0 (vget t def) = false ->
  sq_to_cyl tol t abc def g = None.
Proof.
  intros Hn. destruct (sq_to_cyl tol t abc def g) as [s'|] eqn:Hs; [|reflexivity].
  apply sq_to_cyl_some_only in Hs. destruct Hs as [H1 [H2 _]]. destruct Hn as [Hn|Hn]; congruence.
Qed.

(** QuadricSphereConverter answers only if ALL three second-order coefficients are softly equal *)
Theorem sq_to_sphere_some_only tol (abc def : vec) g s' :
  sq_to_sphere tol abc def g = Some s' ->
  soft_equal tol (vx abc) (vy abc) = true /\ soft_equal tol (vx abc) (vz abc) = true /\
  exists o rsq, s' = SSphere o rsq /\ 0 < rsq.
Proof.
  unfold sq_to_sphere. numR.
  destruct (soft_equal tol (vx abc) (vy abc)); cbn [negb orb]; [|discriminate].
  destruct (soft_equal tol (vx abc) (vz abc)); cbn [negb orb]; [|discriminate].
  match goal with |- context [Rleb ?x 0] => destruct (Rleb_spec x 0) as [|Hpos]; [discriminate|] end.
  intros Hs. inversion Hs; subst. repeat split; try reflexivity. eexists _, _. split; [reflexivity|apply Rnot_le_lt; exact Hpos].
Qed.

Lemma soft_equal_far tol a b : 0 < tol <= 1 / 2 -> Rabs a <= Rabs b -> Rabs b <= 2 * Rabs (a - b) ->
  1 / 100 <= Rabs (a - b) -> soft_equal tol a b = false.
Proof.
  intros Ht Hab Hfar Hd. unfold soft_equal, fmax. numR. apply Rltb_false.
  pose proof (Rabs_pos a) as Pa. pose proof (Rabs_pos b) as Pb.
  destruct (Rltb_spec (Rabs a) (Rabs b)) as [H1|H1];
    (match goal with |- context [Rltb ?x ?y] => destruct (Rltb_spec x y) end); nra.
Qed.

(** non-vacuity / the seeded paraboloid: x^2 + y^2 - z - 4 = 0 is not a cylinder along any axis *)
Example paraboloid_not_a_cylinder tol : 0 < tol <= 1 / 2 ->
  sq_to_cyl tol AZ (V3 1 1 0) (V3 0 0 (-1)) (-4) = None /\
  sq_to_cyl tol AX (V3 1 1 0) (V3 0 0 (-1)) (-4) = None /\
  sq_to_cyl tol AY (V3 1 1 0) (V3 0 0 (-1)) (-4) = None.
Proof.
  intros Ht. repeat split; apply sq_to_cyl_none_axis_terms; cbn [vget vx vy vz].
  - right. apply soft_equal_far; try lra; unfold Rabs; repeat (destruct (Rcase_abs _)); lra.
  - left. apply soft_equal_far; try lra; unfold Rabs; repeat (destruct (Rcase_abs _)); lra.
  - left. apply soft_equal_far; try lra; unfold Rabs; repeat (destruct (Rcase_abs _)); lra.
Qed.
