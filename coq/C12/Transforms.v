(** * C12: model of orange/transform/{Translation,Transformation,SignedPermutation},
    orange/MatrixUtils (gemv, gemm, determinant, make_rotation, make_transpose),
    orange/surf/detail/{SurfaceTranslator,SurfaceTransformer}.cc and the
    promotion constructors between surface classes.  Executable definitions only. *)
From Coq Require Import ZArith List Bool.
From Celer Require Import Base.Num Base.Vec3 C12.Solver C12.Surfaces.
Import ListNotations.
Local Open Scope num_scope.

Section Transforms.
  Context {T : Type} `{Num T}.
  Notation vec := (vec3 T).

  (** SquareMatrixReal3: three rows *)
  Record mat3 := M3 { r0 : vec; r1 : vec; r2 : vec }.
  Definition mrow (i : axis) (m : mat3) : vec := match i with AX => r0 m | AY => r1 m | AZ => r2 m end.
  Definition mget (i j : axis) (m : mat3) : T := vget j (mrow i m).
  Definition mat3_id : mat3 := M3 (V3 n1 n0 n0) (V3 n0 n1 n0) (V3 n0 n0 n1).
  Definition make_transpose (m : mat3) : mat3 :=
    M3 (V3 (mget AX AX m) (mget AY AX m) (mget AZ AX m))
       (V3 (mget AX AY m) (mget AY AY m) (mget AZ AY m))
       (V3 (mget AX AZ m) (mget AY AZ m) (mget AZ AZ m)).

  (** gemv(alpha, a, x, beta, y): result[i] = beta*y[i]; for j: result[i] = fma(alpha, a[i][j]*x[j], result[i]) *)
  Definition gemv (alpha : T) (a : mat3) (x : vec) (beta : T) (y : vec) : vec :=
    let row i :=
      nfma alpha (mget i AZ a * vz x)
        (nfma alpha (mget i AY a * vy x)
           (nfma alpha (mget i AX a * vx x) (beta * vget i y))) in
    V3 (row AX) (row AY) (row AZ).
  (** gemv(transpose, alpha, a, x, beta, y): result[i] = beta*y[i]; for j, i: result[i] = fma(alpha, a[j][i]*x[j], result[i]) *)
  Definition gemv_t (alpha : T) (a : mat3) (x : vec) (beta : T) (y : vec) : vec :=
    let col i :=
      nfma alpha (mget AZ i a * vz x)
        (nfma alpha (mget AY i a * vy x)
           (nfma alpha (mget AX i a * vx x) (beta * vget i y))) in
    V3 (col AX) (col AY) (col AZ).

  (** determinant(SquareMatrix<T,3>) *)
  Definition determinant (m : mat3) : T :=
    mget AX AX m * mget AY AY m * mget AZ AZ m
    + mget AY AX m * mget AZ AY m * mget AX AZ m
    + mget AZ AX m * mget AX AY m * mget AY AZ m
    - mget AZ AX m * mget AY AY m * mget AX AZ m
    - mget AY AX m * mget AX AY m * mget AZ AZ m
    - mget AX AX m * mget AZ AY m * mget AY AZ m.

  (** gemm(a, b) for 3x3: result[i][j] = sum_k fma(b[k][j], a[i][k], acc) *)
  Definition gemm3 (a b : mat3) : mat3 :=
    let e i j := nfma (mget AZ j b) (mget i AZ a)
                   (nfma (mget AY j b) (mget i AY a)
                      (nfma (mget AX j b) (mget i AX a) n0)) in
    let row i := V3 (e i AX) (e i AY) (e i AZ) in
    M3 (row AX) (row AY) (row AZ).

  (** make_rotation(Real3 ax, Turn theta) given sin and cos of the angle *)
  Definition make_rotation_axis (ax : vec) (sint cost : T) : mat3 :=
    let X := vx ax in let Y := vy ax in let Z := vz ax in
    M3 (V3 (cost + X * X * (n1 - cost)) (X * Y * (n1 - cost) - Z * sint) (X * Z * (n1 - cost) + Y * sint))
       (V3 (X * Y * (n1 - cost) + Z * sint) (cost + Y * Y * (n1 - cost)) (Y * Z * (n1 - cost) - X * sint))
       (V3 (X * Z * (n1 - cost) - Y * sint) (Y * Z * (n1 - cost) + X * sint) (cost + Z * Z * (n1 - cost))).

  (** ** Translation *)
  Definition tr_up (tra pos : vec) : vec := vadd pos tra.
  Definition tr_down (tra pos : vec) : vec := vsub pos tra.

  (** ** Transformation (rot, tra) *)
  Record transformation := TF { tf_rot : mat3; tf_tra : vec }.
  Definition tf_of_translation (tra : vec) : transformation := TF mat3_id tra.
  Definition tf_up (tf : transformation) (pos : vec) : vec := gemv n1 (tf_rot tf) pos n1 (tf_tra tf).
  Definition tf_down (tf : transformation) (pos : vec) : vec :=
    let x := vsub pos (tf_tra tf) in gemv_t n1 (tf_rot tf) x n0 x.
  Definition tf_rotate_up (tf : transformation) (d : vec) : vec := gemv n1 (tf_rot tf) d n0 d.
  Definition tf_rotate_down (tf : transformation) (d : vec) : vec := gemv_t n1 (tf_rot tf) d n0 d.
  (** from_inverse / calc_inverse *)
  Definition tf_inverse (tf : transformation) : transformation :=
    let rinv := make_transpose (tf_rot tf) in
    TF rinv (gemv (- n1) rinv (tf_tra tf) n0 vzero).

  (** ** SignedPermutation: for each new axis (x,y,z) a flip bit and a source axis *)
  Definition sperm : Type := ((bool * axis) * (bool * axis) * (bool * axis))%type.
  Definition sp_get (a : axis) (p : sperm) : bool * axis :=
    match a, p with AX, (x, _, _) => x | AY, (_, y, _) => y | AZ, (_, _, z) => z end.
  (** rotate_up: result[ax] = +-d[new_ax] *)
  Definition sp_rotate_up (p : sperm) (d : vec) : vec :=
    let e a := let '(flip, na) := sp_get a p in if flip then - vget na d else vget na d in
    V3 (e AX) (e AY) (e AZ).
  (** rotate_down: result[new_ax] = +-d[ax], written in loop order x, y, z *)
  Definition sp_rotate_down (p : sperm) (d : vec) : vec :=
    let step a (r : vec) := let '(flip, na) := sp_get a p in
                            vset na (if flip then - vget a d else vget a d) r in
    step AZ (step AY (step AX vzero)).
  (** explicit matrix (rows = new axes) and its validity (each source axis once) *)
  Definition sp_matrix (p : sperm) : mat3 :=
    let row a := let '(flip, na) := sp_get a p in vset na (if flip then - n1 else n1) vzero in
    M3 (row AX) (row AY) (row AZ).
  Definition sp_valid (p : sperm) : bool :=
    let a0 := snd (sp_get AX p) in let a1 := snd (sp_get AY p) in let a2 := snd (sp_get AZ p) in
    negb (axis_eqb a0 a1) && negb (axis_eqb a0 a2) && negb (axis_eqb a1 a2).
  (** compressed_ encoding: per axis 3 bits (flip<<2 | new_axis), x in the low bits *)
  Definition axis_Z (a : axis) : Z := match a with AX => 0 | AY => 1 | AZ => 2 end.
  Definition axis_of_Z (z : Z) : axis := if (z =? 0)%Z then AX else if (z =? 1)%Z then AY else AZ.
  Definition sp_encode (p : sperm) : Z :=
    let code a := let '(flip, na) := sp_get a p in ((if flip then 4 else 0) + axis_Z na)%Z in
    (code AX + 8 * (code AY + 8 * code AZ))%Z.
  Definition sp_decode (c : Z) : sperm :=
    let dec k := let v := ((c / (8 ^ k)) mod 8)%Z in ((4 <=? v)%Z, axis_of_Z (v mod 4)%Z) in
    (dec 0%Z, dec 1%Z, dec 2%Z).

  (** ** Promotions between surface classes *)
  Definition plane_of_aligned (t : axis) (position : T) : surface T :=
    SPlane (plane_aligned_normal t) position.
  Definition sphere_of_centered (rsq : T) : surface T := SSphere vzero rsq.
  Definition cyl_of_centered (t : axis) (rsq : T) : surface T := SCylAligned t n0 n0 rsq.
  (** SimpleQuadric(Plane): {0,0,0}, normal, negate(d) *)
  Definition sq_of_plane (n : vec) (d : T) : surface T := SSimpleQuadric vzero n (- d).
  (** SimpleQuadric(CylAligned<T>) *)
  Definition sq_of_cyl (t : axis) (ou ov rsq : T) : surface T :=
    let second := vset (v_axis t) n1 (vset (u_axis t) n1 vzero) in
    let first := vset (v_axis t) (nofZ (-2) * ov) (vset (u_axis t) (nofZ (-2) * ou) vzero) in
    let zeroth := ((- rsq) + ou * ou) + ov * ov in
    SSimpleQuadric second first zeroth.
  (** SimpleQuadric(Sphere) *)
  Definition sq_of_sphere (o : vec) (rsq : T) : surface T :=
    let zeroth := (((- rsq) + vx o * vx o) + vy o * vy o) + vz o * vz o in
    SSimpleQuadric (V3 n1 n1 n1) (vscale (nofZ (-2)) o) zeroth.
  (** SimpleQuadric(ConeAligned<T>) *)
  Definition sq_of_cone (t : axis) (o : vec) (tsq : T) : surface T :=
    let U := u_axis t in let V := v_axis t in
    let second := vset V n1 (vset U n1 (vset t (- tsq) vzero)) in
    let first := vset V (nofZ (-2) * vget V o)
                   (vset U (nofZ (-2) * vget U o) (vset t (n2 * vget t o * tsq) vzero)) in
    let zeroth := ((- tsq * (vget t o * vget t o)) + vget U o * vget U o) + vget V o * vget V o in
    SSimpleQuadric second first zeroth.
  (** GeneralQuadric(SimpleQuadric) *)
  Definition gq_of_sq (abc def : vec) (g : T) : surface T := SGeneralQuadric abc vzero def g.

  (** ** SurfaceTranslator *)
  Definition translate_gq (tra abc def ghi : vec) (j : T) : surface T :=
    let cross := V3 (vx def / n2) (vy def / n2) (vz def / n2) in
    let first := V3 (vx ghi / n2) (vy ghi / n2) (vz ghi / n2) in
    let nonl := M3 (V3 (vx abc) (vx cross) (vz cross))
                   (V3 (vx cross) (vy abc) (vy cross))
                   (V3 (vz cross) (vy cross) (vz abc)) in
    let newfirst := gemv (- n1) nonl tra n1 first in
    let newzeroth := j - dot tra (vadd newfirst first) in
    SGeneralQuadric abc def (vscale n2 newfirst) newzeroth.
  (** [fixed = true] is the code as it stands since commit 564387d: the constant
      term subtracts first[i] * origin[i], as f(x - t) requires; [fixed = false]
      is the translator before the repair (2 * first[i] * origin[i]; see
      translate_sq_refuted / NOTES.md) *)
  Definition translate_sq_gen (fixed : bool) (tra abc def : vec) (g : T) : surface T :=
    let step (i : axis) (acc : vec * T) :=
      let '(first, zeroth) := acc in
      (vset i (vget i first - n2 * vget i abc * vget i tra) first,
       zeroth + (vget i abc * (vget i tra * vget i tra)
                 - (if fixed then vget i def * vget i tra else n2 * vget i def * vget i tra))) in
    let '(first, zeroth) := step AZ (step AY (step AX (def, g))) in
    SSimpleQuadric abc first zeroth.
  Definition translate_sq := translate_sq_gen true.
  Definition translate_surface_gen (fixed : bool) (tra : vec) (s : surface T) : surface T :=
    match s with
    | SPlaneAligned t p => SPlaneAligned t (p + vget t tra)
    | SCylCentered t r =>
        (* CylAligned<T>{other}: origin 0; then transform_up(calc_origin) *)
        let o := tr_up tra vzero in SCylAligned t (vget (u_axis t) o) (vget (v_axis t) o) r
    | SSphereCentered r => SSphere (tr_up tra vzero) r
    | SCylAligned t ou ov r =>
        let o := tr_up tra (vset (v_axis t) ov (vset (u_axis t) ou vzero)) in
        SCylAligned t (vget (u_axis t) o) (vget (v_axis t) o) r
    | SPlane n d => SPlane n (d + dot tra n)
    | SSphere o r => SSphere (tr_up tra o) r
    | SConeAligned t o tsq => SConeAligned t (tr_up tra o) tsq
    | SSimpleQuadric abc def g => translate_sq_gen fixed tra abc def g
    | SGeneralQuadric abc def ghi j => translate_gq tra abc def ghi j
    end.
  (** the translator as coded today *)
  Definition translate_surface := translate_surface_gen true.

  (** ** SurfaceTransformer *)
  (** 4x4 matrices as functions of indices 0..3 *)
  Definition mat4 : Type := nat -> nat -> T.
  Definition idx4 : list nat := [0; 1; 2; 3]%nat.
  Definition gemm4 (a b : mat4) : mat4 :=
    fun i j => fold_left (fun acc k => nfma (b k j) (a i k) acc) idx4 n0.
  Definition gemm4_t (a b : mat4) : mat4 :=
    fun i j => fold_left (fun acc k => nfma (b k j) (a k i) acc) idx4 n0.
  Definition ax_of_nat (n : nat) : axis := match n with 1%nat => AX | 2%nat => AY | _ => AZ end.
  Definition tr_inv_matrix (tf : transformation) : mat4 :=
    let trans := tf_rotate_down tf (vsub vzero (tf_tra tf)) in
    fun i j => match i, j with
               | O, O => n1
               | O, _ => n0
               | _, O => vget (ax_of_nat i) trans
               | _, _ => mget (ax_of_nat j) (ax_of_nat i) (tf_rot tf)
               end.
  Definition gq_matrix (abc def ghi : vec) (j : T) : mat4 :=
    let cX := vx def / n2 in let cY := vy def / n2 in let cZ := vz def / n2 in
    let fX := vx ghi / n2 in let fY := vy ghi / n2 in let fZ := vz ghi / n2 in
    fun r c => match r, c with
      | 0, 0 => j | 0, 1 => fX | 0, 2 => fY | 0, _ => fZ
      | 1, 0 => fX | 1, 1 => vx abc | 1, 2 => cX | 1, _ => cZ
      | 2, 0 => fY | 2, 1 => cX | 2, 2 => vy abc | 2, _ => cY
      | _, 0 => fZ | _, 1 => cZ | _, 2 => cY | _, _ => vz abc
      end%nat.
  Definition transform_gq (tf : transformation) (abc def ghi : vec) (j : T) : surface T :=
    let ti := tr_inv_matrix tf in
    let qrinv := gemm4 (gq_matrix abc def ghi j) ti in
    let q := gemm4_t ti qrinv in
    let i0 := 0%nat in let i1 := 1%nat in let i2 := 2%nat in let i3 := 3%nat in
    SGeneralQuadric (V3 (q i1 i1) (q i2 i2) (q i3 i3))
                    (V3 (n2 * q i1 i2) (n2 * q i2 i3) (n2 * q i1 i3))
                    (V3 (n2 * q i0 i1) (n2 * q i0 i2) (n2 * q i0 i3))
                    (q i0 i0).
  Definition transform_plane (tf : transformation) (n : vec) (d : T) : surface T :=
    let normal := tf_rotate_up tf n in
    let point := tf_up tf (vscale d n) in
    SPlane normal (dot normal point).
  Definition transform_sphere (tf : transformation) (o : vec) (rsq : T) : surface T :=
    SSphere (tf_up tf o) rsq.
  Definition as_gq (s : surface T) : surface T :=
    match s with SSimpleQuadric abc def g => gq_of_sq abc def g | x => x end.
  Definition transform_via_gq (tf : transformation) (s : surface T) : surface T :=
    match as_gq s with
    | SGeneralQuadric abc def ghi j => transform_gq tf abc def ghi j
    | x => x
    end.
  Definition transform_surface (tf : transformation) (s : surface T) : surface T :=
    match s with
    | SPlaneAligned t p => transform_plane tf (plane_aligned_normal t) p
    | SPlane n d => transform_plane tf n d
    | SSphereCentered r => transform_sphere tf vzero r
    | SSphere o r => transform_sphere tf o r
    | SCylCentered t r => transform_via_gq tf (sq_of_cyl t n0 n0 r)
    | SCylAligned t ou ov r => transform_via_gq tf (sq_of_cyl t ou ov r)
    | SConeAligned t o tsq => transform_via_gq tf (sq_of_cone t o tsq)
    | SSimpleQuadric abc def g => transform_via_gq tf s
    | SGeneralQuadric abc def ghi j => transform_gq tf abc def ghi j
    end.
End Transforms.
Arguments mat3 T : clear implicits.
Arguments transformation T : clear implicits.
