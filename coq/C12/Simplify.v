(** * C12: model of orange/surf/SurfaceSimplifier.cc and the Quadric*Converter
    classes over [Num].  [simplify tol s] = [None] when no simplification is
    performed, else [Some (s', flipped)] where [flipped] tells that the
    simplifier toggled the sense.  Executable definitions only. *)
From Coq Require Import ZArith List Bool.
From Celer Require Import Base.Num Base.Vec3 C12.Solver C12.Surfaces.
Import ListNotations.
Local Open Scope num_scope.

Section Simplify.
  Context {T : Type} `{Num T}.
  Notation vec := (vec3 T).

  (** SoftZero{tol}(v): |v| < tol *)
  Definition soft_zero (tol v : T) : bool := nabs v <? tol.
  Definition fmax (a b : T) : T := if a <? b then b else a.
  (** SoftEqual{tol}: rel = tol, abs = tol * (1e-14 / 1e-12);
      |a - b| < fmax(abs, rel * fmax(|a|, |b|)) *)
  Definition soft_equal (tol a b : T) : bool :=
    let abs_ := tol * (nQ 1 100000000000000 / nQ 1 1000000000000) in
    let rel := tol * fmax (nabs a) (nabs b) in
    nabs (a - b) <? fmax abs_ rel.

  (** count_signs: (pos, neg, first nonzero sign) *)
  Definition count_step (tol : T) (acc : nat * nat * Z) (v : T) : nat * nat * Z :=
    if nabs v <? tol then acc
    else
      let '(pos, neg, first) := acc in
      let neg' := if v <? n0 then S neg else neg in
      let pos' := if v <? n0 then pos else S pos in
      let first' := if (first =? 0)%Z then (if v <? n0 then (-1)%Z else 1%Z) else first in
      (pos', neg', first').
  Definition count_signs (tol : T) (v : vec) : nat * nat * Z :=
    count_step tol (count_step tol (count_step tol (O, O, 0%Z) (vx v)) (vy v)) (vz v).
  Definition sc_any (c : nat * nat * Z) : bool :=
    let '(pos, neg, _) := c in negb (Nat.eqb pos 0) || negb (Nat.eqb neg 0).
  Definition should_flip (c : nat * nat * Z) : bool :=
    let '(pos, neg, first) := c in
    sc_any c && (Nat.ltb pos neg || (Nat.eqb neg pos && (first <? 0)%Z)).

  Definition vnegate (v : vec) : vec := V3 (- vx v) (- vy v) (- vz v).
  Definition vne (a b : vec) : bool :=
    negb (vx a =? vx b) || negb (vy a =? vy b) || negb (vz a =? vz b).
  Definition snap (tol v : T) : T := if soft_zero tol v then n0 else v.

  (** QuadricPlaneConverter *)
  Definition sq_to_plane (def : vec) (g : T) : surface T :=
    let nf := n1 / norm def in
    SPlane (V3 (vx def * nf) (vy def * nf) (vz def * nf)) (- g * nf).
  (** QuadricSphereConverter *)
  Definition sq_to_sphere (tol : T) (abc def : vec) (g : T) : option (surface T) :=
    if negb (soft_equal tol (vx abc) (vy abc)) || negb (soft_equal tol (vx abc) (vz abc)) then None
    else
      let inv_norm := nofZ 3 / (vx abc + vy abc + vz abc) in
      let k := nQ (-1) 2 * inv_norm in
      let o := V3 (vx def * k) (vy def * k) (vz def * k) in
      let rsq := dot o o - g * inv_norm in
      if rsq <=? n0 then None
      else Some (SSphere (V3 (vx o + n0) (vy o + n0) (vz o + n0)) rsq).
  (** QuadricCylConverter for axis t *)
  Definition sq_to_cyl (tol : T) (t : axis) (abc def : vec) (g : T) : option (surface T) :=
    let U := u_axis t in let V := v_axis t in
    if negb (soft_equal tol n0 (vget t abc)) then None
    else if negb (soft_equal tol n0 (vget t def)) then None
    else if negb (soft_equal tol (vget U abc) (vget V abc)) then None
    else
      let inv_norm := n2 / (vget U abc + vget V abc) in
      let ou := nQ (-1) 2 * inv_norm * vget U def in
      let ov := nQ (-1) 2 * inv_norm * vget V def in
      let rsq := ou * ou + ov * ov - g * inv_norm in
      if rsq <=? n0 then None
      else Some (SCylAligned t (ou + n0) (ov + n0) rsq).
  (** QuadricConeConverter for axis t *)
  Definition sq_to_cone (tol : T) (t : axis) (abc def : vec) (g : T) : option (surface T) :=
    let U := u_axis t in let V := v_axis t in
    if negb (vget t abc <? n0) then None
    else if negb (soft_equal tol (vget U abc) (vget V abc)) then None
    else
      let nrm := (vget U abc + vget V abc) / n2 in
      let tsq := - vget t abc / nrm in
      let ot := vget t def / (nofZ (-2) * vget t abc) in
      let ou := vget U def / (nofZ (-2) * nrm) in
      let ov := vget V def / (nofZ (-2) * nrm) in
      let expected := (- tsq * (ot * ot) + ou * ou) + ov * ov in
      if negb (soft_equal tol expected (g / nrm)) then None
      else Some (SConeAligned t (vset V (ov + n0) (vset U (ou + n0) (vset t (ot + n0) vzero))) tsq).

  Definition first_some {A} (l : list (option A)) : option A :=
    fold_right (fun x acc => match x with Some y => Some y | None => acc end) None l.

  Definition simplify (tol : T) (s : surface T) : option (surface T * bool) :=
    match s with
    | SPlaneAligned t p =>
        if negb (p =? n0) && soft_zero tol p then Some (SPlaneAligned t n0, false) else None
    | SCylAligned t ou ov r =>
        if ou * ou + ov * ov <? tol * tol then Some (SCylCentered t r, false) else None
    | SConeAligned t o tsq =>
        let sn v := if negb (v =? n0) && soft_zero tol v then (n0, true) else (v, false) in
        let '(x, cx) := sn (vx o) in let '(y, cy) := sn (vy o) in let '(z, cz) := sn (vz o) in
        if cx || cy || cz then Some (SConeAligned t (V3 x y z) tsq, false) else None
    | SPlane n d =>
        let sg := count_signs tol n in
        if should_flip sg then Some (SPlane (vnegate n) (- d), true)
        else
          let '(pos, neg, _) := sg in
          if Nat.eqb pos 1 && Nat.eqb neg 0 then
            if tol <? vx n then Some (SPlaneAligned AX d, false)
            else if tol <? vy n then Some (SPlaneAligned AY d, false)
            else Some (SPlaneAligned AZ d, false)
          else
            let n' := V3 (snap tol (vx n)) (snap tol (vy n)) (snap tol (vz n)) in
            if vne n' n then
              let nf := n1 / norm n' in
              Some (SPlane (V3 (vx n' * nf) (vy n' * nf) (vz n' * nf)) (d * nf), false)
            else if negb (d =? n0) && soft_zero tol d then Some (SPlane n' n0, false)
            else None
    | SSphere o r =>
        if dot o o <? tol * tol then Some (SSphereCentered r, false) else None
    | SSimpleQuadric abc def g =>
        let sg := count_signs tol abc in
        if negb (sc_any sg) then Some (sq_to_plane def g, false)
        else if should_flip sg then Some (SSimpleQuadric (vnegate abc) (vnegate def) (- g), true)
        else
          let '(pos, neg, _) := sg in
          let r :=
            if Nat.eqb pos 3 then sq_to_sphere tol abc def g
            else if Nat.eqb pos 2 && Nat.eqb neg 1 then
              first_some [sq_to_cone tol AX abc def g; sq_to_cone tol AY abc def g; sq_to_cone tol AZ abc def g]
            else if Nat.eqb pos 2 && Nat.eqb neg 0 then
              first_some [sq_to_cyl tol AX abc def g; sq_to_cyl tol AY abc def g; sq_to_cyl tol AZ abc def g]
            else None in
          match r with Some s' => Some (s', false) | None => None end
    | SGeneralQuadric abc def ghi j =>
        let cs := count_signs tol def in
        if negb (sc_any cs) then Some (SSimpleQuadric abc ghi j, false)
        else
          let ss := count_signs tol abc in
          if should_flip ss || (negb (sc_any ss) && should_flip cs) then
            Some (SGeneralQuadric (vnegate abc) (vnegate def) (vnegate ghi) (- j), true)
          else None
    | _ => None
    end.
End Simplify.
