(** * C12: model of orange/surf/Involute.hh (calc_sense, calc_normal, calc_intersections),
    orange/surf/detail/InvolutePoint.hh, orange/surf/detail/InvoluteSolver.hh and
    corecel/math/IllinoisRootFinder.hh.  Executable definitions only.

    [pi] is a parameter (constants::pi): the real PI in the theorems, the binary64
    constant in the float runs.  The solver's `while (t_lower < tmax_)` loop takes fuel. *)
From Coq Require Import ZArith List Bool.
From Celer Require Import Base.Num Base.Vec3 C12.Solver C12.Surfaces.
Import ListNotations.
Local Open Scope num_scope.

Section Involute.
  Context {T : Type} `{Num T}.
  Notation vec := (vec3 T).
  Variable pi : T.

  (** Involute data(): origin (2), r_b_ (negative if "clockwise"), a_, tmin_, tmax_ *)
  Record involute := Inv { inv_ox : T; inv_oy : T; inv_rbs : T; inv_a : T; inv_tmin : T; inv_tmax : T }.
  (** sign(): r_b_ > 0 ? Chirality::left : Chirality::right *)
  Definition inv_right (s : involute) : bool := negb (n0 <? inv_rbs s).
  (** r_b(): fabs(r_b_) *)
  Definition inv_rb (s : involute) : T := nabs (inv_rbs s).

  Definition clamp_to_nonneg (v : T) : T := if v <? n0 then n0 else v.
  (** negate: 0 - value *)
  Definition negate (v : T) : T := n0 - v.
  (** signum: (0 < x) - (x < 0) *)
  Definition signum (x : T) : Z := Z.sub (if n0 <? x then 1%Z else 0%Z) (if x <? n0 then 1%Z else 0%Z).
  (** dot_product of two Real2 (fma accumulation from 0) and norm *)
  Definition dot2 (x0 x1 y0 y1 : T) : T := nfma x1 y1 (nfma x0 y0 n0).
  Definition norm2 (x0 x1 : T) : T := nsqrt (dot2 x0 x1 x0 x1).

  (** InvolutePoint{r_b, a}(theta) *)
  Definition involute_point (rb a theta : T) : T * T :=
    let angle := theta + a in
    (rb * (ncos angle + theta * nsin angle), rb * (nsin angle - theta * ncos angle)).

  (** ** Involute::calc_sense; the tangent point is exposed for the proofs *)
  Definition inv_local_xy (s : involute) (pos : vec) : T * T :=
    let x := vx pos - inv_ox s in let y := vy pos - inv_oy s in
    (if inv_right s then negate x else x, y).
  Definition inv_tsq (s : involute) (x y : T) : T := dot2 x y x y / (inv_rbs s * inv_rbs s) - n1.
  (** tangent point of the base circle seen from (x, y) *)
  Definition inv_tangent_point (s : involute) (x y : T) : T * T :=
    let rb2 := inv_rbs s * inv_rbs s in
    let nrm := norm2 x y in
    let x' := rb2 / nrm in
    let y' := nsqrt (rb2 - x' * x') in
    ((x' * x - y' * y) / nrm, (y' * x + x' * y) / nrm).
  (** angle of the tangent point in [0, 2 pi), then lifted by whole turns below tmax + a *)
  Definition inv_theta (s : involute) (px py : T) : T :=
    let theta0 := nacos (px / norm2 px py) in
    let theta1 := if py <? n0 then n2 * pi - theta0 else theta0 in
    theta1 + nmax n0 (nofZ (nfloorZ ((inv_tmax s + inv_a s - theta1) / (n2 * pi)))) * n2 * pi.
  Definition inv_calc_sense (s : involute) (pos : vec) : ssense :=
    let '(x, y) := inv_local_xy s pos in
    let tsq := inv_tsq s x y in
    if tsq <? inv_tmin s * inv_tmin s then Outside
    else if inv_tmax s * inv_tmax s <? tsq then Outside
    else
      (* NB the code passes t^2, not t, to InvolutePoint (see NOTES.md) *)
      let '(qx, qy) := involute_point (inv_rb s) (inv_a s) (clamp_to_nonneg tsq) in
      if (x =? qx) && (y =? qy) then On
      else
        let '(px, py) := inv_tangent_point s x y in
        let theta := inv_theta s px py in
        let a1 := theta - nsqrt (clamp_to_nonneg tsq) in
        if (theta <? inv_tmax s + inv_a s) && (inv_a s <? a1) then Inside else Outside.

  (** ** Involute::calc_normal *)
  Definition inv_calc_normal (s : involute) (pos : vec) : vec :=
    let x := vx pos - inv_ox s in let y := vy pos - inv_oy s in
    let angle := nsqrt (clamp_to_nonneg (dot2 x y x y / (inv_rbs s * inv_rbs s) - n1)) + inv_a s in
    let nx := nsin angle in
    V3 (if inv_right s then negate nx else nx) (- ncos angle) n0.

  (** ** IllinoisRootFinder{func, tol}(left, right), max_iters_ = 50:
      (root, remaining_iters > 0) *)
  Inductive side := SideLeft | SideInit | SideRight.
  Fixpoint illinois_loop (fuel : nat) (func : T -> T) (tol : T)
           (left right f_left f_right : T) (sd : side) : T * bool :=
    match fuel with
    | O => (n0, false)
    | S k =>
        let root := (left * f_right - right * f_left) / (f_right - f_left) in
        let f_root := func root in
        if tol <? nabs f_root then
          match k with
          | O => (root, false)          (* --remaining_iters reached 0 *)
          | _ =>
            if Z.eqb (signum f_left) (signum f_root) then
              illinois_loop k func tol root right f_root
                (match sd with SideLeft => f_right * nQ 1 2 | _ => f_right end) SideLeft
            else
              illinois_loop k func tol left root
                (match sd with SideRight => f_left * nQ 1 2 | _ => f_left end) f_root SideRight
          end
        else (root, true)
    end.
  Definition illinois_max_iters : nat := 50.
  Definition illinois (func : T -> T) (tol : T) (left right : T) : T * bool :=
    illinois_loop illinois_max_iters func tol left right (func left) (func right) SideInit.

  (** ** InvoluteSolver{r_b, a, sign, tmin, tmax} *)
  Definition solver_tol : T := nQ 1 100000000.     (* tol() = 1e-8 for double *)
  (** line_angle_param(u, v) *)
  Definition line_angle_param (u v : T) : T :=
    if negb (u =? n0) then natan ((- v) / u)
    else if (- v) <? n0 then pi * (- nQ 1 2) else pi * nQ 1 2.
  (** the root function (lambda calc_t_intersect) *)
  Definition inv_root_fn (rb a x y u v t : T) : T :=
    let alpha := u * nsin (t + a) - v * ncos (t + a) in
    let beta := t * (u * ncos (t + a) + v * nsin (t + a)) in
    rb * (alpha - beta) + x * v - y * u.
  (** calc_dist(x, y, u, v, t) *)
  Definition inv_calc_dist (rb a tmin tmax x y u v t : T) : T :=
    let '(qx, qy) := involute_point rb a (clamp_to_nonneg t) in
    if (tmin <=? t) && (t <=? tmax) then
      let up := qx - x in let vp := qy - y in
      let dt := u * up + v * vp in
      nsqrt (up * up + vp * vp) * nofZ (signum dt)
    else n0.
  (** the while loop: state (t_lower, t_upper, i, results in order found, all roots converged) *)
  Fixpoint inv_solve_loop (fuel : nat) (rb a tmin tmax x y u v convert tol_point : T)
           (t_lower t_upper : T) (i : Z) (acc : list T) (conv : bool) : list T * bool * bool :=
    match fuel with
    | O => (acc, conv, false)
    | S k =>
      if t_lower <? tmax then
        let f := inv_root_fn rb a x y u v in
        let ft_lower := f t_lower in
        let ft_upper := f t_upper in
        if negb (Z.eqb (signum ft_lower) (signum ft_upper)) then
          let '(t_gamma, ok) := illinois f (rb * solver_tol) t_lower t_upper in
          let dist := inv_calc_dist rb a tmin tmax x y u v t_gamma in
          let acc' := if tol_point <? dist then acc ++ [convert * dist] else acc in
          inv_solve_loop k rb a tmin tmax x y u v convert tol_point t_upper (t_upper + pi) i acc' (conv && ok)
        else
          inv_solve_loop k rb a tmin tmax x y u v convert tol_point t_upper (t_upper + pi / nofZ i) (i + 1)%Z acc conv
      else (acc, conv, true)
    end.
  Definition inv_solver_fuel : nat := 400.
  (** operator()(pos, dir, on_surface), pos already relative to the origin:
      (distances found (at most 3 are stored by the code), every root finder call converged,
       the loop ended within the fuel) *)
  Definition inv_solve (rb a : T) (right : bool) (tmin tmax : T) (pos dir : vec) (on : bool)
    : list T * bool * bool :=
    let x := if right then - vx pos else vx pos in
    let y := vy pos in
    let u0 := if right then - vx dir else vx dir in
    let v0 := vy dir in
    if (u0 =? n0) && (v0 =? n0) then ([], true, true)
    else
      let convert := n1 / nsqrt (v0 * v0 + u0 * u0) in
      let u := u0 * convert in let v := v0 * convert in
      let beta := line_angle_param u v in
      let t_upper0 := beta - a in
      let t_upper := t_upper0 + nmax n0 (- nofZ (nfloorZ (t_upper0 / pi))) * pi in
      let tol_point := if on then rb * solver_tol * nofZ 100 else n0 in
      inv_solve_loop inv_solver_fuel rb a tmin tmax x y u v convert tol_point n0 t_upper 1%Z [] true.
  (** Involute::calc_intersections *)
  Definition inv_calc_intersections (s : involute) (pos dir : vec) (on : bool) : list T * bool * bool :=
    inv_solve (inv_rb s) (inv_a s) (inv_right s) (inv_tmin s) (inv_tmax s)
      (V3 (vx pos - inv_ox s) (vy pos - inv_oy s) (vz pos)) dir on.
End Involute.
Arguments involute T : clear implicits.
