(** * C12 proofs (instance R): every surface primitive is self-consistent.
    [surf_f] is the textbook surface function; [calc_sense] is its sign,
    [calc_intersections] returns exactly the positive roots of
    t |-> surf_f (p + t d) (nearest first), [calc_normal] is the unit gradient. *)
From Coq Require Import Reals ZArith List Bool Lra Lia Psatz.
From Celer Require Import Base.Num Base.NumR Base.Vec3 C12.Solver C12.Surfaces C12.SolverProofs.
Import ListNotations.
Local Open Scope R_scope.

Notation vec := (vec3 R).
Definition ray (p d : vec) (t : R) : vec := vadd p (vscale t d).
Definition sq (x : R) : R := x * x.

(** ** the surface functions, their gradients and homogeneous quadratic parts *)
Definition surf_f (s : surface R) (p : vec) : R :=
  match s with
  | SPlaneAligned t pos => vget t p - pos
  | SCylCentered t rsq => sq (vget (u_axis t) p) + sq (vget (v_axis t) p) - rsq
  | SSphereCentered rsq => sq (vx p) + sq (vy p) + sq (vz p) - rsq
  | SCylAligned t ou ov rsq => sq (vget (u_axis t) p - ou) + sq (vget (v_axis t) p - ov) - rsq
  | SPlane n d => vx n * vx p + vy n * vy p + vz n * vz p - d
  | SSphere o rsq => sq (vx p - vx o) + sq (vy p - vy o) + sq (vz p - vz o) - rsq
  | SConeAligned t o tsq =>
      sq (vget (u_axis t) p - vget (u_axis t) o) + sq (vget (v_axis t) p - vget (v_axis t) o)
      - tsq * sq (vget t p - vget t o)
  | SSimpleQuadric abc def g =>
      vx abc * sq (vx p) + vy abc * sq (vy p) + vz abc * sq (vz p)
      + vx def * vx p + vy def * vy p + vz def * vz p + g
  | SGeneralQuadric abc def ghi j =>
      vx abc * sq (vx p) + vy abc * sq (vy p) + vz abc * sq (vz p)
      + vx def * vx p * vy p + vy def * vy p * vz p + vz def * vz p * vx p
      + vx ghi * vx p + vy ghi * vy p + vz ghi * vz p + j
  end.

Definition surf_grad (s : surface R) (p : vec) : vec :=
  match s with
  | SPlaneAligned t _ => vset t 1 (V3 0 0 0)
  | SCylCentered t _ =>
      vset (v_axis t) (2 * vget (v_axis t) p) (vset (u_axis t) (2 * vget (u_axis t) p) (V3 0 0 0))
  | SSphereCentered _ => V3 (2 * vx p) (2 * vy p) (2 * vz p)
  | SCylAligned t ou ov _ =>
      vset (v_axis t) (2 * (vget (v_axis t) p - ov))
        (vset (u_axis t) (2 * (vget (u_axis t) p - ou)) (V3 0 0 0))
  | SPlane n _ => n
  | SSphere o _ => V3 (2 * (vx p - vx o)) (2 * (vy p - vy o)) (2 * (vz p - vz o))
  | SConeAligned t o tsq =>
      vset t (-2 * tsq * (vget t p - vget t o))
        (V3 (2 * (vx p - vx o)) (2 * (vy p - vy o)) (2 * (vz p - vz o)))
  | SSimpleQuadric abc def _ =>
      V3 (2 * vx abc * vx p + vx def) (2 * vy abc * vy p + vy def) (2 * vz abc * vz p + vz def)
  | SGeneralQuadric abc def ghi _ =>
      V3 (2 * vx abc * vx p + vx def * vy p + vz def * vz p + vx ghi)
         (2 * vy abc * vy p + vx def * vx p + vy def * vz p + vy ghi)
         (2 * vz abc * vz p + vy def * vy p + vz def * vx p + vz ghi)
  end.

(** homogeneous second-order part (the leading coefficient of the ray polynomial) *)
Definition surf_f2 (s : surface R) (d : vec) : R :=
  match s with
  | SPlaneAligned _ _ | SPlane _ _ => 0
  | SCylCentered t _ | SCylAligned t _ _ _ => sq (vget (u_axis t) d) + sq (vget (v_axis t) d)
  | SSphereCentered _ | SSphere _ _ => sq (vx d) + sq (vy d) + sq (vz d)
  | SConeAligned t _ tsq => sq (vget (u_axis t) d) + sq (vget (v_axis t) d) - tsq * sq (vget t d)
  | SSimpleQuadric abc _ _ => vx abc * sq (vx d) + vy abc * sq (vy d) + vz abc * sq (vz d)
  | SGeneralQuadric abc def _ _ =>
      vx abc * sq (vx d) + vy abc * sq (vy d) + vz abc * sq (vz d)
      + vx def * vx d * vy d + vy def * vy d * vz d + vz def * vz d * vx d
  end.

Definition vdot (a b : vec) : R := vx a * vx b + vy a * vy b + vz a * vz b.
Lemma dot_vdot (a b : vec) : dot a b = vdot a b.
Proof. unfold dot, vdot. numR. ring. Qed.

Ltac vsimp :=
  unfold ray, vdot, sq, vadd, vsub, vscale, vzero, dot, norm in *;
  cbn [vget vset vx vy vz u_axis v_axis fst snd] in *; numR.

(** exact second-order Taylor expansion: [surf_grad] is the gradient of [surf_f]
    and the ray polynomial is  f2(d) t^2 + (grad . d) t + f(p) *)
Theorem surf_taylor s p d t :
  surf_f s (ray p d t) = surf_f s p + t * vdot (surf_grad s p) d + t * t * surf_f2 s d.
Proof.
  destruct s as [a ?|a ?|?|a ? ? ?|? ?|? ?|a ? ?|? ? ?|? ? ? ?]; try destruct a;
    unfold surf_f, surf_grad, surf_f2; vsimp; ring.
Qed.

Definition surf_A (s : surface R) (d : vec) : R := surf_f2 s d.
Definition surf_B (s : surface R) (p d : vec) : R := vdot (surf_grad s p) d / 2.
Lemma surf_ray_poly s p d t : surf_f s (ray p d t) = qpoly (surf_A s d) (surf_B s p d) (surf_f s p) t.
Proof. rewrite surf_taylor. unfold qpoly, surf_A, surf_B. field. Qed.

(** ** sense is the sign of the surface function *)
Definition sense_matches (s : ssense) (x : R) : Prop :=
  match s with Inside => x < 0 | On => x = 0 | Outside => 0 < x end.
Lemma real_to_sense_spec q : sense_matches (real_to_sense (T:=R) q) q.
Proof.
  unfold real_to_sense. numR.
  destruct (Rltb_spec q 0); [exact r|]. destruct (Rleb_spec q 0); cbn; lra.
Qed.
Lemma surf_sense_value s p : surf_sense s p = real_to_sense (surf_f s p).
Proof.
  destruct s as [a ?|a ?|?|a ? ? ?|? ?|? ?|a ? ?|? ? ?|? ? ? ?]; try destruct a;
    unfold surf_sense, plane_aligned_sense, cylc_sense, sphere_centered_sense, cyl_sense,
      plane_sense, sphere_sense, cone_sense, sq_sense, gq_sense, gq_value, surf_f;
    f_equal; vsimp; ring.
Qed.
Theorem surf_sense_is_sign s p : sense_matches (surf_sense s p) (surf_f s p).
Proof. rewrite surf_sense_value. apply real_to_sense_spec. Qed.

(** ** intersections *)
(** the three families of [calc_intersections] in terms of (a, hb, c) *)
Definition direct_solve (a hb c : R) (on : bool) : isect2 (T:=R) :=
  if on then solve_on (mk_solver a hb) else solve_c (mk_solver a hb) c.
Definition cyl_solve (a hb c : R) (on : bool) : isect2 (T:=R) :=
  if Rltb a min_a_R then no_isect2 else direct_solve a hb c on.

Definition isect_pair (s : surface R) (p d : vec) (on : bool) : isect2 (T:=R) :=
  match s with
  | SCylCentered t r => cylc_intersect t r p d on
  | SSphereCentered r => sphere_centered_intersect r p d on
  | SCylAligned t ou ov r => cyl_intersect t ou ov r p d on
  | SSphere o r => sphere_intersect o r p d on
  | SConeAligned t o tsq => cone_intersect t o tsq p d on
  | SSimpleQuadric abc def g => sq_intersect abc def g p d on
  | SGeneralQuadric abc def ghi j => gq_intersect abc def ghi j p d on
  | _ => no_isect2
  end.
Definition is_plane (s : surface R) : bool :=
  match s with SPlaneAligned _ _ | SPlane _ _ => true | _ => false end.
Definition is_general (s : surface R) : bool :=
  match s with SConeAligned _ _ _ | SSimpleQuadric _ _ _ | SGeneralQuadric _ _ _ _ => true | _ => false end.
Definition is_cyl (s : surface R) : bool :=
  match s with SCylCentered _ _ | SCylAligned _ _ _ _ => true | _ => false end.
Definition is_sphere (s : surface R) : bool :=
  match s with SSphereCentered _ | SSphere _ _ => true | _ => false end.

Lemma surf_intersect_pair s p d on : is_plane s = false ->
  surf_intersect s p d on = isect2_list (isect_pair s p d on).
Proof. destruct s; cbn; intros; try discriminate; reflexivity. Qed.

Lemma direct_solve_ext a a' hb hb' c c' on : a = a' -> hb = hb' -> c = c' ->
  direct_solve a hb c on = direct_solve a' hb' c' on.
Proof. intros; subst; reflexivity. Qed.
Lemma cyl_solve_ext a a' hb hb' c c' on : a = a' -> hb = hb' -> c = c' ->
  cyl_solve a hb c on = cyl_solve a' hb' c' on.
Proof. intros; subst; reflexivity. Qed.
Lemma solve_general_ext a a' hb hb' c c' on : a = a' -> hb = hb' -> c = c' ->
  solve_general (T:=R) a hb c on = solve_general a' hb' c' on.
Proof. intros; subst; reflexivity. Qed.

Lemma sphere_family s p d on : is_sphere s = true -> vdot d d = 1 ->
  isect_pair s p d on = direct_solve (surf_A s d) (surf_B s p d) (surf_f s p) on.
Proof.
  intros Hs Hd. unfold vdot in Hd.
  destruct s as [| |r| | |o r| | |]; try discriminate; cbn [isect_pair].
  - transitivity (direct_solve 1 (dot p d) (dot p p - r) on).
    { unfold sphere_centered_intersect, direct_solve. destruct on; reflexivity. }
    apply direct_solve_ext; unfold surf_A, surf_B, surf_f2, surf_grad, surf_f; vsimp; lra.
  - transitivity (direct_solve 1 (dot (vsub p o) d) (dot (vsub p o) (vsub p o) - r) on).
    { unfold sphere_intersect, direct_solve. destruct on; reflexivity. }
    apply direct_solve_ext; unfold surf_A, surf_B, surf_f2, surf_grad, surf_f; vsimp; lra.
Qed.

Lemma cyl_family s p d on : is_cyl s = true -> vdot d d = 1 ->
  isect_pair s p d on = cyl_solve (surf_A s d) (surf_B s p d) (surf_f s p) on.
Proof.
  intros Hs Hd. unfold vdot in Hd.
  destruct s as [|a r| |a ou ov r| | | | |]; try discriminate; cbn [isect_pair].
  - transitivity (cyl_solve (1 - vget a d * vget a d)
                    (vget (u_axis a) d * vget (u_axis a) p + vget (v_axis a) d * vget (v_axis a) p)
                    (vget (u_axis a) p * vget (u_axis a) p + vget (v_axis a) p * vget (v_axis a) p - r) on).
    { unfold cylc_intersect, cyl_solve, direct_solve. fold (min_a (T:=R)). rewrite min_a_R_eq.
      numR. destruct (Rltb _ min_a_R); [reflexivity|]. destruct on; reflexivity. }
    apply cyl_solve_ext; unfold surf_A, surf_B, surf_f2, surf_grad, surf_f; destruct a; vsimp; lra.
  - transitivity (cyl_solve (1 - vget a d * vget a d)
                    (vget (u_axis a) d * (vget (u_axis a) p - ou) + vget (v_axis a) d * (vget (v_axis a) p - ov))
                    ((vget (u_axis a) p - ou) * (vget (u_axis a) p - ou)
                     + (vget (v_axis a) p - ov) * (vget (v_axis a) p - ov) - r) on).
    { unfold cyl_intersect, cyl_solve, direct_solve. fold (min_a (T:=R)). rewrite min_a_R_eq.
      numR. destruct (Rltb _ min_a_R); [reflexivity|]. destruct on; reflexivity. }
    apply cyl_solve_ext; unfold surf_A, surf_B, surf_f2, surf_grad, surf_f; destruct a; vsimp; lra.
Qed.

Lemma general_family s p d on : is_general s = true ->
  isect_pair s p d on = solve_general (surf_A s d) (surf_B s p d) (surf_f s p) on.
Proof.
  intros Hs.
  destruct s as [| | | | | |a o tsq|abc def g|abc def ghi j]; try discriminate; cbn [isect_pair];
    unfold cone_intersect, cone_coeffs, sq_intersect, sq_coeffs, gq_intersect, gq_coeffs;
    apply solve_general_ext; unfold surf_A, surf_B, surf_f2, surf_grad, surf_f;
    try destruct a; vsimp; field.
Qed.

(** planes: one intersection, the root of the linear ray polynomial *)
Lemma plane_family s p d on t : is_plane s = true ->
  (In (Some t) (surf_intersect s p d on) <->
   on = false /\ surf_B s p d <> 0 /\ t = - surf_f s p / (2 * surf_B s p d) /\ 0 < t).
Proof.
  intros Hs.
  assert (G : forall nd np dd : R,
     (In (Some t) [if negb on && negb (Reqb nd 0)
                   then (if Rltb 0 ((dd - np) / nd) then Some ((dd - np) / nd) else None) else None]
      <-> on = false /\ nd / 2 <> 0 /\ t = - (np - dd) / (2 * (nd / 2)) /\ 0 < t)).
  { intros nd np dd. destruct on; cbn [negb andb].
    { split; [intros [F|[]]; discriminate|intros (F & _); discriminate]. }
    destruct (Req_EM_T nd 0) as [E|E].
    - assert (Hb : Reqb nd 0 = true) by (apply Reqb_true; assumption). rewrite Hb. cbn.
      split; [intros [F|[]]; discriminate|]. intros (_ & F & _). lra.
    - assert (Hb : Reqb nd 0 = false) by (apply Reqb_false; assumption). rewrite Hb. cbn [negb].
      assert (Heq : - (np - dd) / (2 * (nd / 2)) = (dd - np) / nd) by (field; assumption).
      rewrite Heq.
      destruct (Rltb_spec 0 ((dd - np) / nd)) as [Hp|Hp]; cbn.
      + split.
        * intros [F|[]]. inversion F; subst. repeat split; auto. lra.
        * intros (_ & _ & -> & _). left; reflexivity.
      + split; [intros [F|[]]; discriminate|]. intros (_ & _ & -> & F). lra. }
  destruct s as [a pos| | | |n dd| | | |]; try discriminate.
  - unfold surf_intersect, plane_aligned_intersect, surf_B, surf_f, surf_grad. numR.
    specialize (G (vget a d) (vget a p) pos).
    replace (vdot (vset a 1 (V3 0 0 0)) d) with (vget a d) by (destruct a; vsimp; ring).
    exact G.
  - unfold surf_intersect, plane_intersect, surf_B, surf_f, surf_grad. numR.
    rewrite !dot_vdot. specialize (G (vdot n d) (vdot n p) dd). unfold vdot in *. exact G.
Qed.

(** ** Regimes in which the code is exact (outside the documented tolerance window) *)
Definition sound_regime (s : surface R) (p d : vec) : Prop :=
  if is_general s then min_a_R <= Rabs (surf_A s d) \/ surf_A s d = 0 else True.
Definition complete_regime (s : surface R) (p d : vec) (on : bool) : Prop :=
  if is_general s then
    min_a_R <= Rabs (surf_A s d) \/ (on = false /\ surf_A s d = 0 /\ min_a_R < Rabs (surf_B s p d))
  else if is_cyl s then min_a_R <= surf_A s d
  else if is_plane s then on = true -> surf_B s p d <> 0
  else True.

Lemma family_cases s : is_plane s = true \/ is_sphere s = true \/ is_cyl s = true \/ is_general s = true.
Proof. destruct s; cbn; auto. Qed.
Lemma family_excl s :
  (is_plane s = true -> is_general s = false /\ is_cyl s = false /\ is_sphere s = false) /\
  (is_sphere s = true -> is_general s = false /\ is_cyl s = false /\ is_plane s = false) /\
  (is_cyl s = true -> is_general s = false /\ is_plane s = false /\ is_sphere s = false) /\
  (is_general s = true -> is_cyl s = false /\ is_plane s = false /\ is_sphere s = false).
Proof. destruct s; cbn; repeat split; auto; discriminate. Qed.

Lemma not_plane s : is_sphere s = true \/ is_cyl s = true \/ is_general s = true -> is_plane s = false.
Proof. destruct s; cbn; intros [F|[F|F]]; try discriminate; reflexivity. Qed.

Lemma sphere_A_pos s d : is_sphere s = true -> vdot d d = 1 -> surf_A s d = 1.
Proof. intros Hs Hd. unfold vdot in Hd. destruct s; try discriminate; unfold surf_A, surf_f2, sq; lra. Qed.

Lemma direct_solve_spec a hb c on t : a <> 0 -> (on = true -> c = 0) ->
  (In (Some t) (isect2_list (direct_solve a hb c on)) <-> 0 < t /\ qpoly a hb c t = 0).
Proof.
  intros Ha Hc. unfold direct_solve. destruct on.
  - rewrite (Hc eq_refl). apply solve_on_spec; assumption.
  - apply solve_c_spec; assumption.
Qed.
Lemma direct_solve_ordered a hb c on t0 t1 : direct_solve a hb c on = (Some t0, Some t1) -> t0 < t1.
Proof.
  unfold direct_solve. destruct on.
  - unfold solve_on. cbn. case_if; discriminate.
  - apply solve_c_ordered.
Qed.
Lemma cyl_solve_ordered a hb c on t0 t1 : cyl_solve a hb c on = (Some t0, Some t1) -> t0 < t1.
Proof. unfold cyl_solve. case_if; [discriminate|]. apply direct_solve_ordered. Qed.

(** ** S_intersections_on_surface: every reported distance is positive and the
    point at that distance lies on the surface *)
Theorem surf_intersections_on_surface s p d on t :
  vdot d d = 1 ->
  (on = true -> surf_f s p = 0) ->
  sound_regime s p d ->
  In (Some t) (surf_intersect s p d on) -> 0 < t /\ surf_f s (ray p d t) = 0.
Proof.
  intros Hd Hon Hreg Hin. rewrite surf_ray_poly.
  destruct (family_cases s) as [Hs|[Hs|[Hs|Hs]]].
  - apply plane_family in Hin; [|assumption]. destruct Hin as (_ & Hb & -> & Ht). split; [assumption|].
    assert (HA : surf_A s d = 0) by (destruct s; try discriminate; reflexivity).
    unfold qpoly. rewrite HA. field. assumption.
  - rewrite surf_intersect_pair in Hin by (apply not_plane; auto).
    rewrite sphere_family in Hin by assumption.
    apply direct_solve_spec in Hin; [assumption| |assumption].
    rewrite sphere_A_pos by assumption. lra.
  - rewrite surf_intersect_pair in Hin by (apply not_plane; auto).
    rewrite cyl_family in Hin by assumption. unfold cyl_solve in Hin.
    destruct (Rltb_spec (surf_A s d) min_a_R) as [Hw|Hw].
    + cbn in Hin. destruct Hin as [F|[F|[]]]; discriminate.
    + apply direct_solve_spec in Hin; [assumption| |assumption]. pose proof min_a_R_pos. lra.
  - rewrite surf_intersect_pair in Hin by (apply not_plane; auto).
    rewrite general_family in Hin by assumption.
    unfold sound_regime in Hreg. rewrite Hs in Hreg.
    destruct on.
    + rewrite (Hon eq_refl) in *. apply solve_sound_on. assumption.
    + apply solve_sound; [|assumption]. destruct Hreg as [Hr|Hr]; [left|right]; assumption.
Qed.

Lemma min_isect_pair (r : isect2 (T:=R)) :
  (forall t0 t1, r = (Some t0, Some t1) -> t0 < t1) -> min_isect (isect2_list r) = first_isect r.
Proof.
  destruct r as [[a|] [b|]]; unfold min_isect, isect2_list, first_isect; cbn; intros Ho; try reflexivity.
  specialize (Ho a b eq_refl). destruct (Rltb_spec b a); [lra|reflexivity].
Qed.

(** ** S_nearest: no smaller positive crossing exists than the smallest reported distance *)
Theorem surf_nearest s p d on t' :
  vdot d d = 1 ->
  (on = true -> surf_f s p = 0) -> (on = false -> surf_f s p <> 0) ->
  complete_regime s p d on ->
  0 < t' -> surf_f s (ray p d t') = 0 ->
  exists t0, min_isect (surf_intersect s p d on) = Some t0 /\ t0 <= t'.
Proof.
  intros Hd Hon Hoff Hreg Ht E. rewrite surf_ray_poly in E. unfold complete_regime in Hreg.
  destruct (family_cases s) as [Hs|[Hs|[Hs|Hs]]];
    pose proof (family_excl s) as (X1 & X2 & X3 & X4).
  - destruct (X1 Hs) as (G1 & G2 & G3). rewrite G1, G2, Hs in Hreg.
    assert (HA : surf_A s d = 0) by (destruct s; try discriminate; reflexivity).
    unfold qpoly in E. rewrite HA in E.
    assert (Hb : surf_B s p d <> 0).
    { destruct on; [apply Hreg; reflexivity|]. intros Hb0. apply (Hoff eq_refl). rewrite Hb0 in E. lra. }
    assert (Hoff' : on = false).
    { destruct on; [|reflexivity]. exfalso. rewrite (Hon eq_refl) in E.
      assert (F : surf_B s p d * t' = 0) by lra. apply Rmult_integral in F. destruct F; lra. }
    assert (Hin : In (Some t') (surf_intersect s p d on)).
    { apply plane_family; [assumption|]. repeat split; try assumption.
      apply Rmult_eq_reg_l with (2 * surf_B s p d); [|lra]. field_simplify; [lra|assumption]. }
    exists t'. split; [|lra].
    destruct s; try discriminate; cbn in Hin |- *; destruct Hin as [F|[]]; rewrite <- F; reflexivity.
  - destruct (X2 Hs) as (G1 & G2 & G3).
    rewrite surf_intersect_pair by assumption. rewrite sphere_family by assumption.
    rewrite min_isect_pair by (intros t0 t1; apply direct_solve_ordered).
    apply first_isect_le; [intros t0 t1; apply direct_solve_ordered|].
    apply direct_solve_spec; [rewrite sphere_A_pos by assumption; lra|assumption|]. split; assumption.
  - destruct (X3 Hs) as (G1 & G2 & G3). rewrite G1, Hs in Hreg.
    rewrite surf_intersect_pair by assumption. rewrite cyl_family by assumption.
    rewrite min_isect_pair by (intros t0 t1; apply cyl_solve_ordered).
    apply first_isect_le; [intros t0 t1; apply cyl_solve_ordered|].
    unfold cyl_solve. destruct (Rltb_spec (surf_A s d) min_a_R) as [Hw|Hw]; [lra|].
    apply direct_solve_spec; [pose proof min_a_R_pos; lra|assumption|]. split; assumption.
  - destruct (X4 Hs) as (G1 & G2 & G3). rewrite Hs in Hreg.
    rewrite surf_intersect_pair by assumption. rewrite general_family by assumption.
    rewrite min_isect_pair by (intros t0 t1; apply solve_general_ordered).
    destruct on.
    + rewrite (Hon eq_refl) in *. apply solve_complete_on; try assumption.
      destruct Hreg as [Hr|(F & _)]; [assumption|discriminate].
    + apply solve_complete; try assumption.
      destruct Hreg as [Hr|(_ & Ha & Hb)]; [left; assumption|right; split; assumption].
Qed.

(** ** S_normal_is_unit_gradient *)
Definition surf_wf (s : surface R) : Prop :=
  match s with SPlane n _ => vdot n n = 1 | _ => True end.

Lemma unit_of_scaled (w g : vec) (c : R) : 0 < c -> g = vscale c w -> vdot w w <> 0 ->
  let n := make_unit_vector w in vdot n n = 1 /\ exists k, 0 < k /\ g = vscale k n.
Proof.
  intros Hc Hg Hw. cbn zeta.
  assert (Hpos : 0 < vdot w w).
  { unfold vdot in *. pose proof (Rle_0_sqr (vx w)). pose proof (Rle_0_sqr (vy w)). pose proof (Rle_0_sqr (vz w)).
    unfold Rsqr in *. lra. }
  set (m := sqrt (vdot w w)).
  assert (Hm : 0 < m) by (apply sqrt_lt_R0; assumption).
  assert (Hmm : m * m = vdot w w) by (apply sqrt_sqrt; lra).
  assert (Hn : make_unit_vector w = V3 (vx w * (1 / m)) (vy w * (1 / m)) (vz w * (1 / m))).
  { unfold make_unit_vector, norm. rewrite dot_vdot. fold m. numR. reflexivity. }
  rewrite Hn. split.
  - unfold vdot in *. cbn [vx vy vz].
    replace (vx w * (1 / m) * (vx w * (1 / m)) + vy w * (1 / m) * (vy w * (1 / m)) + vz w * (1 / m) * (vz w * (1 / m)))
      with ((vx w * vx w + vy w * vy w + vz w * vz w) / (m * m)) by (field; lra).
    rewrite Hmm. field. lra.
  - exists (c * m). split; [nra|]. rewrite Hg. unfold vscale. cbn [vx vy vz]. numR.
    f_equal; field; lra.
Qed.

Theorem surf_normal_is_unit_gradient s p :
  surf_wf s -> vdot (surf_grad s p) (surf_grad s p) <> 0 ->
  let n := surf_normal s p in vdot n n = 1 /\ exists k, 0 < k /\ surf_grad s p = vscale k n.
Proof.
  intros Hwf Hg. cbn zeta.
  assert (Hplane : forall n : vec, vdot n n = 1 -> vdot n n = 1 /\ exists k, 0 < k /\ n = vscale k n).
  { intros n Hn. split; [assumption|]. exists 1. split; [lra|]. destruct n. unfold vscale. cbn. numR. f_equal; ring. }
  assert (Hhalf : forall w g : vec, g = vscale 2 w -> vdot g g <> 0 -> vdot w w <> 0).
  { intros w g -> Hne Hw. apply Hne. unfold vdot, vscale in *. cbn [vx vy vz] in *. numR. nra. }
  destruct s as [a pos|a r|r|a ou ov r|n dd|o r|a o tsq|abc def g|abc def ghi j];
    unfold surf_normal.
  - apply Hplane. destruct a; unfold plane_aligned_normal; vsimp; ring.
  - apply (unit_of_scaled _ _ 2); [lra| |].
    + destruct a; unfold surf_grad, cylc_normal; vsimp; f_equal; ring.
    + apply (Hhalf _ (surf_grad (SCylCentered a r) p)); [|assumption].
      destruct a; unfold surf_grad; vsimp; f_equal; ring.
  - apply (unit_of_scaled _ _ 2); [lra| |].
    + unfold surf_grad, sphere_centered_normal; destruct p; vsimp; f_equal; ring.
    + apply (Hhalf _ (surf_grad (SSphereCentered r) p)); [|assumption].
      unfold surf_grad; destruct p; vsimp; f_equal; ring.
  - apply (unit_of_scaled _ _ 2); [lra| |].
    + destruct a; unfold surf_grad, cyl_normal; vsimp; f_equal; ring.
    + apply (Hhalf _ (surf_grad (SCylAligned a ou ov r) p)); [|assumption].
      destruct a; unfold surf_grad; vsimp; f_equal; ring.
  - apply Hplane. exact Hwf.
  - apply (unit_of_scaled _ _ 2); [lra| |].
    + unfold surf_grad, sphere_normal; vsimp; f_equal; ring.
    + apply (Hhalf _ (surf_grad (SSphere o r) p)); [|assumption].
      unfold surf_grad; vsimp; f_equal; ring.
  - apply (unit_of_scaled _ _ 2); [lra| |].
    + destruct a; unfold surf_grad, cone_normal; vsimp; f_equal; ring.
    + apply (Hhalf _ (surf_grad (SConeAligned a o tsq) p)); [|assumption].
      destruct a; unfold surf_grad; vsimp; f_equal; ring.
  - apply (unit_of_scaled _ _ 1); [lra| |assumption].
    unfold surf_grad, sq_normal; vsimp; f_equal; ring.
  - apply (unit_of_scaled _ _ 1); [lra| |assumption].
    unfold surf_grad, gq_normal; vsimp; f_equal; ring.
Qed.

(** ** S_sense_flips_at_simple_root *)
Lemma qpoly_shift a hb c t0 s : qpoly a hb c t0 = 0 ->
  qpoly a hb c (t0 + s) = s * ((2 * a * t0 + 2 * hb) + a * s).
Proof. unfold qpoly. intros E. nra. Qed.

Lemma qpoly_flip a hb c t0 : qpoly a hb c t0 = 0 -> 2 * a * t0 + 2 * hb <> 0 ->
  exists eps, 0 < eps /\ forall dl, 0 < dl < eps -> qpoly a hb c (t0 - dl) * qpoly a hb c (t0 + dl) < 0.
Proof.
  intros E HD. set (D := 2 * a * t0 + 2 * hb) in *.
  assert (HaD : 0 < Rabs D) by (apply Rabs_pos_lt; assumption).
  assert (Ha : 0 <= Rabs a) by apply Rabs_pos.
  exists (Rabs D / (Rabs a + 1)). split.
  - apply Rdiv_lt_0_compat; lra.
  - intros dl [Hd0 Hd1].
    replace (t0 - dl) with (t0 + - dl) by ring.
    rewrite !(qpoly_shift a hb c t0) by assumption. fold D.
    assert (Hx : Rabs a * dl < Rabs D).
    { apply Rmult_lt_compat_r with (r := Rabs a + 1) in Hd1; [|lra].
      unfold Rdiv in Hd1. rewrite Rmult_assoc, Rinv_l, Rmult_1_r in Hd1 by lra. nra. }
    assert (HDD : Rabs D * Rabs D = D * D).
    { rewrite <- Rabs_mult. apply Rabs_pos_eq. nra. }
    assert (Haa : Rabs a * Rabs a = a * a).
    { rewrite <- Rabs_mult. apply Rabs_pos_eq. nra. }
    assert (Hpos : 0 < D * D - a * a * dl * dl).
    { assert (0 < (Rabs D - Rabs a * dl) * (Rabs D + Rabs a * dl)) by (apply Rmult_lt_0_compat; nra). nra. }
    assert (0 < dl * dl) by nra.
    replace (- dl * (D + a * - dl) * (dl * (D + a * dl))) with (- ((dl * dl) * (D * D - a * a * dl * dl))) by ring.
    assert (0 < dl * dl * (D * D - a * a * dl * dl)) by (apply Rmult_lt_0_compat; assumption). lra.
Qed.

Theorem surf_sense_flips_at_simple_root s p d t0 :
  surf_f s (ray p d t0) = 0 ->
  2 * surf_A s d * t0 + 2 * surf_B s p d <> 0 ->
  exists eps, 0 < eps /\ forall dl, 0 < dl < eps ->
    surf_sense s (ray p d (t0 - dl)) <> On /\
    surf_sense s (ray p d (t0 + dl)) = flip_ssense (surf_sense s (ray p d (t0 - dl))).
Proof.
  intros E HD. rewrite surf_ray_poly in E.
  destruct (qpoly_flip _ _ _ _ E HD) as (eps & Heps & Hflip).
  exists eps. split; [assumption|]. intros dl Hdl. specialize (Hflip dl Hdl).
  rewrite <- !surf_ray_poly in Hflip.
  pose proof (surf_sense_is_sign s (ray p d (t0 - dl))) as S1.
  pose proof (surf_sense_is_sign s (ray p d (t0 + dl))) as S2.
  destruct (surf_sense s (ray p d (t0 - dl))), (surf_sense s (ray p d (t0 + dl)));
    cbn in *; split; try discriminate; try reflexivity; exfalso; nra.
Qed.

(** ** Satisfiability of the hypotheses (a sphere of radius 2 hit from outside) *)
Example surf_example :
  let s := SSphere (V3 0 0 0) 4 in let p := V3 (-5) 0 0 in let d := V3 1 0 0 in
  vdot d d = 1 /\ surf_f s p <> 0 /\ sound_regime s p d /\ complete_regime s p d false /\
  surf_f s (ray p d 3) = 0 /\ surf_wf s /\ vdot (surf_grad s p) (surf_grad s p) <> 0.
Proof.
  cbn zeta. unfold sound_regime, complete_regime, surf_wf. cbn [is_general is_cyl is_plane].
  unfold surf_f, surf_grad; vsimp. repeat split; try lra.
Qed.
