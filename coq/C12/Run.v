(** * C12: entry points for the correspondence check (float instance). *)
From Coq Require Import ZArith List Floats.
From Celer Require Import Base.Num Base.NumF Base.Vec3 C12.Solver C12.Surfaces C12.Transforms C12.Simplify C12.TransformSimplify C12.Involute.
Import ListNotations.

Definition ofv (v : vec3 float) : list float := [vx v; vy v; vz v].
Definition ofo (o : option float) : float := match o with Some x => x | None => infinity end.

(** (sense, intersections with None = +inf, normal) *)
Definition run_eval (s : surface float) (p d : vec3 float) (on : bool) : Z * list float * list float :=
  (ssense_Z (surf_sense s p), map ofo (surf_intersect s p d on), ofv (surf_normal s p)).

(** (SurfaceType enum value, data() in storage order) *)
Definition axis_code (a : axis) : Z := match a with AX => 0 | AY => 1 | AZ => 2 end.
Definition surf_data (s : surface float) : Z * list float :=
  match s with
  | SPlaneAligned t p => (axis_code t, [p])
  | SCylCentered t r => (3 + axis_code t, [r])%Z
  | SSphereCentered r => (6%Z, [r])
  | SCylAligned t ou ov r => (7 + axis_code t, [ou; ov; r])%Z
  | SPlane n d => (10%Z, ofv n ++ [d])
  | SSphere o r => (11%Z, ofv o ++ [r])
  | SConeAligned t o tsq => (12 + axis_code t, ofv o ++ [tsq])%Z
  | SSimpleQuadric abc def g => (15%Z, ofv abc ++ ofv def ++ [g])
  | SGeneralQuadric abc def ghi j => (16%Z, ofv abc ++ ofv def ++ ofv ghi ++ [j])
  end.

Definition run_xlate (fixed : bool) (tra : vec3 float) (s : surface float) (pts : list (vec3 float)) :=
  let s' := translate_surface_gen fixed tra s in
  (surf_data s', map (fun p => (ssense_Z (surf_sense s p), ssense_Z (surf_sense s' (tr_up tra p)),
                                ofv (tr_up tra p))) pts).
Definition run_xform (tf : transformation float) (s : surface float) (pts : list (vec3 float)) :=
  let s' := transform_surface tf s in
  (surf_data s', map (fun p => (ssense_Z (surf_sense s p), ssense_Z (surf_sense s' (tf_up tf p)),
                                ofv (tf_up tf p) ++ ofv (tf_down tf (tf_up tf p))
                                ++ ofv (tf_up tf (tf_down tf p)))) pts).
Definition run_mkrot (ax : vec3 float) (sint cost : float) : list float :=
  let m := make_rotation_axis ax sint cost in ofv (r0 m) ++ ofv (r1 m) ++ ofv (r2 m) ++ [determinant m].
Definition run_sperm (p : sperm) (pts : list (vec3 float)) :=
  (sp_encode p, sp_valid p,
   map (fun v => ofv (sp_rotate_up p v) ++ ofv (sp_rotate_down p (sp_rotate_up p v))
                 ++ ofv (sp_rotate_up p (sp_rotate_down p v))) pts,
   (sp_decode (sp_encode p))).

(** (changed, flipped, surface) of one SurfaceSimplifier pass *)
Definition run_simpl (tol : float) (s : surface float) : bool * bool * (Z * list float) :=
  match simplify tol s with
  | Some (s', fl) => (true, fl, surf_data s')
  | None => (false, false, surf_data s)
  end.

(** the simplifier chain (applied until nothing changes, at most 8 passes):
    (number of passes, total sense flip, final surface) *)
Fixpoint simpl_chain (fuel : nat) (tol : float) (s : surface float) (passes : nat) (fl : bool)
  : nat * bool * surface float :=
  match fuel with
  | O => (passes, fl, s)
  | S k => match simplify tol s with
           | Some (s', f) => simpl_chain k tol s' (S passes) (xorb fl f)
           | None => (passes, fl, s)
           end
  end.
Definition run_simpl_chain (tol : float) (s : surface float) : Z * bool * (Z * list float) :=
  let '(n, fl, s') := simpl_chain 8 tol s O false in (Z.of_nat n, fl, surf_data s').

(** TransformSimplifier: (TransformType, data()) of the result and, per point,
    transform_up of the original and of the simplified variant *)
Definition vt_data (v : vtransform float) : Z * list float :=
  match v with
  | VNoTransformation => (0%Z, [])
  | VTranslation t => (1%Z, ofv t)
  | VTransformation tf => (2%Z, ofv (r0 (tf_rot tf)) ++ ofv (r1 (tf_rot tf)) ++ ofv (r2 (tf_rot tf)) ++ ofv (tf_tra tf))
  end.
Definition run_tsimp (eps : float) (v : vtransform float) (pts : list (vec3 float)) :=
  let v' := simplify_transform eps v in
  (vt_data v', map (fun p => ofv (vt_up v p) ++ ofv (vt_up v' p)) pts).

(** Involute: constants::pi as binary64; (sense, distances in the order found, normal,
    all root finder calls converged, loop ended within the fuel) *)
Definition pi_f : float := 0x1.921fb54442d18p+1%float.
Definition run_inv (s : involute float) (p d : vec3 float) (on : bool) :=
  let '(ds, conv, fin) := inv_calc_intersections pi_f s p d on in
  (ssense_Z (inv_calc_sense pi_f s p), ds, ofv (inv_calc_normal s p), conv, fin).
