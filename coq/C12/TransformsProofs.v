(** * C12 proofs (instance R): translating / transforming a surface preserves its
    point set and its sense; transform-down inverts transform-up; signed
    permutations are orthogonal. *)
From Coq Require Import Reals ZArith List Bool Lra Lia Psatz.
From Celer Require Import Base.Num Base.NumR Base.Vec3 C12.Solver C12.Surfaces C12.Transforms
  C12.SolverProofs C12.SurfacesProofs.
Import ListNotations.
Local Open Scope R_scope.

Ltac tsimp :=
  unfold tr_up, tr_down, ray, vdot, sq, vadd, vsub, vscale, vzero, dot, norm in *;
  cbn [vget vset vx vy vz u_axis v_axis fst snd] in *; numR.

(** ** Promotions keep the surface function *)
Lemma promote_plane t pos p : surf_f (plane_of_aligned t pos) p = surf_f (SPlaneAligned t pos) p.
Proof. destruct t; unfold plane_of_aligned, plane_aligned_normal, surf_f; tsimp; ring. Qed.
Lemma promote_sphere r p : surf_f (sphere_of_centered r) p = surf_f (SSphereCentered r) p.
Proof. unfold sphere_of_centered, surf_f; tsimp; ring. Qed.
Lemma promote_cyl t r p : surf_f (cyl_of_centered t r) p = surf_f (SCylCentered t r) p.
Proof. destruct t; unfold cyl_of_centered, surf_f; tsimp; ring. Qed.
Lemma promote_sq_plane n d p : surf_f (sq_of_plane n d) p = surf_f (SPlane n d) p.
Proof. unfold sq_of_plane, surf_f; tsimp; ring. Qed.
Lemma promote_sq_cyl t ou ov r p : surf_f (sq_of_cyl t ou ov r) p = surf_f (SCylAligned t ou ov r) p.
Proof. destruct t; unfold sq_of_cyl, surf_f; tsimp; ring. Qed.
Lemma promote_sq_sphere o r p : surf_f (sq_of_sphere o r) p = surf_f (SSphere o r) p.
Proof. unfold sq_of_sphere, surf_f; tsimp; ring. Qed.
Lemma promote_sq_cone t o tsq p : surf_f (sq_of_cone t o tsq) p = surf_f (SConeAligned t o tsq) p.
Proof. destruct t; unfold sq_of_cone, surf_f; tsimp; ring. Qed.
Lemma promote_gq_sq abc def g p : surf_f (gq_of_sq abc def g) p = surf_f (SSimpleQuadric abc def g) p.
Proof. unfold gq_of_sq, surf_f; tsimp; ring. Qed.

(** ** SurfaceTranslator: f' (p + t) = f p
    [translate_surface = translate_surface_gen true] is the translator as coded
    (since the repair 564387d); the pre-repair variant ([... false]) is off by
    first . t  for a SimpleQuadric (translate_sq_refuted). *)
Theorem translate_value_gen fixed tra s p :
  surf_f (translate_surface_gen fixed tra s) (tr_up tra p)
  = surf_f s p - (match s with
                  | SSimpleQuadric _ def _ => if fixed then 0 else vdot def tra
                  | _ => 0 end).
Proof.
  destruct s as [a ?|a ?|?|a ? ? ?|? ?|? ?|a ? ?|? ? ?|? ? ? ?]; try destruct a; try destruct fixed;
    unfold translate_surface_gen, translate_sq_gen, translate_gq, gemv, mget, mrow, surf_f; cbn [r0 r1 r2]; tsimp;
    field.
Qed.
Theorem translate_value tra s p :
  surf_f (translate_surface tra s) (tr_up tra p) = surf_f s p.
Proof. unfold translate_surface. rewrite translate_value_gen. destruct s; ring. Qed.
Theorem translate_sense tra s p :
  surf_sense (translate_surface tra s) (tr_up tra p) = surf_sense s p.
Proof. rewrite !surf_sense_value, translate_value. reflexivity. Qed.
(** the pre-repair translator was correct for every type but SimpleQuadric, and
    for a SimpleQuadric when first . t = 0 *)
Theorem translate_sense_before_repair tra s p :
  (match s with SSimpleQuadric _ def _ => vdot def tra = 0 | _ => True end) ->
  surf_sense (translate_surface_gen false tra s) (tr_up tra p) = surf_sense s p.
Proof.
  intros Hs. rewrite !surf_sense_value. rewrite translate_value_gen.
  destruct s; try (f_equal; ring). rewrite Hs. f_equal; ring.
Qed.
(** witness of the defect: the unit sphere around (1,0,0) written as a
    SimpleQuadric, translated by (1,0,0): its centre (2,0,0) is inside, but the
    pre-repair result x^2 - 4x + 5 + y^2 + z^2 has no points at all *)
Theorem translate_sq_refuted :
  exists tra s p, surf_sense s p = Inside /\
                  surf_sense (translate_surface_gen false tra s) (tr_up tra p) = Outside.
Proof.
  exists (V3 1 0 0), (SSimpleQuadric (V3 1 1 1) (V3 (-2) 0 0) 0), (V3 1 0 0).
  rewrite !surf_sense_value. rewrite translate_value_gen.
  unfold surf_f, real_to_sense; tsimp.
  split.
  - destruct (Rltb_spec (1 * (1 * 1) + 1 * (0 * 0) + 1 * (0 * 0) + -2 * 1 + 0 * 0 + 0 * 0 + 0) 0); [reflexivity|lra].
  - destruct (Rltb_spec (1 * (1 * 1) + 1 * (0 * 0) + 1 * (0 * 0) + -2 * 1 + 0 * 0 + 0 * 0 + 0 - (-2 * 1 + 0 * 0 + 0 * 0)) 0); [lra|].
    destruct (Rleb_spec (1 * (1 * 1) + 1 * (0 * 0) + 1 * (0 * 0) + -2 * 1 + 0 * 0 + 0 * 0 + 0 - (-2 * 1 + 0 * 0 + 0 * 0)) 0); [lra|reflexivity].
Qed.
Theorem translation_down_up tra p : tr_down tra (tr_up tra p) = p /\ tr_up tra (tr_down tra p) = p.
Proof. destruct p as [px py pz], tra as [tx ty tz]. unfold tr_down, tr_up, vsub, vadd. cbn [vx vy vz]. numR. split; f_equal; ring. Qed.

(** ** Orthogonal matrices (rotations and reflections) *)
Definition mtm (m : mat3 R) (i j : axis) : R :=
  mget AX i m * mget AX j m + mget AY i m * mget AY j m + mget AZ i m * mget AZ j m.
Definition mmt (m : mat3 R) (i j : axis) : R :=
  mget i AX m * mget j AX m + mget i AY m * mget j AY m + mget i AZ m * mget j AZ m.
Definition delta (i j : axis) : R := if axis_eqb i j then 1 else 0.
Definition orthogonal (m : mat3 R) : Prop :=
  (forall i j, mtm m i j = delta i j) /\ (forall i j, mmt m i j = delta i j).

Ltac ortho_facts H :=
  let H1 := fresh "Ot" in let H2 := fresh "Om" in
  destruct H as [H1 H2];
  pose proof (H1 AX AX); pose proof (H1 AX AY); pose proof (H1 AX AZ);
  pose proof (H1 AY AX); pose proof (H1 AY AY); pose proof (H1 AY AZ);
  pose proof (H1 AZ AX); pose proof (H1 AZ AY); pose proof (H1 AZ AZ);
  pose proof (H2 AX AX); pose proof (H2 AX AY); pose proof (H2 AX AZ);
  pose proof (H2 AY AX); pose proof (H2 AY AY); pose proof (H2 AY AZ);
  pose proof (H2 AZ AX); pose proof (H2 AZ AY); pose proof (H2 AZ AZ);
  clear H1 H2; unfold mtm, mmt, delta, mget, mrow in *; cbn [axis_eqb vget] in *.

Lemma lin3 (a b c x y z a' b' c' : R) : a = a' -> b = b' -> c = c' ->
  a * x + b * y + c * z = a' * x + b' * y + c' * z.
Proof. intros; subst; reflexivity. Qed.

(** transform_down (transform_up p) = p  and  transform_up (transform_down p) = p *)
Theorem down_up_id tf p : orthogonal (tf_rot tf) -> tf_down tf (tf_up tf p) = p.
Proof.
  intros Ho. destruct tf as [m t]. cbn [tf_rot] in Ho. ortho_facts Ho.
  destruct p as [x y z], t as [tx ty tz], m as [[a b c] [d e f] [g h i]].
  unfold tf_down, tf_up, gemv, gemv_t, mget, mrow, vsub. cbn [tf_rot tf_tra r0 r1 r2 vget vx vy vz] in *. numR.
  f_equal.
  - transitivity ((a * a + d * d + g * g) * x + (a * b + d * e + g * h) * y + (a * c + d * f + g * i) * z); [ring|].
    transitivity (1 * x + 0 * y + 0 * z); [apply lin3; assumption|ring].
  - transitivity ((b * a + e * d + h * g) * x + (b * b + e * e + h * h) * y + (b * c + e * f + h * i) * z); [ring|].
    transitivity (0 * x + 1 * y + 0 * z); [apply lin3; assumption|ring].
  - transitivity ((c * a + f * d + i * g) * x + (c * b + f * e + i * h) * y + (c * c + f * f + i * i) * z); [ring|].
    transitivity (0 * x + 0 * y + 1 * z); [apply lin3; assumption|ring].
Qed.
Theorem up_down_id tf p : orthogonal (tf_rot tf) -> tf_up tf (tf_down tf p) = p.
Proof.
  intros Ho. destruct tf as [m t]. cbn [tf_rot] in Ho. ortho_facts Ho.
  destruct p as [x y z], t as [tx ty tz], m as [[a b c] [d e f] [g h i]].
  unfold tf_down, tf_up, gemv, gemv_t, mget, mrow, vsub. cbn [tf_rot tf_tra r0 r1 r2 vget vx vy vz] in *. numR.
  f_equal.
  - transitivity ((a * a + b * b + c * c) * (x - tx) + (a * d + b * e + c * f) * (y - ty) + (a * g + b * h + c * i) * (z - tz) + tx); [ring|].
    transitivity (1 * (x - tx) + 0 * (y - ty) + 0 * (z - tz) + tx); [f_equal; apply lin3; assumption|ring].
  - transitivity ((d * a + e * b + f * c) * (x - tx) + (d * d + e * e + f * f) * (y - ty) + (d * g + e * h + f * i) * (z - tz) + ty); [ring|].
    transitivity (0 * (x - tx) + 1 * (y - ty) + 0 * (z - tz) + ty); [f_equal; apply lin3; assumption|ring].
  - transitivity ((g * a + h * b + i * c) * (x - tx) + (g * d + h * e + i * f) * (y - ty) + (g * g + h * h + i * i) * (z - tz) + tz); [ring|].
    transitivity (0 * (x - tx) + 0 * (y - ty) + 1 * (z - tz) + tz); [f_equal; apply lin3; assumption|ring].
Qed.

(** ** SurfaceTransformer *)
(** the quadric conjugation is the substitution x = R^T (x' - t): a polynomial
    identity that does not need orthogonality *)
Lemma transform_gq_value tf abc def ghi j x :
  surf_f (transform_gq tf abc def ghi j) x = surf_f (SGeneralQuadric abc def ghi j) (tf_down tf x).
Proof.
  destruct tf as [m t]. destruct m as [[a b c] [d e f] [g h i]], t as [tx ty tz], x as [x y z],
    abc as [qa qb qc], def as [qd qe qf], ghi as [qg qh qi].
  unfold transform_gq, gemm4, gemm4_t, gq_matrix, tr_inv_matrix, tf_rotate_down, tf_down, gemv_t, mget, mrow,
    idx4, ax_of_nat, surf_f.
  cbn [fold_left tf_rot tf_tra r0 r1 r2]. tsimp. field.
Qed.

Lemma dot_rot_rot (m : mat3 R) (v w : vec) : orthogonal m ->
  vdot (gemv 1 m v 0 v) (gemv 1 m w 0 w) = vdot v w.
Proof.
  intros Ho. ortho_facts Ho.
  destruct m as [[a b c] [d e f] [g h i]], v as [v1 v2 v3], w as [w1 w2 w3].
  unfold gemv, mget, mrow, vdot. cbn [r0 r1 r2 vget vx vy vz] in *. numR.
  transitivity ((a * a + d * d + g * g) * (v1 * w1) + (a * b + d * e + g * h) * (v1 * w2) + (a * c + d * f + g * i) * (v1 * w3)
                + ((b * a + e * d + h * g) * (v2 * w1) + (b * b + e * e + h * h) * (v2 * w2) + (b * c + e * f + h * i) * (v2 * w3))
                + ((c * a + f * d + i * g) * (v3 * w1) + (c * b + f * e + i * h) * (v3 * w2) + (c * c + f * f + i * i) * (v3 * w3)));
    [ring|].
  transitivity (1 * (v1 * w1) + 0 * (v1 * w2) + 0 * (v1 * w3) + (0 * (v2 * w1) + 1 * (v2 * w2) + 0 * (v2 * w3))
                + (0 * (v3 * w1) + 0 * (v3 * w2) + 1 * (v3 * w3))); [|ring].
  f_equal; [f_equal|]; apply lin3; assumption.
Qed.

Lemma tf_up_diff tf (p q : vec) :
  vsub (tf_up tf p) (tf_up tf q) = gemv 1 (tf_rot tf) (vsub p q) 0 (vsub p q).
Proof.
  destruct tf as [m t]. destruct m as [[a b c] [d e f] [g h i]], t as [tx ty tz], p as [p1 p2 p3], q as [q1 q2 q3].
  unfold tf_up, gemv, mget, mrow, vsub. cbn [tf_rot tf_tra r0 r1 r2 vget vx vy vz]. numR. f_equal; ring.
Qed.

Lemma transform_plane_value tf n d p : orthogonal (tf_rot tf) -> vdot n n = 1 ->
  surf_f (transform_plane tf n d) (tf_up tf p) = surf_f (SPlane n d) p.
Proof.
  intros Ho Hn. unfold transform_plane, surf_f. rewrite dot_vdot.
  fold (vdot (tf_rotate_up tf n) (tf_up tf p)).
  assert (E : vdot (tf_rotate_up tf n) (tf_up tf p) - vdot (tf_rotate_up tf n) (tf_up tf (vscale d n))
              = vdot (tf_rotate_up tf n) (vsub (tf_up tf p) (tf_up tf (vscale d n)))).
  { unfold vdot, vsub. cbn [vx vy vz]. numR. ring. }
  rewrite E, tf_up_diff. unfold tf_rotate_up. rewrite dot_rot_rot by assumption.
  clear E. unfold vdot, vsub, vscale in *. cbn [vx vy vz]. numR.
  transitivity (vx n * vx p + vy n * vy p + vz n * vz p - d * (vx n * vx n + vy n * vy n + vz n * vz n)); [ring|].
  rewrite Hn. ring.
Qed.

Lemma transform_sphere_value tf o r p : orthogonal (tf_rot tf) ->
  surf_f (transform_sphere tf o r) (tf_up tf p) = surf_f (SSphere o r) p.
Proof.
  intros Ho. unfold transform_sphere, surf_f, SurfacesProofs.sq.
  pose proof (dot_rot_rot (tf_rot tf) (vsub p o) (vsub p o) Ho) as E.
  rewrite <- tf_up_diff in E. unfold vdot, vsub in E. cbn [vx vy vz] in E. numR. lra.
Qed.

(** sense (T S) (T p) = sense S p for every surface type, R orthogonal (rotation
    or reflection), through the promotion chain to GeneralQuadric *)
Theorem transform_value tf s p : orthogonal (tf_rot tf) -> surf_wf s ->
  surf_f (transform_surface tf s) (tf_up tf p) = surf_f s p.
Proof.
  intros Ho Hwf.
  assert (G : forall abc def ghi j, surf_f (transform_gq tf abc def ghi j) (tf_up tf p)
                                    = surf_f (SGeneralQuadric abc def ghi j) p).
  { intros. rewrite transform_gq_value, down_up_id by assumption. reflexivity. }
  destruct s as [a pos|a r|r|a ou ov r|n d|o r|a o tsq|abc def g|abc def ghi j]; unfold transform_surface.
  - rewrite transform_plane_value; try assumption.
    + apply (promote_plane a pos p).
    + destruct a; unfold plane_aligned_normal; tsimp; ring.
  - unfold transform_via_gq, sq_of_cyl, as_gq, gq_of_sq. rewrite G. destruct a; unfold surf_f; tsimp; ring.
  - rewrite transform_sphere_value by assumption. apply (promote_sphere r p).
  - unfold transform_via_gq, sq_of_cyl, as_gq, gq_of_sq. rewrite G. destruct a; unfold surf_f; tsimp; ring.
  - apply transform_plane_value; assumption.
  - apply transform_sphere_value; assumption.
  - unfold transform_via_gq, sq_of_cone, as_gq, gq_of_sq. rewrite G. destruct a; unfold surf_f; tsimp; ring.
  - unfold transform_via_gq, as_gq, gq_of_sq. rewrite G. unfold surf_f; tsimp; ring.
  - apply G.
Qed.
Theorem transform_sense tf s p : orthogonal (tf_rot tf) -> surf_wf s ->
  surf_sense (transform_surface tf s) (tf_up tf p) = surf_sense s p.
Proof. intros. rewrite !surf_sense_value, transform_value by assumption. reflexivity. Qed.

(** hypotheses are satisfiable: a reflection combined with a quarter turn *)
Example orthogonal_example : orthogonal (M3 (V3 0 (-1) 0) (V3 1 0 0) (V3 0 0 (-1))).
Proof. split; intros [] []; unfold mtm, mmt, delta, mget, mrow; cbn; ring. Qed.

(** ** SignedPermutation *)
Theorem signed_perm_orthogonal (p : sperm) (d : vec) : sp_valid p = true ->
  sp_rotate_down p (sp_rotate_up p d) = d /\ sp_rotate_up p (sp_rotate_down p d) = d /\
  vdot (sp_rotate_up p d) (sp_rotate_up p d) = vdot d d.
Proof.
  destruct p as [[[f0 a0] [f1 a1]] [f2 a2]], d as [x y z].
  destruct a0, a1, a2; cbn; try discriminate; intros _;
    destruct f0, f1, f2; unfold sp_rotate_up, sp_rotate_down, sp_get, vdot, vzero; cbn; numR; (split; [|split]);
    first [reflexivity | f_equal; ring | ring].
Qed.
Theorem signed_perm_encoding (p : sperm) : sp_decode (sp_encode p) = p.
Proof.
  destruct p as [[[f0 a0] [f1 a1]] [f2 a2]].
  destruct f0, a0, f1, a1, f2, a2; vm_compute; reflexivity.
Qed.
