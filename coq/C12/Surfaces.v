(** * C12: model of the ORANGE surface primitives (orange/surf/*.hh) over [Num].

    One definition per member function ([calc_sense], [calc_intersections],
    [calc_normal]) of PlaneAligned, Plane, SphereCentered, Sphere, CylCentered,
    CylAligned, ConeAligned, SimpleQuadric, GeneralQuadric, the sum type
    [surface] and the generic [surf_sense / surf_intersect / surf_normal].
    Executable definitions only (no proofs); reused by C03/C09/C11. *)
From Coq Require Import ZArith List Bool.
From Celer Require Import Base.Num Base.Vec3 C12.Solver.
Import ListNotations.
Local Open Scope num_scope.

(** Axis enumeration (orange/OrangeTypes.hh, geocel/Types.hh) *)
Inductive axis := AX | AY | AZ.
Definition axis_eqb (a b : axis) : bool :=
  match a, b with AX, AX | AY, AY | AZ, AZ => true | _, _ => false end.
(** U/V axes of the axis-templated surfaces:
    U{T == x ? y : x}, V{T == z ? y : z} *)
Definition u_axis (t : axis) : axis := match t with AX => AY | _ => AX end.
Definition v_axis (t : axis) : axis := match t with AZ => AY | _ => AZ end.

(** SignedSense { inside = -1, on = 0, outside = 1 } *)
Inductive ssense := Inside | On | Outside.
Definition ssense_eqb (a b : ssense) : bool :=
  match a, b with Inside, Inside | On, On | Outside, Outside => true | _, _ => false end.
Definition ssense_Z (s : ssense) : Z := match s with Inside => (-1)%Z | On => 0%Z | Outside => 1%Z end.
(** to_sense(SignedSense): Sense(s >= 0): true = outside *)
Definition to_sense (s : ssense) : bool := match s with Inside => false | _ => true end.
Definition flip_ssense (s : ssense) : ssense :=
  match s with Inside => Outside | On => On | Outside => Inside end.

Section Surfaces.
  Context {T : Type} `{Num T}.
  Notation vec := (vec3 T).

  Definition vget (a : axis) (v : vec) : T :=
    match a with AX => vx v | AY => vy v | AZ => vz v end.
  Definition vset (a : axis) (x : T) (v : vec) : vec :=
    match a with AX => V3 x (vy v) (vz v) | AY => V3 (vx v) x (vz v) | AZ => V3 (vx v) (vy v) x end.
  Definition vzero : vec := V3 n0 n0 n0.

  (** real_to_sense(q) = SignedSense(!(q <= 0) - (q < 0))   (NaN -> outside) *)
  Definition real_to_sense (q : T) : ssense :=
    if q <? n0 then Inside else if q <=? n0 then On else Outside.

  (** ** PlaneAligned<T> *)
  Definition plane_aligned_normal (t : axis) : vec := vset t n1 vzero.
  Definition plane_aligned_sense (t : axis) (position : T) (pos : vec) : ssense :=
    real_to_sense (vget t pos - position).
  Definition plane_aligned_intersect (t : axis) (position : T) (pos dir : vec) (on : bool) : option T :=
    let n_dir := vget t dir in
    if negb on && negb (n_dir =? n0) then
      let dist := (position - vget t pos) / n_dir in
      if n0 <? dist then Some dist else None
    else None.

  (** ** Plane (normal n, displacement d) *)
  Definition plane_of_point (n p : vec) : vec * T := (n, dot n p).
  Definition plane_sense (n : vec) (d : T) (pos : vec) : ssense :=
    real_to_sense (dot n pos - d).
  Definition plane_intersect (n : vec) (d : T) (pos dir : vec) (on : bool) : option T :=
    let n_dir := dot n dir in
    if negb on && negb (n_dir =? n0) then
      let n_pos := dot n pos in
      let dist := (d - n_pos) / n_dir in
      if n0 <? dist then Some dist else None
    else None.
  Definition plane_normal (n : vec) (d : T) (pos : vec) : vec := n.

  (** ** SphereCentered (stores radius_sq) *)
  Definition sphere_centered_sense (rsq : T) (pos : vec) : ssense :=
    real_to_sense (dot pos pos - rsq).
  Definition sphere_centered_intersect (rsq : T) (pos dir : vec) (on : bool) : isect2 :=
    let s := mk_solver n1 (dot pos dir) in
    if negb on then solve_c s (dot pos pos - rsq) else solve_on s.
  Definition sphere_centered_normal (rsq : T) (pos : vec) : vec := make_unit_vector pos.

  (** ** Sphere (origin, radius_sq) *)
  Definition sphere_sense (o : vec) (rsq : T) (pos : vec) : ssense :=
    let tpos := vsub pos o in real_to_sense (dot tpos tpos - rsq).
  Definition sphere_intersect (o : vec) (rsq : T) (pos dir : vec) (on : bool) : isect2 :=
    let tpos := vsub pos o in
    let s := mk_solver n1 (dot tpos dir) in
    if negb on then solve_c s (dot tpos tpos - rsq) else solve_on s.
  Definition sphere_normal (o : vec) (rsq : T) (pos : vec) : vec := make_unit_vector (vsub pos o).

  (** ** CylAligned<T> (origin_u, origin_v, radius_sq); CylCentered<T> is ou = ov = 0
      but coded separately (no subtraction) *)
  Definition cyl_sense (t : axis) (ou ov rsq : T) (pos : vec) : ssense :=
    let u := vget (u_axis t) pos - ou in
    let v := vget (v_axis t) pos - ov in
    real_to_sense (u * u + v * v - rsq).
  Definition cyl_intersect (t : axis) (ou ov rsq : T) (pos dir : vec) (on : bool) : isect2 :=
    let a := n1 - vget t dir * vget t dir in
    if a <? min_a then no_isect2
    else
      let u := vget (u_axis t) pos - ou in
      let v := vget (v_axis t) pos - ov in
      let s := mk_solver a (vget (u_axis t) dir * u + vget (v_axis t) dir * v) in
      if on then solve_on s else solve_c s (u * u + v * v - rsq).
  Definition cyl_normal (t : axis) (ou ov rsq : T) (pos : vec) : vec :=
    make_unit_vector
      (vset (v_axis t) (vget (v_axis t) pos - ov)
         (vset (u_axis t) (vget (u_axis t) pos - ou) vzero)).

  Definition cylc_sense (t : axis) (rsq : T) (pos : vec) : ssense :=
    let u := vget (u_axis t) pos in
    let v := vget (v_axis t) pos in
    real_to_sense (u * u + v * v - rsq).
  Definition cylc_intersect (t : axis) (rsq : T) (pos dir : vec) (on : bool) : isect2 :=
    let a := n1 - vget t dir * vget t dir in
    if a <? min_a then no_isect2
    else
      let u := vget (u_axis t) pos in
      let v := vget (v_axis t) pos in
      let s := mk_solver a (vget (u_axis t) dir * u + vget (v_axis t) dir * v) in
      if on then solve_on s else solve_c s (u * u + v * v - rsq).
  Definition cylc_normal (t : axis) (rsq : T) (pos : vec) : vec :=
    make_unit_vector
      (vset (v_axis t) (vget (v_axis t) pos) (vset (u_axis t) (vget (u_axis t) pos) vzero)).

  (** ** ConeAligned<T> (origin, tangent_sq) *)
  Definition cone_sense (t : axis) (o : vec) (tsq : T) (pos : vec) : ssense :=
    let x := vget t pos - vget t o in
    let y := vget (u_axis t) pos - vget (u_axis t) o in
    let z := vget (v_axis t) pos - vget (v_axis t) o in
    real_to_sense (((- tsq * (x * x)) + y * y) + z * z).
  Definition cone_coeffs (t : axis) (o : vec) (tsq : T) (pos dir : vec) : T * T * T :=
    let x := vget t pos - vget t o in
    let y := vget (u_axis t) pos - vget (u_axis t) o in
    let z := vget (v_axis t) pos - vget (v_axis t) o in
    let u := vget t dir in
    let v := vget (u_axis t) dir in
    let w := vget (v_axis t) dir in
    let a := ((- tsq * (u * u)) + v * v) + w * w in
    let half_b := ((- tsq * x * u) + (y * v)) + (z * w) in
    let c := ((- tsq * (x * x)) + y * y) + z * z in
    (a, half_b, c).
  Definition cone_intersect (t : axis) (o : vec) (tsq : T) (pos dir : vec) (on : bool) : isect2 :=
    let '(a, half_b, c) := cone_coeffs t o tsq pos dir in
    solve_general a half_b c on.
  Definition cone_normal (t : axis) (o : vec) (tsq : T) (pos : vec) : vec :=
    let nrm := vsub pos o in
    make_unit_vector (vset t (vget t nrm * (- tsq)) nrm).

  (** ** SimpleQuadric (second abc, first def, zeroth g) *)
  Definition sq_sense (abc def : vec) (g : T) (pos : vec) : ssense :=
    let x := vx pos in let y := vy pos in let z := vz pos in
    real_to_sense (((vx abc * (x * x) + vy abc * (y * y) + vz abc * (z * z))
                    + (vx def * x + vy def * y + vz def * z)) + g).
  Definition sq_coeffs (abc def : vec) (g : T) (pos dir : vec) : T * T * T :=
    let x := vx pos in let y := vy pos in let z := vz pos in
    let u := vx dir in let v := vy dir in let w := vz dir in
    let a_ := vx abc in let b_ := vy abc in let c_ := vz abc in
    let d_ := vx def in let e_ := vy def in let f_ := vz def in
    let a := (a_ * u) * u + (b_ * v) * v + (c_ * w) * w in
    let b := (n2 * a_ * x + d_) * u + (n2 * b_ * y + e_) * v + (n2 * c_ * z + f_) * w in
    let c := (a_ * x + d_) * x + (b_ * y + e_) * y + (c_ * z + f_) * z + g in
    (a, b / n2, c).
  Definition sq_intersect (abc def : vec) (g : T) (pos dir : vec) (on : bool) : isect2 :=
    let '(a, half_b, c) := sq_coeffs abc def g pos dir in
    solve_general a half_b c on.
  Definition sq_normal (abc def : vec) (g : T) (pos : vec) : vec :=
    make_unit_vector (V3 (n2 * vx abc * vx pos + vx def)
                         (n2 * vy abc * vy pos + vy def)
                         (n2 * vz abc * vz pos + vz def)).

  (** ** GeneralQuadric (second abc, cross def (xy, yz, zx), first ghi, zeroth j) *)
  Definition gq_value (abc def ghi : vec) (j : T) (pos : vec) : T :=
    let x := vx pos in let y := vy pos in let z := vz pos in
    let a_ := vx abc in let b_ := vy abc in let c_ := vz abc in
    let d_ := vx def in let e_ := vy def in let f_ := vz def in
    let g_ := vx ghi in let h_ := vy ghi in let i_ := vz ghi in
    (a_ * x + d_ * y + f_ * z + g_) * x + (b_ * y + e_ * z + h_) * y + (c_ * z + i_) * z + j.
  Definition gq_sense (abc def ghi : vec) (j : T) (pos : vec) : ssense :=
    real_to_sense (gq_value abc def ghi j pos).
  Definition gq_coeffs (abc def ghi : vec) (j : T) (pos dir : vec) : T * T * T :=
    let x := vx pos in let y := vy pos in let z := vz pos in
    let u := vx dir in let v := vy dir in let w := vz dir in
    let a_ := vx abc in let b_ := vy abc in let c_ := vz abc in
    let d_ := vx def in let e_ := vy def in let f_ := vz def in
    let g_ := vx ghi in let h_ := vy ghi in let i_ := vz ghi in
    let a := (a_ * u + d_ * v) * u + (b_ * v + e_ * w) * v + (c_ * w + f_ * u) * w in
    let b := (n2 * a_ * x + d_ * y + f_ * z + g_) * u
             + (n2 * b_ * y + d_ * x + e_ * z + h_) * v
             + (n2 * c_ * z + e_ * y + f_ * x + i_) * w in
    let c := (a_ * x + d_ * y + g_) * x + (b_ * y + e_ * z + h_) * y
             + (c_ * z + f_ * x + i_) * z + j in
    (a, b / n2, c).
  Definition gq_intersect (abc def ghi : vec) (j : T) (pos dir : vec) (on : bool) : isect2 :=
    let '(a, half_b, c) := gq_coeffs abc def ghi j pos dir in
    solve_general a half_b c on.
  Definition gq_normal (abc def ghi : vec) (j : T) (pos : vec) : vec :=
    let x := vx pos in let y := vy pos in let z := vz pos in
    let a_ := vx abc in let b_ := vy abc in let c_ := vz abc in
    let d_ := vx def in let e_ := vy def in let f_ := vz def in
    let g_ := vx ghi in let h_ := vy ghi in let i_ := vz ghi in
    make_unit_vector (V3 (n2 * a_ * x + d_ * y + f_ * z + g_)
                         (n2 * b_ * y + d_ * x + e_ * z + h_)
                         (n2 * c_ * z + e_ * y + f_ * x + i_)).

  (** ** The variant of all (non-involute) surfaces and the generic visitors *)
  Inductive surface :=
  | SPlaneAligned (t : axis) (position : T)
  | SCylCentered (t : axis) (rsq : T)
  | SSphereCentered (rsq : T)
  | SCylAligned (t : axis) (ou ov rsq : T)
  | SPlane (n : vec) (d : T)
  | SSphere (o : vec) (rsq : T)
  | SConeAligned (t : axis) (o : vec) (tsq : T)
  | SSimpleQuadric (abc def : vec) (g : T)
  | SGeneralQuadric (abc def ghi : vec) (j : T).

  Definition surf_sense (s : surface) (pos : vec) : ssense :=
    match s with
    | SPlaneAligned t p => plane_aligned_sense t p pos
    | SCylCentered t r => cylc_sense t r pos
    | SSphereCentered r => sphere_centered_sense r pos
    | SCylAligned t ou ov r => cyl_sense t ou ov r pos
    | SPlane n d => plane_sense n d pos
    | SSphere o r => sphere_sense o r pos
    | SConeAligned t o tsq => cone_sense t o tsq pos
    | SSimpleQuadric abc def g => sq_sense abc def g pos
    | SGeneralQuadric abc def ghi j => gq_sense abc def ghi j pos
    end.

  (** all intersections in storage order (1 for planes, 2 for quadrics) *)
  Definition surf_intersect (s : surface) (pos dir : vec) (on : bool) : list (option T) :=
    match s with
    | SPlaneAligned t p => [plane_aligned_intersect t p pos dir on]
    | SCylCentered t r => isect2_list (cylc_intersect t r pos dir on)
    | SSphereCentered r => isect2_list (sphere_centered_intersect r pos dir on)
    | SCylAligned t ou ov r => isect2_list (cyl_intersect t ou ov r pos dir on)
    | SPlane n d => [plane_intersect n d pos dir on]
    | SSphere o r => isect2_list (sphere_intersect o r pos dir on)
    | SConeAligned t o tsq => isect2_list (cone_intersect t o tsq pos dir on)
    | SSimpleQuadric abc def g => isect2_list (sq_intersect abc def g pos dir on)
    | SGeneralQuadric abc def ghi j => isect2_list (gq_intersect abc def ghi j pos dir on)
    end.

  Definition surf_normal (s : surface) (pos : vec) : vec :=
    match s with
    | SPlaneAligned t _ => plane_aligned_normal t
    | SCylCentered t r => cylc_normal t r pos
    | SSphereCentered r => sphere_centered_normal r pos
    | SCylAligned t ou ov r => cyl_normal t ou ov r pos
    | SPlane n d => plane_normal n d pos
    | SSphere o r => sphere_normal o r pos
    | SConeAligned t o tsq => cone_normal t o tsq pos
    | SSimpleQuadric abc def g => sq_normal abc def g pos
    | SGeneralQuadric abc def ghi j => gq_normal abc def ghi j pos
    end.

  (** S::simple_safety() *)
  Definition surf_simple_safety (s : surface) : bool :=
    match s with
    | SPlaneAligned _ _ | SCylCentered _ _ | SSphereCentered _ | SPlane _ _ | SSphere _ _ => true
    | _ => false
    end.

  (** smallest element of an intersection list, [None] = +infinity
      (celeritas::min_element: first minimum) *)
  Definition omin (a b : option T) : option T :=
    match a, b with
    | None, x => x
    | x, None => x
    | Some x, Some y => if y <? x then Some y else Some x
    end.
  Definition min_isect (l : list (option T)) : option T := fold_left omin l None.
End Surfaces.
Arguments surface T : clear implicits.
