(** * C12 proofs (instance R): QuadraticSolver returns exactly the positive roots. *)
From Coq Require Import Reals ZArith List Bool Lra Lia Psatz.
From Celer Require Import Base.Num Base.NumR C12.Solver.
Import ListNotations.
Local Open Scope R_scope.

(** the ray polynomial  a t^2 + 2 hb t + c *)
Definition qpoly (a hb c t : R) : R := a * t * t + 2 * hb * t + c.

Ltac unfold_solver :=
  unfold solve_general, solve_along, solve_general_gen, solve_along_gen, along_strict_as_coded, solve_on, solve_c, mk_solver, isect2_list, no_isect2,
         min_a, sqrt_quadratic in *;
  cbn [qs_a_inv qs_hba fst snd] in *; numR.

(** ** monic quadratic  t^2 + 2 h t + k *)
Lemma monic_two_roots h k t : k < h * h ->
  (t * t + 2 * h * t + k = 0 <-> t = - h - sqrt (h * h - k) \/ t = - h + sqrt (h * h - k)).
Proof.
  intros Hk. set (s := sqrt (h * h - k)).
  assert (Hs : s * s = h * h - k) by (apply sqrt_sqrt; lra).
  split.
  - intros E. assert (F : (t + h - s) * (t + h + s) = 0) by nra.
    apply Rmult_integral in F. destruct F; [right|left]; lra.
  - intros [-> | ->]; nra.
Qed.
Lemma monic_one_root h k t : h * h = k -> (t * t + 2 * h * t + k = 0 <-> t = - h).
Proof.
  intros Hk. split.
  - intros E. assert (F : (t + h) * (t + h) = 0) by nra.
    apply Rmult_integral in F. destruct F; lra.
  - intros ->. nra.
Qed.
Lemma monic_no_root h k t : h * h < k -> t * t + 2 * h * t + k <> 0.
Proof. intros Hk E. pose proof (Rle_0_sqr (t + h)) as Hs. unfold Rsqr in Hs. nra. Qed.

Lemma qpoly_monic a hb c t : a <> 0 ->
  (qpoly a hb c t = 0 <-> t * t + 2 * (hb * (1 / a)) * t + c * (1 / a) = 0).
Proof.
  intros Ha. unfold qpoly.
  replace (t * t + 2 * (hb * (1 / a)) * t + c * (1 / a)) with ((a * t * t + 2 * hb * t + c) / a)
    by (field; assumption).
  split; intros E.
  - rewrite E. field. assumption.
  - apply Rmult_eq_compat_r with (r := a) in E. unfold Rdiv in E.
    rewrite Rmult_assoc, Rinv_l, Rmult_1_r, Rmult_0_l in E; assumption.
Qed.

(** ** operator()(c): exactly the positive roots *)
Theorem solve_c_spec a hb c t : a <> 0 ->
  (In (Some t) (isect2_list (solve_c (T:=R) (mk_solver a hb) c)) <-> 0 < t /\ qpoly a hb c t = 0).
Proof.
  intros Ha. rewrite (qpoly_monic a hb c t Ha).
  unfold_solver.
  set (h := hb * (1 / a)). set (k := c * (1 / a)).
  destruct (Rltb_spec k (h * h)) as [Hlt|Hge].
  - pose proof (monic_two_roots h k t Hlt) as R2. set (s := sqrt (h * h - k)) in *.
    assert (Hs : 0 < s) by (apply sqrt_lt_R0; lra).
    destruct (Rleb_spec (- h + s) 0) as [H1|H1].
    + cbn. split; [intros [F|[F|[]]]; discriminate|]. intros [Ht E]. apply R2 in E. destruct E; lra.
    + destruct (Rleb_spec (- h - s) 0) as [H0|H0]; cbn.
      * split.
        -- intros [F|[F|[]]]; [discriminate|]. inversion F; subst. split; [lra|]. apply R2. right; reflexivity.
        -- intros [Ht E]. apply R2 in E. destruct E as [E|E]; [lra|]. right; left. rewrite E. reflexivity.
      * split.
        -- intros [F|[F|[]]]; inversion F; subst; (split; [lra|]); apply R2; [left|right]; reflexivity.
        -- intros [Ht E]. apply R2 in E. destruct E as [E|E]; rewrite E; [left|right; left]; reflexivity.
  - destruct (Req_EM_T (h * h) k) as [He|Hne].
    + assert (Hb : Reqb (h * h) k = true) by (apply Reqb_true; assumption). rewrite Hb.
      pose proof (monic_one_root h k t He) as R1.
      destruct (Rleb_spec (- h) 0) as [H0|H0]; cbn.
      * split; [intros [F|[F|[]]]; discriminate|]. intros [Ht E]. apply R1 in E. lra.
      * split.
        -- intros [F|[F|[]]]; [|discriminate]. inversion F; subst. split; [lra|]. apply R1. reflexivity.
        -- intros [Ht E]. apply R1 in E. left. rewrite E. reflexivity.
    + assert (Hb : Reqb (h * h) k = false) by (apply Reqb_false; assumption). rewrite Hb. cbn.
      split; [intros [F|[F|[]]]; discriminate|]. intros [Ht E].
      exfalso. apply (monic_no_root h k t); [lra|assumption].
Qed.

(** the pair is ordered and the first slot is only empty when the second is the only candidate *)
Theorem solve_c_ordered a hb c t0 t1 :
  solve_c (T:=R) (mk_solver a hb) c = (Some t0, Some t1) -> t0 < t1.
Proof.
  unfold_solver. set (h := hb * (1 / a)). set (k := c * (1 / a)).
  destruct (Rltb_spec k (h * h)) as [Hlt|Hge].
  - assert (Hs : 0 < sqrt (h * h - k)) by (apply sqrt_lt_R0; lra).
    destruct (Rleb_spec (- h + sqrt (h * h - k)) 0); [discriminate|].
    destruct (Rleb_spec (- h - sqrt (h * h - k)) 0); [discriminate|].
    intros E; inversion E; subst. lra.
  - destruct (Reqb (h * h) k); [|discriminate].
    destruct (Rleb (- h) 0); discriminate.
Qed.
Theorem solve_c_second_only a hb c t1 :
  solve_c (T:=R) (mk_solver a hb) c = (None, Some t1) -> True.
Proof. trivial. Qed.

(** first (nearest) hit of an intersection pair *)
Definition first_isect (r : isect2 (T:=R)) : option R :=
  match fst r with Some t => Some t | None => snd r end.

Lemma first_isect_le (r : isect2 (T:=R)) t :
  (forall t0 t1, r = (Some t0, Some t1) -> t0 < t1) ->
  In (Some t) (isect2_list r) -> exists t0, first_isect r = Some t0 /\ t0 <= t.
Proof.
  destruct r as [[a|] [b|]]; unfold first_isect, isect2_list; cbn; intros Ho [F|[F|[]]];
    try discriminate; inversion F; subst.
  - exists t; split; [reflexivity|lra].
  - exists a; split; [reflexivity|]. specialize (Ho a t eq_refl). lra.
  - exists t; split; [reflexivity|lra].
  - exists t; split; [reflexivity|lra].
Qed.

Theorem solve_c_nearest a hb c t : a <> 0 -> 0 < t -> qpoly a hb c t = 0 ->
  exists t0, first_isect (solve_c (T:=R) (mk_solver a hb) c) = Some t0 /\ t0 <= t.
Proof.
  intros Ha Ht E. apply first_isect_le.
  - intros t0 t1. apply solve_c_ordered.
  - apply solve_c_spec; auto.
Qed.

(** ** operator()(): on the surface (c = 0): the other root -2 hb / a if positive *)
Theorem solve_on_spec a hb t : a <> 0 ->
  (In (Some t) (isect2_list (solve_on (T:=R) (mk_solver a hb))) <-> 0 < t /\ qpoly a hb 0 t = 0).
Proof.
  intros Ha. unfold_solver. unfold qpoly.
  assert (Hroot : forall x, a * x * x + 2 * hb * x + 0 = 0 <-> x = 0 \/ x = -2 * (hb * (1 / a))).
  { intros x. split.
    - intros E. assert (F : x * (a * x + 2 * hb) = 0) by lra.
      apply Rmult_integral in F. destruct F as [F|F]; [left; assumption|right].
      apply Rmult_eq_reg_l with a; [|assumption]. field_simplify; [|assumption]. lra.
    - intros [-> | ->]; [ring|]. field. assumption. }
  destruct (Rleb_spec (-2 * (hb * (1 / a))) 0) as [H0|H0]; cbn.
  - split; [intros [F|[F|[]]]; discriminate|]. intros [Ht E]. apply Hroot in E. destruct E; lra.
  - split.
    + intros [F|[F|[]]]; [|discriminate]. inversion F; subst. split; [lra|]. apply Hroot. right; reflexivity.
    + intros [Ht E]. apply Hroot in E. destruct E as [E|E]; [lra|]. left. rewrite E. reflexivity.
Qed.

(** ** solve_along_surface: the root of the linear equation 2 hb t + c = 0, if |hb| > min_a *)
Definition min_a_R : R := 1 / 100000 * (1 / 100000).
Lemma min_a_R_eq : min_a (T:=R) = min_a_R.
Proof. reflexivity. Qed.
Lemma min_a_R_pos : 0 < min_a_R.
Proof. unfold min_a_R. lra. Qed.

Theorem solve_along_gen_spec strict hb c t :
  (In (Some t) (isect2_list (solve_along_gen (T:=R) strict hb c))
   <-> min_a_R < Rabs hb /\ (if strict then 0 < t else 0 <= t) /\ 2 * hb * t + c = 0).
Proof.
  unfold solve_along_gen, isect2_list, min_a, sqrt_quadratic. cbn [fst snd]. numR. fold min_a_R.
  destruct (Rltb_spec min_a_R (Rabs hb)) as [Hb|Hb].
  - assert (Hb0 : hb <> 0). { intros ->. rewrite Rabs_R0 in Hb. pose proof min_a_R_pos. lra. }
    assert (Hroot : forall x, 2 * hb * x + c = 0 <-> x = - c / (2 * hb)).
    { intros x. split; intros E.
      - apply Rmult_eq_reg_l with (2 * hb); [|lra]. field_simplify; lra.
      - rewrite E. field. assumption. }
    destruct strict.
    + destruct (Rleb_spec (- c / (2 * hb)) 0) as [H0|H0]; cbn.
      * split; [intros [F|[F|[]]]; discriminate|]. intros (_ & Ht & E). apply Hroot in E. lra.
      * split.
        -- intros [F|[F|[]]]; [|discriminate]. inversion F; subst. repeat split; try lra. apply Hroot. reflexivity.
        -- intros (_ & Ht & E). apply Hroot in E. left. rewrite E. reflexivity.
    + destruct (Rltb_spec (- c / (2 * hb)) 0) as [H0|H0]; cbn.
      * split; [intros [F|[F|[]]]; discriminate|]. intros (_ & Ht & E). apply Hroot in E. lra.
      * split.
        -- intros [F|[F|[]]]; [|discriminate]. inversion F; subst. repeat split; try lra. apply Hroot. reflexivity.
        -- intros (_ & Ht & E). apply Hroot in E. left. rewrite E. reflexivity.
  - cbn. split; [intros [F|[F|[]]]; discriminate|]. intros (F & _). lra.
Qed.

(** as coded (`< 0`): the zero distance is returned when the start point is
    exactly on the surface although the state says "off" (all other branches
    drop t <= 0) *)
Theorem solve_along_zero_refuted :
  exists hb c, In (Some 0) (isect2_list (solve_along_gen (T:=R) false hb c)).
Proof.
  exists 1, 0. apply solve_along_gen_spec. unfold min_a_R. rewrite Rabs_R1. lra.
Qed.
(** repaired (`<= 0`): strictly positive *)
Theorem solve_along_positive_repaired hb c t :
  In (Some t) (isect2_list (solve_along_gen (T:=R) true hb c)) -> 0 < t /\ 2 * hb * t + c = 0.
Proof. intros Hin. apply solve_along_gen_spec in Hin. tauto. Qed.

(** ** solve_general (for either variant of the along-surface comparison) *)
Ltac gen_window :=
  unfold solve_general_gen; fold (min_a (T:=R)); rewrite min_a_R_eq;
  change (nleb min_a_R (nabs ?a)) with (Rleb min_a_R (Rabs a)).

Theorem solve_general_off_exact strict a hb c t : min_a_R <= Rabs a ->
  (In (Some t) (isect2_list (solve_general_gen (T:=R) strict a hb c false)) <-> 0 < t /\ qpoly a hb c t = 0).
Proof.
  intros Ha.
  assert (Ha0 : a <> 0). { intros ->. rewrite Rabs_R0 in Ha. pose proof min_a_R_pos. lra. }
  unfold solve_general_gen. fold (min_a (T:=R)). rewrite min_a_R_eq.
  change (nleb min_a_R (nabs a)) with (Rleb min_a_R (Rabs a)).
  destruct (Rleb_spec min_a_R (Rabs a)); [|lra].
  apply solve_c_spec. assumption.
Qed.
Theorem solve_general_on_exact strict a hb t : min_a_R <= Rabs a ->
  (In (Some t) (isect2_list (solve_general_gen (T:=R) strict a hb 0 true)) <-> 0 < t /\ qpoly a hb 0 t = 0).
Proof.
  intros Ha.
  assert (Ha0 : a <> 0). { intros ->. rewrite Rabs_R0 in Ha. pose proof min_a_R_pos. lra. }
  unfold solve_general_gen. fold (min_a (T:=R)). rewrite min_a_R_eq.
  change (nleb min_a_R (nabs a)) with (Rleb min_a_R (Rabs a)).
  destruct (Rleb_spec min_a_R (Rabs a)); [|lra].
  apply solve_on_spec. assumption.
Qed.
Theorem solve_general_off_window strict a hb c t : Rabs a < min_a_R ->
  (In (Some t) (isect2_list (solve_general_gen (T:=R) strict a hb c false))
   <-> min_a_R < Rabs hb /\ (if strict then 0 < t else 0 <= t) /\ 2 * hb * t + c = 0).
Proof.
  intros Ha.
  unfold solve_general_gen. fold (min_a (T:=R)). rewrite min_a_R_eq.
  change (nleb min_a_R (nabs a)) with (Rleb min_a_R (Rabs a)).
  destruct (Rleb_spec min_a_R (Rabs a)); [lra|]. cbn [negb].
  apply solve_along_gen_spec.
Qed.
Theorem solve_general_on_window strict a hb c t : Rabs a < min_a_R ->
  ~ In (Some t) (isect2_list (solve_general_gen (T:=R) strict a hb c true)).
Proof.
  intros Ha.
  unfold solve_general_gen. fold (min_a (T:=R)). rewrite min_a_R_eq.
  change (nleb min_a_R (nabs a)) with (Rleb min_a_R (Rabs a)).
  destruct (Rleb_spec min_a_R (Rabs a)); [lra|]. cbn. intros [F|[F|[]]]; discriminate.
Qed.

Ltac case_if := match goal with |- context [if ?b then _ else _] => destruct b end.
Theorem solve_general_gen_ordered strict a hb c on t0 t1 :
  solve_general_gen (T:=R) strict a hb c on = (Some t0, Some t1) -> t0 < t1.
Proof.
  unfold solve_general_gen.
  case_if.
  - destruct on.
    + unfold solve_on. cbn. case_if; discriminate.
    + apply solve_c_ordered.
  - destruct on; cbn [negb]; [discriminate|].
    unfold solve_along_gen. case_if; [|discriminate]. case_if; discriminate.
Qed.
Theorem solve_general_ordered a hb c on t0 t1 :
  solve_general (T:=R) a hb c on = (Some t0, Some t1) -> t0 < t1.
Proof. apply solve_general_gen_ordered. Qed.

(** soundness: a returned distance is a positive root as soon as the ray is
    not in the tolerance window, or exactly linear (a = 0) and - for the
    comparison as coded - the start point is off the surface *)
Theorem solve_sound_gen strict a hb c t :
  (min_a_R <= Rabs a \/ (a = 0 /\ (strict = true \/ c <> 0))) ->
  In (Some t) (isect2_list (solve_general_gen (T:=R) strict a hb c false)) -> 0 < t /\ qpoly a hb c t = 0.
Proof.
  intros [Ha|[Ha Hc]] Hin.
  - apply solve_general_off_exact in Hin; assumption.
  - subst a. apply solve_general_off_window in Hin.
    2:{ rewrite Rabs_R0. apply min_a_R_pos. }
    destruct Hin as (Hb & Ht & E). unfold qpoly. split; [|lra].
    destruct Hc as [->|Hc]; [assumption|]. destruct strict; [assumption|].
    destruct (Req_dec t 0) as [->|]; [|lra]. exfalso. apply Hc. lra.
Qed.
Theorem solve_sound a hb c t :
  (min_a_R <= Rabs a \/ a = 0) ->
  In (Some t) (isect2_list (solve_general (T:=R) a hb c false)) -> 0 < t /\ qpoly a hb c t = 0.
Proof. intros H. apply solve_sound_gen. destruct H as [H|H]; auto. Qed.
(** before the repair cd06731 (`< 0`) the start point had to be off the surface *)
Theorem solve_sound_before_repair a hb c t :
  (min_a_R <= Rabs a \/ (a = 0 /\ c <> 0)) ->
  In (Some t) (isect2_list (solve_general_gen (T:=R) false a hb c false)) -> 0 < t /\ qpoly a hb c t = 0.
Proof. intros H. apply solve_sound_gen. destruct H as [H|[H1 H2]]; auto. Qed.
(** with the repaired comparison no side condition on c is needed *)
Theorem solve_sound_repaired a hb c t :
  (min_a_R <= Rabs a \/ a = 0) ->
  In (Some t) (isect2_list (solve_general_gen (T:=R) true a hb c false)) -> 0 < t /\ qpoly a hb c t = 0.
Proof. intros H. apply solve_sound_gen. destruct H as [H|H]; auto. Qed.

Theorem solve_sound_on_gen strict a hb t :
  In (Some t) (isect2_list (solve_general_gen (T:=R) strict a hb 0 true)) -> 0 < t /\ qpoly a hb 0 t = 0.
Proof.
  intros Hin. destruct (Rle_lt_dec min_a_R (Rabs a)) as [Ha|Ha].
  - apply solve_general_on_exact in Hin; assumption.
  - exfalso. eapply solve_general_on_window; eauto.
Qed.
Theorem solve_sound_on a hb t :
  In (Some t) (isect2_list (solve_general (T:=R) a hb 0 true)) -> 0 < t /\ qpoly a hb 0 t = 0.
Proof. apply solve_sound_on_gen. Qed.

(** completeness: every positive root is returned (and the nearest one first) *)
Theorem solve_complete_gen strict a hb c t :
  (min_a_R <= Rabs a \/ (a = 0 /\ min_a_R < Rabs hb)) ->
  0 < t -> qpoly a hb c t = 0 ->
  exists t0, first_isect (solve_general_gen (T:=R) strict a hb c false) = Some t0 /\ t0 <= t.
Proof.
  intros Hreg Ht E. apply first_isect_le.
  - intros t0 t1. apply solve_general_gen_ordered.
  - destruct Hreg as [Ha|[Ha Hb]].
    + apply solve_general_off_exact; auto.
    + subst a. apply solve_general_off_window.
      { rewrite Rabs_R0. apply min_a_R_pos. }
      unfold qpoly in E. repeat split; try lra. destruct strict; lra.
Qed.
Theorem solve_complete a hb c t :
  (min_a_R <= Rabs a \/ (a = 0 /\ min_a_R < Rabs hb)) ->
  0 < t -> qpoly a hb c t = 0 ->
  exists t0, first_isect (solve_general (T:=R) a hb c false) = Some t0 /\ t0 <= t.
Proof. apply solve_complete_gen. Qed.
Theorem solve_complete_on_gen strict a hb t :
  min_a_R <= Rabs a -> 0 < t -> qpoly a hb 0 t = 0 ->
  exists t0, first_isect (solve_general_gen (T:=R) strict a hb 0 true) = Some t0 /\ t0 <= t.
Proof.
  intros Ha Ht E. apply first_isect_le.
  - intros t0 t1. apply solve_general_gen_ordered.
  - apply solve_general_on_exact; auto.
Qed.
Theorem solve_complete_on a hb t :
  min_a_R <= Rabs a -> 0 < t -> qpoly a hb 0 t = 0 ->
  exists t0, first_isect (solve_general (T:=R) a hb 0 true) = Some t0 /\ t0 <= t.
Proof. apply solve_complete_on_gen. Qed.

(** the documented tolerance window 0 < |a| < min_a: the ray is treated as
    parallel.  What is returned is the non-negative root of the linearised
    equation (residual of the true polynomial: exactly a t^2), and of any two
    distinct true roots at least one is at distance >= |hb| / |a| > |hb| / min_a
    (the far root that is dropped). *)
Theorem solve_window_partial strict a hb c :
  0 < Rabs a < min_a_R ->
  (forall t, In (Some t) (isect2_list (solve_general_gen (T:=R) strict a hb c false)) ->
             0 <= t /\ 2 * hb * t + c = 0 /\ qpoly a hb c t = a * t * t) /\
  (forall t1 t2, qpoly a hb c t1 = 0 -> qpoly a hb c t2 = 0 -> t1 <> t2 ->
                 Rabs hb / Rabs a <= Rmax (Rabs t1) (Rabs t2)).
Proof.
  intros [Ha0 Ha]. split.
  - intros t Hin. apply solve_general_off_window in Hin; [|assumption].
    destruct Hin as (_ & Ht & E). unfold qpoly. repeat split; try lra. destruct strict; lra.
  - intros t1 t2 E1 E2 Hne. unfold qpoly in *.
    assert (Hane : a <> 0). { intros ->. rewrite Rabs_R0 in Ha0. lra. }
    assert (V : a * (t1 + t2) + 2 * hb = 0).
    { assert (F : (t1 - t2) * (a * (t1 + t2) + 2 * hb) = 0) by nra.
      apply Rmult_integral in F. destruct F; [exfalso; apply Hne|]; lra. }
    assert (Hsum : Rabs hb / Rabs a * 2 = Rabs (t1 + t2)).
    { assert (E : t1 + t2 = - (2 * hb) / a) by (field_simplify_eq; lra).
      rewrite E. unfold Rdiv. rewrite Rabs_mult, Rabs_Ropp, Rabs_mult, Rabs_inv.
      rewrite (Rabs_pos_eq 2) by lra. field. apply Rabs_no_R0. assumption. }
    pose proof (Rabs_triang t1 t2) as Tr.
    pose proof (Rmax_l (Rabs t1) (Rabs t2)). pose proof (Rmax_r (Rabs t1) (Rabs t2)). lra.
Qed.

(** hypotheses are satisfiable *)
Example solve_c_example : solve_c (T:=R) (mk_solver 1 0) (-1) = (None, Some 1).
Proof.
  unfold_solver.
  replace (-1 * (1 / 1)) with (-1) by field. replace (0 * (1 / 1)) with 0 by field.
  destruct (Rltb_spec (-1) (0 * 0)); [|lra].
  replace (0 * 0 - -1) with 1 by ring. rewrite sqrt_1.
  destruct (Rleb_spec (- 0 + 1) 0); [lra|]. destruct (Rleb_spec (- 0 - 1) 0); [|lra].
  f_equal. f_equal. ring.
Qed.
