(** * C12: model of orange/transform/TransformSimplifier.{hh,cc} (VariantTransform =
    NoTransformation | Translation | Transformation; [trace] of orange/MatrixUtils.cc).
    Executable definitions only. *)
From Coq Require Import ZArith List Bool.
From Celer Require Import Base.Num Base.Vec3 C12.Solver C12.Surfaces C12.Transforms.
Import ListNotations.
Local Open Scope num_scope.

Section TransformSimplify.
  Context {T : Type} `{Num T}.
  Notation vec := (vec3 T).

  (** VariantTransform (TransformType: no_transformation, translation, transformation) *)
  Inductive vtransform :=
  | VNoTransformation
  | VTranslation (tra : vec)
  | VTransformation (tf : transformation T).

  (** trace(SquareMatrix<T,3>): mat[0][0] + mat[1][1] + mat[2][2] *)
  Definition mtrace (m : mat3 T) : T := (mget AX AX m + mget AY AY m) + mget AZ AZ m.

  (** operator()(Translation const&): norm(t.translation()) <= eps_ -> NoTransformation *)
  Definition simplify_translation (eps : T) (tra : vec) : vtransform :=
    if norm tra <=? eps then VNoTransformation else VTranslation tra.

  (** operator()(Transformation const&): tr >= 3 - ipow<2>(eps_) -> recurse on Translation{t.translation()} *)
  Definition simplify_transformation (eps : T) (tf : transformation T) : vtransform :=
    let tr := mtrace (tf_rot tf) in
    if (nofZ 3 - eps * eps) <=? tr then simplify_translation eps (tf_tra tf)
    else VTransformation tf.

  (** std::visit(TransformSimplifier{tol}, variant) *)
  Definition simplify_transform (eps : T) (v : vtransform) : vtransform :=
    match v with
    | VNoTransformation => VNoTransformation
    | VTranslation tra => simplify_translation eps tra
    | VTransformation tf => simplify_transformation eps tf
    end.

  (** transform_up of each alternative (NoTransformation::transform_up is the identity) *)
  Definition vt_up (v : vtransform) (p : vec) : vec :=
    match v with
    | VNoTransformation => p
    | VTranslation tra => tr_up tra p
    | VTransformation tf => tf_up tf p
    end.
  (** TransformType enum value *)
  Definition vt_code (v : vtransform) : Z :=
    match v with VNoTransformation => 0 | VTranslation _ => 1 | VTransformation _ => 2 end.
End TransformSimplify.
Arguments vtransform T : clear implicits.
