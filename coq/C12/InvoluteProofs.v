(** * C12: proofs about the Involute surface model (instance R, pi := PI). *)
From Coq Require Import Reals Lra Lia Psatz ZArith List Bool.
From Celer Require Import Base.Num Base.NumR Base.Vec3
  C12.Solver C12.Surfaces C12.SurfacesProofs C12.Involute.
Import ListNotations.
Local Open Scope R_scope.
Notation vec := (vec3 R).

Lemma sqr_nonneg (x : R) : 0 <= x * x.
Proof. pose proof (Rle_0_sqr x) as Hx. unfold Rsqr in Hx. exact Hx. Qed.

Lemma dot2_R (x y : R) : dot2 x y x y = x * x + y * y.
Proof. unfold dot2. numR. ring. Qed.
Lemma norm2_R (x y : R) : norm2 x y = sqrt (x * x + y * y).
Proof. unfold norm2. rewrite dot2_R. reflexivity. Qed.
Lemma clamp_nonneg_R (v : R) : 0 <= v -> clamp_to_nonneg v = v.
Proof. intros Hv. unfold clamp_to_nonneg. numR. destruct (Rltb_spec v 0); [lra|reflexivity]. Qed.
Lemma clamp_nonneg_ge (v : R) : 0 <= clamp_to_nonneg v.
Proof. unfold clamp_to_nonneg. numR. destruct (Rltb_spec v 0); lra. Qed.

(** ** InvolutePoint: every point it returns is at radius r_b sqrt(1 + theta^2) *)
Lemma involute_point_radius rb a th :
  let '(qx, qy) := involute_point rb a th in qx * qx + qy * qy = rb * rb * (1 + th * th).
Proof.
  unfold involute_point. numR. pose proof (sin2_cos2 (th + a)) as Hsc. unfold Rsqr in Hsc.
  set (sn := sin (th + a)) in *. set (cs := cos (th + a)) in *.
  transitivity (rb * rb * ((sn * sn + cs * cs) * (1 + th * th))); [ring|]. rewrite Hsc. ring.
Qed.

(** ** the tangent point computed by calc_sense *)
Section Tangent.
  Variable s : involute R.
  Variables x y : R.
  Hypothesis Hrb : inv_rbs s <> 0.
  Hypothesis Hout : 0 <= inv_tsq s x y.      (* not inside the base circle *)

  Let rb2 := inv_rbs s * inv_rbs s.
  Let n := sqrt (x * x + y * y).
  Let t := sqrt (inv_tsq s x y).

  Lemma rb2_pos : 0 < rb2.
  Proof. unfold rb2. pose proof (sqr_nonneg (inv_rbs s)). destruct (Req_dec (inv_rbs s * inv_rbs s) 0) as [Hz|]; [|lra].
    apply Rmult_integral in Hz. tauto. Qed.
  Lemma tsq_eq : inv_tsq s x y = (x * x + y * y) / rb2 - 1.
  Proof. unfold inv_tsq. rewrite dot2_R. numR. reflexivity. Qed.
  Lemma nn_ge : rb2 <= x * x + y * y.
  Proof.
    pose proof rb2_pos as Hp. pose proof Hout as Ho. rewrite tsq_eq in Ho.
    assert (1 <= (x * x + y * y) / rb2) by lra.
    apply (Rmult_le_compat_r rb2) in H; [|lra]. unfold Rdiv in H. rewrite Rmult_assoc, Rinv_l in H; lra.
  Qed.
  Lemma n_pos : 0 < n.
  Proof. unfold n. apply sqrt_lt_R0. pose proof nn_ge. pose proof rb2_pos. lra. Qed.
  Lemma n_sq : n * n = x * x + y * y.
  Proof. unfold n. apply sqrt_sqrt. pose proof nn_ge. pose proof rb2_pos. lra. Qed.
  Lemma t_sq : t * t = (x * x + y * y) / rb2 - 1.
  Proof. unfold t. rewrite sqrt_sqrt by exact Hout. apply tsq_eq. Qed.
  Lemma t_nonneg : 0 <= t.
  Proof. apply sqrt_pos. Qed.

  (** (px, py) is on the base circle and (x, y) = P + t (py, -px): the segment from the
      tangent point to (x, y) is tangent to the base circle and has length r_b t *)
  Lemma tangent_point_spec :
    let '(px, py) := inv_tangent_point s x y in
    px * px + py * py = rb2 /\ x = px + t * py /\ y = py - t * px.
  Proof.
    unfold inv_tangent_point. rewrite norm2_R. numR. fold n. fold rb2.
    pose proof n_pos as Hn. pose proof n_sq as Hn2. pose proof t_sq as Ht2. pose proof t_nonneg as Ht.
    pose proof rb2_pos as Hr.
    set (x' := rb2 / n).
    assert (Hx'pos : 0 < x') by (unfold x'; apply Rdiv_lt_0_compat; lra).
    assert (Hx'n : x' * n = rb2) by (unfold x'; field; lra).
    assert (Hk : x' * (1 + t * t) = n).
    { rewrite Ht2, <- Hn2. unfold x'. field. split; lra. }
    assert (Hy' : sqrt (rb2 - x' * x') = x' * t).
    { assert (Hsq : rb2 - x' * x' = (x' * t) * (x' * t)).
      { transitivity (x' * (x' * (1 + t * t)) - x' * x'); [|ring]. rewrite Hk, Hx'n. ring. }
      rewrite Hsq. apply sqrt_square. apply Rmult_le_pos; lra. }
    rewrite Hy'.
    assert (Hninv : n <> 0) by lra.
    split; [|split].
    - transitivity ((x' * (x' * (1 + t * t))) * (x * x + y * y) / (n * n)); [field; assumption|].
      rewrite Hk, Hx'n, <- Hn2. field. assumption.
    - transitivity ((x' * (1 + t * t)) * x / n); [rewrite Hk; field; assumption|field; assumption].
    - transitivity ((x' * (1 + t * t)) * y / n); [rewrite Hk; field; assumption|field; assumption].
  Qed.
End Tangent.

(** ** the angle of the tangent point (acos, reflection for py < 0, lift by whole turns) *)
Lemma nmax0_IZR (k : Z) : exists m : nat, nmax (T:=R) n0 (nofZ k) = INR m.
Proof.
  unfold nmax. numR. destruct (Rltb_spec 0 (IZR k)) as [Hp|Hn].
  - exists (Z.to_nat k). rewrite INR_IZR_INZ, Z2Nat.id; [reflexivity|]. apply lt_IZR in Hp. lia.
  - exists O. reflexivity.
Qed.

Lemma inv_theta_spec (s : involute R) (px py : R) : 0 < px * px + py * py ->
  let th := inv_theta PI s px py in let r := sqrt (px * px + py * py) in
  cos th = px / r /\ sin th = py / r.
Proof.
  intros Hpos. cbv zeta. unfold inv_theta. rewrite norm2_R.
  set (r := sqrt (px * px + py * py)).
  assert (Hr : 0 < r) by (apply sqrt_lt_R0; exact Hpos).
  assert (Hr2 : r * r = px * px + py * py) by (apply sqrt_sqrt; lra).
  destruct (nmax0_IZR (nfloorZ (T:=R) ((inv_tmax s + inv_a s -
      (if (py <? n0)%num then (n2 * PI - nacos (px / r))%num else nacos (px / r))) / (n2 * PI))%num)) as [m Hm].
  numR. numR. rewrite Hm.
  set (z := px / r).
  assert (Hz2 : z * z = px * px / (r * r)) by (unfold z; field; lra).
  assert (Hzb : -1 <= z <= 1).
  { assert (z * z <= 1). { rewrite Hz2, Hr2. apply (Rmult_le_reg_r (px * px + py * py)); [lra|].
      unfold Rdiv. rewrite Rmult_assoc, Rinv_l by lra. pose proof (sqr_nonneg py). lra. }
    split; nra. }
  assert (Hs : sqrt (1 - z²) = Rabs py / r).
  { unfold Rsqr. rewrite Hz2, Hr2.
    replace (1 - px * px / (px * px + py * py)) with ((Rabs py / r) * (Rabs py / r)).
    - apply sqrt_square. apply Rmult_le_pos; [apply Rabs_pos|]. left. apply Rinv_0_lt_compat. exact Hr.
    - transitivity (Rabs py * Rabs py / (r * r)); [field; lra|]. rewrite Hr2.
      replace (Rabs py * Rabs py) with (py * py); [field; lra|].
      unfold Rabs. destruct (Rcase_abs py); ring. }
  destruct (Rltb_spec py 0) as [Hneg|Hge].
  - replace (2 * PI - acos z + INR m * 2 * PI) with (- acos z + 2 * INR (S m) * PI) by (rewrite S_INR; ring).
    rewrite cos_period, sin_period, cos_neg, sin_neg, cos_acos, sin_acos, Hs by exact Hzb.
    split; [reflexivity|]. rewrite Rabs_left by exact Hneg. field. lra.
  - replace (acos z + INR m * 2 * PI) with (acos z + 2 * INR m * PI) by ring.
    rewrite cos_period, sin_period, cos_acos, sin_acos, Hs by exact Hzb.
    split; [reflexivity|]. rewrite Rabs_right by lra. reflexivity.
Qed.

(** ** calc_sense *)
Definition inv_in_bounds (s : involute R) (x y : R) : Prop :=
  inv_tmin s * inv_tmin s <= inv_tsq s x y <= inv_tmax s * inv_tmax s.
(** the exact-equality "on" test of calc_sense *)
Definition inv_on_check (s : involute R) (x y : R) : Prop :=
  involute_point (inv_rb s) (inv_a s) (clamp_to_nonneg (inv_tsq s x y)) = (x, y).
(** displacement angle a1 = theta - t of the involute (of the same base circle) through (x, y) *)
Definition inv_theta_of (s : involute R) (x y : R) : R :=
  let '(px, py) := inv_tangent_point s x y in inv_theta PI s px py.
Definition inv_a1 (s : involute R) (x y : R) : R := inv_theta_of s x y - sqrt (inv_tsq s x y).

Lemma inv_rb_sq (s : involute R) : inv_rb s * inv_rb s = inv_rbs s * inv_rbs s.
Proof. unfold inv_rb. numR. unfold Rabs. destruct (Rcase_abs (inv_rbs s)); ring. Qed.
Lemma inv_rb_sqrt (s : involute R) : sqrt (inv_rbs s * inv_rbs s) = inv_rb s.
Proof. unfold inv_rb. numR. apply sqrt_Rsqr_abs. Qed.

(** the point lies on the involute with displacement angle a1 at parameter t = sqrt(tsq) *)
Theorem inv_point_on_own_involute (s : involute R) (x y : R) :
  inv_rbs s <> 0 -> 0 <= inv_tsq s x y ->
  involute_point (inv_rb s) (inv_a1 s x y) (sqrt (inv_tsq s x y)) = (x, y).
Proof.
  intros Hrb Hout. unfold inv_a1, inv_theta_of.
  pose proof (tangent_point_spec s x y Hrb Hout) as Htp.
  destruct (inv_tangent_point s x y) as [px py]. destruct Htp as [Hc [Hx Hy]].
  pose proof (rb2_pos s Hrb) as Hr.
  assert (Hpos : 0 < px * px + py * py) by lra.
  destruct (inv_theta_spec s px py Hpos) as [Hcos Hsin].
  rewrite Hc, inv_rb_sqrt in Hcos, Hsin.
  assert (Hrbp : 0 < inv_rb s).
  { unfold inv_rb. numR. apply Rabs_pos_lt. exact Hrb. }
  set (th := inv_theta PI s px py) in *. set (t := sqrt (inv_tsq s x y)) in *.
  unfold involute_point. numR. replace (t + (th - t)) with th by ring. rewrite Hcos, Hsin.
  f_equal.
  - rewrite Hx. field. lra.
  - rewrite Hy. field. lra.
Qed.

Lemma inv_calc_sense_unfold (s : involute R) (pos : vec) :
  let '(x, y) := inv_local_xy s pos in
  inv_calc_sense PI s pos =
    if (inv_tsq s x y <? inv_tmin s * inv_tmin s)%num then Outside
    else if (inv_tmax s * inv_tmax s <? inv_tsq s x y)%num then Outside
    else let '(qx, qy) := involute_point (inv_rb s) (inv_a s) (clamp_to_nonneg (inv_tsq s x y)) in
         if ((x =? qx) && (y =? qy))%num then On
         else if ((inv_theta_of s x y <? inv_tmax s + inv_a s)
                  && (inv_a s <? inv_theta_of s x y - nsqrt (clamp_to_nonneg (inv_tsq s x y))))%num
              then Inside else Outside.
Proof.
  unfold inv_calc_sense, inv_theta_of. destruct (inv_local_xy s pos) as [x y].
  destruct (inv_tangent_point s x y) as [px py]. reflexivity.
Qed.

(** sense = sign of (a - a1): a point whose own involute is displaced further than the
    surface's (a1 > a) is inside.  Hypotheses: within the radial bounds, the exact "on" test
    does not fire, the lifted tangent angle is below tmax + a, and a1 <> a. *)
Theorem inv_sense_is_sign (s : involute R) (pos : vec) :
  let '(x, y) := inv_local_xy s pos in
  inv_in_bounds s x y -> ~ inv_on_check s x y ->
  inv_theta_of s x y < inv_tmax s + inv_a s -> inv_a1 s x y <> inv_a s ->
  sense_matches (inv_calc_sense PI s pos) (inv_a s - inv_a1 s x y).
Proof.
  pose proof (inv_calc_sense_unfold s pos) as Hu. destruct (inv_local_xy s pos) as [x y].
  intros [Hlo Hhi] Hon Hth Hne. rewrite Hu. clear Hu. numR.
  assert (Hts : 0 <= inv_tsq s x y) by (pose proof (sqr_nonneg (inv_tmin s)); lra).
  destruct (Rltb_spec (inv_tsq s x y) (inv_tmin s * inv_tmin s)); [lra|].
  destruct (Rltb_spec (inv_tmax s * inv_tmax s) (inv_tsq s x y)); [lra|].
  unfold inv_on_check in Hon.
  destruct (involute_point (inv_rb s) (inv_a s) (clamp_to_nonneg (inv_tsq s x y))) as [qx qy].
  assert (Hneq : (Reqb x qx && Reqb y qy)%bool = false).
  { destruct (Reqb x qx) eqn:E1; [|reflexivity]. destruct (Reqb y qy) eqn:E2; [|reflexivity].
    apply Reqb_true in E1. apply Reqb_true in E2. subst. exfalso. apply Hon. reflexivity. }
  rewrite Hneq. rewrite (clamp_nonneg_R _ Hts). unfold inv_a1 in *.
  destruct (Rltb_spec (inv_theta_of s x y) (inv_tmax s + inv_a s)); [|lra].
  destruct (Rltb_spec (inv_a s) (inv_theta_of s x y - sqrt (inv_tsq s x y))); cbn [andb sense_matches]; lra.
Qed.

(** the exact "on" test compares with InvolutePoint(t^2) instead of InvolutePoint(t): calc_sense
    can answer On only at t^2 in {0, 1} ... *)
Theorem inv_sense_on_only_at (s : involute R) (pos : vec) :
  inv_rbs s <> 0 -> inv_calc_sense PI s pos = On ->
  let '(x, y) := inv_local_xy s pos in inv_tsq s x y = 0 \/ inv_tsq s x y = 1.
Proof.
  intros Hrb. pose proof (inv_calc_sense_unfold s pos) as Hu. destruct (inv_local_xy s pos) as [x y].
  rewrite Hu. clear Hu. numR.
  destruct (Rltb_spec (inv_tsq s x y) (inv_tmin s * inv_tmin s)); [discriminate|].
  destruct (Rltb_spec (inv_tmax s * inv_tmax s) (inv_tsq s x y)); [discriminate|].
  assert (Hts : 0 <= inv_tsq s x y) by (pose proof (sqr_nonneg (inv_tmin s)); lra).
  rewrite (clamp_nonneg_R _ Hts).
  pose proof (involute_point_radius (inv_rb s) (inv_a s) (inv_tsq s x y)) as Hrad.
  destruct (involute_point (inv_rb s) (inv_a s) (inv_tsq s x y)) as [qx qy].
  destruct (Reqb x qx) eqn:E1; cbn [andb].
  2:{ match goal with |- context [if ?b then Inside else Outside] => destruct b end; discriminate. }
  destruct (Reqb y qy) eqn:E2.
  2:{ match goal with |- context [if ?b then Inside else Outside] => destruct b end; discriminate. }
  intros _. apply Reqb_true in E1. apply Reqb_true in E2. subst qx qy.
  rewrite inv_rb_sq in Hrad. pose proof (rb2_pos s Hrb) as Hr.
  pose proof (tsq_eq s x y) as Ht. set (q := inv_tsq s x y) in *.
  assert (Hxy : x * x + y * y = inv_rbs s * inv_rbs s * (1 + q)).
  { rewrite Ht. field. lra. }
  assert (Hq : inv_rbs s * inv_rbs s * (q * (q - 1)) = 0) by (rewrite Hxy in Hrad; lra).
  apply Rmult_integral in Hq. destruct Hq as [Hq|Hq]; [lra|].
  apply Rmult_integral in Hq. destruct Hq; [left|right]; lra.
Qed.

(** ... so a point exactly on the surface is in general NOT reported On (refutes
    "sense = On iff the point is on the surface"; r_b = 1, a = 0, t = 2) *)
Theorem inv_sense_on_surface_refuted :
  exists (s : involute R) (pos : vec) (t : R),
    inv_tmin s <= t <= inv_tmax s /\
    inv_local_xy s pos = involute_point (inv_rb s) (inv_a s) t /\
    inv_calc_sense PI s pos <> On.
Proof.
  set (s := Inv 0 0 1 0 0 3).
  exists s, (V3 (cos 2 + 2 * sin 2) (sin 2 - 2 * cos 2) 0), 2.
  assert (Hxy : inv_local_xy s (V3 (cos 2 + 2 * sin 2) (sin 2 - 2 * cos 2) 0) = (cos 2 + 2 * sin 2, sin 2 - 2 * cos 2)).
  { unfold inv_local_xy, inv_right, s. cbn [inv_ox inv_oy inv_rbs vx vy]. numR.
    destruct (Rltb_spec 0 1); [|lra]. cbn [negb]. f_equal; ring. }
  split; [cbn; lra|]. split.
  - rewrite Hxy. unfold involute_point, inv_rb, s. cbn [inv_rbs inv_a]. numR. rewrite Rabs_R1.
    replace (2 + 0) with 2 by ring. f_equal; ring.
  - intros Hon. pose proof (inv_sense_on_only_at s _ ltac:(cbn; lra) Hon) as H01. rewrite Hxy in H01.
    rewrite tsq_eq in H01. cbn [inv_rbs s] in H01.
    pose proof (sin2_cos2 2) as Hsc. unfold Rsqr in Hsc.
    assert (Hr : (cos 2 + 2 * sin 2) * (cos 2 + 2 * sin 2) + (sin 2 - 2 * cos 2) * (sin 2 - 2 * cos 2) = 5).
    { transitivity (5 * (sin 2 * sin 2 + cos 2 * cos 2)); [ring|]. rewrite Hsc. ring. }
    rewrite Hr in H01. destruct H01; lra.
Qed.

(** ** calc_normal: a unit vector orthogonal to the involute's tangent direction
    (d/dtheta InvolutePoint(theta) = r_b theta (cos(theta + a), sin(theta + a))) at the
    parameter t = sqrt(|xy|^2 / r_b^2 - 1) of the position *)
Theorem inv_normal_unit_orthogonal (s : involute R) (pos : vec) :
  let n := inv_calc_normal s pos in
  let x := vx pos - inv_ox s in let y := vy pos - inv_oy s in
  let ang := sqrt (clamp_to_nonneg (inv_tsq s x y)) + inv_a s in
  vdot n n = 1 /\ vz n = 0 /\
  vx n * (if inv_right s then - cos ang else cos ang) + vy n * sin ang = 0.
Proof.
  cbv zeta. unfold inv_calc_normal, inv_tsq, vdot, negate. cbn [vx vy vz]. numR.
  set (ang := sqrt (clamp_to_nonneg (dot2 (vx pos - inv_ox s) (vy pos - inv_oy s) (vx pos - inv_ox s) (vy pos - inv_oy s) / (inv_rbs s * inv_rbs s) - 1)) + inv_a s).
  pose proof (sin2_cos2 ang) as Hsc. unfold Rsqr in Hsc.
  destruct (inv_right s); (split; [|split; [reflexivity|ring]]); nra.
Qed.

(** ** IllinoisRootFinder: a converged call (iterations left) returns |f(root)| <= tol *)
Lemma illinois_loop_converged (func : R -> R) (tol : R) fuel :
  forall l r fl fr sd root,
    illinois_loop fuel func tol l r fl fr sd = (root, true) -> Rabs (func root) <= tol.
Proof.
  induction fuel as [|k IH]; intros l r fl fr sd root Hr; cbn [illinois_loop] in Hr; [discriminate|].
  numR. set (rt := (l * fr - r * fl) / (fr - fl)) in *.
  destruct (Rltb_spec tol (Rabs (func rt))) as [Hgt|Hle].
  - destruct k as [|k']; [discriminate|].
    destruct (Z.eqb (signum fl) (signum (func rt))); eapply IH; exact Hr.
  - inversion Hr; subst. lra.
Qed.
Theorem illinois_converged (func : R -> R) (tol l r root : R) :
  illinois func tol l r = (root, true) -> Rabs (func root) <= tol.
Proof. unfold illinois. apply illinois_loop_converged. Qed.

(** ** InvoluteSolver *)
Lemma signum_R (z : R) : (0 < z -> signum z = 1%Z) /\ (z <= 0 -> (signum z <= 0)%Z).
Proof.
  unfold signum. numR. split; intros Hz.
  - destruct (Rltb_spec 0 z); [|lra]. destruct (Rltb_spec z 0); [lra|]. reflexivity.
  - destruct (Rltb_spec 0 z); [lra|]. destruct (Rltb_spec z 0); lia.
Qed.

Section Solver.
  Variables rb a tmin tmax x y u v convert tol_point : R.
  Hypothesis Htmin : 0 <= tmin.
  Hypothesis Htolp : 0 <= tol_point.
  Hypothesis Hconv : 0 < convert.
  Hypothesis Huv : u * u + v * v = 1.
  Let f := inv_root_fn rb a x y u v.

  (** the root function is the signed distance of InvolutePoint(t) from the ray's line *)
  Lemma root_fn_is_cross t : 0 <= t ->
    let '(qx, qy) := involute_point rb a t in f t = u * (qy - y) - v * (qx - x).
  Proof. intros _. unfold f, inv_root_fn, involute_point. numR. ring. Qed.

  (** what a stored distance means; [cf] = "every root finder call converged" *)
  Definition hit_ok (cf : bool) (d : R) : Prop :=
    exists tg, tmin <= tg <= tmax /\ 0 < d /\
      (let '(qx, qy) := involute_point rb a tg in
       (x + d / convert * u - qx) * (x + d / convert * u - qx)
       + (y + d / convert * v - qy) * (y + d / convert * v - qy) <= 2 * (f tg * f tg)) /\
      (cf = true -> Rabs (f tg) <= rb * solver_tol).

  Lemma calc_dist_hit tg : tol_point < inv_calc_dist rb a tmin tmax x y u v tg ->
    let d := convert * inv_calc_dist rb a tmin tmax x y u v tg in
    tmin <= tg <= tmax /\ 0 < d /\
    (let '(qx, qy) := involute_point rb a tg in
     (x + d / convert * u - qx) * (x + d / convert * u - qx)
     + (y + d / convert * v - qy) * (y + d / convert * v - qy) <= 2 * (f tg * f tg)).
  Proof.
    cbv zeta. unfold inv_calc_dist. intros Hd.
    destruct ((tmin <=? tg)%num && (tg <=? tmax)%num)%bool eqn:Hb.
    2:{ destruct (involute_point rb a (clamp_to_nonneg tg)). numR. lra. }
    apply andb_prop in Hb. destruct Hb as [Hb1 Hb2]. numR. apply Rleb_true in Hb1. apply Rleb_true in Hb2.
    assert (Htg : 0 <= tg) by lra. rewrite (clamp_nonneg_R _ Htg) in *.
    pose proof (root_fn_is_cross tg Htg) as Hf.
    destruct (involute_point rb a tg) as [qx qy]. numR.
    set (up := qx - x) in *. set (vp := qy - y) in *.
    set (al := u * up + v * vp) in *.
    set (dist := sqrt (up * up + vp * vp)) in *.
    assert (Hdist0 : 0 <= dist) by apply sqrt_pos.
    assert (Hdist2 : dist * dist = up * up + vp * vp).
    { apply sqrt_sqrt. pose proof (sqr_nonneg up). pose proof (sqr_nonneg vp). lra. }
    destruct (signum_R al) as [Hs1 Hs2].
    destruct (Rle_or_lt al 0) as [Hal|Hal].
    { exfalso. specialize (Hs2 Hal). apply IZR_le in Hs2.
      assert (dist * IZR (signum al) <= 0) by nra. lra. }
    rewrite (Hs1 Hal) in *. replace (dist * 1) with dist in * by ring.
    split; [lra|]. split; [apply Rmult_lt_0_compat; lra|].
    replace (convert * dist / convert) with dist by (field; lra).
    rewrite Hf. fold up vp.
    (* |H - Q|^2 = 2 dist (dist - al), al^2 + f^2 = dist^2 *)
    set (fc := u * vp - v * up).
    assert (Hlag : al * al + fc * fc = dist * dist).
    { rewrite Hdist2. unfold al, fc. transitivity ((u * u + v * v) * (up * up + vp * vp)); [ring|]. rewrite Huv. ring. }
    assert (Hlhs : (x + dist * u - qx) * (x + dist * u - qx) + (y + dist * v - qy) * (y + dist * v - qy)
                   = 2 * (dist * (dist - al))).
    { unfold up, vp in *. transitivity (dist * dist * (u * u + v * v) - 2 * dist * (u * (qx - x) + v * (qy - y))
                         + ((qx - x) * (qx - x) + (qy - y) * (qy - y))); [ring|].
      rewrite Huv, <- Hdist2. unfold al. ring. }
    rewrite Hlhs.
    assert (Hle : al <= dist) by nra.
    (* dist (dist - al) <= (dist + al)(dist - al) = f^2 *)
    assert (dist * (dist - al) <= (dist + al) * (dist - al)) by nra.
    assert ((dist + al) * (dist - al) = fc * fc) by (rewrite <- Hlag; ring) || nra.
    lra.
  Qed.

  Lemma inv_solve_loop_inv fuel :
    forall tl tu i acc conv acc' conv' fin,
      inv_solve_loop PI fuel rb a tmin tmax x y u v convert tol_point tl tu i acc conv = (acc', conv', fin) ->
      (conv' = true -> conv = true) /\ (Forall (hit_ok conv') acc -> Forall (hit_ok conv') acc').
  Proof.
    induction fuel as [|k IH]; intros tl tu i acc conv acc' conv' fin Hr; cbn [inv_solve_loop] in Hr.
    { inversion Hr; subst. tauto. }
    destruct (tl <? tmax)%num; [|inversion Hr; subst; tauto].
    fold f in Hr.
    destruct (negb (Z.eqb (signum (f tl)) (signum (f tu)))).
    - destruct (illinois f (rb * solver_tol)%num tl tu) as [tg ok] eqn:Hill.
      apply IH in Hr. destruct Hr as [Hc Hacc]. split.
      + intros Hcf. specialize (Hc Hcf). apply andb_prop in Hc. tauto.
      + intros Hall. apply Hacc. clear Hacc.
        destruct (tol_point <? inv_calc_dist rb a tmin tmax x y u v tg)%num eqn:Hd; [|exact Hall].
        apply Forall_app. split; [exact Hall|]. constructor; [|constructor].
        numR. apply Rltb_true in Hd.
        destruct (calc_dist_hit tg Hd) as [Hb [Hpos Hgeo]].
        exists tg. split; [exact Hb|]. split; [exact Hpos|]. split; [exact Hgeo|].
        intros Hcf. specialize (Hc Hcf). apply andb_prop in Hc. destruct Hc as [_ Hok]. subst ok.
        apply illinois_converged in Hill. numR. exact Hill.
    - apply IH in Hr. exact Hr.
  Qed.
End Solver.

(** every distance returned by InvoluteSolver is positive and its hit point (in the solver's
    mirrored x-y frame, along the ORIGINAL direction) is within sqrt(2) |f(t)| of the point
    InvolutePoint(t) of the bounded arc tmin <= t <= tmax, where f(t) is the root-function
    residual; when every IllinoisRootFinder call converged, |f(t)| <= r_b * 1e-8 *)
Theorem inv_intersections_on_surface rb a (right : bool) tmin tmax (pos dir : vec) (on : bool) ds conv fin :
  0 <= rb -> 0 <= tmin ->
  inv_solve PI rb a right tmin tmax pos dir on = (ds, conv, fin) ->
  forall d, In d ds ->
    let x := if right then - vx pos else vx pos in let y := vy pos in
    let u0 := if right then - vx dir else vx dir in let v0 := vy dir in
    exists tg err, tmin <= tg <= tmax /\ 0 < d /\ 0 <= err /\
      (let '(qx, qy) := involute_point rb a tg in
       (x + d * u0 - qx) * (x + d * u0 - qx) + (y + d * v0 - qy) * (y + d * v0 - qy) <= 2 * (err * err)) /\
      (conv = true -> err <= rb * / 100000000).
Proof.
  intros Hrb Htmin Hs d Hin. cbv zeta. unfold inv_solve in Hs.
  set (x := if right then (- vx pos)%num else vx pos) in *.
  set (u0 := if right then (- vx dir)%num else vx dir) in *.
  set (v0 := vy dir) in *.
  destruct ((u0 =? n0)%num && (v0 =? n0)%num)%bool eqn:Hz.
  { inversion Hs; subst. destruct Hin. }
  set (convert := (n1 / nsqrt (v0 * v0 + u0 * u0))%num) in *.
  assert (Hnz : 0 < v0 * v0 + u0 * u0).
  { numR. pose proof (sqr_nonneg u0). pose proof (sqr_nonneg v0).
    destruct (Req_dec (v0 * v0 + u0 * u0) 0) as [He|]; [|lra]. exfalso.
    assert (u0 * u0 = 0) by lra. assert (v0 * v0 = 0) by lra.
    assert (u0 = 0) by (apply Rmult_integral in H1; tauto). assert (v0 = 0) by (apply Rmult_integral in H2; tauto).
    rewrite H3, H4 in Hz. numR. unfold Reqb in Hz. destruct (Req_EM_T 0 0); [discriminate|tauto]. }
  assert (Hsq : 0 < sqrt (v0 * v0 + u0 * u0)) by (apply sqrt_lt_R0; exact Hnz).
  assert (Hconv : 0 < convert) by (unfold convert; numR; apply Rdiv_lt_0_compat; lra).
  assert (Huv : (u0 * convert) * (u0 * convert) + (v0 * convert) * (v0 * convert) = 1).
  { unfold convert. numR. transitivity ((v0 * v0 + u0 * u0) / (sqrt (v0 * v0 + u0 * u0) * sqrt (v0 * v0 + u0 * u0))); [field; lra|].
    rewrite sqrt_sqrt by lra. field. lra. }
  set (tolp := (if on then rb * solver_tol * nofZ 100 else n0)%num) in *.
  assert (Htolp : 0 <= tolp).
  { unfold tolp, solver_tol. destruct on; numR; [|lra]. apply Rmult_le_pos; [|lra]. apply Rmult_le_pos; [lra|].
    apply Rlt_le. apply Rdiv_lt_0_compat; lra. }
  numR.
  apply (inv_solve_loop_inv rb a tmin tmax x (vy pos) (u0 * convert) (v0 * convert) convert tolp Htmin Htolp Hconv Huv) in Hs.
  destruct Hs as [_ Hall]. specialize (Hall (Forall_nil _)). rewrite Forall_forall in Hall.
  destruct (Hall d Hin) as [tg [Hb [Hpos [Hgeo Hcv]]]].
  exists tg, (Rabs (inv_root_fn rb a x (vy pos) (u0 * convert) (v0 * convert) tg)).
  split; [exact Hb|]. split; [exact Hpos|]. split; [apply Rabs_pos|]. split.
  - destruct (involute_point rb a tg) as [qx qy].
    replace (d / convert * (u0 * convert)) with (d * u0) in Hgeo by (field; lra).
    replace (d / convert * (v0 * convert)) with (d * v0) in Hgeo by (field; lra).
    eapply Rle_trans; [exact Hgeo|]. apply Req_le. f_equal.
    set (q := inv_root_fn rb a x (vy pos) (u0 * convert) (v0 * convert) tg). unfold Rabs. destruct (Rcase_abs q); ring.
  - intros Hc. specialize (Hcv Hc). unfold solver_tol in Hcv. numR. unfold Rdiv in Hcv. rewrite Rmult_1_l in Hcv. exact Hcv.
Qed.

(** non-vacuity: the model's hypotheses hold for Involute{r_b = 1, a = 0, [0, 3]} *)
Example inv_point_example : involute_point 1 0 0 = (1, 0).
Proof. unfold involute_point. numR. replace (0 + 0) with 0 by ring. rewrite cos_0, sin_0. f_equal; ring. Qed.
