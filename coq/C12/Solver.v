(** * C12: model of orange/surf/detail/QuadraticSolver.hh over [Num].
    Executable definitions only (no proofs).  [None] models the sentinel
    [no_intersection()] (= +infinity). *)
From Coq Require Import ZArith List.
From Celer Require Import Base.Num.
Import ListNotations.
Local Open Scope num_scope.

Section Solver.
  Context {T : Type} `{Num T}.

  (** Tolerance<>::sqrt_quadratic() for double, and min_a() = ipow<2>(sqrt_quadratic) *)
  Definition sqrt_quadratic : T := nQ 1 100000.
  Definition min_a : T := sqrt_quadratic * sqrt_quadratic.

  (** Intersections = Array<real_type, 2> *)
  Definition isect2 : Type := (option T * option T)%type.
  Definition no_isect2 : isect2 := (None, None).

  (** QuadraticSolver(a, half_b): a_inv_ = 1/a, hba_ = half_b * a_inv_ *)
  Record qsolver := QS { qs_a_inv : T; qs_hba : T }.
  Definition mk_solver (a half_b : T) : qsolver :=
    let ai := n1 / a in QS ai (half_b * ai).

  (** operator()(c): general case, not on the surface *)
  Definition solve_c (s : qsolver) (c0 : T) : isect2 :=
    let c := c0 * qs_a_inv s in
    let b2_4 := qs_hba s * qs_hba s in
    if c <? b2_4 then
      let t2 := nsqrt (b2_4 - c) in
      let r0 := - qs_hba s - t2 in
      let r1 := - qs_hba s + t2 in
      if r1 <=? n0 then (None, None)
      else if r0 <=? n0 then (None, Some r1)
      else (Some r0, Some r1)
    else if b2_4 =? c then
      let r0 := - qs_hba s in
      ((if r0 <=? n0 then None else Some r0), None)
    else (None, None).

  (** operator()(): degenerate case, known to be on the surface (c = 0) *)
  Definition solve_on (s : qsolver) : isect2 :=
    let r0 := nofZ (-2) * qs_hba s in
    ((if r0 <=? n0 then None else Some r0), None).

  (** solve_along_surface(half_b, c): a ~ 0, not on the surface.
      [strict = true] is the code as it stands since commit cd06731 (`<= 0`,
      like every other branch); [strict = false] is the comparison before the
      repair (`result[0] < 0` dropped only negative values, so a start point
      exactly on the surface yielded the distance 0). *)
  Definition solve_along_gen (strict : bool) (half_b c : T) : isect2 :=
    if min_a <? nabs half_b then
      let r0 := (- c) / (n2 * half_b) in
      ((if (if strict then r0 <=? n0 else r0 <? n0) then None else Some r0), None)
    else (None, None).

  (** solve_general(a, half_b, c, on_surface); [on = true] is SurfaceState::on *)
  Definition solve_general_gen (strict : bool) (a half_b c : T) (on : bool) : isect2 :=
    if min_a <=? nabs a then
      let s := mk_solver a half_b in
      if on then solve_on s else solve_c s c
    else if negb on then solve_along_gen strict half_b c
    else (None, None).

  (** which variant the code currently is *)
  Definition along_strict_as_coded : bool := true.
  Definition solve_along := solve_along_gen along_strict_as_coded.
  Definition solve_general := solve_general_gen along_strict_as_coded.

  Definition isect2_list (r : isect2) : list (option T) := [fst r; snd r].
End Solver.
