(** * C12: proofs about TransformSimplifier (instance R). *)
From Coq Require Import Reals Lra Lia Psatz ZArith List Bool Nsatz.
From Celer Require Import Base.Num Base.NumR Base.Vec3
  C12.Solver C12.Surfaces C12.SurfacesProofs C12.Transforms C12.TransformsProofs C12.TransformSimplify.
Import ListNotations.
Local Open Scope R_scope.
Notation vec := (vec3 R).

(** ** algebra of 3x3 orthogonal matrices, entries a b c / d e f / g h i *)
Section Algebra.
  Variables a b c d e f g h i : R.
  Let D := a * e * i + d * h * c + g * b * f - g * e * c - d * b * i - a * h * f.
  Hypothesis r11 : a * a + b * b + c * c = 1.
  Hypothesis r22 : d * d + e * e + f * f = 1.
  Hypothesis r33 : g * g + h * h + i * i = 1.
  Hypothesis r12 : a * d + b * e + c * f = 0.
  Hypothesis r13 : a * g + b * h + c * i = 0.
  Hypothesis r23 : d * g + e * h + f * i = 0.
  Hypothesis c11 : a * a + d * d + g * g = 1.
  Hypothesis c22 : b * b + e * e + h * h = 1.
  Hypothesis c33 : c * c + f * f + i * i = 1.
  Hypothesis c12 : a * b + d * e + g * h = 0.
  Hypothesis c13 : a * c + d * f + g * i = 0.
  Hypothesis c23 : b * c + e * f + h * i = 0.

  Lemma det_sq : D * D = 1.
  Proof. unfold D. Time nsatz. Qed.

  Lemma cof_a : e * i - f * h = D * a. Proof. unfold D. nsatz. Qed.
  Lemma cof_e : a * i - c * g = D * e. Proof. unfold D. nsatz. Qed.
  Lemma cof_i : a * e - b * d = D * i. Proof. unfold D. nsatz. Qed.

  Section Proper.
    Hypothesis HD : D = 1.
    Variables x y z : R.
    Let tr := a + e + i.
    Let pp := x * x + y * y + z * z.
    Let pRp := a * x * x + b * x * y + c * x * z + d * y * x + e * y * y + f * y * z + g * z * x + h * z * y + i * z * z.
    Let wp := (h - f) * x + (c - g) * y + (d - b) * z.
    Lemma axis_identity : (1 + tr) * ((1 - tr) * pp + 2 * pRp) = wp * wp.
    Proof. unfold tr, pp, pRp, wp. unfold D in HD. Time nsatz. Qed.
  End Proper.
End Algebra.

Lemma sq_nonneg (x : R) : 0 <= x * x.
Proof. pose proof (Rle_0_sqr x) as Hx. unfold Rsqr in Hx. exact Hx. Qed.

(** ** consequences for [mat3] *)
Definition vnorm (v : vec) : R := sqrt (vdot v v).
Definition vdist (p q : vec) : R := vnorm (vsub p q).
Definition mdet (m : mat3 R) : R := determinant m.
Definition rot_only (m : mat3 R) (p : vec) : vec := gemv 1 m p 0 p.

Lemma vnorm_nonneg v : 0 <= vnorm v.
Proof. apply sqrt_pos. Qed.
Lemma vdot_nonneg v : 0 <= vdot v v.
Proof. destruct v as [x y z]. unfold vdot. cbn [vx vy vz]. nra. Qed.
Lemma vnorm_sq v : vnorm v * vnorm v = vdot v v.
Proof. apply sqrt_sqrt, vdot_nonneg. Qed.
Lemma vnorm_le_of_sq v k : 0 <= k -> vdot v v <= k * k -> vnorm v <= k.
Proof.
  intros Hk Hsq. unfold vnorm. rewrite <- (sqrt_square k Hk). apply sqrt_le_1_alt. exact Hsq.
Qed.

Ltac mat_facts Ho m :=
  ortho_facts Ho; destruct m as [[a b c] [d e f] [g h i]]; cbn [r0 r1 r2 vx vy vz] in *.

(** det R = +-1 *)
Lemma ortho_det m : orthogonal m -> mdet m = 1 \/ mdet m = -1.
Proof.
  intros Ho. mat_facts Ho m.
  assert (Hsq : mdet (M3 (V3 a b c) (V3 d e f) (V3 g h i)) * mdet (M3 (V3 a b c) (V3 d e f) (V3 g h i)) = 1).
  { unfold mdet, determinant, mget, mrow. cbn [r0 r1 r2 vget vx vy vz]. numR.
    pose proof (det_sq a b c d e f g h i) as Hd. cbv zeta in Hd.
    transitivity ((a * e * i + d * h * c + g * b * f - g * e * c - d * b * i - a * h * f) *
                  (a * e * i + d * h * c + g * b * f - g * e * c - d * b * i - a * h * f)); [ring|].
    apply Hd; lra. }
  assert (Hf : (mdet (M3 (V3 a b c) (V3 d e f) (V3 g h i)) - 1) * (mdet (M3 (V3 a b c) (V3 d e f) (V3 g h i)) + 1) = 0) by lra.
  apply Rmult_integral in Hf. destruct Hf; [left|right]; lra.
Qed.

(** proper rotation: |R p - p|^2 <= (3 - tr R) |p|^2 and tr R >= -1 *)
Lemma proper_disp m p : orthogonal m -> mdet m = 1 ->
  -1 <= mtrace m <= 3 /\
  (-1 < mtrace m -> vdot (vsub (rot_only m p) p) (vsub (rot_only m p) p) <= (3 - mtrace m) * vdot p p).
Proof.
  intros Ho Hd. mat_facts Ho m. destruct p as [x y z].
  unfold mdet, determinant, mtrace, rot_only, gemv, vsub, vdot, mget, mrow in *.
  cbn [r0 r1 r2 vget vx vy vz] in *. numR.
  assert (HD : a * e * i + d * h * c + g * b * f - g * e * c - d * b * i - a * h * f = 1) by lra.
  assert (Hw : (1 + (a + e + i)) * (3 - (a + e + i)) = (h - f) * (h - f) + (c - g) * (c - g) + (d - b) * (d - b)).
  { pose proof (axis_identity a b c d e f g h i) as A. cbv zeta in A.
    pose proof (A ltac:(lra) ltac:(lra) ltac:(lra) ltac:(lra) ltac:(lra) ltac:(lra)
                  ltac:(lra) ltac:(lra) ltac:(lra) ltac:(lra) ltac:(lra) ltac:(lra) HD 1 0 0) as A1.
    pose proof (A ltac:(lra) ltac:(lra) ltac:(lra) ltac:(lra) ltac:(lra) ltac:(lra)
                  ltac:(lra) ltac:(lra) ltac:(lra) ltac:(lra) ltac:(lra) ltac:(lra) HD 0 1 0) as A2.
    pose proof (A ltac:(lra) ltac:(lra) ltac:(lra) ltac:(lra) ltac:(lra) ltac:(lra)
                  ltac:(lra) ltac:(lra) ltac:(lra) ltac:(lra) ltac:(lra) ltac:(lra) HD 0 0 1) as A3.
    nra. }
  assert (Ha : a <= 1) by nra. assert (He : e <= 1) by nra. assert (Hi : i <= 1) by nra.
  split.
  - split. 2: { clear - Ha He Hi. lra. }
    assert (Hsumsq : 0 <= (h - f) * (h - f) + (c - g) * (c - g) + (d - b) * (d - b))
      by (pose proof (sq_nonneg (h - f)); pose proof (sq_nonneg (c - g)); pose proof (sq_nonneg (d - b)); lra).
    destruct (Rle_or_lt (-1) (a + e + i)) as [|Hlt]; [lra|]. exfalso.
    assert (Hp : 0 < (-1 - (a + e + i)) * (3 - (a + e + i))) by (apply Rmult_lt_0_compat; lra).
    replace ((-1 - (a + e + i)) * (3 - (a + e + i))) with (- ((1 + (a + e + i)) * (3 - (a + e + i)))) in Hp by ring. lra.
  - intros Htr.
    pose proof (axis_identity a b c d e f g h i ltac:(lra) ltac:(lra) ltac:(lra) ltac:(lra) ltac:(lra) ltac:(lra)
                  ltac:(lra) ltac:(lra) ltac:(lra) ltac:(lra) ltac:(lra) ltac:(lra) HD x y z) as A. cbv zeta in A.
    set (pp := x * x + y * y + z * z) in *.
    set (pRp := a * x * x + b * x * y + c * x * z + d * y * x + e * y * y + f * y * z + g * z * x + h * z * y + i * z * z) in *.
    set (wp := (h - f) * x + (c - g) * y + (d - b) * z) in *.
    assert (Hlhs : (1 * (g * z) + (1 * (d * y) + (1 * (a * x) + 0 * x)) - x) * (1 * (g * z) + (1 * (d * y) + (1 * (a * x) + 0 * x)) - x) = 0 -> True) by trivial.
    clear Hlhs.
    assert (Hnorm : (1 * (c * z) + (1 * (b * y) + (1 * (a * x) + 0 * x)) - x) * (1 * (c * z) + (1 * (b * y) + (1 * (a * x) + 0 * x)) - x)
                  + (1 * (f * z) + (1 * (e * y) + (1 * (d * x) + 0 * y)) - y) * (1 * (f * z) + (1 * (e * y) + (1 * (d * x) + 0 * y)) - y)
                  + (1 * (i * z) + (1 * (h * y) + (1 * (g * x) + 0 * z)) - z) * (1 * (i * z) + (1 * (h * y) + (1 * (g * x) + 0 * z)) - z)
                  = 2 * pp - 2 * pRp).
    { unfold pp, pRp.
      transitivity ((a * a + d * d + g * g) * (x * x) + (b * b + e * e + h * h) * (y * y) + (c * c + f * f + i * i) * (z * z)
                    + 2 * (a * b + d * e + g * h) * (x * y) + 2 * (a * c + d * f + g * i) * (x * z) + 2 * (b * c + e * f + h * i) * (y * z)
                    + (x * x + y * y + z * z)
                    - 2 * (a * x * x + b * x * y + c * x * z + d * y * x + e * y * y + f * y * z + g * z * x + h * z * y + i * z * z)); [ring|].
      replace (a * a + d * d + g * g) with 1 by lra. replace (b * b + e * e + h * h) with 1 by lra.
      replace (c * c + f * f + i * i) with 1 by lra. replace (a * b + d * e + g * h) with 0 by lra.
      replace (a * c + d * f + g * i) with 0 by lra. replace (b * c + e * f + h * i) with 0 by lra. ring. }
    rewrite Hnorm.
    assert (Hpos : 0 <= (1 - (a + e + i)) * pp + 2 * pRp).
    { pose proof (sq_nonneg wp).
      assert (0 < 1 + (a + e + i)) by lra.
      destruct (Rle_or_lt 0 ((1 - (a + e + i)) * pp + 2 * pRp)) as [|Hneg]; [assumption|].
      exfalso.
      assert (Hq : 0 < (1 + (a + e + i)) * (- ((1 - (a + e + i)) * pp + 2 * pRp))) by (apply Rmult_lt_0_compat; lra).
      replace ((1 + (a + e + i)) * (- ((1 - (a + e + i)) * pp + 2 * pRp)))
        with (- ((1 + (a + e + i)) * ((1 - (a + e + i)) * pp + 2 * pRp))) in Hq by ring. lra. }
    lra.
Qed.

Definition mneg (m : mat3 R) : mat3 R := M3 (vneg (r0 m)) (vneg (r1 m)) (vneg (r2 m)).

(** improper (reflecting) orthogonal matrix: tr R <= 1 *)
Lemma improper_trace m : orthogonal m -> mdet m = -1 -> mtrace m <= 1.
Proof.
  intros Ho Hd.
  assert (Ho' : orthogonal (mneg m)).
  { destruct Ho as [H1 H2]. destruct m as [[a b c] [d e f] [g h k]].
    split; intros i j; [specialize (H1 i j)|specialize (H2 i j)]; destruct i, j;
      unfold mtm, mmt, delta, mget, mrow, mneg, vneg in *; cbn [r0 r1 r2 vget vx vy vz axis_eqb] in *; numR; lra. }
  assert (Hd' : mdet (mneg m) = 1).
  { destruct m as [[a b c] [d e f] [g h k]]. unfold mdet, determinant, mget, mrow, mneg, vneg in *.
    cbn [r0 r1 r2 vget vx vy vz] in *. numR. lra. }
  destruct (proper_disp (mneg m) (V3 0 0 0) Ho' Hd') as [[Hlo _] _].
  destruct m as [[a b c] [d e f] [g h k]]. unfold mtrace, mget, mrow, mneg, vneg in *.
  cbn [r0 r1 r2 vget vx vy vz] in *. numR. lra.
Qed.

(** the soft-identity test of TransformSimplifier: tr R >= 3 - eps^2 implies that
    the rotation moves no point by more than eps |p| (rotations AND reflections;
    a reflection never passes the test when eps^2 < 2) *)
Lemma soft_identity_rotation eps m p : orthogonal m -> 0 <= eps -> eps * eps < 2 ->
  3 - eps * eps <= mtrace m -> vnorm (vsub (rot_only m p) p) <= eps * vnorm p.
Proof.
  intros Ho He He2 Htr. destruct (ortho_det m Ho) as [Hd|Hd].
  - destruct (proper_disp m p Ho Hd) as [[Hlo Hhi] Hdisp].
    apply vnorm_le_of_sq.
    + apply Rmult_le_pos; [assumption|apply vnorm_nonneg].
    + eapply Rle_trans; [apply Hdisp; lra|].
      replace (eps * vnorm p * (eps * vnorm p)) with (eps * eps * (vnorm p * vnorm p)) by ring.
      rewrite vnorm_sq. apply Rmult_le_compat_r; [apply vdot_nonneg|lra].
  - pose proof (improper_trace m Ho Hd). lra.
Qed.

Lemma vdot_cauchy (u w : vec) : vdot u w <= vnorm u * vnorm w.
Proof.
  assert (Hcs : vdot u w * vdot u w <= vdot u u * vdot w w).
  { destruct u as [a b c], w as [x y z]. unfold vdot. cbn [vx vy vz].
    pose proof (sq_nonneg (b * z - c * y)). pose proof (sq_nonneg (c * x - a * z)). pose proof (sq_nonneg (a * y - b * x)).
    assert (Hl : (a * a + b * b + c * c) * (x * x + y * y + z * z) - (a * x + b * y + c * z) * (a * x + b * y + c * z)
                 = (b * z - c * y) * (b * z - c * y) + (c * x - a * z) * (c * x - a * z) + (a * y - b * x) * (a * y - b * x)) by ring.
    lra. }
  destruct (Rle_or_lt (vdot u w) 0) as [Hn|Hp].
  - pose proof (Rmult_le_pos _ _ (vnorm_nonneg u) (vnorm_nonneg w)). lra.
  - rewrite <- (sqrt_square (vdot u w)) by lra. unfold vnorm. rewrite <- sqrt_mult by apply vdot_nonneg.
    apply sqrt_le_1_alt. exact Hcs.
Qed.

Lemma vnorm_triangle (u w : vec) : vnorm (vadd u w) <= vnorm u + vnorm w.
Proof.
  apply vnorm_le_of_sq.
  - pose proof (vnorm_nonneg u). pose proof (vnorm_nonneg w). lra.
  - pose proof (vdot_cauchy u w) as Hc. pose proof (vnorm_sq u) as Hu. pose proof (vnorm_sq w) as Hw.
    assert (He : vdot (vadd u w) (vadd u w) = vdot u u + 2 * vdot u w + vdot w w).
    { destruct u as [a b c], w as [x y z]. unfold vdot, vadd. cbn [vx vy vz]. numR. ring. }
    rewrite He. nra.
Qed.

Lemma vnorm_zero : vnorm (V3 0 0 0) = 0.
Proof. unfold vnorm, vdot. cbn [vx vy vz]. replace (0 * 0 + 0 * 0 + 0 * 0) with 0 by ring. apply sqrt_0. Qed.

Lemma norm_vnorm (v : vec) : norm v = vnorm v.
Proof. unfold norm, vnorm. rewrite dot_vdot. reflexivity. Qed.

(** ** TransformSimplifier *)
Definition vt_wf (v : vtransform R) : Prop :=
  match v with VTransformation tf => orthogonal (tf_rot tf) | _ => True end.
Definition rot_dropped (v v' : vtransform R) : bool :=
  match v, v' with VTransformation _, VTransformation _ => false | VTransformation _, _ => true | _, _ => false end.
Definition tra_dropped (v v' : vtransform R) : bool :=
  match v, v' with VNoTransformation, _ => false | _, VNoTransformation => true | _, _ => false end.

Lemma vsub_self (p : vec) : vsub p p = V3 0 0 0.
Proof. destruct p as [x y z]. unfold vsub. cbn [vx vy vz]. numR. f_equal; ring. Qed.

Lemma tf_up_split (tf : transformation R) p : tf_up tf p = vadd (rot_only (tf_rot tf) p) (tf_tra tf).
Proof.
  destruct tf as [[[a b c] [d e f] [g h i]] [tx ty tz]], p as [x y z].
  unfold tf_up, rot_only, gemv, vadd, mget, mrow. cbn [tf_rot tf_tra r0 r1 r2 vget vx vy vz]. numR. f_equal; ring.
Qed.

Lemma vsub_tri (s q p t : vec) : vsub s (vadd q t) = vadd (vsub s (tr_up t p)) (vneg (vsub q p)).
Proof.
  destruct s as [a1 b1 c1], q as [a2 b2 c2], p as [x y z], t as [a3 b3 c3].
  unfold tr_up, vadd, vsub, vneg. cbn [vx vy vz]. numR. f_equal; ring.
Qed.
Lemma vnorm_neg (v : vec) : vnorm (vneg v) = vnorm v.
Proof. unfold vnorm. apply f_equal. destruct v as [a b c]. unfold vdot, vneg. cbn [vx vy vz]. numR. ring. Qed.

(** Translation -> NoTransformation moves every point by |t| <= eps *)
Lemma simplify_translation_pointwise eps tra p :
  vdist (vt_up (simplify_translation eps tra) p) (tr_up tra p)
    <= if tra_dropped (VTranslation tra) (simplify_translation eps tra) then eps else 0.
Proof.
  unfold simplify_translation. rewrite norm_vnorm. numR.
  destruct (Rleb_spec (vnorm tra) eps) as [Hle|Hgt]; cbn [vt_up tra_dropped].
  - unfold vdist. replace (vsub p (tr_up tra p)) with (vneg tra).
    + replace (vnorm (vneg tra)) with (vnorm tra); [assumption|].
      symmetry; apply vnorm_neg.
    + destruct p as [x y z], tra as [a b c]. unfold vsub, tr_up, vadd, vneg. cbn [vx vy vz]. numR. f_equal; ring.
  - unfold vdist. rewrite vsub_self, vnorm_zero. lra.
Qed.

(** the full statement: whatever [TransformSimplifier] returns, applied to any
    point p, differs from the original transform's image by at most
    eps |p| (if the rotation was dropped) + eps (if the translation was dropped);
    in particular an unchanged variant gives exactly the same point *)
Theorem simplify_transform_pointwise eps v p : 0 <= eps -> eps * eps < 2 -> vt_wf v ->
  let v' := simplify_transform eps v in
  vdist (vt_up v' p) (vt_up v p)
    <= (if rot_dropped v v' then eps * vnorm p else 0) + (if tra_dropped v v' then eps else 0).
Proof.
  intros He He2 Hwf. cbv zeta. destruct v as [|tra|tf]; cbn [simplify_transform].
  - cbn [vt_up rot_dropped tra_dropped]. unfold vdist. rewrite vsub_self, vnorm_zero. lra.
  - pose proof (simplify_translation_pointwise eps tra p) as Ht. cbn [vt_up].
    assert (Hr : rot_dropped (VTranslation tra) (simplify_translation eps tra) = false) by reflexivity.
    rewrite Hr. lra.
  - cbn [vt_wf] in Hwf. unfold simplify_transformation. numR.
    destruct (Rleb_spec (3 - eps * eps) (mtrace (tf_rot tf))) as [Hle|Hgt].
    + pose proof (soft_identity_rotation eps (tf_rot tf) p Hwf He He2 Hle) as Hrot.
      pose proof (simplify_translation_pointwise eps (tf_tra tf) p) as Ht.
      cbn [vt_up]. rewrite tf_up_split.
      set (q := rot_only (tf_rot tf) p) in *.
      assert (Hrd : rot_dropped (VTransformation tf) (simplify_translation eps (tf_tra tf)) = true).
      { unfold simplify_translation. destruct (norm (tf_tra tf) <=? eps)%num; reflexivity. }
      assert (Htd : tra_dropped (VTransformation tf) (simplify_translation eps (tf_tra tf))
                    = tra_dropped (VTranslation (tf_tra tf)) (simplify_translation eps (tf_tra tf))).
      { unfold simplify_translation. destruct (norm (tf_tra tf) <=? eps)%num; reflexivity. }
      rewrite Hrd, Htd.
      (* |v'(p) - (q + t)| <= |v'(p) - (p + t)| + |p - q| *)
      unfold vdist in *.
      rewrite (vsub_tri _ q p (tf_tra tf)).
      eapply Rle_trans; [apply vnorm_triangle|]. rewrite vnorm_neg. lra.
    + cbn [vt_up rot_dropped tra_dropped]. unfold vdist. rewrite vsub_self, vnorm_zero. lra.
Qed.

(** weaker uniform form: never more than eps (|p| + 1) *)
Corollary simplify_transform_bound eps v p : 0 <= eps -> eps * eps < 2 -> vt_wf v ->
  vdist (vt_up (simplify_transform eps v) p) (vt_up v p) <= eps * (vnorm p + 1).
Proof.
  intros He He2 Hwf. pose proof (simplify_transform_pointwise eps v p He He2 Hwf) as Hp. cbv zeta in Hp.
  pose proof (vnorm_nonneg p). pose proof (Rmult_le_pos _ _ He H).
  destruct (rot_dropped v (simplify_transform eps v)), (tra_dropped v (simplify_transform eps v)); nra.
Qed.

(** exactness: a rotation that IS the identity is always dropped and nothing moves;
    a zero translation is always dropped and nothing moves *)
Theorem simplify_identity_exact eps tra p : 0 <= eps ->
  simplify_transformation eps (TF mat3_id tra) = simplify_translation eps tra /\
  tf_up (TF mat3_id tra) p = tr_up tra p /\
  simplify_translation eps (V3 0 0 0) = VNoTransformation /\ tr_up (V3 0 0 0) p = p.
Proof.
  intros He. split; [|split; [|split]].
  - unfold simplify_transformation, mtrace, mat3_id, mget, mrow. cbn [tf_rot tf_tra r0 r1 r2 vget vx vy vz]. numR.
    destruct (Rleb_spec (3 - eps * eps) (1 + 1 + 1)) as [|Hc]; [reflexivity|]. exfalso. pose proof (sq_nonneg eps). lra.
  - destruct p as [x y z], tra as [a b c]. unfold tf_up, tr_up, gemv, vadd, mat3_id, mget, mrow. cbn [tf_rot tf_tra r0 r1 r2 vget vx vy vz]. numR. f_equal; ring.
  - unfold simplify_translation. rewrite norm_vnorm, vnorm_zero. numR.
    destruct (Rleb_spec 0 eps); [reflexivity|lra].
  - destruct p as [x y z]. unfold tr_up, vadd. cbn [vx vy vz]. numR. f_equal; ring.
Qed.

(** non-vacuity: a rotation by atan(7/24) about z (cos = 24/25) with eps = 1/2 is simplified away *)
Example simplify_transform_example :
  let tf := TF (M3 (V3 (24/25) (-7/25) 0) (V3 (7/25) (24/25) 0) (V3 0 0 1)) (V3 0 0 0) in
  orthogonal (tf_rot tf) /\ simplify_transform (1/2) (VTransformation tf) = VNoTransformation.
Proof.
  cbv zeta. split.
  - split; intros i j; destruct i, j; unfold mtm, mmt, delta, mget, mrow; cbn [tf_rot r0 r1 r2 vget vx vy vz axis_eqb]; lra.
  - cbn [simplify_transform]. unfold simplify_transformation, mtrace, mget, mrow. cbn [tf_rot tf_tra r0 r1 r2 vget vx vy vz]. numR.
    destruct (Rleb_spec (3 - 1 / 2 * (1 / 2)) (24 / 25 + 24 / 25 + 1)) as [|Hc]; [|exfalso; lra].
    unfold simplify_translation. rewrite norm_vnorm, vnorm_zero. numR.
    destruct (Rleb_spec 0 (1 / 2)); [reflexivity|lra].
Qed.
