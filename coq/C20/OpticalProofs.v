(** * C20 proofs (instance R): every generated optical photon is physically valid. *)
From Coq Require Import Reals ZArith List Bool Lra Lia.
From Celer Require Import Base.Num Base.NumR Base.Stream Base.Vec3
  C15.Samplers C15.SamplersProofs C20.RotateVariants C20.Optical C20.RotateProofs.
Import ListNotations.
Local Open Scope R_scope.

Ltac numR2 := numR; unfold n2 in *; numR.

(** ** Stream plumbing *)
Lemma bind_Some {A B} (m : M R A) (f : A -> M R B) s r :
  bind m f s = Some r -> exists a s', m s = Some (a, s') /\ f a s' = Some r.
Proof.
  unfold bind. destruct (m s) as [[a s']|] eqn:E; [|discriminate].
  intros Hf. exists a, s'. split; [reflexivity|exact Hf].
Qed.
Lemma ret_Some {A} (a b : A) (s s' : list R) : ret a s = Some (b, s') -> a = b /\ s = s'.
Proof. unfold ret. intros E; inversion E; split; reflexivity. Qed.
Lemma draw_Some (s : list R) u s' : draw s = Some (u, s') -> s = u :: s'.
Proof. destruct s as [|a r]; [discriminate|]. intros E; inversion E; reflexivity. Qed.
Lemma uniform_Some a b s x s' : uniform (T:=R) a b s = Some (x, s') ->
  exists u, s = u :: s' /\ x = (b - a) * u + a.
Proof.
  destruct s as [|u r]; [discriminate|]. rewrite uniform_run. intros E; inversion E; subst.
  exists u. split; reflexivity.
Qed.
Lemma rejection_Some f fmax s b s' : rejection (T:=R) f fmax s = Some (b, s') ->
  exists u, s = u :: s' /\ b = Rltb f (fmax * u).
Proof.
  destruct s as [|u r]; [discriminate|]. intros E; inversion E; subst. exists u. split; reflexivity.
Qed.
Lemma exponential_Some l s x s' : exponential (T:=R) l s = Some (x, s') ->
  exists u, s = u :: s' /\ x = ln u * (- 1 / l).
Proof.
  destruct s as [|u r]; [discriminate|]. rewrite exponential_run. intros E; inversion E; subst.
  exists u. split; reflexivity.
Qed.
Lemma Forall_tail (P : R -> Prop) u s : Forall P (u :: s) -> P u /\ Forall P s.
Proof. intros F; inversion F; subst; split; assumption. Qed.

Ltac bindinv H :=
  let a := fresh "a" in let s := fresh "s" in let E := fresh "E" in
  apply bind_Some in H; destruct H as (a & s & E & H).
Tactic Notation "bindas" hyp(H) "as" ident(a) ident(s) ident(E) :=
  apply bind_Some in H; destruct H as (a & s & E & H).

(** ** Generic tail: position and time *)
Definition on_segment (p0 p1 p : vec3 R) : Prop :=
  exists u, 0 <= u <= 1 /\
    vx p = (1 - u) * vx p0 + u * vx p1 /\
    vy p = (1 - u) * vy p0 + u * vy p1 /\
    vz p = (1 - u) * vz p0 + u * vz p1.

Lemma photon_pos_on_segment (d : gdist) u : 0 <= u <= 1 ->
  on_segment (gd_p0 d) (gd_p1 d) (photon_pos d u).
Proof.
  intros Hu. exists u. split; [exact Hu|].
  unfold photon_pos, axpy, vsub. cbn [vx vy vz]. numR. repeat split; ring.
Qed.

Lemma photon_time_ge (k : consts) (d : gdist) u :
  0 < k_clight k -> 0 < gd_v0 d -> 0 < gd_v1 d -> 0 <= gd_len d -> 0 <= u <= 1 ->
  gd_time d <= photon_time k d u.
Proof.
  intros Hc H0 H1 HL Hu. unfold photon_time. numR2.
  set (den := gd_v0 d * k_clight k + u * (1 / 2) * ((gd_v1 d - gd_v0 d) * k_clight k)).
  assert (Hden : 0 < den).
  { unfold den.
    replace (gd_v0 d * k_clight k + u * (1 / 2) * ((gd_v1 d - gd_v0 d) * k_clight k))
      with (k_clight k * ((1 - u / 2) * gd_v0 d + u / 2 * gd_v1 d)) by field.
    apply Rmult_lt_0_compat; [exact Hc|]. nra. }
  assert (0 <= u * gd_len d / den).
  { unfold Rdiv. apply Rmult_le_pos; [nra|]. left. apply Rinv_0_lt_compat. exact Hden. }
  lra.
Qed.

(** ** Cerenkov generator *)
Definition step_dir (d : gdist (T:=R)) : vec3 R := make_unit_vector (vsub (gd_p1 d) (gd_p0 d)).
Definition step_nonzero (d : gdist (T:=R)) : Prop :=
  0 < dot (vsub (gd_p1 d) (gd_p0 d)) (vsub (gd_p1 d) (gd_p0 d)).
Definition mean_inv_beta (d : gdist (T:=R)) : R := 2 / (gd_v0 d + gd_v1 d).

Lemma cs_dir_construct k es ns d : cs_dir (ckv_construct k es ns d) = step_dir d.
Proof. reflexivity. Qed.
Lemma cs_inv_beta_construct k es ns d : cs_inv_beta (ckv_construct k es ns d) = mean_inv_beta d.
Proof. unfold ckv_construct, mean_inv_beta. cbn [cs_inv_beta]. numR. reflexivity. Qed.

Lemma ckv_energy_inner_spec es ns ib : front es <= back es ->
  forall fuel s e c s', Forall canonical s ->
  ckv_energy_inner fuel es ns ib s = Some ((e, c), s') ->
  front es <= e <= back es /\ c = ib / gcalc es ns e /\ c <= 1 /\ Forall canonical s'.
Proof.
  intros Hg. induction fuel as [|f IH]; intros s e c s' Hs Hrun; [discriminate|].
  cbn [ckv_energy_inner] in Hrun. bindinv Hrun.
  apply uniform_Some in E. destruct E as (u & -> & ->).
  apply Forall_tail in Hs. destruct Hs as [[Hu0 Hu1] Hs].
  numR. destruct (Rltb_spec 1 (ib / gcalc es ns ((back es - front es) * u + front es))) as [Hlt|Hge].
  - apply (IH _ _ _ _ Hs Hrun).
  - apply ret_Some in Hrun. destruct Hrun as [Hp ->]. inversion Hp; subst.
    split; [split; nra|]. split; [reflexivity|]. split; [lra|exact Hs].
Qed.

Lemma ckv_energy_spec es ns st : front es <= back es ->
  forall fuel big s e c s2 s', Forall canonical s ->
  ckv_energy fuel big es ns st s = Some ((e, c, s2), s') ->
  front es <= e <= back es /\ c = cs_inv_beta st / gcalc es ns e /\ c <= 1
  /\ s2 = 1 - c * c /\ Forall canonical s'.
Proof.
  intros Hg. induction fuel as [|f IH]; intros big s e c s2 s' Hs Hrun; [discriminate|].
  cbn [ckv_energy] in Hrun. bindinv Hrun. destruct a as [e1 c1].
  destruct (ckv_energy_inner_spec es ns _ Hg _ _ _ _ _ Hs E) as (He & Hc & Hc1 & Hs0).
  bindinv Hrun. apply rejection_Some in E0. destruct E0 as (u & -> & ->).
  apply Forall_tail in Hs0. destruct Hs0 as [_ Hs1].
  destruct (Rltb _ _).
  - apply (IH _ _ _ _ _ _ Hs1 Hrun).
  - apply ret_Some in Hrun. destruct Hrun as [Hp ->]. inversion Hp; subst.
    numR. repeat split; try assumption; try lra.
Qed.

Lemma ckv_fraction_spec st : forall fuel s u s', Forall canonical s ->
  ckv_fraction fuel st s = Some (u, s') -> canonical u /\ Forall canonical s'.
Proof.
  induction fuel as [|f IH]; intros s u s' Hs Hrun; [discriminate|].
  cbn [ckv_fraction] in Hrun. bindinv Hrun.
  apply uniform_Some in E. destruct E as (u1 & -> & ->).
  apply Forall_tail in Hs. destruct Hs as [Hu Hs].
  bindinv Hrun. apply uniform_Some in E. destruct E as (u2 & -> & ->).
  apply Forall_tail in Hs. destruct Hs as [_ Hs].
  destruct (nltb _ _).
  - apply (IH _ _ _ Hs Hrun).
  - apply ret_Some in Hrun. destruct Hrun as [<- ->]. numR.
    split; [|exact Hs]. unfold canonical in *. lra.
Qed.

(** everything the theorems need about one Cerenkov photon *)
Record ckv_photon_facts (rotf : vec3 R -> vec3 R -> vec3 R) (k : consts) (es ns : list R) (d : gdist) (p : photon)
    (cf_c cf_phi cf_u : R) : Prop := {
  cf_energy : front es <= ph_energy p <= back es;
  cf_cos : cf_c = mean_inv_beta d / gcalc es ns (ph_energy p);
  cf_cos_le : cf_c <= 1;
  cf_u_canon : canonical cf_u;
  cf_dir : ph_dir p = rotf (from_spherical cf_c cf_phi) (step_dir d);
  cf_pol : ph_pol p = rotf (from_spherical (- sqrt (1 - cf_c * cf_c)) cf_phi) (step_dir d);
  cf_pos : ph_pos p = photon_pos d cf_u;
  cf_time : ph_time p = photon_time k d cf_u }.

Lemma ckv_photon_spec rotf k es ns d s p s' :
  front es <= back es -> Forall canonical s ->
  ckv_photon_with rotf k es ns d (ckv_construct k es ns d) s = Some (p, s') ->
  (exists c phi u, ckv_photon_facts rotf k es ns d p c phi u) /\ Forall canonical s'.
Proof.
  intros Hg Hs Hrun. unfold ckv_photon_with in Hrun. bindinv Hrun.
  destruct a as [[e c] s2].
  destruct (ckv_energy_spec es ns _ Hg _ _ _ _ _ _ _ Hs E) as (He & Hc & Hc1 & Hs2 & Hs0).
  bindinv Hrun. apply uniform_Some in E0. destruct E0 as (uphi & -> & Hphi).
  apply Forall_tail in Hs0. destruct Hs0 as [_ Hs1].
  bindinv Hrun. destruct (ckv_fraction_spec _ _ _ _ _ Hs1 E0) as [Hu Hs3].
  apply ret_Some in Hrun. destruct Hrun as [<- ->].
  split; [|exact Hs3].
  rewrite cs_inv_beta_construct in Hc.
  exists c, a, a0.
  constructor; cbn [ph_energy ph_dir ph_pol ph_pos ph_time]; try assumption; try reflexivity.
  rewrite cs_dir_construct. numR. rewrite Hs2. reflexivity.
Qed.

(** hypotheses on the physical inputs of the Cerenkov generator *)
Record ckv_inputs_ok (es ns : list R) (d : gdist (T:=R)) : Prop := {
  ci_grid : front es <= back es;
  ci_npos : forall e, front es <= e <= back es -> 0 < gcalc es ns e;
  ci_v0 : 0 < gd_v0 d; ci_v1 : 0 < gd_v1 d;
  ci_step : step_nonzero d }.

Lemma step_dir_unit d : step_nonzero d -> unit3 (step_dir d).
Proof. apply make_unit_vector_is_unit. Qed.

Lemma from_spherical_unit3 c p : -1 <= c <= 1 -> unit3 (from_spherical c p).
Proof. apply from_spherical_unit. Qed.

Section CkvPhoton.
  Variables (rotf : vec3 R -> vec3 R -> vec3 R) (k : consts (T:=R)) (es ns : list R)
            (d : gdist (T:=R)) (p : photon (T:=R)).
  Hypothesis Hin : ckv_inputs_ok es ns d.
  Hypothesis Hiso : rot_isometry rotf (step_dir d).
  Variables (c phi u : R).
  Hypothesis Hf : ckv_photon_facts rotf k es ns d p c phi u.

  Lemma cf_c_range : 0 < c <= 1.
  Proof.
    split; [|apply (cf_cos_le _ _ _ _ _ _ _ _ _ Hf)]. rewrite (cf_cos _ _ _ _ _ _ _ _ _ Hf).
    pose proof (ci_npos _ _ _ Hin _ (cf_energy _ _ _ _ _ _ _ _ _ Hf)) as Hn.
    pose proof (ci_v0 _ _ _ Hin). pose proof (ci_v1 _ _ _ Hin).
    unfold mean_inv_beta. apply Rdiv_lt_0_compat; [|exact Hn].
    apply Rdiv_lt_0_compat; lra.
  Qed.

  Lemma ckv_dir_unit : unit3 (ph_dir p).
  Proof.
    rewrite (cf_dir _ _ _ _ _ _ _ _ _ Hf). apply (proj1 Hiso).
    apply from_spherical_unit3. pose proof cf_c_range. lra.
  Qed.

  Lemma sin_range : -1 <= - sqrt (1 - c * c) <= 0.
  Proof.
    pose proof cf_c_range as Hc.
    assert (H0 : 0 <= 1 - c * c) by nra.
    pose proof (sqrt_pos (1 - c * c)). pose proof (sqrt_sqrt _ H0).
    split; [|lra]. nra.
  Qed.

  Lemma ckv_pol_unit : unit3 (ph_pol p).
  Proof.
    rewrite (cf_pol _ _ _ _ _ _ _ _ _ Hf). apply (proj1 Hiso).
    apply from_spherical_unit3. pose proof sin_range. lra.
  Qed.

  Lemma ckv_pol_perp_dir : dot (ph_pol p) (ph_dir p) = 0.
  Proof.
    rewrite (cf_pol _ _ _ _ _ _ _ _ _ Hf), (cf_dir _ _ _ _ _ _ _ _ _ Hf).
    pose proof cf_c_range as Hc. pose proof sin_range as Hsr.
    rewrite (proj2 Hiso).
    2:{ apply from_spherical_unit3. lra. }
    2:{ apply from_spherical_unit3. lra. }
    
    rewrite dot_R. unfold from_spherical. cbn [vx vy vz]. numR.
    assert (H0 : 0 <= 1 - c * c) by nra.
    pose proof (sqrt_sqrt _ H0) as Hss. set (sn := sqrt (1 - c * c)) in *.
    replace (1 - - sn * - sn) with (c * c) by lra.
    replace (sqrt (c * c)) with c by (symmetry; apply sqrt_square; lra).
    pose proof (sin2_cos2 phi) as Htrig. unfold Rsqr in Htrig.
    replace (c * cos phi * (sn * cos phi) + c * sin phi * (sn * sin phi) + - sn * c)
      with (c * sn * (sin phi * sin phi + cos phi * cos phi) - sn * c) by ring.
    rewrite Htrig. ring.
  Qed.

  (** on the Cerenkov cone about the step direction, cos(theta) = 1/(n(E) beta_mean) *)
  Lemma ckv_on_cone : rot_polar rotf (step_dir d) ->
    dot (ph_dir p) (step_dir d) = mean_inv_beta d / gcalc es ns (ph_energy p)
    /\ 0 < dot (ph_dir p) (step_dir d) <= 1.
  Proof.
    intros Hg. rewrite (cf_dir _ _ _ _ _ _ _ _ _ Hf).
    pose proof cf_c_range as Hc.
    rewrite Hg.
    2:{ apply from_spherical_unit3. lra. }
    unfold from_spherical. cbn [vz]. split; [apply (cf_cos _ _ _ _ _ _ _ _ _ Hf)|exact Hc].
  Qed.

  Lemma ckv_on_segment : on_segment (gd_p0 d) (gd_p1 d) (ph_pos p).
  Proof.
    rewrite (cf_pos _ _ _ _ _ _ _ _ _ Hf). apply photon_pos_on_segment.
    pose proof (cf_u_canon _ _ _ _ _ _ _ _ _ Hf) as Hu. unfold canonical in Hu. lra.
  Qed.

  Lemma ckv_time_ge : 0 < k_clight k -> 0 <= gd_len d -> gd_time d <= ph_time p.
  Proof.
    intros Hc HL. rewrite (cf_time _ _ _ _ _ _ _ _ _ Hf).
    pose proof (cf_u_canon _ _ _ _ _ _ _ _ _ Hf) as Hu. unfold canonical in Hu.
    apply photon_time_ge; try assumption; try apply Hin. lra.
  Qed.
End CkvPhoton.

(** ** Theorems about the generator as run on a stream, for any rotation
    function that is an isometry about the step direction *)
Section WithRot.
  Variable rotf : vec3 R -> vec3 R -> vec3 R.
  Variables (k : consts (T:=R)) (es ns : list R) (d : gdist (T:=R)) (s : list R) (p : photon (T:=R)) (s' : list R).
  Hypothesis Hrun : ckv_photon_with rotf k es ns d (ckv_construct k es ns d) s = Some (p, s').
  Hypothesis Hs : Forall canonical s.

  Lemma with_dir_pol : ckv_inputs_ok es ns d -> rot_isometry rotf (step_dir d) ->
    dot (ph_dir p) (ph_dir p) = 1 /\ dot (ph_pol p) (ph_pol p) = 1 /\ dot (ph_pol p) (ph_dir p) = 0.
  Proof.
    intros Hin Hiso.
    destruct (ckv_photon_spec _ _ _ _ _ _ _ _ (ci_grid _ _ _ Hin) Hs Hrun) as [(c & phi & u & Hf) _].
    split; [exact (ckv_dir_unit _ _ _ _ _ _ Hin Hiso _ _ _ Hf)|].
    split; [exact (ckv_pol_unit _ _ _ _ _ _ Hin Hiso _ _ _ Hf)|].
    exact (ckv_pol_perp_dir _ _ _ _ _ _ Hin Hiso _ _ _ Hf).
  Qed.

  Lemma with_on_cone : ckv_inputs_ok es ns d -> rot_polar rotf (step_dir d) ->
    dot (ph_dir p) (step_dir d) = mean_inv_beta d / gcalc es ns (ph_energy p)
    /\ 0 < dot (ph_dir p) (step_dir d) <= 1.
  Proof.
    intros Hin Hpol.
    destruct (ckv_photon_spec _ _ _ _ _ _ _ _ (ci_grid _ _ _ Hin) Hs Hrun) as [(c & phi & u & Hf) _].
    exact (ckv_on_cone _ _ _ _ _ _ Hin _ _ _ Hf Hpol).
  Qed.

  Lemma with_energy_in_grid : front es <= back es -> front es <= ph_energy p <= back es.
  Proof.
    intros Hg.
    destruct (ckv_photon_spec _ _ _ _ _ _ _ _ Hg Hs Hrun) as [(c & phi & u & Hf) _].
    exact (cf_energy _ _ _ _ _ _ _ _ _ Hf).
  Qed.

  Lemma with_on_segment : front es <= back es -> on_segment (gd_p0 d) (gd_p1 d) (ph_pos p).
  Proof.
    intros Hg.
    destruct (ckv_photon_spec _ _ _ _ _ _ _ _ Hg Hs Hrun) as [(c & phi & u & Hf) _].
    exact (ckv_on_segment _ _ _ _ _ _ _ _ _ Hf).
  Qed.

  Lemma with_time_ge_pre : ckv_inputs_ok es ns d -> 0 < k_clight k -> 0 <= gd_len d -> gd_time d <= ph_time p.
  Proof.
    intros Hin Hc HL.
    destruct (ckv_photon_spec _ _ _ _ _ _ _ _ (ci_grid _ _ _ Hin) Hs Hrun) as [(c & phi & u & Hf) _].
    exact (ckv_time_ge _ _ _ _ _ _ Hin _ _ _ Hf Hc HL).
  Qed.
End WithRot.

(** for the current source (Base/Vec3.v [rotate]) *)
Lemma cerenkov_dir_unit min_acc k es ns d s p s' :
  0 < min_acc -> ckv_inputs_ok es ns d -> Forall canonical s ->
  ckv_photon min_acc k es ns d (ckv_construct k es ns d) s = Some (p, s') ->
  dot (ph_dir p) (ph_dir p) = 1.
Proof.
  intros Hacc Hin Hs Hrun.
  apply (with_dir_pol _ _ _ _ _ _ _ _ Hrun Hs Hin).
  apply rotate_base_isometry; [exact Hacc|apply step_dir_unit; apply Hin].
Qed.

Lemma cerenkov_pol_unit min_acc k es ns d s p s' :
  0 < min_acc -> ckv_inputs_ok es ns d -> Forall canonical s ->
  ckv_photon min_acc k es ns d (ckv_construct k es ns d) s = Some (p, s') ->
  dot (ph_pol p) (ph_pol p) = 1.
Proof.
  intros Hacc Hin Hs Hrun.
  apply (with_dir_pol _ _ _ _ _ _ _ _ Hrun Hs Hin).
  apply rotate_base_isometry; [exact Hacc|apply step_dir_unit; apply Hin].
Qed.

Lemma cerenkov_pol_perp_dir min_acc k es ns d s p s' :
  0 < min_acc -> ckv_inputs_ok es ns d -> Forall canonical s ->
  ckv_photon min_acc k es ns d (ckv_construct k es ns d) s = Some (p, s') ->
  dot (ph_pol p) (ph_dir p) = 0.
Proof.
  intros Hacc Hin Hs Hrun.
  apply (with_dir_pol _ _ _ _ _ _ _ _ Hrun Hs Hin).
  apply rotate_base_isometry; [exact Hacc|apply step_dir_unit; apply Hin].
Qed.

Lemma cerenkov_on_cone min_acc k es ns d s p s' :
  0 < min_acc -> ckv_inputs_ok es ns d -> Forall canonical s ->
  good_axis min_acc (step_dir d) ->
  ckv_photon min_acc k es ns d (ckv_construct k es ns d) s = Some (p, s') ->
  dot (ph_dir p) (step_dir d) = mean_inv_beta d / gcalc es ns (ph_energy p)
  /\ 0 < dot (ph_dir p) (step_dir d) <= 1.
Proof.
  intros Hacc Hin Hs Hg Hrun.
  apply (with_on_cone _ _ _ _ _ _ _ _ Hrun Hs Hin).
  apply rotate_base_polar; [exact Hacc|apply step_dir_unit; apply Hin|exact Hg].
Qed.

(** for the candidate repair [rotate_new] (NOT in the tree): on the cone for EVERY step direction *)
Lemma cerenkov_on_cone_repaired min_acc k es ns d s p s' :
  0 < min_acc -> ckv_inputs_ok es ns d -> Forall canonical s ->
  ckv_photon_with (rotate_new min_acc) k es ns d (ckv_construct k es ns d) s = Some (p, s') ->
  (dot (ph_dir p) (step_dir d) = mean_inv_beta d / gcalc es ns (ph_energy p)
   /\ 0 < dot (ph_dir p) (step_dir d) <= 1)
  /\ dot (ph_dir p) (ph_dir p) = 1 /\ dot (ph_pol p) (ph_pol p) = 1 /\ dot (ph_pol p) (ph_dir p) = 0.
Proof.
  intros Hacc Hin Hs Hrun.
  pose proof (step_dir_unit d (ci_step _ _ _ Hin)) as Hu.
  split.
  - apply (with_on_cone _ _ _ _ _ _ _ _ Hrun Hs Hin). apply rotate_new_polar; assumption.
  - apply (with_dir_pol _ _ _ _ _ _ _ _ Hrun Hs Hin). apply rotate_new_isometry; assumption.
Qed.

Lemma cerenkov_energy_in_grid min_acc k es ns d s p s' :
  front es <= back es -> Forall canonical s ->
  ckv_photon min_acc k es ns d (ckv_construct k es ns d) s = Some (p, s') ->
  front es <= ph_energy p <= back es.
Proof. intros Hg Hs Hrun. exact (with_energy_in_grid _ _ _ _ _ _ _ _ Hrun Hs Hg). Qed.

Lemma cerenkov_on_segment min_acc k es ns d s p s' :
  front es <= back es -> Forall canonical s ->
  ckv_photon min_acc k es ns d (ckv_construct k es ns d) s = Some (p, s') ->
  on_segment (gd_p0 d) (gd_p1 d) (ph_pos p).
Proof. intros Hg Hs Hrun. exact (with_on_segment _ _ _ _ _ _ _ _ Hrun Hs Hg). Qed.

Lemma cerenkov_time_ge_pre min_acc k es ns d s p s' :
  ckv_inputs_ok es ns d -> 0 < k_clight k -> 0 <= gd_len d -> Forall canonical s ->
  ckv_photon min_acc k es ns d (ckv_construct k es ns d) s = Some (p, s') ->
  gd_time d <= ph_time p.
Proof. intros Hin Hc HL Hs Hrun. exact (with_time_ge_pre _ _ _ _ _ _ _ _ Hrun Hs Hin Hc HL). Qed.

(** ** Threshold: below it dN/dx = 0 and the offload requests no photons and
    consumes no random numbers *)
Lemma dndx_below_threshold k es ns charge beta :
  gcalc es ns (back es) < 1 / beta -> dndx k es ns charge beta = 0.
Proof.
  intros Hlt. unfold dndx. numR.
  replace (Rltb (gcalc es ns (back es)) (1 / beta)) with true by (symmetry; apply Rltb_true; exact Hlt).
  reflexivity.
Qed.

Lemma dndx_nonneg k es ns charge beta : 0 <= dndx k es ns charge beta.
Proof.
  unfold dndx, clamp_to_nonneg. numR.
  destruct (Rltb _ _); [lra|].
  match goal with |- 0 <= (if Rltb ?a 0 then 0 else ?a) => destruct (Rltb_spec a 0); lra end.
Qed.

Lemma cerenkov_none_below_threshold k es ns charge len v0 v1 s :
  gcalc es ns (back es) < 1 / ((v0 + v1) / 2) ->
  ckv_offload k es ns charge len v0 v1 s = Some (0%Z, s).
Proof.
  intros Hlt. unfold ckv_offload. numR2.
  rewrite dndx_below_threshold.
  - replace (Reqb 0 0) with true by (symmetry; apply Reqb_true; reflexivity). reflexivity.
  - replace (1 / 2 * (v0 + v1)) with ((v0 + v1) / 2) by field. exact Hlt.
Qed.

(** ... and the generator's own pre/post dN/dx are zero below threshold too *)
Lemma ckv_construct_below_threshold k es ns d :
  gcalc es ns (back es) < 1 / gd_v0 d -> gcalc es ns (back es) < 1 / gd_v1 d ->
  cs_dndx_max (ckv_construct k es ns d) = 0.
Proof.
  intros H0 H1. unfold ckv_construct. cbn [cs_dndx_max].
  rewrite !dndx_below_threshold by assumption. numR. destruct (Rltb 0 0); reflexivity.
Qed.

(** ** Scintillation *)
Lemma ln_le_0 u : u < 1 -> ln u <= 0.
Proof.
  intros Hu. destruct (Rlt_dec 0 u) as [Hpos|Hneg].
  - left. rewrite <- ln_1. apply ln_increasing; lra.
  - unfold ln. destruct (Rlt_dec 0 u); [contradiction|lra].
Qed.

Lemma exponential_nonneg l s x s' : 0 < l -> Forall canonical s ->
  exponential (T:=R) l s = Some (x, s') -> 0 <= x /\ Forall canonical s'.
Proof.
  intros Hl Hs Hrun. apply exponential_Some in Hrun. destruct Hrun as (u & -> & ->).
  apply Forall_tail in Hs. destruct Hs as [[Hu0 Hu1] Hs]. split; [|exact Hs].
  pose proof (ln_le_0 u Hu1) as Hln.
  assert (0 < / l) by (apply Rinv_0_lt_compat; exact Hl).
  unfold Rdiv. nra.
Qed.

Lemma scint_risefall_spec rise fall : 0 < fall -> forall fuel s t s', Forall canonical s ->
  scint_risefall fuel rise fall s = Some (t, s') -> 0 <= t /\ Forall canonical s'.
Proof.
  intros Hf. induction fuel as [|f IH]; intros s t s' Hs Hrun; [discriminate|].
  cbn [scint_risefall] in Hrun. bindinv Hrun.
  assert (Hl : 0 < n1 / fall) by (numR; apply Rdiv_lt_0_compat; lra).
  destruct (exponential_nonneg _ _ _ _ Hl Hs E) as [Ha Hs0].
  bindinv Hrun. apply rejection_Some in E0. destruct E0 as (u & -> & ->).
  apply Forall_tail in Hs0. destruct Hs0 as [_ Hs1].
  destruct (Rltb _ _).
  - apply (IH _ _ _ Hs1 Hrun).
  - apply ret_Some in Hrun. destruct Hrun as [<- ->]. split; assumption.
Qed.

(** the two vectors mixed into the polarisation are unit and perpendicular to
    each other and to the direction, for both signs of cos(theta) *)
Lemma scint_pol_facts cost phi w : -1 <= cost <= 1 ->
  unit3 (scint_pol cost phi w) /\ dot (scint_pol cost phi w) (from_spherical cost phi) = 0.
Proof.
  intros Hc. unfold scint_pol.
  set (sgn := if nltb n0 cost then nneg n1 else n1).
  set (raw := V3 _ _ _).
  assert (H0 : 0 <= 1 - cost * cost) by nra.
  pose proof (sqrt_sqrt _ H0) as Hss. pose proof (sqrt_pos (1 - cost * cost)) as Hsp.
  pose proof (sin2_cos2 phi) as Htrig. unfold Rsqr in Htrig.
  pose proof (sin2_cos2 (npi * w)) as Htw. unfold Rsqr in Htw.
  assert (Hsg : sgn * sgn = 1 /\ sgn * cost = - Rabs cost).
  { unfold sgn. numR. destruct (Rltb_spec 0 cost).
    - split; [ring|]. rewrite Rabs_right by lra. ring.
    - split; [ring|]. rewrite Rabs_left1 by lra. ring. }
  destruct Hsg as [Hsg1 Hsg2].
  assert (Hq : sqrt (1 - (sgn * sqrt (1 - cost * cost)) * (sgn * sqrt (1 - cost * cost))) = Rabs cost).
  { replace (1 - sgn * sqrt (1 - cost * cost) * (sgn * sqrt (1 - cost * cost)))
      with (1 - (sgn * sgn) * (sqrt (1 - cost * cost) * sqrt (1 - cost * cost))) by ring.
    rewrite Hsg1, Hss. replace (1 - 1 * (1 - cost * cost)) with (Rsqr cost) by (unfold Rsqr; ring).
    apply sqrt_Rsqr_abs. }
  assert (Habs : Rabs cost * Rabs cost = cost * cost).
  { unfold Rabs. destruct (Rcase_abs cost); ring. }
  assert (Hraw_unit : unit3 raw).
  { apply unit3_R. unfold raw, from_spherical. cbn [vx vy vz]. numR. rewrite Hq.
    set (sn := sqrt (1 - cost * cost)) in *. set (a := Rabs cost) in *.
    set (cw := cos (npi * w)) in *. set (sw := sin (npi * w)) in *.
    replace ((cw * (a * cos phi) + sw * - sin phi) * (cw * (a * cos phi) + sw * - sin phi)
             + (cw * (a * sin phi) + sw * cos phi) * (cw * (a * sin phi) + sw * cos phi)
             + (cw * (sgn * sn) + sw * 0) * (cw * (sgn * sn) + sw * 0))
      with (cw * cw * (a * a) * (sin phi * sin phi + cos phi * cos phi)
            + sw * sw * (sin phi * sin phi + cos phi * cos phi)
            + cw * cw * ((sgn * sgn) * (sn * sn))) by ring.
    rewrite Htrig, Hsg1, Hss, Habs.
    replace (cw * cw * (cost * cost) * 1 + sw * sw * 1 + cw * cw * (1 * (1 - cost * cost)))
      with (sw * sw + cw * cw) by ring.
    exact Htw. }
  rewrite (make_unit_vector_unit raw Hraw_unit).
  split; [exact Hraw_unit|].
  rewrite dot_R. unfold raw, from_spherical. cbn [vx vy vz]. numR. rewrite Hq.
  set (sn := sqrt (1 - cost * cost)) in *. set (a := Rabs cost) in *.
  set (cw := cos (npi * w)) in *. set (sw := sin (npi * w)) in *.
  replace ((cw * (a * cos phi) + sw * - sin phi) * (sn * cos phi)
           + (cw * (a * sin phi) + sw * cos phi) * (sn * sin phi)
           + (cw * (sgn * sn) + sw * 0) * cost)
    with (cw * sn * (a * (sin phi * sin phi + cos phi * cos phi) + sgn * cost)) by ring.
  rewrite Htrig, Hsg2. unfold a. ring.
Qed.

Record scint_inputs_ok (k : consts (T:=R)) (cs : list (scomp (T:=R))) (d : gdist (T:=R)) : Prop := {
  si_comps : Forall (fun c => 0 < sc_fall c) cs;
  si_nonempty : cs <> [];
  si_c : 0 < k_clight k; si_hc : 0 < k_hc k; si_mev : 0 < k_mev k;
  si_v0 : 0 < gd_v0 d; si_v1 : 0 < gd_v1 d; si_len : 0 <= gd_len d }.

Record scint_photon_facts (k : consts (T:=R)) (cs : list (scomp (T:=R))) (d : gdist (T:=R)) (p : photon (T:=R))
    (sf_lambda sf_cost sf_phi sf_w sf_u sf_dt : R) : Prop := {
  sf_energy : ph_energy p = k_hc k / sf_lambda / k_mev k;
  sf_cost_range : -1 <= sf_cost <= 1;
  sf_dir : ph_dir p = from_spherical sf_cost sf_phi;
  sf_pol : ph_pol p = scint_pol sf_cost sf_phi sf_w;
  sf_u_range : 0 <= sf_u <= 1;
  sf_pos : ph_pos p = photon_pos d sf_u;
  sf_dt_nonneg : 0 <= sf_dt;
  sf_time : ph_time p = photon_time k d sf_u + sf_dt }.

Lemma scint_photon_spec k cs d spare s p spare' s' :
  scint_inputs_ok k cs d -> Forall canonical s ->
  scint_photon k cs d spare s = Some ((p, spare'), s') ->
  exists idx st,
    (idx < length cs)%nat /\
    (exists lambda cost phi w u dt, scint_photon_facts k cs d p lambda cost phi w u dt /\
      normal_step (sc_mean (nth idx cs (SComp 0 0 0 0 0))) (sc_sigma (nth idx cs (SComp 0 0 0 0 0)))
                  spare (tl s) = Some ((lambda, spare'), st))
    /\ Forall canonical s'.
Proof.
  intros Hin Hs Hrun. unfold scint_photon in Hrun.
  bindas Hrun as idx sa Esel.
  destruct s as [|usel s1]; [discriminate|].
  assert (Hidx : (idx < length cs)%nat /\ sa = s1).
  { unfold selector, bind, draw, ret in Esel. inversion Esel; subst. split; [|reflexivity].
    pose proof (selector_loop_bound (yield_pdf cs) 0 (nmul (nneg n1) usel)) as Hb.
    assert (Hlen : length (yield_pdf cs) = length cs) by (unfold yield_pdf; apply map_length).
    rewrite Hlen in Hb.
    assert (Hne : yield_pdf cs <> []).
    { unfold yield_pdf. intros Hnil. apply map_eq_nil in Hnil. exact (si_nonempty _ _ _ Hin Hnil). }
    destruct (Hb Hne) as [_ Hb2]. exact Hb2. }
  destruct Hidx as [Hidx ->]. clear Esel.
  apply Forall_tail in Hs. destruct Hs as [_ Hs1].
  set (comp := nth idx cs (SComp n0 n0 n0 n0 n0)) in *.
  bindas Hrun as ls sb Enorm. destruct ls as [lambda sp'].
  assert (Hsb : Forall canonical sb).
  { destruct spare as [sp|]; cbn [normal_step] in Enorm.
    - apply ret_Some in Enorm. destruct Enorm as [_ <-]. exact Hs1.
    - bindas Enorm as u1 t1 Ed1. apply draw_Some in Ed1. subst s1.
      bindas Enorm as u2 t2 Ed2. apply draw_Some in Ed2. subst t1.
      apply ret_Some in Enorm. destruct Enorm as [_ <-].
      apply Forall_tail in Hs1. destruct Hs1 as [_ Hs1].
      apply Forall_tail in Hs1. destruct Hs1 as [_ Hs1]. exact Hs1. }
  bindas Hrun as cost sc Ec. apply uniform_Some in Ec. destruct Ec as (uc & -> & Hcost).
  apply Forall_tail in Hsb. destruct Hsb as [[Huc0 Huc1] Hsc].
  bindas Hrun as phi sd Ep. apply uniform_Some in Ep. destruct Ep as (up & -> & Hphi).
  apply Forall_tail in Hsc. destruct Hsc as [_ Hsd].
  bindas Hrun as w se Ew. apply uniform_Some in Ew. destruct Ew as (uw & -> & Hw).
  apply Forall_tail in Hsd. destruct Hsd as [_ Hse].
  bindas Hrun as u sf Eu.
  assert (Hu : 0 <= u <= 1 /\ Forall canonical sf).
  { destruct (neqb (gd_charge d) n0).
    - apply ret_Some in Eu. destruct Eu as [<- <-]. numR. split; [lra|exact Hse].
    - apply uniform_Some in Eu. destruct Eu as (uu & -> & ->).
      apply Forall_tail in Hse. destruct Hse as [[Hu0 Hu1] Hsf]. numR. split; [lra|exact Hsf]. }
  destruct Hu as [Hu Hsf].
  bindas Hrun as dt sg Edt.
  assert (Hfall : 0 < sc_fall comp).
  { pose proof (si_comps _ _ _ Hin) as Hall. rewrite Forall_forall in Hall.
    apply Hall. unfold comp. apply nth_In. exact Hidx. }
  assert (Hdt : 0 <= dt /\ Forall canonical sg).
  { destruct (neqb (sc_rise comp) n0).
    - apply (exponential_nonneg (n1 / sc_fall comp) sf); try assumption.
      numR. apply Rdiv_lt_0_compat; lra.
    - apply (scint_risefall_spec _ _ Hfall _ _ _ _ Hsf Edt). }
  destruct Hdt as [Hdt Hsg].
  apply ret_Some in Hrun. destruct Hrun as [Hp <-]. inversion Hp; subst p spare'.
  exists idx, (uc :: up :: uw :: se). split; [exact Hidx|]. split; [|exact Hsg].
  assert (Hcr : -1 <= cost <= 1) by (rewrite Hcost; numR; nra).
  exists lambda, cost, phi, w, u, dt. split.
  { constructor; cbn [ph_energy ph_dir ph_pol ph_pos ph_time]; try assumption; try reflexivity. }
  cbn [tl]. exact Enorm.
Qed.

Section ScintPhoton.
  Variables (k : consts (T:=R)) (cs : list (scomp (T:=R))) (d : gdist (T:=R)) (p : photon (T:=R)).
  Hypothesis Hin : scint_inputs_ok k cs d.
  Variables (lambda cost phi w u dt : R).
  Hypothesis Hf : scint_photon_facts k cs d p lambda cost phi w u dt.

  Lemma sc_dir_unit : unit3 (ph_dir p).
  Proof. rewrite (sf_dir _ _ _ _ _ _ _ _ _ _ Hf). apply from_spherical_unit3. apply (sf_cost_range _ _ _ _ _ _ _ _ _ _ Hf). Qed.
  Lemma sc_pol_unit : unit3 (ph_pol p).
  Proof. rewrite (sf_pol _ _ _ _ _ _ _ _ _ _ Hf). apply scint_pol_facts. apply (sf_cost_range _ _ _ _ _ _ _ _ _ _ Hf). Qed.
  Lemma sc_pol_perp_dir : dot (ph_pol p) (ph_dir p) = 0.
  Proof.
    rewrite (sf_pol _ _ _ _ _ _ _ _ _ _ Hf), (sf_dir _ _ _ _ _ _ _ _ _ _ Hf).
    apply scint_pol_facts. apply (sf_cost_range _ _ _ _ _ _ _ _ _ _ Hf).
  Qed.
  Lemma sc_on_segment : on_segment (gd_p0 d) (gd_p1 d) (ph_pos p).
  Proof. rewrite (sf_pos _ _ _ _ _ _ _ _ _ _ Hf). apply photon_pos_on_segment. apply (sf_u_range _ _ _ _ _ _ _ _ _ _ Hf). Qed.
  Lemma sc_time_ge : gd_time d <= ph_time p.
  Proof.
    rewrite (sf_time _ _ _ _ _ _ _ _ _ _ Hf). pose proof (sf_dt_nonneg _ _ _ _ _ _ _ _ _ _ Hf).
    pose proof (photon_time_ge k d _ (si_c _ _ _ Hin) (si_v0 _ _ _ Hin) (si_v1 _ _ _ Hin)
                  (si_len _ _ _ Hin) (sf_u_range _ _ _ _ _ _ _ _ _ _ Hf)). lra.
  Qed.
  Lemma sc_energy_positive : 0 < lambda -> 0 < ph_energy p.
  Proof.
    intros Hl. rewrite (sf_energy _ _ _ _ _ _ _ _ _ _ Hf).
    apply Rdiv_lt_0_compat; [|apply Hin]. apply Rdiv_lt_0_compat; [apply Hin|exact Hl].
  Qed.
End ScintPhoton.

(** the photon's energy is hc / lambda with lambda the wavelength drawn from the
    component's normal law; positive iff that draw is positive *)
Lemma scint_photon_valid k cs d spare s p spare' s' :
  scint_inputs_ok k cs d -> Forall canonical s ->
  scint_photon k cs d spare s = Some ((p, spare'), s') ->
  dot (ph_dir p) (ph_dir p) = 1 /\ dot (ph_pol p) (ph_pol p) = 1 /\ dot (ph_pol p) (ph_dir p) = 0
  /\ on_segment (gd_p0 d) (gd_p1 d) (ph_pos p) /\ gd_time d <= ph_time p
  /\ exists idx lambda st,
       (idx < length cs)%nat /\
       normal_step (sc_mean (nth idx cs (SComp 0 0 0 0 0))) (sc_sigma (nth idx cs (SComp 0 0 0 0 0)))
                   spare (tl s) = Some ((lambda, spare'), st) /\
       ph_energy p = k_hc k / lambda / k_mev k /\ (0 < lambda -> 0 < ph_energy p).
Proof.
  intros Hin Hs Hrun.
  destruct (scint_photon_spec _ _ _ _ _ _ _ _ Hin Hs Hrun) as (idx & st & Hidx & (lambda & cost & phi & w & u & dt & Hf & Hn) & _).
  split; [exact (sc_dir_unit _ _ _ _ _ _ _ _ _ _ Hf)|].
  split; [exact (sc_pol_unit _ _ _ _ _ _ _ _ _ _ Hf)|].
  split; [exact (sc_pol_perp_dir _ _ _ _ _ _ _ _ _ _ Hf)|].
  split; [exact (sc_on_segment _ _ _ _ _ _ _ _ _ _ Hf)|].
  split; [exact (sc_time_ge _ _ _ _ Hin _ _ _ _ _ _ Hf)|].
  exists idx, lambda, st.
  split; [exact Hidx|]. split; [exact Hn|]. split; [apply (sf_energy _ _ _ _ _ _ _ _ _ _ Hf)|].
  apply (sc_energy_positive _ _ _ _ Hin _ _ _ _ _ _ Hf).
Qed.

(** ** GenericCalculator: the interpolated value is positive when the
    tabulated values are (no ordering of the grid is needed for this) *)
Lemma lb_lt : forall (xs : list R) x j, (j < lower_bound xs x)%nat -> nthT j xs < x.
Proof.
  induction xs as [|a r IH]; intros x j Hj; cbn [lower_bound] in Hj; [lia|].
  numR. destruct (Rltb_spec a x) as [Hax|Hax]; [|lia].
  destruct j as [|j]; [exact Hax|]. unfold nthT. cbn [nth]. apply IH. lia.
Qed.
Lemma lb_ge : forall (xs : list R) x, (lower_bound xs x < length xs)%nat ->
  x <= nthT (lower_bound xs x) xs.
Proof.
  induction xs as [|a r IH]; intros x Hl; cbn [length] in Hl; [lia|].
  cbn [lower_bound] in *. numR. destruct (Rltb_spec a x) as [Hax|Hax].
  - unfold nthT. cbn [nth]. apply IH. lia.
  - unfold nthT. cbn [nth]. lra.
Qed.
Lemma lb_le_len : forall (xs : list R) x, (lower_bound xs x <= length xs)%nat.
Proof.
  induction xs as [|a r IH]; intros x; cbn [lower_bound length]; [lia|].
  destruct (nltb a x); [specialize (IH x)|]; lia.
Qed.
Lemma back_nth (xs : list R) : xs <> [] -> back xs = nthT (length xs - 1) xs.
Proof.
  intros Hne. unfold back, nthT. induction xs as [|a r IH]; [congruence|].
  destruct r as [|b r']; [reflexivity|].
  change (last (a :: b :: r') n0) with (last (b :: r') n0). rewrite IH by discriminate.
  cbn [length]. replace (S (S (length r')) - 1)%nat with (S (length r'))%nat by lia.
  cbn [nth]. replace (S (length r') - 1)%nat with (length r') by lia. reflexivity.
Qed.
Lemma nth_pos (ys : list R) i : Forall (fun y => 0 < y) ys -> (i < length ys)%nat -> 0 < nthT i ys.
Proof. intros Hall Hi. rewrite Forall_forall in Hall. apply Hall. apply nth_In. exact Hi. Qed.

Lemma gcalc_pos (xs ys : list R) x :
  xs <> [] -> length xs = length ys -> Forall (fun y => 0 < y) ys -> 0 < gcalc xs ys x.
Proof.
  intros Hne Hlen Hpos. unfold gcalc. numR.
  assert (Hl1 : (1 <= length xs)%nat) by (destruct xs; [congruence|cbn; lia]).
  destruct (Rleb_spec x (front xs)) as [H1|H1]; [apply nth_pos; [exact Hpos|lia]|].
  destruct (Rleb_spec (back xs) x) as [H2|H2]; [apply nth_pos; [exact Hpos|lia]|].
  apply Rnot_le_lt in H1. apply Rnot_le_lt in H2.
  set (i := lower_bound xs x).
  assert (Hi1 : (1 <= i)%nat).
  { unfold i. destruct xs as [|a r]; [congruence|]. cbn [lower_bound]. unfold front in H1. cbn [hd] in H1.
    numR. replace (Rltb a x) with true by (symmetry; apply Rltb_true; exact H1). lia. }
  assert (Hi2 : (i < length xs)%nat).
  { pose proof (lb_le_len xs x) as Hle. fold i in Hle.
    destruct (Nat.eq_dec i (length xs)) as [Heq|Hneq]; [|lia]. exfalso.
    pose proof (lb_lt xs x (length xs - 1)%nat) as Hlt0. fold i in Hlt0.
    rewrite <- back_nth in Hlt0 by exact Hne. specialize (Hlt0 ltac:(lia)). lra. }
  pose proof (lb_ge xs x) as Hge. fold i in Hge. specialize (Hge Hi2).
  pose proof (lb_lt xs x) as Hlt. fold i in Hlt.
  unfold grid_find. fold i. clearbody i. numR. unfold interp. numR.
  destruct (Req_EM_T (nthT i xs) x) as [Heq|Hneq].
  - replace (Reqb (nthT i xs) x) with true by (symmetry; apply Reqb_true; exact Heq).
    rewrite Heq. replace (- x + x) with 0 by ring. rewrite Rmult_0_r, Rplus_0_l.
    apply nth_pos; [exact Hpos|].
    destruct (Nat.eq_dec (S i) (length xs)) as [Hlast|Hnl]; [|lia]. exfalso.
    rewrite (back_nth xs Hne) in H2. replace (length xs - 1)%nat with i in H2 by lia. lra.
  - replace (Reqb (nthT i xs) x) with false by (symmetry; apply Reqb_false; exact Hneq).
    destruct i as [|j]; [lia|]. cbn [pred].
    assert (Hxl : nthT j xs < x) by (apply Hlt; lia).
    assert (Hxr : x < nthT (S j) xs) by lra.
    assert (Hyl : 0 < nthT j ys) by (apply nth_pos; [exact Hpos|lia]).
    assert (Hyr : 0 < nthT (S j) ys) by (apply nth_pos; [exact Hpos|lia]).
    set (xl := nthT j xs) in *. set (xr := nthT (S j) xs) in *.
    set (yl := nthT j ys) in *. set (yr := nthT (S j) ys) in *.
    assert (Hd : 0 < xr - xl) by lra.
    replace ((- yl + yr) / (- xl + xr) * (- xl + x) + yl)
      with ((yl * (xr - x) + yr * (x - xl)) / (xr - xl)) by (field; lra).
    apply Rdiv_lt_0_compat; [|exact Hd]. nra.
Qed.

(** physical inputs from checkable data: positive refractive indices *)
Lemma ckv_inputs_ok_intro (es ns : list R) (d : gdist (T:=R)) :
  es <> [] -> length es = length ns -> Forall (fun y => 0 < y) ns -> front es <= back es ->
  0 < gd_v0 d -> 0 < gd_v1 d -> step_nonzero d -> ckv_inputs_ok es ns d.
Proof.
  intros Hne Hlen Hpos Hg H0 H1 Hst. constructor; try assumption.
  intros e _. apply gcalc_pos; assumption.
Qed.

(** the hypotheses of the C20 theorems, as checkable data conditions *)
Definition ckv_valid_inputs (es ns : list R) (d : gdist (T:=R)) : Prop :=
  es <> [] /\ length es = length ns /\ Forall (fun n => 0 < n) ns /\ front es <= back es /\
  0 < gd_v0 d /\ 0 < gd_v1 d /\ step_nonzero d.
Lemma ckv_valid_inputs_ok es ns d : ckv_valid_inputs es ns d -> ckv_inputs_ok es ns d.
Proof. intros (H1 & H2 & H3 & H4 & H5 & H6 & H7). apply ckv_inputs_ok_intro; assumption. Qed.

(** ** Examples: the hypotheses are satisfiable by non-trivial data *)
Definition ex_es : list R := [1; 2; 4].
Definition ex_ns : list R := [13 / 10; 14 / 10; 3 / 2].
Definition ex_dist : gdist (T:=R) := GDist 0 1 (-1) (9 / 10) (V3 0 0 0) (8 / 10) (V3 (3 / 5) 0 (4 / 5)).
Example ex_ckv_valid : ckv_valid_inputs ex_es ex_ns ex_dist.
Proof.
  unfold ckv_valid_inputs, ex_es, ex_ns, ex_dist, step_nonzero, front, back. cbn [gd_v0 gd_v1 gd_p0 gd_p1 hd last length].
  split; [discriminate|]. split; [reflexivity|].
  split; [repeat constructor; lra|]. split; [lra|]. split; [lra|]. split; [lra|].
  rewrite dot_R. unfold vsub. cbn [vx vy vz]. numR. lra.
Qed.
(** a step direction far from the z axis is in the sign-preserving branch *)
Example ex_good_axis : good_axis (5 / 1000) (V3 (3 / 5) 0 (4 / 5)).
Proof. right. cbn [vy]. lra. Qed.
Example ex_scint_valid :
  scint_inputs_ok (Consts 3e10 1 1 1) [SComp (1 / 2) 100 5 0 6; SComp (1 / 2) 200 10 1 3] ex_dist.
Proof.
  constructor; cbn [k_clight k_hc k_mev gd_v0 gd_v1 gd_len ex_dist]; try lra; try discriminate.
  repeat constructor; cbn [sc_fall]; lra.
Qed.

(** ** ScintillationOffload: no photons and no draws for a non-positive mean;
    in the Gaussian regime the count is the clamped, rounded sample and a valid
    unsigned value *)
Lemma scint_offload_none yield res edep s : yield * edep <= 0 ->
  scint_offload (T:=R) yield res edep s = Some (0%Z, s).
Proof.
  intros Hm. unfold scint_offload. numR.
  replace (Rltb 10 (yield * edep)) with false by (symmetry; apply Rltb_false; lra).
  replace (Rltb 0 (yield * edep)) with false by (symmetry; apply Rltb_false; lra).
  reflexivity.
Qed.

Lemma scint_offload_gauss_count yield res edep u1 u2 s : 10 < yield * edep ->
  forall x st,
  normal_step (T:=R) (yield * edep) (res * sqrt (yield * edep)) None (u1 :: u2 :: s) = Some ((x, st), s) ->
  x + 1 / 2 < 4294967296 ->
  exists k, scint_offload (T:=R) yield res edep (u1 :: u2 :: s) = Some (k, s)
            /\ (0 <= k < 4294967296)%Z /\ k = Int_part (Rmax (x + 1 / 2) 0).
Proof.
  intros Hm x st Hrun Hub. unfold scint_offload. numR2.
  replace (Rltb 10 (yield * edep)) with true by (symmetry; apply Rltb_true; lra).
  unfold bind. numR. rewrite Hrun. cbn [ret]. unfold clamp_to_nonneg. numR2.
  set (y := if Rltb (x + 1 / 2) 0 then 0 else x + 1 / 2).
  assert (Hy : y = Rmax (x + 1 / 2) 0).
  { unfold y. destruct (Rltb_spec (x + 1 / 2) 0); unfold Rmax; destruct (Rle_dec _ _); lra. }
  assert (Hy0 : 0 <= y) by (rewrite Hy; apply Rmax_r).
  destruct (truncZ_nonneg y Hy0) as [Ht Hip].
  assert (Hlt : (Int_part y < 4294967296)%Z).
  { apply lt_IZR. destruct (base_Int_part y) as [Hb _].
    apply Rle_lt_trans with y; [exact Hb|].
    rewrite Hy. unfold Rmax; destruct (Rle_dec _ _); lra. }
  eexists; split; [reflexivity|].
  unfold to_uint32. rewrite Ht. rewrite Z.mod_small by lia. rewrite <- Hy. split; [lia|reflexivity].
Qed.
