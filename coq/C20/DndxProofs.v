(** * C20 proofs, part 3 (instance R): what CerenkovDndxCalculator computes.

    - the threshold test compares 1/beta with the *largest* refractive index of a
      validated material, and dN/dx is exactly 0 beyond it;
    - CerenkovParams' angle-integral table is the cumulative trapezoid of 1/n^2;
    - when 1/beta is below the whole table, the `energy` integral as coded is
      exactly the trapezoid rule applied to the integrand 1 - 1/(n^2 beta^2) on
      the energy grid;
    - relation to the exact integral for the piecewise-linear n(E) that the
      calculators interpolate: on every segment the trapezoid of 1/n^2 is >= the
      exact integral (e1 - e0)/(n0 n1), so the coded value never exceeds the
      exact piecewise-linear one (equality iff n is constant on the segment);
    - photon-number rules of CerenkovOffload and ScintillationOffload. *)
From Coq Require Import Reals ZArith List Bool Lra Lia.
From Celer Require Import Base.Num Base.NumR Base.Stream Base.Vec3
  C15.Samplers C15.SamplersProofs C20.Optical C20.OpticalProofs.
Import ListNotations.
Local Open Scope R_scope.

Lemma last_cons_as_default (l : list R) : forall x d, last (x :: l) d = last l x.
Proof.
  induction l as [|y l IH]; intros x d; [reflexivity|].
  change (last (x :: y :: l) d) with (last (y :: l) d). rewrite (IH y d), (IH y x). reflexivity.
Qed.

(** ** lists validated by MaterialParams *)
Lemma increasing_cons (a b : R) r : increasing (a :: b :: r) = true -> a < b /\ increasing (b :: r) = true.
Proof.
  cbn [increasing]. intros H. apply andb_prop in H. destruct H as [H1 H2].
  numR. apply Rltb_true in H1. split; assumption.
Qed.

Lemma increasing_head_le_all : forall (r : list R) a, increasing (a :: r) = true ->
  Forall (fun x => a <= x) (a :: r).
Proof.
  induction r as [|b r IH]; intros a H; [constructor; [lra|constructor]|].
  destruct (increasing_cons a b r H) as [Hab Hr].
  specialize (IH b Hr). constructor; [lra|].
  eapply Forall_impl; [|exact IH]. cbv beta. intros x Hx. lra.
Qed.

Lemma increasing_all_le_last : forall (r : list R) a d, increasing (a :: r) = true ->
  Forall (fun x => x <= last (a :: r) d) (a :: r).
Proof.
  induction r as [|b r IH]; intros a d H; [cbn [last]; constructor; [lra|constructor]|].
  destruct (increasing_cons a b r H) as [Hab Hr].
  specialize (IH b d Hr).
  change (last (a :: b :: r) d) with (last (b :: r) d).
  constructor; [|exact IH].
  inversion IH as [|? ? Hb _]; subst. lra.
Qed.

Lemma increasing_front_lt_back (l : list R) : increasing l = true -> (2 <= length l)%nat -> front l < back l.
Proof.
  destruct l as [|a [|b r]]; cbn [length]; intros H Hlen; try lia.
  destruct (increasing_cons a b r H) as [Hab Hr].
  unfold front, back. numR. cbn [hd]. change (last (a :: b :: r) 0) with (last (b :: r) 0).
  pose proof (increasing_head_le_all r b Hr) as Hall.
  assert (Hin : In (last (b :: r) 0) (b :: r)).
  { clear. revert b. induction r as [|c r IH]; intros b; [left; reflexivity|].
    change (last (b :: c :: r) 0) with (last (c :: r) 0). right. apply IH. }
  rewrite Forall_forall in Hall. specialize (Hall _ Hin). lra.
Qed.

Lemma material_ok_facts (es ns : list R) : material_ok es ns = true ->
  (2 <= length es)%nat /\ length es = length ns /\ increasing es = true /\ increasing ns = true.
Proof.
  unfold material_ok. intros H.
  apply andb_prop in H. destruct H as [H Hn]. apply andb_prop in H. destruct H as [H He].
  apply andb_prop in H. destruct H as [H2 Hl].
  apply Nat.leb_le in H2. apply Nat.eqb_eq in Hl. repeat split; assumption.
Qed.

(** at the top of the grid the calculator returns the last tabulated value *)
Lemma gcalc_at_back (xs ys : list R) : increasing xs = true -> (2 <= length xs)%nat ->
  gcalc xs ys (back xs) = nthT (length xs - 1) ys.
Proof.
  intros Hinc Hlen. pose proof (increasing_front_lt_back xs Hinc Hlen) as Hfb.
  unfold gcalc. numR.
  replace (Rleb (back xs) (front xs)) with false by (symmetry; apply Rleb_false; lra).
  replace (Rleb (back xs) (back xs)) with true by (symmetry; apply Rleb_true; lra).
  reflexivity.
Qed.

(** ** threshold: for a validated material the test is against n_max *)
Definition n_max (ns : list R) : R := back ns.

Lemma n_max_is_max (es ns : list R) : material_ok es ns = true ->
  Forall (fun n => n <= n_max ns) ns /\ In (n_max ns) ns.
Proof.
  intros Hok. destruct (material_ok_facts es ns Hok) as (Hlen & Hl & _ & Hn).
  destruct ns as [|a r]; [cbn [length] in Hl; lia|]. split.
  - apply increasing_all_le_last. exact Hn.
  - unfold n_max, back. numR. clear. revert a. induction r as [|c r IH]; intros a; [left; reflexivity|].
    change (last (a :: c :: r) 0) with (last (c :: r) 0). right. apply IH.
Qed.

Lemma dndx_zero_beyond_nmax k es ns charge beta : material_ok es ns = true ->
  n_max ns < 1 / beta -> dndx k es ns charge beta = 0.
Proof.
  intros Hok Hlt. destruct (material_ok_facts es ns Hok) as (Hlen & Hl & He & Hn).
  apply dndx_below_threshold. rewrite (gcalc_at_back es ns He Hlen).
  rewrite Hl. rewrite <- back_nth; [exact Hlt|]. destruct ns; [cbn [length] in *; lia|discriminate].
Qed.

(** ** trapezoid sums on the grid *)
Fixpoint trap (f : R -> R) (e0 r0 : R) (es ns : list R) : R :=
  match es, ns with
  | e1 :: es', r1 :: ns' => 1 / 2 * (e1 - e0) * (f r0 + f r1) + trap f e1 r1 es' ns'
  | _, _ => 0
  end.

Lemma angle_integral_from_last : forall (es ns : list R) acc e0 r0, length es = length ns ->
  last (angle_integral_from acc e0 r0 es ns) acc = acc + trap (fun n => 1 / (n * n)) e0 r0 es ns.
Proof.
  induction es as [|e1 es IH]; intros ns acc e0 r0 Hl; [destruct ns; cbn; lra|].
  destruct ns as [|r1 ns]; [discriminate|]. cbn [length] in Hl.
  cbn [angle_integral_from trap]. numR2.
  match goal with |- last (?a :: _) _ = _ => set (acc' := a) end.
  specialize (IH ns acc' e1 r1 ltac:(lia)).
  assert (Hlast : last (acc' :: angle_integral_from acc' e1 r1 es ns) acc
                  = last (angle_integral_from acc' e1 r1 es ns) acc') by apply last_cons_as_default.
  rewrite Hlast, IH. unfold acc'. lra.
Qed.

Lemma angle_integral_from_length : forall (es ns : list R) acc e0 r0, length es = length ns ->
  length (angle_integral_from acc e0 r0 es ns) = length es.
Proof.
  induction es as [|e1 es IH]; intros ns acc e0 r0 Hl; [destruct ns; reflexivity|].
  destruct ns as [|r1 ns]; [discriminate|]. cbn [length] in Hl.
  cbn [angle_integral_from length]. f_equal. apply IH. lia.
Qed.

(** the table built by CerenkovParams ends with the trapezoid of 1/n^2 over the whole grid *)
Lemma angle_integral_total e0 r0 (es ns : list R) : length es = length ns ->
  length (angle_integral (e0 :: es) (r0 :: ns)) = length (e0 :: es) /\
  back (angle_integral (e0 :: es) (r0 :: ns)) = trap (fun n => 1 / (n * n)) e0 r0 es ns.
Proof.
  intros Hl. cbn [angle_integral]. numR. split.
  - cbn [length]. f_equal. apply angle_integral_from_length. exact Hl.
  - unfold back. numR. pose proof (angle_integral_from_last es ns 0 e0 r0 Hl) as H.
    rewrite last_cons_as_default. lra.
Qed.

Lemma trap_affine g c : forall (es ns : list R) e0 r0, length es = length ns ->
  trap (fun n => 1 - g n * c) e0 r0 es ns = (last es e0 - e0) - trap g e0 r0 es ns * c.
Proof.
  induction es as [|e1 es IH]; intros ns e0 r0 Hl; [destruct ns; cbn; lra|].
  destruct ns as [|r1 ns]; [discriminate|]. cbn [length] in Hl.
  cbn [trap]. rewrite (IH ns e1 r1 ltac:(lia)).
  assert (Hlast : last (e1 :: es) e0 = last es e1) by apply last_cons_as_default.
  rewrite Hlast. lra.
Qed.

(** ** the integral as coded, 1/beta below the whole table: exactly the
    trapezoid rule for the integrand 1 - 1/(n^2 beta^2) on the energy grid *)
Lemma dndx_full_range_is_trapezoid k e0 r0 es ns charge beta :
  material_ok (e0 :: es) (r0 :: ns) = true -> 1 / beta < r0 ->
  dndx k (e0 :: es) (r0 :: ns) charge beta =
  clamp_to_nonneg (charge * charge * k_dndx k *
    (trap (fun n => 1 - 1 / (n * n) * (1 / beta * (1 / beta))) e0 r0 es ns * k_mev k)).
Proof.
  intros Hok Hib. destruct (material_ok_facts _ _ Hok) as (Hlen & Hl & He & Hn).
  assert (Hl' : length es = length ns) by (cbn [length] in Hl; lia).
  destruct (n_max_is_max _ _ Hok) as [Hmax _].
  assert (Hr0 : r0 <= n_max (r0 :: ns)) by (inversion Hmax; assumption).
  destruct (angle_integral_total e0 r0 es ns Hl') as [Hilen Hiback].
  unfold dndx. numR.
  rewrite (gcalc_at_back (e0 :: es) (r0 :: ns) He Hlen).
  rewrite (gcalc_at_back (e0 :: es) (angle_integral (e0 :: es) (r0 :: ns)) He Hlen).
  replace (nthT (length (e0 :: es) - 1) (r0 :: ns)) with (n_max (r0 :: ns)).
  2:{ unfold n_max. rewrite back_nth by discriminate. rewrite Hl. reflexivity. }
  replace (nthT (length (e0 :: es) - 1) (angle_integral (e0 :: es) (r0 :: ns)))
    with (trap (fun n => 1 / (n * n)) e0 r0 es ns).
  2:{ rewrite <- Hiback. rewrite back_nth.
      - rewrite Hilen. reflexivity.
      - intros E. rewrite E in Hilen. discriminate. }
  replace (Rltb (n_max (r0 :: ns)) (1 / beta)) with false by (symmetry; apply Rltb_false; lra).
  change (nthT 0 (r0 :: ns)) with r0.
  replace (Rltb (1 / beta) r0) with true by (symmetry; apply Rltb_true; lra).
  rewrite (trap_affine (fun n => 1 / (n * n)) (1 / beta * (1 / beta)) es ns e0 r0 Hl').
  unfold back, front. numR. cbn [hd].
  rewrite (last_cons_as_default es e0 0). reflexivity.
Qed.

(** ** relation to the exact integral for piecewise-linear n(E).
    For n linear between (e0, n0) and (e1, n1), n > 0, the antiderivative of
    1/n(E)^2 is -(e1 - e0)/(n1 - n0)/n(E), so the exact segment integral is
    (e1 - e0)/(n0 n1); the trapezoid value is never smaller (AM-GM) *)
Fixpoint exact_pl (e0 r0 : R) (es ns : list R) : R :=
  match es, ns with
  | e1 :: es', r1 :: ns' => (e1 - e0) / (r0 * r1) + exact_pl e1 r1 es' ns'
  | _, _ => 0
  end.

Lemma segment_trapezoid_ge_exact e0 e1 a b : e0 <= e1 -> 0 < a -> 0 < b ->
  (e1 - e0) / (a * b) <= 1 / 2 * (e1 - e0) * (1 / (a * a) + 1 / (b * b)) /\
  ((e1 - e0) / (a * b) = 1 / 2 * (e1 - e0) * (1 / (a * a) + 1 / (b * b)) -> e0 = e1 \/ a = b).
Proof.
  intros He Ha Hb.
  assert (Hid : 1 / 2 * (e1 - e0) * (1 / (a * a) + 1 / (b * b)) - (e1 - e0) / (a * b)
                = 1 / 2 * (e1 - e0) * ((1 / a - 1 / b) * (1 / a - 1 / b))) by (field; lra).
  set (q := 1 / a - 1 / b) in *.
  assert (Hq : 0 <= q * q) by nra.
  split.
  - assert (0 <= 1 / 2 * (e1 - e0) * (q * q)) by (apply Rmult_le_pos; [lra|exact Hq]). lra.
  - intros Heq. rewrite Heq in Hid.
    destruct (Req_dec e0 e1) as [->|Hne]; [left; reflexivity|right].
    assert (Hprod : (e1 - e0) * (q * q) = 0) by lra.
    apply Rmult_integral in Hprod. destruct Hprod as [Hz|Hsq]; [lra|].
    assert (Hd : q = 0) by (apply Rmult_integral in Hsq; destruct Hsq; assumption).
    unfold q in Hd.
    assert (Hab : (b - a) / (a * b) = 0) by (rewrite <- Hd; field; lra).
    assert (0 < a * b) by nra.
    assert (b - a = 0).
    { apply Rmult_eq_reg_r with (/ (a * b)); [|apply Rinv_neq_0_compat; lra].
      unfold Rdiv in Hab. lra. }
    lra.
Qed.

Lemma trap_ge_exact_pl : forall (es ns : list R) e0 r0, length es = length ns ->
  increasing (e0 :: es) = true -> Forall (fun n => 0 < n) (r0 :: ns) ->
  exact_pl e0 r0 es ns <= trap (fun n => 1 / (n * n)) e0 r0 es ns.
Proof.
  induction es as [|e1 es IH]; intros ns e0 r0 Hl Hinc Hpos; [destruct ns; cbn; lra|].
  destruct ns as [|r1 ns]; [discriminate|]. cbn [length] in Hl.
  destruct (increasing_cons e0 e1 es Hinc) as [H01 Hinc'].
  inversion Hpos as [|? ? Hr0 Hpos']; subst. inversion Hpos' as [|? ? Hr1 _]; subst.
  cbn [exact_pl trap].
  destruct (segment_trapezoid_ge_exact e0 e1 r0 r1 ltac:(lra) Hr0 Hr1) as [Hseg _].
  specialize (IH ns e1 r1 ltac:(lia) Hinc' Hpos'). lra.
Qed.

(** hence, in the full-range branch, the coded energy integral is bounded above
    by the exact integral of 1 - 1/(n(E)^2 beta^2) for piecewise-linear n *)
Lemma dndx_full_range_le_exact e0 r0 (es ns : list R) beta :
  length es = length ns -> increasing (e0 :: es) = true -> Forall (fun n => 0 < n) (r0 :: ns) ->
  trap (fun n => 1 - 1 / (n * n) * (1 / beta * (1 / beta))) e0 r0 es ns
  <= (last es e0 - e0) - exact_pl e0 r0 es ns * (1 / beta * (1 / beta)).
Proof.
  intros Hl Hinc Hpos. rewrite (trap_affine (fun n => 1 / (n * n)) _ es ns e0 r0 Hl).
  pose proof (trap_ge_exact_pl es ns e0 r0 Hl Hinc Hpos) as H.
  assert (0 <= 1 / beta * (1 / beta)) by nra. nra.
Qed.

(** non-vacuity: the example material of OpticalProofs, 1/beta = 10/9 < 1.3 *)
Example dndx_full_range_example k :
  dndx k ex_es ex_ns 1 (9 / 10) =
  clamp_to_nonneg (1 * 1 * k_dndx k *
    (trap (fun n => 1 - 1 / (n * n) * (1 / (9 / 10) * (1 / (9 / 10)))) 1 (13 / 10) [2; 4] [14 / 10; 3 / 2] * k_mev k)).
Proof.
  apply (dndx_full_range_is_trapezoid k 1 (13 / 10) [2; 4] [14 / 10; 3 / 2] 1 (9 / 10)); [|lra].
  unfold material_ok. cbn [length Nat.leb Nat.eqb andb increasing]. numR.
  repeat match goal with |- context [Rltb ?a ?b] =>
    replace (Rltb a b) with true by (symmetry; apply Rltb_true; lra) end. reflexivity.
Qed.

(** ** photon-number rules *)
(** CerenkovOffload: nothing (and no draw) when dN/dx = 0, else Poisson(dN/dx * step) *)
Lemma ckv_offload_rule k es ns charge len v0 v1 s :
  let per_len := dndx k es ns charge (1 / 2 * (v0 + v1)) in
  (per_len = 0 -> ckv_offload k es ns charge len v0 v1 s = Some (0%Z, s)) /\
  (per_len <> 0 -> ckv_offload k es ns charge len v0 v1 s = poisson true (per_len * len) s).
Proof.
  cbv zeta. unfold ckv_offload. numR2.
  replace (1 / (1 + 1) * (v0 + v1)) with (1 / 2 * (v0 + v1)) by lra.
  split; intros H.
  - replace (Reqb _ 0) with true by (symmetry; apply Reqb_true; exact H). reflexivity.
  - destruct (Reqb _ 0) eqn:E; [apply Reqb_true in E; contradiction|reflexivity].
Qed.

(** ScintillationOffload: Poisson for 0 < mean <= 10 (the Gaussian branch above
    10 and the empty result for mean <= 0 are [scint_offload_gauss_count] and
    [scint_offload_none]) *)
Lemma scint_offload_poisson yield res edep s : 0 < yield * edep <= 10 ->
  scint_offload yield res edep s = poisson true (yield * edep) s.
Proof.
  intros [H0 H10]. unfold scint_offload. numR.
  replace (Rltb 10 (yield * edep)) with false by (symmetry; apply Rltb_false; lra).
  replace (Rltb 0 (yield * edep)) with true by (symmetry; apply Rltb_true; lra).
  reflexivity.
Qed.
