(** * C20 proofs, part 4: the per-segment closed form used in DndxProofs.v is the
    Riemann integral of 1/n(E)^2 for the linear interpolant n(E) between
    (e0, a) and (e1, b) -- the representation GenericCalculator evaluates. *)
From Coq Require Import Reals Lra Psatz.
From Coquelicot Require Import Coquelicot.
Local Open Scope R_scope.

Definition nlin (e0 e1 a b x : R) : R := a + (b - a) / (e1 - e0) * (x - e0).

Lemma nlin_ends e0 e1 a b : e0 < e1 -> nlin e0 e1 a b e0 = a /\ nlin e0 e1 a b e1 = b.
Proof. intros He. unfold nlin. split; field; lra. Qed.

Lemma nlin_pos e0 e1 a b x : e0 < e1 -> 0 < a -> 0 < b -> e0 <= x <= e1 -> 0 < nlin e0 e1 a b x.
Proof.
  intros He Ha Hb Hx. unfold nlin. set (m := (b - a) / (e1 - e0)).
  assert (Hm : m * (e1 - e0) = b - a) by (unfold m; field; lra).
  destruct (Rle_dec 0 m) as [Hp|Hn]; nra.
Qed.

Lemma segment_integral_closed_form e0 e1 a b : e0 < e1 -> 0 < a -> 0 < b ->
  is_RInt (fun x => 1 / (nlin e0 e1 a b x * nlin e0 e1 a b x)) e0 e1 ((e1 - e0) / (a * b)).
Proof.
  intros He Ha Hb.
  destruct (Req_dec a b) as [Hab|Hab].
  - subst b.
    apply (is_RInt_ext (fun _ => 1 / (a * a))).
    + intros x _. unfold nlin. replace (a - a) with 0 by ring. unfold Rdiv. rewrite !Rmult_0_l, Rplus_0_r.
      reflexivity.
    + replace ((e1 - e0) / (a * a)) with (scal (e1 - e0) (1 / (a * a))).
      * apply (is_RInt_const (V := R_NormedModule)).
      * unfold scal; simpl; unfold mult; simpl. field. lra.
  - destruct (nlin_ends e0 e1 a b He) as [H0 H1].
    set (F := fun x => - ((e1 - e0) / (b - a)) / nlin e0 e1 a b x).
    replace ((e1 - e0) / (a * b)) with (minus (F e1) (F e0)).
    + apply (is_RInt_derive F (fun x => 1 / (nlin e0 e1 a b x * nlin e0 e1 a b x))).
      * intros x Hx. rewrite Rmin_left, Rmax_right in Hx by lra.
        pose proof (nlin_pos e0 e1 a b x He Ha Hb Hx) as Hp.
        unfold F, nlin in *.
        assert (Hq : 0 < a * (e1 - e0) + (b - a) * (x - e0)).
        { replace (a * (e1 - e0) + (b - a) * (x - e0)) with ((a + (b - a) / (e1 - e0) * (x - e0)) * (e1 - e0)) by (field; lra).
          apply Rmult_lt_0_compat; lra. }
        assert (Hba : b - a <> 0) by (intros E; apply Hab; lra).
        auto_derive; [repeat split; try lra; try assumption|]. field. repeat split; try lra; try assumption.
      * intros x Hx. rewrite Rmin_left, Rmax_right in Hx by lra.
        pose proof (nlin_pos e0 e1 a b x He Ha Hb Hx) as Hp.
        apply (ex_derive_continuous (fun x => 1 / (nlin e0 e1 a b x * nlin e0 e1 a b x))).
        unfold nlin in *. auto_derive. repeat split; try lra. nra.
    + unfold minus, plus, opp; simpl. unfold F. rewrite H0, H1. field. repeat split; lra.
Qed.

(** wrapper so that Properties_C20.v can state the theorem without importing Coquelicot *)
Definition seg_integral_is (e0 e1 a b v : R) : Prop :=
  is_RInt (fun x => 1 / (nlin e0 e1 a b x * nlin e0 e1 a b x)) e0 e1 v.
Lemma seg_integral_closed_form e0 e1 a b : e0 < e1 -> 0 < a -> 0 < b ->
  seg_integral_is e0 e1 a b ((e1 - e0) / (a * b)).
Proof. exact (segment_integral_closed_form e0 e1 a b). Qed.
Example seg_integral_example : seg_integral_is 1 2 (13 / 10) (14 / 10) ((2 - 1) / (13 / 10 * (14 / 10))).
Proof. apply seg_integral_closed_form; lra. Qed.
