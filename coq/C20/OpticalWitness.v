(** * C20 witnesses evaluated on the float instance (vm_compute). *)
From Coq Require Import ZArith List Floats Bool.
From Celer Require Import Base.Num Base.NumF Base.Stream Base.Vec3 C15.Samplers C20.RotateVariants C20.Optical.
Import ListNotations.
Local Open Scope float_scope.

(** celeritas/Constants.hh (CGS, MeV): c, alpha/(hbar c), MeV, h c -- as printed
    by the harness *)
Definition Kcgs : consts (T:=float) :=
  Consts 0x1.beb9bf3ap+34 0x1.a3dab541af1f4p+47 0x1.ae14bd6bdd36cp-20 0x1.ca0b11131dc7dp-53.

(** ** F8: a valid (accepted by ScintillationParams) component with
    sigma = mean/4 and an extreme, but canonical, normal draw yields a
    negative wavelength and hence a negative photon energy. *)
Definition f8_comps : list (scomp (T:=float)) :=
  [SComp 1 0x1.4f8b588e368f1p-17 (* 1e-5 cm = 100 nm *) 0x1.4f8b588e368f1p-19 (* 25 nm *)
         0 0x1.12e0be826d695p-30 (* 1 ns *)].
Definition f8_dist : gdist (T:=float) :=
  GDist 0 1 (-1) 0x1.cp-1 (V3 0 0 0) 0x1.ap-1 (V3 0 0 1).
(** stream: selector; normal (theta = 2 pi 0.75, u2 = 1e-5: z = -4.8); cos theta; phi; pol; u; time *)
Definition f8_stream : list float :=
  [0.5; 0.75; 0x1.4f8b588e368f1p-17; 0.5; 0.25; 0.5; 0.5; 0.5].

Definition two_m10 : float := 0x1p-10.
Definition two_m50 : float := 0x1p-50.
Definition two_m40 : float := 0x1p-40.
Definition canonicalb (u : float) : bool := (0 <=? u) && (u <? 1).

Lemma scint_energy_refuted :
  exists (k : consts (T:=float)) cs d s p sp s',
    forallb scomp_ok cs = true /\ forallb canonicalb s = true /\
    scint_photon k cs d None s = Some ((p, sp), s') /\
    (ph_energy p <? 0) = true.
Proof.
  exists Kcgs, f8_comps, f8_dist, f8_stream.
  eexists; eexists; eexists.
  split; [vm_compute; reflexivity|]. split; [vm_compute; reflexivity|].
  split; [vm_compute; reflexivity|vm_compute; reflexivity].
Qed.

(** The refutations below are about [rotate_old] (the code as pinned); the
    repaired [rotate_new] handles the same inputs ([rotate_new_witnesses]). *)

(** ** F10 on floats: step direction 0.115 degrees from +z with negative y.
    The photon direction's cosine to the step direction should be
    cos(theta) = 0.5 but is off by ~3e-3 relative (6e-3 at 0.28 degrees). *)
Definition f10_rot_f : vec3 float := V3 0 (-0x1.0624dd2f1a9fcp-9) 0x1.ffffdf3b645a2p-1.
Definition min_acc_f : float := 0x1.47ae147ae147bp-8.

Lemma rotate_polar_refuted_float :
  let rot := make_unit_vector f10_rot_f in
  let d := from_spherical 0.5 0 (* phi = 0 *) in
  (0x1p-10 <? nabs (dot (rotate_old min_acc_f d rot) rot - 0.5)) = true.
Proof. vm_compute. reflexivity. Qed.

(** ** rotate returns NaN when rot is z-aligned but its z component is one ulp
    below 1 (as make_unit_vector produces for ~13% of steps exactly along z):
    sin(theta) = sqrt(1 - z^2) = 1.5e-8 > 0 selects the middle branch, where
    cosphi = x / sqrt(x^2 + y^2) = 0/0. *)
Definition is_nan (x : float) : bool := negb (x =? x).
Lemma rotate_nan_refuted_float :
  let rot := V3 0 0 0x1.fffffffffffffp-1 in
  let v := rotate_old min_acc_f (V3 1 0 0) rot in
  (nabs (dot rot rot - 1) <? 0x1p-50) = true /\
  is_nan (vx v) = true /\ is_nan (vy v) = true /\ is_nan (vz v) = true.
Proof. vm_compute. repeat split; reflexivity. Qed.

(** the same on the real input path: a step exactly along -z of length 0.03121...
    (make_unit_vector gives z = -(1 - 2^-53)) makes the Cerenkov generator
    return NaN direction and polarisation *)
Definition nan_es : list float := [0x1p-19; 0x1p-18].
Definition nan_ns : list float := [0x1.8p0; 0x1.ap0].
Definition nan_dist : gdist (T:=float) :=
  GDist 0 0x1.ff5d7d3a0c000p-6 (-1) 0.9 (V3 0 0 (-0x1.3cf5e07b7082cp+6))
        0.9 (V3 0 0 (-0x1.3d15d65344238p+6)).
Lemma cerenkov_nan_direction_refuted_float :
  exists (k : consts (T:=float)) es ns d s p s',
    material_ok es ns = true /\ forallb canonicalb s = true /\
    ckv_photon_with (rotate_old min_acc_f) k es ns d (ckv_construct k es ns d) s = Some (p, s') /\
    is_nan (vx (ph_dir p)) = true.
Proof.
  exists Kcgs, nan_es, nan_ns, nan_dist, [0.5; 0.25; 0.5; 0.5; 0.25].
  eexists; eexists. repeat split; vm_compute; reflexivity.
Qed.

(** the candidate repair [rotate_new] (NOT in the tree) on the same three inputs: on the cone to 1e-12, finite *)
Lemma rotate_new_witnesses :
  let rot := make_unit_vector f10_rot_f in
  let d := from_spherical 0.5 0 in
  (nabs (dot (rotate_new min_acc_f d rot) rot - 0.5) <? two_m40) = true /\
  let v := rotate_new min_acc_f (V3 1 0 0) (V3 0 0 0x1.fffffffffffffp-1) in
  (is_nan (vx v) || is_nan (vy v) || is_nan (vz v)) = false /\
  exists p s', ckv_photon_with (rotate_new min_acc_f) Kcgs nan_es nan_ns nan_dist
                 (ckv_construct Kcgs nan_es nan_ns nan_dist) [0.5; 0.25; 0.5; 0.5; 0.25] = Some (p, s')
               /\ is_nan (vx (ph_dir p)) = false.
Proof.
  cbv zeta. split; [vm_compute; reflexivity|]. split; [vm_compute; reflexivity|].
  eexists; eexists; split; vm_compute; reflexivity.
Qed.
