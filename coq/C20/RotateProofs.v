(** * Facts about [rotate] (corecel/math/ArrayUtils.hh) over R, for both
    versions of the code (C20/RotateVariants.v) and for Base/Vec3.v [rotate].

    [rotate d rot] applies to [d] the matrix
      [[z c, -s, st c], [z s, c, st s], [-st, 0, z]]
    with st = sqrt(1 - z^2) and (c, s) = cos/sin of the azimuth of rot, computed
    in three branches.  The matrix is orthogonal in every branch of either
    version (unit result, dot products preserved).  It maps e_z to [rot] -- so
    that the polar angle about [rot] is the polar angle of [d] --
    - old code: in the first and third branch, but in the middle branch
      (0 < st < min_acc) it maps e_z to (x, |y|, z): the sign of rot_y is
      dropped ([rotate_polar_refuted], finding F10);
    - candidate repair (NOT in the tree): always ([rotate_new_polar]).
    SWITCH POINT: lemma [rotate_base_eq] says which version Base/Vec3.v is. *)
From Coq Require Import Reals ZArith List Bool Lra Lia.
From Celer Require Import Base.Num Base.NumR Base.Stream Base.Vec3 C20.RotateVariants.
Local Open Scope R_scope.

Definition unit3 (v : vec3 R) : Prop := dot v v = 1.

Lemma dot_R (v w : vec3 R) : dot v w = vx v * vx w + vy v * vy w + vz v * vz w.
Proof. unfold dot. numR. ring. Qed.

Lemma unit3_R (v : vec3 R) : unit3 v <-> vx v * vx v + vy v * vy v + vz v * vz v = 1.
Proof. unfold unit3. rewrite dot_R. tauto. Qed.

Lemma rotate_raw_with_R (cs : R * R) (d rot : vec3 R) :
  rotate_raw_with cs d rot =
  let st := sqrt (1 - vz rot * vz rot) in
  let a := vz rot * vx d + st * vz d in
  V3 (a * fst cs - snd cs * vy d) (a * snd cs + fst cs * vy d) (- st * vx d + vz rot * vz d).
Proof. unfold rotate_raw_with. destruct cs as [c s]. numR. reflexivity. Qed.

(** which branch of the OLD code: the sign-preserving ones *)
Definition good_axis (min_acc : R) (rot : vec3 R) : Prop :=
  min_acc <= sqrt (1 - vz rot * vz rot) \/ 0 <= vy rot.

(** what the callers need from a rotation function about a fixed axis *)
Definition rot_isometry (rotf : vec3 R -> vec3 R -> vec3 R) (axis : vec3 R) : Prop :=
  (forall d, unit3 d -> unit3 (rotf d axis)) /\
  (forall d e, unit3 d -> unit3 e -> dot (rotf d axis) (rotf e axis) = dot d e).
Definition rot_polar (rotf : vec3 R -> vec3 R -> vec3 R) (axis : vec3 R) : Prop :=
  forall d, unit3 d -> dot (rotf d axis) axis = vz d.

(** make_unit_vector is the identity on unit vectors *)
Lemma make_unit_vector_unit (v : vec3 R) : unit3 v -> make_unit_vector v = v.
Proof.
  intros Hv. unfold make_unit_vector, norm. unfold unit3 in Hv. rewrite Hv. numR.
  rewrite sqrt_1. destruct v as [a b e]. cbn [vx vy vz]. f_equal; field.
Qed.

(** ** Generic part: any (c, s) on the unit circle gives an orthogonal matrix *)
Section Generic.
  Variables (rot : vec3 R) (c s : R).
  Hypothesis Hrot : unit3 rot.
  Hypothesis Hcs : c * c + s * s = 1.
  Let x := vx rot. Let y := vy rot. Let z := vz rot.
  Let st := sqrt (1 - z * z).

  Lemma rot_xyz : x * x + y * y + z * z = 1.
  Proof. apply unit3_R in Hrot. exact Hrot. Qed.
  Lemma st_sq : st * st = 1 - z * z.
  Proof. unfold st. apply sqrt_sqrt. pose proof rot_xyz. nra. Qed.
  Lemma st_nonneg : 0 <= st.
  Proof. unfold st. apply sqrt_pos. Qed.
  Lemma st_xy : st * st = x * x + y * y.
  Proof. rewrite st_sq. pose proof rot_xyz. lra. Qed.

  Lemma raw_dot (d e : vec3 R) :
    dot (rotate_raw_with (c, s) d rot) (rotate_raw_with (c, s) e rot) = dot d e.
  Proof.
    rewrite !rotate_raw_with_R. cbv zeta. rewrite !dot_R. cbn [vx vy vz fst snd].
    fold x y z. fold st. pose proof st_sq as Hsq. set (t := st) in *.
    destruct d as [dx dy dz], e as [ex ey ez]. cbn [vx vy vz].
    replace (((z * dx + t * dz) * c - s * dy) * ((z * ex + t * ez) * c - s * ey) +
             ((z * dx + t * dz) * s + c * dy) * ((z * ex + t * ez) * s + c * ey) +
             (- t * dx + z * dz) * (- t * ex + z * ez))
      with (((z * dx + t * dz) * (z * ex + t * ez) + dy * ey) * (c * c + s * s)
            + (- t * dx + z * dz) * (- t * ex + z * ez)) by ring.
    rewrite Hcs.
    replace (((z * dx + t * dz) * (z * ex + t * ez) + dy * ey) * 1 + (- t * dx + z * dz) * (- t * ex + z * ez))
      with ((z * z + t * t) * (dx * ex + dz * ez) + dy * ey) by ring.
    rewrite Hsq. ring.
  Qed.

  Lemma raw_unit (d : vec3 R) : unit3 d -> unit3 (rotate_raw_with (c, s) d rot).
  Proof. unfold unit3. rewrite raw_dot. tauto. Qed.

  (** polar angle about the axis (st c, st s, z) *)
  Lemma raw_polar (d : vec3 R) (ay : R) : st * c = x -> st * s = ay ->
    dot (rotate_raw_with (c, s) d rot) (V3 x ay z) = vz d.
  Proof.
    intros Hx Hy. rewrite rotate_raw_with_R. cbv zeta. rewrite dot_R. cbn [vx vy vz fst snd].
    fold x y z. fold st. pose proof st_sq as Hsq. set (t := st) in *.
    destruct d as [dx dy dz]. cbn [vx vy vz]. rewrite <- Hx, <- Hy.
    replace (((z * dx + t * dz) * c - s * dy) * (t * c) +
             ((z * dx + t * dz) * s + c * dy) * (t * s) + (- t * dx + z * dz) * z)
      with ((z * dx + t * dz) * t * (c * c + s * s) + (- t * dx + z * dz) * z) by ring.
    rewrite Hcs. replace ((z * dx + t * dz) * t * 1 + (- t * dx + z * dz) * z)
      with ((t * t + z * z) * dz) by ring.
    rewrite Hsq. ring.
  Qed.
End Generic.

(** ** The (c, s) of the OLD code *)
Section OldCs.
  Variables (min_acc : R) (rot : vec3 R).
  Hypothesis Hacc : 0 < min_acc.
  Hypothesis Hrot : unit3 rot.
  Let x := vx rot. Let y := vy rot. Let z := vz rot.
  Let st := sqrt (1 - z * z).
  Let c := fst (rot_cs_old min_acc rot).
  Let s := snd (rot_cs_old min_acc rot).

  Lemma rot_cs_old_spec :
    c * c + s * s = 1 /\ st * c = x /\
    ((min_acc <= st \/ st <= 0) /\ st * s = y \/ (0 < st < min_acc) /\ st * s = Rabs y).
  Proof.
    pose proof (st_sq rot Hrot) as Hsq. pose proof (st_nonneg rot) as Hnn. pose proof (st_xy rot Hrot) as Hxy.
    cbv zeta in Hsq, Hnn, Hxy. fold x y z in Hsq, Hnn, Hxy. fold st in Hsq, Hnn, Hxy.
    unfold c, s, rot_cs_old. numR. fold x y z. fold st.
    destruct (Rleb_spec min_acc st) as [Hb1|Hb1].
    - cbn [fst snd]. assert (Hst : st <> 0) by lra.
      split; [|split; [|left; split; [left; exact Hb1|]]].
      + replace (x * (1 / st) * (x * (1 / st)) + y * (1 / st) * (y * (1 / st)))
          with ((x * x + y * y) / (st * st)) by (field; exact Hst).
        rewrite <- Hxy. field. exact Hst.
      + field. exact Hst.
      + field. exact Hst.
    - destruct (Rltb_spec 0 st) as [Hb2|Hb2].
      + cbn [fst snd]. assert (Hst : st <> 0) by lra.
        assert (Hsqrt : sqrt (x * x + y * y) = st).
        { rewrite <- Hxy. apply sqrt_square. exact Hnn. }
        rewrite Hsqrt.
        assert (Hc2 : 1 - x / st * (x / st) = (y / st) * (y / st)).
        { replace (1 - x / st * (x / st)) with ((st * st - x * x) / (st * st)) by (field; exact Hst).
          replace (st * st - x * x) with (y * y) by lra. field. exact Hst. }
        assert (Hs : sqrt (1 - x / st * (x / st)) = Rabs y / st).
        { rewrite Hc2. replace (y / st * (y / st)) with (Rsqr (y / st)) by reflexivity.
          rewrite sqrt_Rsqr_abs. unfold Rdiv. rewrite Rabs_mult.
          rewrite (Rabs_right (/ st)); [reflexivity|].
          apply Rle_ge. left. apply Rinv_0_lt_compat. lra. }
        rewrite Hs.
        split; [|split; [|right; split; [lra|]]].
        * replace (Rabs y / st * (Rabs y / st)) with ((Rabs y * Rabs y) / (st * st)) by (field; exact Hst).
          replace (Rabs y * Rabs y) with (y * y)
            by (unfold Rabs; destruct (Rcase_abs y); ring).
          replace (x / st * (x / st) + y * y / (st * st)) with ((x * x + y * y) / (st * st)) by (field; exact Hst).
          rewrite <- Hxy. field. exact Hst.
        * field. exact Hst.
        * field. exact Hst.
      + cbn [fst snd]. assert (Hst : st = 0) by lra.
        assert (Hx : x = 0) by nra. assert (Hy : y = 0) by nra.
        split; [ring|split; [rewrite Hst, Hx; ring|left; split; [right; lra|rewrite Hst, Hy; ring]]].
  Qed.

End OldCs.

(** ** The (c, s) of the REPAIRED code: always the true azimuth of rot *)
Section NewCs.
  Variables (min_acc : R) (rot : vec3 R).
  Hypothesis Hacc : 0 < min_acc.
  Hypothesis Hrot : unit3 rot.
  Let x := vx rot. Let y := vy rot. Let z := vz rot.
  Let st := sqrt (1 - z * z).
  Let c := fst (rot_cs_new min_acc rot).
  Let s := snd (rot_cs_new min_acc rot).

  Lemma rot_cs_new_spec : c * c + s * s = 1 /\ st * c = x /\ st * s = y.
  Proof.
    pose proof (st_sq rot Hrot) as Hsq. pose proof (st_nonneg rot) as Hnn. pose proof (st_xy rot Hrot) as Hxy.
    cbv zeta in Hsq, Hnn, Hxy. fold x y z in Hsq, Hnn, Hxy. fold st in Hsq, Hnn, Hxy.
    unfold c, s, rot_cs_new. numR. fold x y z. fold st.
    destruct (Rleb_spec min_acc st) as [Hb1|Hb1].
    - cbn [fst snd]. assert (Hst : st <> 0) by lra.
      split; [|split].
      + replace (x * (1 / st) * (x * (1 / st)) + y * (1 / st) * (y * (1 / st)))
          with ((x * x + y * y) / (st * st)) by (field; exact Hst).
        rewrite <- Hxy. field. exact Hst.
      + field. exact Hst.
      + field. exact Hst.
    - destruct (Rltb_spec 0 (x * x + y * y)) as [Hb2|Hb2].
      + cbn [fst snd].
        assert (Hsqrt : sqrt (x * x + y * y) = st).
        { rewrite <- Hxy. apply sqrt_square. exact Hnn. }
        rewrite Hsqrt. assert (Hst : st <> 0) by (intros E; rewrite E in Hxy; lra).
        split; [|split].
        * replace (x * (1 / st) * (x * (1 / st)) + y * (1 / st) * (y * (1 / st)))
            with ((x * x + y * y) / (st * st)) by (field; exact Hst).
          rewrite <- Hxy. field. exact Hst.
        * field. exact Hst.
        * field. exact Hst.
      + cbn [fst snd]. assert (Hx : x = 0) by nra. assert (Hy : y = 0) by nra.
        assert (Hst : st = 0) by nra.
        split; [ring|split; [rewrite Hst, Hx; ring|rewrite Hst, Hy; ring]].
  Qed.
End NewCs.

(** ** Results for the two versions *)
Lemma pair_eta (p : R * R) : p = (fst p, snd p).
Proof. destruct p; reflexivity. Qed.

Section Results.
  Variables (min_acc : R) (rot : vec3 R).
  Hypothesis Hacc : 0 < min_acc.
  Hypothesis Hrot : unit3 rot.

  Lemma rotate_old_eq_raw d : unit3 d ->
    rotate_old min_acc d rot = rotate_raw_with (rot_cs_old min_acc rot) d rot.
  Proof.
    intros Hd. unfold rotate_old. apply make_unit_vector_unit.
    rewrite (pair_eta (rot_cs_old min_acc rot)). apply raw_unit; try assumption.
    apply (rot_cs_old_spec min_acc rot Hacc Hrot).
  Qed.
  Lemma rotate_new_eq_raw d : unit3 d ->
    rotate_new min_acc d rot = rotate_raw_with (rot_cs_new min_acc rot) d rot.
  Proof.
    intros Hd. unfold rotate_new. apply make_unit_vector_unit.
    rewrite (pair_eta (rot_cs_new min_acc rot)). apply raw_unit; try assumption.
    apply (rot_cs_new_spec min_acc rot Hacc Hrot).
  Qed.

  Lemma rotate_old_isometry : rot_isometry (rotate_old min_acc) rot.
  Proof.
    pose proof (rot_cs_old_spec min_acc rot Hacc Hrot) as (Hcs & _).
    split.
    - intros d Hd. rewrite rotate_old_eq_raw by exact Hd.
      rewrite (pair_eta (rot_cs_old min_acc rot)). apply raw_unit; assumption.
    - intros d e Hd He. rewrite !rotate_old_eq_raw by assumption.
      rewrite (pair_eta (rot_cs_old min_acc rot)). apply raw_dot; assumption.
  Qed.
  Lemma rotate_new_isometry : rot_isometry (rotate_new min_acc) rot.
  Proof.
    pose proof (rot_cs_new_spec min_acc rot Hacc Hrot) as (Hcs & _).
    split.
    - intros d Hd. rewrite rotate_new_eq_raw by exact Hd.
      rewrite (pair_eta (rot_cs_new min_acc rot)). apply raw_unit; assumption.
    - intros d e Hd He. rewrite !rotate_new_eq_raw by assumption.
      rewrite (pair_eta (rot_cs_new min_acc rot)). apply raw_dot; assumption.
  Qed.

  (** old code: polar angle is kept about the axis (x, y or |y|, z) *)
  Lemma rotate_old_polar_general d : unit3 d ->
    dot (rotate_old min_acc d rot)
        (V3 (vx rot)
            (if andb (Rltb 0 (sqrt (1 - vz rot * vz rot))) (Rltb (sqrt (1 - vz rot * vz rot)) min_acc)
             then Rabs (vy rot) else vy rot) (vz rot)) = vz d.
  Proof.
    intros Hd. rewrite rotate_old_eq_raw by exact Hd.
    destruct (rot_cs_old_spec min_acc rot Hacc Hrot) as (Hcs & Hx & Hy).
    rewrite (pair_eta (rot_cs_old min_acc rot)).
    set (st := sqrt (1 - vz rot * vz rot)) in *.
    destruct Hy as [[Hbr Hy]|[Hbr Hy]].
    - replace (andb (Rltb 0 st) (Rltb st min_acc)) with false.
      2:{ symmetry. apply andb_false_iff. destruct Hbr as [Hbr|Hbr];
          [right; apply Rltb_false; exact Hbr|left; apply Rltb_false; exact Hbr]. }
      apply raw_polar; assumption.
    - replace (andb (Rltb 0 st) (Rltb st min_acc)) with true.
      2:{ symmetry. apply andb_true_iff. split; apply Rltb_true; lra. }
      apply raw_polar; assumption.
  Qed.

  Lemma rotate_old_polar : good_axis min_acc rot -> rot_polar (rotate_old min_acc) rot.
  Proof.
    intros Hg d Hd.
    set (st := sqrt (1 - vz rot * vz rot)).
    assert (Hy : (if andb (Rltb 0 st) (Rltb st min_acc) then Rabs (vy rot) else vy rot) = vy rot).
    { unfold good_axis in Hg. fold st in Hg.
      destruct (Rltb_spec 0 st); destruct (Rltb_spec st min_acc); cbn [andb]; try reflexivity.
      destruct Hg as [Hg|Hg]; [lra|]. apply Rabs_right. lra. }
    rewrite <- (rotate_old_polar_general d Hd). fold st. rewrite Hy.
    destruct rot; reflexivity.
  Qed.

  (** repaired code: polar angle about [rot] is always kept *)
  Lemma rotate_new_polar : rot_polar (rotate_new min_acc) rot.
  Proof.
    intros d Hd. rewrite rotate_new_eq_raw by exact Hd.
    destruct (rot_cs_new_spec min_acc rot Hacc Hrot) as (Hcs & Hx & Hy).
    rewrite (pair_eta (rot_cs_new min_acc rot)).
    replace rot with (V3 (vx rot) (vy rot) (vz rot)) at 3 by (destruct rot; reflexivity).
    apply raw_polar; assumption.
  Qed.
End Results.

(** ** SWITCH POINT.  Base/Vec3.v [rotate] is, by computation, the code as pinned
    ([rotate_old]).  A repair ([rotate_new]) was tried upstream and WITHDRAWN (an
    existing geometry test pins sampled directions), so it is a candidate repair,
    not in the tree.  Should it ever land:
    After Base/Vec3.v is changed to the repaired middle branch, replace
    [rotate_old] by [rotate_new] in the statement of [rotate_base_eq] (the proof
    stays [reflexivity]), [rotate_old_isometry] by [rotate_new_isometry] in
    [rotate_base_isometry], and use the second proof of [rotate_base_polar]. *)
Lemma rotate_base_eq (min_acc : R) (d rot : vec3 R) : rotate min_acc d rot = rotate_old min_acc d rot.
Proof. reflexivity. Qed.

Lemma rotate_base_isometry min_acc rot : 0 < min_acc -> unit3 rot -> rot_isometry (rotate min_acc) rot.
Proof.
  intros Ha Hr. pose proof (rotate_old_isometry min_acc rot Ha Hr) as [H1 H2].
  split; intros; rewrite ?rotate_base_eq; auto.
Qed.

Lemma rotate_base_polar min_acc rot : 0 < min_acc -> unit3 rot -> good_axis min_acc rot ->
  rot_polar (rotate min_acc) rot.
Proof.
  intros Ha Hr Hg d Hd. rewrite rotate_base_eq. apply rotate_old_polar; assumption.
  (* with the candidate repair in Base:  intros Ha Hr _ d Hd. rewrite rotate_base_eq. apply rotate_new_polar; assumption. *)
Qed.

(** make_unit_vector of a non-zero vector is unit *)
Lemma make_unit_vector_is_unit (v : vec3 R) : 0 < dot v v -> unit3 (make_unit_vector v).
Proof.
  intros Hv. unfold make_unit_vector, norm. apply unit3_R. cbn [vx vy vz]. numR.
  pose proof (sqrt_sqrt (dot v v) (Rlt_le _ _ Hv)) as Hss.
  assert (Hn : sqrt (dot v v) <> 0).
  { intros E. rewrite E in Hss. lra. }
  set (n := sqrt (dot v v)) in *.
  replace (vx v * (1 / n) * (vx v * (1 / n)) + vy v * (1 / n) * (vy v * (1 / n))
           + vz v * (1 / n) * (vz v * (1 / n)))
    with ((vx v * vx v + vy v * vy v + vz v * vz v) / (n * n)) by (field; exact Hn).
  rewrite <- dot_R. rewrite Hss. field. lra.
Qed.

(** ** The OLD middle branch drops the sign of rot_y (finding F10).
    rot = (0, -2t, 1 - t^2)/(1 + t^2) with t = 1/1000 is an exact unit vector
    0.115 degrees from +z; the image of d = e_x should be perpendicular to rot
    (d_z = 0) but is at cosine -4t(1-t^2)/(1+t^2)^2 ~ -0.004. *)
Definition f10_rot : vec3 R := V3 0 (- (2000 / 1000001)) (999999 / 1000001).
Definition f10_dir : vec3 R := V3 1 0 0.

Lemma f10_sintheta : sqrt (1 - vz f10_rot * vz f10_rot) = 2000 / 1000001.
Proof. cbn [vz f10_rot]. apply sqrt_lem_1; lra. Qed.

Lemma rotate_polar_refuted :
  exists d rot : vec3 R, unit3 d /\ unit3 rot /\
    dot (rotate_old (T:=R) (5 / 1000) d rot) rot <> vz d.
Proof.
  exists f10_dir, f10_rot.
  assert (Hd : unit3 f10_dir) by (apply unit3_R; cbn; lra).
  assert (Hr : unit3 f10_rot) by (apply unit3_R; cbn; lra).
  split; [exact Hd|split; [exact Hr|]].
  rewrite rotate_old_eq_raw by (try exact Hd; try exact Hr; lra).
  rewrite rotate_raw_with_R. cbv zeta. unfold rot_cs_old. numR. rewrite f10_sintheta.
  replace (Rleb (5 / 1000) (2000 / 1000001)) with false by (symmetry; apply Rleb_false; lra).
  replace (Rltb 0 (2000 / 1000001)) with true by (symmetry; apply Rltb_true; lra).
  cbn [fst snd]. rewrite dot_R. cbn [vx vy vz f10_rot f10_dir].
  replace (0 / sqrt (0 * 0 + - (2000 / 1000001) * - (2000 / 1000001))) with 0 by (unfold Rdiv; ring).
  replace (1 - 0 * 0) with 1 by ring. rewrite sqrt_1. lra.
Qed.

(** the same input is handled correctly by the repaired code *)
Lemma rotate_new_polar_f10 : dot (rotate_new (T:=R) (5 / 1000) f10_dir f10_rot) f10_rot = vz f10_dir.
Proof.
  apply rotate_new_polar; try lra; apply unit3_R; cbn; lra.
Qed.
