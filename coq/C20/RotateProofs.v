(** * Facts about Base/Vec3.v [rotate] (model of corecel/math/ArrayUtils.hh) over R.

    [rotate d rot] applies to [d] the matrix
      [[z c, -s, st c], [z s, c, st s], [-st, 0, z]]
    with st = sqrt(1 - z^2) and (c, s) = "cos/sin of the azimuth of rot",
    computed in three branches.  The matrix is orthogonal in every branch
    (unit result, dot products preserved).  It maps e_z to [rot] -- so that
    the polar angle about [rot] is the polar angle of [d] -- in the first and
    third branch, but in the middle branch (0 < st < min_acc) it maps e_z to
    (x, |y|, z): the sign of rot_y is dropped ([rotate_polar_refuted]). *)
From Coq Require Import Reals ZArith List Bool Lra Lia Nsatz.
From Celer Require Import Base.Num Base.NumR Base.Stream Base.Vec3.
Local Open Scope R_scope.

Definition unit3 (v : vec3 R) : Prop := dot v v = 1.

Lemma dot_R (v w : vec3 R) : dot v w = vx v * vx w + vy v * vy w + vz v * vz w.
Proof. unfold dot. numR. ring. Qed.

Lemma unit3_R (v : vec3 R) : unit3 v <-> vx v * vx v + vy v * vy v + vz v * vz v = 1.
Proof. unfold unit3. rewrite dot_R. tauto. Qed.

(** the three-branch azimuth computation, as a function *)
Definition rot_cs (min_acc : R) (rot : vec3 R) : R * R :=
  let st := sqrt (1 - vz rot * vz rot) in
  if Rleb min_acc st then (vx rot * (1 / st), vy rot * (1 / st))
  else if Rltb 0 st then
    let c := vx rot / sqrt (vx rot * vx rot + vy rot * vy rot) in (c, sqrt (1 - c * c))
  else (1, 0).

Lemma rotate_raw_R min_acc (d rot : vec3 R) :
  rotate_raw min_acc d rot =
  let st := sqrt (1 - vz rot * vz rot) in
  let c := fst (rot_cs min_acc rot) in
  let s := snd (rot_cs min_acc rot) in
  let a := vz rot * vx d + st * vz d in
  V3 (a * c - s * vy d) (a * s + c * vy d) (- st * vx d + vz rot * vz d).
Proof.
  unfold rotate_raw, rot_cs. numR.
  destruct (Rleb min_acc _); [reflexivity|].
  destruct (Rltb 0 _); reflexivity.
Qed.

(** which branch: the sign-preserving ones *)
Definition good_axis (min_acc : R) (rot : vec3 R) : Prop :=
  min_acc <= sqrt (1 - vz rot * vz rot) \/ 0 <= vy rot.

Section Unit.
  Variables (min_acc : R) (rot : vec3 R).
  Hypothesis Hacc : 0 < min_acc.
  Hypothesis Hrot : unit3 rot.
  Let x := vx rot. Let y := vy rot. Let z := vz rot.
  Let st := sqrt (1 - z * z).
  Let c := fst (rot_cs min_acc rot).
  Let s := snd (rot_cs min_acc rot).

  Lemma rot_xyz : x * x + y * y + z * z = 1.
  Proof. apply unit3_R in Hrot. exact Hrot. Qed.

  Lemma st_sq : st * st = 1 - z * z.
  Proof. unfold st. apply sqrt_sqrt. pose proof rot_xyz. nra. Qed.
  Lemma st_nonneg : 0 <= st.
  Proof. unfold st. apply sqrt_pos. Qed.
  Lemma st_xy : st * st = x * x + y * y.
  Proof. rewrite st_sq. pose proof rot_xyz. lra. Qed.

  (** (c, s, c^2 + s^2 = 1, st c = x, st s = y or |y|) per branch *)
  Lemma rot_cs_spec :
    c * c + s * s = 1 /\ st * c = x /\
    ((min_acc <= st \/ st <= 0) /\ st * s = y \/ (0 < st < min_acc) /\ st * s = Rabs y).
  Proof.
    pose proof st_sq as Hsq. pose proof st_nonneg as Hnn. pose proof st_xy as Hxy.
    unfold c, s, rot_cs. fold x y z. fold st.
    destruct (Rleb_spec min_acc st) as [Hb1|Hb1].
    - cbn [fst snd]. assert (Hst : st <> 0) by lra.
      split; [|split; [|left; split; [left; exact Hb1|]]].
      + replace (x * (1 / st) * (x * (1 / st)) + y * (1 / st) * (y * (1 / st)))
          with ((x * x + y * y) / (st * st)) by (field; exact Hst).
        rewrite <- Hxy. field. exact Hst.
      + field. exact Hst.
      + field. exact Hst.
    - destruct (Rltb_spec 0 st) as [Hb2|Hb2].
      + cbn [fst snd]. assert (Hst : st <> 0) by lra.
        assert (Hsqrt : sqrt (x * x + y * y) = st).
        { rewrite <- Hxy. apply sqrt_square. exact Hnn. }
        rewrite Hsqrt.
        assert (Hc2 : 1 - x / st * (x / st) = (y / st) * (y / st)).
        { replace (1 - x / st * (x / st)) with ((st * st - x * x) / (st * st)) by (field; exact Hst).
          replace (st * st - x * x) with (y * y) by lra. field. exact Hst. }
        assert (Hs : sqrt (1 - x / st * (x / st)) = Rabs y / st).
        { rewrite Hc2. replace (y / st * (y / st)) with (Rsqr (y / st)) by reflexivity.
          rewrite sqrt_Rsqr_abs. unfold Rdiv. rewrite Rabs_mult.
          rewrite (Rabs_right (/ st)); [reflexivity|].
          apply Rle_ge. left. apply Rinv_0_lt_compat. lra. }
        rewrite Hs.
        split; [|split; [|right; split; [lra|]]].
        * replace (Rabs y / st * (Rabs y / st)) with ((Rabs y * Rabs y) / (st * st)) by (field; exact Hst).
          replace (Rabs y * Rabs y) with (y * y)
            by (unfold Rabs; destruct (Rcase_abs y); ring).
          replace (x / st * (x / st) + y * y / (st * st)) with ((x * x + y * y) / (st * st)) by (field; exact Hst).
          rewrite <- Hxy. field. exact Hst.
        * field. exact Hst.
        * field. exact Hst.
      + cbn [fst snd]. assert (Hst : st = 0) by lra.
        assert (Hx : x = 0) by nra. assert (Hy : y = 0) by nra.
        split; [ring|split; [rewrite Hst, Hx; ring|left; split; [right; lra|rewrite Hst, Hy; ring]]].
  Qed.

  Lemma rot_cs_unit : c * c + s * s = 1.
  Proof. exact (proj1 rot_cs_spec). Qed.

  (** the matrix preserves dot products *)
  Lemma rotate_raw_dot (d e : vec3 R) :
    dot (rotate_raw min_acc d rot) (rotate_raw min_acc e rot) = dot d e.
  Proof.
    rewrite !rotate_raw_R. cbv zeta. rewrite !dot_R. cbn [vx vy vz].
    fold x y z. fold st. fold c s.
    pose proof rot_cs_unit as Hcs. pose proof st_sq as Hsq.
    set (cc := c) in *. set (ss := s) in *. set (t := st) in *.
    destruct d as [dx dy dz], e as [ex ey ez]. cbn [vx vy vz].
    nsatz.
  Qed.

  Lemma rotate_raw_unit (d : vec3 R) : unit3 d -> unit3 (rotate_raw min_acc d rot).
  Proof. unfold unit3. rewrite rotate_raw_dot. tauto. Qed.

  (** make_unit_vector is the identity on unit vectors *)
  Lemma make_unit_vector_unit (v : vec3 R) : unit3 v -> make_unit_vector v = v.
  Proof.
    intros Hv. unfold make_unit_vector, norm. unfold unit3 in Hv. rewrite Hv. numR.
    rewrite sqrt_1. destruct v as [a b e]. cbn [vx vy vz]. f_equal; field.
  Qed.

  Lemma rotate_eq_raw (d : vec3 R) : unit3 d -> rotate min_acc d rot = rotate_raw min_acc d rot.
  Proof. intros Hd. unfold rotate. apply make_unit_vector_unit. apply rotate_raw_unit. exact Hd. Qed.

  (** [rotate] returns a unit vector *)
  Lemma rotate_unit (d : vec3 R) : unit3 d -> unit3 (rotate min_acc d rot).
  Proof. intros Hd. rewrite rotate_eq_raw by exact Hd. apply rotate_raw_unit. exact Hd. Qed.

  (** [rotate] preserves dot products (angles) *)
  Lemma rotate_dot (d e : vec3 R) : unit3 d -> unit3 e ->
    dot (rotate min_acc d rot) (rotate min_acc e rot) = dot d e.
  Proof. intros Hd He. rewrite !rotate_eq_raw by assumption. apply rotate_raw_dot. Qed.

  (** polar angle: in general about the axis (x, y or |y|, z) *)
  Lemma rotate_polar_general (d : vec3 R) : unit3 d ->
    dot (rotate min_acc d rot)
        (V3 x (if andb (Rltb 0 st) (Rltb st min_acc) then Rabs y else y) z) = vz d.
  Proof.
    intros Hd. rewrite rotate_eq_raw by exact Hd. rewrite rotate_raw_R. cbv zeta.
    rewrite dot_R. cbn [vx vy vz]. fold x y z. fold st. fold c s.
    destruct rot_cs_spec as (Hcs & Hx & Hy). pose proof st_sq as Hsq.
    set (cc := c) in *. set (ss := s) in *. set (t := st) in *.
    destruct d as [dx dy dz]. cbn [vx vy vz].
    destruct Hy as [[Hbr Hy]|[Hbr Hy]].
    - replace (andb (Rltb 0 t) (Rltb t min_acc)) with false.
      2:{ symmetry. apply andb_false_iff. destruct Hbr as [Hbr|Hbr];
          [right; apply Rltb_false; exact Hbr|left; apply Rltb_false; exact Hbr]. }
      rewrite <- Hx, <- Hy.
      replace (((z * dx + t * dz) * cc - ss * dy) * (t * cc) +
               ((z * dx + t * dz) * ss + cc * dy) * (t * ss) + (- t * dx + z * dz) * z)
        with ((z * dx + t * dz) * t * (cc * cc + ss * ss) + (- t * dx + z * dz) * z) by ring.
      rewrite Hcs. replace ((z * dx + t * dz) * t * 1 + (- t * dx + z * dz) * z)
        with ((t * t + z * z) * dz) by ring.
      rewrite Hsq. ring.
    - replace (andb (Rltb 0 t) (Rltb t min_acc)) with true.
      2:{ symmetry. apply andb_true_iff. split; apply Rltb_true; lra. }
      rewrite <- Hx, <- Hy.
      replace (((z * dx + t * dz) * cc - ss * dy) * (t * cc) +
               ((z * dx + t * dz) * ss + cc * dy) * (t * ss) + (- t * dx + z * dz) * z)
        with ((z * dx + t * dz) * t * (cc * cc + ss * ss) + (- t * dx + z * dz) * z) by ring.
      rewrite Hcs. replace ((z * dx + t * dz) * t * 1 + (- t * dx + z * dz) * z)
        with ((t * t + z * z) * dz) by ring.
      rewrite Hsq. ring.
  Qed.

  (** polar angle about [rot] itself: needs a sign-preserving branch *)
  Lemma rotate_polar (d : vec3 R) : unit3 d -> good_axis min_acc rot ->
    dot (rotate min_acc d rot) rot = vz d.
  Proof.
    intros Hd Hg.
    assert (Hy : (if andb (Rltb 0 st) (Rltb st min_acc) then Rabs y else y) = y).
    { unfold good_axis in Hg. fold z in Hg. fold st in Hg. fold y in Hg.
      destruct (Rltb_spec 0 st); destruct (Rltb_spec st min_acc); cbn [andb]; try reflexivity.
      destruct Hg as [Hg|Hg]; [lra|]. apply Rabs_right. lra. }
    rewrite <- (rotate_polar_general d Hd). rewrite Hy.
    unfold x, y, z. destruct rot; reflexivity.
  Qed.
End Unit.

(** make_unit_vector of a non-zero vector is unit *)
Lemma make_unit_vector_is_unit (v : vec3 R) : 0 < dot v v -> unit3 (make_unit_vector v).
Proof.
  intros Hv. unfold make_unit_vector, norm. apply unit3_R. cbn [vx vy vz]. numR.
  pose proof (sqrt_sqrt (dot v v) (Rlt_le _ _ Hv)) as Hss.
  assert (Hn : sqrt (dot v v) <> 0).
  { intros E. rewrite E in Hss. lra. }
  set (n := sqrt (dot v v)) in *.
  replace (vx v * (1 / n) * (vx v * (1 / n)) + vy v * (1 / n) * (vy v * (1 / n))
           + vz v * (1 / n) * (vz v * (1 / n)))
    with ((vx v * vx v + vy v * vy v + vz v * vz v) / (n * n)) by (field; exact Hn).
  rewrite <- dot_R. rewrite Hss. field. lra.
Qed.

(** ** The middle branch drops the sign of rot_y (finding F10).
    rot = (0, -2t, 1 - t^2)/(1 + t^2) with t = 1/1000 is an exact unit vector
    0.115 degrees from +z; the image of d = e_x should be perpendicular to rot
    (d_z = 0) but is at cosine -4t(1-t^2)/(1+t^2)^2 ~ -0.004. *)
Definition f10_rot : vec3 R := V3 0 (- (2000 / 1000001)) (999999 / 1000001).
Definition f10_dir : vec3 R := V3 1 0 0.

Lemma f10_sintheta : sqrt (1 - vz f10_rot * vz f10_rot) = 2000 / 1000001.
Proof. cbn [vz f10_rot]. apply sqrt_lem_1; lra. Qed.

Lemma rotate_polar_refuted :
  exists d rot : vec3 R, unit3 d /\ unit3 rot /\
    dot (rotate (T:=R) (5 / 1000) d rot) rot <> vz d.
Proof.
  exists f10_dir, f10_rot.
  assert (Hd : unit3 f10_dir) by (apply unit3_R; cbn; lra).
  assert (Hr : unit3 f10_rot) by (apply unit3_R; cbn; lra).
  split; [exact Hd|split; [exact Hr|]].
  rewrite rotate_eq_raw by (try exact Hd; try exact Hr; lra).
  rewrite rotate_raw_R. cbv zeta. unfold rot_cs. rewrite f10_sintheta.
  replace (Rleb (5 / 1000) (2000 / 1000001)) with false by (symmetry; apply Rleb_false; lra).
  replace (Rltb 0 (2000 / 1000001)) with true by (symmetry; apply Rltb_true; lra).
  cbn [fst snd]. rewrite dot_R. cbn [vx vy vz f10_rot f10_dir].
  replace (0 / sqrt (0 * 0 + - (2000 / 1000001) * - (2000 / 1000001))) with 0 by (unfold Rdiv; ring).
  replace (1 - 0 * 0) with 1 by ring. rewrite sqrt_1. lra.
Qed.
