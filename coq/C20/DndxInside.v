(** * C20 proofs, part 5 (instance R): CerenkovDndxCalculator when the Cerenkov
    threshold lies inside the refractive-index table  (n_j <= 1/beta < n_(j+1)).

    The code finds energy_min by inverse linear interpolation of n on segment j
    and interpolates the cumulative angle integral linearly at energy_min.  What
    that computes ([dndx_inside_grid], [crossing_segment_value]):

      energy = sum_(i>j) [de_i - T_i / beta^2]  +  (1 - t) [de_j - T_j / beta^2],
      T_i = de_i (1/n_i^2 + 1/n_(i+1)^2) / 2,   t = (1/beta - n_j) / (n_(j+1) - n_j)

    i.e. the full trapezoids above the crossing segment plus the fraction (1 - t)
    of the crossing segment's FULL trapezoid (which includes the negative
    below-threshold end value; hence the clamp in the code).  It never exceeds
    the exact integral of 1 - 1/(n(E)^2 beta^2) from the crossing point for the
    piecewise-linear n(E)  ([crossing_segment_le_exact]). *)
From Coq Require Import Reals ZArith List Bool Lra Lia.
From Celer Require Import Base.Num Base.NumR Base.Stream Base.Vec3
  C15.Samplers C15.SamplersProofs C20.Optical C20.OpticalProofs C20.DndxProofs.
Import ListNotations.
Local Open Scope R_scope.

(** ** strictly increasing lists *)
Lemma increasing_tail (a : R) r : increasing (a :: r) = true -> increasing r = true.
Proof. destruct r as [|b r]; [reflexivity|]. intros H. apply (increasing_cons a b r H). Qed.

Lemma increasing_nth_S : forall (xs : list R) i, increasing xs = true -> (S i < length xs)%nat ->
  nthT i xs < nthT (S i) xs.
Proof.
  induction xs as [|a r IH]; intros i Hinc Hi; [cbn [length] in Hi; lia|].
  destruct r as [|b r]; [cbn [length] in Hi; lia|].
  destruct (increasing_cons a b r Hinc) as [Hab Hr].
  destruct i as [|i]; [exact Hab|].
  unfold nthT in *. cbn [nth]. apply (IH i Hr). cbn [length] in *. lia.
Qed.

Lemma increasing_nth_le (xs : list R) : increasing xs = true ->
  forall i j, (i <= j)%nat -> (j < length xs)%nat -> nthT i xs <= nthT j xs.
Proof.
  intros Hinc i j Hij. induction Hij as [|j Hij IH]; intros Hj; [lra|].
  pose proof (increasing_nth_S xs j Hinc Hj). specialize (IH ltac:(lia)). lra.
Qed.
Lemma increasing_nth_lt (xs : list R) : increasing xs = true ->
  forall i j, (i < j)%nat -> (j < length xs)%nat -> nthT i xs < nthT j xs.
Proof.
  intros Hinc i j Hij Hj. destruct j as [|j]; [lia|].
  pose proof (increasing_nth_le xs Hinc i j ltac:(lia) ltac:(lia)).
  pose proof (increasing_nth_S xs j Hinc Hj). lra.
Qed.

(** ** GenericCalculator inside segment j is the linear interpolant of that segment *)
Lemma gcalc_in_segment (xs ys : list R) j x : increasing xs = true -> (S j < length xs)%nat ->
  nthT j xs <= x < nthT (S j) xs ->
  gcalc xs ys x = interp (nthT j xs) (nthT j ys) (nthT (S j) xs) (nthT (S j) ys) x.
Proof.
  intros Hinc Hj [Hlo Hhi].
  assert (Hne : xs <> []) by (destruct xs; [cbn [length] in Hj; lia|discriminate]).
  assert (Hfront : front xs = nthT 0 xs) by (destruct xs; reflexivity).
  pose proof (increasing_nth_le xs Hinc) as Hmono. pose proof (increasing_nth_lt xs Hinc) as Hsmono.
  unfold gcalc. numR.
  destruct (Rleb_spec x (front xs)) as [H1|H1].
  - (* x = front = nthT j xs, so j = 0 and the value is the left end of the interpolant *)
    rewrite Hfront in H1.
    assert (Hj0 : j = 0%nat).
    { destruct j as [|j]; [reflexivity|exfalso].
      pose proof (Hsmono 0%nat (S j) ltac:(lia) ltac:(lia)). lra. }
    subst j. assert (Hx : x = nthT 0 xs) by lra. rewrite Hx. unfold interp. numR.
    replace (- nthT 0 xs + nthT 0 xs) with 0 by ring. rewrite Rmult_0_r, Rplus_0_l. reflexivity.
  - destruct (Rleb_spec (back xs) x) as [H2|H2].
    + exfalso. rewrite (back_nth xs Hne) in H2.
      pose proof (Hmono (S j) (length xs - 1)%nat ltac:(lia) ltac:(lia)). lra.
    + set (i := lower_bound xs x).
      pose proof (lb_lt xs x) as Hlt. fold i in Hlt.
      pose proof (lb_le_len xs x) as Hle. fold i in Hle.
      assert (HiS : (i <= S j)%nat).
      { destruct (le_lt_dec i (S j)) as [H|H]; [exact H|exfalso]. specialize (Hlt (S j) H). lra. }
      pose proof (lb_ge xs x ltac:(fold i; lia)) as Hge. fold i in Hge.
      unfold grid_find. fold i. numR.
      destruct (Req_dec x (nthT j xs)) as [Heq|Hneq].
      * assert (Hi : i = j).
        { destruct (lt_eq_lt_dec i j) as [[H|H]|H]; [exfalso|exact H|exfalso].
          - pose proof (Hsmono i j H ltac:(lia)). lra.
          - specialize (Hlt j H). lra. }
        rewrite Hi. replace (Reqb (nthT j xs) x) with true by (symmetry; apply Reqb_true; lra). reflexivity.
      * assert (Hi : i = S j).
        { destruct (le_lt_dec i j) as [H|H]; [exfalso|lia].
          pose proof (Hmono i j H ltac:(lia)). lra. }
        rewrite Hi. replace (Reqb (nthT (S j) xs) x) with false by (symmetry; apply Reqb_false; lra).
        reflexivity.
Qed.

(** ** the crossing segment: algebra of the two interpolations as coded *)
Definition seg_T (e0 e1 a b : R) : R := 1 / 2 * (e1 - e0) * (1 / (a * a) + 1 / (b * b)).

Lemma crossing_segment_value e0 e1 a b ib I0 : e0 < e1 -> 0 < a -> a <= ib < b ->
  let t := (ib - a) / (b - a) in
  let emin := interp a e0 b e1 ib in
  let ilin := interp e0 I0 e1 (I0 + seg_T e0 e1 a b) emin in
  0 <= t < 1 /\ emin = e0 + t * (e1 - e0) /\ e0 <= emin < e1 /\
  ilin = I0 + t * seg_T e0 e1 a b /\
  (e1 - emin) - (I0 + seg_T e0 e1 a b - ilin) * (ib * ib)
    = (1 - t) * ((e1 - e0) - seg_T e0 e1 a b * (ib * ib)).
Proof.
  intros He Ha [Hlo Hhi]. cbv zeta. unfold interp. numR.
  set (t := (ib - a) / (b - a)).
  assert (Hba : 0 < b - a) by lra.
  assert (Ht : 0 <= t < 1).
  { unfold t. split; [apply Rmult_le_pos; [lra|left; apply Rinv_0_lt_compat; lra]|].
    apply Rmult_lt_reg_r with (b - a); [lra|]. replace ((ib - a) / (b - a) * (b - a)) with (ib - a) by (field; lra). lra. }
  assert (Hemin : (- e0 + e1) / (- a + b) * (- a + ib) + e0 = e0 + t * (e1 - e0)) by (unfold t; field; lra).
  rewrite Hemin.
  assert (Hilin : (- I0 + (I0 + seg_T e0 e1 a b)) / (- e0 + e1) * (- e0 + (e0 + t * (e1 - e0))) + I0
                  = I0 + t * seg_T e0 e1 a b) by (field; lra).
  rewrite Hilin.
  split; [exact Ht|]. split; [reflexivity|]. split; [split; nra|]. split; [reflexivity|ring].
Qed.

(** relation to the exact integral from the crossing point (n(emin) = 1/beta) to e1 for linear n:
    (e1 - emin) - ib^2 (e1 - emin)/(ib b) = (1 - t)(e1 - e0)(1 - ib/b) >= 0, and the coded value is <= it *)
Lemma crossing_segment_le_exact e0 e1 a b ib : e0 < e1 -> 0 < a -> a <= ib < b ->
  let t := (ib - a) / (b - a) in
  (1 - t) * ((e1 - e0) - seg_T e0 e1 a b * (ib * ib)) <= (1 - t) * (e1 - e0) * (1 - ib / b) /\
  0 <= (1 - t) * (e1 - e0) * (1 - ib / b).
Proof.
  intros He Ha [Hlo Hhi]. cbv zeta. set (t := (ib - a) / (b - a)).
  assert (Ht : 0 <= t < 1).
  { unfold t. split; [apply Rmult_le_pos; [lra|left; apply Rinv_0_lt_compat; lra]|].
    apply Rmult_lt_reg_r with (b - a); [lra|]. replace ((ib - a) / (b - a) * (b - a)) with (ib - a) by (field; lra). lra. }
  assert (Hib : 0 < ib) by lra. assert (Hb : 0 < b) by lra.
  set (p := 1 / a). set (q := 1 / b).
  assert (Hp : 0 < p) by (unfold p; apply Rdiv_lt_0_compat; lra).
  assert (Hq : 0 < q) by (unfold q; apply Rdiv_lt_0_compat; lra).
  assert (Hpib : 1 <= ib * p).
  { unfold p. apply Rmult_le_reg_r with a; [lra|]. replace (ib * (1 / a) * a) with ib by (field; lra). lra. }
  assert (Hqib : ib * q < 1).
  { unfold q. apply Rmult_lt_reg_r with b; [lra|]. replace (ib * (1 / b) * b) with ib by (field; lra). lra. }
  assert (HT : seg_T e0 e1 a b = 1 / 2 * (e1 - e0) * (p * p + q * q)) by (unfold seg_T, p, q; field; lra).
  assert (Hdiv : ib / b = ib * q) by (unfold q; field; lra).
  rewrite HT, Hdiv.
  (* key: ib^2 (p^2+q^2)/2 >= ib^2 p q >= ib q *)
  assert (Hkey : ib * q <= 1 / 2 * (p * p + q * q) * (ib * ib)).
  { assert (H1 : ib * ib * (p * q) <= 1 / 2 * (p * p + q * q) * (ib * ib)) by nra.
    assert (H2 : ib * q <= ib * ib * (p * q)).
    { replace (ib * ib * (p * q)) with ((ib * p) * (ib * q)) by ring.
      assert (0 < ib * q) by nra. nra. }
    lra. }
  split.
  - assert (0 <= (1 - t) * (e1 - e0)) by nra.
    replace ((1 - t) * (e1 - e0 - 1 / 2 * (e1 - e0) * (p * p + q * q) * (ib * ib)))
      with ((1 - t) * (e1 - e0) * (1 - 1 / 2 * (p * p + q * q) * (ib * ib))) by ring.
    apply Rmult_le_compat_l; [assumption|lra].
  - apply Rmult_le_pos; [nra|lra].
Qed.

(** ** the cumulative table: consecutive entries differ by the segment trapezoid *)
Lemma angle_integral_from_nth_diff : forall j (es ns : list R) acc e0 r0, length es = length ns ->
  (S j < length (e0 :: es))%nat ->
  nthT (S j) (acc :: angle_integral_from acc e0 r0 es ns) - nthT j (acc :: angle_integral_from acc e0 r0 es ns)
  = seg_T (nthT j (e0 :: es)) (nthT (S j) (e0 :: es)) (nthT j (r0 :: ns)) (nthT (S j) (r0 :: ns)).
Proof.
  induction j as [|j IH]; intros es ns acc e0 r0 Hl Hj;
    (destruct es as [|e1 es]; [cbn [length] in Hj; lia|]); (destruct ns as [|r1 ns]; [discriminate|]);
    cbn [length] in Hl, Hj; cbn [angle_integral_from].
  - unfold nthT. cbn [nth]. unfold seg_T. numR2. lra.
  - unfold nthT in *. cbn [nth]. apply (IH es ns _ e1 r1); [lia|cbn [length]; lia].
Qed.

Lemma angle_integral_nth_diff e0 r0 (es ns : list R) j : length es = length ns ->
  (S j < length (e0 :: es))%nat ->
  nthT (S j) (angle_integral (e0 :: es) (r0 :: ns)) - nthT j (angle_integral (e0 :: es) (r0 :: ns))
  = seg_T (nthT j (e0 :: es)) (nthT (S j) (e0 :: es)) (nthT j (r0 :: ns)) (nthT (S j) (r0 :: ns)).
Proof. intros Hl Hj. cbn [angle_integral]. numR. apply angle_integral_from_nth_diff; assumption. Qed.

(** ** the branch as coded: threshold inside segment j of a validated material *)
Lemma dndx_inside_grid k e0 r0 es ns charge beta j :
  material_ok (e0 :: es) (r0 :: ns) = true -> (S j < length (r0 :: ns))%nat -> 0 < r0 ->
  nthT j (r0 :: ns) <= 1 / beta < nthT (S j) (r0 :: ns) ->
  let E := e0 :: es in let N := r0 :: ns in let I := angle_integral E N in
  let ib := 1 / beta in
  let t := (ib - nthT j N) / (nthT (S j) N - nthT j N) in
  dndx k E N charge beta = clamp_to_nonneg (charge * charge * k_dndx k *
    (((back E - nthT (S j) E) - (back I - nthT (S j) I) * (ib * ib)
      + (1 - t) * ((nthT (S j) E - nthT j E)
                   - seg_T (nthT j E) (nthT (S j) E) (nthT j N) (nthT (S j) N) * (ib * ib))) * k_mev k)).
Proof.
  intros Hok Hj Hr0 Hrange. cbv zeta.
  destruct (material_ok_facts _ _ Hok) as (Hlen & Hl & He & Hn).
  assert (Hl' : length es = length ns) by (cbn [length] in Hl; lia).
  assert (HjE : (S j < length (e0 :: es))%nat) by (rewrite Hl; exact Hj).
  set (E := e0 :: es) in *. set (N := r0 :: ns) in *. set (I := angle_integral E N).
  set (ib := 1 / beta) in *.
  destruct (angle_integral_total e0 r0 es ns Hl') as [Hilen Hiback]. fold E N I in Hilen, Hiback.
  (* facts on the crossing segment *)
  pose proof (increasing_nth_S E j He HjE) as Hej.
  pose proof (increasing_nth_le N Hn 0%nat j ltac:(lia) ltac:(lia)) as Hn0j.
  assert (Haj : 0 < nthT j N) by (change (nthT 0 N) with r0 in Hn0j; lra).
  pose proof (angle_integral_nth_diff e0 r0 es ns j Hl' HjE) as Hdiff. fold E N I in Hdiff.
  set (T := seg_T (nthT j E) (nthT (S j) E) (nthT j N) (nthT (S j) N)) in *.
  assert (HI1 : nthT (S j) I = nthT j I + T) by lra.
  destruct (crossing_segment_value (nthT j E) (nthT (S j) E) (nthT j N) (nthT (S j) N) ib (nthT j I) Hej Haj Hrange)
    as (Ht & Hemin & Heminr & Hilin & Hcross).
  fold T in Hilin, Hcross.
  set (t := (ib - nthT j N) / (nthT (S j) N - nthT j N)) in *.
  set (emin := interp (nthT j N) (nthT j E) (nthT (S j) N) (nthT (S j) E) ib) in *.
  (* the look-ups *)
  pose proof (increasing_nth_le N Hn (S j) (length N - 1)%nat ltac:(lia) ltac:(lia)) as Hnmax.
  unfold dndx. numR. fold ib. fold I.
  rewrite (gcalc_at_back E N He Hlen).
  rewrite (gcalc_at_back E I He Hlen).
  replace (nthT (length E - 1) N) with (nthT (length N - 1) N) by (rewrite Hl; reflexivity).
  replace (Rltb (nthT (length N - 1) N) ib) with false by (symmetry; apply Rltb_false; lra).
  replace (Rltb ib (nthT 0 N)) with false by (symmetry; apply Rltb_false; lra).
  rewrite (gcalc_in_segment N E j ib Hn Hj Hrange). fold emin.
  rewrite (gcalc_in_segment E I j emin He HjE Heminr).
  replace (nthT (length E - 1) I) with (back I).
  2:{ rewrite back_nth; [rewrite Hilen; reflexivity|]. intros Hnil. rewrite Hnil in Hilen. discriminate. }
  rewrite HI1.
  set (ilin := interp (nthT j E) (nthT j I) (nthT (S j) E) (nthT j I + T) emin) in *.
  assert (Hen : back E - emin - (back I - ilin) * (ib * ib)
    = back E - nthT (S j) E - (back I - (nthT j I + T)) * (ib * ib)
      + (1 - t) * (nthT (S j) E - nthT j E - T * (ib * ib))) by lra.
  rewrite Hen. reflexivity.
Qed.

(** non-vacuity: the example material, 1/beta = 1.35 inside [1.3, 1.4) *)
Example dndx_inside_grid_example :
  material_ok ex_es ex_ns = true /\ (1 < length ex_ns)%nat /\ nthT 0 ex_ns <= 1 / (100 / 135) < nthT 1 ex_ns.
Proof.
  split; [|split].
  - unfold material_ok, ex_es, ex_ns. cbn [length Nat.leb Nat.eqb andb increasing]. numR.
    repeat match goal with |- context [Rltb ?a ?b] =>
      replace (Rltb a b) with true by (symmetry; apply Rltb_true; lra) end. reflexivity.
  - cbn; lia.
  - unfold ex_ns, nthT. cbn [nth]. replace (1 / (100 / 135)) with (135 / 100) by field. split; lra.
Qed.
