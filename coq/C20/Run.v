(** * C20: entry points for the correspondence check (float instance). *)
From Coq Require Import ZArith List Floats.
From Celer Require Import Base.Num Base.NumF Base.FloatFun Base.Stream Base.Vec3
  C15.Samplers C20.Optical.
Import ListNotations.

Definition min_acc : float := 0x1.47ae147ae147bp-8.  (* 0.005 *)
Definition ofv (v : vec3 float) := [vx v; vy v; vz v].
Definition ofphoton (p : photon (T:=float)) : list float :=
  ph_energy p :: ofv (ph_pos p) ++ ofv (ph_dir p) ++ ofv (ph_pol p) ++ [ph_time p].
Definition ofphotons (l : list (photon (T:=float) * nat)) :=
  map (fun pn => (ofphoton (fst pn), snd pn)) l.

Definition mkconsts (c kd mev hc : float) := Consts c kd mev hc.
Definition mkdist (t len q v0 : float) (p0 : vec3 float) (v1 : float) (p1 : vec3 float) :=
  GDist t len q v0 p0 v1 p1.
Fixpoint mkcomps (l : list float) : list (scomp (T:=float)) :=
  match l with
  | a :: b :: c :: d :: e :: r => SComp a b c d e :: mkcomps r
  | _ => []
  end.

Definition run_rotate (d r : vec3 float) := ofv (rotate min_acc d r).
Definition run_material_ok (es ns : list float) := material_ok es ns.
Definition run_dndx k (es ns : list float) (q beta : float) := dndx k es ns q beta.
Definition run_ckvgen k (es ns : list float) d (n : nat) (s : list float) :=
  ofphotons (ckv_generate min_acc k es ns d n s).
Definition run_offload (r : option (Z * list float)) (s : list float) : option (Z * nat) :=
  match r with None => None | Some (n, s') => Some (n, (length s - length s')%nat) end.
Definition run_ckvoff k (es ns : list float) (q len v0 v1 : float) (s : list float) :=
  run_offload (ckv_offload k es ns q len v0 v1 s) s.
Definition run_scgen k (cs : list float) d (n : nat) (s : list float) :=
  ofphotons (scint_generate k (mkcomps cs) d n s).
Definition run_scoff (yield res edep : float) (s : list float) :=
  run_offload (scint_offload yield res edep s) s.

(** offload -> generator chains: the generator runs on the distribution data the
    offload produces (= the step data, [mkdist]) for min(num_photons, maxn) photons
    on the rest of the stream.  Result: count, draws of the offload, photons
    (draw counts relative to the stream left by the offload) *)
Definition run_chain (off : option (Z * list float)) (s : list float)
    (gen : nat -> list float -> list (photon (T:=float) * nat)) (maxn : nat) :=
  match off with
  | None => None
  | Some (n, s') => Some (n, (length s - length s')%nat, ofphotons (gen (Nat.min (Z.to_nat n) maxn) s'))
  end.
Definition run_ckvchain k (es ns : list float) (d : gdist (T:=float)) (maxn : nat) (s : list float) :=
  run_chain (ckv_offload k es ns (gd_charge d) (gd_len d) (gd_v0 d) (gd_v1 d) s) s
            (fun n s' => ckv_generate min_acc k es ns d n s') maxn.
Definition run_scchain k (yield res edep : float) (cs : list float) (d : gdist (T:=float)) (maxn : nat) (s : list float) :=
  run_chain (scint_offload yield res edep s) s (fun n s' => scint_generate k (mkcomps cs) d n s') maxn.
