(** * C20 model: optical photon generation (Cerenkov + scintillation).

    One definition per C++ class/function of src/celeritas/optical/
    {CerenkovGenerator,CerenkovDndxCalculator,CerenkovOffload,CerenkovParams,
     ScintillationGenerator,ScintillationOffload}.hh|.cc, plus
    celeritas/grid/GenericCalculator.hh (linear interpolation on a
    NonuniformGrid).  Same operations in the same order, over any [Num];
    random numbers come from an explicit stream.  Executable; no proofs here. *)
From Coq Require Import ZArith List Bool.
From Celer Require Import Base.Num Base.Stream Base.Vec3 C15.Samplers.
Import ListNotations.
Local Open Scope num_scope.

Section Optical.
  Context {T : Type} `{Num T}.
  Notation M := (M T).

  (** ** Physical constants (native CGS values; supplied by the harness from
      celeritas/Constants.hh, arbitrary positive reals in the theorems) *)
  Record consts := Consts {
    k_clight : T;      (* constants::c_light *)
    k_dndx : T;        (* alpha_fine_structure / (hbar_planck * c_light) *)
    k_mev : T;         (* native_value_from(MevEnergy{1}) *)
    k_hc : T }.        (* h_planck * c_light *)

  (** ** GenericCalculator on (grid xs, values ys) *)
  Definition front (l : list T) : T := hd n0 l.
  Definition back (l : list T) : T := last l n0.
  Definition nthT (i : nat) (l : list T) : T := nth i l n0.

  (** celeritas::lower_bound on a sorted list = number of leading elements < x *)
  Fixpoint lower_bound (xs : list T) (x : T) : nat :=
    match xs with
    | [] => O
    | a :: r => if a <? x then S (lower_bound r x) else O
    end.
  (** NonuniformGrid::find: lower_bound, moved to the previous bin unless the
      value is exactly on a grid point *)
  Definition grid_find (xs : list T) (x : T) : nat :=
    let i := lower_bound xs x in
    if nthT i xs =? x then i else pred i.
  (** LinearInterpolator: slope = (-yl + yr)/(-xl + xr); fma(slope, -xl + x, yl) *)
  Definition interp (xl yl xr yr x : T) : T :=
    nfma ((- yl + yr) / (- xl + xr)) (- xl + x) yl.
  Definition gcalc (xs ys : list T) (x : T) : T :=
    if x <=? front xs then nthT 0 ys
    else if back xs <=? x then nthT (length xs - 1)%nat ys
    else let i := grid_find xs x in
         interp (nthT i xs) (nthT i ys) (nthT (S i) xs) (nthT (S i) ys) x.

  (** ** CerenkovParams: cumulative Cerenkov angle integral (trapezoid of 1/n^2) *)
  Fixpoint angle_integral_from (acc : T) (e0 n0_ : T) (es ns : list T) : list T :=
    match es, ns with
    | e1 :: es', r1 :: ns' =>
        let acc' := acc + nhalf * (e1 - e0) * (n1 / (n0_ * n0_) + n1 / (r1 * r1)) in
        acc' :: angle_integral_from acc' e1 r1 es' ns'
    | _, _ => []
    end.
  Definition angle_integral (es ns : list T) : list T :=
    match es, ns with
    | e0 :: es', r0 :: ns' => n0 :: angle_integral_from n0 e0 r0 es' ns'
    | _, _ => []
    end.

  (** MaterialParams validation (CELER_VALIDATE, survives in release builds):
      energy grid and refractive index strictly increasing *)
  Fixpoint increasing (l : list T) : bool :=
    match l with
    | a :: ((b :: _) as r) => (a <? b) && increasing r
    | _ => true
    end.
  Definition material_ok (es ns : list T) : bool :=
    (2 <=? length es)%nat && (length es =? length ns)%nat && increasing es && increasing ns.

  (** ** CerenkovDndxCalculator(material, charge)(beta) *)
  Definition clamp_to_nonneg (v : T) : T := if v <? n0 then n0 else v.
  Definition dndx (k : consts) (es ns : list T) (charge beta : T) : T :=
    let integ := angle_integral es ns in
    let zsq := charge * charge in
    let inv_beta := n1 / beta in
    let energy_max := back es in
    if gcalc es ns energy_max <? inv_beta then n0
    else
      let energy :=
        if inv_beta <? nthT 0 ns then
          energy_max - front es - gcalc es integ energy_max * (inv_beta * inv_beta)
        else
          let energy_min := gcalc ns es inv_beta in
          energy_max - energy_min
          - (gcalc es integ energy_max - gcalc es integ energy_min) * (inv_beta * inv_beta) in
      clamp_to_nonneg (zsq * k_dndx k * (energy * k_mev k)).

  (** ** GeneratorDistributionData (num_photons is the caller's loop count) *)
  Record gdist := GDist {
    gd_time : T; gd_len : T; gd_charge : T;
    gd_v0 : T; gd_p0 : vec3 T; gd_v1 : T; gd_p1 : vec3 T }.
  Record photon := Photon {
    ph_energy : T; ph_pos : vec3 T; ph_dir : vec3 T; ph_pol : vec3 T; ph_time : T }.

  (** common tail of both generators: position and time at step fraction u *)
  Definition photon_pos (d : gdist) (u : T) : vec3 T :=
    axpy u (vsub (gd_p1 d) (gd_p0 d)) (gd_p0 d).
  Definition photon_time (k : consts) (d : gdist) (u : T) : T :=
    gd_time d + u * gd_len d
      / (gd_v0 d * k_clight k + u * nhalf * ((gd_v1 d - gd_v0 d) * k_clight k)).

  (** ** CerenkovGenerator *)
  Record ckv_setup := CkvSetup {
    cs_dndx_pre : T; cs_dndx_max : T; cs_delta_n : T;
    cs_inv_beta : T; cs_sin_max_sq : T; cs_dir : vec3 T }.
  Definition ckv_construct (k : consts) (es ns : list T) (d : gdist) : ckv_setup :=
    let dpre := dndx k es ns (gd_charge d) (gd_v0 d) in
    let dpost := dndx k es ns (gd_charge d) (gd_v1 d) in
    let inv_beta := n2 / (gd_v0 d + gd_v1 d) in
    let cos_max := inv_beta / gcalc es ns (back es) in
    CkvSetup dpre (nmax dpre dpost) (dpost - dpre) inv_beta (n1 - cos_max * cos_max)
             (make_unit_vector (vsub (gd_p1 d) (gd_p0 d))).

  (** inner do/while: energy uniform on the grid until cos(theta) <= 1 *)
  Fixpoint ckv_energy_inner (fuel : nat) (es ns : list T) (inv_beta : T) : M (T * T) :=
    match fuel with
    | O => fail
    | S f =>
        e <- uniform (front es) (back es) ;;
        let c := inv_beta / gcalc es ns e in
        if n1 <? c then ckv_energy_inner f es ns inv_beta else ret (e, c)
    end.
  (** outer do/while: RejectionSampler{sin^2, sin_max^2}; returns
      (energy, cos theta, sin^2 theta) *)
  Fixpoint ckv_energy (fuel big : nat) (es ns : list T) (st : ckv_setup) : M (T * T * T) :=
    match fuel with
    | O => fail
    | S f =>
        '(e, c) <- ckv_energy_inner big es ns (cs_inv_beta st) ;;
        let s2 := n1 - c * c in
        rej <- rejection s2 (cs_sin_max_sq st) ;;
        if rej then ckv_energy f big es ns st else ret (e, c, s2)
    end.
  (** step fraction by rejection on the linear dN/dx *)
  Fixpoint ckv_fraction (fuel : nat) (st : ckv_setup) : M T :=
    match fuel with
    | O => fail
    | S f =>
        u <- uniform n0 n1 ;;
        v <- uniform n0 (cs_dndx_max st) ;;
        if cs_dndx_pre st + u * cs_delta_n st <? v then ckv_fraction f st else ret u
    end.
  (** [rotf] = the rotate() function (Base/Vec3.v [rotate min_acc] for the
      current source; C20/RotateVariants.v has both versions) *)
  Definition ckv_photon_with (rotf : vec3 T -> vec3 T -> vec3 T) (k : consts) (es ns : list T)
      (d : gdist) (st : ckv_setup) : M photon :=
    fun s =>
    let big := S (length s) in
    ('(e, c, s2) <- ckv_energy big big es ns st ;;
     phi <- uniform n0 twopi ;;
     let dir := rotf (from_spherical c phi) (cs_dir st) in
     let pol := rotf (from_spherical (- nsqrt s2) phi) (cs_dir st) in
     u <- ckv_fraction big st ;;
     ret (Photon e (photon_pos d u) dir pol (photon_time k d u))) s.
  Definition ckv_photon (min_acc : T) (k : consts) (es ns : list T) (d : gdist)
      (st : ckv_setup) : M photon :=
    ckv_photon_with (rotate min_acc) k es ns d st.

  (** several photons from one generator object; stops at stream exhaustion.
      Result: photons generated (each with the cumulative number of draws) *)
  Fixpoint gen_many {A} (n : nat) (total : nat) (gen : M A) (s : list T) : list (A * nat) :=
    match n with
    | O => []
    | S m =>
        match gen s with
        | None => []
        | Some (p, s') => (p, (total - length s')%nat) :: gen_many m total gen s'
        end
    end.
  Definition ckv_generate (min_acc : T) (k : consts) (es ns : list T) (d : gdist)
      (n : nat) (s : list T) : list (photon * nat) :=
    gen_many n (length s) (ckv_photon min_acc k es ns d (ckv_construct k es ns d)) s.

  (** ** CerenkovOffload: mean speed, dN/dx, Poisson photon count.
      [None] inside the result = empty distribution (no photons requested) *)
  Definition ckv_offload (k : consts) (es ns : list T) (charge len v0 v1 : T) : M Z :=
    let beta := nhalf * (v0 + v1) in
    let per_len := dndx k es ns charge beta in
    if per_len =? n0 then ret 0%Z
    else poisson true (per_len * len).

  (** ** ScintillationGenerator *)
  Record scomp := SComp {
    sc_frac : T; sc_mean : T; sc_sigma : T; sc_rise : T; sc_fall : T }.
  (** MatScintSpecInserter: yield fractions normalised by their sum *)
  Definition yield_pdf (cs : list scomp) : list T :=
    let tot := fold_left (fun a c => a + sc_frac c) cs n0 in
    map (fun c => sc_frac c / tot) cs.
  Definition scomp_ok (c : scomp) : bool :=
    (n0 <? sc_frac c) && (n0 <? sc_mean c) && (n0 <? sc_sigma c)
    && (n0 <=? sc_rise c) && (n0 <? sc_fall c).

  Fixpoint scint_risefall (fuel : nat) (rise fall : T) : M T :=
    match fuel with
    | O => fail
    | S f =>
        t <- exponential (n1 / fall) ;;
        let target := - nexpm1 (- t / rise) in
        rej <- rejection target n1 ;;
        if rej then scint_risefall f rise fall else ret t
    end.

  (** polarisation: from two perpendicular unit vectors mixed by angle pi*w *)
  Definition scint_pol (cost phi w : T) : vec3 T :=
    let sgn := if n0 <? cost then - n1 else n1 in
    let temp := from_spherical (sgn * nsqrt (n1 - cost * cost)) phi in
    let perp := V3 (- nsin phi) (ncos phi) n0 in
    let sinp := nsin (npi * w) in
    let cosp := ncos (npi * w) in
    make_unit_vector (V3 (cosp * vx temp + sinp * vx perp)
                         (cosp * vy temp + sinp * vy perp)
                         (cosp * vz temp + sinp * vz perp)).

  Definition wavelength_to_energy (k : consts) (lambda : T) : T := k_hc k / lambda / k_mev k.

  (** one photon; [spare] is the state of the member NormalDistribution
      (kept across photons by the move-assignment) *)
  Definition scint_photon (k : consts) (cs : list scomp) (d : gdist) (spare : option T)
      : M (photon * option T) :=
    fun s =>
    let big := S (length s) in
    (idx <- selector (yield_pdf cs) n1 ;;
     let comp := nth idx cs (SComp n0 n0 n0 n0 n0) in
     '(lambda, spare') <- normal_step (sc_mean comp) (sc_sigma comp) spare ;;
     let energy := wavelength_to_energy k lambda in
     cost <- uniform (- n1) n1 ;;
     phi <- uniform n0 twopi ;;
     let dir := from_spherical cost phi in
     w <- uniform n0 n1 ;;
     let pol := scint_pol cost phi w in
     u <- (if gd_charge d =? n0 then ret n1 else uniform n0 n1) ;;
     let t0 := photon_time k d u in
     dt <- (if sc_rise comp =? n0 then exponential (n1 / sc_fall comp)
            else scint_risefall big (sc_rise comp) (sc_fall comp)) ;;
     ret (Photon energy (photon_pos d u) dir pol (t0 + dt), spare')) s.

  Fixpoint scint_many (n total : nat) (k : consts) (cs : list scomp) (d : gdist)
      (spare : option T) (s : list T) : list (photon * nat) :=
    match n with
    | O => []
    | S m =>
        match scint_photon k cs d spare s with
        | None => []
        | Some ((p, spare'), s') =>
            (p, (total - length s')%nat) :: scint_many m total k cs d spare' s'
        end
    end.
  Definition scint_generate (k : consts) (cs : list scomp) (d : gdist) (n : nat) (s : list T) :=
    scint_many n (length s) k cs d None s.

  (** ** ScintillationOffload: mean = yield * edep; Gaussian (clamped, rounded)
      above 10 photons, Poisson below, nothing for a non-positive mean *)
  Definition scint_offload (yield res_scale edep : T) : M Z :=
    let mean := yield * edep in
    if nofZ 10 <? mean then
      '(x, _) <- normal_step mean (res_scale * nsqrt mean) None ;;
      ret (to_uint32 (clamp_to_nonneg (x + nhalf)))
    else if n0 <? mean then poisson true mean
    else ret 0%Z.
End Optical.
