(** * The two versions of corecel/math/ArrayUtils.hh [rotate], over [Num].

    [rotate_old]: the code as pinned (middle branch: cosphi = x / sqrt(x^2+y^2),
    sinphi = sqrt(1 - cosphi^2) -- findings F10 and "NaN for z-aligned rot").
    [rotate_new]: a CANDIDATE REPAIR, not in the tree (tried upstream, withdrawn
    because an existing geometry test pins sampled directions; middle branch taken when x^2 + y^2 > 0,
    cosphi = x * inv_rho, sinphi = y * inv_rho, else (1, 0)).
    Base/Vec3.v [rotate] is the current source (= [rotate_old])
    (C20/RotateProofs.v, lemma [rotate_base_eq]).  Executable; no proofs. *)
From Coq Require Import ZArith List.
From Celer Require Import Base.Num Base.Vec3.
Local Open Scope num_scope.

Section RotateVariants.
  Context {T : Type} `{Num T}.

  Definition rot_cs_old (min_acc : T) (rot : vec3 T) : T * T :=
    let sintheta := nsqrt (n1 - nsq (vz rot)) in
    if min_acc <=? sintheta then
      let inv := n1 / sintheta in (vx rot * inv, vy rot * inv)
    else if n0 <? sintheta then
      let c := vx rot / nsqrt (nsq (vx rot) + nsq (vy rot)) in (c, nsqrt (n1 - nsq c))
    else (n1, n0).

  Definition rot_cs_new (min_acc : T) (rot : vec3 T) : T * T :=
    let sintheta := nsqrt (n1 - nsq (vz rot)) in
    if min_acc <=? sintheta then
      let inv := n1 / sintheta in (vx rot * inv, vy rot * inv)
    else if n0 <? nsq (vx rot) + nsq (vy rot) then
      let inv := n1 / nsqrt (nsq (vx rot) + nsq (vy rot)) in (vx rot * inv, vy rot * inv)
    else (n1, n0).

  (** the rotation itself, given (cosphi, sinphi) *)
  Definition rotate_raw_with (cs : T * T) (dir rot : vec3 T) : vec3 T :=
    let sintheta := nsqrt (n1 - nsq (vz rot)) in
    let '(cosphi, sinphi) := cs in
    let a := vz rot * vx dir + sintheta * vz dir in
    V3 (a * cosphi - sinphi * vy dir)
       (a * sinphi + cosphi * vy dir)
       (- sintheta * vx dir + vz rot * vz dir).

  Definition rotate_old (min_acc : T) (dir rot : vec3 T) : vec3 T :=
    make_unit_vector (rotate_raw_with (rot_cs_old min_acc rot) dir rot).
  Definition rotate_new (min_acc : T) (dir rot : vec3 T) : vec3 T :=
    make_unit_vector (rotate_raw_with (rot_cs_new min_acc rot) dir rot).
End RotateVariants.
