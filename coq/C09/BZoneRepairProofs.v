(** * C09 proofs (instance R): the bounding-zone algebra after the repair of calc_difference alone *)
From Coq Require Import Reals ZArith List Bool Lra Lia Psatz.
From Celer Require Import Base.Num Base.NumR Base.Vec3 C12.Solver C12.Surfaces C12.Transforms
  C09.BZone C09.BZoneProofs C09.BZoneRepair.
Import ListNotations.
Local Open Scope R_scope.

(** with the repaired difference the coded intersection is sound for EVERY combination of flags *)
Theorem bz_intersection_repaired_sound a b RA RB :
  zone_sound a RA -> zone_sound b RB -> zone_sound (bz_intersection_fix a b) (fun p => RA p /\ RB p).
Proof. apply bz_intersection_fix_sound. Qed.

Theorem bz_union_dfix_sound_same a b RA RB : zneg a = zneg b ->
  zone_sound a RA -> zone_sound b RB -> zone_sound (bz_union_dfix a b) (fun p => RA p \/ RB p).
Proof.
  intros E HA HB.
  replace (bz_union_dfix a b) with (bz_union_fix a b); [now apply bz_union_fix_sound|].
  unfold bz_union_dfix, bz_union_fix. rewrite E. now destruct (zneg b).
Qed.

(** the swapped operands of the mixed union branches remain: box(1) | ~box(9) *)
Theorem bz_union_dfix_refuted :
  exists a b RA RB p, zone_sound a RA /\ zone_sound b RB /\ zneg (bz_union_dfix a b) = true /\
    in_box (zext (bz_union_dfix a b)) p = false /\ ~ (RA p \/ RB p).
Proof.
  exists (zcube 1 false), (zcube 9 true), (in_cube 1), (fun p => ~ in_cube 9 p), (V3 5 5 5).
  split; [apply zcube_sound_pos|]. split; [apply zcube_sound_neg|]. split; [reflexivity|].
  assert (V9 : box_valid (cube 9) = true) by (cube_eval; reflexivity).
  assert (E19 : encloses (cube 1) (cube 9) = false) by (cube_eval; reflexivity).
  assert (E91 : encloses (cube 9) (cube 1) = true) by (cube_eval; reflexivity).
  split.
  - unfold bz_union_dfix, zcube; cbn [zneg zint zext]. unfold calc_difference_fix. now rewrite V9, E19, E91.
  - intros [H|H].
    + revert H. unfold in_cube. cube_eval. discriminate.
    + apply H. unfold in_cube. cube_eval. reflexivity.
Qed.

Example bz_intersection_repaired_example :
  zone_sound (bz_intersection_fix (zcube 9 false) (zcube 1 true)) (fun p => in_cube 9 p /\ ~ in_cube 1 p).
Proof. apply bz_intersection_repaired_sound; [apply zcube_sound_pos|apply zcube_sound_neg]. Qed.
