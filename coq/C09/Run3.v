(** * C09: float entry point for BoundingZone.cc with the repaired calc_difference (tie2.py). No proofs. *)
From Coq Require Import ZArith List Bool Floats.
From Celer Require Import Base.Num Base.NumF Base.Vec3 C09.BZone C09.BZoneRepair C09.Run2.
Import ListNotations.
Open Scope float_scope.
Definition run_bz_dfix (isect : bool) (la : list float) (na : bool) (lb : list float) (nb : bool) :=
  zone_to ((if isect then bz_intersection_fix else bz_union_dfix) (zone_of la na) (zone_of lb nb)).
