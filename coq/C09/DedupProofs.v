(** * C09 proofs (instance R): soft de-duplication changes the sense of a point
    only within a tolerance-scaled distance of an inserted surface.

    1. [soft_eq_bound]: SoftEqual's criterion as a bound depending on ONE operand.
    2. pairwise theorems for SoftSurfaceEqual's ACTUAL criteria: aligned and
       general planes, centred / general spheres, centred / aligned cylinders.
    3. LocalSurfaceInserter: whatever near match the hash-table iteration meets
       first, the returned surface is linked to the inserted one by a chain of
       stored, pairwise soft-equal surfaces ([lsi_replay_chain]); hence a point
       clear of EVERY inserted surface keeps its sense ([lsi_dedup_sound]).  The
       returned surface itself may be farther than the tolerance from the
       inserted one ([lsi_drift_refuted]).
    4. SurfaceGridHash: hash points within eps of each other share a bin
       ([grid_keys_meet]); soft-equal surfaces whose hash points are farther
       apart than eps exist and are missed ([grid_hash_complete_refuted]). *)
From Coq Require Import Reals ZArith List Bool Lra Lia Psatz.
From Celer Require Import Base.Num Base.NumR Base.Vec3 C12.Solver C12.Surfaces C12.SurfacesProofs
  C09.Shapes C09.ShapesProofs C09.Dedup.
Import ListNotations.
Local Open Scope R_scope.

Notation surf := (surface R).

Ltac rhyps :=
  repeat match goal with
  | H : Rleb _ _ = true |- _ => apply Rleb_true in H
  | H : Rleb _ _ = false |- _ => apply Rleb_false in H
  | H : Rltb _ _ = true |- _ => apply Rltb_true in H
  | H : Rltb _ _ = false |- _ => apply Rltb_false in H
  | H : _ && _ = true |- _ => apply andb_true_iff in H; destruct H
  end.

(** ** 1. SoftEqual *)
Definition se_delta (rel abs_ x : R) : R := Rmax abs_ (rel / (1 - rel) * Rabs x).

Lemma fmax2_R a b : fmax2 a b = Rmax a b.
Proof. unfold fmax2. numR. unfold Rmax. destruct (Rltb_spec a b), (Rle_dec a b); lra. Qed.

Lemma scaled_bound (k M0 M D thr : R) : 0 < k < 1 -> 0 <= M0 -> M <= M0 + D ->
  D < Rmax thr (k * M) -> D < Rmax thr (k / (1 - k) * M0).
Proof.
  intros Hk HM0 HM HD.
  destruct (Rle_dec (k * M) thr) as [Hle|Hgt].
  - rewrite Rmax_left in HD by lra. eapply Rlt_le_trans; [exact HD|apply Rmax_l].
  - rewrite Rmax_right in HD by lra.
    assert (H1 : (1 - k) * D < k * M0) by nra.
    eapply Rlt_le_trans; [|apply Rmax_r].
    unfold Rdiv. rewrite (Rmult_comm k), Rmult_assoc.
    apply Rmult_lt_reg_l with (1 - k); [lra|]. rewrite <- Rmult_assoc, Rinv_r by lra. lra.
Qed.

Lemma soft_eq_bound rel abs_ a b : 0 < rel < 1 ->
  soft_eq rel abs_ a b = true -> Rabs (a - b) < se_delta rel abs_ a.
Proof.
  intros Hr Hs. unfold soft_eq in Hs. rewrite !fmax2_R in Hs. numR. apply Rltb_true in Hs.
  unfold se_delta. apply (scaled_bound rel (Rabs a) (Rmax (Rabs a) (Rabs b))); auto using Rabs_pos.
  assert (Htri : Rabs b <= Rabs a + Rabs (a - b)).
  { replace b with (a - (a - b)) at 1 by ring. eapply Rle_trans; [apply Rabs_triang|]. rewrite Rabs_Ropp. lra. }
  pose proof (Rabs_pos (a - b)). apply Rmax_lub; lra.
Qed.

(** ** sense equality from sign equality of the surface function *)
Lemma sense_same (a b : surf) p :
  (surf_f a p < 0 <-> surf_f b p < 0) -> (0 < surf_f a p <-> 0 < surf_f b p) ->
  forall sn, sense_holds sn a p = sense_holds sn b p.
Proof.
  intros Hin Hout sn. destruct sn.
  - destruct (sense_holds BIn a p) eqn:E1, (sense_holds BIn b p) eqn:E2; try reflexivity.
    + apply sense_in_iff, Hin, sense_in_iff in E1. congruence.
    + apply sense_in_iff, Hin, sense_in_iff in E2. congruence.
  - destruct (sense_holds BOut a p) eqn:E1, (sense_holds BOut b p) eqn:E2; try reflexivity.
    + apply sense_out_iff, Hout, sense_out_iff in E1. congruence.
    + apply sense_out_iff, Hout, sense_out_iff in E2. congruence.
Qed.
Lemma axis_eqb_eq t t' : axis_eqb t t' = true -> t = t'.
Proof. destruct t, t'; cbn; congruence. Qed.

(** ** vectors *)
Definition vnorm (v : vec3 R) : R := sqrt (vdot v v).
Lemma vdot_nonneg v : 0 <= vdot v v.
Proof. destruct v as [x y z]. unfold vdot. cbn. nra. Qed.
Lemma vnorm_nonneg v : 0 <= vnorm v.
Proof. apply sqrt_pos. Qed.
Lemma vnorm_sq v : vnorm v * vnorm v = vdot v v.
Proof. apply sqrt_sqrt, vdot_nonneg. Qed.
Lemma vnorm_le_of_sq v k : 0 <= k -> vdot v v <= k * k -> vnorm v <= k.
Proof. intros Hk Hsq. unfold vnorm. rewrite <- (sqrt_square k Hk). apply sqrt_le_1_alt. exact Hsq. Qed.
Lemma vdot_cauchy (u w : vec3 R) : vdot u w <= vnorm u * vnorm w.
Proof.
  assert (Hcs : vdot u w * vdot u w <= vdot u u * vdot w w).
  { destruct u as [a b c], w as [x y z]. unfold vdot. cbn.
    pose proof (Rle_0_sqr (b * z - c * y)). pose proof (Rle_0_sqr (c * x - a * z)). pose proof (Rle_0_sqr (a * y - b * x)).
    unfold Rsqr in *.
    assert (Hl : (a * a + b * b + c * c) * (x * x + y * y + z * z) - (a * x + b * y + c * z) * (a * x + b * y + c * z)
                 = (b * z - c * y) * (b * z - c * y) + (c * x - a * z) * (c * x - a * z) + (a * y - b * x) * (a * y - b * x)) by ring.
    lra. }
  destruct (Rle_or_lt (vdot u w) 0) as [Hn|Hp].
  - pose proof (Rmult_le_pos _ _ (vnorm_nonneg u) (vnorm_nonneg w)). lra.
  - rewrite <- (sqrt_square (vdot u w)) by lra. unfold vnorm. rewrite <- sqrt_mult by apply vdot_nonneg.
    apply sqrt_le_1_alt. exact Hcs.
Qed.
Lemma vnorm_triangle (u w : vec3 R) : vnorm (vadd u w) <= vnorm u + vnorm w.
Proof.
  apply vnorm_le_of_sq.
  - pose proof (vnorm_nonneg u). pose proof (vnorm_nonneg w). lra.
  - pose proof (vdot_cauchy u w) as Hc. pose proof (vnorm_sq u) as Hu. pose proof (vnorm_sq w) as Hw.
    assert (He : vdot (vadd u w) (vadd u w) = vdot u u + 2 * vdot u w + vdot w w).
    { destruct u as [a b c], w as [x y z]. unfold vdot, vadd. cbn. numR. ring. }
    rewrite He. nra.
Qed.
Lemma vnorm_neg (u : vec3 R) : vnorm (vneg u) = vnorm u.
Proof. unfold vnorm. f_equal. destruct u. unfold vdot, vneg. cbn. numR. ring. Qed.
(** | |p-o1| - |p-o2| | <= |o1 - o2| *)
Lemma vnorm_shift (p o1 o2 : vec3 R) :
  Rabs (vnorm (vsub p o1) - vnorm (vsub p o2)) <= vnorm (vsub o1 o2).
Proof.
  pose proof (vnorm_triangle (vsub p o1) (vsub o1 o2)) as H1.
  pose proof (vnorm_triangle (vsub p o2) (vneg (vsub o1 o2))) as H2. rewrite vnorm_neg in H2.
  replace (vadd (vsub p o1) (vsub o1 o2)) with (vsub p o2) in H1
    by (destruct p, o1, o2; unfold vadd, vsub; cbn; numR; f_equal; ring).
  replace (vadd (vsub p o2) (vneg (vsub o1 o2))) with (vsub p o1) in H2
    by (destruct p, o1, o2; unfold vadd, vsub, vneg; cbn; numR; f_equal; ring).
  apply Rabs_le. lra.
Qed.
Lemma norm_vnorm (v : vec3 R) : norm v = vnorm v.
Proof. unfold norm, vnorm. rewrite dot_vdot. reflexivity. Qed.
Lemma distance_vnorm (a b : vec3 R) : distance a b = vnorm (vsub a b).
Proof.
  unfold distance, vnorm. numR. f_equal. destruct a, b. unfold vdot, vsub. cbn. numR. ring.
Qed.

(** soft_eq_distance as a bound depending on one operand *)
Definition sed_delta (abs_ : R) (o : vec3 R) : R := Rmax abs_ (abs_ / (1 - abs_) * vnorm o).
Lemma soft_eq_distance_bound abs_ (a b : vec3 R) : 0 < abs_ < 1 ->
  soft_eq_distance abs_ a b = true -> vnorm (vsub a b) < sed_delta abs_ a.
Proof.
  intros Hr Hs. unfold soft_eq_distance in Hs. rewrite !fmax2_R, distance_vnorm, !norm_vnorm in Hs.
  numR. apply Rltb_true in Hs. unfold sed_delta.
  apply (scaled_bound abs_ (vnorm a) (Rmax (vnorm a) (vnorm b))); auto using vnorm_nonneg.
  assert (Htri : vnorm b <= vnorm a + vnorm (vsub a b)).
  { pose proof (vnorm_triangle a (vneg (vsub a b))) as Ht. rewrite vnorm_neg in Ht.
    replace (vadd a (vneg (vsub a b))) with b in Ht
      by (destruct a, b; unfold vadd, vsub, vneg; cbn; numR; f_equal; ring).
    exact Ht. }
  pose proof (vnorm_nonneg (vsub a b)). apply Rmax_lub; lra.
Qed.

(** ** 2. pairwise theorems.  [vtol]: the tolerances the construction accepts *)
Definition vtol (tl : tolerance R) : Prop := 0 < t_rel tl < 1 /\ 0 < t_abs tl < 1 /\ 0 <= t_emach tl.
Definition sse_t (tl : tolerance R) (a b : surf) : bool := sse (t_rel tl) (t_abs tl) (t_emach tl) a b.

(** radial surfaces: sign (rho^2 - rsq) with rho >= 0 *)
Lemma radial_same rho1 rho2 rsq1 rsq2 dr dc :
  0 <= rho1 -> 0 <= rho2 -> 0 <= rsq1 -> 0 <= rsq2 ->
  Rabs (rho1 - rho2) <= dc -> Rabs (sqrt rsq1 - sqrt rsq2) < dr ->
  dr + dc < Rabs (rho1 - sqrt rsq1) ->
  (rho1 * rho1 - rsq1 < 0 <-> rho2 * rho2 - rsq2 < 0) /\ (0 < rho1 * rho1 - rsq1 <-> 0 < rho2 * rho2 - rsq2).
Proof.
  intros H1 H2 Hq1 Hq2 Hc Hr Hclear.
  pose proof (sqrt_pos rsq1) as Hs1. pose proof (sqrt_pos rsq2) as Hs2.
  assert (E1 : rsq1 = sqrt rsq1 * sqrt rsq1) by (symmetry; now apply sqrt_sqrt).
  assert (E2 : rsq2 = sqrt rsq2 * sqrt rsq2) by (symmetry; now apply sqrt_sqrt).
  set (r1 := sqrt rsq1) in *. set (r2 := sqrt rsq2) in *. clearbody r1 r2.
  rewrite E1, E2. clear E1 E2 Hq1 Hq2.
  unfold Rabs in *.
  destruct (Rcase_abs (rho1 - rho2)), (Rcase_abs (r1 - r2)), (Rcase_abs (rho1 - r1)); split; split; intros; nra.
Qed.

Definition clear_at (tl : tolerance R) (s : surf) (p : vec3 R) : Prop :=
  let rel := t_rel tl in let abs_ := t_abs tl in
  match s with
  | SPlaneAligned ax d => se_delta rel abs_ d < Rabs (vget ax p - d)
  | SPlane n d =>
      vdot n n = 1 /\ se_delta rel abs_ d + sqrt (rel * rel + t_emach tl) * vnorm p < Rabs (vdot n p - d)
  | SSphereCentered rsq =>
      0 <= rsq /\ se_delta rel abs_ (sqrt rsq) < Rabs (vnorm p - sqrt rsq)
  | SCylCentered t rsq =>
      0 <= rsq /\ se_delta rel abs_ (sqrt rsq)
                  < Rabs (vnorm (vset t 0 p) - sqrt rsq)
  | SSphere o rsq =>
      0 <= rsq /\ se_delta rel abs_ (sqrt rsq) + sed_delta abs_ o < Rabs (vnorm (vsub p o) - sqrt rsq)
  | SCylAligned t ou ov rsq =>
      0 <= rsq /\ se_delta rel abs_ (sqrt rsq) + sed_delta abs_ (cyl_origin t ou ov)
                  < Rabs (vnorm (vsub (vset t 0 p) (cyl_origin t ou ov)) - sqrt rsq)
  | _ => False
  end.

Lemma vset_uv t (p : vec3 R) :
  vdot (vset t 0 p) (vset t 0 p) = sq (vget (u_axis t) p) + sq (vget (v_axis t) p).
Proof. destruct t, p; unfold vdot, vset, vget, u_axis, v_axis, sq; cbn; ring. Qed.
Lemma cyl_uv t ou ov (p : vec3 R) :
  vdot (vsub (vset t 0 p) (cyl_origin t ou ov)) (vsub (vset t 0 p) (cyl_origin t ou ov))
  = sq (vget (u_axis t) p - ou) + sq (vget (v_axis t) p - ov).
Proof.
  destruct t, p; unfold cyl_origin, vdot, vsub, vset, vget, u_axis, v_axis, vzero, sq; cbn; numR; ring.
Qed.

Lemma plane_signs (v v' d d' dl e : R) :
  Rabs (d - d') < dl -> Rabs (v - v') <= e -> dl + e < Rabs (v - d) ->
  (v - d < 0 <-> v' - d' < 0) /\ (0 < v - d <-> 0 < v' - d').
Proof.
  intros H1 H2 H3. unfold Rabs in *.
  destruct (Rcase_abs (d - d')), (Rcase_abs (v - v')), (Rcase_abs (v - d)); split; split; intros; lra.
Qed.

(** unit normals with 1/mu^2 - 1 <= E are closer than sqrt E *)
Lemma normals_close (n n' : vec3 R) E : vdot n n = 1 -> vdot n' n' = 1 ->
  0 < vdot n n' -> 1 / (vdot n n' * vdot n n') - 1 <= E -> vnorm (vsub n n') <= sqrt E.
Proof.
  intros Un Un' Hmu HE. set (mu := vdot n n') in *.
  assert (Hnn : vdot (vsub n n') (vsub n n') = 2 - 2 * mu).
  { unfold mu. destruct n, n'. unfold vdot, vsub in *. cbn in *. numR. nra. }
  assert (Hmu1 : mu <= 1) by (pose proof (vdot_nonneg (vsub n n')); lra).
  assert (Hm2 : 0 < mu * mu) by nra.
  assert (Hfac : (2 - 2 * mu) * (mu * mu) <= 1 - mu * mu).
  { assert (0 <= (1 - mu) * (1 - mu) * (1 + 2 * mu)) by (apply Rmult_le_pos; nra). nra. }
  assert (Hinv : 1 / (mu * mu) - 1 = (1 - mu * mu) / (mu * mu)) by (field; lra).
  assert (2 - 2 * mu <= (1 - mu * mu) / (mu * mu)).
  { apply Rmult_le_reg_r with (mu * mu); [lra|]. unfold Rdiv. rewrite Rmult_assoc, Rinv_l by lra. lra. }
  unfold vnorm. apply sqrt_le_1_alt. lra.
Qed.
Lemma vdot_diff_bound (n n' p : vec3 R) : Rabs (vdot n p - vdot n' p) <= vnorm (vsub n n') * vnorm p.
Proof.
  pose proof (vdot_cauchy (vsub n n') p) as Hc1.
  pose proof (vdot_cauchy (vneg (vsub n n')) p) as Hc2. rewrite vnorm_neg in Hc2.
  assert (Hlin : vdot (vsub n n') p = vdot n p - vdot n' p)
    by (destruct n, n', p; unfold vdot, vsub; cbn; numR; ring).
  assert (Hlin2 : vdot (vneg (vsub n n')) p = - (vdot n p - vdot n' p))
    by (destruct n, n', p; unfold vdot, vsub, vneg; cbn; numR; ring).
  apply Rabs_le. lra.
Qed.

Theorem soft_equal_pair_same_sense tl (a b : surf) p : vtol tl ->
  sse_t tl a b = true -> clear_at tl a p -> clear_at tl b p ->
  forall sn, sense_holds sn a p = sense_holds sn b p.
Proof.
  intros (Hrel & Habs & Hem) Hs Ca Cb.
  assert (Hsign : (surf_f a p < 0 <-> surf_f b p < 0) /\ (0 < surf_f a p <-> 0 < surf_f b p));
    [|destruct Hsign; now apply sense_same].
  revert Hs Ca Cb; unfold sse_t;
    destruct a as [t d|t r|r|t ou ov r|n d|o r|t o ts|abc def g|abc def ghi j],
             b as [t' d'|t' r'|r'|t' ou' ov' r'|n' d'|o' r'|t' o' ts'|abc' def' g'|abc' def' ghi' j'];
    cbn [sse clear_at]; try (intros; discriminate); try (intros; tauto); intros Hs Ca Cb.
  - (* planes aligned *)
    rhyps. apply axis_eqb_eq in H; subst t'.
    pose proof (soft_eq_bound _ _ _ _ Hrel H0) as Hb. unfold surf_f.
    apply (plane_signs _ _ _ _ (se_delta (t_rel tl) (t_abs tl) d) 0); try lra.
    unfold Rminus; rewrite Rplus_opp_r, Rabs_R0. lra.
  - (* cyl centred *)
    rhyps. apply axis_eqb_eq in H; subst t'. destruct Ca as [Hq Ca], Cb as [Hq' Cb].
    pose proof (soft_eq_bound _ _ _ _ Hrel H0) as Hb. unfold surf_f.
    rewrite <- !vset_uv, <- !vnorm_sq.
    apply (radial_same (vnorm (vset t 0 p)) (vnorm (vset t 0 p)) r r' (se_delta (t_rel tl) (t_abs tl) (sqrt r)) 0);
      auto using vnorm_nonneg; [unfold Rminus; rewrite Rplus_opp_r, Rabs_R0; lra|lra].
  - (* sphere centred *)
    destruct Ca as [Hq Ca], Cb as [Hq' Cb].
    pose proof (soft_eq_bound _ _ _ _ Hrel Hs) as Hb. unfold surf_f.
    replace (sq (vx p) + sq (vy p) + sq (vz p)) with (vnorm p * vnorm p)
      by (rewrite vnorm_sq; unfold vdot, sq; ring).
    apply (radial_same (vnorm p) (vnorm p) r r' (se_delta (t_rel tl) (t_abs tl) (sqrt r)) 0);
      auto using vnorm_nonneg; [unfold Rminus; rewrite Rplus_opp_r, Rabs_R0; lra|lra].
  - (* cyl aligned *)
    rhyps. apply axis_eqb_eq in H; subst t'. destruct Ca as [Hq Ca], Cb as [Hq' Cb].
    pose proof (soft_eq_bound _ _ _ _ Hrel H0) as Hb.
    pose proof (soft_eq_distance_bound _ _ _ Habs H1) as Hd. unfold surf_f.
    rewrite <- !cyl_uv, <- !vnorm_sq.
    apply (radial_same _ _ r r' (se_delta (t_rel tl) (t_abs tl) (sqrt r)) (sed_delta (t_abs tl) (cyl_origin t ou ov)));
      auto using vnorm_nonneg; try lra.
    eapply Rle_trans; [apply vnorm_shift|]. lra.
  - (* general planes *)
    destruct (negb (soft_eq (t_rel tl) (t_abs tl) d d')) eqn:Esd; [discriminate|].
    apply negb_false_iff in Esd. rhyps. numR. rewrite dot_vdot in *. rhyps.
    destruct Ca as [Un Ca], Cb as [Un' Cb].
    pose proof (soft_eq_bound _ _ _ _ Hrel Esd) as Hb.
    pose proof (normals_close n n' _ Un Un' H H0) as Hdn.
    pose proof (vdot_diff_bound n n' p) as Hdiff.
    pose proof (vnorm_nonneg p) as Hp0.
    assert (Hprod : vnorm (vsub n n') * vnorm p <= sqrt (t_rel tl * t_rel tl + t_emach tl) * vnorm p)
      by (apply Rmult_le_compat_r; lra).
    unfold surf_f.
    change (vx n * vx p + vy n * vy p + vz n * vz p) with (vdot n p).
    change (vx n' * vx p + vy n' * vy p + vz n' * vz p) with (vdot n' p).
    apply (plane_signs _ _ _ _ (se_delta (t_rel tl) (t_abs tl) d) (sqrt (t_rel tl * t_rel tl + t_emach tl) * vnorm p)); lra.
  - (* general spheres *)
    rhyps. destruct Ca as [Hq Ca], Cb as [Hq' Cb].
    pose proof (soft_eq_bound _ _ _ _ Hrel H) as Hb.
    pose proof (soft_eq_distance_bound _ _ _ Habs H0) as Hd. unfold surf_f.
    replace (sq (vx p - vx o) + sq (vy p - vy o) + sq (vz p - vz o)) with (vnorm (vsub p o) * vnorm (vsub p o))
      by (rewrite vnorm_sq; destruct p, o; unfold vdot, vsub, sq; cbn; numR; ring).
    replace (sq (vx p - vx o') + sq (vy p - vy o') + sq (vz p - vz o')) with (vnorm (vsub p o') * vnorm (vsub p o'))
      by (rewrite vnorm_sq; destruct p, o'; unfold vdot, vsub, sq; cbn; numR; ring).
    apply (radial_same _ _ r r' (se_delta (t_rel tl) (t_abs tl) (sqrt r)) (sed_delta (t_abs tl) o));
      auto using vnorm_nonneg; try lra.
    eapply Rle_trans; [apply vnorm_shift|]. lra.
Qed.

(** ** 3. LocalSurfaceInserter: chains *)
Section Chain.
  Variable tl : tolerance R.

  (** [s] is linked to [u] through stored surfaces, each soft-equal to the next *)
  Inductive chain_to (stored : list surf) : surf -> surf -> Prop :=
  | ch_refl s : chain_to stored s s
  | ch_step s t u : In t stored -> sse_t tl s t = true -> chain_to stored t u -> chain_to stored s u.

  Lemma chain_mono st1 st2 s u : (forall t, In t st1 -> In t st2) -> chain_to st1 s u -> chain_to st2 s u.
  Proof. intros Hsub Hc. induction Hc; [constructor|]. econstructor; eauto. Qed.

  Lemma indexed_nth {A} (l : list A) : forall k i x, In (i, x) (indexed k l) -> (k <= i)%nat /\ nth_error l (i - k) = Some x.
  Proof.
    induction l as [|a l IH]; intros k i x Hin; [destruct Hin|].
    cbn [indexed] in Hin. destruct Hin as [E|Hin].
    - inversion E; subst. split; [lia|]. now rewrite Nat.sub_diag.
    - destruct (IH _ _ _ Hin) as [Hle Hn]. split; [lia|].
      replace (i - k)%nat with (S (i - S k)) by lia. exact Hn.
  Qed.

  Lemma near_props (st : lsi_state R) s i t : In (i, t) (lsi_near tl st s) ->
    nth_error (ls_surfs st) i = Some t /\ sse_t tl s t = true.
  Proof.
    unfold lsi_near, lsi_candidates. intros Hin. apply filter_In in Hin. destruct Hin as [Hin Hs].
    apply filter_In in Hin. destruct Hin as [Hin _]. apply indexed_nth in Hin. destruct Hin as [_ Hn].
    rewrite Nat.sub_0_r in Hn. split; [exact Hn|exact Hs].
  Qed.

  Definition root_of (m : list (nat * nat)) (i : nat) : nat :=
    match find (fun kv => Nat.eqb (fst kv) i) m with Some kv => snd kv | None => i end.
  Lemma lsi_root_eq (st : lsi_state R) i : lsi_root st i = root_of (ls_merged st) i.
  Proof. reflexivity. Qed.
  Lemma root_no_key m i : (forall k v, In (k, v) m -> k <> i) -> root_of m i = i.
  Proof.
    intros Hno. unfold root_of. destruct (find _ m) as [[k v]|] eqn:E; [|reflexivity].
    apply find_some in E. destruct E as [Hin Hk]. cbn in Hk. apply Nat.eqb_eq in Hk. exfalso. eapply Hno; eauto.
  Qed.
  Lemma root_app m kv i : root_of (m ++ [kv]) i =
    match find (fun kv => Nat.eqb (fst kv) i) m with
    | Some kv' => snd kv'
    | None => if Nat.eqb (fst kv) i then snd kv else i
    end.
  Proof.
    unfold root_of. induction m as [|a m IH]; cbn [app find].
    - destruct (Nat.eqb (fst kv) i); reflexivity.
    - destruct (Nat.eqb (fst a) i); [reflexivity|exact IH].
  Qed.

  Definition lsi_inv (st : lsi_state R) : Prop :=
    (forall k v, In (k, v) (ls_merged st) -> (k < length (ls_surfs st))%nat) /\
    (forall i t, nth_error (ls_surfs st) i = Some t ->
       exists u, nth_error (ls_surfs st) (lsi_root st i) = Some u /\ chain_to (ls_surfs st) t u).

  Lemma lsi_inv_empty : lsi_inv (@lsi_empty R).
  Proof. split; [intros k v []|]. intros [|i] t; discriminate. Qed.

  (** the result of one call: the returned id names a stored surface linked to [s] *)
  Definition call_ok (st' : lsi_state R) (s : surf) (r : nat) : Prop :=
    exists u, nth_error (ls_surfs st') r = Some u /\ chain_to (ls_surfs st') s u.
  Definition extends (st st' : lsi_state R) : Prop := exists more, ls_surfs st' = ls_surfs st ++ more.

  Lemma in_app_l {A} (l m : list A) x : In x l -> In x (l ++ m).
  Proof. intros; apply in_or_app; auto. Qed.

  Lemma lsi_apply_step (st : lsi_state R) s r st' : lsi_inv st -> lsi_apply tl st s r = Some st' ->
    lsi_inv st' /\ call_ok st' s r /\ extends st st' /\ (forall t, In t (ls_surfs st') -> In t (ls_surfs st) \/ t = s).
  Proof.
    intros [Hkeys Hinv] Happ. unfold lsi_apply in Happ.
    destruct (lsi_outcomes tl st s) as [allowed stored] eqn:Eo.
    destruct (existsb (Nat.eqb r) allowed) eqn:Eex; [|discriminate]. inversion Happ; subst st'; clear Happ.
    apply existsb_exists in Eex. destruct Eex as [r' [Hin Er]]. apply Nat.eqb_eq in Er. subst r'.
    unfold lsi_outcomes in Eo.
    destruct (find (fun it => exact_eq s (snd it)) (lsi_near tl st s)) as [[i t]|] eqn:Ef.
    - (* exact match *)
      inversion Eo; subst allowed stored; clear Eo. destruct Hin as [<-|[]].
      apply find_some in Ef. destruct Ef as [Hnear _]. apply near_props in Hnear. destruct Hnear as [Hn Hs].
      cbn [fst]. destruct (Hinv i t Hn) as (u & Hu & Hc).
      split; [split; assumption|]. split; [exists u; split; [assumption|]; apply ch_step with t; [eapply nth_error_In; eauto|exact Hs|exact Hc]|].
      split; [exists []; now rewrite app_nil_r|auto].
    - destruct (lsi_near tl st s) as [|it near] eqn:En.
      + (* new surface *)
        inversion Eo; subst allowed stored; clear Eo. destruct Hin as [<-|[]].
        rewrite Nat.eqb_refl. cbn [ls_surfs ls_merged].
        set (n := length (ls_surfs st)).
        assert (Hnew : nth_error (ls_surfs st ++ [s]) n = Some s).
        { unfold n. rewrite nth_error_app2 by lia. now rewrite Nat.sub_diag. }
        split; [split|].
        * cbn [ls_surfs ls_merged]. intros k v Hkv. rewrite app_length. cbn. apply Hkeys in Hkv. lia.
        * cbn [ls_surfs]. intros i t Hn. rewrite lsi_root_eq. cbn [ls_merged].
          destruct (Nat.lt_ge_cases i n) as [Hlt|Hge].
          -- rewrite nth_error_app1 in Hn by exact Hlt. destruct (Hinv i t Hn) as (u & Hu & Hc).
             exists u. rewrite lsi_root_eq in Hu. split.
             ++ rewrite nth_error_app1; [exact Hu|]. apply nth_error_Some. congruence.
             ++ eapply chain_mono; [|exact Hc]. intros; now apply in_app_l.
          -- assert (i = n).
             { assert (i < length (ls_surfs st ++ [s]))%nat by (apply nth_error_Some; congruence).
               rewrite app_length in H. cbn in H. unfold n in *. lia. }
             subst i. rewrite Hnew in Hn. inversion Hn; subst t.
             rewrite root_no_key; [|intros k v Hkv; apply Hkeys in Hkv; unfold n; lia].
             exists s. split; [exact Hnew|constructor].
        * split; [exists s; split; [exact Hnew|constructor]|].
          split; [exists [s]; reflexivity|]. cbn [ls_surfs]. intros t Ht. apply in_app_or in Ht.
          destruct Ht as [Ht|[<-|[]]]; auto.
      + (* near match(es): chained to the root of one of them *)
        inversion Eo; subst allowed stored; clear Eo.
        change (In r (map (fun it0 : nat * surf => lsi_root st (fst it0)) (it :: near))) in Hin.
        apply in_map_iff in Hin. destruct Hin as [[i t] [Hr Hin]]. cbn [fst] in Hr.
        rewrite <- En in Hin. apply near_props in Hin. destruct Hin as [Hn Hs].
        destruct (Hinv i t Hn) as (u & Hu & Hc). rewrite Hr in Hu.
        set (n := length (ls_surfs st)).
        assert (Hrn : (r < n)%nat) by (apply nth_error_Some; congruence).
        replace (Nat.eqb r n) with false by (symmetry; apply Nat.eqb_neq; lia).
        cbn [ls_surfs ls_merged].
        assert (Hnew : nth_error (ls_surfs st ++ [s]) n = Some s).
        { unfold n. rewrite nth_error_app2 by lia. now rewrite Nat.sub_diag. }
        assert (Hsub : forall x, In x (ls_surfs st) -> In x (ls_surfs st ++ [s])) by (intros; now apply in_app_l).
        assert (Hcs : chain_to (ls_surfs st ++ [s]) s u).
        { apply ch_step with t; [apply Hsub; eapply nth_error_In; eauto|exact Hs|]. eapply chain_mono; eauto. }
        assert (Hur : nth_error (ls_surfs st ++ [s]) r = Some u) by (rewrite nth_error_app1; assumption).
        split; [split|].
        * cbn [ls_surfs ls_merged]. intros k v Hkv. rewrite app_length. cbn. apply in_app_or in Hkv.
          destruct Hkv as [Hkv|[E|[]]]; [apply Hkeys in Hkv; lia|inversion E; subst; fold n; lia].
        * cbn [ls_surfs]. intros j x Hj. rewrite lsi_root_eq. cbn [ls_merged]. rewrite root_app. cbn [fst snd].
          destruct (Nat.lt_ge_cases j n) as [Hlt|Hge].
          -- rewrite nth_error_app1 in Hj by exact Hlt. destruct (Hinv j x Hj) as (w & Hw & Hcw).
             rewrite lsi_root_eq in Hw. unfold root_of in Hw.
             destruct (find (fun kv => Nat.eqb (fst kv) j) (ls_merged st)) as [kv'|] eqn:Efind.
             ++ exists w. split; [rewrite nth_error_app1; [exact Hw|apply nth_error_Some; congruence]|].
                eapply chain_mono; eauto.
             ++ replace (Nat.eqb n j) with false by (symmetry; apply Nat.eqb_neq; lia).
                exists w. split; [rewrite nth_error_app1; [exact Hw|apply nth_error_Some; congruence]|].
                eapply chain_mono; eauto.
          -- assert (j = n).
             { assert (j < length (ls_surfs st ++ [s]))%nat by (apply nth_error_Some; congruence).
               rewrite app_length in H. cbn in H. unfold n in *. lia. }
             subst j. rewrite Hnew in Hj. inversion Hj; subst x.
             destruct (find (fun kv => Nat.eqb (fst kv) n) (ls_merged st)) as [[k v]|] eqn:Efind.
             ++ apply find_some in Efind. destruct Efind as [Hkv Hk]. cbn in Hk. apply Nat.eqb_eq in Hk. subst k.
                apply Hkeys in Hkv. unfold n in Hkv. lia.
             ++ rewrite Nat.eqb_refl. exists u. split; assumption.
        * split; [exists u; split; assumption|].
          split; [exists [s]; reflexivity|]. cbn [ls_surfs]. intros x Hx. apply in_app_or in Hx.
          destruct Hx as [Hx|[<-|[]]]; auto.
  Qed.

  Lemma call_ok_extends (st st' : lsi_state R) s r : extends st st' -> call_ok st s r -> call_ok st' s r.
  Proof.
    intros [more E] (u & Hu & Hc). exists u. rewrite E. split.
    - rewrite nth_error_app1; [exact Hu|apply nth_error_Some; congruence].
    - eapply chain_mono; [|exact Hc]. intros; now apply in_app_l.
  Qed.

  (** any sequence of calls whose observed return values the model allows *)
  Theorem lsi_replay_chain l : forall st st', lsi_inv st -> lsi_replay tl st l = Some st' ->
    lsi_inv st' /\ extends st st' /\
    (forall s r, In (s, r) l -> call_ok st' s r) /\
    (forall t, In t (ls_surfs st') -> In t (ls_surfs st) \/ In t (map fst l)).
  Proof.
    induction l as [|[s r] l IH]; intros st st' Hinv Hrep; cbn [lsi_replay] in Hrep.
    - inversion Hrep; subst. split; [assumption|]. split; [exists []; now rewrite app_nil_r|].
      split; [intros s r []|auto].
    - destruct (lsi_apply tl st s r) as [st1|] eqn:Ea; [|discriminate].
      destruct (lsi_apply_step _ _ _ _ Hinv Ea) as (Hinv1 & Hok1 & Hext1 & Hsrc1).
      destruct (IH _ _ Hinv1 Hrep) as (Hinv' & Hext' & Hall & Hsrc').
      split; [assumption|]. split.
      + destruct Hext1 as [m1 E1], Hext' as [m2 E2]. exists (m1 ++ m2). now rewrite E2, E1, app_assoc.
      + split.
        * intros s0 r0 [E|Hin]; [inversion E; subst; eapply call_ok_extends; eauto|now apply Hall].
        * intros t Ht. cbn [map fst]. destruct (Hsrc' t Ht) as [H1|H1]; [|right; now right].
          destruct (Hsrc1 t H1) as [H2|H2]; [now left|right; left; now symmetry].
  Qed.

  (** along a chain of surfaces that are all clear of [p], the sense of [p] is constant *)
  Lemma chain_same_sense stored s u p : vtol tl ->
    chain_to stored s u -> clear_at tl s p -> (forall t, In t stored -> clear_at tl t p) ->
    forall sn, sense_holds sn s p = sense_holds sn u p.
  Proof.
    intros Hv Hc. induction Hc as [|s t u Hin Hs Hc IH]; intros Cs Call sn; [reflexivity|].
    rewrite (soft_equal_pair_same_sense tl s t p Hv Hs Cs (Call t Hin) sn). apply IH; auto.
  Qed.

  (** MAIN: a point clear of every inserted surface has, w.r.t. the surface the
      inserter returned, the sense it has w.r.t. the surface that was inserted *)
  Theorem lsi_dedup_sound l st' p : vtol tl ->
    lsi_replay tl lsi_empty l = Some st' ->
    (forall t, In t (map fst l) -> clear_at tl t p) ->
    forall s r, In (s, r) l ->
      exists u, nth_error (ls_surfs st') r = Some u /\ forall sn, sense_holds sn s p = sense_holds sn u p.
  Proof.
    intros Hv Hrep Hclear s r Hin.
    destruct (lsi_replay_chain l _ _ lsi_inv_empty Hrep) as (_ & _ & Hall & Hsrc).
    destruct (Hall s r Hin) as (u & Hu & Hc). exists u. split; [exact Hu|].
    apply (chain_same_sense (ls_surfs st')); auto.
    - apply Hclear. apply in_map_iff. exists (s, r). auto.
    - intros t Ht. destruct (Hsrc t Ht) as [[]|H1]. now apply Hclear.
  Qed.
End Chain.

(** ** 4. SurfaceGridHash *)
Lemma Int_part_unique z x : IZR z <= x < IZR z + 1 -> Int_part x = z.
Proof.
  intros [H1 H2]. destruct (base_Int_part x) as [B1 B2].
  assert (IZR (Int_part x) < IZR (z + 1)) by (rewrite plus_IZR; lra).
  assert (IZR z < IZR (Int_part x + 1)) by (rewrite plus_IZR; lra).
  apply lt_IZR in H, H0. lia.
Qed.
Lemma Int_part_mono x y : x <= y -> (Int_part x <= Int_part y)%Z.
Proof.
  intros Hxy. destruct (base_Int_part x) as [B1 B2]. destruct (base_Int_part y) as [C1 C2].
  assert (IZR (Int_part x) < IZR (Int_part y + 1)) by (rewrite plus_IZR; lra).
  apply lt_IZR in H. lia.
Qed.
Lemma Int_part_step x y : y < x + 1 -> (Int_part y <= Int_part x + 1)%Z.
Proof.
  intros Hxy. destruct (base_Int_part x) as [B1 B2]. destruct (base_Int_part y) as [C1 C2].
  assert (IZR (Int_part y) < IZR (Int_part x + 2)) by (rewrite plus_IZR; lra).
  apply lt_IZR in H. lia.
Qed.

Notation gbin := (@grid_bin R NumR).
Lemma gbin_mono gw x y : 0 < gw -> x <= y -> (gbin gw x <= gbin gw y)%Z.
Proof.
  intros Hg Hxy. unfold grid_bin. numR. apply Int_part_mono. apply Rmult_le_compat_r; [|lra].
  unfold Rdiv. rewrite Rmult_1_l. left. now apply Rinv_0_lt_compat.
Qed.
Lemma gbin_step gw x y : 0 < gw -> y - x < gw -> (gbin gw y <= gbin gw x + 1)%Z.
Proof.
  intros Hg Hxy. unfold grid_bin. numR. apply Int_part_step.
  assert (Hi : 0 < / gw) by now apply Rinv_0_lt_compat.
  assert ((y + gw / 2) * (1 / gw) - (x + gw / 2) * (1 / gw) = (y - x) * / gw) by (field; lra).
  assert ((y - x) * / gw < 1).
  { apply Rmult_lt_reg_r with gw; [lra|]. rewrite Rmult_assoc, Rinv_l by lra. lra. }
  lra.
Qed.

Lemma keys_head gw eps h : exists rest, grid_keys gw eps (Some h) = Some (gbin gw h) :: rest.
Proof.
  unfold grid_keys.
  repeat match goal with |- context [if ?c then _ else _] => destruct c end; eexists; reflexivity.
Qed.
(** a point at most eps below [b], in another bin: [b] is also stored under that bin *)
Lemma keys_second gw eps a b : 0 < gw -> 0 <= eps -> 2 * eps < gw -> a <= b -> b - a <= eps ->
  gbin gw a <> gbin gw b -> In (Some (gbin gw a)) (grid_keys gw eps (Some b)).
Proof.
  intros Hg He Hw Hab Hd Hne. unfold grid_keys. numR.
  pose proof (gbin_mono gw a b Hg Hab) as M1.
  pose proof (gbin_mono gw (b - eps) a Hg ltac:(lra)) as M2.
  pose proof (gbin_step gw (b - eps) b Hg ltac:(lra)) as M3.
  assert (E : gbin gw (b - eps) = gbin gw a) by lia.
  rewrite E. destruct (Z.eqb_spec (gbin gw a) (gbin gw b)) as [Heq|_]; [contradiction|].
  cbn [negb]. right; left; reflexivity.
Qed.
Lemma keys_second_up gw eps a b : 0 < gw -> 0 <= eps -> 2 * eps < gw -> b <= a -> a - b <= eps ->
  gbin gw a <> gbin gw b -> In (Some (gbin gw a)) (grid_keys gw eps (Some b)).
Proof.
  intros Hg He Hw Hab Hd Hne. unfold grid_keys. numR.
  pose proof (gbin_mono gw b a Hg Hab) as M1.
  pose proof (gbin_mono gw a (b + eps) Hg ltac:(lra)) as M2.
  pose proof (gbin_step gw b (b + eps) Hg ltac:(lra)) as M3.
  pose proof (gbin_mono gw (b - eps) b Hg ltac:(lra)) as M4.
  pose proof (gbin_step gw (b - eps) (b + eps) Hg ltac:(lra)) as M5.
  assert (E : gbin gw (b + eps) = gbin gw a) by lia.
  assert (E2 : gbin gw (b - eps) = gbin gw b) by lia.
  rewrite E, E2, Z.eqb_refl. cbn [negb].
  destruct (Z.eqb_spec (gbin gw a) (gbin gw b)) as [Heq|_]; [contradiction|].
  cbn [negb]. right; left; reflexivity.
Qed.

Theorem grid_keys_meet gw eps h1 h2 : 0 < gw -> 0 <= eps -> 2 * eps < gw -> Rabs (h1 - h2) <= eps ->
  keys_meet (grid_keys gw eps (Some h1)) (grid_keys gw eps (Some h2)) = true.
Proof.
  intros Hg He Hw Hd. unfold keys_meet. apply existsb_exists.
  destruct (keys_head gw eps h1) as [r1 K1]. destruct (keys_head gw eps h2) as [r2 K2].
  destruct (Z.eq_dec (gbin gw h1) (gbin gw h2)) as [Heq|Hne].
  - exists (Some (gbin gw h1)). split; [rewrite K1; now left|].
    apply existsb_exists. exists (Some (gbin gw h2)). split; [rewrite K2; now left|]. cbn [okey_eqb]. rewrite Heq. apply Z.eqb_refl.
  - assert (Hd' : - eps <= h1 - h2 <= eps) by (unfold Rabs in Hd; destruct (Rcase_abs (h1 - h2)); lra).
    destruct (Rle_or_lt h1 h2) as [Hle|Hlt].
    + exists (Some (gbin gw h1)). split; [rewrite K1; now left|].
      apply existsb_exists. exists (Some (gbin gw h1)). split; [|cbn [okey_eqb]; apply Z.eqb_refl].
      apply keys_second; try assumption; lra.
    + exists (Some (gbin gw h1)). split; [rewrite K1; now left|].
      apply existsb_exists. exists (Some (gbin gw h1)). split; [|cbn [okey_eqb]; apply Z.eqb_refl].
      apply keys_second_up; try assumption; lra.
Qed.

Lemma nth_indexed {A} (l : list A) : forall k i x, nth_error l i = Some x -> In ((k + i)%nat, x) (indexed k l).
Proof.
  induction l as [|a l IH]; intros k [|i] x Hn; try discriminate; cbn [indexed nth_error] in *.
  - inversion Hn; subst. left. f_equal. lia.
  - right. replace (k + S i)%nat with (S k + i)%nat by lia. now apply IH.
Qed.

(** no missed duplicate among stored surfaces whose hash point is within eps of the query's *)
Theorem lsi_candidates_complete (tl : tolerance R) (st : lsi_state R) s i t h1 h2 :
  0 < lsi_gw tl -> 0 <= lsi_eps tl -> 2 * lsi_eps tl < lsi_gw tl ->
  nth_error (ls_surfs st) i = Some t -> same_kind s t = true ->
  hash_point s = Some h1 -> hash_point t = Some h2 -> Rabs (h1 - h2) <= lsi_eps tl ->
  In (i, t) (lsi_candidates tl st s).
Proof.
  intros Hg He Hw Hn Hk H1 H2 Hd. unfold lsi_candidates. apply filter_In. split.
  - now apply (nth_indexed _ 0%nat).
  - cbn [snd]. rewrite Hk. cbn [andb]. unfold surf_keys. rewrite H1, H2. now apply grid_keys_meet.
Qed.

(** closed real-number evaluation helpers *)
Ltac rdecide :=
  repeat match goal with
  | |- context [Rabs ?x] => first [rewrite (Rabs_right x) by lra | rewrite (Rabs_left x) by lra]
  end;
  repeat match goal with
  | |- context [Rltb ?a ?b] =>
      first [replace (Rltb a b) with true by (symmetry; apply Rltb_true; lra)
            |replace (Rltb a b) with false by (symmetry; apply Rltb_false; lra)]
  | |- context [Rleb ?a ?b] =>
      first [replace (Rleb a b) with true by (symmetry; apply Rleb_true; lra)
            |replace (Rleb a b) with false by (symmetry; apply Rleb_false; lra)]
  end.

Definition tl3 : tolerance R := Tol (1 / 1000) (1 / 1000) 0.
Lemma tl3_gw : lsi_gw tl3 = 1 / 100.
Proof. unfold lsi_gw, tl3. cbn [t_abs t_rel]. numR. field. Qed.
Lemma tl3_eps : lsi_eps tl3 = 2 / 1000.
Proof. unfold lsi_eps, tl3. cbn [t_rel]. numR. field. Qed.
Lemma tl3_valid : vtol tl3 /\ 0 < lsi_gw tl3 /\ 2 * lsi_eps tl3 < lsi_gw tl3.
Proof. rewrite tl3_gw, tl3_eps. unfold vtol, tl3; cbn [t_rel t_abs t_emach]. lra. Qed.

Lemma grid_bin_val z h : IZR z <= (h + (1 / 100) / 2) * (1 / (1 / 100)) < IZR z + 1 -> grid_bin (1 / 100) h = z.
Proof. intros Hb. unfold grid_bin. numR. now apply Int_part_unique. Qed.
Lemma plane_keys_one z (d : R) ax :
  IZR z <= (d - 2 / 1000 + (1 / 100) / 2) * (1 / (1 / 100)) ->
  (d + 2 / 1000 + (1 / 100) / 2) * (1 / (1 / 100)) < IZR z + 1 ->
  surf_keys tl3 (SPlaneAligned ax d) = [Some z].
Proof.
  intros H1 H2. unfold surf_keys. rewrite tl3_gw, tl3_eps. cbn [hash_point grid_keys]. numR.
  rewrite (grid_bin_val z d) by lra. rewrite (grid_bin_val z (d - 2 / 1000)) by lra.
  rewrite (grid_bin_val z (d + 2 / 1000)) by lra. now rewrite Z.eqb_refl.
Qed.

(** soft-equal surfaces far from the origin need not share a bin: missed duplicate *)
Theorem grid_hash_complete_refuted :
  exists tl s t, vtol tl /\ 0 < lsi_gw tl /\ 2 * lsi_eps tl < lsi_gw tl /\
    sse_t tl s t = true /\ same_kind s t = true /\
    keys_meet (surf_keys tl s) (surf_keys tl t) = false /\
    lsi_run_first tl lsi_empty [t; s] = ([0; 1]%nat, LSI [t; s] []).
Proof.
  exists tl3, (SPlaneAligned AX (98925 / 10000)), (SPlaneAligned AX (98975 / 10000)).
  destruct tl3_valid as (Hv & Hg & Hw). do 3 (split; [assumption|]).
  assert (K1 : surf_keys tl3 (SPlaneAligned AX (98925 / 10000)) = [Some 989%Z]) by (apply plane_keys_one; lra).
  assert (K2 : surf_keys tl3 (SPlaneAligned AX (98975 / 10000)) = [Some 990%Z]) by (apply plane_keys_one; lra).
  assert (Hs : sse_t tl3 (SPlaneAligned AX (98925 / 10000)) (SPlaneAligned AX (98975 / 10000)) = true).
  { unfold sse_t, tl3; cbn [sse t_rel t_abs t_emach axis_eqb andb]. unfold soft_eq, fmax2. numR. rdecide. rdecide. reflexivity. }
  split; [exact Hs|]. split; [reflexivity|]. split; [rewrite K1, K2; reflexivity|].
  unfold lsi_run_first, lsi_insert_first, lsi_apply, lsi_outcomes, lsi_near, lsi_candidates.
  cbn [lsi_empty ls_surfs ls_merged indexed filter find length fst snd hd existsb Nat.eqb orb app].
  rewrite K1, K2. cbn. reflexivity.
Qed.

Ltac rdecide_eq :=
  repeat match goal with
  | |- context [Reqb ?a ?b] =>
      first [replace (Reqb a b) with true by (symmetry; apply Reqb_true; lra)
            |replace (Reqb a b) with false by (symmetry; apply Reqb_false; lra)]
  end.
Ltac sse_plane := unfold tl3; cbn [sse exact_eq t_rel t_abs t_emach axis_eqb andb]; unfold soft_eq, fmax2; numR;
                  rdecide; rdecide; rdecide_eq; reflexivity.

(** chained de-duplication: three planes 0.9 tol apart are all replaced by the first one,
    although the third is NOT soft-equal to it; a point farther than the tolerance from
    the third plane changes sense (it is within the tolerance of the second one) *)
Theorem lsi_drift_refuted :
  exists tl s0 s1 s2 p st, vtol tl /\
    lsi_run_first tl lsi_empty [s0; s1; s2] = ([0; 0; 0]%nat, st) /\
    nth_error (ls_surfs st) 0 = Some s0 /\
    sse_t tl s2 s0 = false /\ clear_at tl s2 p /\
    sense_holds BIn s2 p = true /\ sense_holds BIn s0 p = false.
Proof.
  set (s0 := SPlaneAligned AX 0). set (s1 := SPlaneAligned AX (9 / 10000)). set (s2 := SPlaneAligned AX (18 / 10000)).
  exists tl3, s0, s1, s2, (V3 (5 / 10000) 0 0), (LSI [s0; s1; s2] [(1, 0); (2, 0)]%nat).
  destruct tl3_valid as (Hv & Hg & Hw). split; [assumption|].
  assert (K0 : surf_keys tl3 s0 = [Some 0%Z]) by (apply plane_keys_one; lra).
  assert (K1 : surf_keys tl3 s1 = [Some 0%Z]) by (apply plane_keys_one; lra).
  assert (K2 : surf_keys tl3 s2 = [Some 0%Z]) by (apply plane_keys_one; lra).
  assert (S10 : sse (t_rel tl3) (t_abs tl3) (t_emach tl3) s1 s0 = true) by (unfold s0, s1, s2; sse_plane).
  assert (S20 : sse (t_rel tl3) (t_abs tl3) (t_emach tl3) s2 s0 = false) by (unfold s0, s1, s2; sse_plane).
  assert (S21 : sse (t_rel tl3) (t_abs tl3) (t_emach tl3) s2 s1 = true) by (unfold s0, s1, s2; sse_plane).
  assert (E10 : exact_eq s1 s0 = false) by (unfold s0, s1, s2; sse_plane).
  assert (E21 : exact_eq s2 s1 = false) by (unfold s0, s1, s2; sse_plane).
  assert (SK10 : same_kind s1 s0 = true) by reflexivity.
  assert (SK20 : same_kind s2 s0 = true) by reflexivity.
  assert (SK21 : same_kind s2 s1 = true) by reflexivity.
  split; [|split; [reflexivity|]].
  - unfold lsi_run_first, lsi_insert_first, lsi_apply, lsi_outcomes, lsi_near, lsi_candidates, lsi_root.
    cbn [lsi_empty ls_surfs ls_merged indexed filter find length fst snd hd existsb Nat.eqb orb app same_kind axis_eqb andb map].
    fold s0 s1 s2.
    repeat (rewrite ?K0, ?K1, ?K2, ?S10, ?S20, ?S21, ?E10, ?E21, ?SK10, ?SK20, ?SK21;
            cbn [keys_meet okey_eqb Z.eqb existsb orb andb indexed filter find length fst snd hd Nat.eqb app
                 same_kind axis_eqb map ls_surfs ls_merged]; fold s0 s1 s2).
    reflexivity.
  - split; [exact S20|]. split.
    + unfold clear_at, s2, se_delta, tl3; cbn [t_rel t_abs vget vx].
      rewrite (Rabs_right (18 / 10000)) by lra. rewrite (Rabs_left (5 / 10000 - 18 / 10000)) by lra.
      apply Rmax_lub_lt; lra.
    + split.
      * apply sense_in_iff. unfold s2, surf_f. cbn [vget vx]. lra.
      * destruct (sense_holds BIn s0 (V3 (5 / 10000) 0 0)) eqn:E; [|reflexivity].
        apply sense_in_iff in E. unfold s0, surf_f in E. cbn [vget vx] in E. lra.
Qed.

Example lsi_dedup_example :
  vtol tl3 /\ lsi_replay tl3 lsi_empty [(SPlaneAligned AX 0, 0%nat)] = Some (LSI [SPlaneAligned AX 0] []) /\
  clear_at tl3 (SPlaneAligned AX 0) (V3 1 0 0).
Proof.
  destruct tl3_valid as (Hv & _). split; [assumption|]. split; [reflexivity|].
  unfold clear_at, se_delta, tl3; cbn [t_rel t_abs vget vx]. rewrite Rabs_R0.
  rewrite (Rabs_right (1 - 0)) by lra. apply Rmax_lub_lt; lra.
Qed.
