(** * C09 proofs (instance R) about objects, transforms and units. *)
From Coq Require Import Reals ZArith List Bool Lra Lia Psatz String.
From Celer Require Import Base.Num Base.NumR Base.Vec3 C12.Solver C12.Surfaces C12.SurfacesProofs
  C12.Transforms C09.Shapes C09.ShapesProofs C09.Pipeline.
Import ListNotations.
Local Open Scope R_scope.

Notation tform := (transformation R).

(** ** CSG semantics of the object classes *)
Lemma inside_all tol l p :
  inside tol (All l) p = forallb (fun o => inside tol o p) l.
Proof. cbn [inside]. induction l as [|x r IH]; cbn; [reflexivity|]. now rewrite <- IH. Qed.
Lemma inside_any tol l p :
  inside tol (Any l) p = existsb (fun o => inside tol o p) l.
Proof. cbn [inside]. induction l as [|x r IH]; cbn; [reflexivity|]. now rewrite <- IH. Qed.

Theorem csg_semantics tol (a b : obj R) l p :
  (inside tol (Neg a) p = true <-> ~ inside tol a p = true) /\
  (inside tol (All l) p = true <-> Forall (fun o => inside tol o p = true) l) /\
  (inside tol (Any l) p = true <-> Exists (fun o => inside tol o p = true) l) /\
  (* make_subtraction a b = All [a; Neg b] *)
  (inside tol (All [a; Neg b]) p = true <-> inside tol a p = true /\ ~ inside tol b p = true).
Proof.
  repeat split.
  - cbn [inside]. destruct (inside tol a p); cbn; congruence.
  - cbn [inside]. destruct (inside tol a p); cbn; intros Hn; congruence.
  - rewrite inside_all, forallb_forall, Forall_forall. auto.
  - rewrite inside_all, forallb_forall, Forall_forall. auto.
  - rewrite inside_any, existsb_exists, Exists_exists. auto.
  - rewrite inside_any, existsb_exists, Exists_exists. auto.
  - rewrite inside_all in H. cbn in H. rewrite andb_true_r in H. apply andb_true_iff in H. tauto.
  - rewrite inside_all in H. cbn [forallb inside] in H. rewrite andb_true_r in H.
    apply andb_true_iff in H. destruct H as [_ H]. destruct (inside tol b p); cbn in *; congruence.
  - intros [Ha Hb]. rewrite inside_all. cbn [forallb inside]. rewrite Ha.
    destruct (inside tol b p); cbn; congruence.
Qed.

(** hollow solid: the excluded interior is removed *)
Theorem solid_hollow tol i e p :
  inside tol (Solid i (Some e) None) p = true <-> inside_prim i p = true /\ inside_prim e p = false.
Proof.
  cbn [inside in_enclosed]. rewrite andb_true_r, andb_true_iff, negb_true_iff. tauto.
Qed.

(** material defined "minus the daughters" (make_rdv pattern used by every
    input): accepted iff inside its own solid and outside every daughter *)
Theorem material_minus_daughters tol raw (ds : list (obj R)) p :
  inside tol (All (raw :: map (@Neg R) ds)) p = true <->
  inside tol raw p = true /\ Forall (fun d => inside tol d p = false) ds.
Proof.
  rewrite inside_all. cbn [forallb]. rewrite andb_true_iff, forallb_forall, Forall_forall.
  split; intros [Hr Hd]; split; auto.
  - intros d Hin. specialize (Hd (Neg d) (in_map _ _ _ Hin)). cbn [inside] in Hd.
    now apply negb_true_iff.
  - intros x Hin. apply in_map_iff in Hin. destruct Hin as [d [<- Hin]]. cbn [inside].
    apply negb_true_iff. auto.
Qed.

(** ** transforms: daughter-to-parent maps and their inverses *)
Definition orth (m : mat3 R) : Prop :=
  match m with
  | M3 (V3 a b c) (V3 d e f) (V3 g h i) =>
      a * a + d * d + g * g = 1 /\ b * b + e * e + h * h = 1 /\ c * c + f * f + i * i = 1 /\
      a * b + d * e + g * h = 0 /\ a * c + d * f + g * i = 0 /\ b * c + e * f + h * i = 0
  end.
(** rows orthonormal as well (R R^T = I); equivalent for square matrices, stated separately *)
Definition orth_rows (m : mat3 R) : Prop := orth (make_transpose m).

Ltac mat_unfold :=
  unfold tf_compose in *; unfold tf_down, tf_up, gemv, gemv_t, gemm3, mget, mrow, vget, vsub, vadd, make_transpose, orth in *;
  cbn [tf_rot tf_tra r0 r1 r2 vx vy vz] in *; numR.

Lemma v3_eq (a b c a' b' c' : R) : a = a' -> b = b' -> c = c' -> V3 a b c = V3 a' b' c'.
Proof. now intros -> -> ->. Qed.

(** x -> R x + t followed by the pull-back is the identity *)
Lemma tf_down_up tr q : orth (tf_rot tr) -> tf_down tr (tf_up tr q) = q.
Proof.
  destruct tr as [[[a b c] [d e f] [g h i]] [tx ty tz]], q as [x y z]. intros Ho. mat_unfold.
  destruct Ho as (H1 & H2 & H3 & H4 & H5 & H6).
  apply v3_eq.
  - transitivity ((a * a + d * d + g * g) * x + (a * b + d * e + g * h) * y + (a * c + d * f + g * i) * z); [ring|].
    rewrite H1, H4, H5. ring.
  - transitivity ((a * b + d * e + g * h) * x + (b * b + e * e + h * h) * y + (b * c + e * f + h * i) * z); [ring|].
    rewrite H2, H4, H6. ring.
  - transitivity ((a * c + d * f + g * i) * x + (b * c + e * f + h * i) * y + (c * c + f * f + i * i) * z); [ring|].
    rewrite H3, H5, H6. ring.
Qed.

(** composition: apply_transform(parent, child) pulls back as child^-1 . parent^-1 *)
Lemma tf_down_compose a b p : orth (tf_rot a) ->
  tf_down (tf_compose a b) p = tf_down b (tf_down a p).
Proof.
  destruct a as [[[a1 a2 a3] [a4 a5 a6] [a7 a8 a9]] [tx ty tz]],
           b as [[[b1 b2 b3] [b4 b5 b6] [b7 b8 b9]] [sx sy sz]], p as [x y z].
  intros Ho. mat_unfold. destruct Ho as (H1 & H2 & H3 & H4 & H5 & H6).
  (* rewrite the parent's Gram matrix entries *)
  assert (G11 : a1 * a1 + a4 * a4 + a7 * a7 = 1) by lra.
  assert (G22 : a2 * a2 + a5 * a5 + a8 * a8 = 1) by lra.
  assert (G33 : a3 * a3 + a6 * a6 + a9 * a9 = 1) by lra.
  apply v3_eq.
  - match goal with |- ?L = ?Rr =>
      assert (L - Rr = - ( b1 * ((a1 * a1 + a4 * a4 + a7 * a7 - 1) * sx + (a1 * a2 + a4 * a5 + a7 * a8) * sy + (a1 * a3 + a4 * a6 + a7 * a9) * sz)
                        + b4 * ((a1 * a2 + a4 * a5 + a7 * a8) * sx + (a2 * a2 + a5 * a5 + a8 * a8 - 1) * sy + (a2 * a3 + a5 * a6 + a8 * a9) * sz)
                        + b7 * ((a1 * a3 + a4 * a6 + a7 * a9) * sx + (a2 * a3 + a5 * a6 + a8 * a9) * sy + (a3 * a3 + a6 * a6 + a9 * a9 - 1) * sz))) as Hd by ring
    end.
    rewrite H1, H2, H3, H4, H5, H6 in Hd. lra.
  - match goal with |- ?L = ?Rr =>
      assert (L - Rr = - ( b2 * ((a1 * a1 + a4 * a4 + a7 * a7 - 1) * sx + (a1 * a2 + a4 * a5 + a7 * a8) * sy + (a1 * a3 + a4 * a6 + a7 * a9) * sz)
                        + b5 * ((a1 * a2 + a4 * a5 + a7 * a8) * sx + (a2 * a2 + a5 * a5 + a8 * a8 - 1) * sy + (a2 * a3 + a5 * a6 + a8 * a9) * sz)
                        + b8 * ((a1 * a3 + a4 * a6 + a7 * a9) * sx + (a2 * a3 + a5 * a6 + a8 * a9) * sy + (a3 * a3 + a6 * a6 + a9 * a9 - 1) * sz))) as Hd by ring
    end.
    rewrite H1, H2, H3, H4, H5, H6 in Hd. lra.
  - match goal with |- ?L = ?Rr =>
      assert (L - Rr = - ( b3 * ((a1 * a1 + a4 * a4 + a7 * a7 - 1) * sx + (a1 * a2 + a4 * a5 + a7 * a8) * sy + (a1 * a3 + a4 * a6 + a7 * a9) * sz)
                        + b6 * ((a1 * a2 + a4 * a5 + a7 * a8) * sx + (a2 * a2 + a5 * a5 + a8 * a8 - 1) * sy + (a2 * a3 + a5 * a6 + a8 * a9) * sz)
                        + b9 * ((a1 * a3 + a4 * a6 + a7 * a9) * sx + (a2 * a3 + a5 * a6 + a8 * a9) * sy + (a3 * a3 + a6 * a6 + a9 * a9 - 1) * sz))) as Hd by ring
    end.
    rewrite H1, H2, H3, H4, H5, H6 in Hd. lra.
Qed.

Lemma tf_down_id p : tf_down (tf_id (T:=R)) p = p.
Proof. destruct p as [x y z]. unfold tf_id, mat3_id. mat_unfold. apply v3_eq; ring. Qed.

(** the point set of a transformed object is the image of the object's point set *)
Theorem transformed_object tol o tr :
  orth (tf_rot tr) ->
  (forall p, inside tol (Transformed o tr) p = inside tol o (tf_down tr p)) /\
  (forall q, inside tol (Transformed o tr) (tf_up tr q) = inside tol o q).
Proof.
  intros Ho. split; intros; cbn [inside]; [reflexivity|]. now rewrite tf_down_up.
Qed.

(** the product of two orthogonal matrices is orthogonal *)
Lemma orth_gemm3 (a b : mat3 R) : orth a -> orth b -> orth (gemm3 a b).
Proof.
  destruct a as [[a1 a2 a3] [a4 a5 a6] [a7 a8 a9]], b as [[b1 b2 b3] [b4 b5 b6] [b7 b8 b9]].
  intros Ha Hb. unfold gemm3, mget, mrow, vget, orth in *. cbn [r0 r1 r2 vx vy vz] in *. numR.
  destruct Ha as (A1 & A2 & A3 & A4 & A5 & A6). destruct Hb as (B1 & B2 & B3 & B4 & B5 & B6).
  assert (A4' : a2 * a1 + a5 * a4 + a8 * a7 = 0) by lra.
  assert (A5' : a3 * a1 + a6 * a4 + a9 * a7 = 0) by lra.
  assert (A6' : a3 * a2 + a6 * a5 + a9 * a8 = 0) by lra.
  repeat split.
  - match goal with |- ?L = ?Rr => assert (Hd : L - Rr = b1 * b1 * ((a1 * a1 + a4 * a4 + a7 * a7) - 1) + b1 * b4 * ((a1 * a2 + a4 * a5 + a7 * a8) - 0) + b1 * b7 * ((a1 * a3 + a4 * a6 + a7 * a9) - 0) + b4 * b1 * ((a2 * a1 + a5 * a4 + a8 * a7) - 0) + b4 * b4 * ((a2 * a2 + a5 * a5 + a8 * a8) - 1) + b4 * b7 * ((a2 * a3 + a5 * a6 + a8 * a9) - 0) + b7 * b1 * ((a3 * a1 + a6 * a4 + a9 * a7) - 0) + b7 * b4 * ((a3 * a2 + a6 * a5 + a9 * a8) - 0) + b7 * b7 * ((a3 * a3 + a6 * a6 + a9 * a9) - 1) + ((b1 * b1 + b4 * b4 + b7 * b7) - 1)) by ring end.
    rewrite A1, A2, A3, A4, A5, A6, A4', A5', A6' in Hd. lra.
  - match goal with |- ?L = ?Rr => assert (Hd : L - Rr = b2 * b2 * ((a1 * a1 + a4 * a4 + a7 * a7) - 1) + b2 * b5 * ((a1 * a2 + a4 * a5 + a7 * a8) - 0) + b2 * b8 * ((a1 * a3 + a4 * a6 + a7 * a9) - 0) + b5 * b2 * ((a2 * a1 + a5 * a4 + a8 * a7) - 0) + b5 * b5 * ((a2 * a2 + a5 * a5 + a8 * a8) - 1) + b5 * b8 * ((a2 * a3 + a5 * a6 + a8 * a9) - 0) + b8 * b2 * ((a3 * a1 + a6 * a4 + a9 * a7) - 0) + b8 * b5 * ((a3 * a2 + a6 * a5 + a9 * a8) - 0) + b8 * b8 * ((a3 * a3 + a6 * a6 + a9 * a9) - 1) + ((b2 * b2 + b5 * b5 + b8 * b8) - 1)) by ring end.
    rewrite A1, A2, A3, A4, A5, A6, A4', A5', A6' in Hd. lra.
  - match goal with |- ?L = ?Rr => assert (Hd : L - Rr = b3 * b3 * ((a1 * a1 + a4 * a4 + a7 * a7) - 1) + b3 * b6 * ((a1 * a2 + a4 * a5 + a7 * a8) - 0) + b3 * b9 * ((a1 * a3 + a4 * a6 + a7 * a9) - 0) + b6 * b3 * ((a2 * a1 + a5 * a4 + a8 * a7) - 0) + b6 * b6 * ((a2 * a2 + a5 * a5 + a8 * a8) - 1) + b6 * b9 * ((a2 * a3 + a5 * a6 + a8 * a9) - 0) + b9 * b3 * ((a3 * a1 + a6 * a4 + a9 * a7) - 0) + b9 * b6 * ((a3 * a2 + a6 * a5 + a9 * a8) - 0) + b9 * b9 * ((a3 * a3 + a6 * a6 + a9 * a9) - 1) + ((b3 * b3 + b6 * b6 + b9 * b9) - 1)) by ring end.
    rewrite A1, A2, A3, A4, A5, A6, A4', A5', A6' in Hd. lra.
  - match goal with |- ?L = ?Rr => assert (Hd : L - Rr = b1 * b2 * ((a1 * a1 + a4 * a4 + a7 * a7) - 1) + b1 * b5 * ((a1 * a2 + a4 * a5 + a7 * a8) - 0) + b1 * b8 * ((a1 * a3 + a4 * a6 + a7 * a9) - 0) + b4 * b2 * ((a2 * a1 + a5 * a4 + a8 * a7) - 0) + b4 * b5 * ((a2 * a2 + a5 * a5 + a8 * a8) - 1) + b4 * b8 * ((a2 * a3 + a5 * a6 + a8 * a9) - 0) + b7 * b2 * ((a3 * a1 + a6 * a4 + a9 * a7) - 0) + b7 * b5 * ((a3 * a2 + a6 * a5 + a9 * a8) - 0) + b7 * b8 * ((a3 * a3 + a6 * a6 + a9 * a9) - 1) + ((b1 * b2 + b4 * b5 + b7 * b8) - 0)) by ring end.
    rewrite A1, A2, A3, A4, A5, A6, A4', A5', A6' in Hd. lra.
  - match goal with |- ?L = ?Rr => assert (Hd : L - Rr = b1 * b3 * ((a1 * a1 + a4 * a4 + a7 * a7) - 1) + b1 * b6 * ((a1 * a2 + a4 * a5 + a7 * a8) - 0) + b1 * b9 * ((a1 * a3 + a4 * a6 + a7 * a9) - 0) + b4 * b3 * ((a2 * a1 + a5 * a4 + a8 * a7) - 0) + b4 * b6 * ((a2 * a2 + a5 * a5 + a8 * a8) - 1) + b4 * b9 * ((a2 * a3 + a5 * a6 + a8 * a9) - 0) + b7 * b3 * ((a3 * a1 + a6 * a4 + a9 * a7) - 0) + b7 * b6 * ((a3 * a2 + a6 * a5 + a9 * a8) - 0) + b7 * b9 * ((a3 * a3 + a6 * a6 + a9 * a9) - 1) + ((b1 * b3 + b4 * b6 + b7 * b9) - 0)) by ring end.
    rewrite A1, A2, A3, A4, A5, A6, A4', A5', A6' in Hd. lra.
  - match goal with |- ?L = ?Rr => assert (Hd : L - Rr = b2 * b3 * ((a1 * a1 + a4 * a4 + a7 * a7) - 1) + b2 * b6 * ((a1 * a2 + a4 * a5 + a7 * a8) - 0) + b2 * b9 * ((a1 * a3 + a4 * a6 + a7 * a9) - 0) + b5 * b3 * ((a2 * a1 + a5 * a4 + a8 * a7) - 0) + b5 * b6 * ((a2 * a2 + a5 * a5 + a8 * a8) - 1) + b5 * b9 * ((a2 * a3 + a5 * a6 + a8 * a9) - 0) + b8 * b3 * ((a3 * a1 + a6 * a4 + a9 * a7) - 0) + b8 * b6 * ((a3 * a2 + a6 * a5 + a9 * a8) - 0) + b8 * b9 * ((a3 * a3 + a6 * a6 + a9 * a9) - 1) + ((b2 * b3 + b5 * b6 + b8 * b9) - 0)) by ring end.
    rewrite A1, A2, A3, A4, A5, A6, A4', A5', A6' in Hd. lra.
Qed.

Lemma orth_id : orth (mat3_id (T:=R)).
Proof. unfold mat3_id, orth. numR. repeat split; ring. Qed.

(** ** the construction model evaluates to the definition *)
Section ObjInd.
  Variable P : obj R -> Prop.
  Hypothesis HShape : forall pr, P (Shape pr).
  Hypothesis HSolid : forall i e a, P (Solid i e a).
  Hypothesis HPC : forall zs ro ri a, P (PolyCone zs ro ri a).
  Hypothesis HPP : forall n o zs ro ri a, P (PolyPrism n o zs ro ri a).
  Hypothesis HTr : forall o tr, P o -> P (Transformed o tr).
  Hypothesis HNeg : forall o, P o -> P (Neg o).
  Hypothesis HAll : forall l, Forall P l -> P (All l).
  Hypothesis HAny : forall l, Forall P l -> P (Any l).
  Fixpoint obj_ind' (o : obj R) : P o :=
    match o with
    | Shape pr => HShape pr
    | Solid i e a => HSolid i e a
    | PolyCone zs ro ri a => HPC zs ro ri a
    | PolyPrism n oo zs ro ri a => HPP n oo zs ro ri a
    | Transformed o' tr => HTr o' tr (obj_ind' o')
    | Neg o' => HNeg o' (obj_ind' o')
    | All l => HAll l ((fix go (l : list (obj R)) : Forall P l :=
                          match l with [] => Forall_nil _ | x :: r => Forall_cons _ (obj_ind' x) (go r) end) l)
    | Any l => HAny l ((fix go (l : list (obj R)) : Forall P l :=
                          match l with [] => Forall_nil _ | x :: r => Forall_cons _ (obj_ind' x) (go r) end) l)
    end.
End ObjInd.

(** a primitive whose emitted surfaces describe its documented point set
    (the [<shape>_surfaces_iff_inside] theorems of ShapesProofs) *)
Definition prim_good (tol : R) (pr : prim R) : Prop :=
  forall q, on_any (surfaces_of tol pr) q = false ->
            all_hold (surfaces_of tol pr) q = inside_prim pr q.

(** poly-solids: the (outer, optional inner) segment pairs; a pair is fine when
    the stacked primitives are good and inner/outer share the axial extent *)
Definition poly_pairs (zs ro : list R) (ri : option (list R)) :=
  let outs := segments zs ro in
  combine outs (match ri with Some l => map Some (segments zs l) | None => map (fun _ => None) outs end).
Definition seg_ok (tol : R) (mk : R -> R -> R -> prim R)
           (oi : (R * R * R * R) * option (R * R * R * R)) : Prop :=
  let '(z0, z1, r0, r1) := fst oi in
  prim_good tol (mk r0 r1 ((z1 - z0) / 2)) /\
  match snd oi with
  | Some (y0, y1, q0, q1) => y0 = z0 /\ y1 = z1 /\ prim_good tol (mk q0 q1 ((z1 - z0) / 2))
  | None => True
  end.

(** objects covered by the composition theorem: primitives are good,
    transforms are orthogonal (rotations / reflections + translation), solids
    are hollow or plain (azimuthal slices: see [wedge_surfaces_iff_inside]),
    no polycone/polyprism *)
Inductive good (tol : R) : obj R -> Prop :=
| good_shape pr : prim_good tol pr -> good tol (Shape pr)
| good_solid i : prim_good tol i -> good tol (Solid i None None)
| good_hollow i e : prim_good tol i -> prim_good tol e -> good tol (Solid i (Some e) None)
| good_sliced i e s a : prim_good tol i -> (forall ex, e = Some ex -> prim_good tol ex) -> 0 < a <= 1 ->
    good tol (Solid i e (Some (s, a)))
| good_polycone zs ro ri a :
    Forall (seg_ok tol mk_cone) (poly_pairs zs ro ri) -> (forall s i, a = Some (s, i) -> 0 < i <= 1) ->
    good tol (PolyCone zs ro ri a)
| good_polyprism n orient zs ro ri a :
    Forall (seg_ok tol (mk_prism n orient)) (poly_pairs zs ro ri) -> (forall s i, a = Some (s, i) -> 0 < i <= 1) ->
    good tol (PolyPrism n orient zs ro ri a)
| good_tr o t : orth (tf_rot t) -> good tol o -> good tol (Transformed o t)
| good_neg o : good tol o -> good tol (Neg o)
| good_all l : Forall (good tol) l -> good tol (All l)
| good_any l : Forall (good tol) l -> good tol (Any l).

(** p is not on any surface of the built tree *)
Fixpoint csg_off (c : csg R) (p : vec3 R) : bool :=
  match c with
  | CTrue | CFalse => true
  | CSurf _ s tr => negb (on_surface s (tf_down tr p))
  | CNot c' => csg_off c' p
  | CAnd l | COr l => (fix go (l : list (csg R)) : bool :=
                         match l with [] => true | x :: r => csg_off x p && go r end) l
  end.

Lemma eval_and l p : eval_csg (CAnd l) p = forallb (fun c => eval_csg c p) l.
Proof. cbn [eval_csg]. induction l as [|x r IH]; cbn; [reflexivity|]. now rewrite <- IH. Qed.
Lemma eval_or l p : eval_csg (COr l) p = existsb (fun c => eval_csg c p) l.
Proof. cbn [eval_csg]. induction l as [|x r IH]; cbn; [reflexivity|]. now rewrite <- IH. Qed.
Lemma off_and l p : csg_off (CAnd l) p = forallb (fun c => csg_off c p) l.
Proof. cbn [csg_off]. induction l as [|x r IH]; cbn; [reflexivity|]. now rewrite <- IH. Qed.
Lemma off_or l p : csg_off (COr l) p = forallb (fun c => csg_off c p) l.
Proof. cbn [csg_off]. induction l as [|x r IH]; cbn; [reflexivity|]. now rewrite <- IH. Qed.

Lemma eval_not c p : eval_csg (CNot c) p = negb (eval_csg c p).
Proof. reflexivity. Qed.
Lemma off_not c p : csg_off (CNot c) p = csg_off c p.
Proof. reflexivity. Qed.

Lemma eval_build_prim tol tr pr p :
  eval_csg (build_prim tol tr pr) p = all_hold (surfaces_of tol pr) (tf_down tr p).
Proof.
  unfold build_prim, all_hold. rewrite eval_and, forallb_map. reflexivity.
Qed.
Lemma off_build_prim tol tr pr p :
  csg_off (build_prim tol tr pr) p = negb (on_any (surfaces_of tol pr) (tf_down tr p)).
Proof.
  unfold build_prim, on_any. rewrite off_and, forallb_map.
  induction (surfaces_of tol pr) as [|x r IH]; cbn [forallb existsb csg_off] in *; [reflexivity|].
  rewrite IH, negb_orb. reflexivity.
Qed.

Lemma build_all tol tr l :
  build tol tr (All l) = CAnd (map (build tol tr) l).
Proof. reflexivity. Qed.
Lemma build_any tol tr l :
  build tol tr (Any l) = COr (map (build tol tr) l).
Proof. reflexivity. Qed.

(** *** azimuthal slices *)
Lemma in_angle_eumod s i p : in_angle (eumod1 s) i p = in_angle s i p.
Proof. unfold eumod1. numR. apply in_angle_shift. Qed.

Lemma wedge_surfaces_shift s i (k : Z) : wedge_surfaces (s - IZR k) i = wedge_surfaces (T:=R) s i.
Proof.
  unfold wedge_surfaces, sin_turn, cos_turn. rewrite npi_PI. numR.
  destruct (sincos_period_Z (2 * PI * s) (- k)) as [H1 H2]. rewrite opp_IZR in H1, H2.
  destruct (sincos_period_Z (2 * PI * (s + i)) (- k)) as [H3 H4]. rewrite opp_IZR in H3, H4.
  replace (2 * PI * (s - IZR k)) with (2 * PI * s + 2 * PI * - IZR k) by ring.
  replace (2 * PI * (s - IZR k + i)) with (2 * PI * (s + i) + 2 * PI * - IZR k) by ring.
  now rewrite H1, H2, H3, H4.
Qed.
Lemma wedge_surfaces_eumod s i : wedge_surfaces (eumod1 s) i = wedge_surfaces (T:=R) s i.
Proof. unfold eumod1. numR. apply wedge_surfaces_shift. Qed.

Lemma in_angle_full s p : in_angle (T:=R) s 1 p = true.
Proof.
  destruct p as [x y z]. unfold in_angle, cos_turn, sin_turn. rewrite npi_PI. numR. unfold n2. numR. cbn [vx vy vz].
  destruct (Rleb_spec 1 (1 / 2)) as [Hbad|_]; [lra|].
  replace (2 * PI * 1) with (0 + 2 * PI) by ring. rewrite cos_plus, cos_2PI, sin_2PI, cos_0, sin_0.
  set (X := x * cos (2 * PI * s) + y * sin (2 * PI * s)). set (Y := y * cos (2 * PI * s) - x * sin (2 * PI * s)).
  apply orb_true_iff. right. apply Rleb_true.
  assert (Hr0 : 0 <= sqrt (X * X + Y * Y)) by apply sqrt_pos.
  assert (Hrr : sqrt (X * X + Y * Y) * sqrt (X * X + Y * Y) = X * X + Y * Y) by (apply sqrt_sqrt; nra).
  replace (sqrt (X * X + Y * Y) * (1 * 1 - 0 * 0)) with (sqrt (X * X + Y * Y)) by ring.
  destruct (Rle_or_lt X (sqrt (X * X + Y * Y))) as [Hle|Hlt]; [exact Hle|]. nra.
Qed.

(** the wedge(s) built for an enclosed angle evaluate to the polar-angle definition *)
Lemma enclosed_eval tol tr s i p : 0 < i <= 1 ->
  forallb (fun c => csg_off c p) (build_enclosed tol tr (Some (s, i))) = true ->
  forallb (fun c => eval_csg c p) (build_enclosed tol tr (Some (s, i))) = in_angle s i (tf_down tr p).
Proof.
  intros Hi. unfold build_enclosed. numR. unfold n2. numR.
  destruct (Req_EM_T i 1) as [->|Hne].
  - replace (Reqb 1 1) with true by (symmetry; now apply Reqb_true). cbn. intros _. now rewrite in_angle_full.
  - replace (Reqb i 1) with false by (symmetry; now apply Reqb_false).
    set (q := tf_down tr p). destruct (Rltb_spec (1 / 2) i) as [Hbig|Hsmall]; cbn [forallb eval_csg csg_off].
    + rewrite !andb_true_r. rewrite eval_build_prim, off_build_prim. fold q. cbn [surfaces_of].
      rewrite wedge_surfaces_eumod.
      replace (eumod1 s + i) with ((s + i) - IZR (Int_part s)) by (unfold eumod1; numR; ring).
      rewrite wedge_surfaces_shift. intros Hoff. apply negb_true_iff in Hoff.
      assert (H1i : 0 < 1 - i <= / 2) by lra.
      pose proof (wedge_surfaces_iff_inside (s + i) (1 - i) q H1i Hoff) as Hw.
      cbn [inside_wedge] in Hw. unfold inside_wedge in Hw.
      destruct q as [x y z].
      (* off-surface facts for the complement lemma *)
      unfold wedge_surfaces in Hoff. senses_in Hoff. destruct Hoff as (Ho1 & Ho2 & _).
      unfold surf_f, sin_turn, cos_turn in Ho1, Ho2. rewrite npi_PI in Ho1, Ho2. vsimp.
      replace (2 * PI * (s + i + (1 - i))) with (2 * PI * s + 2 * PI) in Ho2 by ring.
      rewrite sin_plus, cos_plus, cos_2PI, sin_2PI in Ho2.
      rewrite (in_angle_complement s i x y z ltac:(lra)); [| lra | lra].
      f_equal. destruct (all_hold (wedge_surfaces (s + i) (1 - i)) (V3 x y z)),
                        (in_angle (s + i) (1 - i) (V3 x y z)); try reflexivity;
        [ symmetry; now apply Hw | now apply Hw ].
    + rewrite !andb_true_r. rewrite eval_build_prim, off_build_prim. fold q. cbn [surfaces_of].
      rewrite wedge_surfaces_eumod. intros Hoff. apply negb_true_iff in Hoff.
      assert (Hi2 : 0 < i <= / 2) by lra.
      pose proof (wedge_surfaces_iff_inside s i q Hi2 Hoff) as Hw. unfold inside_wedge in Hw.
      destruct (all_hold (wedge_surfaces s i) q), (in_angle s i q); try reflexivity;
        [ symmetry; now apply Hw | now apply Hw ].
Qed.

(** *** stacked segments *)
Lemma existsb_flat_map {A B} (f : B -> bool) (g : A -> list B) l :
  existsb f (flat_map g l) = existsb (fun x => existsb f (g x)) l.
Proof. induction l as [|x r IH]; cbn; [reflexivity|]. now rewrite existsb_app, IH. Qed.
Lemma forallb_flat_map {A B} (f : B -> bool) (g : A -> list B) l :
  forallb f (flat_map g l) = forallb (fun x => forallb f (g x)) l.
Proof. induction l as [|x r IH]; cbn; [reflexivity|]. now rewrite forallb_app, IH. Qed.

Lemma tf_down_translate_z dz (q : vec3 R) :
  tf_down (tf_translate_z dz) q = V3 (vx q) (vy q) (vz q - dz).
Proof. destruct q as [x y z]. unfold tf_translate_z, mat3_id. mat_unfold. apply v3_eq; ring. Qed.

Lemma seg_point tr dz p : orth (tf_rot tr) ->
  tf_down (tf_compose tr (tf_translate_z dz)) p
  = V3 (vx (tf_down tr p)) (vy (tf_down tr p)) (vz (tf_down tr p) - dz).
Proof. intros Ho. now rewrite tf_down_compose, tf_down_translate_z. Qed.

Definition seg_csgs (tol : R) (tr : tform) (mk : R -> R -> R -> prim R)
           (oi : (R * R * R * R) * option (R * R * R * R)) : list (csg R) :=
  let '(o, i) := oi in
  let '(z0, z1, r0, r1) := o in
  if soft_equal tol z0 z1 then []
  else
    let hz := (z1 - z0) / n2 in
    let tr' := tf_compose tr (tf_translate_z (z0 + hz)) in
    let outer := build_prim tol tr' (mk r0 r1 hz) in
    match i with
    | Some (_, _, q0, q1) => [CAnd [outer; CNot (build_prim tol tr' (mk q0 q1 hz))]]
    | None => [outer]
    end.
Definition seg_inside (tol : R) (mk : R -> R -> R -> prim R) (q : vec3 R)
           (oi : (R * R * R * R) * option (R * R * R * R)) : bool :=
  let '(o, i) := oi in
  let '(z0, z1, _, _) := o in
  negb (soft_equal tol z0 z1) && seg_prim_inside mk o q &&
  match i with Some ii => negb (seg_prim_inside mk ii q) | None => true end.

Lemma poly_segments_eval tol tr mk pairs p :
  orth (tf_rot tr) -> Forall (seg_ok tol mk) pairs ->
  forallb (fun oi => forallb (fun c => csg_off c p) (seg_csgs tol tr mk oi)) pairs = true ->
  existsb (fun oi => existsb (fun c => eval_csg c p) (seg_csgs tol tr mk oi)) pairs
  = existsb (seg_inside tol mk (tf_down tr p)) pairs.
Proof.
  intros Ho Hseg Hosegs. set (q := tf_down tr p) in *.
  induction pairs as [|[[[[z0 z1] r0] r1] i] rest IH]; [reflexivity|].
  cbn [existsb forallb] in *. apply andb_true_iff in Hosegs. destruct Hosegs as [Hhere Hrest].
  inversion Hseg as [|? ? Hok Hseg']; subst. f_equal; [|now apply IH].
  clear IH Hrest Hseg'. unfold seg_ok in Hok. cbn [fst snd] in Hok.
  unfold seg_csgs, seg_inside in *. destruct (soft_equal tol z0 z1); [reflexivity|]. cbn [negb andb].
  cbv zeta in *. unfold n2 in *. numR.
  destruct Hok as [Hgo Hgi].
  assert (Hpt : tf_down (tf_compose tr (tf_translate_z (z0 + (z1 - z0) / 2))) p
                = V3 (vx q) (vy q) (vz q - (z0 + (z1 - z0) / 2))) by (now apply seg_point).
  destruct i as [[[[y0 y1] q0] q1]|].
  - destruct Hgi as (-> & -> & Hgi). cbn [existsb forallb] in *.
    rewrite orb_false_r. rewrite andb_true_r in Hhere. rewrite eval_and. rewrite off_and in Hhere.
    cbn [forallb] in *. rewrite eval_not. rewrite off_not in Hhere. rewrite andb_true_r in *.
    apply andb_true_iff in Hhere. destruct Hhere as [Ho1 Ho2].
    rewrite !eval_build_prim. rewrite off_build_prim in Ho1, Ho2. apply negb_true_iff in Ho1, Ho2.
    rewrite Hpt in *. rewrite (Hgo _ Ho1), (Hgi _ Ho2). unfold seg_prim_inside. unfold n2. numR. reflexivity.
  - cbn [existsb forallb] in *. rewrite orb_false_r. rewrite andb_true_r in *.
    rewrite eval_build_prim. rewrite off_build_prim in Hhere. apply negb_true_iff in Hhere.
    rewrite Hpt in *. rewrite (Hgo _ Hhere). unfold seg_prim_inside. unfold n2. numR. reflexivity.
Qed.

Lemma build_poly_unfold tol tr mk zs ro ri a :
  build_poly tol tr mk zs ro ri a
  = match build_enclosed tol tr a with
    | [] => COr (flat_map (seg_csgs tol tr mk) (poly_pairs zs ro ri))
    | w => CAnd (COr (flat_map (seg_csgs tol tr mk) (poly_pairs zs ro ri)) :: w)
    end.
Proof. reflexivity. Qed.
Lemma inside_poly_unfold tol mk zs ro ri a q :
  inside_poly tol mk zs ro ri a q
  = existsb (seg_inside tol mk q) (poly_pairs zs ro ri) && in_enclosed a q.
Proof. reflexivity. Qed.

Lemma poly_eval tol tr mk zs ro ri a p :
  orth (tf_rot tr) -> Forall (seg_ok tol mk) (poly_pairs zs ro ri) ->
  (forall s i, a = Some (s, i) -> 0 < i <= 1) ->
  csg_off (build_poly tol tr mk zs ro ri a) p = true ->
  eval_csg (build_poly tol tr mk zs ro ri a) p = inside_poly tol mk zs ro ri a (tf_down tr p).
Proof.
  intros Ho Hseg Ha. rewrite build_poly_unfold, inside_poly_unfold.
  assert (Hang : forallb (fun c => csg_off c p) (build_enclosed tol tr a) = true ->
                 forallb (fun c => eval_csg c p) (build_enclosed tol tr a) = in_enclosed a (tf_down tr p)).
  { destruct a as [[s i]|]; [|reflexivity]. cbn [in_enclosed]. apply enclosed_eval. now apply (Ha s i). }
  set (segs := flat_map (seg_csgs tol tr mk) (poly_pairs zs ro ri)) in *.
  assert (Hsegs : csg_off (COr segs) p = true ->
                  eval_csg (COr segs) p = existsb (seg_inside tol mk (tf_down tr p)) (poly_pairs zs ro ri)).
  { unfold segs. rewrite off_or, eval_or, forallb_flat_map, existsb_flat_map. now apply poly_segments_eval. }
  destruct (build_enclosed tol tr a) as [|c w].
  - intros Hoff. rewrite (Hsegs Hoff). rewrite <- (Hang eq_refl). cbn. now rewrite andb_true_r.
  - intros Hoff. rewrite off_and in Hoff. cbn [forallb] in Hoff. apply andb_true_iff in Hoff.
    destruct Hoff as [H1 H2]. rewrite eval_and. cbn [forallb]. rewrite (Hsegs H1).
    f_equal. apply Hang. exact H2.
Qed.

Theorem build_eval_iff_inside tol o : good tol o ->
  forall tr p, orth (tf_rot tr) -> csg_off (build tol tr o) p = true ->
  eval_csg (build tol tr o) p = inside tol o (tf_down tr p).
Proof.
  induction o as [pr|i e a|zs ro ri a|n oo zs ro ri a|o' t IH|o' IH|l IH|l IH] using obj_ind';
    intros Hg tr p Ho Hoff; inversion Hg; subst.
  - (* Shape *)
    cbn [build inside] in *. rewrite eval_build_prim. rewrite off_build_prim in Hoff.
    apply negb_true_iff in Hoff. auto.
  - (* Solid, plain *)
    cbn [build inside in_enclosed app build_enclosed] in *. rewrite eval_and. rewrite off_and in Hoff.
    cbn [forallb] in *. repeat rewrite andb_true_r in Hoff. repeat rewrite andb_true_r.
    rewrite eval_build_prim. rewrite off_build_prim in Hoff.
    apply negb_true_iff in Hoff. match goal with H : prim_good _ _ |- _ => now rewrite (H _ Hoff) end.
  - (* Solid, hollow *)
    cbn [build inside in_enclosed app build_enclosed] in *. rewrite eval_and. rewrite off_and in Hoff.
    cbn [forallb eval_csg csg_off] in *. repeat rewrite andb_true_r in Hoff. repeat rewrite andb_true_r.
    rewrite !eval_build_prim.
    apply andb_true_iff in Hoff. destruct Hoff as [Hf1 Hf2]. rewrite off_build_prim in Hf1, Hf2.
    apply negb_true_iff in Hf1, Hf2.
    repeat match goal with H : prim_good _ _ |- _ => rewrite (H _ ltac:(eassumption)); clear H end.
    reflexivity.
  - (* Solid with an enclosed angle *)
    cbn [build inside in_enclosed] in *. rewrite eval_and. rewrite off_and in Hoff.
    cbn [forallb] in *. rewrite forallb_app in *.
    apply andb_true_iff in Hoff. destruct Hoff as [Hoi Hoff]. apply andb_true_iff in Hoff. destruct Hoff as [Hoe Hoa].
    rewrite eval_build_prim. rewrite off_build_prim in Hoi. apply negb_true_iff in Hoi.
    match goal with H : prim_good tol i |- _ => rewrite (H _ Hoi) end.
    rewrite (enclosed_eval tol tr s a0 p ltac:(assumption) Hoa).
    rewrite <- andb_assoc. f_equal. f_equal.
    destruct e as [ex|]; cbn [forallb eval_csg csg_off] in *; [|reflexivity].
    rewrite andb_true_r in *. rewrite eval_build_prim. rewrite off_build_prim in Hoe. apply negb_true_iff in Hoe.
    match goal with H : forall ex0, Some ex = Some ex0 -> _ |- _ => rewrite (H ex eq_refl _ Hoe) end. reflexivity.
  - (* PolyCone *)
    cbn [build inside] in *. now apply poly_eval.
  - (* PolyPrism *)
    cbn [build inside] in *. now apply poly_eval.
  - (* Transformed *)
    cbn [build inside] in *.
    assert (Ho' : orth (tf_rot (tf_compose tr t))) by (cbn [tf_compose tf_rot]; now apply orth_gemm3).
    rewrite (IH ltac:(assumption) _ _ Ho' Hoff). now rewrite tf_down_compose.
  - (* Neg *)
    cbn [build inside eval_csg csg_off] in *. f_equal. auto.
  - (* All *)
    rewrite build_all in *. rewrite eval_and, inside_all. rewrite off_and in Hoff.
    rewrite forallb_map in *.
    match goal with H : Forall (good tol) l |- _ => rename H into Hgl end.
    induction l as [|x r IHl]; cbn [forallb] in *; [reflexivity|].
    apply andb_true_iff in Hoff. destruct Hoff as [Hx Hr].
    inversion IH; subst. inversion Hgl; subst. f_equal; auto.
    apply IHl; auto. constructor; auto.
  - (* Any *)
    rewrite build_any in *. rewrite eval_or, inside_any. rewrite off_or in Hoff.
    rewrite forallb_map in Hoff. rewrite existsb_map.
    match goal with H : Forall (good tol) l |- _ => rename H into Hgl end.
    induction l as [|x r IHl]; cbn [forallb existsb] in *; [reflexivity|].
    apply andb_true_iff in Hoff. destruct Hoff as [Hx Hr].
    inversion IH; subst. inversion Hgl; subst. f_equal; auto.
    apply IHl; auto. constructor; auto.
Qed.

(** ** units: the per-volume records agree with the definitions *)
Definition unit_good (tol : R) (u : unit_ R) : Prop :=
  match u with
  | Unit _ b ds ms _ =>
      good tol b /\ Forall (fun d => good tol (daughter_interior d)) ds
      /\ Forall (fun m : string * obj R => good tol (snd m)) ms
  end.
Definition unit_off (tol : R) (u : unit_ R) (p : vec3 R) : bool :=
  match u with
  | Unit _ b ds ms _ =>
      csg_off (build tol tf_id b) p
      && forallb (fun d => csg_off (build tol tf_id (daughter_interior d)) p) ds
      && forallb (fun m : string * obj R => csg_off (build tol tf_id (snd m)) p) ms
  end.

Lemma build_top tol o p : good tol o -> csg_off (build tol tf_id o) p = true ->
  eval_csg (build tol tf_id o) p = inside tol o p.
Proof.
  intros Hg Hoff. rewrite (build_eval_iff_inside tol o Hg tf_id p orth_id Hoff). now rewrite tf_down_id.
Qed.

(** every volume of the unit (exterior, daughters, materials) accepts p
    through its built surfaces and logic iff p satisfies the volume's
    definition; for a material written "solid minus daughters" this is:
    inside the solid and outside every placed daughter
    ([material_minus_daughters]). *)
Theorem unit_volume_iff tol u p : unit_good tol u -> unit_off tol u p = true ->
  unit_claims_built tol u p = unit_claims tol u p.
Proof.
  destruct u as [lab b ds ms bg]. cbn [unit_good unit_off unit_claims unit_claims_built].
  intros (Hb & Hd & Hm) Hoff.
  apply andb_true_iff in Hoff. destruct Hoff as [Hoff Hom].
  apply andb_true_iff in Hoff. destruct Hoff as [Hob Hod].
  f_equal; [f_equal|].
  - now rewrite build_top.
  - induction ds as [|d r IH]; cbn [map forallb] in *; [reflexivity|].
    apply andb_true_iff in Hod. destruct Hod as [H1 H2]. inversion Hd; subst.
    f_equal; [now apply build_top | now apply IH].
  - induction ms as [|m r IH]; cbn [map forallb] in *; [reflexivity|].
    apply andb_true_iff in Hom. destruct Hom as [H1 H2]. inversion Hm; subst.
    f_equal; [now apply build_top | now apply IH].
Qed.

Lemma bool_eq_of_iff (a b : bool) : (a = true <-> b = true) -> a = b.
Proof. destruct a, b; intros [H1 H2]; try reflexivity; [symmetry; auto | auto]. Qed.

(** the hypotheses are satisfiable: a box translated and rotated by a quarter
    turn about z, minus a sphere *)
Example good_example :
  good 0 (All [Transformed (Shape (PBox 1 2 3)) (TF (M3 (V3 0 (-1) 0) (V3 1 0 0) (V3 0 0 1)) (V3 5 0 0));
               Neg (Shape (PSphere 1))]).
Proof.
  assert (Hbox : prim_good 0 (PBox 1 2 3)).
  { intros q Hq. apply bool_eq_of_iff. exact (box_surfaces_iff_inside 1 2 3 q Hq). }
  assert (Hsph : prim_good 0 (PSphere 1)).
  { intros q Hq. apply bool_eq_of_iff. exact (sphere_surfaces_iff_inside 1 q Hq). }
  apply good_all. apply Forall_cons; [|apply Forall_cons; [|apply Forall_nil]].
  - apply good_tr; [|now apply good_shape]. unfold orth. cbn. repeat split; lra.
  - apply good_neg. now apply good_shape.
Qed.

(** inner and outer segments of a poly-solid always share their axial extent *)
Lemma poly_pairs_z zs : forall ro l o ii,
  In (o, Some ii) (poly_pairs zs ro (Some l)) ->
  fst (fst (fst ii)) = fst (fst (fst o)) /\ snd (fst (fst ii)) = snd (fst (fst o)).
Proof.
  unfold poly_pairs. induction zs as [|z0 zs IH]; intros ro l o ii Hin; [destruct ro; cbn in Hin; contradiction|].
  destruct zs as [|z1 zs']; [destruct ro as [|? [|? ?]]; cbn in Hin; contradiction|].
  destruct ro as [|r0 [|r1 ro']]; try (cbn in Hin; contradiction).
  destruct l as [|q0 [|q1 l']]; try (cbn in Hin; contradiction).
  cbn [segments map combine In] in Hin. destruct Hin as [Heq|Hin].
  - inversion Heq; subst. cbn. split; reflexivity.
  - apply (IH (r1 :: ro') (q1 :: l')). exact Hin.
Qed.

(** so a poly-solid is covered as soon as its stacked primitives are good *)
Lemma seg_ok_of_prims tol mk zs ro ri :
  (forall z0 z1 r0 r1, In (z0, z1, r0, r1) (segments zs ro) -> prim_good tol (mk r0 r1 ((z1 - z0) / 2))) ->
  (forall l z0 z1 q0 q1, ri = Some l -> In (z0, z1, q0, q1) (segments zs l) -> prim_good tol (mk q0 q1 ((z1 - z0) / 2))) ->
  Forall (seg_ok tol mk) (poly_pairs zs ro ri).
Proof.
  intros Ho Hi. apply Forall_forall. intros [[[[z0 z1] r0] r1] i] Hin. unfold seg_ok. cbn [fst snd].
  split.
  - apply Ho. unfold poly_pairs in Hin. now apply in_combine_l in Hin.
  - destruct i as [[[[y0 y1] q0] q1]|]; [|exact I].
    destruct ri as [l|].
    + destruct (poly_pairs_z zs ro l _ _ Hin) as [E1 E2]. cbn in E1, E2. subst y0 y1.
      repeat split. apply (Hi l); [reflexivity|].
      unfold poly_pairs in Hin. apply in_combine_r in Hin. apply in_map_iff in Hin.
      destruct Hin as [x [Hx Hin]]. inversion Hx; subst. exact Hin.
    + unfold poly_pairs in Hin. apply in_combine_r in Hin. apply in_map_iff in Hin.
      destruct Hin as [x [Hx _]]. discriminate.
Qed.
