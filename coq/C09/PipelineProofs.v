(** * C09 proofs (instance R) about objects, transforms and units. *)
From Coq Require Import Reals ZArith List Bool Lra Lia Psatz String.
From Celer Require Import Base.Num Base.NumR Base.Vec3 C12.Solver C12.Surfaces C12.SurfacesProofs
  C12.Transforms C09.Shapes C09.ShapesProofs C09.Pipeline.
Import ListNotations.
Local Open Scope R_scope.

Notation tform := (transformation R).

(** ** CSG semantics of the object classes *)
Lemma inside_all tol l p :
  inside tol (All l) p = forallb (fun o => inside tol o p) l.
Proof. cbn [inside]. induction l as [|x r IH]; cbn; [reflexivity|]. now rewrite <- IH. Qed.
Lemma inside_any tol l p :
  inside tol (Any l) p = existsb (fun o => inside tol o p) l.
Proof. cbn [inside]. induction l as [|x r IH]; cbn; [reflexivity|]. now rewrite <- IH. Qed.

Theorem csg_semantics tol (a b : obj R) l p :
  (inside tol (Neg a) p = true <-> ~ inside tol a p = true) /\
  (inside tol (All l) p = true <-> Forall (fun o => inside tol o p = true) l) /\
  (inside tol (Any l) p = true <-> Exists (fun o => inside tol o p = true) l) /\
  (* make_subtraction a b = All [a; Neg b] *)
  (inside tol (All [a; Neg b]) p = true <-> inside tol a p = true /\ ~ inside tol b p = true).
Proof.
  repeat split.
  - cbn [inside]. destruct (inside tol a p); cbn; congruence.
  - cbn [inside]. destruct (inside tol a p); cbn; intros Hn; congruence.
  - rewrite inside_all, forallb_forall, Forall_forall. auto.
  - rewrite inside_all, forallb_forall, Forall_forall. auto.
  - rewrite inside_any, existsb_exists, Exists_exists. auto.
  - rewrite inside_any, existsb_exists, Exists_exists. auto.
  - rewrite inside_all in H. cbn in H. rewrite andb_true_r in H. apply andb_true_iff in H. tauto.
  - rewrite inside_all in H. cbn [forallb inside] in H. rewrite andb_true_r in H.
    apply andb_true_iff in H. destruct H as [_ H]. destruct (inside tol b p); cbn in *; congruence.
  - intros [Ha Hb]. rewrite inside_all. cbn [forallb inside]. rewrite Ha.
    destruct (inside tol b p); cbn; congruence.
Qed.

(** hollow solid: the excluded interior is removed *)
Theorem solid_hollow tol i e p :
  inside tol (Solid i (Some e) None) p = true <-> inside_prim i p = true /\ inside_prim e p = false.
Proof.
  cbn [inside in_enclosed]. rewrite andb_true_r, andb_true_iff, negb_true_iff. tauto.
Qed.

(** material defined "minus the daughters" (make_rdv pattern used by every
    input): accepted iff inside its own solid and outside every daughter *)
Theorem material_minus_daughters tol raw (ds : list (obj R)) p :
  inside tol (All (raw :: map (@Neg R) ds)) p = true <->
  inside tol raw p = true /\ Forall (fun d => inside tol d p = false) ds.
Proof.
  rewrite inside_all. cbn [forallb]. rewrite andb_true_iff, forallb_forall, Forall_forall.
  split; intros [Hr Hd]; split; auto.
  - intros d Hin. specialize (Hd (Neg d) (in_map _ _ _ Hin)). cbn [inside] in Hd.
    now apply negb_true_iff.
  - intros x Hin. apply in_map_iff in Hin. destruct Hin as [d [<- Hin]]. cbn [inside].
    apply negb_true_iff. auto.
Qed.

(** ** transforms: daughter-to-parent maps and their inverses *)
Definition orth (m : mat3 R) : Prop :=
  match m with
  | M3 (V3 a b c) (V3 d e f) (V3 g h i) =>
      a * a + d * d + g * g = 1 /\ b * b + e * e + h * h = 1 /\ c * c + f * f + i * i = 1 /\
      a * b + d * e + g * h = 0 /\ a * c + d * f + g * i = 0 /\ b * c + e * f + h * i = 0
  end.
(** rows orthonormal as well (R R^T = I); equivalent for square matrices, stated separately *)
Definition orth_rows (m : mat3 R) : Prop := orth (make_transpose m).

Ltac mat_unfold :=
  unfold tf_compose in *; unfold tf_down, tf_up, gemv, gemv_t, gemm3, mget, mrow, vget, vsub, vadd, make_transpose, orth in *;
  cbn [tf_rot tf_tra r0 r1 r2 vx vy vz] in *; numR.

Lemma v3_eq (a b c a' b' c' : R) : a = a' -> b = b' -> c = c' -> V3 a b c = V3 a' b' c'.
Proof. now intros -> -> ->. Qed.

(** x -> R x + t followed by the pull-back is the identity *)
Lemma tf_down_up tr q : orth (tf_rot tr) -> tf_down tr (tf_up tr q) = q.
Proof.
  destruct tr as [[[a b c] [d e f] [g h i]] [tx ty tz]], q as [x y z]. intros Ho. mat_unfold.
  destruct Ho as (H1 & H2 & H3 & H4 & H5 & H6).
  apply v3_eq.
  - transitivity ((a * a + d * d + g * g) * x + (a * b + d * e + g * h) * y + (a * c + d * f + g * i) * z); [ring|].
    rewrite H1, H4, H5. ring.
  - transitivity ((a * b + d * e + g * h) * x + (b * b + e * e + h * h) * y + (b * c + e * f + h * i) * z); [ring|].
    rewrite H2, H4, H6. ring.
  - transitivity ((a * c + d * f + g * i) * x + (b * c + e * f + h * i) * y + (c * c + f * f + i * i) * z); [ring|].
    rewrite H3, H5, H6. ring.
Qed.

(** composition: apply_transform(parent, child) pulls back as child^-1 . parent^-1 *)
Lemma tf_down_compose a b p : orth (tf_rot a) ->
  tf_down (tf_compose a b) p = tf_down b (tf_down a p).
Proof.
  destruct a as [[[a1 a2 a3] [a4 a5 a6] [a7 a8 a9]] [tx ty tz]],
           b as [[[b1 b2 b3] [b4 b5 b6] [b7 b8 b9]] [sx sy sz]], p as [x y z].
  intros Ho. mat_unfold. destruct Ho as (H1 & H2 & H3 & H4 & H5 & H6).
  (* rewrite the parent's Gram matrix entries *)
  assert (G11 : a1 * a1 + a4 * a4 + a7 * a7 = 1) by lra.
  assert (G22 : a2 * a2 + a5 * a5 + a8 * a8 = 1) by lra.
  assert (G33 : a3 * a3 + a6 * a6 + a9 * a9 = 1) by lra.
  apply v3_eq.
  - match goal with |- ?L = ?Rr =>
      assert (L - Rr = - ( b1 * ((a1 * a1 + a4 * a4 + a7 * a7 - 1) * sx + (a1 * a2 + a4 * a5 + a7 * a8) * sy + (a1 * a3 + a4 * a6 + a7 * a9) * sz)
                        + b4 * ((a1 * a2 + a4 * a5 + a7 * a8) * sx + (a2 * a2 + a5 * a5 + a8 * a8 - 1) * sy + (a2 * a3 + a5 * a6 + a8 * a9) * sz)
                        + b7 * ((a1 * a3 + a4 * a6 + a7 * a9) * sx + (a2 * a3 + a5 * a6 + a8 * a9) * sy + (a3 * a3 + a6 * a6 + a9 * a9 - 1) * sz))) as Hd by ring
    end.
    rewrite H1, H2, H3, H4, H5, H6 in Hd. lra.
  - match goal with |- ?L = ?Rr =>
      assert (L - Rr = - ( b2 * ((a1 * a1 + a4 * a4 + a7 * a7 - 1) * sx + (a1 * a2 + a4 * a5 + a7 * a8) * sy + (a1 * a3 + a4 * a6 + a7 * a9) * sz)
                        + b5 * ((a1 * a2 + a4 * a5 + a7 * a8) * sx + (a2 * a2 + a5 * a5 + a8 * a8 - 1) * sy + (a2 * a3 + a5 * a6 + a8 * a9) * sz)
                        + b8 * ((a1 * a3 + a4 * a6 + a7 * a9) * sx + (a2 * a3 + a5 * a6 + a8 * a9) * sy + (a3 * a3 + a6 * a6 + a9 * a9 - 1) * sz))) as Hd by ring
    end.
    rewrite H1, H2, H3, H4, H5, H6 in Hd. lra.
  - match goal with |- ?L = ?Rr =>
      assert (L - Rr = - ( b3 * ((a1 * a1 + a4 * a4 + a7 * a7 - 1) * sx + (a1 * a2 + a4 * a5 + a7 * a8) * sy + (a1 * a3 + a4 * a6 + a7 * a9) * sz)
                        + b6 * ((a1 * a2 + a4 * a5 + a7 * a8) * sx + (a2 * a2 + a5 * a5 + a8 * a8 - 1) * sy + (a2 * a3 + a5 * a6 + a8 * a9) * sz)
                        + b9 * ((a1 * a3 + a4 * a6 + a7 * a9) * sx + (a2 * a3 + a5 * a6 + a8 * a9) * sy + (a3 * a3 + a6 * a6 + a9 * a9 - 1) * sz))) as Hd by ring
    end.
    rewrite H1, H2, H3, H4, H5, H6 in Hd. lra.
Qed.

Lemma tf_down_id p : tf_down (tf_id (T:=R)) p = p.
Proof. destruct p as [x y z]. unfold tf_id, mat3_id. mat_unfold. apply v3_eq; ring. Qed.

(** the point set of a transformed object is the image of the object's point set *)
Theorem transformed_object tol o tr :
  orth (tf_rot tr) ->
  (forall p, inside tol (Transformed o tr) p = inside tol o (tf_down tr p)) /\
  (forall q, inside tol (Transformed o tr) (tf_up tr q) = inside tol o q).
Proof.
  intros Ho. split; intros; cbn [inside]; [reflexivity|]. now rewrite tf_down_up.
Qed.

(** the product of two orthogonal matrices is orthogonal *)
Lemma orth_gemm3 (a b : mat3 R) : orth a -> orth b -> orth (gemm3 a b).
Proof.
  destruct a as [[a1 a2 a3] [a4 a5 a6] [a7 a8 a9]], b as [[b1 b2 b3] [b4 b5 b6] [b7 b8 b9]].
  intros Ha Hb. unfold gemm3, mget, mrow, vget, orth in *. cbn [r0 r1 r2 vx vy vz] in *. numR.
  destruct Ha as (A1 & A2 & A3 & A4 & A5 & A6). destruct Hb as (B1 & B2 & B3 & B4 & B5 & B6).
  assert (A4' : a2 * a1 + a5 * a4 + a8 * a7 = 0) by lra.
  assert (A5' : a3 * a1 + a6 * a4 + a9 * a7 = 0) by lra.
  assert (A6' : a3 * a2 + a6 * a5 + a9 * a8 = 0) by lra.
  repeat split.
  - match goal with |- ?L = ?Rr => assert (Hd : L - Rr = b1 * b1 * ((a1 * a1 + a4 * a4 + a7 * a7) - 1) + b1 * b4 * ((a1 * a2 + a4 * a5 + a7 * a8) - 0) + b1 * b7 * ((a1 * a3 + a4 * a6 + a7 * a9) - 0) + b4 * b1 * ((a2 * a1 + a5 * a4 + a8 * a7) - 0) + b4 * b4 * ((a2 * a2 + a5 * a5 + a8 * a8) - 1) + b4 * b7 * ((a2 * a3 + a5 * a6 + a8 * a9) - 0) + b7 * b1 * ((a3 * a1 + a6 * a4 + a9 * a7) - 0) + b7 * b4 * ((a3 * a2 + a6 * a5 + a9 * a8) - 0) + b7 * b7 * ((a3 * a3 + a6 * a6 + a9 * a9) - 1) + ((b1 * b1 + b4 * b4 + b7 * b7) - 1)) by ring end.
    rewrite A1, A2, A3, A4, A5, A6, A4', A5', A6' in Hd. lra.
  - match goal with |- ?L = ?Rr => assert (Hd : L - Rr = b2 * b2 * ((a1 * a1 + a4 * a4 + a7 * a7) - 1) + b2 * b5 * ((a1 * a2 + a4 * a5 + a7 * a8) - 0) + b2 * b8 * ((a1 * a3 + a4 * a6 + a7 * a9) - 0) + b5 * b2 * ((a2 * a1 + a5 * a4 + a8 * a7) - 0) + b5 * b5 * ((a2 * a2 + a5 * a5 + a8 * a8) - 1) + b5 * b8 * ((a2 * a3 + a5 * a6 + a8 * a9) - 0) + b8 * b2 * ((a3 * a1 + a6 * a4 + a9 * a7) - 0) + b8 * b5 * ((a3 * a2 + a6 * a5 + a9 * a8) - 0) + b8 * b8 * ((a3 * a3 + a6 * a6 + a9 * a9) - 1) + ((b2 * b2 + b5 * b5 + b8 * b8) - 1)) by ring end.
    rewrite A1, A2, A3, A4, A5, A6, A4', A5', A6' in Hd. lra.
  - match goal with |- ?L = ?Rr => assert (Hd : L - Rr = b3 * b3 * ((a1 * a1 + a4 * a4 + a7 * a7) - 1) + b3 * b6 * ((a1 * a2 + a4 * a5 + a7 * a8) - 0) + b3 * b9 * ((a1 * a3 + a4 * a6 + a7 * a9) - 0) + b6 * b3 * ((a2 * a1 + a5 * a4 + a8 * a7) - 0) + b6 * b6 * ((a2 * a2 + a5 * a5 + a8 * a8) - 1) + b6 * b9 * ((a2 * a3 + a5 * a6 + a8 * a9) - 0) + b9 * b3 * ((a3 * a1 + a6 * a4 + a9 * a7) - 0) + b9 * b6 * ((a3 * a2 + a6 * a5 + a9 * a8) - 0) + b9 * b9 * ((a3 * a3 + a6 * a6 + a9 * a9) - 1) + ((b3 * b3 + b6 * b6 + b9 * b9) - 1)) by ring end.
    rewrite A1, A2, A3, A4, A5, A6, A4', A5', A6' in Hd. lra.
  - match goal with |- ?L = ?Rr => assert (Hd : L - Rr = b1 * b2 * ((a1 * a1 + a4 * a4 + a7 * a7) - 1) + b1 * b5 * ((a1 * a2 + a4 * a5 + a7 * a8) - 0) + b1 * b8 * ((a1 * a3 + a4 * a6 + a7 * a9) - 0) + b4 * b2 * ((a2 * a1 + a5 * a4 + a8 * a7) - 0) + b4 * b5 * ((a2 * a2 + a5 * a5 + a8 * a8) - 1) + b4 * b8 * ((a2 * a3 + a5 * a6 + a8 * a9) - 0) + b7 * b2 * ((a3 * a1 + a6 * a4 + a9 * a7) - 0) + b7 * b5 * ((a3 * a2 + a6 * a5 + a9 * a8) - 0) + b7 * b8 * ((a3 * a3 + a6 * a6 + a9 * a9) - 1) + ((b1 * b2 + b4 * b5 + b7 * b8) - 0)) by ring end.
    rewrite A1, A2, A3, A4, A5, A6, A4', A5', A6' in Hd. lra.
  - match goal with |- ?L = ?Rr => assert (Hd : L - Rr = b1 * b3 * ((a1 * a1 + a4 * a4 + a7 * a7) - 1) + b1 * b6 * ((a1 * a2 + a4 * a5 + a7 * a8) - 0) + b1 * b9 * ((a1 * a3 + a4 * a6 + a7 * a9) - 0) + b4 * b3 * ((a2 * a1 + a5 * a4 + a8 * a7) - 0) + b4 * b6 * ((a2 * a2 + a5 * a5 + a8 * a8) - 1) + b4 * b9 * ((a2 * a3 + a5 * a6 + a8 * a9) - 0) + b7 * b3 * ((a3 * a1 + a6 * a4 + a9 * a7) - 0) + b7 * b6 * ((a3 * a2 + a6 * a5 + a9 * a8) - 0) + b7 * b9 * ((a3 * a3 + a6 * a6 + a9 * a9) - 1) + ((b1 * b3 + b4 * b6 + b7 * b9) - 0)) by ring end.
    rewrite A1, A2, A3, A4, A5, A6, A4', A5', A6' in Hd. lra.
  - match goal with |- ?L = ?Rr => assert (Hd : L - Rr = b2 * b3 * ((a1 * a1 + a4 * a4 + a7 * a7) - 1) + b2 * b6 * ((a1 * a2 + a4 * a5 + a7 * a8) - 0) + b2 * b9 * ((a1 * a3 + a4 * a6 + a7 * a9) - 0) + b5 * b3 * ((a2 * a1 + a5 * a4 + a8 * a7) - 0) + b5 * b6 * ((a2 * a2 + a5 * a5 + a8 * a8) - 1) + b5 * b9 * ((a2 * a3 + a5 * a6 + a8 * a9) - 0) + b8 * b3 * ((a3 * a1 + a6 * a4 + a9 * a7) - 0) + b8 * b6 * ((a3 * a2 + a6 * a5 + a9 * a8) - 0) + b8 * b9 * ((a3 * a3 + a6 * a6 + a9 * a9) - 1) + ((b2 * b3 + b5 * b6 + b8 * b9) - 0)) by ring end.
    rewrite A1, A2, A3, A4, A5, A6, A4', A5', A6' in Hd. lra.
Qed.

Lemma orth_id : orth (mat3_id (T:=R)).
Proof. unfold mat3_id, orth. numR. repeat split; ring. Qed.

(** ** the construction model evaluates to the definition *)
Section ObjInd.
  Variable P : obj R -> Prop.
  Hypothesis HShape : forall pr, P (Shape pr).
  Hypothesis HSolid : forall i e a, P (Solid i e a).
  Hypothesis HPC : forall zs ro ri a, P (PolyCone zs ro ri a).
  Hypothesis HPP : forall n o zs ro ri a, P (PolyPrism n o zs ro ri a).
  Hypothesis HTr : forall o tr, P o -> P (Transformed o tr).
  Hypothesis HNeg : forall o, P o -> P (Neg o).
  Hypothesis HAll : forall l, Forall P l -> P (All l).
  Hypothesis HAny : forall l, Forall P l -> P (Any l).
  Fixpoint obj_ind' (o : obj R) : P o :=
    match o with
    | Shape pr => HShape pr
    | Solid i e a => HSolid i e a
    | PolyCone zs ro ri a => HPC zs ro ri a
    | PolyPrism n oo zs ro ri a => HPP n oo zs ro ri a
    | Transformed o' tr => HTr o' tr (obj_ind' o')
    | Neg o' => HNeg o' (obj_ind' o')
    | All l => HAll l ((fix go (l : list (obj R)) : Forall P l :=
                          match l with [] => Forall_nil _ | x :: r => Forall_cons _ (obj_ind' x) (go r) end) l)
    | Any l => HAny l ((fix go (l : list (obj R)) : Forall P l :=
                          match l with [] => Forall_nil _ | x :: r => Forall_cons _ (obj_ind' x) (go r) end) l)
    end.
End ObjInd.

(** a primitive whose emitted surfaces describe its documented point set
    (the [<shape>_surfaces_iff_inside] theorems of ShapesProofs) *)
Definition prim_good (tol : R) (pr : prim R) : Prop :=
  forall q, on_any (surfaces_of tol pr) q = false ->
            all_hold (surfaces_of tol pr) q = inside_prim pr q.

(** objects covered by the composition theorem: primitives are good,
    transforms are orthogonal (rotations / reflections + translation), solids
    are hollow or plain (azimuthal slices: see [wedge_surfaces_iff_inside]),
    no polycone/polyprism *)
Inductive good (tol : R) : obj R -> Prop :=
| good_shape pr : prim_good tol pr -> good tol (Shape pr)
| good_solid i : prim_good tol i -> good tol (Solid i None None)
| good_hollow i e : prim_good tol i -> prim_good tol e -> good tol (Solid i (Some e) None)
| good_tr o t : orth (tf_rot t) -> good tol o -> good tol (Transformed o t)
| good_neg o : good tol o -> good tol (Neg o)
| good_all l : Forall (good tol) l -> good tol (All l)
| good_any l : Forall (good tol) l -> good tol (Any l).

(** p is not on any surface of the built tree *)
Fixpoint csg_off (c : csg R) (p : vec3 R) : bool :=
  match c with
  | CTrue | CFalse => true
  | CSurf _ s tr => negb (on_surface s (tf_down tr p))
  | CNot c' => csg_off c' p
  | CAnd l | COr l => (fix go (l : list (csg R)) : bool :=
                         match l with [] => true | x :: r => csg_off x p && go r end) l
  end.

Lemma eval_and l p : eval_csg (CAnd l) p = forallb (fun c => eval_csg c p) l.
Proof. cbn [eval_csg]. induction l as [|x r IH]; cbn; [reflexivity|]. now rewrite <- IH. Qed.
Lemma eval_or l p : eval_csg (COr l) p = existsb (fun c => eval_csg c p) l.
Proof. cbn [eval_csg]. induction l as [|x r IH]; cbn; [reflexivity|]. now rewrite <- IH. Qed.
Lemma off_and l p : csg_off (CAnd l) p = forallb (fun c => csg_off c p) l.
Proof. cbn [csg_off]. induction l as [|x r IH]; cbn; [reflexivity|]. now rewrite <- IH. Qed.
Lemma off_or l p : csg_off (COr l) p = forallb (fun c => csg_off c p) l.
Proof. cbn [csg_off]. induction l as [|x r IH]; cbn; [reflexivity|]. now rewrite <- IH. Qed.

Lemma eval_build_prim tol tr pr p :
  eval_csg (build_prim tol tr pr) p = all_hold (surfaces_of tol pr) (tf_down tr p).
Proof.
  unfold build_prim, all_hold. rewrite eval_and, forallb_map. reflexivity.
Qed.
Lemma off_build_prim tol tr pr p :
  csg_off (build_prim tol tr pr) p = negb (on_any (surfaces_of tol pr) (tf_down tr p)).
Proof.
  unfold build_prim, on_any. rewrite off_and, forallb_map.
  induction (surfaces_of tol pr) as [|x r IH]; cbn [forallb existsb csg_off] in *; [reflexivity|].
  rewrite IH, negb_orb. reflexivity.
Qed.

Lemma build_all tol tr l :
  build tol tr (All l) = CAnd (map (build tol tr) l).
Proof. reflexivity. Qed.
Lemma build_any tol tr l :
  build tol tr (Any l) = COr (map (build tol tr) l).
Proof. reflexivity. Qed.

Theorem build_eval_iff_inside tol o : good tol o ->
  forall tr p, orth (tf_rot tr) -> csg_off (build tol tr o) p = true ->
  eval_csg (build tol tr o) p = inside tol o (tf_down tr p).
Proof.
  induction o as [pr|i e a|zs ro ri a|n oo zs ro ri a|o' t IH|o' IH|l IH|l IH] using obj_ind';
    intros Hg tr p Ho Hoff; inversion Hg; subst.
  - (* Shape *)
    cbn [build inside] in *. rewrite eval_build_prim. rewrite off_build_prim in Hoff.
    apply negb_true_iff in Hoff. auto.
  - (* Solid, plain *)
    cbn [build inside in_enclosed app build_enclosed] in *. rewrite eval_and. rewrite off_and in Hoff.
    cbn [forallb] in *. repeat rewrite andb_true_r in Hoff. repeat rewrite andb_true_r.
    rewrite eval_build_prim. rewrite off_build_prim in Hoff.
    apply negb_true_iff in Hoff. match goal with H : prim_good _ _ |- _ => now rewrite (H _ Hoff) end.
  - (* Solid, hollow *)
    cbn [build inside in_enclosed app build_enclosed] in *. rewrite eval_and. rewrite off_and in Hoff.
    cbn [forallb eval_csg csg_off] in *. repeat rewrite andb_true_r in Hoff. repeat rewrite andb_true_r.
    rewrite !eval_build_prim.
    apply andb_true_iff in Hoff. destruct Hoff as [Hf1 Hf2]. rewrite off_build_prim in Hf1, Hf2.
    apply negb_true_iff in Hf1, Hf2.
    repeat match goal with H : prim_good _ _ |- _ => rewrite (H _ ltac:(eassumption)); clear H end.
    reflexivity.
  - (* Transformed *)
    cbn [build inside] in *.
    assert (Ho' : orth (tf_rot (tf_compose tr t))) by (cbn [tf_compose tf_rot]; now apply orth_gemm3).
    rewrite (IH ltac:(assumption) _ _ Ho' Hoff). now rewrite tf_down_compose.
  - (* Neg *)
    cbn [build inside eval_csg csg_off] in *. f_equal. auto.
  - (* All *)
    rewrite build_all in *. rewrite eval_and, inside_all. rewrite off_and in Hoff.
    rewrite forallb_map in *.
    match goal with H : Forall (good tol) l |- _ => rename H into Hgl end.
    induction l as [|x r IHl]; cbn [forallb] in *; [reflexivity|].
    apply andb_true_iff in Hoff. destruct Hoff as [Hx Hr].
    inversion IH; subst. inversion Hgl; subst. f_equal; auto.
    apply IHl; auto. constructor; auto.
  - (* Any *)
    rewrite build_any in *. rewrite eval_or, inside_any. rewrite off_or in Hoff.
    rewrite forallb_map in Hoff. rewrite existsb_map.
    match goal with H : Forall (good tol) l |- _ => rename H into Hgl end.
    induction l as [|x r IHl]; cbn [forallb existsb] in *; [reflexivity|].
    apply andb_true_iff in Hoff. destruct Hoff as [Hx Hr].
    inversion IH; subst. inversion Hgl; subst. f_equal; auto.
    apply IHl; auto. constructor; auto.
Qed.

(** ** units: the per-volume records agree with the definitions *)
Definition unit_good (tol : R) (u : unit_ R) : Prop :=
  match u with
  | Unit _ b ds ms _ =>
      good tol b /\ Forall (fun d => good tol (daughter_interior d)) ds
      /\ Forall (fun m : string * obj R => good tol (snd m)) ms
  end.
Definition unit_off (tol : R) (u : unit_ R) (p : vec3 R) : bool :=
  match u with
  | Unit _ b ds ms _ =>
      csg_off (build tol tf_id b) p
      && forallb (fun d => csg_off (build tol tf_id (daughter_interior d)) p) ds
      && forallb (fun m : string * obj R => csg_off (build tol tf_id (snd m)) p) ms
  end.

Lemma build_top tol o p : good tol o -> csg_off (build tol tf_id o) p = true ->
  eval_csg (build tol tf_id o) p = inside tol o p.
Proof.
  intros Hg Hoff. rewrite (build_eval_iff_inside tol o Hg tf_id p orth_id Hoff). now rewrite tf_down_id.
Qed.

(** every volume of the unit (exterior, daughters, materials) accepts p
    through its built surfaces and logic iff p satisfies the volume's
    definition; for a material written "solid minus daughters" this is:
    inside the solid and outside every placed daughter
    ([material_minus_daughters]). *)
Theorem unit_volume_iff tol u p : unit_good tol u -> unit_off tol u p = true ->
  unit_claims_built tol u p = unit_claims tol u p.
Proof.
  destruct u as [lab b ds ms bg]. cbn [unit_good unit_off unit_claims unit_claims_built].
  intros (Hb & Hd & Hm) Hoff.
  apply andb_true_iff in Hoff. destruct Hoff as [Hoff Hom].
  apply andb_true_iff in Hoff. destruct Hoff as [Hob Hod].
  f_equal; [f_equal|].
  - now rewrite build_top.
  - induction ds as [|d r IH]; cbn [map forallb] in *; [reflexivity|].
    apply andb_true_iff in Hod. destruct Hod as [H1 H2]. inversion Hd; subst.
    f_equal; [now apply build_top | now apply IH].
  - induction ms as [|m r IH]; cbn [map forallb] in *; [reflexivity|].
    apply andb_true_iff in Hom. destruct Hom as [H1 H2]. inversion Hm; subst.
    f_equal; [now apply build_top | now apply IH].
Qed.

Lemma bool_eq_of_iff (a b : bool) : (a = true <-> b = true) -> a = b.
Proof. destruct a, b; intros [H1 H2]; try reflexivity; [symmetry; auto | auto]. Qed.

(** the hypotheses are satisfiable: a box translated and rotated by a quarter
    turn about z, minus a sphere *)
Example good_example :
  good 0 (All [Transformed (Shape (PBox 1 2 3)) (TF (M3 (V3 0 (-1) 0) (V3 1 0 0) (V3 0 0 1)) (V3 5 0 0));
               Neg (Shape (PSphere 1))]).
Proof.
  assert (Hbox : prim_good 0 (PBox 1 2 3)).
  { intros q Hq. apply bool_eq_of_iff. exact (box_surfaces_iff_inside 1 2 3 q Hq). }
  assert (Hsph : prim_good 0 (PSphere 1)).
  { intros q Hq. apply bool_eq_of_iff. exact (sphere_surfaces_iff_inside 1 q Hq). }
  apply good_all. apply Forall_cons; [|apply Forall_cons; [|apply Forall_nil]].
  - apply good_tr; [|now apply good_shape]. unfold orth. cbn. repeat split; lra.
  - apply good_neg. now apply good_shape.
Qed.
