(** * C09: entry points of BZone.v / Dedup.v normalised for the correspondence
    check (floats; infinities of box bounds mapped to / from [ext]).  No proofs. *)
From Coq Require Import ZArith List Bool Floats.
From Celer Require Import Base.Num Base.NumF Base.Vec3 C12.Solver C12.Surfaces C12.Transforms C09.BZone C09.Dedup.
Import ListNotations.
Open Scope float_scope.

Definition e_of (x : float) : ext float :=
  if PrimFloat.eqb x infinity then PInf else if PrimFloat.eqb x neg_infinity then NInf else Fin x.
Definition e_to (e : ext float) : float :=
  match e with PInf => infinity | NInf => neg_infinity | Fin x => x end.
Definition box_of (l : list float) : ebox float :=
  match l with
  | [a; b; c; d; e; f] => EB (e_of a) (e_of b) (e_of c) (e_of d) (e_of e) (e_of f)
  | _ => null_box
  end.
Definition box_to (b : ebox float) : list float :=
  [e_to (lox b); e_to (loy b); e_to (loz b); e_to (hix b); e_to (hiy b); e_to (hiz b)].
Definition zone_of (l : list float) (neg : bool) : bzone float :=
  BZ (box_of (firstn 6 l)) (box_of (skipn 6 l)) neg.
Definition zone_to (z : bzone float) : list float * bool * list float :=
  (box_to (zint z) ++ box_to (zext z), zneg z, box_to (get_exterior_bbox z)).
(** [isect]: calc_intersection, else calc_union; also the repaired variants *)
Definition run_bz (isect : bool) (la : list float) (na : bool) (lb : list float) (nb : bool) :=
  zone_to ((if isect then bz_intersection else bz_union) (zone_of la na) (zone_of lb nb)).
Definition run_bz_fix (isect : bool) (la : list float) (na : bool) (lb : list float) (nb : bool) :=
  zone_to ((if isect then bz_intersection_fix else bz_union_fix) (zone_of la na) (zone_of lb nb)).
Definition run_bt (tr : transformation float) (lo hi : vec3 float) : list float :=
  let '(l, u) := box_transform tr lo hi in [vx l; vy l; vz l; vx u; vy u; vz u].

Definition emach : float := 0x1p-52.
Definition run_sse (rel abs_ : float) (a b : surface float) : bool * bool :=
  (sse rel abs_ emach a b, sse rel abs_ emach a b && exact_eq a b).
(** replay of the ids the real inserter returned: [Some size] if every id is allowed *)
Definition run_lsi (rel abs_ : float) (l : list (surface float * nat)) : option nat :=
  match lsi_replay (Tol rel abs_ emach) lsi_empty l with
  | Some st => Some (length (ls_surfs st))
  | None => None
  end.
(** ids the model allows for the LAST call after replaying the others *)
Definition run_lsi_allowed (rel abs_ : float) (l : list (surface float * nat)) (s : surface float) : list nat :=
  match lsi_replay (Tol rel abs_ emach) lsi_empty l with
  | Some st => fst (lsi_outcomes (Tol rel abs_ emach) st s)
  | None => []
  end.
Definition run_gh (gw eps h1 h2 : float) : nat * nat * bool :=
  let k1 := grid_keys gw eps (Some h1) in
  let k2 := grid_keys gw eps (Some h2) in
  (length k1, length k2, keys_meet k1 k2).
