(** * C09: model of geocel/BoundingBox.hh, orange/BoundingBoxUtils.{hh,cc}
    (calc_union, calc_intersection, encloses, calc_volume, calc_transform) and
    orange/orangeinp/detail/BoundingZone.{hh,cc} (calc_difference, the
    shrink/grow calc_union, calc_intersection / calc_union of zones, negate,
    get_exterior_bbox), branch for branch.

    Box bounds are extended numbers ([ext]: -inf, finite, +inf) because the code
    relies on IEEE infinities (null box = (+inf, -inf), BBox::from_infinite).
    Executable definitions only; proofs are in BZoneProofs.v. *)
From Coq Require Import ZArith List Bool.
From Celer Require Import Base.Num Base.Vec3 C12.Solver C12.Surfaces C12.Transforms.
Import ListNotations.
Local Open Scope num_scope.

Section BZone.
  Context {T : Type} `{Num T}.
  Notation vec := (vec3 T).

  Inductive ext := NInf | Fin (x : T) | PInf.

  (** a <= b, a < b on extended numbers (no NaN: boxes never hold one) *)
  Definition ele (a b : ext) : bool :=
    match a, b with
    | NInf, _ => true
    | _, PInf => true
    | Fin x, Fin y => x <=? y
    | _, _ => false
    end.
  Definition elt (a b : ext) : bool := negb (ele b a).
  (** celeritas::min / max on floating point = std::fmin / fmax *)
  Definition emin (a b : ext) : ext := if elt b a then b else a.
  Definition emax (a b : ext) : ext := if elt a b then b else a.

  (** BoundingBox: lower and upper corner *)
  Record ebox := EB { lox : ext; loy : ext; loz : ext; hix : ext; hiy : ext; hiz : ext }.
  (** BoundingBox() *)
  Definition null_box : ebox := EB PInf PInf PInf NInf NInf NInf.
  (** BoundingBox::from_infinite *)
  Definition inf_box : ebox := EB NInf NInf NInf PInf PInf PInf.
  Definition fin_box (lo hi : vec) : ebox :=
    EB (Fin (vx lo)) (Fin (vy lo)) (Fin (vz lo)) (Fin (vx hi)) (Fin (vy hi)) (Fin (vz hi)).
  (** explicit operator bool *)
  Definition box_valid (b : ebox) : bool :=
    ele (lox b) (hix b) && ele (loy b) (hiy b) && ele (loz b) (hiz b).
  (** is_inside(bbox, point) *)
  Definition in_box (b : ebox) (p : vec) : bool :=
    ele (lox b) (Fin (vx p)) && ele (Fin (vx p)) (hix b)
    && ele (loy b) (Fin (vy p)) && ele (Fin (vy p)) (hiy b)
    && ele (loz b) (Fin (vz p)) && ele (Fin (vz p)) (hiz b).

  (** BoundingBoxUtils.hh calc_union / calc_intersection (from_unchecked) *)
  Definition box_union (a b : ebox) : ebox :=
    EB (emin (lox a) (lox b)) (emin (loy a) (loy b)) (emin (loz a) (loz b))
       (emax (hix a) (hix b)) (emax (hiy a) (hiy b)) (emax (hiz a) (hiz b)).
  Definition box_isect (a b : ebox) : ebox :=
    EB (emax (lox a) (lox b)) (emax (loy a) (loy b)) (emax (loz a) (loz b))
       (emin (hix a) (hix b)) (emin (hiy a) (hiy b)) (emin (hiz a) (hiz b)).
  (** encloses(big, small) *)
  Definition encloses (big small : ebox) : bool :=
    ele (lox big) (lox small) && ele (hix small) (hix big)
    && ele (loy big) (loy small) && ele (hiy small) (hiy big)
    && ele (loz big) (loz small) && ele (hiz small) (hiz big).

  (** calc_volume: IEEE arithmetic on extended numbers; [None] = NaN *)
  Definition esub (a b : ext) : option ext :=
    match a, b with
    | PInf, PInf | NInf, NInf => None
    | PInf, _ => Some PInf
    | NInf, _ => Some NInf
    | Fin _, PInf => Some NInf
    | Fin _, NInf => Some PInf
    | Fin x, Fin y => Some (Fin (x - y))
    end.
  Definition eflip (a : ext) : ext := match a with NInf => PInf | PInf => NInf | Fin x => Fin (- x) end.
  Definition emul_inf (inf_ : ext) (x : T) : option ext :=
    if n0 <? x then Some inf_ else if x <? n0 then Some (eflip inf_) else None.
  Definition emul (a b : option ext) : option ext :=
    match a, b with
    | Some (Fin x), Some (Fin y) => Some (Fin (x * y))
    | Some (Fin x), Some i => emul_inf i x
    | Some i, Some (Fin y) => emul_inf i y
    | Some PInf, Some PInf | Some NInf, Some NInf => Some PInf
    | Some PInf, Some NInf | Some NInf, Some PInf => Some NInf
    | _, _ => None
    end.
  Definition box_volume (b : ebox) : option ext :=
    emul (emul (emul (Some (Fin n1)) (esub (hix b) (lox b))) (esub (hiy b) (loy b))) (esub (hiz b) (loz b)).
  (** a > b on possibly-NaN values *)
  Definition vgt (a b : option ext) : bool :=
    match a, b with Some x, Some y => elt y x | _, _ => false end.

  (** ** BoundingZone.cc (anonymous namespace).  [grow] = BoxOp::grow *)
  Definition calc_difference (a b : ebox) (grow : bool) : ebox :=
    if negb (box_valid b) then a
    else if encloses a b then (if grow then a else b)
    else if encloses b a then null_box
    else if grow then inf_box else null_box.
  Definition calc_union_op (a b : ebox) (grow : bool) : ebox :=
    if grow then box_union a b
    else if negb (box_valid a) then b
    else if negb (box_valid b) then a
    else if vgt (box_volume a) (box_volume b) then a else b.

  Record bzone := BZ { zint : ebox; zext : ebox; zneg : bool }.
  Definition bz_infinite : bzone := BZ inf_box inf_box false.
  Definition bz_negate (z : bzone) : bzone := BZ (zint z) (zext z) (negb (zneg z)).

  Definition bz_intersection (a b : bzone) : bzone :=
    match zneg a, zneg b with
    | false, false => BZ (box_isect (zint a) (zint b)) (box_isect (zext a) (zext b)) false
    | false, true => BZ (calc_difference (zint a) (zext b) false) (calc_difference (zext a) (zint b) true) false
    | true, false => BZ (calc_difference (zint b) (zext a) false) (calc_difference (zext b) (zint a) true) false
    | true, true => BZ (calc_union_op (zint a) (zint b) false) (calc_union_op (zext a) (zext b) true) true
    end.
  Definition bz_union (a b : bzone) : bzone :=
    match zneg a, zneg b with
    | false, false => BZ (calc_union_op (zint a) (zint b) false) (calc_union_op (zext a) (zext b) true) false
    | false, true => BZ (calc_difference (zint a) (zext b) false) (calc_difference (zext a) (zint b) true) true
    | true, false => BZ (calc_difference (zint b) (zext a) false) (calc_difference (zext b) (zint a) true) true
    | true, true => BZ (box_isect (zint a) (zint b)) (box_isect (zext a) (zext b)) true
    end.
  Definition get_exterior_bbox (z : bzone) : ebox := if zneg z then inf_box else zext z.

  (** ** REPAIRED definitions (candidate fix for finding F5): the interior of
      [a - b] is null when [a] encloses [b]; the mixed branches of the union
      follow the table in the code's own comment ([B_i - A_x], [B_x - A_i]) *)
  Definition calc_difference_fix (a b : ebox) (grow : bool) : ebox :=
    if negb (box_valid b) then a
    else if encloses a b then (if grow then a else null_box)
    else if encloses b a then null_box
    else if grow then inf_box else null_box.
  Definition bz_intersection_fix (a b : bzone) : bzone :=
    match zneg a, zneg b with
    | false, false => BZ (box_isect (zint a) (zint b)) (box_isect (zext a) (zext b)) false
    | false, true => BZ (calc_difference_fix (zint a) (zext b) false) (calc_difference_fix (zext a) (zint b) true) false
    | true, false => BZ (calc_difference_fix (zint b) (zext a) false) (calc_difference_fix (zext b) (zint a) true) false
    | true, true => BZ (calc_union_op (zint a) (zint b) false) (calc_union_op (zext a) (zext b) true) true
    end.
  Definition bz_union_fix (a b : bzone) : bzone :=
    match zneg a, zneg b with
    | false, false => BZ (calc_union_op (zint a) (zint b) false) (calc_union_op (zext a) (zext b) true) false
    | false, true => BZ (calc_difference_fix (zint b) (zext a) false) (calc_difference_fix (zext b) (zint a) true) true
    | true, false => BZ (calc_difference_fix (zint a) (zext b) false) (calc_difference_fix (zext a) (zint b) true) true
    | true, true => BZ (box_isect (zint a) (zint b)) (box_isect (zext a) (zext b)) true
    end.

  (** ** BoundingBoxUtils.cc calc_transform(Transformation, BBox) on a finite
      box (lower, upper): rotate the eight corners (terms with a zero matrix
      entry are skipped), take the componentwise min / max, add the translation *)
  Definition rot_skip (m : mat3 T) (x : vec) : vec :=
    let term (i j : axis) (acc : T) :=
      if mget i j m =? n0 then acc else acc + mget i j m * vget j x in
    let row i := term i AZ (term i AY (term i AX n0)) in
    V3 (row AX) (row AY) (row AZ).
  Definition fmin_ (a b : T) : T := if b <? a then b else a.
  Definition fmax_ (a b : T) : T := if a <? b then b else a.
  Definition box_corners (lo hi : vec) : list vec :=
    [V3 (vx lo) (vy lo) (vz lo); V3 (vx lo) (vy lo) (vz hi);
     V3 (vx lo) (vy hi) (vz lo); V3 (vx lo) (vy hi) (vz hi);
     V3 (vx hi) (vy lo) (vz lo); V3 (vx hi) (vy lo) (vz hi);
     V3 (vx hi) (vy hi) (vz lo); V3 (vx hi) (vy hi) (vz hi)].
  (** running (lower, upper) starting from (+inf, -inf): the first corner sets both *)
  Definition minmax_pts (l : list vec) : option (vec * vec) :=
    fold_left (fun acc q =>
                 match acc with
                 | None => Some (q, q)
                 | Some (lo, hi) =>
                     Some (V3 (fmin_ (vx lo) (vx q)) (fmin_ (vy lo) (vy q)) (fmin_ (vz lo) (vz q)),
                           V3 (fmax_ (vx hi) (vx q)) (fmax_ (vy hi) (vy q)) (fmax_ (vz hi) (vz q)))
                 end) l None.
  Definition box_transform (tr : transformation T) (lo hi : vec) : vec * vec :=
    match minmax_pts (map (rot_skip (tf_rot tr)) (box_corners lo hi)) with
    | Some (l, u) => (vadd l (tf_tra tr), vadd u (tf_tra tr))
    | None => (lo, hi)
    end.
End BZone.
Arguments ext T : clear implicits.
Arguments ebox T : clear implicits.
Arguments bzone T : clear implicits.
