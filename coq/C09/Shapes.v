(** * C09: the solid primitives of orange/orangeinp/IntersectRegion.{hh,cc}.

    For every primitive [pr]
    - [surfaces_of tol pr : list (bsense * surface T)] mirrors [build]: the
      signed surfaces handed to [IntersectSurfaceBuilder], in order, before
      transformation/simplification/de-duplication;
    - [inside_prim pr : vec3 T -> bool] is the DEFINITION of the solid's point
      set, written from the class documentation (IntersectRegion.hh), and is
      independent of [build].
    Executable definitions only (no proofs): evaluated on binary64 floats by
    props/C09/run.py, theorems over R in C09/ShapesProofs.v.

    Surfaces and their sense function come from C12 ([C12.Surfaces]). *)
From Coq Require Import ZArith List Bool.
From Celer Require Import Base.Num Base.Vec3 C12.Solver C12.Surfaces.
Import ListNotations.
Local Open Scope num_scope.

(** Sense (OrangeTypes.hh): inside = negative quadric value, outside = positive *)
Inductive bsense := BIn | BOut.

Section Shapes.
  Context {T : Type} `{Num T}.
  Notation vec := (vec3 T).
  Notation surf := (surface T).

  (** does point [p] have sense [sn] with respect to [s]?  A point ON the
      surface has neither sense (such points are excluded by the theorems and
      never probed). *)
  Definition sense_holds (sn : bsense) (s : surf) (p : vec) : bool :=
    match surf_sense s p, sn with
    | Inside, BIn => true
    | Outside, BOut => true
    | _, _ => false
    end.
  Definition on_surface (s : surf) (p : vec) : bool :=
    match surf_sense s p with On => true | _ => false end.
  Definition all_hold (l : list (bsense * surf)) (p : vec) : bool :=
    forallb (fun ss => sense_holds (fst ss) (snd ss) p) l.
  Definition on_any (l : list (bsense * surf)) (p : vec) : bool :=
    existsb (fun ss => on_surface (snd ss) p) l.

  (** ** numeric helpers *)
  Definition npi : T := nofZ 4 * natan n1.
  (** sin / cos of an angle given in turns (corecel/math/Turn.hh: sinpi(2 t)) *)
  Definition sin_turn (t : T) : T := nsin (n2 * npi * t).
  Definition cos_turn (t : T) : T := ncos (n2 * npi * t).
  Definition nfmax (a b : T) : T := if a <? b then b else a.
  Definition nfmin (a b : T) : T := if b <? a then b else a.
  (** SoftEqual{rel}(a, b): abs threshold = rel * (1e-14 / 1e-12) *)
  Definition soft_equal (rel a b : T) : bool :=
    let abs_ := rel * (nQ 1 100000000000000 / nQ 1 1000000000000) in
    nabs (a - b) <? nfmax abs_ (rel * nfmax (nabs a) (nabs b)).
  (** std::fmod(x, 4) for x >= 0 *)
  Definition fmod4 (x : T) : T := x - nofZ 4 * nofZ (nfloorZ (x / nofZ 4)).

  Definition planeX (d : T) : surf := SPlaneAligned AX d.
  Definition planeY (d : T) : surf := SPlaneAligned AY d.
  Definition planeZ (d : T) : surf := SPlaneAligned AZ d.
  (** Plane{n, point}: d = dot(n, point) *)
  Definition plane_pt (n p : vec) : surf := SPlane n (dot n p).

  (** ** the primitives *)
  Inductive gp_degen := DegNone | DegLo | DegHi.

  Inductive prim :=
  | PBox (hx hy hz : T)
  | PSphere (r : T)
  | PCyl (r hh : T)
  | PCone (rlo rhi hh : T)
  | PEllipsoid (rx ry rz : T)
  | PPrism (n : nat) (apothem hh orient : T)
  | PPpiped (hx hy hz alpha theta phi : T)
  | PWedge (start interior : T)
  | PGenPrism (hz : T) (lo hi : list (T * T)) (degen : gp_degen).

  (** *** GenPrism constructors (IntersectRegion.cc) *)
  (** detail::calc_orientation: sign of the cross product; +1 ccw, -1 cw, 0 collinear *)
  Definition calc_orientation (a b c : T * T) : Z :=
    let crossp := (fst b - fst a) * (snd c - snd b) - (snd b - snd a) * (fst c - fst b) in
    if crossp <? n0 then (-1)%Z else if n0 <? crossp then 1%Z else 0%Z.
  Definition pt0 : T * T := (n0, n0).
  Definition mk_genprism (hz : T) (lo hi : list (T * T)) : prim :=
    let lo_or := calc_orientation (nth 0 lo pt0) (nth 1 lo pt0) (nth 2 lo pt0) in
    let hi_or := calc_orientation (nth 0 hi pt0) (nth 1 hi pt0) (nth 2 hi pt0) in
    let degen := if (lo_or =? 0)%Z && negb (hi_or =? 0)%Z then DegLo
                 else if negb (lo_or =? 0)%Z && (hi_or =? 0)%Z then DegHi else DegNone in
    if (lo_or =? -1)%Z || (hi_or =? -1)%Z
    then PGenPrism hz (rev lo) (rev hi) degen
    else PGenPrism hz lo hi degen.
  Definition from_trd (hz lox loy hix hiy : T) : prim :=
    mk_genprism hz [(lox, - loy); (lox, loy); (- lox, loy); (- lox, - loy)]
                   [(hix, - hiy); (hix, hiy); (- hix, hiy); (- hix, - hiy)].
  (** TrapFace {hy, hx_lo, hx_hi, alpha} *)
  Definition trap_face_pts (xoff yoff hy hxlo hxhi alpha : T) : list (T * T) :=
    let shear := (nsin (n2 * npi * alpha) / ncos (n2 * npi * alpha)) * hy in
    [(xoff - shear + hxlo, yoff - hy); (xoff + shear + hxhi, yoff + hy);
     (xoff + shear - hxhi, yoff + hy); (xoff - shear - hxlo, yoff - hy)].
  Definition from_trap (hz theta phi : T) (lo hi : T * T * T * T) : prim :=
    let tan_theta := nsin (n2 * npi * theta) / ncos (n2 * npi * theta) in
    let dx := hz * tan_theta * cos_turn phi in
    let dy := hz * tan_theta * sin_turn phi in
    let '(lhy, lxl, lxh, la) := lo in
    let '(hhy, hxl, hxh, ha) := hi in
    mk_genprism hz (trap_face_pts (- dx) (- dy) lhy lxl lxh la)
                   (trap_face_pts dx dy hhy hxl hxh ha).

  (** *** build *)
  Definition box_surfaces (hx hy hz : T) : list (bsense * surf) :=
    [(BOut, planeX (- hx)); (BIn, planeX hx);
     (BOut, planeY (- hy)); (BIn, planeY hy);
     (BOut, planeZ (- hz)); (BIn, planeZ hz)].

  Definition cyl_surfaces (r hh : T) : list (bsense * surf) :=
    [(BOut, planeZ (- hh)); (BIn, planeZ hh); (BIn, SCylCentered AZ (r * r))].

  Definition cone_tangent (lo hi hh : T) : T := nabs (lo - hi) / (n2 * hh).
  Definition cone_vanish_z (lo hi hh : T) : T :=
    let tangent := cone_tangent lo hi hh in
    if hi <? lo then - hh + lo / tangent else hh - hi / tangent.
  Definition cone_surfaces (tol lo hi hh : T) : list (bsense * surf) :=
    if soft_equal tol lo hi then cyl_surfaces (nhalf * (lo + hi)) hh
    else
      let tangent := cone_tangent lo hi hh in
      [(BOut, planeZ (- hh)); (BIn, planeZ hh);
       (BIn, SConeAligned AZ (V3 n0 n0 (cone_vanish_z lo hi hh)) (tangent * tangent))].

  Definition ellipsoid_surfaces (rx ry rz : T) : list (bsense * surf) :=
    let sx := rx * rx in let sy := ry * ry in let sz := rz * rz in
    (* abc[ax] = product of the other two squared radii (multiplication order
       of the loops in build); g = -(rx^2 ry^2 rz^2) *)
    [(BIn, SSimpleQuadric (V3 (n1 * sy * sz) (n1 * sx * sz) (n1 * sx * sy)) (V3 n0 n0 n0)
                          (- n1 * sx * sy * sz))].

  Definition prism_offset (n : nat) (orient : T) : T :=
    fmod4 (nofZ (Z.of_nat n) * nofZ 3 + nofZ 4 * orient) / nofZ 4.
  Definition prism_theta (n : nat) (orient : T) (k : nat) : T :=
    (n2 * npi / nofZ (Z.of_nat n)) * (nofZ (Z.of_nat k) + prism_offset n orient).
  Definition prism_surfaces (n : nat) (a hh orient : T) : list (bsense * surf) :=
    [(BOut, planeZ (- hh)); (BIn, planeZ hh)] ++
    map (fun k => let th := prism_theta n orient k in
                  (BIn, SPlane (V3 (ncos th) (nsin th) n0) a)) (seq 0 n).

  (** Parallelepiped::build with the six trigonometric values made explicit *)
  Definition ppiped_vectors (hx hy hz sinal cosal sinth costh sinphi cosphi : T) : vec * vec * vec :=
    (V3 (hx * n1) (hx * n0) (hx * n0),
     V3 (hy * sinal) (hy * cosal) (hy * n0),
     V3 (hz * (sinth * cosphi)) (hz * (sinth * sinphi)) (hz * costh)).
  Definition ppiped_surfaces_sc (hx hy hz sinal cosal sinth costh sinphi cosphi : T) : list (bsense * surf) :=
    let '(a, b, c) := ppiped_vectors hx hy hz sinal cosal sinth costh sinphi cosphi in
    let xnorm := make_unit_vector (cross b c) in
    let ynorm := make_unit_vector (cross c a) in
    let xoffset := dot a xnorm in
    let yoffset := dot b ynorm in
    [(BOut, planeZ (- hz)); (BIn, planeZ hz);
     (BOut, SPlane ynorm (- yoffset)); (BIn, SPlane ynorm yoffset);
     (BOut, SPlane xnorm (- xoffset)); (BIn, SPlane xnorm xoffset)].
  Definition ppiped_surfaces (hx hy hz alpha theta phi : T) : list (bsense * surf) :=
    ppiped_surfaces_sc hx hy hz (sin_turn alpha) (cos_turn alpha) (sin_turn theta) (cos_turn theta)
                       (sin_turn phi) (cos_turn phi).

  Definition wedge_surfaces (start interior : T) : list (bsense * surf) :=
    let ss := sin_turn start in let cs := cos_turn start in
    let se := sin_turn (start + interior) in let ce := cos_turn (start + interior) in
    [(BIn, SPlane (V3 ss (- cs) n0) n0); (BOut, SPlane (V3 se (- ce) n0) n0)].

  Definition pt_eqb (a b : T * T) : bool := (fst a =? fst b) && (snd a =? snd b).

  (** the "twisted" (hyperbolic paraboloid) face through the four points *)
  Definition twisted_quadric (hz : T) (ilo jlo jhi ihi : vec) : surf :=
    let aux := nhalf / hz in
    let txi := aux * (vx ihi - vx ilo) in
    let tyi := aux * (vy ihi - vy ilo) in
    let txj := aux * (vx jhi - vx jlo) in
    let tyj := aux * (vy jhi - vy jlo) in
    let mxi := nhalf * (vx ilo + vx ihi) in
    let myi := nhalf * (vy ilo + vy ihi) in
    let mxj := nhalf * (vx jlo + vx jhi) in
    let myj := nhalf * (vy jlo + vy jhi) in
    let czz := txj * tyi - txi * tyj in
    let eyz := txi - txj in
    let fzx := tyj - tyi in
    let gx := myj - myi in
    let hy := mxi - mxj in
    let iz := txj * myi - txi * myj + tyi * mxj - tyj * mxi in
    let js := mxj * myi - mxi * myj in
    SGeneralQuadric (V3 n0 n0 czz) (V3 n0 eyz fzx) (V3 gx hy iz) js.

  (** one lateral face of a GenPrism: edge i -> j *)
  Definition genprism_face (tol hz : T) (li lj hi_ hj : T * T) : bsense * surf :=
    let ilo := V3 (fst li) (snd li) (- hz) in
    let jlo := V3 (fst lj) (snd lj) (- hz) in
    let jhi := V3 (fst hj) (snd hj) hz in
    let ihi := V3 (fst hi_) (snd hi_) hz in
    let lo_normal := make_unit_vector (cross (vsub jlo ilo) (vsub ihi ilo)) in
    let hi_normal := make_unit_vector (cross (vsub ihi jhi) (vsub jlo jhi)) in
    if soft_equal tol (dot lo_normal hi_normal) n1 || pt_eqb hi_ hj then
      (BIn, plane_pt lo_normal ilo)
    else if pt_eqb li lj then
      (BIn, plane_pt hi_normal ihi)
    else
      (BIn, twisted_quadric hz ilo jlo jhi ihi).

  Definition rot1 {A} (l : list A) : list A :=
    match l with [] => [] | x :: r => r ++ [x] end.

  Fixpoint genprism_faces (tol hz : T) (lo loj hi hij : list (T * T)) : list (bsense * surf) :=
    match lo, loj, hi, hij with
    | li :: lo', lj :: loj', hi_ :: hi', hj :: hij' =>
        genprism_face tol hz li lj hi_ hj :: genprism_faces tol hz lo' loj' hi' hij'
    | _, _, _, _ => []
    end.

  Definition genprism_surfaces (tol hz : T) (lo hi : list (T * T)) (dg : gp_degen) : list (bsense * surf) :=
    (match dg with DegLo => [] | _ => [(BOut, planeZ (- hz))] end) ++
    (match dg with DegHi => [] | _ => [(BIn, planeZ hz)] end) ++
    genprism_faces tol hz lo (rot1 lo) hi (rot1 hi).

  Definition surfaces_of (tol : T) (pr : prim) : list (bsense * surf) :=
    match pr with
    | PBox hx hy hz => box_surfaces hx hy hz
    | PSphere r => [(BIn, SSphereCentered (r * r))]
    | PCyl r hh => cyl_surfaces r hh
    | PCone lo hi hh => cone_surfaces tol lo hi hh
    | PEllipsoid rx ry rz => ellipsoid_surfaces rx ry rz
    | PPrism n a hh o => prism_surfaces n a hh o
    | PPpiped hx hy hz al th ph => ppiped_surfaces hx hy hz al th ph
    | PWedge s i => wedge_surfaces s i
    | PGenPrism hz lo hi dg => genprism_surfaces tol hz lo hi dg
    end.

  (** ** DEFINITIONS of the point sets (class documentation) *)
  Definition abs_le (x h : T) : bool := nabs x <=? h.

  (** Box: "rectangular cuboid centered on the origin" with half-widths *)
  Definition inside_box (hx hy hz : T) (p : vec) : bool :=
    abs_le (vx p) hx && abs_le (vy p) hy && abs_le (vz p) hz.
  (** Sphere centred on the origin *)
  Definition inside_sphere (r : T) (p : vec) : bool :=
    (vx p * vx p + vy p * vy p + vz p * vz p) <=? r * r.
  (** Z-aligned cylinder centred on the origin *)
  Definition inside_cyl (r hh : T) (p : vec) : bool :=
    ((vx p * vx p + vy p * vy p) <=? r * r) && abs_le (vz p) hh.
  (** closed truncated cone along Z, midpoint at the origin: radius varies
      linearly from [lo] at z = -hh to [hi] at z = +hh *)
  Definition cone_radius (lo hi hh z : T) : T := lo + (hi - lo) * (z + hh) / (n2 * hh).
  Definition inside_cone (lo hi hh : T) (p : vec) : bool :=
    let r := cone_radius lo hi hh (vz p) in
    abs_le (vz p) hh && ((vx p * vx p + vy p * vy p) <=? r * r).
  (** axis-aligned ellipsoid centred at the origin with the given radii *)
  Definition inside_ellipsoid (rx ry rz : T) (p : vec) : bool :=
    (nsq (vx p / rx) + nsq (vy p / ry) + nsq (vz p / rz)) <=? n1.
  (** regular z-extruded n-gon: face normals at angles
      -pi/2 + 2 pi (k + orientation) / n (a face at y = -apothem when
      orientation = 0; orientation in [0,1) rotates counterclockwise by that
      fraction of one side), apothem = distance from the axis to each face *)
  Definition prism_def_theta (n : nat) (orient : T) (k : nat) : T :=
    n2 * npi * (nofZ (Z.of_nat k) + orient) / nofZ (Z.of_nat n) - npi / n2.
  Definition inside_prism (n : nat) (a hh orient : T) (p : vec) : bool :=
    abs_le (vz p) hh &&
    forallb (fun k => let th := prism_def_theta n orient k in
                      (vx p * ncos th + vy p * nsin th) <=? a) (seq 0 n).
  (** parallelepiped (same parameters as G4Para): z faces at +-dz; the main
      axis (through the centres of the z faces) has polar angle theta and
      azimuth phi; the y faces are at y' = +-dy where y' is measured from the
      main axis; the x faces at x' = +-dx where x' is measured from the line
      through the centres of the x-parallel edges, which makes angle alpha with
      the y axis.  (dx, dy, dz) are the half-lengths of the PROJECTIONS of the
      edges on x, y, z. *)
  Definition inside_ppiped_sc (dx dy dz sinal cosal sinth costh sinphi cosphi : T) (p : vec) : bool :=
    let tanth := sinth / costh in
    let tanal := sinal / cosal in
    let y' := vy p - vz p * tanth * sinphi in
    let x' := vx p - vz p * tanth * cosphi - y' * tanal in
    abs_le (vz p) dz && abs_le y' dy && abs_le x' dx.
  Definition inside_ppiped (dx dy dz alpha theta phi : T) (p : vec) : bool :=
    inside_ppiped_sc dx dy dz (sin_turn alpha) (cos_turn alpha) (sin_turn theta) (cos_turn theta)
                     (sin_turn phi) (cos_turn phi) p.
  (** polar angle test: with p' = p rotated by -start about z, rho = |p'_xy|:
      the polar angle of p' (in [0, 1) turn) is at most [interior].
      For interior <= 1/2: y' >= 0 and cos(angle) = x'/rho >= cos(interior);
      for interior > 1/2: y' >= 0, or x'/rho <= cos(interior). *)
  Definition in_angle (start interior : T) (p : vec) : bool :=
    let cs := cos_turn start in let ss := sin_turn start in
    let x' := vx p * cs + vy p * ss in
    let y' := vy p * cs - vx p * ss in
    let rho := nsqrt (x' * x' + y' * y') in
    let ci := cos_turn interior in
    if interior <=? nhalf then (n0 <=? y') && (rho * ci <=? x')
    else (n0 <=? y') || (x' <=? rho * ci).
  (** InfWedge: open wedge from the z axis, [start] in [0,1), interior in (0, 1/2] *)
  Definition inside_wedge (start interior : T) (p : vec) : bool := in_angle start interior p.

  (** GenPrism / G4GenericTrap: at height z the cross-section is the polygon
      whose vertices are linearly interpolated between the lower (z = -hz) and
      upper (z = +hz) polygons (straight "vertical" edges); vertices are
      counterclockwise. *)
  Definition lerp_pt (s : T) (a b : T * T) : T * T :=
    (fst a + s * (fst b - fst a), snd a + s * (snd b - snd a)).
  Definition left_of (vi vj : T * T) (x y : T) : bool :=
    n0 <=? ((fst vj - fst vi) * (y - snd vi) - (snd vj - snd vi) * (x - fst vi)).
  Fixpoint in_polygon (vs vsj : list (T * T)) (x y : T) : bool :=
    match vs, vsj with
    | vi :: vs', vj :: vsj' => left_of vi vj x y && in_polygon vs' vsj' x y
    | _, _ => true
    end.
  Fixpoint lerp_poly (s : T) (lo hi : list (T * T)) : list (T * T) :=
    match lo, hi with
    | a :: lo', b :: hi' => lerp_pt s a b :: lerp_poly s lo' hi'
    | _, _ => []
    end.
  Definition inside_genprism (hz : T) (lo hi : list (T * T)) (p : vec) : bool :=
    let s := (vz p + hz) / (n2 * hz) in
    let poly := lerp_poly s lo hi in
    abs_le (vz p) hz && in_polygon poly (rot1 poly) (vx p) (vy p).

  Definition inside_prim (pr : prim) (p : vec) : bool :=
    match pr with
    | PBox hx hy hz => inside_box hx hy hz p
    | PSphere r => inside_sphere r p
    | PCyl r hh => inside_cyl r hh p
    | PCone lo hi hh => inside_cone lo hi hh p
    | PEllipsoid rx ry rz => inside_ellipsoid rx ry rz p
    | PPrism n a hh o => inside_prism n a hh o p
    | PPpiped dx dy dz al th ph => inside_ppiped dx dy dz al th ph p
    | PWedge s i => inside_wedge s i p
    | PGenPrism hz lo hi _ => inside_genprism hz lo hi p
    end.

  (** ** bounding boxes declared by [build] (SurfaceClipper.cc for the
      axis-aligned planes / centred sphere / centred cylinder, plus the explicit
      [insert_surface(Sense, BBox)] calls): (lower, upper) corners; [None] = null *)
  Definition bbox : Type := vec * vec.
  Definition in_bbox (b : bbox) (p : vec) : bool :=
    (vx (fst b) <=? vx p) && (vx p <=? vx (snd b)) &&
    (vy (fst b) <=? vy p) && (vy p <=? vy (snd b)) &&
    (vz (fst b) <=? vz p) && (vz p <=? vz (snd b)).
  Definition sym_bbox (hx hy hz : T) : bbox := (V3 (- hx) (- hy) (- hz), V3 hx hy hz).
  (** SurfaceClipper.cc: sqrt_half = sqrt_two / 2, sqrt_third = sqrt_three / 2 *)
  Definition sqrt_half : T := nsqrt n2 / n2.
  Definition sqrt_third : T := nsqrt (nofZ 3) / n2.
  (** (interior, exterior) *)
  Definition declared_bboxes (pr : prim) : option (option bbox * option bbox) :=
    match pr with
    | PBox hx hy hz => Some (Some (sym_bbox hx hy hz), Some (sym_bbox hx hy hz))
    | PSphere r =>
        let rr := nsqrt (r * r) in
        Some (Some (sym_bbox (sqrt_third * rr) (sqrt_third * rr) (sqrt_third * rr)), Some (sym_bbox rr rr rr))
    | PCyl r hh =>
        let rr := nsqrt (r * r) in
        Some (Some (sym_bbox (sqrt_half * rr) (sqrt_half * rr) hh), Some (sym_bbox rr rr hh))
    | PEllipsoid rx ry rz =>
        let k := n1 / nsqrt (nofZ 3) in
        Some (Some (sym_bbox (rx * k) (ry * k) (rz * k)), Some (sym_bbox rx ry rz))
    | PPpiped hx hy hz al th ph =>
        let '(a, b, c) := ppiped_vectors hx hy hz (sin_turn al) (cos_turn al) (sin_turn th) (cos_turn th)
                                         (sin_turn ph) (cos_turn ph) in
        let hd := vadd (vadd a b) c in
        (* z is also clipped by the two PlaneZ; general planes reset the interior *)
        Some (None, Some (V3 (- vx hd) (- vy hd) (nfmax (- hz) (- vz hd)), V3 (vx hd) (vy hd) (nfmin hz (vz hd))))
    | PPrism n a hh _ =>
        let cr := a / ncos (npi / nofZ (Z.of_nat n)) in
        Some (Some (sym_bbox a a hh), Some (sym_bbox cr cr hh))
    | _ => None
    end.

  (** ** clearance from the surfaces of a primitive

      For a quadric f, f(p + d) = f(p) + grad f(p) . d + d^T A d, hence f has no
      zero within distance m of p when |f(p)| > |grad f(p)| m + |A| m^2.
      [surf_clear m s p] is that test (with |A| bounded by the sum of the
      absolute second-order coefficients). *)
  Definition as_gq_coeffs (s : surf) : vec * vec * vec * T :=
    match s with
    | SPlaneAligned t d => (vzero, vzero, vset t n1 vzero, - d)
    | SCylCentered t r => (vset t n0 (V3 n1 n1 n1), vzero, vzero, - r)
    | SSphereCentered r => (V3 n1 n1 n1, vzero, vzero, - r)
    | SCylAligned t ou ov r =>
        (vset t n0 (V3 n1 n1 n1), vzero,
         vset (u_axis t) (- n2 * ou) (vset (v_axis t) (- n2 * ov) vzero),
         ou * ou + ov * ov - r)
    | SPlane n d => (vzero, vzero, n, - d)
    | SSphere o r => (V3 n1 n1 n1, vzero, vscale (- n2) o, dot o o - r)
    | SConeAligned t o tsq =>
        let abc := vset t (- tsq) (V3 n1 n1 n1) in
        (abc, vzero,
         V3 (- n2 * vx abc * vx o) (- n2 * vy abc * vy o) (- n2 * vz abc * vz o),
         vx abc * vx o * vx o + vy abc * vy o * vy o + vz abc * vz o * vz o)
    | SSimpleQuadric abc def g => (abc, vzero, def, g)
    | SGeneralQuadric abc def ghi j => (abc, def, ghi, j)
    end.
  Definition gq_list (s : surf) : list T :=
    let '(abc, def, ghi, j) := as_gq_coeffs s in
    [vx abc; vy abc; vz abc; vx def; vy def; vz def; vx ghi; vy ghi; vz ghi; j].
  Definition surf_clear (m : T) (s : surf) (p : vec) : bool :=
    let '(abc, def, ghi, j) := as_gq_coeffs s in
    let f := gq_value abc def ghi j p in
    let x := vx p in let y := vy p in let z := vz p in
    let gx := n2 * vx abc * x + vx def * y + vz def * z + vx ghi in
    let gy := n2 * vy abc * y + vx def * x + vy def * z + vy ghi in
    let gz := n2 * vz abc * z + vy def * y + vz def * x + vz ghi in
    let gn := nsqrt (gx * gx + gy * gy + gz * gz) in
    let an := nabs (vx abc) + nabs (vy abc) + nabs (vz abc)
              + nabs (vx def) + nabs (vy def) + nabs (vz def) in
    (gn * m + an * m * m) <? nabs f.
  Definition prim_clear (tol m : T) (pr : prim) (p : vec) : bool :=
    forallb (fun ss => surf_clear m (snd ss) p) (surfaces_of tol pr).
End Shapes.
Arguments prim T : clear implicits.
