(** * C09: GenPrism branch choice.  [GenPrism::build] selects a face's surface by
    [soft_equal(dot(lo_normal, hi_normal), 1)].  When the test is FALSE (and the
    edge is degenerate at neither end) the twisted quadric is emitted, which is
    exact for any four corners: such faces always "agree", so a GenPrism all of
    whose lateral faces fail the planarity test is built exactly. *)
From Coq Require Import Reals ZArith List Bool Lra Lia Psatz.
From Celer Require Import Base.Num Base.NumR Base.Vec3 C12.Solver C12.Surfaces C12.SurfacesProofs
  C09.Shapes C09.ShapesProofs.
Import ListNotations.
Local Open Scope R_scope.

(** the branch test of one lateral face, as evaluated by build() *)
Definition face_test (tol hz : R) (li lj hi_ hj : R * R) : bool :=
  let ilo := V3 (fst li) (snd li) (- hz) in
  let jlo := V3 (fst lj) (snd lj) (- hz) in
  let jhi := V3 (fst hj) (snd hj) hz in
  let ihi := V3 (fst hi_) (snd hi_) hz in
  soft_equal tol (dot (make_unit_vector (cross (vsub jlo ilo) (vsub ihi ilo)))
                      (make_unit_vector (cross (vsub ihi jhi) (vsub jlo jhi)))) 1.
Definition face_twisted (tol hz : R) (p : vec3 R) (li lj hi_ hj : R * R) : Prop :=
  face_test tol hz li lj hi_ hj = false /\ pt_eqb hi_ hj = false /\ pt_eqb li lj = false /\
  on_surface (snd (genprism_face tol hz li lj hi_ hj)) p = false.

Lemma face_twisted_agrees tol hz p li lj hi_ hj : hz <> 0 ->
  face_twisted tol hz p li lj hi_ hj -> face_agrees tol hz p li lj hi_ hj.
Proof.
  intros Hz (Ht & Hh & Hl & Hoff). unfold face_agrees. split; [exact Hoff|].
  revert Hoff. unfold genprism_face. unfold face_test in Ht. numR. rewrite Ht, Hh, Hl. cbn [orb fst snd].
  destruct p as [x y z]. cbn [vx vy vz]. intros Hoff.
  exact (genprism_twisted_face_iff hz li lj hi_ hj x y z Hz Hoff).
Qed.

Lemma Forall4_impl {A} (P Q : A -> A -> A -> A -> Prop) la lb lc ld :
  (forall a b c d, P a b c d -> Q a b c d) -> Forall4 P la lb lc ld -> Forall4 Q la lb lc ld.
Proof. intros HPQ HF. induction HF; constructor; auto. Qed.

Theorem genprism_twisted_iff_inside tol hz lo hi p :
  0 < hz -> length lo = length hi ->
  on_any [(BOut, planeZ (- hz)); (BIn, planeZ hz)] p = false ->
  Forall4 (face_twisted tol hz p) lo (rot1 lo) hi (rot1 hi) ->
  (all_hold (genprism_surfaces tol hz lo hi DegNone) p = true <-> inside_genprism hz lo hi p = true).
Proof.
  intros Hz Hl Hon HF. apply genprism_surfaces_iff_inside_partial; try assumption.
  eapply Forall4_impl; [|exact HF]. intros a b c d. apply face_twisted_agrees. lra.
Qed.

(** non-vacuity: a face twisted by a quarter turn fails the planarity test *)
Example face_test_example : face_test (1 / 100000000) 1 (0, 0) (1, 0) (0, 0) (0, 1) = false.
Proof.
  unfold face_test. cbn [fst snd].
  match goal with |- soft_equal _ ?d 1 = false => assert (Hd : d = 0) end.
  { unfold dot, make_unit_vector, cross, vsub. cbn [vx vy vz]. numR. ring. }
  rewrite Hd. unfold soft_equal, nfmax. numR. unfold nQ. numR.
  replace (0 - 1) with (- (1)) by ring. rewrite Rabs_Ropp, !Rabs_R1, Rabs_R0.
  repeat (match goal with |- context [Rltb ?a ?b] =>
            lazymatch a with context [Rltb] => fail | _ =>
              lazymatch b with context [Rltb] => fail | _ => destruct (Rltb_spec a b) end end end);
    try reflexivity; exfalso; lra.
Qed.

(** exactly parallel bottom / top edges (ratio lam > 0): both normals coincide, the test passes *)
Lemma parallel_face_test tol hz (li lj hi_ hj : R * R) lam :
  0 < tol -> 0 < hz -> 0 < lam ->
  fst hj - fst hi_ = lam * (fst lj - fst li) -> snd hj - snd hi_ = lam * (snd lj - snd li) ->
  (let N := cross (vsub (V3 (fst lj) (snd lj) (- hz)) (V3 (fst li) (snd li) (- hz)))
                  (vsub (V3 (fst hi_) (snd hi_) hz) (V3 (fst li) (snd li) (- hz))) in 0 < dot N N) ->
  face_test tol hz li lj hi_ hj = true.
Proof.
  intros Htol Hz Hlam H1 H2 HN. destruct li as [ax ay], lj as [bx by_], hi_ as [cx cy], hj as [dx dy].
  cbn [fst snd] in *.
  assert (Edx : dx = cx + lam * (bx - ax)) by lra. assert (Edy : dy = cy + lam * (by_ - ay)) by lra. subst dx dy.
  unfold face_test. cbn [fst snd].
  match goal with |- soft_equal _ ?d 1 = true => assert (Hd : d = 1) end.
  { revert HN. unfold dot, make_unit_vector, norm, dot, cross, vsub. cbn [vx vy vz]. numR. intros HN.
    set (Nx := (by_ - ay) * (hz - - hz) - (- hz - - hz) * (cy - ay)) in *.
    set (Ny := (- hz - - hz) * (cx - ax) - (bx - ax) * (hz - - hz)) in *.
    set (Nz := (bx - ax) * (cy - ay) - (by_ - ay) * (cx - ax)) in *.
    set (q := Nz * Nz + (Ny * Ny + (Nx * Nx + 0))) in *.
    (* the upper cross product is lam * N *)
    replace ((cy - (cy + lam * (by_ - ay))) * (- hz - hz) - (hz - hz) * (by_ - (cy + lam * (by_ - ay)))) with (lam * Nx)
      by (unfold Nx; ring).
    replace ((hz - hz) * (bx - (cx + lam * (bx - ax))) - (cx - (cx + lam * (bx - ax))) * (- hz - hz)) with (lam * Ny)
      by (unfold Ny; ring).
    replace ((cx - (cx + lam * (bx - ax))) * (by_ - (cy + lam * (by_ - ay))) -
             (cy - (cy + lam * (by_ - ay))) * (bx - (cx + lam * (bx - ax)))) with (lam * Nz)
      by (unfold Nz; ring).
    replace (lam * Nz * (lam * Nz) + (lam * Ny * (lam * Ny) + (lam * Nx * (lam * Nx) + 0))) with ((lam * lam) * q)
      by (unfold q; ring).
    rewrite sqrt_mult by nra. rewrite sqrt_square by lra.
    assert (Hn : 0 < sqrt q) by (apply sqrt_lt_R0; exact HN).
    assert (Hqq : sqrt q * sqrt q = q) by (apply sqrt_sqrt; lra).
    set (n := sqrt q) in *.
    transitivity (q / (n * n)); [unfold q; field; lra|rewrite Hqq; field; lra]. }
  rewrite Hd. unfold soft_equal, nfmax. numR. unfold nQ. numR.
  replace (1 - 1) with 0 by ring. rewrite Rabs_R0, !Rabs_R1.
  assert (Habs : 0 < tol * (1 / 100000000000000 / (1 / 1000000000000))).
  { apply Rmult_lt_0_compat; [lra|]. apply Rdiv_lt_0_compat; [lra|lra]. }
  repeat (match goal with |- context [Rltb ?a ?b] =>
            lazymatch a with context [Rltb] => fail | _ =>
              lazymatch b with context [Rltb] => fail | _ => destruct (Rltb_spec a b) end end end);
    try reflexivity; exfalso; lra.
Qed.

Definition face_parallel (tol hz : R) (p : vec3 R) (li lj hi_ hj : R * R) : Prop :=
  exists lam, 0 < lam /\
    fst hj - fst hi_ = lam * (fst lj - fst li) /\ snd hj - snd hi_ = lam * (snd lj - snd li) /\
    (let N := cross (vsub (V3 (fst lj) (snd lj) (- hz)) (V3 (fst li) (snd li) (- hz)))
                    (vsub (V3 (fst hi_) (snd hi_) hz) (V3 (fst li) (snd li) (- hz))) in 0 < dot N N) /\
    - hz < vz p < hz /\
    on_surface (snd (genprism_face tol hz li lj hi_ hj)) p = false.

Lemma face_parallel_agrees tol hz p li lj hi_ hj : 0 < tol -> 0 < hz ->
  face_parallel tol hz p li lj hi_ hj -> face_agrees tol hz p li lj hi_ hj.
Proof.
  intros Htol Hz (lam & Hlam & H1 & H2 & HN & Hzz & Hoff). unfold face_agrees. split; [exact Hoff|].
  pose proof (parallel_face_test tol hz li lj hi_ hj lam Htol Hz Hlam H1 H2 HN) as Ht.
  revert Hoff. unfold genprism_face. unfold face_test in Ht. numR. rewrite Ht. cbn [orb fst snd].
  destruct p as [x y z]. cbn [vx vy vz] in *. intros Hoff.
  exact (genprism_planar_face_iff hz li lj hi_ hj lam x y z Hz Hlam Hzz H1 H2 HN Hoff).
Qed.

(** every lateral face is EXACT: it either fails the planarity test (twisted quadric) or has exactly
    parallel edges (plane): then build() yields the documented solid *)
Definition face_exact (tol hz : R) (p : vec3 R) (li lj hi_ hj : R * R) : Prop :=
  face_twisted tol hz p li lj hi_ hj \/ face_parallel tol hz p li lj hi_ hj.

Theorem genprism_exact_iff_inside tol hz lo hi p :
  0 < tol -> 0 < hz -> length lo = length hi ->
  on_any [(BOut, planeZ (- hz)); (BIn, planeZ hz)] p = false ->
  Forall4 (face_exact tol hz p) lo (rot1 lo) hi (rot1 hi) ->
  (all_hold (genprism_surfaces tol hz lo hi DegNone) p = true <-> inside_genprism hz lo hi p = true).
Proof.
  intros Htol Hz Hl Hon HF. apply genprism_surfaces_iff_inside_partial; try assumption.
  eapply Forall4_impl; [|exact HF]. intros a b c d [Ht|Hp].
  - apply face_twisted_agrees; [lra|exact Ht].
  - now apply face_parallel_agrees.
Qed.

(** non-vacuity: the +x face of a box passes the test through [parallel_face_test] *)
Example parallel_face_example : face_test (1 / 100000000) 1 (1, -1) (1, 1) (1, -1) (1, 1) = true.
Proof.
  apply (parallel_face_test _ _ _ _ _ _ 1); cbn [fst snd]; try lra.
  unfold dot, cross, vsub. cbn [vx vy vz]. numR. lra.
Qed.
