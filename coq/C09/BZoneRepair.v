(** * C09: BoundingZone.cc after the repair of [calc_difference] alone (finding F5, first half:
    the interior of [a - b] is null when [a] encloses [b]); [calc_union]'s mixed branches keep the
    operand order of the code.  The intersection of the repaired source is [bz_intersection_fix]
    (BZone.v).  Executable definitions only. *)
From Coq Require Import ZArith List Bool.
From Celer Require Import Base.Num Base.Vec3 C12.Solver C12.Surfaces C12.Transforms C09.BZone.
Import ListNotations.

Section BZoneRepair.
  Context {T : Type} `{Num T}.
  Definition bz_union_dfix (a b : bzone T) : bzone T :=
    match zneg a, zneg b with
    | false, false => BZ (calc_union_op (zint a) (zint b) false) (calc_union_op (zext a) (zext b) true) false
    | false, true => BZ (calc_difference_fix (zint a) (zext b) false) (calc_difference_fix (zext a) (zint b) true) true
    | true, false => BZ (calc_difference_fix (zint b) (zext a) false) (calc_difference_fix (zext b) (zint a) true) true
    | true, true => BZ (box_isect (zint a) (zint b)) (box_isect (zext a) (zext b)) true
    end.
End BZoneRepair.
