(** * C09 proofs (instance R): for each primitive, the signed surfaces emitted
    by [build] describe exactly the documented point set.

    Statement shape:  for every point not on any of the primitive's surfaces,
      all_hold (surfaces_of tol pr) p = true  <->  inside_prim pr p = true. *)
From Coq Require Import Reals ZArith List Bool Lra Lia Psatz.
From Celer Require Import Base.Num Base.NumR Base.Vec3 C12.Solver C12.Surfaces C12.SurfacesProofs C09.Shapes.
Import ListNotations.
Local Open Scope R_scope.

Notation surf := (surface R).

(** ** senses as inequalities on the surface function *)
Lemma sense_in_iff s p : sense_holds BIn s p = true <-> surf_f s p < 0.
Proof.
  unfold sense_holds. pose proof (surf_sense_is_sign s p) as Hs.
  destruct (surf_sense s p); cbn in *; split; intros; try easy; lra.
Qed.
Lemma sense_out_iff s p : sense_holds BOut s p = true <-> 0 < surf_f s p.
Proof.
  unfold sense_holds. pose proof (surf_sense_is_sign s p) as Hs.
  destruct (surf_sense s p); cbn in *; split; intros; try easy; lra.
Qed.
Lemma on_surface_iff s p : on_surface s p = true <-> surf_f s p = 0.
Proof.
  unfold on_surface. pose proof (surf_sense_is_sign s p) as Hs.
  destruct (surf_sense s p); cbn in *; split; intros; try easy; lra.
Qed.
Lemma on_surface_false s p : on_surface s p = false <-> surf_f s p <> 0.
Proof.
  rewrite <- on_surface_iff. destruct (on_surface s p); split; intros Hx; try easy; try congruence.
Qed.

Lemma all_hold_cons sn s l p :
  all_hold ((sn, s) :: l) p = true <-> sense_holds sn s p = true /\ all_hold l p = true.
Proof. unfold all_hold. cbn. apply andb_true_iff. Qed.
Lemma all_hold_nil p : all_hold (T:=R) [] p = true <-> True.
Proof. cbn. tauto. Qed.
Lemma on_any_cons sn s l p :
  on_any ((sn, s) :: l) p = false <-> surf_f s p <> 0 /\ on_any l p = false.
Proof. unfold on_any. cbn. rewrite orb_false_iff, on_surface_false. tauto. Qed.
Lemma on_any_nil p : on_any (T:=R) [] p = false <-> True.
Proof. cbn. tauto. Qed.
Lemma all_hold_app l1 l2 p :
  all_hold (l1 ++ l2) p = true <-> all_hold l1 p = true /\ all_hold l2 p = true.
Proof. unfold all_hold. rewrite forallb_app. apply andb_true_iff. Qed.
Lemma on_any_app l1 l2 p :
  on_any (l1 ++ l2) p = false <-> on_any l1 p = false /\ on_any l2 p = false.
Proof. unfold on_any. rewrite existsb_app. apply orb_false_iff. Qed.

Ltac senses :=
  repeat first [ rewrite all_hold_cons | rewrite all_hold_nil | rewrite on_any_cons | rewrite on_any_nil
               | rewrite sense_in_iff | rewrite sense_out_iff ].
Ltac senses_in H :=
  repeat first [ rewrite on_any_cons in H | rewrite on_any_nil in H ].

Lemma abs_le_iff x h : abs_le (T:=R) x h = true <-> - h <= x <= h.
Proof.
  unfold abs_le. numR. rewrite Rleb_true. split.
  - intros Ha. split; [ pose proof (Rle_abs (- x)); rewrite Rabs_Ropp in *; lra | pose proof (Rle_abs x); lra ].
  - intros [H1 H2]. apply Rabs_le. lra.
Qed.

Ltac bools :=
  repeat first [ rewrite andb_true_iff | rewrite abs_le_iff | rewrite Rleb_true | rewrite Rltb_true ].

(** ** Box *)
Theorem box_surfaces_iff_inside hx hy hz p :
  on_any (box_surfaces hx hy hz) p = false ->
  (all_hold (box_surfaces hx hy hz) p = true <-> inside_box hx hy hz p = true).
Proof.
  destruct p as [x y z]. unfold box_surfaces, inside_box, planeX, planeY, planeZ. intros Hon.
  senses_in Hon. senses. bools.
  unfold surf_f in *. vsimp. lra.
Qed.

(** ** Sphere *)
Theorem sphere_surfaces_iff_inside r p :
  on_any [(BIn, SSphereCentered (r * r))] p = false ->
  (all_hold [(BIn, SSphereCentered (r * r))] p = true <-> inside_sphere r p = true).
Proof.
  destruct p as [x y z]. unfold inside_sphere. intros Hon.
  senses_in Hon. senses. numR. bools.
  unfold surf_f in *. vsimp. lra.
Qed.

(** ** Cylinder *)
Theorem cyl_surfaces_iff_inside r hh p :
  on_any (cyl_surfaces r hh) p = false ->
  (all_hold (cyl_surfaces r hh) p = true <-> inside_cyl r hh p = true).
Proof.
  destruct p as [x y z]. unfold cyl_surfaces, inside_cyl, planeZ. intros Hon.
  senses_in Hon. senses. numR. bools.
  unfold surf_f in *. vsimp. lra.
Qed.

Lemma div_le_1 N D : 0 < D -> (N / D <= 1 <-> N <= D).
Proof.
  intros HD. split; intros Hx.
  - apply Rmult_le_compat_r with (r := D) in Hx; [|lra].
    unfold Rdiv in Hx. rewrite Rmult_assoc, Rinv_l in Hx; lra.
  - apply Rmult_le_reg_r with D; [lra|]. unfold Rdiv. rewrite Rmult_assoc, Rinv_l; lra.
Qed.

(** ** Ellipsoid *)
Theorem ellipsoid_surfaces_iff_inside rx ry rz p :
  0 < rx -> 0 < ry -> 0 < rz ->
  on_any (ellipsoid_surfaces rx ry rz) p = false ->
  (all_hold (ellipsoid_surfaces rx ry rz) p = true <-> inside_ellipsoid rx ry rz p = true).
Proof.
  destruct p as [x y z]. unfold ellipsoid_surfaces, inside_ellipsoid. intros Hx Hy Hz Hon.
  senses_in Hon. senses. numR. bools.
  unfold surf_f in *. vsimp.
  assert (Hp : 0 < rx * rx * (ry * ry) * (rz * rz)) by (repeat apply Rmult_lt_0_compat; lra).
  replace (x / rx * (x / rx) + y / ry * (y / ry) + z / rz * (z / rz))
    with ((1 * (ry * ry) * (rz * rz) * (x * x) + 1 * (rx * rx) * (rz * rz) * (y * y)
           + 1 * (rx * rx) * (ry * ry) * (z * z)) / (rx * rx * (ry * ry) * (rz * rz)))
    by (field; lra).
  set (N := 1 * (ry * ry) * (rz * rz) * (x * x) + 1 * (rx * rx) * (rz * rz) * (y * y)
            + 1 * (rx * rx) * (ry * ry) * (z * z)) in *.
  set (D := rx * rx * (ry * ry) * (rz * rz)) in *.
  destruct Hon as [Hon _].
  split.
  - intros [Hlt _]. apply (proj2 (div_le_1 N D Hp)).
    assert (N + 0 * x + 0 * y + 0 * z + - 1 * (rx * rx) * (ry * ry) * (rz * rz) = N - D) by (unfold D; ring).
    lra.
  - intros Hle. apply (proj1 (div_le_1 N D Hp)) in Hle. split; [|exact I].
    assert (N + 0 * x + 0 * y + 0 * z + - 1 * (rx * rx) * (ry * ry) * (rz * rz) = N - D) by (unfold D; ring).
    lra.
Qed.

(** ** Cone (non-degenerate branch: the radii are not soft-equal) *)
Lemma cone_radius_sq lo hi hh z : 0 < hh -> lo <> hi ->
  let t := cone_tangent (T:=R) lo hi hh in
  cone_radius lo hi hh z * cone_radius lo hi hh z
  = t * t * ((z - cone_vanish_z lo hi hh) * (z - cone_vanish_z lo hi hh)).
Proof.
  intros Hh Hne. unfold cone_vanish_z, cone_tangent, cone_radius. numR.
  destruct (Rltb_spec hi lo) as [Hlt|Hge].
  - rewrite (Rabs_pos_eq (lo - hi)) by lra. field. lra.
  - rewrite (Rabs_left (lo - hi)) by lra. field. lra.
Qed.

Theorem cone_surfaces_iff_inside tol lo hi hh p :
  0 < hh -> lo <> hi -> soft_equal tol lo hi = false ->
  on_any (cone_surfaces tol lo hi hh) p = false ->
  (all_hold (cone_surfaces tol lo hi hh) p = true <-> inside_cone lo hi hh p = true).
Proof.
  destruct p as [x y z]. intros Hh Hne Hsoft. unfold cone_surfaces, inside_cone, planeZ.
  rewrite Hsoft. intros Hon.
  senses_in Hon. senses. bools. cbn [vx vy vz].
  pose proof (cone_radius_sq lo hi hh z Hh Hne) as Hr. cbv zeta in Hr.
  numR. rewrite Hr.
  unfold surf_f in *. vsimp.
  set (t := cone_tangent lo hi hh) in *. set (v := cone_vanish_z lo hi hh) in *.
  lra.
Qed.

(** ** InfWedge *)
Lemma npi_PI : npi (T:=R) = PI.
Proof. unfold npi. numR. rewrite atan_1. field. Qed.

Lemma sq_lt_pos a b : 0 <= a -> 0 <= b -> a * a < b * b -> a < b.
Proof. intros. nra. Qed.
Lemma sq_le_pos a b : 0 <= a -> 0 <= b -> a * a <= b * b -> a <= b.
Proof. intros. nra. Qed.
Lemma wedge_core x y r s c : 0 <= r -> r * r = x * x + y * y -> 0 <= s -> s * s + c * c = 1 ->
  y <> 0 -> s * x - c * y <> 0 ->
  (0 < y /\ 0 < s * x - c * y <-> 0 <= y /\ r * c <= x).
Proof.
  intros Hr Hrr Hs Hsc Hy Hne. split.
  - intros [Hy0 Hp]. split; [lra|].
    destruct (Rle_or_lt c 0) as [Hc|Hc].
    + destruct (Rle_or_lt 0 x) as [Hx|Hx]; [assert (0 <= r * (- c)) by (apply Rmult_le_pos; lra); lra|].
      (* c <= 0, x < 0 *)
      apply Rnot_lt_le. intros Hlt.
      assert (H0 : 0 <= r * (- c)) by (apply Rmult_le_pos; lra).
      assert (H0' : r * (- c) < - x) by lra.
      assert (H1 : (r * (- c)) * (r * (- c)) < (- x) * (- x)) by nra.
      assert (H2 : (y * (- c)) * (y * (- c)) < ((- x) * s) * ((- x) * s)).
      { replace ((- x) * s * ((- x) * s)) with (x * x * (1 - c * c)) by (rewrite <- Hsc; ring). nra. }
      assert (H3 : y * (- c) < (- x) * s) by (apply sq_lt_pos; nra).
      nra.
    + assert (Hx : 0 < x) by nra.
      apply Rnot_lt_le. intros Hlt.
      assert (H1 : x * x < (r * c) * (r * c)) by nra.
      assert (H2 : (x * s) * (x * s) < (y * c) * (y * c)).
      { replace (x * s * (x * s)) with (x * x * (1 - c * c)) by (rewrite <- Hsc; ring). nra. }
      assert (H3 : x * s < y * c) by (apply sq_lt_pos; nra).
      nra.
  - intros [Hy0 Hp]. assert (Hy1 : 0 < y) by lra. split; [exact Hy1|].
    apply Rnot_le_lt. intros Hle. assert (Hlt : s * x < c * y) by lra.
    destruct (Rle_or_lt c 0) as [Hc|Hc].
    + assert (Hcy : c * y <= 0) by nra.
      assert (Hx : x < 0).
      { destruct (Rle_or_lt 0 x) as [Hx|Hx]; [|exact Hx].
        assert (0 <= s * x) by (apply Rmult_le_pos; lra). lra. }
      assert (H0 : - x <= r * (- c)) by lra.
      assert (H1 : (- x) * (- x) <= (r * (- c)) * (r * (- c))) by nra.
      assert (H2 : ((- x) * s) * ((- x) * s) <= (y * (- c)) * (y * (- c))).
      { replace ((- x) * s * ((- x) * s)) with (x * x * (1 - c * c)) by (rewrite <- Hsc; ring). nra. }
      assert (H3 : (- x) * s <= y * (- c)) by (apply sq_le_pos; nra).
      nra.
    + assert (Hrc : 0 <= r * c) by (apply Rmult_le_pos; lra).
      destruct (Rle_or_lt 0 x) as [Hx|Hx]; [|lra].
      assert (H1 : (r * c) * (r * c) <= x * x) by nra.
      assert (H2 : (y * c) * (y * c) <= (x * s) * (x * s)).
      { replace (x * s * (x * s)) with (x * x * (1 - c * c)) by (rewrite <- Hsc; ring). nra. }
      assert (H3 : y * c <= x * s) by (apply sq_le_pos; nra).
      nra.
Qed.

Theorem wedge_surfaces_iff_inside start interior p :
  0 < interior <= / 2 ->
  on_any (wedge_surfaces start interior) p = false ->
  (all_hold (wedge_surfaces start interior) p = true <-> inside_wedge start interior p = true).
Proof.
  destruct p as [x y z]. intros Hint. unfold wedge_surfaces, inside_wedge, in_angle, sin_turn, cos_turn.
  rewrite npi_PI. intros Hon. senses_in Hon. senses. numR. cbn [vx vy vz].
  unfold surf_f in *. vsimp.
  destruct (Rleb_spec interior (1 / 2)) as [_|Hbad]; [|lra].
  bools.
  set (a := 2 * PI * start) in *. set (b := 2 * PI * interior) in *.
  replace (2 * PI * (start + interior)) with (a + b) in * by (unfold a, b; ring).
  rewrite sin_plus, cos_plus in *.
  set (X := x * cos a + y * sin a). set (Y := y * cos a - x * sin a).
  assert (Hb : 0 <= b <= PI).
  { unfold b. pose proof PI_RGT_0. split; [nra|]. 
    assert (2 * PI * interior <= 2 * PI * / 2) by (apply Rmult_le_compat_l; lra). lra. }
  assert (Hs : 0 <= sin b) by (apply sin_ge_0; lra).
  assert (Hsc : sin b * sin b + cos b * cos b = 1) by (pose proof (sin2_cos2 b) as Hq; unfold Rsqr in Hq; lra).
  assert (Hr0 : 0 <= sqrt (X * X + Y * Y)) by apply sqrt_pos.
  assert (Hrr : sqrt (X * X + Y * Y) * sqrt (X * X + Y * Y) = X * X + Y * Y) by (apply sqrt_sqrt; nra).
  destruct Hon as [Hon1 [Hon2 _]].
  assert (HY : Y <> 0) by (unfold Y; lra).
  assert (HZ : sin b * X - cos b * Y <> 0).
  { intros Hq. apply Hon2. transitivity (sin b * X - cos b * Y); [unfold X, Y; ring | exact Hq]. }
  pose proof (wedge_core X Y (sqrt (X * X + Y * Y)) (sin b) (cos b) Hr0 Hrr Hs Hsc HY HZ) as Hcore.
  rewrite <- Hcore. unfold X, Y.
  split.
  - intros [H1 [H2 _]]. split; [lra|]. 
    replace (sin b * (x * cos a + y * sin a) - cos b * (y * cos a - x * sin a))
      with ((sin a * cos b + cos a * sin b) * x + - (cos a * cos b - sin a * sin b) * y + 0 * z - 0) by ring.
    exact H2.
  - intros [H1 H2]. split; [lra|]. split; [|exact I].
    replace ((sin a * cos b + cos a * sin b) * x + - (cos a * cos b - sin a * sin b) * y + 0 * z - 0)
      with (sin b * (x * cos a + y * sin a) - cos b * (y * cos a - x * sin a)) by ring.
    exact H2.
Qed.
