(** * C09 proofs (instance R): for each primitive, the signed surfaces emitted
    by [build] describe exactly the documented point set.

    Statement shape:  for every point not on any of the primitive's surfaces,
      all_hold (surfaces_of tol pr) p = true  <->  inside_prim pr p = true. *)
From Coq Require Import Reals ZArith List Bool Lra Lia Psatz.
From Celer Require Import Base.Num Base.NumR Base.Vec3 C12.Solver C12.Surfaces C12.SurfacesProofs C09.Shapes.
Import ListNotations.
Local Open Scope R_scope.

Notation surf := (surface R).

(** ** senses as inequalities on the surface function *)
Lemma sense_in_iff s p : sense_holds BIn s p = true <-> surf_f s p < 0.
Proof.
  unfold sense_holds. pose proof (surf_sense_is_sign s p) as Hs.
  destruct (surf_sense s p); cbn in *; split; intros; try easy; lra.
Qed.
Lemma sense_out_iff s p : sense_holds BOut s p = true <-> 0 < surf_f s p.
Proof.
  unfold sense_holds. pose proof (surf_sense_is_sign s p) as Hs.
  destruct (surf_sense s p); cbn in *; split; intros; try easy; lra.
Qed.
Lemma on_surface_iff s p : on_surface s p = true <-> surf_f s p = 0.
Proof.
  unfold on_surface. pose proof (surf_sense_is_sign s p) as Hs.
  destruct (surf_sense s p); cbn in *; split; intros; try easy; lra.
Qed.
Lemma on_surface_false s p : on_surface s p = false <-> surf_f s p <> 0.
Proof.
  rewrite <- on_surface_iff. destruct (on_surface s p); split; intros Hx; try easy; try congruence.
Qed.

Lemma all_hold_cons sn s l p :
  all_hold ((sn, s) :: l) p = true <-> sense_holds sn s p = true /\ all_hold l p = true.
Proof. unfold all_hold. cbn. apply andb_true_iff. Qed.
Lemma all_hold_nil p : all_hold (T:=R) [] p = true <-> True.
Proof. cbn. tauto. Qed.
Lemma on_any_cons sn s l p :
  on_any ((sn, s) :: l) p = false <-> surf_f s p <> 0 /\ on_any l p = false.
Proof. unfold on_any. cbn. rewrite orb_false_iff, on_surface_false. tauto. Qed.
Lemma on_any_nil p : on_any (T:=R) [] p = false <-> True.
Proof. cbn. tauto. Qed.
Lemma all_hold_app l1 l2 p :
  all_hold (l1 ++ l2) p = true <-> all_hold l1 p = true /\ all_hold l2 p = true.
Proof. unfold all_hold. rewrite forallb_app. apply andb_true_iff. Qed.
Lemma on_any_app l1 l2 p :
  on_any (l1 ++ l2) p = false <-> on_any l1 p = false /\ on_any l2 p = false.
Proof. unfold on_any. rewrite existsb_app. apply orb_false_iff. Qed.

Ltac senses :=
  repeat first [ rewrite all_hold_cons | rewrite all_hold_nil | rewrite on_any_cons | rewrite on_any_nil
               | rewrite sense_in_iff | rewrite sense_out_iff ].
Ltac senses_in H :=
  repeat first [ rewrite on_any_cons in H | rewrite on_any_nil in H ].

Lemma abs_le_iff x h : abs_le (T:=R) x h = true <-> - h <= x <= h.
Proof.
  unfold abs_le. numR. rewrite Rleb_true. split.
  - intros Ha. split; [ pose proof (Rle_abs (- x)); rewrite Rabs_Ropp in *; lra | pose proof (Rle_abs x); lra ].
  - intros [H1 H2]. apply Rabs_le. lra.
Qed.

Ltac bools :=
  repeat first [ rewrite andb_true_iff | rewrite abs_le_iff | rewrite Rleb_true | rewrite Rltb_true ].

(** ** Box *)
Theorem box_surfaces_iff_inside hx hy hz p :
  on_any (box_surfaces hx hy hz) p = false ->
  (all_hold (box_surfaces hx hy hz) p = true <-> inside_box hx hy hz p = true).
Proof.
  destruct p as [x y z]. unfold box_surfaces, inside_box, planeX, planeY, planeZ. intros Hon.
  senses_in Hon. senses. bools.
  unfold surf_f in *. vsimp. lra.
Qed.

(** ** Sphere *)
Theorem sphere_surfaces_iff_inside r p :
  on_any [(BIn, SSphereCentered (r * r))] p = false ->
  (all_hold [(BIn, SSphereCentered (r * r))] p = true <-> inside_sphere r p = true).
Proof.
  destruct p as [x y z]. unfold inside_sphere. intros Hon.
  senses_in Hon. senses. numR. bools.
  unfold surf_f in *. vsimp. lra.
Qed.

(** ** Cylinder *)
Theorem cyl_surfaces_iff_inside r hh p :
  on_any (cyl_surfaces r hh) p = false ->
  (all_hold (cyl_surfaces r hh) p = true <-> inside_cyl r hh p = true).
Proof.
  destruct p as [x y z]. unfold cyl_surfaces, inside_cyl, planeZ. intros Hon.
  senses_in Hon. senses. numR. bools.
  unfold surf_f in *. vsimp. lra.
Qed.

Lemma div_le_1 N D : 0 < D -> (N / D <= 1 <-> N <= D).
Proof.
  intros HD. split; intros Hx.
  - apply Rmult_le_compat_r with (r := D) in Hx; [|lra].
    unfold Rdiv in Hx. rewrite Rmult_assoc, Rinv_l in Hx; lra.
  - apply Rmult_le_reg_r with D; [lra|]. unfold Rdiv. rewrite Rmult_assoc, Rinv_l; lra.
Qed.

(** ** Ellipsoid *)
Theorem ellipsoid_surfaces_iff_inside rx ry rz p :
  0 < rx -> 0 < ry -> 0 < rz ->
  on_any (ellipsoid_surfaces rx ry rz) p = false ->
  (all_hold (ellipsoid_surfaces rx ry rz) p = true <-> inside_ellipsoid rx ry rz p = true).
Proof.
  destruct p as [x y z]. unfold ellipsoid_surfaces, inside_ellipsoid. intros Hx Hy Hz Hon.
  senses_in Hon. senses. numR. bools.
  unfold surf_f in *. vsimp.
  assert (Hp : 0 < rx * rx * (ry * ry) * (rz * rz)) by (repeat apply Rmult_lt_0_compat; lra).
  replace (x / rx * (x / rx) + y / ry * (y / ry) + z / rz * (z / rz))
    with ((1 * (ry * ry) * (rz * rz) * (x * x) + 1 * (rx * rx) * (rz * rz) * (y * y)
           + 1 * (rx * rx) * (ry * ry) * (z * z)) / (rx * rx * (ry * ry) * (rz * rz)))
    by (field; lra).
  set (N := 1 * (ry * ry) * (rz * rz) * (x * x) + 1 * (rx * rx) * (rz * rz) * (y * y)
            + 1 * (rx * rx) * (ry * ry) * (z * z)) in *.
  set (D := rx * rx * (ry * ry) * (rz * rz)) in *.
  destruct Hon as [Hon _].
  split.
  - intros [Hlt _]. apply (proj2 (div_le_1 N D Hp)).
    assert (N + 0 * x + 0 * y + 0 * z + - 1 * (rx * rx) * (ry * ry) * (rz * rz) = N - D) by (unfold D; ring).
    lra.
  - intros Hle. apply (proj1 (div_le_1 N D Hp)) in Hle. split; [|exact I].
    assert (N + 0 * x + 0 * y + 0 * z + - 1 * (rx * rx) * (ry * ry) * (rz * rz) = N - D) by (unfold D; ring).
    lra.
Qed.

(** ** Cone (non-degenerate branch: the radii are not soft-equal) *)
Lemma cone_radius_sq lo hi hh z : 0 < hh -> lo <> hi ->
  let t := cone_tangent (T:=R) lo hi hh in
  cone_radius lo hi hh z * cone_radius lo hi hh z
  = t * t * ((z - cone_vanish_z lo hi hh) * (z - cone_vanish_z lo hi hh)).
Proof.
  intros Hh Hne. unfold cone_vanish_z, cone_tangent, cone_radius. numR.
  destruct (Rltb_spec hi lo) as [Hlt|Hge].
  - rewrite (Rabs_pos_eq (lo - hi)) by lra. field. lra.
  - rewrite (Rabs_left (lo - hi)) by lra. field. lra.
Qed.

Theorem cone_surfaces_iff_inside tol lo hi hh p :
  0 < hh -> lo <> hi -> soft_equal tol lo hi = false ->
  on_any (cone_surfaces tol lo hi hh) p = false ->
  (all_hold (cone_surfaces tol lo hi hh) p = true <-> inside_cone lo hi hh p = true).
Proof.
  destruct p as [x y z]. intros Hh Hne Hsoft. unfold cone_surfaces, inside_cone, planeZ.
  rewrite Hsoft. intros Hon.
  senses_in Hon. senses. bools. cbn [vx vy vz].
  pose proof (cone_radius_sq lo hi hh z Hh Hne) as Hr. cbv zeta in Hr.
  numR. rewrite Hr.
  unfold surf_f in *. vsimp.
  set (t := cone_tangent lo hi hh) in *. set (v := cone_vanish_z lo hi hh) in *.
  lra.
Qed.

(** ** InfWedge *)
Lemma npi_PI : npi (T:=R) = PI.
Proof. unfold npi. numR. rewrite atan_1. field. Qed.

Lemma sq_lt_pos a b : 0 <= a -> 0 <= b -> a * a < b * b -> a < b.
Proof. intros. nra. Qed.
Lemma sq_le_pos a b : 0 <= a -> 0 <= b -> a * a <= b * b -> a <= b.
Proof. intros. nra. Qed.
Lemma wedge_core x y r s c : 0 <= r -> r * r = x * x + y * y -> 0 <= s -> s * s + c * c = 1 ->
  y <> 0 -> s * x - c * y <> 0 ->
  (0 < y /\ 0 < s * x - c * y <-> 0 <= y /\ r * c <= x).
Proof.
  intros Hr Hrr Hs Hsc Hy Hne. split.
  - intros [Hy0 Hp]. split; [lra|].
    destruct (Rle_or_lt c 0) as [Hc|Hc].
    + destruct (Rle_or_lt 0 x) as [Hx|Hx]; [assert (0 <= r * (- c)) by (apply Rmult_le_pos; lra); lra|].
      (* c <= 0, x < 0 *)
      apply Rnot_lt_le. intros Hlt.
      assert (H0 : 0 <= r * (- c)) by (apply Rmult_le_pos; lra).
      assert (H0' : r * (- c) < - x) by lra.
      assert (H1 : (r * (- c)) * (r * (- c)) < (- x) * (- x)) by nra.
      assert (H2 : (y * (- c)) * (y * (- c)) < ((- x) * s) * ((- x) * s)).
      { replace ((- x) * s * ((- x) * s)) with (x * x * (1 - c * c)) by (rewrite <- Hsc; ring). nra. }
      assert (H3 : y * (- c) < (- x) * s) by (apply sq_lt_pos; nra).
      nra.
    + assert (Hx : 0 < x) by nra.
      apply Rnot_lt_le. intros Hlt.
      assert (H1 : x * x < (r * c) * (r * c)) by nra.
      assert (H2 : (x * s) * (x * s) < (y * c) * (y * c)).
      { replace (x * s * (x * s)) with (x * x * (1 - c * c)) by (rewrite <- Hsc; ring). nra. }
      assert (H3 : x * s < y * c) by (apply sq_lt_pos; nra).
      nra.
  - intros [Hy0 Hp]. assert (Hy1 : 0 < y) by lra. split; [exact Hy1|].
    apply Rnot_le_lt. intros Hle. assert (Hlt : s * x < c * y) by lra.
    destruct (Rle_or_lt c 0) as [Hc|Hc].
    + assert (Hcy : c * y <= 0) by nra.
      assert (Hx : x < 0).
      { destruct (Rle_or_lt 0 x) as [Hx|Hx]; [|exact Hx].
        assert (0 <= s * x) by (apply Rmult_le_pos; lra). lra. }
      assert (H0 : - x <= r * (- c)) by lra.
      assert (H1 : (- x) * (- x) <= (r * (- c)) * (r * (- c))) by nra.
      assert (H2 : ((- x) * s) * ((- x) * s) <= (y * (- c)) * (y * (- c))).
      { replace ((- x) * s * ((- x) * s)) with (x * x * (1 - c * c)) by (rewrite <- Hsc; ring). nra. }
      assert (H3 : (- x) * s <= y * (- c)) by (apply sq_le_pos; nra).
      nra.
    + assert (Hrc : 0 <= r * c) by (apply Rmult_le_pos; lra).
      destruct (Rle_or_lt 0 x) as [Hx|Hx]; [|lra].
      assert (H1 : (r * c) * (r * c) <= x * x) by nra.
      assert (H2 : (y * c) * (y * c) <= (x * s) * (x * s)).
      { replace (x * s * (x * s)) with (x * x * (1 - c * c)) by (rewrite <- Hsc; ring). nra. }
      assert (H3 : y * c <= x * s) by (apply sq_le_pos; nra).
      nra.
Qed.

Theorem wedge_surfaces_iff_inside start interior p :
  0 < interior <= / 2 ->
  on_any (wedge_surfaces start interior) p = false ->
  (all_hold (wedge_surfaces start interior) p = true <-> inside_wedge start interior p = true).
Proof.
  destruct p as [x y z]. intros Hint. unfold wedge_surfaces, inside_wedge, in_angle, sin_turn, cos_turn.
  rewrite npi_PI. intros Hon. senses_in Hon. senses. numR. cbn [vx vy vz].
  unfold surf_f in *. vsimp.
  destruct (Rleb_spec interior (1 / 2)) as [_|Hbad]; [|lra].
  bools.
  set (a := 2 * PI * start) in *. set (b := 2 * PI * interior) in *.
  replace (2 * PI * (start + interior)) with (a + b) in * by (unfold a, b; ring).
  rewrite sin_plus, cos_plus in *.
  set (X := x * cos a + y * sin a). set (Y := y * cos a - x * sin a).
  assert (Hb : 0 <= b <= PI).
  { unfold b. pose proof PI_RGT_0. split; [nra|]. 
    assert (2 * PI * interior <= 2 * PI * / 2) by (apply Rmult_le_compat_l; lra). lra. }
  assert (Hs : 0 <= sin b) by (apply sin_ge_0; lra).
  assert (Hsc : sin b * sin b + cos b * cos b = 1) by (pose proof (sin2_cos2 b) as Hq; unfold Rsqr in Hq; lra).
  assert (Hr0 : 0 <= sqrt (X * X + Y * Y)) by apply sqrt_pos.
  assert (Hrr : sqrt (X * X + Y * Y) * sqrt (X * X + Y * Y) = X * X + Y * Y) by (apply sqrt_sqrt; nra).
  destruct Hon as [Hon1 [Hon2 _]].
  assert (HY : Y <> 0) by (unfold Y; lra).
  assert (HZ : sin b * X - cos b * Y <> 0).
  { intros Hq. apply Hon2. transitivity (sin b * X - cos b * Y); [unfold X, Y; ring | exact Hq]. }
  pose proof (wedge_core X Y (sqrt (X * X + Y * Y)) (sin b) (cos b) Hr0 Hrr Hs Hsc HY HZ) as Hcore.
  rewrite <- Hcore. unfold X, Y.
  split.
  - intros [H1 [H2 _]]. split; [lra|]. 
    replace (sin b * (x * cos a + y * sin a) - cos b * (y * cos a - x * sin a))
      with ((sin a * cos b + cos a * sin b) * x + - (cos a * cos b - sin a * sin b) * y + 0 * z - 0) by ring.
    exact H2.
  - intros [H1 H2]. split; [lra|]. split; [|exact I].
    replace ((sin a * cos b + cos a * sin b) * x + - (cos a * cos b - sin a * sin b) * y + 0 * z - 0)
      with (sin b * (x * cos a + y * sin a) - cos b * (y * cos a - x * sin a)) by ring.
    exact H2.
Qed.

(** ** Parallelepiped, AS BUILT, for alpha = 0 (where build() agrees with the
    documented solid; for alpha <> 0 see [ppiped_alpha_refuted]) *)
Lemma pos_mul_lt0 k A : 0 < k -> (k * A < 0 <-> A < 0).
Proof. intros Hk. split; intros Hx; nra. Qed.
Lemma pos_mul_gt0 k A : 0 < k -> (0 < k * A <-> 0 < A).
Proof. intros Hk. split; intros Hx; nra. Qed.
Lemma pos_mul_ne0 k A : 0 < k -> (k * A <> 0 <-> A <> 0).
Proof. intros Hk. split; intros Hx Hy; apply Hx; nra. Qed.

Lemma inv_norm_pos (v : vec3 R) : 0 < dot v v -> 0 < 1 / norm v.
Proof.
  intros Hd. unfold norm. numR. apply Rdiv_lt_0_compat; [lra|]. now apply sqrt_lt_R0.
Qed.

(** the signed distance to a plane through point q with unnormalised normal v,
    as computed by build (unit normal, offset = dot(q, unit normal)) *)
Lemma plane_unit_value (v q p : vec3 R) (sgn : R) :
  surf_f (SPlane (make_unit_vector v) (sgn * dot q (make_unit_vector v))) p
  = (1 / norm v) * ((vx v * vx p + vy v * vy p + vz v * vz p)
                    - sgn * (vx v * vx q + vy v * vy q + vz v * vz q)).
Proof.
  unfold surf_f, make_unit_vector. cbv zeta. cbn [vx vy vz]. unfold dot. cbn [vx vy vz]. numR.
  set (k := 1 / norm v). clearbody k. ring.
Qed.

Lemma plane_unit_value_pos (v q p : vec3 R) :
  surf_f (SPlane (make_unit_vector v) (dot q (make_unit_vector v))) p
  = (1 / norm v) * ((vx v * vx p + vy v * vy p + vz v * vz p) - (vx v * vx q + vy v * vy q + vz v * vz q)).
Proof. rewrite <- (Rmult_1_l (dot q _)). rewrite plane_unit_value. ring. Qed.
Lemma plane_unit_value_neg (v q p : vec3 R) :
  surf_f (SPlane (make_unit_vector v) (- dot q (make_unit_vector v))) p
  = (1 / norm v) * ((vx v * vx p + vy v * vy p + vz v * vz p) + (vx v * vx q + vy v * vy q + vz v * vz q)).
Proof.
  replace (- dot q (make_unit_vector v)) with ((-1) * dot q (make_unit_vector v)) by ring.
  rewrite plane_unit_value. ring.
Qed.

Ltac grab_norm k Hk :=
  match goal with
  | |- context [1 / norm ?v] =>
      assert (Hk : 0 < 1 / norm v);
      [ apply inv_norm_pos; unfold cross, dot; cbn [vx vy vz]; numR | set (k := 1 / norm v) in *; clearbody k ]
  end.

Theorem ppiped_surfaces_iff_inside_alpha0 hx hy hz sinth costh sinphi cosphi p :
  0 < hx -> 0 < hy -> 0 < hz -> 0 < costh ->
  on_any (ppiped_surfaces_sc hx hy hz 0 1 sinth costh sinphi cosphi) p = false ->
  (all_hold (ppiped_surfaces_sc hx hy hz 0 1 sinth costh sinphi cosphi) p = true
   <-> inside_ppiped_sc hx hy hz 0 1 sinth costh sinphi cosphi p = true).
Proof.
  destruct p as [x y z]. intros Hx Hy Hz Hc.
  unfold ppiped_surfaces_sc, ppiped_vectors, inside_ppiped_sc, planeZ. intros Hon.
  senses_in Hon. senses.
  rewrite !plane_unit_value_pos, !plane_unit_value_neg in *.
  grab_norm k1 Hk1.
  { assert (0 < (hx * hz * costh) * (hx * hz * costh)) by (repeat apply Rmult_lt_0_compat; lra). nra. }
  grab_norm k2 Hk2.
  { assert (0 < (hy * hz * costh) * (hy * hz * costh)) by (repeat apply Rmult_lt_0_compat; lra). nra. }
  rewrite !pos_mul_lt0, !pos_mul_gt0 by assumption.
  repeat rewrite pos_mul_ne0 in Hon by assumption.
  unfold cross in *. cbn [vx vy vz] in *. unfold surf_f in *. vsimp. bools.
  assert (Ht : sinth = (sinth / costh) * costh) by (field; lra).
  set (t := sinth / costh) in *. clearbody t. subst sinth.
  assert (P1 : 0 < hx * hz * costh) by (repeat apply Rmult_lt_0_compat; lra).
  assert (P2 : 0 < hy * hz * costh) by (repeat apply Rmult_lt_0_compat; lra).
  set (Y := y - z * t * sinphi). set (X := x - z * t * cosphi - Y * (0 / 1)).
  destruct Hon as (Hz1 & Hz2 & Hy1 & Hy2 & Hx1 & Hx2 & _).
  match type of Hy1 with ?e <> 0 => replace e with (hx * hz * costh * (Y + hy)) in * by (unfold Y; ring) end.
  match type of Hy2 with ?e <> 0 => replace e with (hx * hz * costh * (Y - hy)) in * by (unfold Y; ring) end.
  match type of Hx1 with ?e <> 0 => replace e with (hy * hz * costh * (X + hx)) in * by (unfold X, Y; field) end.
  match type of Hx2 with ?e <> 0 => replace e with (hy * hz * costh * (X - hx)) in * by (unfold X, Y; field) end.
  rewrite pos_mul_ne0 in Hy1, Hy2, Hx1, Hx2 by assumption.
  rewrite !pos_mul_lt0, !pos_mul_gt0 by assumption.
  lra.
Qed.

Ltac senses_hyp H :=
  repeat first [ rewrite all_hold_cons in H | rewrite all_hold_nil in H
               | rewrite sense_in_iff in H | rewrite sense_out_iff in H ].

(** *** the documented Parallelepiped is NOT what build() emits when alpha <> 0:
    with sin(alpha) = 3/5, cos(alpha) = 4/5, unit half-lengths, theta = 0, the
    point (0, 9/10, 0) belongs to the documented solid (|y| <= dy = 1) but is
    rejected by the built y faces (at +-hy cos(alpha) = +-4/5). *)
Theorem ppiped_alpha_refuted :
  exists hx hy hz sinal cosal p,
    0 < hx /\ 0 < hy /\ 0 < hz /\ 0 < cosal /\ sinal * sinal + cosal * cosal = 1 /\
    on_any (ppiped_surfaces_sc hx hy hz sinal cosal 0 1 0 1) p = false /\
    inside_ppiped_sc hx hy hz sinal cosal 0 1 0 1 p = true /\
    all_hold (ppiped_surfaces_sc hx hy hz sinal cosal 0 1 0 1) p = false.
Proof.
  exists 1, 1, 1, (3 / 5), (4 / 5), (V3 0 (9 / 10) 0).
  repeat split; try lra.
  - unfold ppiped_surfaces_sc, ppiped_vectors, planeZ. senses.
    rewrite !plane_unit_value_pos, !plane_unit_value_neg.
    grab_norm k1 Hk1; [lra|]. grab_norm k2 Hk2; [lra|].
    rewrite !pos_mul_ne0 by assumption.
    unfold cross. cbn [vx vy vz]. unfold surf_f. vsimp. repeat split; lra.
  - unfold inside_ppiped_sc. bools. cbn [vx vy vz]. numR. repeat split; lra.
  - apply not_true_is_false. intros E.
    unfold ppiped_surfaces_sc, ppiped_vectors, planeZ in E. senses_hyp E.
    rewrite !plane_unit_value_pos, !plane_unit_value_neg in E.
    destruct E as (_ & _ & _ & E & _).
    revert E. grab_norm k1 Hk1; [lra|]. intros E.
    rewrite pos_mul_lt0 in E by assumption.
    unfold cross in E. cbn [vx vy vz] in E. numR. lra.
Qed.

(** the (3/5, 4/5) pair is the sine/cosine of a valid shear angle alpha in (0, 1/4) turn,
    so the refutation applies to [surfaces_of (PPpiped ..)] / [inside_prim] themselves *)
Lemma angle_345 : exists alpha, 0 < alpha < / 4 /\ sin_turn alpha = 3 / 5 /\ cos_turn alpha = 4 / 5.
Proof.
  exists (atan (3 / 4) / (2 * PI)).
  pose proof PI_RGT_0 as Hpi.
  assert (Hs : sqrt (1 + (3 / 4)²) = 5 / 4).
  { replace (1 + (3 / 4)²) with ((5 / 4) * (5 / 4)) by (unfold Rsqr; field). apply sqrt_square. lra. }
  assert (Ha : 2 * PI * (atan (3 / 4) / (2 * PI)) = atan (3 / 4)) by (field; lra).
  repeat split.
  - apply Rdiv_lt_0_compat; [|lra]. rewrite <- atan_0. apply atan_increasing. lra.
  - pose proof (atan_bound (3 / 4)) as [_ Hb].
    apply Rmult_lt_reg_r with (2 * PI); [lra|]. unfold Rdiv at 1. rewrite Rmult_assoc, Rinv_l by lra. lra.
  - unfold sin_turn. rewrite npi_PI. numR. rewrite Ha, sin_atan, Hs. field.
  - unfold cos_turn. rewrite npi_PI. numR. rewrite Ha, cos_atan, Hs. field.
Qed.

Theorem ppiped_alpha_refuted_turns :
  exists hx hy hz alpha theta phi p,
    0 < hx /\ 0 < hy /\ 0 < hz /\ - / 4 < alpha < / 4 /\ 0 <= theta < / 4 /\ 0 <= phi < 1 /\
    on_any (surfaces_of 0 (PPpiped hx hy hz alpha theta phi)) p = false /\
    inside_prim (PPpiped hx hy hz alpha theta phi) p = true /\
    all_hold (surfaces_of 0 (PPpiped hx hy hz alpha theta phi)) p = false.
Proof.
  destruct angle_345 as (alpha & Hal & Hs & Hc).
  destruct ppiped_alpha_refuted as (hx & hy & hz & sa & ca & p & H).
  (* re-run with the concrete witness to keep the same numbers *)
  clear H. exists 1, 1, 1, alpha, 0, 0, (V3 0 (9 / 10) 0).
  assert (S0 : sin_turn (T:=R) 0 = 0) by (unfold sin_turn; numR; rewrite Rmult_0_r; apply sin_0).
  assert (C0 : cos_turn (T:=R) 0 = 1) by (unfold cos_turn; numR; rewrite Rmult_0_r; apply cos_0).
  cbn [surfaces_of inside_prim]. unfold ppiped_surfaces, inside_ppiped. rewrite Hs, Hc, S0, C0.
  repeat split; try lra.
  - unfold ppiped_surfaces_sc, ppiped_vectors, planeZ. senses.
    rewrite !plane_unit_value_pos, !plane_unit_value_neg.
    grab_norm k1 Hk1; [lra|]. grab_norm k2 Hk2; [lra|].
    rewrite !pos_mul_ne0 by assumption.
    unfold cross. cbn [vx vy vz]. unfold surf_f. vsimp. repeat split; lra.
  - unfold inside_ppiped_sc. bools. cbn [vx vy vz]. numR. repeat split; lra.
  - apply not_true_is_false. intros E.
    unfold ppiped_surfaces_sc, ppiped_vectors, planeZ in E. senses_hyp E.
    rewrite !plane_unit_value_pos, !plane_unit_value_neg in E.
    destruct E as (_ & _ & _ & E & _).
    revert E. grab_norm k1 Hk1; [lra|]. intros E.
    rewrite pos_mul_lt0 in E by assumption.
    unfold cross in E. cbn [vx vy vz] in E. numR. lra.
Qed.

(** ** bounding boxes declared by build(): soundness where it holds, refutations where not *)
Definition bbox_ext_sound (pr : prim R) : Prop :=
  forall i e p, declared_bboxes pr = Some (i, Some e) -> inside_prim pr p = true -> in_bbox e p = true.
Definition bbox_int_sound (pr : prim R) : Prop :=
  forall i e p, declared_bboxes pr = Some (Some i, e) -> in_bbox i p = true -> inside_prim pr p = true.

Lemma in_bbox_sym hx hy hz (p : vec3 R) :
  in_bbox (sym_bbox hx hy hz) p = true <->
  - hx <= vx p <= hx /\ - hy <= vy p <= hy /\ - hz <= vz p <= hz.
Proof. unfold in_bbox, sym_bbox. cbn [fst snd vx vy vz]. numR. bools. tauto. Qed.

Lemma sqrt_sq_nonneg r : 0 <= r -> sqrt (r * r) = r.
Proof. apply sqrt_square. Qed.

Theorem box_bbox_sound hx hy hz : bbox_ext_sound (PBox hx hy hz) /\ bbox_int_sound (PBox hx hy hz).
Proof.
  split; intros i e [x y z] Hd; cbn [declared_bboxes] in Hd; inversion Hd; subst;
    rewrite in_bbox_sym; cbn [inside_prim]; unfold inside_box; bools; cbn [vx vy vz]; tauto.
Qed.

Theorem sphere_bbox_ext_sound r : 0 <= r -> bbox_ext_sound (PSphere r).
Proof.
  intros Hr i e [x y z] Hd. cbn [declared_bboxes] in Hd. inversion Hd; subst. clear Hd.
  rewrite in_bbox_sym. cbn [inside_prim vx vy vz]. unfold inside_sphere. numR. bools. cbn [vx vy vz].
  rewrite sqrt_sq_nonneg by exact Hr. intros Hin. repeat split; nra.
Qed.

Theorem cyl_bbox_sound r hh : 0 <= r -> bbox_ext_sound (PCyl r hh) /\ bbox_int_sound (PCyl r hh).
Proof.
  intros Hr. split; intros i e [x y z] Hd; cbn [declared_bboxes] in Hd; inversion Hd; subst; clear Hd;
    rewrite in_bbox_sym; cbn [inside_prim vx vy vz]; unfold inside_cyl; numR; bools; cbn [vx vy vz];
    rewrite sqrt_sq_nonneg by exact Hr.
  - intros [Hin Hz]. repeat split; nra.
  - unfold sqrt_half. numR.
    assert (H2 : sqrt 2 * sqrt 2 = 2) by (apply sqrt_sqrt; lra).
    assert (H2p : 0 <= sqrt 2) by apply sqrt_pos.
    set (k := sqrt 2 / 2 * r). assert (Hk : k * k = r * r / 2) by (unfold k; nra).
    intros (Hx & Hy & Hz). split; [|lra].
    assert (x * x <= k * k) by nra. assert (y * y <= k * k) by nra. nra.
Qed.

(** SurfaceClipper's [sqrt_third = sqrt_three / 2]: the "interior" cube of a
    sphere sticks out of the sphere *)
Theorem sphere_bbox_int_refuted : exists r, 0 < r /\ ~ bbox_int_sound (PSphere r).
Proof.
  exists 1. split; [lra|]. intros Hs.
  specialize (Hs (sym_bbox (sqrt_third * sqrt (1 * 1)) (sqrt_third * sqrt (1 * 1)) (sqrt_third * sqrt (1 * 1)))
                 (Some (sym_bbox (sqrt (1 * 1)) (sqrt (1 * 1)) (sqrt (1 * 1))))
                 (V3 (4 / 5) (4 / 5) (4 / 5)) eq_refl).
  assert (H3 : 8 / 5 <= sqrt 3).
  { rewrite <- (sqrt_square (8 / 5)) by lra. apply sqrt_le_1; lra. }
  assert (Hin : in_bbox (sym_bbox (sqrt_third * sqrt (1 * 1)) (sqrt_third * sqrt (1 * 1)) (sqrt_third * sqrt (1 * 1)))
                        (V3 (4 / 5) (4 / 5) (4 / 5)) = true).
  { rewrite in_bbox_sym. cbn [vx vy vz]. unfold sqrt_third. numR. rewrite Rmult_1_r, sqrt_1. lra. }
  specialize (Hs Hin). cbn [inside_prim] in Hs. unfold inside_sphere in Hs. revert Hs. numR. bools.
  cbn [vx vy vz]. lra.
Qed.

(** Parallelepiped::build declares the exterior box +-(a+b+c) with
    c_z = hz cos(theta): a point of the solid (inside all six built planes AND
    inside the documented solid) lies outside that box. *)
Theorem ppiped_bbox_ext_refuted :
  exists hx hy hz alpha theta phi p e,
    0 < hx /\ 0 < hy /\ 0 < hz /\ - / 4 < alpha < / 4 /\ 0 <= theta < / 4 /\ 0 <= phi < 1 /\
    all_hold (surfaces_of 0 (PPpiped hx hy hz alpha theta phi)) p = true /\
    inside_prim (PPpiped hx hy hz alpha theta phi) p = true /\
    declared_bboxes (PPpiped hx hy hz alpha theta phi) = Some (None, Some e) /\
    in_bbox e p = false.
Proof.
  destruct angle_345 as (theta & Hth & Hs & Hc).
  assert (S0 : sin_turn (T:=R) 0 = 0) by (unfold sin_turn; numR; rewrite Rmult_0_r; apply sin_0).
  assert (C0 : cos_turn (T:=R) 0 = 1) by (unfold cos_turn; numR; rewrite Rmult_0_r; apply cos_0).
  exists 1, 1, 1, 0, theta, 0, (V3 (27 / 40) 0 (9 / 10)).
  eexists.
  cbn [surfaces_of inside_prim declared_bboxes]. unfold ppiped_surfaces, inside_ppiped.
  rewrite Hs, Hc, S0, C0.
  split; [lra|]. split; [lra|]. split; [lra|]. split; [lra|]. split; [lra|]. split; [lra|].
  split; [|split; [|split]].
  - unfold ppiped_surfaces_sc, ppiped_vectors, planeZ. senses.
    rewrite !plane_unit_value_pos, !plane_unit_value_neg.
    grab_norm k1 Hk1; [lra|]. grab_norm k2 Hk2; [lra|].
    rewrite !pos_mul_lt0, !pos_mul_gt0 by assumption.
    unfold cross. cbn [vx vy vz]. unfold surf_f. vsimp. repeat split; lra.
  - unfold inside_ppiped_sc. bools. cbn [vx vy vz]. numR. repeat split; lra.
  - unfold ppiped_vectors. cbv zeta. reflexivity.
  - unfold in_bbox. cbn [fst snd vx vy vz vadd]. numR. unfold nfmin, nfmax. numR.
    destruct (Rltb_spec (1 * 0 + 1 * 0 + 1 * (4 / 5)) 1) as [_|Hbad]; [|lra].
    apply not_true_is_false. bools. lra.
Qed.

(** ** GenPrism: each lateral face agrees with the interpolated polygon edge *)
Definition cross2 (vi vj : R * R) (x y : R) : R :=
  (fst vj - fst vi) * (y - snd vi) - (snd vj - snd vi) * (x - fst vi).

(** twisted face: the quadric is exactly minus the 2-D cross product of the
    interpolated edge with the point (so "inside" = left of the edge) *)
Theorem twisted_face_value hz (li lj hi_ hj : R * R) x y z : hz <> 0 ->
  let s := (z + hz) / (2 * hz) in
  surf_f (twisted_quadric hz (V3 (fst li) (snd li) (- hz)) (V3 (fst lj) (snd lj) (- hz))
                             (V3 (fst hj) (snd hj) hz) (V3 (fst hi_) (snd hi_) hz)) (V3 x y z)
  = - cross2 (lerp_pt s li hi_) (lerp_pt s lj hj) x y.
Proof.
  intros Hz s. unfold twisted_quadric, cross2, lerp_pt, surf_f, s.
  destruct li as [a1 a2], lj as [b1 b2], hi_ as [c1 c2], hj as [d1 d2].
  cbn [fst snd vx vy vz]. vsimp. unfold n2. numR. field. exact Hz.
Qed.

(** planar face whose top edge is parallel to the bottom edge (hj - hi = lam (lj - li)):
    the plane value times the positive edge-length ratio is -2 hz times the cross product *)
Theorem planar_face_value hz (li lj hi_ hj : R * R) lam x y z : hz <> 0 ->
  fst hj - fst hi_ = lam * (fst lj - fst li) -> snd hj - snd hi_ = lam * (snd lj - snd li) ->
  let s := (z + hz) / (2 * hz) in
  let ilo := V3 (fst li) (snd li) (- hz) in
  let jlo := V3 (fst lj) (snd lj) (- hz) in
  let ihi := V3 (fst hi_) (snd hi_) hz in
  let N := cross (vsub jlo ilo) (vsub ihi ilo) in
  ((vx N * x + vy N * y + vz N * z) - (vx N * vx ilo + vy N * vy ilo + vz N * vz ilo)) * (1 + s * (lam - 1))
  = - (2 * hz) * cross2 (lerp_pt s li hi_) (lerp_pt s lj hj) x y.
Proof.
  intros Hz H1 H2 s ilo jlo ihi N. unfold N, ilo, jlo, ihi, cross, vsub, cross2, lerp_pt, s.
  destruct li as [a1 a2], lj as [b1 b2], hi_ as [c1 c2], hj as [d1 d2].
  cbn [fst snd vx vy vz] in *. numR.
  assert (E1 : d1 = c1 + lam * (b1 - a1)) by lra. assert (E2 : d2 = c2 + lam * (b2 - a2)) by lra.
  subst d1 d2. field. exact Hz.
Qed.

Lemma left_of_iff (vi vj : R * R) x y : left_of vi vj x y = true <-> 0 <= cross2 vi vj x y.
Proof. unfold left_of, cross2. numR. now rewrite Rleb_true. Qed.

(** a twisted face (whatever the four points): inside sense <-> strictly left of the interpolated edge *)
Theorem genprism_twisted_face_iff hz (li lj hi_ hj : R * R) x y z : hz <> 0 ->
  let s := (z + hz) / (2 * hz) in
  let q := twisted_quadric hz (V3 (fst li) (snd li) (- hz)) (V3 (fst lj) (snd lj) (- hz))
                              (V3 (fst hj) (snd hj) hz) (V3 (fst hi_) (snd hi_) hz) in
  on_surface q (V3 x y z) = false ->
  (sense_holds BIn q (V3 x y z) = true <-> left_of (lerp_pt s li hi_) (lerp_pt s lj hj) x y = true).
Proof.
  intros Hz s q Hoff. rewrite sense_in_iff, left_of_iff. rewrite on_surface_false in Hoff.
  unfold q in *. rewrite (twisted_face_value hz li lj hi_ hj x y z Hz) in *. fold s in Hoff |- *. lra.
Qed.

(** a planar face with parallel bottom/top edges (ratio lam > 0), non-degenerate, -hz < z < hz *)
Theorem genprism_planar_face_iff hz (li lj hi_ hj : R * R) lam x y z :
  0 < hz -> 0 < lam -> - hz < z < hz ->
  fst hj - fst hi_ = lam * (fst lj - fst li) -> snd hj - snd hi_ = lam * (snd lj - snd li) ->
  let s := (z + hz) / (2 * hz) in
  let ilo := V3 (fst li) (snd li) (- hz) in
  let jlo := V3 (fst lj) (snd lj) (- hz) in
  let ihi := V3 (fst hi_) (snd hi_) hz in
  let N := cross (vsub jlo ilo) (vsub ihi ilo) in
  0 < dot N N ->
  let pl := plane_pt (make_unit_vector N) ilo in
  on_surface pl (V3 x y z) = false ->
  (sense_holds BIn pl (V3 x y z) = true <-> left_of (lerp_pt s li hi_) (lerp_pt s lj hj) x y = true).
Proof.
  intros Hz Hlam Hzz H1 H2 s ilo jlo ihi N HN pl Hoff.
  rewrite sense_in_iff, left_of_iff. rewrite on_surface_false in Hoff.
  unfold pl, plane_pt in *. 
  replace (dot (make_unit_vector N) ilo) with (dot ilo (make_unit_vector N)) in * by (unfold dot; numR; ring).
  rewrite plane_unit_value_pos in *.
  pose proof (inv_norm_pos N HN) as Hk. set (k := 1 / norm N) in *. clearbody k.
  rewrite pos_mul_lt0 by assumption. rewrite pos_mul_ne0 in Hoff by assumption.
  pose proof (planar_face_value hz li lj hi_ hj lam x y z ltac:(lra) H1 H2) as Hv. cbv zeta in Hv.
  fold s ilo jlo ihi N in Hv. cbn [vx vy vz] in *.
  set (A := vx N * x + vy N * y + vz N * z - (vx N * vx ilo + vy N * vy ilo + vz N * vz ilo)) in *.
  set (C := cross2 (lerp_pt s li hi_) (lerp_pt s lj hj) x y) in *.
  assert (Hs : 0 < s < 1).
  { unfold s. split.
    - apply Rdiv_lt_0_compat; lra.
    - apply Rmult_lt_reg_r with (2 * hz); [lra|]. unfold Rdiv. rewrite Rmult_assoc, Rinv_l by lra. lra. }
  assert (Hp : 0 < 1 + s * (lam - 1)) by nra.
  split; intros Hx.
  - assert (A * (1 + s * (lam - 1)) < 0) by nra. nra.
  - destruct (Rle_or_lt 0 A) as [HA|HA]; [|exact HA]. exfalso.
    assert (0 <= A * (1 + s * (lam - 1))) by nra.
    assert (C = 0) by nra. apply Hoff. nra.
Qed.

(** ** Prism: the n planes of build() are the n documented half-planes, cyclically shifted *)
Section PrismProof.
  Variables (n : nat) (orient x y : R).
  Hypothesis Hn : (0 < n)%nat.
  Let nR := IZR (Z.of_nat n).
  Lemma nR_pos : 0 < nR.
  Proof. unfold nR. apply IZR_lt. lia. Qed.

  (** value of the k-th documented half-plane function, for an integer index *)
  Definition hval (i : Z) : R :=
    let th := 2 * PI * (IZR i + orient) / nR - PI / 2 in x * cos th + y * sin th.

  Lemma hval_shift1 i : hval (i + Z.of_nat n) = hval i.
  Proof.
    unfold hval. cbv zeta. rewrite plus_IZR. fold nR. pose proof nR_pos.
    replace (2 * PI * (IZR i + nR + orient) / nR - PI / 2)
      with ((2 * PI * (IZR i + orient) / nR - PI / 2) + 2 * PI) by (field; lra).
    now rewrite cos_plus, sin_plus, cos_2PI, sin_2PI, !Rmult_1_r, !Rmult_0_r, Rminus_0_r, Rplus_0_r.
  Qed.
  Lemma hval_shift_nat i (q : nat) : hval (i + Z.of_nat q * Z.of_nat n) = hval i.
  Proof.
    induction q as [|q IH]; [f_equal; lia|].
    replace (i + Z.of_nat (S q) * Z.of_nat n)%Z with ((i + Z.of_nat q * Z.of_nat n) + Z.of_nat n)%Z by lia.
    now rewrite hval_shift1.
  Qed.
  Lemma hval_shift i (q : Z) : hval (i + q * Z.of_nat n) = hval i.
  Proof.
    destruct (Z_le_gt_dec 0 q) as [Hq|Hq].
    - rewrite <- (Z2Nat.id q Hq). apply hval_shift_nat.
    - rewrite <- (hval_shift_nat (i + q * Z.of_nat n) (Z.to_nat (- q))).
      f_equal. rewrite Z2Nat.id by lia. ring.
  Qed.
  Lemma hval_mod i : hval (i mod Z.of_nat n) = hval i.
  Proof.
    rewrite <- (hval_shift (i mod Z.of_nat n) (i / Z.of_nat n)). f_equal.
    rewrite (Z.div_mod i (Z.of_nat n)) at 3 by lia. ring.
  Qed.

  (** the k-th plane of build(): angle (2 pi / n) (k + offset) *)
  Lemma prism_theta_hval (k : nat) :
    let th := prism_theta n orient k in
    x * cos th + y * sin th
    = hval (Z.of_nat k - Int_part ((IZR (Z.of_nat n) * 3 + 4 * orient) / 4)).
  Proof.
    cbv zeta. unfold prism_theta, prism_offset, fmod4, hval. rewrite npi_PI. numR. fold nR.
    set (m := Int_part ((nR * 3 + 4 * orient) / 4)). cbv zeta. rewrite minus_IZR. pose proof nR_pos.
    replace (2 * PI / nR * (IZR (Z.of_nat k) + (nR * 3 + 4 * orient - 4 * IZR m) / 4))
      with ((2 * PI * (IZR (Z.of_nat k) - IZR m + orient) / nR - PI / 2) + 2 * PI) by (field; lra).
    now rewrite cos_plus, sin_plus, cos_2PI, sin_2PI, !Rmult_1_r, !Rmult_0_r, Rminus_0_r, Rplus_0_r.
  Qed.

  Lemma prism_def_hval (k : nat) :
    let th := prism_def_theta n orient k in
    x * cos th + y * sin th = hval (Z.of_nat k).
  Proof. cbv zeta. unfold prism_def_theta, hval. rewrite npi_PI. numR. fold nR. reflexivity. Qed.

  (** both index sets enumerate all residues *)
  Lemma shift_cover (m : Z) (P : R -> Prop) :
    (forall k, (k < n)%nat -> P (hval (Z.of_nat k - m))) <-> (forall j, (j < n)%nat -> P (hval (Z.of_nat j))).
  Proof.
    split; intros Hall i Hi.
    - (* j given: k = (j + m) mod n *)
      set (k := Z.to_nat ((Z.of_nat i + m) mod Z.of_nat n)).
      assert (Hk : (k < n)%nat).
      { unfold k. pose proof (Z.mod_pos_bound (Z.of_nat i + m) (Z.of_nat n) ltac:(lia)). lia. }
      specialize (Hall k Hk). rewrite <- hval_mod in Hall.
      replace ((Z.of_nat k - m) mod Z.of_nat n)%Z with (Z.of_nat i mod Z.of_nat n)%Z in Hall.
      + now rewrite hval_mod in Hall.
      + unfold k. rewrite Z2Nat.id by (apply Z.mod_pos_bound; lia).
        rewrite Zminus_mod_idemp_l. f_equal. ring.
    - set (j := Z.to_nat ((Z.of_nat i - m) mod Z.of_nat n)).
      assert (Hj : (j < n)%nat).
      { unfold j. pose proof (Z.mod_pos_bound (Z.of_nat i - m) (Z.of_nat n) ltac:(lia)). lia. }
      specialize (Hall j Hj). unfold j in Hall. rewrite Z2Nat.id in Hall by (apply Z.mod_pos_bound; lia).
      now rewrite hval_mod in Hall.
  Qed.
End PrismProof.

Lemma forallb_map {A B} (f : A -> B) (g : B -> bool) l :
  forallb g (map f l) = forallb (fun x => g (f x)) l.
Proof. induction l as [|x r IH]; cbn; [reflexivity|]. now rewrite IH. Qed.
Lemma existsb_map {A B} (f : A -> B) (g : B -> bool) l :
  existsb g (map f l) = existsb (fun x => g (f x)) l.
Proof. induction l as [|x r IH]; cbn; [reflexivity|]. now rewrite IH. Qed.

Lemma forallb_seq (f : nat -> bool) n :
  forallb f (seq 0 n) = true <-> forall k, (k < n)%nat -> f k = true.
Proof.
  rewrite forallb_forall. split; intros Hx k Hk.
  - apply Hx. apply in_seq. lia.
  - apply Hx. apply in_seq in Hk. lia.
Qed.

Theorem prism_surfaces_iff_inside n a hh orient p : (0 < n)%nat ->
  on_any (prism_surfaces n a hh orient) p = false ->
  (all_hold (prism_surfaces n a hh orient) p = true <-> inside_prism n a hh orient p = true).
Proof.
  destruct p as [x y z]. intros Hn Hon. unfold prism_surfaces, inside_prism, planeZ in *.
  rewrite on_any_app in Hon. destruct Hon as [Hz Hside]. senses_in Hz.
  rewrite all_hold_app. senses. bools.
  (* side faces *)
  set (m := Int_part ((IZR (Z.of_nat n) * 3 + 4 * orient) / 4)).
  assert (Hside' : forall k, (k < n)%nat -> hval n orient x y (Z.of_nat k - m) <> a).
  { intros k Hk Heq. unfold on_any in Hside. rewrite existsb_map in Hside.
    assert (Hin : In k (seq 0 n)) by (apply in_seq; lia).
    pose proof (proj2 (Bool.not_true_iff_false _) Hside) as Hn'. apply Hn'.
    apply existsb_exists. exists k. split; [exact Hin|]. cbn [snd]. apply on_surface_iff.
    unfold surf_f. cbn [vx vy vz]. unfold m in Heq. rewrite <- (prism_theta_hval n orient x y Hn k) in Heq. cbv zeta in Heq.
    numR. lra. }
  assert (Hall : all_hold (map (fun k => let th := prism_theta n orient k in
                                         (BIn, SPlane (V3 (ncos th) (nsin th) n0) a)) (seq 0 n)) (V3 x y z) = true
                 <-> forall k, (k < n)%nat -> hval n orient x y (Z.of_nat k - m) < a).
  { unfold all_hold. rewrite forallb_map, forallb_seq. split; intros Hx k Hk; specialize (Hx k Hk).
    - cbn [fst snd] in Hx. apply sense_in_iff in Hx. unfold surf_f in Hx. cbn [vx vy vz] in Hx.
      unfold m. rewrite <- (prism_theta_hval n orient x y Hn k). cbv zeta. numR. lra.
    - cbn [fst snd]. apply sense_in_iff. unfold surf_f. cbn [vx vy vz].
      unfold m in Hx. rewrite <- (prism_theta_hval n orient x y Hn k) in Hx. cbv zeta in Hx. numR. lra. }
  rewrite Hall. rewrite forallb_seq.
  pose proof (shift_cover n orient x y Hn m (fun v => v < a)) as Hc1.
  pose proof (shift_cover n orient x y Hn m (fun v => v <> a)) as Hc2.
  unfold surf_f in Hz. cbn [vget vx vy vz] in *. 
  split.
  - intros [[Hz1 [Hz2 _]] Hk]. split; [unfold surf_f in Hz1, Hz2; vsimp; lra|].
    intros k Hk'. numR. apply Rleb_true. rewrite (prism_def_hval n orient x y k).
    apply Rlt_le. now apply (proj1 Hc1 Hk).
  - intros [Hzz Hk]. split.
    + destruct Hz as (Hz1 & Hz2 & _). unfold surf_f. vsimp. repeat split; lra.
    + apply (proj2 Hc1). intros j Hj. specialize (Hk j Hj). numR. apply Rleb_true in Hk.
      rewrite (prism_def_hval n orient x y j) in Hk.
      pose proof (proj1 Hc2 Hside' j Hj). cbn beta in *. lra.
Qed.

(** ** enclosed angles (SolidEnclosedAngle): periodicity in the start angle and
    the complement construction used for interior > 1/2 *)
Lemma sincos_period_nat a (k : nat) :
  sin (a + 2 * PI * INR k) = sin a /\ cos (a + 2 * PI * INR k) = cos a.
Proof.
  replace (a + 2 * PI * INR k) with (a + 2 * INR k * PI) by ring.
  split; [apply sin_period | apply cos_period].
Qed.
Lemma sincos_period_Z a (k : Z) :
  sin (a + 2 * PI * IZR k) = sin a /\ cos (a + 2 * PI * IZR k) = cos a.
Proof.
  destruct (Z_le_gt_dec 0 k) as [Hk|Hk].
  - rewrite <- (Z2Nat.id k Hk), <- INR_IZR_INZ. apply sincos_period_nat.
  - pose proof (sincos_period_nat (a + 2 * PI * IZR k) (Z.to_nat (- k))) as [H1 H2].
    rewrite INR_IZR_INZ, Z2Nat.id, opp_IZR in H1, H2 by lia.
    replace (a + 2 * PI * IZR k + 2 * PI * - IZR k) with a in H1, H2 by ring.
    split; congruence.
Qed.

Lemma in_angle_shift s i (k : Z) p : in_angle (s - IZR k) i p = in_angle s i p.
Proof.
  unfold in_angle, cos_turn, sin_turn. rewrite npi_PI. numR.
  destruct (sincos_period_Z (2 * PI * s) (- k)) as [H1 H2]. rewrite opp_IZR in H1, H2.
  replace (2 * PI * (s - IZR k)) with (2 * PI * s + 2 * PI * - IZR k) by ring.
  now rewrite H1, H2.
Qed.

Lemma angle_complement_core x y r sb cb :
  0 <= r -> r * r = x * x + y * y -> sb <= 0 -> sb * sb + cb * cb = 1 ->
  y <> 0 -> y * cb - x * sb <> 0 ->
  ((0 <= y \/ x <= r * cb) <-> ~ (0 <= y * cb - x * sb /\ r * cb <= x * cb + y * sb)).
Proof.
  intros Hr Hrr Hs Hsc Hy HY.
  set (X2 := x * cb + y * sb). set (Y2 := y * cb - x * sb) in *.
  assert (Hr2 : r * r = X2 * X2 + Y2 * Y2).
  { unfold X2, Y2. rewrite Hrr. transitivity ((x * x + y * y) * (sb * sb + cb * cb)); [rewrite Hsc; ring | ring]. }
  assert (HA : (0 < Y2 /\ 0 < - sb * X2 - cb * Y2) <-> (0 <= Y2 /\ r * cb <= X2)).
  { apply wedge_core; try lra; try nra.
    replace (- sb * X2 - cb * Y2) with (- y * (sb * sb + cb * cb)) by (unfold X2, Y2; ring).
    rewrite Hsc. lra. }
  assert (EA : - sb * X2 - cb * Y2 = - y).
  { replace (- sb * X2 - cb * Y2) with (- y * (sb * sb + cb * cb)) by (unfold X2, Y2; ring). rewrite Hsc. ring. }
  rewrite EA in HA.
  assert (HB : (0 < - y /\ 0 < - sb * x - cb * (- y)) <-> (0 <= - y /\ r * cb <= x)).
  { apply wedge_core; try lra; try nra.
    replace (- sb * x - cb * - y) with Y2 by (unfold Y2; ring). exact HY. }
  replace (- sb * x - cb * - y) with Y2 in HB by (unfold Y2; ring).
  rewrite <- HA. split.
  - intros Hl [H1 H2]. assert (Hb : 0 <= - y /\ r * cb <= x) by (apply HB; lra).
    destruct Hl as [Hl|Hl]; [lra|]. destruct Hb as [_ Hb]. assert (Hx : x = r * cb) by lra.
    (* then Y2 = 0 *)
    assert (Hy2 : y * y = (r * sb) * (r * sb)).
    { replace (r * sb * (r * sb)) with (r * r * (1 - cb * cb)) by (rewrite <- Hsc; ring).
      assert (Hxx : x * x = r * cb * (r * cb)) by (rewrite Hx; ring). nra. }
    assert (Hrs : r * sb <= 0) by nra.
    assert (Hyy : y = r * sb) by nra.
    apply HY. unfold Y2. rewrite Hyy, Hx. ring.
  - intros Hn. destruct (Rle_or_lt 0 y) as [Hy0|Hy0]; [left; exact Hy0|right].
    destruct (Rle_or_lt x (r * cb)) as [Hx|Hx]; [exact Hx|]. exfalso. apply Hn.
    assert (0 < - y /\ 0 < Y2) by (apply HB; lra). lra.
Qed.

Lemma in_angle_complement s i x y z :
  / 2 < i < 1 ->
  y * cos (2 * PI * s) - x * sin (2 * PI * s) <> 0 ->
  y * cos (2 * PI * (s + i)) - x * sin (2 * PI * (s + i)) <> 0 ->
  in_angle s i (V3 x y z) = negb (in_angle (s + i) (1 - i) (V3 x y z)).
Proof.
  intros Hi Hy1 Hy2. unfold in_angle, cos_turn, sin_turn. rewrite npi_PI. numR. unfold n2. numR. cbn [vx vy vz].
  destruct (Rleb_spec i (1 / 2)) as [Hbad|_]; [lra|].
  destruct (Rleb_spec (1 - i) (1 / 2)) as [_|Hbad]; [|lra].
  set (a := 2 * PI * s) in *. set (b := 2 * PI * i) in *.
  replace (2 * PI * (s + i)) with (a + b) in * by (unfold a, b; ring).
  assert (Hcb : cos (2 * PI * (1 - i)) = cos b).
  { replace (2 * PI * (1 - i)) with (- b + 2 * PI) by (unfold b; ring).
    rewrite cos_plus, cos_2PI, sin_2PI, cos_neg. ring. }
  rewrite Hcb. rewrite sin_plus, cos_plus in *.
  set (X := x * cos a + y * sin a) in *. set (Y := y * cos a - x * sin a) in *.
  assert (EX : x * (cos a * cos b - sin a * sin b) + y * (sin a * cos b + cos a * sin b) = X * cos b + Y * sin b)
    by (unfold X, Y; ring).
  assert (EY : y * (cos a * cos b - sin a * sin b) - x * (sin a * cos b + cos a * sin b) = Y * cos b - X * sin b)
    by (unfold X, Y; ring).
  rewrite EX, EY in *.
  assert (Hb : PI <= b <= 2 * PI).
  { unfold b. pose proof PI_RGT_0. split; nra. }
  assert (Hsb : sin b <= 0) by (apply sin_le_0; lra).
  assert (Hsc : sin b * sin b + cos b * cos b = 1) by (pose proof (sin2_cos2 b) as Hq; unfold Rsqr in Hq; lra).
  assert (Hr0 : 0 <= sqrt (X * X + Y * Y)) by apply sqrt_pos.
  assert (Hrr : sqrt (X * X + Y * Y) * sqrt (X * X + Y * Y) = X * X + Y * Y) by (apply sqrt_sqrt; nra).
  assert (Hrot : (X * cos b + Y * sin b) * (X * cos b + Y * sin b) + (Y * cos b - X * sin b) * (Y * cos b - X * sin b)
                 = X * X + Y * Y).
  { replace ((X * cos b + Y * sin b) * (X * cos b + Y * sin b) + (Y * cos b - X * sin b) * (Y * cos b - X * sin b))
      with ((X * X + Y * Y) * (sin b * sin b + cos b * cos b)) by ring. rewrite Hsc. ring. }
  rewrite Hrot.
  pose proof (angle_complement_core X Y (sqrt (X * X + Y * Y)) (sin b) (cos b) Hr0 Hrr Hsb Hsc Hy1 Hy2) as Hcore.
  destruct (Rleb_spec 0 Y) as [H1|H1], (Rleb_spec X (sqrt (X * X + Y * Y) * cos b)) as [H2|H2],
           (Rleb_spec 0 (Y * cos b - X * sin b)) as [H3|H3],
           (Rleb_spec (sqrt (X * X + Y * Y) * cos b) (X * cos b + Y * sin b)) as [H4|H4];
    cbn; try reflexivity; exfalso; tauto.
Qed.

(** ** the hypotheses of the theorems above are satisfiable *)
Example box_offsurface : on_any (box_surfaces 1 2 3) (V3 0 0 0) = false.
Proof. unfold box_surfaces, planeX, planeY, planeZ. senses. unfold surf_f. vsimp. repeat split; lra. Qed.
Example sphere_offsurface : on_any [(BIn, SSphereCentered (2 * 2))] (V3 0 0 0) = false.
Proof. senses. unfold surf_f. vsimp. repeat split; lra. Qed.
Example cyl_offsurface : on_any (cyl_surfaces 1 2) (V3 0 0 0) = false.
Proof. unfold cyl_surfaces, planeZ. senses. unfold surf_f. vsimp. repeat split; lra. Qed.
Example cone_hyps : 0 < 1 /\ 1 <> 2 /\ soft_equal (T:=R) (1 / 100000000) 1 2 = false.
Proof.
  repeat split; try lra. unfold soft_equal, nfmax. numR. unfold nQ. numR.
  replace (1 - 2) with (- (1)) by ring. rewrite Rabs_Ropp, !Rabs_R1, (Rabs_pos_eq 2) by lra.
  repeat (match goal with |- context [Rltb ?a ?b] =>
            lazymatch a with context [Rltb] => fail | _ =>
              lazymatch b with context [Rltb] => fail | _ => destruct (Rltb_spec a b) end end end);
    try reflexivity; exfalso; lra.
Qed.
Example ellipsoid_offsurface : on_any (ellipsoid_surfaces 1 2 3) (V3 0 0 0) = false.
Proof. unfold ellipsoid_surfaces. senses. unfold surf_f. vsimp. repeat split; lra. Qed.
Example ppiped_alpha0_offsurface :
  0 < 1 /\ on_any (ppiped_surfaces_sc 1 1 1 0 1 (3 / 5) (4 / 5) 0 1) (V3 0 0 0) = false.
Proof.
  split; [lra|]. unfold ppiped_surfaces_sc, ppiped_vectors, planeZ. senses.
  rewrite !plane_unit_value_pos, !plane_unit_value_neg.
  grab_norm k1 Hk1; [lra|]. grab_norm k2 Hk2; [lra|].
  rewrite !pos_mul_ne0 by assumption.
  unfold cross. cbn [vx vy vz]. unfold surf_f. vsimp. repeat split; lra.
Qed.
Example wedge_hyps : 0 < / 4 <= / 2.
Proof. lra. Qed.

(** ** GenPrism: assembling the faces (structural part) *)
Lemma lerp_poly_app s (l1 l2 h1 h2 : list (R * R)) : length l1 = length h1 ->
  lerp_poly s (l1 ++ l2) (h1 ++ h2) = lerp_poly s l1 h1 ++ lerp_poly s l2 h2.
Proof.
  revert h1. induction l1 as [|a l1 IH]; intros [|b h1] Hl; cbn in *; try discriminate; [reflexivity|].
  f_equal. apply IH. lia.
Qed.
Lemma rot1_lerp s (lo hi : list (R * R)) : length lo = length hi ->
  rot1 (lerp_poly s lo hi) = lerp_poly s (rot1 lo) (rot1 hi).
Proof.
  destruct lo as [|a lo], hi as [|b hi]; cbn; intros Hl; try discriminate; [reflexivity|].
  rewrite lerp_poly_app by lia. reflexivity.
Qed.

(** a face "agrees at p" when its built sense at p is the strict left-of test
    against the interpolated edge ([genprism_twisted_face_iff],
    [genprism_planar_face_iff] establish this for twisted faces and for planar
    faces with parallel edges) *)
Definition face_agrees (tol hz : R) (p : vec3 R) (li lj hi_ hj : R * R) : Prop :=
  let f := genprism_face tol hz li lj hi_ hj in
  let s := (vz p + hz) / (2 * hz) in
  on_surface (snd f) p = false /\
  (sense_holds (fst f) (snd f) p = true <-> left_of (lerp_pt s li hi_) (lerp_pt s lj hj) (vx p) (vy p) = true).

Inductive Forall4 {A} (P : A -> A -> A -> A -> Prop) : list A -> list A -> list A -> list A -> Prop :=
| F4_nil : Forall4 P [] [] [] []
| F4_cons a b c d la lb lc ld : P a b c d -> Forall4 P la lb lc ld -> Forall4 P (a :: la) (b :: lb) (c :: lc) (d :: ld).

Lemma genprism_faces_iff tol hz p lo loj hi hij :
  Forall4 (face_agrees tol hz p) lo loj hi hij ->
  let s := (vz p + hz) / (2 * hz) in
  (all_hold (genprism_faces tol hz lo loj hi hij) p = true
   <-> in_polygon (lerp_poly s lo hi) (lerp_poly s loj hij) (vx p) (vy p) = true).
Proof.
  intros HF s. induction HF as [|a b c d la lb lc ld [Hoff Hiff] HF IH]; [cbn; tauto|].
  cbn [genprism_faces lerp_poly in_polygon]. 
  destruct (genprism_face tol hz a b c d) as [sn sf] eqn:Ef. cbn [fst snd] in *.
  rewrite all_hold_cons, andb_true_iff. fold s in Hiff. rewrite Hiff, IH. tauto.
Qed.

Theorem genprism_surfaces_iff_inside_partial tol hz lo hi p :
  0 < hz -> length lo = length hi ->
  on_any [(BOut, planeZ (- hz)); (BIn, planeZ hz)] p = false ->
  Forall4 (face_agrees tol hz p) lo (rot1 lo) hi (rot1 hi) ->
  (all_hold (genprism_surfaces tol hz lo hi DegNone) p = true <-> inside_genprism hz lo hi p = true).
Proof.
  destruct p as [x y z]. intros Hz Hlen Hon HF. unfold genprism_surfaces, inside_genprism, planeZ in *.
  cbn [app]. senses_in Hon. rewrite !all_hold_cons. rewrite !sense_in_iff, !sense_out_iff.
  pose proof (genprism_faces_iff tol hz (V3 x y z) lo (rot1 lo) hi (rot1 hi) HF) as Hf. cbv zeta in Hf.
  cbn [vx vy vz] in *. rewrite Hf. rewrite rot1_lerp by exact Hlen.
  bools. numR. unfold n2. numR. unfold surf_f in *. vsimp.
  destruct Hon as (H1 & H2 & _). split; intros [Ha Hb]; (split; [lra | tauto]) || (repeat split; try lra; tauto).
Qed.

(** ** soft de-duplication (partial: axis-aligned planes only): replacing a
    plane by one whose position differs by at most eps does not change the
    sense of any point farther than eps from it *)
Theorem soft_dedup_plane_aligned_partial ax d d' eps (p : vec3 R) sn :
  Rabs (d - d') <= eps -> eps < Rabs (vget ax p - d) ->
  sense_holds sn (SPlaneAligned ax d) p = sense_holds sn (SPlaneAligned ax d') p.
Proof.
  intros Hd Hp.
  assert (Hsame : (surf_f (SPlaneAligned ax d) p < 0 <-> surf_f (SPlaneAligned ax d') p < 0) /\
                  (0 < surf_f (SPlaneAligned ax d) p <-> 0 < surf_f (SPlaneAligned ax d') p)).
  { unfold surf_f. set (v := vget ax p) in *.
    unfold Rabs in *. destruct (Rcase_abs (d - d')), (Rcase_abs (v - d)); split; split; intros; lra. }
  destruct Hsame as [Hin Hout].
  destruct sn.
  - destruct (sense_holds BIn (SPlaneAligned ax d) p) eqn:E1, (sense_holds BIn (SPlaneAligned ax d') p) eqn:E2;
      try reflexivity.
    + apply sense_in_iff, Hin, sense_in_iff in E1. congruence.
    + apply sense_in_iff, Hin, sense_in_iff in E2. congruence.
  - destruct (sense_holds BOut (SPlaneAligned ax d) p) eqn:E1, (sense_holds BOut (SPlaneAligned ax d') p) eqn:E2;
      try reflexivity.
    + apply sense_out_iff, Hout, sense_out_iff in E1. congruence.
    + apply sense_out_iff, Hout, sense_out_iff in E2. congruence.
Qed.

(** ** FINDING F6: a GenPrism whose +z face is collapsed to a line, with twisted
    side faces.  [build] omits the +z plane (degen_ = hi) and emits
      - the -z plane,
      - face 0 (its top edge is a single point): a plane through ilo with the
        unit normal of (jlo - ilo) x (ihi - ilo),
      - faces 1 and 2: twisted quadrics
    (exactly what the real build prints for this prism: corpus case F6 of
    props/C09/run.py).  The point (2/5, -1/5, 2), which is ABOVE the prism
    (z = 2 > hz = 1), satisfies all four signed surfaces. *)
Definition f6_lo : list (R * R) := [(1, 1); (-1, 0); (1, -1)].
Definition f6_hi : list (R * R) := [(0, 1 / 5); (0, 1 / 5); (1 / 2, - 3 / 10)].
Definition f6_surfaces : list (bsense * surface R) :=
  let ilo0 := V3 1 1 (-1) in let jlo0 := V3 (-1) 0 (-1) in let ihi0 := V3 0 (1 / 5) 1 in
  [(BOut, planeZ (- 1));
   (BIn, plane_pt (make_unit_vector (cross (vsub jlo0 ilo0) (vsub ihi0 ilo0))) ilo0);
   (BIn, twisted_quadric 1 (V3 (-1) 0 (-1)) (V3 1 (-1) (-1)) (V3 (1 / 2) (- 3 / 10) 1) (V3 0 (1 / 5) 1));
   (BIn, twisted_quadric 1 (V3 1 (-1) (-1)) (V3 1 1 (-1)) (V3 0 (1 / 5) 1) (V3 (1 / 2) (- 3 / 10) 1))].

Theorem genprism_degenerate_twisted_refuted :
  exists p, on_any f6_surfaces p = false /\ all_hold f6_surfaces p = true /\ inside_genprism 1 f6_lo f6_hi p = false.
Proof.
  exists (V3 (2 / 5) (- 1 / 5) 2).
  assert (Hpl : forall n q, plane_pt (T:=R) n q = SPlane n (dot q n)).
  { intros n q. unfold plane_pt. f_equal. unfold dot. numR. ring. }
  split; [|split].
  - unfold f6_surfaces, planeZ. cbv zeta. rewrite Hpl. senses.
    rewrite plane_unit_value_pos. grab_norm k1 Hk1; [unfold vsub; cbn [vx vy vz]; numR; lra|].
    rewrite pos_mul_ne0 by assumption.
    unfold twisted_quadric, cross, vsub, surf_f. vsimp. unfold n2. numR. repeat split; lra.
  - unfold f6_surfaces, planeZ. cbv zeta. rewrite Hpl. senses.
    rewrite plane_unit_value_pos. grab_norm k1 Hk1; [unfold vsub; cbn [vx vy vz]; numR; lra|].
    rewrite pos_mul_lt0 by assumption.
    unfold twisted_quadric, cross, vsub, surf_f. vsimp. unfold n2. numR. repeat split; lra.
  - apply not_true_is_false. unfold inside_genprism. bools. cbn [vz]. intros [[_ Hz] _]. lra.
Qed.
