(** * C09: model of soft surface de-duplication:
    - orange/surf/SoftSurfaceEqual.{hh,cc} ([sse]: the criteria AS CODED, incl.
      [soft_eq_distance] scaling the norm by the ABSOLUTE tolerance) and
      ExactSurfaceEqual ([exact_eq]);
    - orange/orangeinp/detail/SurfaceHashPoint.hh ([hash_point]; [None] = NaN,
      i.e. sqrt of a negative constant term);
    - orange/orangeinp/detail/SurfaceGridHash.cc ([grid_keys]: the one or two
      grid bins of a hash point; the std::hash scrambling of the bin number is
      not modelled: collisions can only ADD candidates);
    - orange/orangeinp/detail/LocalSurfaceInserter.cc ([lsi_outcomes],
      [lsi_apply], [lsi_insert_first]): candidates = stored surfaces of the same
      type sharing a bin; exact match -> its root, nothing stored; near match ->
      stored and chained to the root of the FIRST near match met (iteration
      order of the unordered_multimap is unspecified: every near match is an
      allowed choice); otherwise a new id.
    Executable definitions only; proofs are in DedupProofs.v. *)
From Coq Require Import ZArith List Bool.
From Celer Require Import Base.Num Base.Vec3 C12.Solver C12.Surfaces.
Import ListNotations.
Local Open Scope num_scope.

Section Dedup.
  Context {T : Type} `{Num T}.
  Notation vec := (vec3 T).
  Notation surf := (surface T).

  Definition fmax2 (a b : T) : T := if a <? b then b else a.

  (** SoftEqual{rel, abs}(a, b) *)
  Definition soft_eq (rel abs_ a b : T) : bool :=
    nabs (a - b) <? fmax2 abs_ (rel * fmax2 (nabs a) (nabs b)).
  Definition soft_eq_sq (rel abs_ a b : T) : bool := soft_eq rel abs_ (nsqrt a) (nsqrt b).
  (** soft_eq_distance: [rel = soft_eq_.abs() * fmax(norm a, norm b)] (sic) *)
  Definition soft_eq_distance (abs_ : T) (a b : vec) : bool :=
    distance a b <? fmax2 abs_ (abs_ * fmax2 (norm a) (norm b)).

  Definition cyl_origin (t : axis) (ou ov : T) : vec := vset (v_axis t) ov (vset (u_axis t) ou vzero).

  (** SoftSurfaceEqual::operator(); [emach] = numeric_limits<real_type>::epsilon() *)
  Definition sse (rel abs_ emach : T) (a b : surf) : bool :=
    match a, b with
    | SPlaneAligned t p, SPlaneAligned t' p' => axis_eqb t t' && soft_eq rel abs_ p p'
    | SCylCentered t r, SCylCentered t' r' => axis_eqb t t' && soft_eq_sq rel abs_ r r'
    | SSphereCentered r, SSphereCentered r' => soft_eq_sq rel abs_ r r'
    | SCylAligned t ou ov r, SCylAligned t' ou' ov' r' =>
        axis_eqb t t' && (soft_eq_sq rel abs_ r r' && soft_eq_distance abs_ (cyl_origin t ou ov) (cyl_origin t' ou' ov'))
    | SPlane n d, SPlane n' d' =>
        if negb (soft_eq rel abs_ d d') then false
        else let mu := dot n n' in
             (n0 <? mu) && (n1 / (mu * mu) - n1 <=? rel * rel + emach)
    | SSphere o r, SSphere o' r' => soft_eq_sq rel abs_ r r' && soft_eq_distance abs_ o o'
    | SConeAligned t o ts, SConeAligned t' o' ts' =>
        axis_eqb t t' && (soft_eq_sq rel abs_ ts ts' && soft_eq_distance abs_ o o')
    | SSimpleQuadric abc def g, SSimpleQuadric abc' def' g' =>
        soft_eq_distance abs_ abc abc' && soft_eq_distance abs_ def def' && soft_eq rel abs_ g g'
    | SGeneralQuadric abc def ghi j, SGeneralQuadric abc' def' ghi' j' =>
        soft_eq_distance abs_ abc abc' && soft_eq_distance abs_ def def'
        && soft_eq_distance abs_ ghi ghi' && soft_eq rel abs_ j j'
    | _, _ => false
    end.

  Definition veqb (a b : vec) : bool := (vx a =? vx b) && (vy a =? vy b) && (vz a =? vz b).
  (** ExactSurfaceEqual: all data equal (same surface class) *)
  Definition exact_eq (a b : surf) : bool :=
    match a, b with
    | SPlaneAligned t p, SPlaneAligned t' p' => axis_eqb t t' && (p =? p')
    | SCylCentered t r, SCylCentered t' r' => axis_eqb t t' && (r =? r')
    | SSphereCentered r, SSphereCentered r' => r =? r'
    | SCylAligned t ou ov r, SCylAligned t' ou' ov' r' =>
        axis_eqb t t' && (ou =? ou') && (ov =? ov') && (r =? r')
    | SPlane n d, SPlane n' d' => veqb n n' && (d =? d')
    | SSphere o r, SSphere o' r' => veqb o o' && (r =? r')
    | SConeAligned t o ts, SConeAligned t' o' ts' => axis_eqb t t' && veqb o o' && (ts =? ts')
    | SSimpleQuadric abc def g, SSimpleQuadric abc' def' g' => veqb abc abc' && veqb def def' && (g =? g')
    | SGeneralQuadric abc def ghi j, SGeneralQuadric abc' def' ghi' j' =>
        veqb abc abc' && veqb def def' && veqb ghi ghi' && (j =? j')
    | _, _ => false
    end.

  (** same surface class (the hash key carries SurfaceType) *)
  Definition same_kind (a b : surf) : bool :=
    match a, b with
    | SPlaneAligned t _, SPlaneAligned t' _ | SCylCentered t _, SCylCentered t' _
    | SCylAligned t _ _ _, SCylAligned t' _ _ _ | SConeAligned t _ _, SConeAligned t' _ _ => axis_eqb t t'
    | SSphereCentered _, SSphereCentered _ | SPlane _ _, SPlane _ _ | SSphere _ _, SSphere _ _
    | SSimpleQuadric _ _ _, SSimpleQuadric _ _ _ | SGeneralQuadric _ _ _ _, SGeneralQuadric _ _ _ _ => true
    | _, _ => false
    end.

  (** SurfaceHashPoint; [None] = NaN (std::sqrt of a negative number) *)
  Definition sqrt_nan (x : T) : option T := if x <? n0 then None else Some (nsqrt x).
  Definition hash_point (s : surf) : option T :=
    match s with
    | SPlaneAligned _ p => Some p
    | SCylCentered _ r | SSphereCentered r | SCylAligned _ _ _ r | SSphere _ r => Some (nsqrt r)
    | SPlane _ d => Some d
    | SConeAligned _ o _ => Some (norm o)
    | SSimpleQuadric _ _ g | SGeneralQuadric _ _ _ g => sqrt_nan g
    end.

  (** SurfaceGridHash: bins of a hash point; [gw] = grid width, [eps] = 2 tol.rel.
      Bin [None] is the single bin all NaN hash points fall into. *)
  Definition grid_bin (gw h : T) : Z := nfloorZ ((h + gw / n2) * (n1 / gw)).
  Definition grid_keys (gw eps : T) (h : option T) : list (option Z) :=
    match h with
    | None => [None]
    | Some x =>
        let b0 := grid_bin gw x in
        let bl := grid_bin gw (x - eps) in
        if negb (Z.eqb bl b0) then [Some b0; Some bl]
        else let br := grid_bin gw (x + eps) in
             if negb (Z.eqb br b0) then [Some b0; Some br] else [Some b0]
    end.
  Definition okey_eqb (a b : option Z) : bool :=
    match a, b with Some x, Some y => Z.eqb x y | None, None => true | _, _ => false end.
  Definition keys_meet (k1 k2 : list (option Z)) : bool :=
    existsb (fun a => existsb (okey_eqb a) k2) k1.

  (** ** LocalSurfaceInserter *)
  Record tolerance := Tol { t_rel : T; t_abs : T; t_emach : T }.
  (** bin_width_frac() * (abs / rel), 2 * rel *)
  Definition lsi_gw (tl : tolerance) : T := nQ 1 100 * (t_abs tl / t_rel tl).
  Definition lsi_eps (tl : tolerance) : T := n2 * t_rel tl.
  Definition surf_keys (tl : tolerance) (s : surf) : list (option Z) :=
    grid_keys (lsi_gw tl) (lsi_eps tl) (hash_point s).

  Record lsi_state := LSI { ls_surfs : list surf; ls_merged : list (nat * nat) }.
  Definition lsi_empty : lsi_state := LSI [] [].
  Definition lsi_root (st : lsi_state) (i : nat) : nat :=
    match find (fun kv => Nat.eqb (fst kv) i) (ls_merged st) with Some kv => snd kv | None => i end.
  Fixpoint indexed {A} (k : nat) (l : list A) : list (nat * A) :=
    match l with [] => [] | x :: r => (k, x) :: indexed (S k) r end.
  (** stored surfaces visited by the bin search for [s] *)
  Definition lsi_candidates (tl : tolerance) (st : lsi_state) (s : surf) : list (nat * surf) :=
    filter (fun it => same_kind s (snd it) && keys_meet (surf_keys tl s) (surf_keys tl (snd it)))
           (indexed 0 (ls_surfs st)).
  Definition lsi_near (tl : tolerance) (st : lsi_state) (s : surf) : list (nat * surf) :=
    filter (fun it => sse (t_rel tl) (t_abs tl) (t_emach tl) s (snd it)) (lsi_candidates tl st s).
  (** (ids the call may return, whether the surface is stored) *)
  Definition lsi_outcomes (tl : tolerance) (st : lsi_state) (s : surf) : list nat * bool :=
    let near := lsi_near tl st s in
    match find (fun it => exact_eq s (snd it)) near with
    | Some it => ([lsi_root st (fst it)], false)
    | None =>
        match near with
        | [] => ([length (ls_surfs st)], true)
        | _ => (map (fun it => lsi_root st (fst it)) near, true)
        end
    end.
  (** one call that returned id [r]: the next state, or [None] if [r] is not allowed *)
  Definition lsi_apply (tl : tolerance) (st : lsi_state) (s : surf) (r : nat) : option lsi_state :=
    let '(allowed, stored) := lsi_outcomes tl st s in
    if existsb (Nat.eqb r) allowed then
      Some (if stored
            then LSI (ls_surfs st ++ [s])
                     (if Nat.eqb r (length (ls_surfs st)) then ls_merged st
                      else ls_merged st ++ [(length (ls_surfs st), r)])
            else st)
    else None.
  (** deterministic instance: the near match with the smallest id is met first *)
  Definition lsi_insert_first (tl : tolerance) (st : lsi_state) (s : surf) : nat * lsi_state :=
    let r := hd 0%nat (fst (lsi_outcomes tl st s)) in
    (r, match lsi_apply tl st s r with Some st' => st' | None => st end).
  Fixpoint lsi_run_first (tl : tolerance) (st : lsi_state) (l : list surf) : list nat * lsi_state :=
    match l with
    | [] => ([], st)
    | s :: rest =>
        let '(r, st') := lsi_insert_first tl st s in
        let '(rs, st'') := lsi_run_first tl st' rest in (r :: rs, st'')
    end.
  (** replay of observed return values; [None] as soon as one is not allowed *)
  Fixpoint lsi_replay (tl : tolerance) (st : lsi_state) (l : list (surf * nat)) : option lsi_state :=
    match l with
    | [] => Some st
    | (s, r) :: rest =>
        match lsi_apply tl st s r with Some st' => lsi_replay tl st' rest | None => None end
    end.
End Dedup.
Arguments tolerance T : clear implicits.
Arguments lsi_state T : clear implicits.
