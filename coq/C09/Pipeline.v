(** * C09: objects, transforms, units — definitions of point membership and a
    model of the construction pipeline.

    - [obj]: the construction API's object classes (Shape, Solid,
      PolyCone/PolyPrism, Transformed, NegatedObject, AllObjects, AnyObjects;
      make_subtraction / make_rdv are sugar for All/Neg).
    - [inside o p]: the DEFINITION of membership (what the user means).
    - [build tr o]: model of [ObjectInterface::build]: a CSG tree whose leaves
      are the signed LOCAL surfaces of each primitive together with the
      accumulated daughter-to-parent transform in force when the primitive was
      built (VolumeBuilder::make_scoped_transform composes parent * child);
      [eval_csg] evaluates a leaf at the point pulled back through that
      transform (C12: sense of the transformed surface at p = sense of the
      local surface at tf_down p).
    - [unit]: UnitProto inputs; [locate] is the definitional point location
      through nested units.
    Executable definitions only. *)
From Coq Require Import ZArith List Bool String.
From Celer Require Import Base.Num Base.Vec3 C12.Solver C12.Surfaces C12.Transforms C09.Shapes.
Import ListNotations.
Local Open Scope num_scope.

Section Pipeline.
  Context {T : Type} `{Num T}.
  Notation vec := (vec3 T).
  Notation surf := (surface T).
  Notation tform := (transformation T).

  Definition tf_id : tform := TF (mat3_id) (V3 n0 n0 n0).
  (** apply_transform(parent, child): x -> parent(child(x)) *)
  Definition tf_compose (parent child : tform) : tform :=
    TF (gemm3 (tf_rot parent) (tf_rot child)) (tf_up parent (tf_tra child)).

  (** SolidEnclosedAngle: (start, interior) in turns, interior in (0,1] *)
  Definition angle := option (T * T).

  Inductive obj :=
  | Shape (pr : prim T)
  | Solid (interior : prim T) (excluded : option (prim T)) (enclosed : angle)
  | PolyCone (zs router : list T) (rinner : option (list T)) (enclosed : angle)
  | PolyPrism (nsides : nat) (orient : T) (zs router : list T) (rinner : option (list T)) (enclosed : angle)
  | Transformed (o : obj) (tr : tform)
  | Neg (o : obj)
  | All (l : list obj)
  | Any (l : list obj).

  (** ** DEFINITION of membership *)
  Definition in_enclosed (a : angle) (p : vec) : bool :=
    match a with None => true | Some (s, i) => in_angle s i p end.

  (** stacked segments: segment k spans z in [z_k, z_k+1] and is the primitive
      [mk (r_k, r_k+1) half-height] centred at the segment's mid-height *)
  Fixpoint segments (zs rs : list T) : list (T * T * T * T) :=
    match zs, rs with
    | z0 :: ((z1 :: _) as zs'), r0 :: ((r1 :: _) as rs') => (z0, z1, r0, r1) :: segments zs' rs'
    | _, _ => []
    end.
  Definition seg_prim_inside (mk : T -> T -> T -> prim T) (sg : T * T * T * T) (p : vec) : bool :=
    let '(z0, z1, r0, r1) := sg in
    let hz := (z1 - z0) / n2 in
    inside_prim (mk r0 r1 hz) (V3 (vx p) (vy p) (vz p - (z0 + hz))).
  Definition inside_poly (tol : T) (mk : T -> T -> T -> prim T) (zs ro : list T) (ri : option (list T))
             (a : angle) (p : vec) : bool :=
    let outs := segments zs ro in
    let ins := match ri with Some l => map Some (segments zs l) | None => map (fun _ => None) outs end in
    existsb (fun oi : (T * T * T * T) * option (T * T * T * T) =>
               let '(o, i) := oi in
               let '(z0, z1, _, _) := o in
               negb (soft_equal tol z0 z1) &&
               seg_prim_inside mk o p &&
               match i with Some ii => negb (seg_prim_inside mk ii p) | None => true end)
            (combine outs ins)
    && in_enclosed a p.

  Definition mk_cone (r0 r1 hz : T) : prim T := PCone r0 r1 hz.
  Definition mk_prism (n : nat) (orient : T) (r0 r1 hz : T) : prim T := PPrism n r0 hz orient.

  Fixpoint inside (tol : T) (o : obj) (p : vec) : bool :=
    match o with
    | Shape pr => inside_prim pr p
    | Solid i e a =>
        inside_prim i p
        && match e with Some ex => negb (inside_prim ex p) | None => true end
        && in_enclosed a p
    | PolyCone zs ro ri a => inside_poly tol mk_cone zs ro ri a p
    | PolyPrism n orient zs ro ri a => inside_poly tol (mk_prism n orient) zs ro ri a p
    | Transformed o' tr => inside tol o' (tf_down tr p)
    | Neg o' => negb (inside tol o' p)
    | All l => (fix go (l : list obj) : bool :=
                  match l with [] => true | x :: r => inside tol x p && go r end) l
    | Any l => (fix go (l : list obj) : bool :=
                  match l with [] => false | x :: r => inside tol x p || go r end) l
    end.

  (** ** model of the construction *)
  Inductive csg :=
  | CTrue | CFalse
  | CSurf (sn : bsense) (s : surf) (tr : tform)
  | CNot (c : csg)
  | CAnd (l : list csg)
  | COr (l : list csg).

  Fixpoint eval_csg (c : csg) (p : vec) : bool :=
    match c with
    | CTrue => true
    | CFalse => false
    | CSurf sn s tr => sense_holds sn s (tf_down tr p)
    | CNot c' => negb (eval_csg c' p)
    | CAnd l => (fix go (l : list csg) : bool :=
                   match l with [] => true | x :: r => eval_csg x p && go r end) l
    | COr l => (fix go (l : list csg) : bool :=
                  match l with [] => false | x :: r => eval_csg x p || go r end) l
    end.

  (** build_intersect_region: AND of the primitive's signed surfaces under the
      current transform *)
  Definition build_prim (tol : T) (tr : tform) (pr : prim T) : csg :=
    CAnd (map (fun ss => CSurf (fst ss) (snd ss) tr) (surfaces_of tol pr)).

  (** SolidEnclosedAngle::make_wedge + the negation in SolidBase::build *)
  Definition eumod1 (x : T) : T := x - nofZ (nfloorZ x).
  Definition build_enclosed (tol : T) (tr : tform) (a : angle) : list csg :=
    match a with
    | None => []
    | Some (s, i) =>
        if i =? n1 then []
        else
          let start := eumod1 s in
          if nhalf <? i then
            [CNot (build_prim tol tr (PWedge (eumod1 (start + i)) (n1 - i)))]
          else [build_prim tol tr (PWedge start i)]
    end.

  Definition tf_translate_z (dz : T) : tform := TF mat3_id (V3 n0 n0 dz).

  Definition build_poly (tol : T) (tr : tform) (mk : T -> T -> T -> prim T) (zs ro : list T)
             (ri : option (list T)) (a : angle) : csg :=
    let outs := segments zs ro in
    let ins := match ri with Some l => map Some (segments zs l) | None => map (fun _ => None) outs end in
    let segs :=
      flat_map (fun oi : (T * T * T * T) * option (T * T * T * T) =>
                  let '(o, i) := oi in
                  let '(z0, z1, r0, r1) := o in
                  if soft_equal tol z0 z1 then []
                  else
                    let hz := (z1 - z0) / n2 in
                    let tr' := tf_compose tr (tf_translate_z (z0 + hz)) in
                    let outer := build_prim tol tr' (mk r0 r1 hz) in
                    match i with
                    | Some (_, _, q0, q1) =>
                        [CAnd [outer; CNot (build_prim tol tr' (mk q0 q1 hz))]]
                    | None => [outer]
                    end)
               (combine outs ins) in
    match build_enclosed tol tr a with
    | [] => COr segs
    | w => CAnd (COr segs :: w)
    end.

  Fixpoint build (tol : T) (tr : tform) (o : obj) : csg :=
    match o with
    | Shape pr => build_prim tol tr pr
    | Solid i e a =>
        CAnd (build_prim tol tr i
              :: match e with Some ex => [CNot (build_prim tol tr ex)] | None => [] end
              ++ build_enclosed tol tr a)
    | PolyCone zs ro ri a => build_poly tol tr mk_cone zs ro ri a
    | PolyPrism n orient zs ro ri a => build_poly tol tr (mk_prism n orient) zs ro ri a
    | Transformed o' t => build tol (tf_compose tr t) o'
    | Neg o' => CNot (build tol tr o')
    | All l => CAnd ((fix go (l : list obj) : list csg :=
                        match l with [] => [] | x :: r => build tol tr x :: go r end) l)
    | Any l => COr ((fix go (l : list obj) : list csg :=
                       match l with [] => [] | x :: r => build tol tr x :: go r end) l)
    end.

  (** every local surface of the tree is at least [m] away from p *)
  Fixpoint csg_clear (m : T) (c : csg) (p : vec) : bool :=
    match c with
    | CTrue | CFalse => true
    | CSurf _ s tr => surf_clear m s (tf_down tr p)
    | CNot c' => csg_clear m c' p
    | CAnd l | COr l => (fix go (l : list csg) : bool :=
                           match l with [] => true | x :: r => csg_clear m x p && go r end) l
    end.

  (** ** units *)
  (** UnitProto::Input: boundary object, daughters (unit, daughter-to-parent
      transform), materials (label, object), background *)
  Inductive unit_ :=
  | Unit (label : string) (boundary : obj)
         (daughters : list (unit_ * tform)) (materials : list (string * obj)) (background : bool).

  Definition unit_label (u : unit_) : string := match u with Unit l _ _ _ _ => l end.
  Definition unit_boundary (u : unit_) : obj := match u with Unit _ b _ _ _ => b end.
  (** DaughterInput::make_interior: the daughter's boundary under its transform *)
  Definition daughter_interior (d : unit_ * tform) : obj := Transformed (unit_boundary (fst d)) (snd d).

  (** per-volume record of one universe: claimed-by flags at point p
      (exterior, daughters, materials); definitional ([inside]) and through the
      construction model ([eval_csg (build ..)]) *)
  Definition unit_claims (tol : T) (u : unit_) (p : vec) : bool * list bool * list bool :=
    match u with
    | Unit _ b ds ms _ =>
        (negb (inside tol b p),
         map (fun d => inside tol (daughter_interior d) p) ds,
         map (fun m => inside tol (snd m) p) ms)
    end.
  Definition unit_claims_built (tol : T) (u : unit_) (p : vec) : bool * list bool * list bool :=
    match u with
    | Unit _ b ds ms _ =>
        (negb (eval_csg (build tol tf_id b) p),
         map (fun d => eval_csg (build tol tf_id (daughter_interior d)) p) ds,
         map (fun m => eval_csg (build tol tf_id (snd m)) p) ms)
    end.
  Definition unit_clear (tol m : T) (u : unit_) (p : vec) : bool :=
    match u with
    | Unit _ b ds ms _ =>
        csg_clear m (build tol tf_id b) p
        && forallb (fun d => csg_clear m (build tol tf_id (daughter_interior d)) p) ds
        && forallb (fun mm => csg_clear m (build tol tf_id (snd mm)) p) ms
    end.

  (** location report for one probe point: the chain of universes visited from
      the global one down; for each level (unit label, clear?, claims by
      definition, claims through the build model); descends into the first
      daughter that claims the point (the generator keeps volumes disjoint) *)
  Definition first_true (l : list bool) : option nat :=
    (fix go (l : list bool) (k : nat) : option nat :=
       match l with [] => None | true :: _ => Some k | false :: r => go r (S k) end) l 0%nat.

  Fixpoint probe (fuel : nat) (tol m : T) (u : unit_) (p : vec)
    : list (string * bool * (bool * list bool * list bool) * (bool * list bool * list bool)) :=
    match fuel with
    | O => []
    | S f =>
        let cl := unit_claims tol u p in
        let here := (unit_label u, unit_clear tol m u p, cl, unit_claims_built tol u p) in
        match u with
        | Unit _ _ ds _ _ =>
            match first_true (snd (fst cl)) with
            | Some k =>
                if fst (fst cl) then [here]
                else match nth_error ds k with
                     | Some (du, tr) => here :: probe f tol m du (tf_down tr p)
                     | None => [here]
                     end
            | None => [here]
            end
        end
    end.
End Pipeline.
Arguments obj T : clear implicits.
Arguments csg T : clear implicits.
Arguments unit_ T : clear implicits.
