(** * C09 proofs (instance R): bounding-zone algebra (BoundingZone.cc) and the
    bounding box of a transformed box (BoundingBoxUtils.cc calc_transform).

    A zone is SOUND for a region [Rg] when (header of BoundingZone.hh)
      not negated: interior box is inside Rg, Rg is inside the exterior box;
      negated:     interior box is outside Rg, everything outside the exterior box is in Rg. *)
From Coq Require Import Reals ZArith List Bool Lra Lia Psatz Btauto.
From Celer Require Import Base.Num Base.NumR Base.Vec3 C12.Solver C12.Surfaces C12.Transforms C09.BZone.
Import ListNotations.
Local Open Scope R_scope.

Notation vec := (vec3 R).

Ltac rhyps :=
  repeat match goal with
  | H : Rleb _ _ = true |- _ => apply Rleb_true in H
  | H : Rleb _ _ = false |- _ => apply Rleb_false in H
  | H : Rltb _ _ = true |- _ => apply Rltb_true in H
  | H : Rltb _ _ = false |- _ => apply Rltb_false in H
  | H : true = false |- _ => discriminate H
  | H : false = true |- _ => discriminate H
  end.
Ltac ext3 :=
  unfold emax, emin, elt; cbn [ele negb andb]; numR; intros; rhyps; try reflexivity;
  repeat (rcases; cbn [ele negb andb]; numR); try reflexivity;
    try (symmetry; apply Rleb_false; lra); try (symmetry; apply Rleb_true; lra);
    try (apply Rleb_false; lra); try (apply Rleb_true; lra); try (exfalso; lra).

(** ** one axis *)
Lemma ele_refl (a : ext R) : ele a a = true.
Proof. destruct a; ext3. Qed.
Lemma ele_trans (a b c : ext R) : ele a b = true -> ele b c = true -> ele a c = true.
Proof. destruct a, b, c; ext3. Qed.
Lemma ele_emax (a b c : ext R) : ele (emax a b) c = ele a c && ele b c.
Proof. destruct a, b, c; ext3. Qed.
Lemma ele_emin (a b c : ext R) : ele c (emin a b) = ele c a && ele c b.
Proof. destruct a, b, c; ext3. Qed.
Lemma ele_emin_l (a b c : ext R) : ele a c = true -> ele (emin a b) c = true.
Proof. destruct a, b, c; ext3. Qed.
Lemma ele_emin_r (a b c : ext R) : ele b c = true -> ele (emin a b) c = true.
Proof. destruct a, b, c; ext3. Qed.
Lemma ele_emax_l (a b c : ext R) : ele c a = true -> ele c (emax a b) = true.
Proof. destruct a, b, c; ext3. Qed.
Lemma ele_emax_r (a b c : ext R) : ele c b = true -> ele c (emax a b) = true.
Proof. destruct a, b, c; ext3. Qed.

(** ** boxes *)
Ltac and6 := unfold in_box, encloses, box_valid in *; cbn [lox loy loz hix hiy hiz box_isect box_union] in *;
             repeat rewrite andb_true_iff in *.

Lemma in_isect (a b : ebox R) p : in_box (box_isect a b) p = in_box a p && in_box b p.
Proof.
  unfold in_box; cbn [lox loy loz hix hiy hiz box_isect].
  rewrite !ele_emax, !ele_emin. btauto.
Qed.
Lemma in_union_l (a b : ebox R) p : in_box a p = true -> in_box (box_union a b) p = true.
Proof. and6. intuition auto using ele_emin_l, ele_emax_l. Qed.
Lemma in_union_r (a b : ebox R) p : in_box b p = true -> in_box (box_union a b) p = true.
Proof. and6. intuition auto using ele_emin_r, ele_emax_r. Qed.
Lemma encloses_in (big small : ebox R) p : encloses big small = true -> in_box small p = true -> in_box big p = true.
Proof. and6. intuition eauto using ele_trans. Qed.
Lemma in_valid (b : ebox R) p : in_box b p = true -> box_valid b = true.
Proof. and6. intuition eauto using ele_trans. Qed.
Lemma invalid_empty (b : ebox R) p : box_valid b = false -> in_box b p = false.
Proof. intros Hv. destruct (in_box b p) eqn:E; [|reflexivity]. apply in_valid in E. congruence. Qed.
Lemma in_null p : in_box (@null_box R) p = false.
Proof. reflexivity. Qed.
Lemma in_inf p : in_box (@inf_box R) p = true.
Proof. reflexivity. Qed.
Lemma union_shrink_in (a b : ebox R) p :
  in_box (calc_union_op a b false) p = true -> in_box a p = true \/ in_box b p = true.
Proof.
  unfold calc_union_op.
  destruct (negb (box_valid a)); [auto|]. destruct (negb (box_valid b)); [auto|].
  destruct (vgt _ _); auto.
Qed.

(** ** soundness of a zone for a region *)
Definition region := vec -> Prop.
Definition zone_sound (z : bzone R) (Rg : region) : Prop :=
  if zneg z
  then (forall p, in_box (zint z) p = true -> ~ Rg p) /\ (forall p, in_box (zext z) p = false -> Rg p)
  else (forall p, in_box (zint z) p = true -> Rg p) /\ (forall p, Rg p -> in_box (zext z) p = true).
(** the half that matters for point location: what the zone declares "known outside" *)
Definition outside_sound (z : bzone R) (Rg : region) : Prop :=
  if zneg z then (forall p, in_box (zint z) p = true -> ~ Rg p)
  else (forall p, Rg p -> in_box (zext z) p = true).
Lemma zone_sound_outside z Rg : zone_sound z Rg -> outside_sound z Rg.
Proof. unfold zone_sound, outside_sound. destruct (zneg z); tauto. Qed.

Theorem bz_negate_sound z Rg : zone_sound z Rg -> zone_sound (bz_negate z) (fun p => ~ Rg p).
Proof.
  unfold zone_sound, bz_negate; cbn [zneg zint zext]. destruct (zneg z); cbn [negb]; intros [Hi Hx]; split; intros p Hp.
  - now apply Hi.
  - destruct (in_box (zext z) p) eqn:E; [reflexivity|]. exfalso. apply Hp. now apply Hx.
  - intros Hn. apply Hn. now apply Hi.
  - intros HR. apply Hx in HR. congruence.
Qed.

Theorem bz_infinite_sound : zone_sound bz_infinite (fun _ => True).
Proof. split; intros; auto. Qed.

(** [a_i - b_x] shrunk (repaired) is inside [A /\ ~B]-like regions; [a_x - b_i] grown encloses *)
Lemma diff_fix_shrink (a b : ebox R) (P Q : region) :
  (forall p, in_box a p = true -> P p) -> (forall p, in_box b p = false -> Q p) ->
  forall p, in_box (calc_difference_fix a b false) p = true -> P p /\ Q p.
Proof.
  intros HP HQ p. unfold calc_difference_fix.
  destruct (box_valid b) eqn:Vb; cbn [negb].
  - destruct (encloses a b); [now rewrite in_null|]. destruct (encloses b a); now rewrite in_null.
  - intros Hin. split; [now apply HP|]. apply HQ. now apply invalid_empty.
Qed.
Lemma diff_grow_gen (fixd : bool) (a b : ebox R) (P Q : region) :
  (forall p, P p -> in_box a p = true) -> (forall p, in_box b p = true -> ~ Q p) ->
  forall p, P p -> Q p ->
    in_box ((if fixd then calc_difference_fix else calc_difference) a b true) p = true.
Proof.
  intros HP HQ p Pp Qp.
  assert (in_box (calc_difference a b true) p = true) as Hd.
  { unfold calc_difference. destruct (negb (box_valid b)); [now apply HP|].
    destruct (encloses a b); [now apply HP|].
    destruct (encloses b a) eqn:E; [|reflexivity].
    exfalso. apply (HQ p); [|assumption]. eapply encloses_in; [exact E|]. now apply HP. }
  destruct fixd; exact Hd.
Qed.

Theorem bz_intersection_fix_sound a b RA RB :
  zone_sound a RA -> zone_sound b RB -> zone_sound (bz_intersection_fix a b) (fun p => RA p /\ RB p).
Proof.
  unfold zone_sound, bz_intersection_fix. destruct (zneg a), (zneg b); cbn [zneg zint zext]; intros [Ai Ax] [Bi Bx]; split; intros p Hp.
  - apply union_shrink_in in Hp. intros [HA HB]. destruct Hp as [Hp|Hp]; [now apply (Ai p)|now apply (Bi p)].
  - cbn [calc_union_op] in Hp. split.
    + apply Ax. destruct (in_box (zext a) p) eqn:E; [|reflexivity]. now rewrite (in_union_l _ _ _ E) in Hp.
    + apply Bx. destruct (in_box (zext b) p) eqn:E; [|reflexivity]. now rewrite (in_union_r _ _ _ E) in Hp.
  - apply and_comm. revert p Hp. apply diff_fix_shrink; assumption.
  - destruct Hp as [HA HB]. apply (diff_grow_gen true (zext b) (zint a) RB RA); assumption.
  - revert p Hp. apply diff_fix_shrink; assumption.
  - destruct Hp as [HA HB]. apply (diff_grow_gen true (zext a) (zint b) RA RB); assumption.
  - rewrite in_isect in Hp. apply andb_true_iff in Hp. destruct Hp. split; [now apply Ai|now apply Bi].
  - destruct Hp as [HA HB]. rewrite in_isect. apply andb_true_iff. split; [now apply Ax|now apply Bx].
Qed.

Theorem bz_union_fix_sound a b RA RB :
  zone_sound a RA -> zone_sound b RB -> zone_sound (bz_union_fix a b) (fun p => RA p \/ RB p).
Proof.
  unfold zone_sound, bz_union_fix. destruct (zneg a), (zneg b); cbn [zneg zint zext]; intros [Ai Ax] [Bi Bx]; split; intros p Hp.
  - rewrite in_isect in Hp. apply andb_true_iff in Hp. destruct Hp as [H1 H2]. intros [HA|HB]; [now apply (Ai p)|now apply (Bi p)].
  - rewrite in_isect in Hp. apply andb_false_iff in Hp. destruct Hp as [H1|H1]; [left; now apply Ax|right; now apply Bx].
  - (* ~A | B: interior A_i - B_x is outside; outside of A_x - B_i is inside *)
    intros HAB.
    destruct (diff_fix_shrink (zint a) (zext b) (fun q => ~ RA q) (fun q => ~ RB q)) with (p := p) as [H1 H2]; auto.
    + intros q Hq HR. apply Bx in HR. congruence.
    + tauto.
  - destruct (in_box (zext a) p) eqn:Ea; [|left; now apply Ax].
    (* p in A_x; if p were outside both regions, A_x - B_i would contain it *)
    right. destruct (in_box (zint b) p) eqn:Eb; [now apply Bi|].
    exfalso. revert Hp. unfold calc_difference_fix.
    destruct (negb (box_valid (zint b))); [congruence|].
    destruct (encloses (zext a) (zint b)); [congruence|].
    destruct (encloses (zint b) (zext a)) eqn:E; [|now rewrite in_inf].
    rewrite (encloses_in _ _ _ E Ea) in Eb. discriminate.
  - intros HAB.
    destruct (diff_fix_shrink (zint b) (zext a) (fun q => ~ RB q) (fun q => ~ RA q)) with (p := p) as [H1 H2]; auto.
    + intros q Hq HR. apply Ax in HR. congruence.
    + tauto.
  - destruct (in_box (zext b) p) eqn:Eb; [|right; now apply Bx].
    left. destruct (in_box (zint a) p) eqn:Ea; [now apply Ai|].
    exfalso. revert Hp. unfold calc_difference_fix.
    destruct (negb (box_valid (zint a))); [congruence|].
    destruct (encloses (zext b) (zint a)); [congruence|].
    destruct (encloses (zint a) (zext b)) eqn:E; [|now rewrite in_inf].
    rewrite (encloses_in _ _ _ E Eb) in Ea. discriminate.
  - apply union_shrink_in in Hp. destruct Hp as [Hp|Hp]; [left; now apply Ai|right; now apply Bi].
  - cbn [calc_union_op]. destruct Hp as [HA|HB]; [apply in_union_l; now apply Ax|apply in_union_r; now apply Bx].
Qed.

(** ** the code AS WRITTEN *)
(** where the shrink difference does not take its defective branch the faithful
    intersection IS the repaired one *)
Definition shrink_guard (pos neg : bzone R) : Prop :=
  ~ (box_valid (zext neg) = true /\ encloses (zint pos) (zext neg) = true).
Lemma diff_eq_fix_grow (a b : ebox R) : calc_difference a b true = calc_difference_fix a b true.
Proof. reflexivity. Qed.
Lemma diff_eq_fix_guard (a b : ebox R) :
  ~ (box_valid b = true /\ encloses a b = true) -> calc_difference a b false = calc_difference_fix a b false.
Proof.
  intros G. unfold calc_difference, calc_difference_fix.
  destruct (box_valid b) eqn:V; cbn [negb]; [|reflexivity].
  destruct (encloses a b) eqn:E; [|reflexivity]. exfalso. apply G. auto.
Qed.
Definition mixed_guard (a b : bzone R) : Prop :=
  match zneg a, zneg b with
  | false, true => shrink_guard a b
  | true, false => shrink_guard b a
  | _, _ => True
  end.
Theorem bz_intersection_sound_guarded a b RA RB :
  mixed_guard a b ->
  zone_sound a RA -> zone_sound b RB -> zone_sound (bz_intersection a b) (fun p => RA p /\ RB p).
Proof.
  intros G HA HB.
  replace (bz_intersection a b) with (bz_intersection_fix a b); [now apply bz_intersection_fix_sound|].
  unfold bz_intersection, bz_intersection_fix, mixed_guard, shrink_guard in *.
  destruct (zneg a), (zneg b); try reflexivity; now rewrite diff_eq_fix_guard.
Qed.
(** ... in particular for equal negation flags (pure intersections, De Morgan unions) *)
Corollary bz_intersection_sound_same a b RA RB : zneg a = zneg b ->
  zone_sound a RA -> zone_sound b RB -> zone_sound (bz_intersection a b) (fun p => RA p /\ RB p).
Proof.
  intros E. apply bz_intersection_sound_guarded. unfold mixed_guard. rewrite E. now destruct (zneg b).
Qed.
(** the "known outside" half of the faithful intersection is sound for EVERY combination *)
Theorem bz_intersection_outside_sound a b RA RB :
  zone_sound a RA -> zone_sound b RB -> outside_sound (bz_intersection a b) (fun p => RA p /\ RB p).
Proof.
  intros HA HB. pose proof (bz_intersection_fix_sound a b RA RB HA HB) as Hs.
  apply zone_sound_outside in Hs. revert Hs.
  unfold outside_sound, bz_intersection, bz_intersection_fix.
  destruct (zneg a), (zneg b); cbn [zneg zint zext]; auto.
Qed.
Theorem bz_union_sound_same a b RA RB : zneg a = zneg b ->
  zone_sound a RA -> zone_sound b RB -> zone_sound (bz_union a b) (fun p => RA p \/ RB p).
Proof.
  intros E HA HB.
  replace (bz_union a b) with (bz_union_fix a b); [now apply bz_union_fix_sound|].
  unfold bz_union, bz_union_fix. rewrite E. now destruct (zneg b).
Qed.

(** ** refutations (known finding F5) *)
Definition cube (h : R) : ebox R := fin_box (V3 (- h) (- h) (- h)) (V3 h h h).
Definition zcube (h : R) (neg : bool) : bzone R := BZ (cube h) (cube h) neg.
Definition in_cube (h : R) : region := fun p => in_box (cube h) p = true.
Lemma zcube_sound_pos h : zone_sound (zcube h false) (in_cube h).
Proof. split; intros p Hp; exact Hp. Qed.
Lemma zcube_sound_neg h : zone_sound (zcube h true) (fun p => ~ in_cube h p).
Proof. apply (bz_negate_sound (zcube h false)), zcube_sound_pos. Qed.

Ltac cube_eval :=
  unfold in_box, encloses, box_valid, cube, fin_box; cbn; numR;
  repeat match goal with
         | |- context [Rleb ?a ?b] =>
             first [ replace (Rleb a b) with true by (symmetry; apply Rleb_true; lra)
                   | replace (Rleb a b) with false by (symmetry; apply Rleb_false; lra) ]
         end; cbn.

(** box(9) & ~box(1): calc_difference(shrink) returns the subtrahend box(1) as INTERIOR *)
Theorem bz_difference_refuted :
  exists a b RA RB p, zone_sound a RA /\ zone_sound b RB /\ zneg (bz_intersection a b) = false /\
    in_box (zint (bz_intersection a b)) p = true /\ ~ (RA p /\ RB p).
Proof.
  exists (zcube 9 false), (zcube 1 true), (in_cube 9), (fun p => ~ in_cube 1 p), (V3 0 0 0).
  split; [apply zcube_sound_pos|]. split; [apply zcube_sound_neg|]. split; [reflexivity|].
  assert (Hc : in_box (cube 1) (V3 0 0 0) = true) by (cube_eval; reflexivity).
  split.
  - unfold bz_intersection, zcube; cbn [zneg zint zext]. unfold calc_difference.
    replace (box_valid (cube 1)) with true by (symmetry; cube_eval; reflexivity).
    replace (encloses (cube 9) (cube 1)) with true by (symmetry; cube_eval; reflexivity).
    exact Hc.
  - intros [_ H]. now apply H.
Qed.
Corollary bz_intersection_refuted :
  exists a b RA RB, zone_sound a RA /\ zone_sound b RB /\ ~ zone_sound (bz_intersection a b) (fun p => RA p /\ RB p).
Proof.
  destruct bz_difference_refuted as (a & b & RA & RB & p & HA & HB & Hn & Hin & Hno).
  exists a, b, RA, RB. split; [assumption|]. split; [assumption|].
  unfold zone_sound. rewrite Hn. intros [Hi _]. apply Hno. now apply Hi.
Qed.

(** box(1) | ~box(9): the mixed branch uses A_x - B_i instead of B_x - A_i (operands swapped);
    none of the differences involved takes the defective shrink branch *)
Theorem bz_union_refuted :
  exists a b RA RB p, zone_sound a RA /\ zone_sound b RB /\ zneg (bz_union a b) = true /\
    calc_difference (zint a) (zext b) false = calc_difference_fix (zint a) (zext b) false /\
    in_box (zext (bz_union a b)) p = false /\ ~ (RA p \/ RB p).
Proof.
  exists (zcube 1 false), (zcube 9 true), (in_cube 1), (fun p => ~ in_cube 9 p), (V3 5 5 5).
  split; [apply zcube_sound_pos|]. split; [apply zcube_sound_neg|]. split; [reflexivity|].
  assert (V9 : box_valid (cube 9) = true) by (cube_eval; reflexivity).
  assert (E19 : encloses (cube 1) (cube 9) = false) by (cube_eval; reflexivity).
  assert (E91 : encloses (cube 9) (cube 1) = true) by (cube_eval; reflexivity).
  split; [|split].
  - cbn [zcube zint zext]. unfold calc_difference, calc_difference_fix. now rewrite V9, E19.
  - unfold bz_union, zcube; cbn [zneg zint zext]. unfold calc_difference. now rewrite V9, E19, E91.
  - intros [H|H].
    + revert H. unfold in_cube. cube_eval. discriminate.
    + apply H. unfold in_cube. cube_eval. reflexivity.
Qed.
Corollary bz_union_unsound :
  exists a b RA RB, zone_sound a RA /\ zone_sound b RB /\ ~ zone_sound (bz_union a b) (fun p => RA p \/ RB p).
Proof.
  destruct bz_union_refuted as (a & b & RA & RB & p & HA & HB & Hn & _ & Hout & Hno).
  exists a, b, RA, RB. split; [assumption|]. split; [assumption|].
  unfold zone_sound. rewrite Hn. intros [_ Hx]. apply Hno. now apply Hx.
Qed.

(** non-vacuity: sound operand zones exist for every combination of flags *)
Example zone_sound_example :
  zone_sound (bz_intersection_fix (zcube 9 false) (zcube 1 true)) (fun p => in_cube 9 p /\ ~ in_cube 1 p)
  /\ zone_sound (bz_union_fix (zcube 1 false) (zcube 9 true)) (fun p => in_cube 1 p \/ ~ in_cube 9 p)
  /\ zone_sound (bz_intersection (zcube 9 false) (zcube 1 false)) (fun p => in_cube 9 p /\ in_cube 1 p)
  /\ mixed_guard (zcube 1 false) (zcube 9 true).
Proof.
  split; [apply bz_intersection_fix_sound; [apply zcube_sound_pos|apply zcube_sound_neg]|].
  split; [apply bz_union_fix_sound; [apply zcube_sound_pos|apply zcube_sound_neg]|].
  split; [apply bz_intersection_sound_same; [reflexivity|apply zcube_sound_pos|apply zcube_sound_pos]|].
  unfold mixed_guard, shrink_guard; cbn [zcube zneg zint zext]. intros [_ E].
  revert E. cube_eval. discriminate.
Qed.

(** ** calc_transform: the transformed box encloses the image of the box *)
Definition rowdot (r x : vec) : R := vx r * vx x + vy r * vy x + vz r * vz x.
Lemma rot_skip_eq (m : mat3 R) x :
  rot_skip m x = V3 (rowdot (r0 m) x) (rowdot (r1 m) x) (rowdot (r2 m) x).
Proof.
  unfold rot_skip, rowdot, mget, mrow, vget. destruct m as [[a b c] [d e f] [g h i]], x as [x y z]; cbn.
  numR. unfold Reqb.
  repeat match goal with |- context [Req_EM_T ?u 0] => destruct (Req_EM_T u 0) as [->|] end; f_equal; ring.
Qed.
Lemma tf_up_eq (tr : transformation R) p :
  tf_up tr p = vadd (V3 (rowdot (r0 (tf_rot tr)) p) (rowdot (r1 (tf_rot tr)) p) (rowdot (r2 (tf_rot tr)) p)) (tf_tra tr).
Proof.
  unfold tf_up, gemv, rowdot, vadd, mget, mrow, vget.
  destruct tr as [[[a b c] [d e f] [g h i]] [tx ty tz]], p as [x y z]; cbn. numR. f_equal; ring.
Qed.

Definition bounds (b : vec * vec) (q : vec) : Prop :=
  vx (fst b) <= vx q <= vx (snd b) /\ vy (fst b) <= vy q <= vy (snd b) /\ vz (fst b) <= vz q <= vz (snd b).
Definition mm_step (acc : option (vec * vec)) (q : vec) : option (vec * vec) :=
  match acc with
  | None => Some (q, q)
  | Some (lo, hi) =>
      Some (V3 (fmin_ (vx lo) (vx q)) (fmin_ (vy lo) (vy q)) (fmin_ (vz lo) (vz q)),
            V3 (fmax_ (vx hi) (vx q)) (fmax_ (vy hi) (vy q)) (fmax_ (vz hi) (vz q)))
  end.
Lemma fmin_le a b : fmin_ a b <= a /\ fmin_ a b <= b.
Proof. unfold fmin_. numR. rcases; lra. Qed.
Lemma fmax_ge a b : a <= fmax_ a b /\ b <= fmax_ a b.
Proof. unfold fmax_. numR. rcases; lra. Qed.
Lemma mm_step_new acc q : exists b, mm_step acc q = Some b /\ bounds b q.
Proof.
  destruct acc as [[lo hi]|]; cbn [mm_step]; eexists; split; try reflexivity; unfold bounds; cbn [fst snd vx vy vz].
  - pose proof (fmin_le (vx lo) (vx q)); pose proof (fmin_le (vy lo) (vy q)); pose proof (fmin_le (vz lo) (vz q)).
    pose proof (fmax_ge (vx hi) (vx q)); pose proof (fmax_ge (vy hi) (vy q)); pose proof (fmax_ge (vz hi) (vz q)). lra.
  - lra.
Qed.
Lemma mm_step_keep b0 q x : bounds b0 x -> exists b, mm_step (Some b0) q = Some b /\ bounds b x.
Proof.
  destruct b0 as [lo hi]. cbn [mm_step]. intros Hb. eexists; split; [reflexivity|]. unfold bounds in *; cbn [fst snd vx vy vz] in *.
  pose proof (fmin_le (vx lo) (vx q)); pose proof (fmin_le (vy lo) (vy q)); pose proof (fmin_le (vz lo) (vz q)).
  pose proof (fmax_ge (vx hi) (vx q)); pose proof (fmax_ge (vy hi) (vy q)); pose proof (fmax_ge (vz hi) (vz q)). lra.
Qed.
Lemma minmax_fold (l : list vec) : forall acc,
  (forall q, In q l -> exists b, fold_left mm_step l acc = Some b /\ bounds b q) /\
  (forall b0 x, acc = Some b0 -> bounds b0 x -> exists b, fold_left mm_step l acc = Some b /\ bounds b x).
Proof.
  induction l as [|y l IH]; intros acc; split.
  - intros q [].
  - intros b0 x -> Hb. exists b0. auto.
  - intros q [->|Hin]; cbn [fold_left].
    + destruct (mm_step_new acc q) as (b & Hb & Hq). rewrite Hb. now apply (proj2 (IH (Some b)) b q).
    + now apply (proj1 (IH (mm_step acc y))).
  - intros b0 x -> Hb. cbn [fold_left]. destruct (mm_step_keep b0 y x Hb) as (b & Hs & Hx).
    rewrite Hs. now apply (proj2 (IH (Some b)) b x).
Qed.
Lemma minmax_pts_bounds l q : In q l -> exists b, minmax_pts l = Some b /\ bounds b q.
Proof. intros Hin. exact (proj1 (minmax_fold l None) q Hin). Qed.

(** for a point of the box and any row, some corner has a smaller (larger) row product *)
Lemma corner_below (r lo hi p : vec) :
  vx lo <= vx p <= vx hi -> vy lo <= vy p <= vy hi -> vz lo <= vz p <= vz hi ->
  exists c, In c (box_corners lo hi) /\ rowdot r c <= rowdot r p.
Proof.
  intros Hx Hy Hz. unfold rowdot.
  exists (V3 (if Rle_dec 0 (vx r) then vx lo else vx hi) (if Rle_dec 0 (vy r) then vy lo else vy hi)
             (if Rle_dec 0 (vz r) then vz lo else vz hi)).
  split.
  - unfold box_corners. destruct (Rle_dec 0 (vx r)), (Rle_dec 0 (vy r)), (Rle_dec 0 (vz r)); cbn; auto 10.
  - cbn [vx vy vz]. destruct (Rle_dec 0 (vx r)), (Rle_dec 0 (vy r)), (Rle_dec 0 (vz r)); nra.
Qed.
Lemma corner_above (r lo hi p : vec) :
  vx lo <= vx p <= vx hi -> vy lo <= vy p <= vy hi -> vz lo <= vz p <= vz hi ->
  exists c, In c (box_corners lo hi) /\ rowdot r p <= rowdot r c.
Proof.
  intros Hx Hy Hz. unfold rowdot.
  exists (V3 (if Rle_dec 0 (vx r) then vx hi else vx lo) (if Rle_dec 0 (vy r) then vy hi else vy lo)
             (if Rle_dec 0 (vz r) then vz hi else vz lo)).
  split.
  - unfold box_corners. destruct (Rle_dec 0 (vx r)), (Rle_dec 0 (vy r)), (Rle_dec 0 (vz r)); cbn; auto 10.
  - cbn [vx vy vz]. destruct (Rle_dec 0 (vx r)), (Rle_dec 0 (vy r)), (Rle_dec 0 (vz r)); nra.
Qed.

Lemma in_fin_box lo hi (p : vec) :
  in_box (fin_box lo hi) p = true <->
  (vx lo <= vx p <= vx hi) /\ (vy lo <= vy p <= vy hi) /\ (vz lo <= vz p <= vz hi).
Proof.
  unfold in_box, fin_box; cbn [lox loy loz hix hiy hiz ele]. numR.
  rewrite !andb_true_iff, !Rleb_true. tauto.
Qed.

Theorem box_transform_encloses (tr : transformation R) lo hi p :
  in_box (fin_box lo hi) p = true ->
  in_box (fin_box (fst (box_transform tr lo hi)) (snd (box_transform tr lo hi))) (tf_up tr p) = true.
Proof.
  intros Hin. apply in_fin_box in Hin. destruct Hin as (Hx & Hy & Hz).
  set (m := tf_rot tr).
  set (pts := map (rot_skip m) (box_corners lo hi)).
  assert (Hcorner : forall c, In c (box_corners lo hi) -> exists b, minmax_pts pts = Some b /\ bounds b (rot_skip m c)).
  { intros c Hc. apply minmax_pts_bounds. unfold pts. now apply in_map. }
  destruct (Hcorner _ (or_introl eq_refl)) as (b & Hb & _).
  assert (Hall : forall c, In c (box_corners lo hi) -> bounds b (rot_skip m c)).
  { intros c Hc. destruct (Hcorner c Hc) as (b' & Hb' & Hbd). congruence. }
  unfold box_transform. fold m. fold pts. rewrite Hb. destruct b as [l u]. cbn [fst snd].
  apply in_fin_box. rewrite tf_up_eq. fold m. unfold vadd; cbn [vx vy vz].
  destruct (corner_below (r0 m) lo hi p Hx Hy Hz) as (c1 & I1 & L1).
  destruct (corner_above (r0 m) lo hi p Hx Hy Hz) as (c2 & I2 & L2).
  destruct (corner_below (r1 m) lo hi p Hx Hy Hz) as (c3 & I3 & L3).
  destruct (corner_above (r1 m) lo hi p Hx Hy Hz) as (c4 & I4 & L4).
  destruct (corner_below (r2 m) lo hi p Hx Hy Hz) as (c5 & I5 & L5).
  destruct (corner_above (r2 m) lo hi p Hx Hy Hz) as (c6 & I6 & L6).
  pose proof (Hall c1 I1) as B1. pose proof (Hall c2 I2) as B2. pose proof (Hall c3 I3) as B3.
  pose proof (Hall c4 I4) as B4. pose proof (Hall c5 I5) as B5. pose proof (Hall c6 I6) as B6.
  rewrite rot_skip_eq in B1, B2, B3, B4, B5, B6. unfold bounds in *. cbn [fst snd vx vy vz] in *.
  numR. lra.
Qed.

Example box_transform_example :
  in_box (fin_box (V3 0 0 0) (V3 1 1 1)) (V3 (/2) (/2) (/2)) = true.
Proof. apply in_fin_box. cbn. lra. Qed.

Theorem bz_repaired_sound a b RA RB : zone_sound a RA -> zone_sound b RB ->
  zone_sound (bz_intersection_fix a b) (fun p => RA p /\ RB p) /\
  zone_sound (bz_union_fix a b) (fun p => RA p \/ RB p).
Proof. intros HA HB. split; [now apply bz_intersection_fix_sound|now apply bz_union_fix_sound]. Qed.
