
type nat =
| O
| S of nat

val fst : ('a1 * 'a2) -> 'a1

val snd : ('a1 * 'a2) -> 'a2

val length : 'a1 list -> nat

val add : nat -> nat -> nat

module Nat :
 sig
  val leb : nat -> nat -> bool

  val ltb : nat -> nat -> bool
 end

val map : ('a1 -> 'a2) -> 'a1 list -> 'a2 list

val repeat : 'a1 -> nat -> 'a1 list

type astate = { a_size : nat; a_store : nat list }

val a_cap : astate -> nat

type aop =
| Alloc of nat * nat
| Clear

type ares =
| Allocated of nat
| Failed
| Cleared
| AMisuse

val fill : nat -> nat -> nat -> nat list -> nat list

val alloc : astate -> nat -> astate * nat option

val astep_alloc : astate -> nat -> nat -> astate * ares

val astep : astate -> aop -> astate * ares

val ainit : nat -> astate

val arun : astate -> aop list -> (astate * ares) list

val enc_ares : ares -> nat

val run_alloc : nat -> aop list -> nat list list
