
type nat =
| O
| S of nat

val fst : ('a1 * 'a2) -> 'a1

val snd : ('a1 * 'a2) -> 'a2

val length : 'a1 list -> nat

val app : 'a1 list -> 'a1 list -> 'a1 list

val add : nat -> nat -> nat

val mul : nat -> nat -> nat

module Nat :
 sig
  val eqb : nat -> nat -> bool

  val leb : nat -> nat -> bool

  val ltb : nat -> nat -> bool

  val divmod : nat -> nat -> nat -> nat -> nat * nat

  val div : nat -> nat -> nat
 end

val map : ('a1 -> 'a2) -> 'a1 list -> 'a2 list

val repeat : 'a1 -> nat -> 'a1 list

type astate = { a_size : nat; a_store : nat list }

val a_cap : astate -> nat

type aop =
| Alloc of nat * nat
| Clear

type ares =
| Allocated of nat
| Failed
| Cleared
| AMisuse

val fill : nat -> nat -> nat -> nat list -> nat list

val alloc : astate -> nat -> astate * nat option

val astep_alloc : astate -> nat -> nat -> astate * ares

val astep : astate -> aop -> astate * ares

val ainit : nat -> astate

val arun : astate -> aop list -> (astate * ares) list

val enc_ares : ares -> nat

val run_alloc : nat -> aop list -> nat list list

val secondary_capacity : nat -> nat -> nat -> nat option

type skind =
| SInactive
| SActive
| SErrored

type sreq = { r_kind : skind; r_count : nat; r_tag : nat }

type span = (nat * nat) option

val pre_step_thread : nat -> skind -> astate -> span -> astate * span

val pre_step_all :
  nat -> astate -> skind list -> span list -> astate * span list

val interact_slot : astate -> span -> sreq -> (astate * span) * bool

val interact_all :
  astate -> span list -> sreq list -> (astate * span list) * bool list

val step_stack :
  astate -> span list -> sreq list -> (astate * span list) * bool list

val steps_stack :
  astate -> span list -> sreq list list -> ((astate * span list) * bool list)
  list

val enc_span : span -> nat list

val b2n : bool -> nat

val enc_slots : span list -> bool list -> nat list

val run_steps : nat -> nat -> nat -> sreq list list -> nat list list
