
type nat =
| O
| S of nat

(** val fst : ('a1 * 'a2) -> 'a1 **)

let fst = function
| (x, _) -> x

(** val snd : ('a1 * 'a2) -> 'a2 **)

let snd = function
| (_, y) -> y

(** val length : 'a1 list -> nat **)

let rec length = function
| [] -> O
| _ :: l' -> S (length l')

(** val app : 'a1 list -> 'a1 list -> 'a1 list **)

let rec app l m =
  match l with
  | [] -> m
  | a :: l1 -> a :: (app l1 m)

(** val add : nat -> nat -> nat **)

let rec add n m =
  match n with
  | O -> m
  | S p -> S (add p m)

(** val mul : nat -> nat -> nat **)

let rec mul n m =
  match n with
  | O -> O
  | S p -> add m (mul p m)

module Nat =
 struct
  (** val eqb : nat -> nat -> bool **)

  let rec eqb n m =
    match n with
    | O -> (match m with
            | O -> true
            | S _ -> false)
    | S n' -> (match m with
               | O -> false
               | S m' -> eqb n' m')

  (** val leb : nat -> nat -> bool **)

  let rec leb n m =
    match n with
    | O -> true
    | S n' -> (match m with
               | O -> false
               | S m' -> leb n' m')

  (** val ltb : nat -> nat -> bool **)

  let ltb n m =
    leb (S n) m

  (** val divmod : nat -> nat -> nat -> nat -> nat * nat **)

  let rec divmod x y q u =
    match x with
    | O -> (q, u)
    | S x' ->
      (match u with
       | O -> divmod x' y (S q) y
       | S u' -> divmod x' y q u')

  (** val div : nat -> nat -> nat **)

  let div x y = match y with
  | O -> y
  | S y' -> fst (divmod x y' O y')
 end

(** val map : ('a1 -> 'a2) -> 'a1 list -> 'a2 list **)

let rec map f = function
| [] -> []
| a :: t -> (f a) :: (map f t)

(** val repeat : 'a1 -> nat -> 'a1 list **)

let rec repeat x = function
| O -> []
| S k -> x :: (repeat x k)

type astate = { a_size : nat; a_store : nat list }

(** val a_cap : astate -> nat **)

let a_cap a =
  length a.a_store

type aop =
| Alloc of nat * nat
| Clear

type ares =
| Allocated of nat
| Failed
| Cleared
| AMisuse

(** val fill : nat -> nat -> nat -> nat list -> nat list **)

let rec fill start n v = function
| [] -> []
| x :: r ->
  (match start with
   | O -> (match n with
           | O -> x :: r
           | S k -> v :: (fill O k v r))
   | S s -> x :: (fill s n v r))

(** val alloc : astate -> nat -> astate * nat option **)

let alloc a n =
  let start = a.a_size in
  if Nat.ltb (a_cap a) (add start n)
  then ({ a_size = (if Nat.leb start (a_cap a) then start else add start n);
         a_store = a.a_store }, None)
  else ({ a_size = (add start n); a_store = (fill start n O a.a_store) },
         (Some start))

(** val astep_alloc : astate -> nat -> nat -> astate * ares **)

let astep_alloc a n tag =
  let (a', o) = alloc a n in
  (match o with
   | Some start ->
     ({ a_size = a'.a_size; a_store = (fill start n tag a'.a_store) },
       (Allocated start))
   | None -> (a', Failed))

(** val astep : astate -> aop -> astate * ares **)

let astep a = function
| Alloc (n, tag) ->
  (match n with
   | O -> (a, AMisuse)
   | S _ -> astep_alloc a n tag)
| Clear -> ({ a_size = O; a_store = a.a_store }, Cleared)

(** val ainit : nat -> astate **)

let ainit cap =
  { a_size = O; a_store = (repeat O cap) }

(** val arun : astate -> aop list -> (astate * ares) list **)

let rec arun a = function
| [] -> []
| o :: r -> let (a', res) = astep a o in (a', res) :: (arun a' r)

(** val enc_ares : ares -> nat **)

let enc_ares = function
| Allocated s -> S s
| Failed -> O
| Cleared ->
  S (S (S (S (S (S (S (S (S (S (S (S (S (S (S (S (S (S (S (S (S (S (S (S (S
    (S (S (S (S (S (S (S (S (S (S (S (S (S (S (S (S (S (S (S (S (S (S (S (S
    (S (S (S (S (S (S (S (S (S (S (S (S (S (S (S (S (S (S (S (S (S (S (S (S
    (S (S (S (S (S (S (S (S (S (S (S (S (S (S (S (S (S (S (S (S (S (S (S (S
    (S (S (S
    O)))))))))))))))))))))))))))))))))))))))))))))))))))))))))))))))))))))))))))))))))))))))))))))))))))
| AMisuse ->
  S (S (S (S (S (S (S (S (S (S (S (S (S (S (S (S (S (S (S (S (S (S (S (S (S
    (S (S (S (S (S (S (S (S (S (S (S (S (S (S (S (S (S (S (S (S (S (S (S (S
    (S (S (S (S (S (S (S (S (S (S (S (S (S (S (S (S (S (S (S (S (S (S (S (S
    (S (S (S (S (S (S (S (S (S (S (S (S (S (S (S (S (S (S (S (S (S (S (S (S
    (S (S (S (S (S (S (S (S (S (S (S (S (S (S (S (S (S (S (S (S (S (S (S (S
    (S (S (S (S (S (S (S (S (S (S (S (S (S (S (S (S (S (S (S (S (S (S (S (S
    (S (S (S (S (S (S (S (S (S (S (S (S (S (S (S (S (S (S (S (S (S (S (S (S
    (S (S (S (S (S (S (S (S (S (S (S (S (S (S (S (S (S (S (S (S (S (S (S (S
    (S (S (S (S (S (S (S
    O)))))))))))))))))))))))))))))))))))))))))))))))))))))))))))))))))))))))))))))))))))))))))))))))))))))))))))))))))))))))))))))))))))))))))))))))))))))))))))))))))))))))))))))))))))))))))))))))))))))))

(** val run_alloc : nat -> aop list -> nat list list **)

let run_alloc cap ops =
  map (fun ar ->
    (enc_ares (snd ar)) :: ((fst ar).a_size :: (fst ar).a_store))
    (arun (ainit cap) ops)

(** val secondary_capacity : nat -> nat -> nat -> nat option **)

let secondary_capacity slots p q =
  if Nat.eqb p O then None else Some (Nat.div (mul slots p) q)

type skind =
| SInactive
| SActive
| SErrored

type sreq = { r_kind : skind; r_count : nat; r_tag : nat }

type span = (nat * nat) option

(** val pre_step_thread : nat -> skind -> astate -> span -> astate * span **)

let pre_step_thread tid k a sp =
  let a' = if Nat.eqb tid O then { a_size = O; a_store = a.a_store } else a in
  (match k with
   | SInactive -> (a', sp)
   | _ -> (a', None))

(** val pre_step_all :
    nat -> astate -> skind list -> span list -> astate * span list **)

let rec pre_step_all tid a ks sps =
  match ks with
  | [] -> (a, [])
  | k :: kr ->
    (match sps with
     | [] -> (a, [])
     | sp :: sr ->
       let (a1, sp1) = pre_step_thread tid k a sp in
       let (a2, sr2) = pre_step_all (S tid) a1 kr sr in (a2, (sp1 :: sr2)))

(** val interact_slot : astate -> span -> sreq -> (astate * span) * bool **)

let interact_slot a sp r =
  match r.r_kind with
  | SActive ->
    (match r.r_count with
     | O -> ((a, sp), false)
     | S k ->
       let (a', a0) = astep_alloc a (S k) r.r_tag in
       (match a0 with
        | Allocated start -> ((a', (Some (start, (S k)))), false)
        | _ -> ((a', sp), true)))
  | _ -> ((a, sp), false)

(** val interact_all :
    astate -> span list -> sreq list -> (astate * span list) * bool list **)

let rec interact_all a sps rs =
  match sps with
  | [] -> ((a, []), [])
  | sp :: sr ->
    (match rs with
     | [] -> ((a, []), [])
     | r :: rr ->
       let (p, f1) = interact_slot a sp r in
       let (a1, sp1) = p in
       let (p0, fr2) = interact_all a1 sr rr in
       let (a2, sr2) = p0 in ((a2, (sp1 :: sr2)), (f1 :: fr2)))

(** val step_stack :
    astate -> span list -> sreq list -> (astate * span list) * bool list **)

let step_stack a sps rs =
  let (a1, sps1) = pre_step_all O a (map (fun s -> s.r_kind) rs) sps in
  interact_all a1 sps1 rs

(** val steps_stack :
    astate -> span list -> sreq list list -> ((astate * span list) * bool
    list) list **)

let rec steps_stack a sps = function
| [] -> []
| rs :: more ->
  let (p, fl) = step_stack a sps rs in
  let (a', sps') = p in ((a', sps'), fl) :: (steps_stack a' sps' more)

(** val enc_span : span -> nat list **)

let enc_span = function
| Some p -> let (o, c) = p in (S o) :: (c :: [])
| None -> O :: (O :: [])

(** val b2n : bool -> nat **)

let b2n = function
| true -> S O
| false -> O

(** val enc_slots : span list -> bool list -> nat list **)

let rec enc_slots sps fl =
  match sps with
  | [] -> []
  | sp :: sr ->
    (match fl with
     | [] -> []
     | f :: fr -> (b2n f) :: (app (enc_span sp) (enc_slots sr fr)))

(** val run_steps : nat -> nat -> nat -> sreq list list -> nat list list **)

let run_steps slots p q steps =
  match secondary_capacity slots p q with
  | Some cap ->
    map (fun r ->
      let (y, fl) = r in
      let (a, sps) = y in
      a.a_size :: ((a_cap a) :: (app (enc_slots sps fl) a.a_store)))
      (steps_stack (ainit cap) (repeat None slots) steps)
  | None -> (O :: []) :: []
