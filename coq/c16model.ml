
type nat =
| O
| S of nat

(** val fst : ('a1 * 'a2) -> 'a1 **)

let fst = function
| (x, _) -> x

(** val snd : ('a1 * 'a2) -> 'a2 **)

let snd = function
| (_, y) -> y

(** val length : 'a1 list -> nat **)

let rec length = function
| [] -> O
| _ :: l' -> S (length l')

(** val add : nat -> nat -> nat **)

let rec add n m =
  match n with
  | O -> m
  | S p -> S (add p m)

module Nat =
 struct
  (** val leb : nat -> nat -> bool **)

  let rec leb n m =
    match n with
    | O -> true
    | S n' -> (match m with
               | O -> false
               | S m' -> leb n' m')

  (** val ltb : nat -> nat -> bool **)

  let ltb n m =
    leb (S n) m
 end

(** val map : ('a1 -> 'a2) -> 'a1 list -> 'a2 list **)

let rec map f = function
| [] -> []
| a :: t -> (f a) :: (map f t)

(** val repeat : 'a1 -> nat -> 'a1 list **)

let rec repeat x = function
| O -> []
| S k -> x :: (repeat x k)

type astate = { a_size : nat; a_store : nat list }

(** val a_cap : astate -> nat **)

let a_cap a =
  length a.a_store

type aop =
| Alloc of nat * nat
| Clear

type ares =
| Allocated of nat
| Failed
| Cleared
| AMisuse

(** val fill : nat -> nat -> nat -> nat list -> nat list **)

let rec fill start n v = function
| [] -> []
| x :: r ->
  (match start with
   | O -> (match n with
           | O -> x :: r
           | S k -> v :: (fill O k v r))
   | S s -> x :: (fill s n v r))

(** val alloc : astate -> nat -> astate * nat option **)

let alloc a n =
  let start = a.a_size in
  if Nat.ltb (a_cap a) (add start n)
  then ({ a_size = (if Nat.leb start (a_cap a) then start else add start n);
         a_store = a.a_store }, None)
  else ({ a_size = (add start n); a_store = (fill start n O a.a_store) },
         (Some start))

(** val astep_alloc : astate -> nat -> nat -> astate * ares **)

let astep_alloc a n tag =
  let (a', o) = alloc a n in
  (match o with
   | Some start ->
     ({ a_size = a'.a_size; a_store = (fill start n tag a'.a_store) },
       (Allocated start))
   | None -> (a', Failed))

(** val astep : astate -> aop -> astate * ares **)

let astep a = function
| Alloc (n, tag) ->
  (match n with
   | O -> (a, AMisuse)
   | S _ -> astep_alloc a n tag)
| Clear -> ({ a_size = O; a_store = a.a_store }, Cleared)

(** val ainit : nat -> astate **)

let ainit cap =
  { a_size = O; a_store = (repeat O cap) }

(** val arun : astate -> aop list -> (astate * ares) list **)

let rec arun a = function
| [] -> []
| o :: r -> let (a', res) = astep a o in (a', res) :: (arun a' r)

(** val enc_ares : ares -> nat **)

let enc_ares = function
| Allocated s -> S s
| Failed -> O
| Cleared ->
  S (S (S (S (S (S (S (S (S (S (S (S (S (S (S (S (S (S (S (S (S (S (S (S (S
    (S (S (S (S (S (S (S (S (S (S (S (S (S (S (S (S (S (S (S (S (S (S (S (S
    (S (S (S (S (S (S (S (S (S (S (S (S (S (S (S (S (S (S (S (S (S (S (S (S
    (S (S (S (S (S (S (S (S (S (S (S (S (S (S (S (S (S (S (S (S (S (S (S (S
    (S (S (S
    O)))))))))))))))))))))))))))))))))))))))))))))))))))))))))))))))))))))))))))))))))))))))))))))))))))
| AMisuse ->
  S (S (S (S (S (S (S (S (S (S (S (S (S (S (S (S (S (S (S (S (S (S (S (S (S
    (S (S (S (S (S (S (S (S (S (S (S (S (S (S (S (S (S (S (S (S (S (S (S (S
    (S (S (S (S (S (S (S (S (S (S (S (S (S (S (S (S (S (S (S (S (S (S (S (S
    (S (S (S (S (S (S (S (S (S (S (S (S (S (S (S (S (S (S (S (S (S (S (S (S
    (S (S (S (S (S (S (S (S (S (S (S (S (S (S (S (S (S (S (S (S (S (S (S (S
    (S (S (S (S (S (S (S (S (S (S (S (S (S (S (S (S (S (S (S (S (S (S (S (S
    (S (S (S (S (S (S (S (S (S (S (S (S (S (S (S (S (S (S (S (S (S (S (S (S
    (S (S (S (S (S (S (S (S (S (S (S (S (S (S (S (S (S (S (S (S (S (S (S (S
    (S (S (S (S (S (S (S
    O)))))))))))))))))))))))))))))))))))))))))))))))))))))))))))))))))))))))))))))))))))))))))))))))))))))))))))))))))))))))))))))))))))))))))))))))))))))))))))))))))))))))))))))))))))))))))))))))))))))))

(** val run_alloc : nat -> aop list -> nat list list **)

let run_alloc cap ops =
  map (fun ar ->
    (enc_ares (snd ar)) :: ((fst ar).a_size :: (fst ar).a_store))
    (arun (ainit cap) ops)
