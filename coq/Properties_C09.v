(** * C09 property theorems — statements only; proofs live in C09/ShapesProofs.v
    and C09/PipelineProofs.v.  Instance R.  [surf_f] is C12's surface function
    (C12/SurfacesProofs.v); "not on any surface" is [on_any .. p = false]. *)
From Coq Require Import Reals ZArith List Bool String.
From Celer Require Import Base.Num Base.NumR Base.Vec3 C12.Surfaces C12.Transforms
  C09.Shapes C09.Pipeline C09.ShapesProofs C09.PipelineProofs
  C09.BZone C09.BZoneProofs C09.BZoneRepair C09.BZoneRepairProofs C09.Dedup C09.DedupProofs C09.GenPrismBranch.
Import ListNotations.
Local Open Scope R_scope.

(** ** each primitive: the signed surfaces of [build] <-> the documented point set *)
Theorem C09_box_surfaces_iff_inside : forall hx hy hz p,
  on_any (surfaces_of 0 (PBox hx hy hz)) p = false ->
  (all_hold (surfaces_of 0 (PBox hx hy hz)) p = true <-> inside_prim (PBox hx hy hz) p = true).
Proof. exact box_surfaces_iff_inside. Qed.
Print Assumptions C09_box_surfaces_iff_inside.

Theorem C09_sphere_surfaces_iff_inside : forall r p,
  on_any (surfaces_of 0 (PSphere r)) p = false ->
  (all_hold (surfaces_of 0 (PSphere r)) p = true <-> inside_prim (PSphere r) p = true).
Proof. exact sphere_surfaces_iff_inside. Qed.
Print Assumptions C09_sphere_surfaces_iff_inside.

Theorem C09_cylinder_surfaces_iff_inside : forall r hh p,
  on_any (surfaces_of 0 (PCyl r hh)) p = false ->
  (all_hold (surfaces_of 0 (PCyl r hh)) p = true <-> inside_prim (PCyl r hh) p = true).
Proof. exact cyl_surfaces_iff_inside. Qed.
Print Assumptions C09_cylinder_surfaces_iff_inside.

Theorem C09_ellipsoid_surfaces_iff_inside : forall rx ry rz p,
  0 < rx -> 0 < ry -> 0 < rz ->
  on_any (surfaces_of 0 (PEllipsoid rx ry rz)) p = false ->
  (all_hold (surfaces_of 0 (PEllipsoid rx ry rz)) p = true <-> inside_prim (PEllipsoid rx ry rz) p = true).
Proof. exact ellipsoid_surfaces_iff_inside. Qed.
Print Assumptions C09_ellipsoid_surfaces_iff_inside.

Theorem C09_cone_surfaces_iff_inside : forall tol lo hi hh p,
  0 < hh -> lo <> hi -> soft_equal tol lo hi = false ->
  on_any (surfaces_of tol (PCone lo hi hh)) p = false ->
  (all_hold (surfaces_of tol (PCone lo hi hh)) p = true <-> inside_prim (PCone lo hi hh) p = true).
Proof. exact cone_surfaces_iff_inside. Qed.
Print Assumptions C09_cone_surfaces_iff_inside.

Theorem C09_infwedge_surfaces_iff_inside : forall start interior p,
  0 < interior <= / 2 ->
  on_any (surfaces_of 0 (PWedge start interior)) p = false ->
  (all_hold (surfaces_of 0 (PWedge start interior)) p = true <-> inside_prim (PWedge start interior) p = true).
Proof. exact wedge_surfaces_iff_inside. Qed.
Print Assumptions C09_infwedge_surfaces_iff_inside.

Theorem C09_prism_surfaces_iff_inside : forall n a hh orient p, (0 < n)%nat ->
  on_any (surfaces_of 0 (PPrism n a hh orient)) p = false ->
  (all_hold (surfaces_of 0 (PPrism n a hh orient)) p = true <-> inside_prim (PPrism n a hh orient) p = true).
Proof. exact prism_surfaces_iff_inside. Qed.
Print Assumptions C09_prism_surfaces_iff_inside.

(** GenPrism, face by face (the assembly over the polygon is not proved: partial).
    Twisted face: for ANY four corner points the emitted general quadric is
    the interpolated polygon edge; planar face with parallel bottom/top edges. *)
Theorem C09_genprism_twisted_face_partial : forall hz (li lj hi_ hj : R * R) x y z, hz <> 0 ->
  let s := (z + hz) / (2 * hz) in
  let q := twisted_quadric hz (V3 (fst li) (snd li) (- hz)) (V3 (fst lj) (snd lj) (- hz))
                              (V3 (fst hj) (snd hj) hz) (V3 (fst hi_) (snd hi_) hz) in
  on_surface q (V3 x y z) = false ->
  (sense_holds BIn q (V3 x y z) = true <-> left_of (lerp_pt s li hi_) (lerp_pt s lj hj) x y = true).
Proof. exact genprism_twisted_face_iff. Qed.
Print Assumptions C09_genprism_twisted_face_partial.

Theorem C09_genprism_planar_face_partial : forall hz (li lj hi_ hj : R * R) lam x y z,
  0 < hz -> 0 < lam -> - hz < z < hz ->
  fst hj - fst hi_ = lam * (fst lj - fst li) -> snd hj - snd hi_ = lam * (snd lj - snd li) ->
  let s := (z + hz) / (2 * hz) in
  let ilo := V3 (fst li) (snd li) (- hz) in
  let jlo := V3 (fst lj) (snd lj) (- hz) in
  let ihi := V3 (fst hi_) (snd hi_) hz in
  let N := cross (vsub jlo ilo) (vsub ihi ilo) in
  0 < dot N N ->
  let pl := plane_pt (make_unit_vector N) ilo in
  on_surface pl (V3 x y z) = false ->
  (sense_holds BIn pl (V3 x y z) = true <-> left_of (lerp_pt s li hi_) (lerp_pt s lj hj) x y = true).
Proof. exact genprism_planar_face_iff. Qed.
Print Assumptions C09_genprism_planar_face_partial.

(** assembly of a non-degenerate GenPrism from faces that agree at p (twisted: always;
    planar: parallel edges); missing: the branch selection by soft_equal on the normals *)
Theorem C09_genprism_surfaces_iff_inside_partial : forall tol hz lo hi p,
  0 < hz -> List.length lo = List.length hi ->
  on_any [(BOut, planeZ (- hz)); (BIn, planeZ hz)] p = false ->
  Forall4 (face_agrees tol hz p) lo (rot1 lo) hi (rot1 hi) ->
  (all_hold (genprism_surfaces tol hz lo hi DegNone) p = true <-> inside_genprism hz lo hi p = true).
Proof. exact genprism_surfaces_iff_inside_partial. Qed.
Print Assumptions C09_genprism_surfaces_iff_inside_partial.

(** FINDING (known, F6): beyond a degenerate (collapsed-to-a-line) +z face with twisted
    sides, the surfaces build() emits ([f6_surfaces]: no +z plane) accept a point above the prism *)
Theorem C09_genprism_degenerate_twisted_refuted :
  exists p, on_any f6_surfaces p = false /\ all_hold f6_surfaces p = true /\ inside_genprism 1 f6_lo f6_hi p = false.
Proof. exact genprism_degenerate_twisted_refuted. Qed.
Print Assumptions C09_genprism_degenerate_twisted_refuted.

(** Parallelepiped AS BUILT agrees with the documented solid when alpha = 0
    (sines / cosines of theta, phi explicit; cos(theta) > 0 for theta in [0, 1/4) turn) *)
Theorem C09_parallelepiped_surfaces_iff_inside_alpha0 : forall hx hy hz sinth costh sinphi cosphi p,
  0 < hx -> 0 < hy -> 0 < hz -> 0 < costh ->
  on_any (ppiped_surfaces_sc hx hy hz 0 1 sinth costh sinphi cosphi) p = false ->
  (all_hold (ppiped_surfaces_sc hx hy hz 0 1 sinth costh sinphi cosphi) p = true
   <-> inside_ppiped_sc hx hy hz 0 1 sinth costh sinphi cosphi p = true).
Proof. exact ppiped_surfaces_iff_inside_alpha0. Qed.
Print Assumptions C09_parallelepiped_surfaces_iff_inside_alpha0.

(** FINDING (known): for alpha <> 0 build() does not produce the documented solid *)
Theorem C09_parallelepiped_alpha_refuted :
  exists hx hy hz alpha theta phi p,
    0 < hx /\ 0 < hy /\ 0 < hz /\ - / 4 < alpha < / 4 /\ 0 <= theta < / 4 /\ 0 <= phi < 1 /\
    on_any (surfaces_of 0 (PPpiped hx hy hz alpha theta phi)) p = false /\
    inside_prim (PPpiped hx hy hz alpha theta phi) p = true /\
    all_hold (surfaces_of 0 (PPpiped hx hy hz alpha theta phi)) p = false.
Proof. exact ppiped_alpha_refuted_turns. Qed.
Print Assumptions C09_parallelepiped_alpha_refuted.

(** ** bounding boxes declared by build() (bzone_sound: partial) *)
Theorem C09_bzone_sound_partial : forall hx hy hz r hh, 0 <= r ->
  (bbox_ext_sound (PBox hx hy hz) /\ bbox_int_sound (PBox hx hy hz)) /\
  bbox_ext_sound (PSphere r) /\
  (bbox_ext_sound (PCyl r hh) /\ bbox_int_sound (PCyl r hh)).
Proof.
  intros hx hy hz r hh Hr. split; [apply box_bbox_sound|]. split; [now apply sphere_bbox_ext_sound|].
  now apply cyl_bbox_sound.
Qed.
Print Assumptions C09_bzone_sound_partial.

(** FINDING (known): exterior box of the Parallelepiped does not contain the solid *)
Theorem C09_parallelepiped_bbox_refuted :
  exists hx hy hz alpha theta phi p e,
    0 < hx /\ 0 < hy /\ 0 < hz /\ - / 4 < alpha < / 4 /\ 0 <= theta < / 4 /\ 0 <= phi < 1 /\
    all_hold (surfaces_of 0 (PPpiped hx hy hz alpha theta phi)) p = true /\
    inside_prim (PPpiped hx hy hz alpha theta phi) p = true /\
    declared_bboxes (PPpiped hx hy hz alpha theta phi) = Some (None, Some e) /\
    in_bbox e p = false.
Proof. exact ppiped_bbox_ext_refuted. Qed.
Print Assumptions C09_parallelepiped_bbox_refuted.

(** FINDING: the interior box SurfaceClipper gives a sphere is not inside the sphere *)
Theorem C09_sphere_interior_bbox_refuted : exists r, 0 < r /\ ~ bbox_int_sound (PSphere r).
Proof. exact sphere_bbox_int_refuted. Qed.
Print Assumptions C09_sphere_interior_bbox_refuted.

Theorem C09_soft_dedup_within_tol_partial : forall ax d d' eps (p : vec3 R) sn,
  Rabs (d - d') <= eps -> eps < Rabs (vget ax p - d) ->
  sense_holds sn (SPlaneAligned ax d) p = sense_holds sn (SPlaneAligned ax d') p.
Proof. exact soft_dedup_plane_aligned_partial. Qed.
Print Assumptions C09_soft_dedup_within_tol_partial.

(** ** objects *)
Theorem C09_csg_semantics : forall tol (a b : obj R) l p,
  (inside tol (Neg a) p = true <-> ~ inside tol a p = true) /\
  (inside tol (All l) p = true <-> Forall (fun o => inside tol o p = true) l) /\
  (inside tol (Any l) p = true <-> Exists (fun o => inside tol o p = true) l) /\
  (inside tol (All [a; Neg b]) p = true <-> inside tol a p = true /\ ~ inside tol b p = true).
Proof. exact csg_semantics. Qed.
Print Assumptions C09_csg_semantics.

Theorem C09_solid_hollow : forall tol i e p,
  inside tol (Solid i (Some e) None) p = true <-> inside_prim i p = true /\ inside_prim e p = false.
Proof. exact solid_hollow. Qed.
Print Assumptions C09_solid_hollow.

Theorem C09_transformed_object : forall tol o tr,
  orth (tf_rot tr) ->
  (forall p, inside tol (Transformed o tr) p = inside tol o (tf_down tr p)) /\
  (forall q, inside tol (Transformed o tr) (tf_up tr q) = inside tol o q).
Proof. exact transformed_object. Qed.
Print Assumptions C09_transformed_object.

(** nested transforms compose outer-to-inner (VolumeBuilder::make_scoped_transform) *)
Theorem C09_transform_order : forall (a b : transformation R) p, orth (tf_rot a) ->
  tf_down (tf_compose a b) p = tf_down b (tf_down a p).
Proof. exact tf_down_compose. Qed.
Print Assumptions C09_transform_order.

(** azimuthal slices (SolidEnclosedAngle::make_wedge + the negation for interior > 1/2,
    start angle reduced modulo one turn) evaluate to the polar-angle definition *)
Theorem C09_enclosed_angle : forall tol tr s i p, 0 < i <= 1 ->
  forallb (fun c => csg_off c p) (build_enclosed tol tr (Some (s, i))) = true ->
  forallb (fun c => eval_csg c p) (build_enclosed tol tr (Some (s, i))) = in_angle s i (tf_down tr p).
Proof. exact enclosed_eval. Qed.
Print Assumptions C09_enclosed_angle.

(** poly-solids are covered by [good] as soon as their stacked primitives are good *)
Theorem C09_polysolid_segments : forall tol mk zs ro ri,
  (forall z0 z1 r0 r1, In (z0, z1, r0, r1) (segments zs ro) -> prim_good tol (mk r0 r1 ((z1 - z0) / 2))) ->
  (forall l z0 z1 q0 q1, ri = Some l -> In (z0, z1, q0, q1) (segments zs l) -> prim_good tol (mk q0 q1 ((z1 - z0) / 2))) ->
  Forall (seg_ok tol mk) (poly_pairs zs ro ri).
Proof. exact seg_ok_of_prims. Qed.
Print Assumptions C09_polysolid_segments.

(** ** the construction model evaluates to the definition *)
Theorem C09_build_eval_iff_inside : forall tol o, good tol o ->
  forall tr p, orth (tf_rot tr) -> csg_off (build tol tr o) p = true ->
  eval_csg (build tol tr o) p = inside tol o (tf_down tr p).
Proof. exact build_eval_iff_inside. Qed.
Print Assumptions C09_build_eval_iff_inside.

(** ** units *)
Theorem C09_material_minus_daughters : forall tol raw (ds : list (obj R)) p,
  inside tol (All (raw :: map (@Neg R) ds)) p = true <->
  inside tol raw p = true /\ Forall (fun d => inside tol d p = false) ds.
Proof. exact material_minus_daughters. Qed.
Print Assumptions C09_material_minus_daughters.

Theorem C09_unit_volume_iff : forall tol u p, unit_good tol u -> unit_off tol u p = true ->
  unit_claims_built tol u p = unit_claims tol u p.
Proof. exact unit_volume_iff. Qed.
Print Assumptions C09_unit_volume_iff.

(** ** bounding-zone propagation (BoundingZone.cc; model C09/BZone.v).
    [zone_sound z Rg]: not negated: interior box inside Rg inside exterior box;
    negated: interior box outside Rg, everything outside the exterior box in Rg. *)
Theorem C09_bzone_negate_sound : forall z Rg,
  zone_sound z Rg -> zone_sound (bz_negate z) (fun p => ~ Rg p).
Proof. exact bz_negate_sound. Qed.
Print Assumptions C09_bzone_negate_sound.

(** calc_intersection AS CODED: sound for equal negation flags, and for mixed flags whenever the
    shrink difference does not meet its defective branch ([mixed_guard]: the positive operand's
    interior does not enclose the negated operand's exterior) *)
Theorem C09_bzone_intersection_sound_partial : forall a b RA RB,
  mixed_guard a b -> zone_sound a RA -> zone_sound b RB ->
  zone_sound (bz_intersection a b) (fun p => RA p /\ RB p).
Proof. exact bz_intersection_sound_guarded. Qed.
Print Assumptions C09_bzone_intersection_sound_partial.

(** ... and its "known outside" half (what becomes the volume's bounding box) for EVERY combination *)
Theorem C09_bzone_intersection_outside_sound : forall a b RA RB,
  zone_sound a RA -> zone_sound b RB -> outside_sound (bz_intersection a b) (fun p => RA p /\ RB p).
Proof. exact bz_intersection_outside_sound. Qed.
Print Assumptions C09_bzone_intersection_outside_sound.

(** calc_union AS CODED: sound for equal negation flags *)
Theorem C09_bzone_union_sound_partial : forall a b RA RB, zneg a = zneg b ->
  zone_sound a RA -> zone_sound b RB -> zone_sound (bz_union a b) (fun p => RA p \/ RB p).
Proof. exact bz_union_sound_same. Qed.
Print Assumptions C09_bzone_union_sound_partial.

(** FINDING (known, F5): box(9) & ~box(1): the interior of the result is box(1), which is outside the region *)
Theorem C09_bzone_difference_refuted :
  exists a b RA RB p, zone_sound a RA /\ zone_sound b RB /\ zneg (bz_intersection a b) = false /\
    in_box (zint (bz_intersection a b)) p = true /\ ~ (RA p /\ RB p).
Proof. exact bz_difference_refuted. Qed.
Print Assumptions C09_bzone_difference_refuted.

(** FINDING (known, F5, second half): box(1) | ~box(9): operands of the mixed union branch are swapped
    (no shrink difference involved): the point (5,5,5) is declared inside although it is in neither region *)
Theorem C09_bzone_union_refuted :
  exists a b RA RB p, zone_sound a RA /\ zone_sound b RB /\ zneg (bz_union a b) = true /\
    calc_difference (zint a) (zext b) false = calc_difference_fix (zint a) (zext b) false /\
    in_box (zext (bz_union a b)) p = false /\ ~ (RA p \/ RB p).
Proof. exact bz_union_refuted. Qed.
Print Assumptions C09_bzone_union_refuted.

(** the REPAIRED algebra (null interior when a encloses b; union operands per the code's own table)
    is sound for every combination of negation flags *)
Theorem C09_bzone_repaired_sound : forall a b RA RB, zone_sound a RA -> zone_sound b RB ->
  zone_sound (bz_intersection_fix a b) (fun p => RA p /\ RB p) /\
  zone_sound (bz_union_fix a b) (fun p => RA p \/ RB p).
Proof. exact bz_repaired_sound. Qed.
Print Assumptions C09_bzone_repaired_sound.

(** BoundingBoxUtils calc_transform: the box of a transformed (finite) box encloses the image of
    every point of the box, for ANY matrix and translation *)
Theorem C09_bbox_transform_encloses : forall (tr : transformation R) lo hi p,
  in_box (fin_box lo hi) p = true ->
  in_box (fin_box (fst (box_transform tr lo hi)) (snd (box_transform tr lo hi))) (tf_up tr p) = true.
Proof. exact box_transform_encloses. Qed.
Print Assumptions C09_bbox_transform_encloses.

(** ** soft de-duplication (SoftSurfaceEqual.cc, LocalSurfaceInserter.cc, SurfaceGridHash.cc; model C09/Dedup.v) *)
(** two surfaces that SoftSurfaceEqual (as coded) calls equal give every point that is [clear_at] of
    both (farther than the tolerance-scaled bound from the surface) the same sense: aligned and general
    planes, centred / general spheres, centred / aligned cylinders *)
Theorem C09_soft_equal_pair_same_sense : forall tl (a b : surface R) p, vtol tl ->
  sse_t tl a b = true -> clear_at tl a p -> clear_at tl b p ->
  forall sn, sense_holds sn a p = sense_holds sn b p.
Proof. exact soft_equal_pair_same_sense. Qed.
Print Assumptions C09_soft_equal_pair_same_sense.

(** chained de-duplication: for ANY sequence of insertions and any returned ids the inserter may produce
    (whatever near match the hash-table iteration meets first), a point clear of every inserted surface
    has the same sense w.r.t. the returned surface as w.r.t. the inserted one *)
Theorem C09_soft_dedup_chain_sound : forall tl l st' p, vtol tl ->
  lsi_replay tl lsi_empty l = Some st' ->
  (forall t, In t (map fst l) -> clear_at tl t p) ->
  forall s r, In (s, r) l ->
    exists u, nth_error (ls_surfs st') r = Some u /\ forall sn, sense_holds sn s p = sense_holds sn u p.
Proof. exact lsi_dedup_sound. Qed.
Print Assumptions C09_soft_dedup_chain_sound.

(** ... but the returned surface may be farther than the tolerance from the inserted one (drift) *)
Theorem C09_soft_dedup_drift_refuted :
  exists tl s0 s1 s2 p st, vtol tl /\
    lsi_run_first tl lsi_empty [s0; s1; s2] = ([0; 0; 0]%nat, st) /\
    nth_error (ls_surfs st) 0 = Some s0 /\
    sse_t tl s2 s0 = false /\ clear_at tl s2 p /\
    sense_holds BIn s2 p = true /\ sense_holds BIn s0 p = false.
Proof. exact lsi_drift_refuted. Qed.
Print Assumptions C09_soft_dedup_drift_refuted.

(** grid hash: hash points within eps share a key, so every stored surface of the same class whose hash
    point is within eps of the query's is among the candidates *)
Theorem C09_gridhash_keys_meet : forall gw eps h1 h2, 0 < gw -> 0 <= eps -> 2 * eps < gw ->
  Rabs (h1 - h2) <= eps -> keys_meet (grid_keys gw eps (Some h1)) (grid_keys gw eps (Some h2)) = true.
Proof. exact grid_keys_meet. Qed.
Print Assumptions C09_gridhash_keys_meet.

Theorem C09_gridhash_candidates_complete : forall (tl : tolerance R) (st : lsi_state R) s i t h1 h2,
  0 < lsi_gw tl -> 0 <= lsi_eps tl -> 2 * lsi_eps tl < lsi_gw tl ->
  nth_error (ls_surfs st) i = Some t -> same_kind s t = true ->
  hash_point s = Some h1 -> hash_point t = Some h2 -> Rabs (h1 - h2) <= lsi_eps tl ->
  In (i, t) (lsi_candidates tl st s).
Proof. exact lsi_candidates_complete. Qed.
Print Assumptions C09_gridhash_candidates_complete.

(** ... but soft-equal surfaces can have hash points farther apart than eps = 2 rel (|position| > 2 length
    scales): they fall into different bins and the duplicate is missed (both surfaces are kept) *)
Theorem C09_gridhash_complete_refuted :
  exists tl s t, vtol tl /\ 0 < lsi_gw tl /\ 2 * lsi_eps tl < lsi_gw tl /\
    sse_t tl s t = true /\ same_kind s t = true /\
    keys_meet (surf_keys tl s) (surf_keys tl t) = false /\
    lsi_run_first tl lsi_empty [t; s] = ([0; 1]%nat, LSI [t; s] []).
Proof. exact grid_hash_complete_refuted. Qed.
Print Assumptions C09_gridhash_complete_refuted.

(** GenPrism branch choice: a non-degenerate GenPrism every lateral face of which FAILS build()'s
    planarity test [soft_equal(dot(lo_normal, hi_normal), 1)] (so that the twisted quadric is emitted)
    is built exactly.  What remains partial: faces that pass the test (planar within tol): exact only for
    parallel edges ([C09_genprism_planar_face_partial]), else approximated by the plane through three corners *)
Theorem C09_genprism_twisted_branch_iff_inside : forall tol hz lo hi p,
  0 < hz -> List.length lo = List.length hi ->
  on_any [(BOut, planeZ (- hz)); (BIn, planeZ hz)] p = false ->
  Forall4 (face_twisted tol hz p) lo (rot1 lo) hi (rot1 hi) ->
  (all_hold (genprism_surfaces tol hz lo hi DegNone) p = true <-> inside_genprism hz lo hi p = true).
Proof. exact genprism_twisted_iff_inside. Qed.
Print Assumptions C09_genprism_twisted_branch_iff_inside.

(** ... and more generally every non-degenerate GenPrism each lateral face of which is EXACT: it fails the
    planarity test (twisted quadric) or has exactly parallel bottom / top edges (then dot(lo_normal, hi_normal) = 1,
    the test passes for any tol > 0 and the plane is the documented face) *)
Theorem C09_genprism_exact_faces_iff_inside : forall tol hz lo hi p,
  0 < tol -> 0 < hz -> List.length lo = List.length hi ->
  on_any [(BOut, planeZ (- hz)); (BIn, planeZ hz)] p = false ->
  Forall4 (face_exact tol hz p) lo (rot1 lo) hi (rot1 hi) ->
  (all_hold (genprism_surfaces tol hz lo hi DegNone) p = true <-> inside_genprism hz lo hi p = true).
Proof. exact genprism_exact_iff_inside. Qed.
Print Assumptions C09_genprism_exact_faces_iff_inside.

(** ** BoundingZone.cc before / after the repair of calc_difference (proposed fix of F5, first half).
    The check selects the model by reading the source: [bz_intersection] / [bz_union] while the defect is
    present, [bz_intersection_fix] / [bz_union_dfix] once calc_difference returns a null interior. *)
Theorem C09_bzone_difference_before_repair_refuted :
  exists a b RA RB p, zone_sound a RA /\ zone_sound b RB /\ zneg (bz_intersection a b) = false /\
    in_box (zint (bz_intersection a b)) p = true /\ ~ (RA p /\ RB p).
Proof. exact bz_difference_refuted. Qed.
Print Assumptions C09_bzone_difference_before_repair_refuted.

(** after the repair: calc_intersection is sound for EVERY combination of negation flags *)
Theorem C09_bzone_intersection_repaired_sound : forall a b RA RB,
  zone_sound a RA -> zone_sound b RB -> zone_sound (bz_intersection_fix a b) (fun p => RA p /\ RB p).
Proof. exact bz_intersection_repaired_sound. Qed.
Print Assumptions C09_bzone_intersection_repaired_sound.

(** calc_union with the repaired difference but the code's operand order: sound for equal flags, still
    refuted for mixed flags (the swap is pinned by BoundingZoneTest.calc_union and is NOT part of the fix) *)
Theorem C09_bzone_union_after_difference_repair_sound_partial : forall a b RA RB, zneg a = zneg b ->
  zone_sound a RA -> zone_sound b RB -> zone_sound (bz_union_dfix a b) (fun p => RA p \/ RB p).
Proof. exact bz_union_dfix_sound_same. Qed.
Print Assumptions C09_bzone_union_after_difference_repair_sound_partial.

Theorem C09_bzone_union_after_difference_repair_refuted :
  exists a b RA RB p, zone_sound a RA /\ zone_sound b RB /\ zneg (bz_union_dfix a b) = true /\
    in_box (zext (bz_union_dfix a b)) p = false /\ ~ (RA p \/ RB p).
Proof. exact bz_union_dfix_refuted. Qed.
Print Assumptions C09_bzone_union_after_difference_repair_refuted.
