(** * C19 — model of the ORANGE geometry-input JSON codec.

    Executable definitions only.  Each [enc_*]/[dec_*] pair mirrors one
    [to_json]/[from_json] pair of
      src/orange/OrangeInputIO.json.cc          (volume, unit, rect array, tolerance, input)
      src/orange/detail/OrangeInputIOImpl.json.cc (transforms, zipped surfaces, logic strings)
      src/geocel/BoundingBoxIO.json.cc          (bounding boxes, +-inf <-> +-DBL_MAX)
      src/corecel/io/LabelIO.json.hh, Label.cc  (labels, name@ext)
      src/corecel/cont/ArrayIO.json.hh          (fixed-size arrays)
    field by field and key by key.  [None] from a decoder = the C++ throws
    (CELER_VALIDATE / nlohmann exception) or runs into a compiled-out
    CELER_ASSERT (undefined behaviour in this build: the model refuses).
    The literal keys are also extracted from the source by
    translators/json_keys.py into Generated/C19_keys.v and compared with
    [model_keys] below (Properties_C19.v). *)
From Coq Require Import ZArith List String Ascii Bool.
From Celer Require Import C19.Json.
Import ListNotations.
Local Open Scope string_scope.
Local Open Scope list_scope.
Local Open Scope Z_scope.

(* ------------------------------------------------------------------ *)
(** ** Labels: [to_string(Label)] and [Label::from_separator] *)
Record label := mkLabel { l_name : string; l_ext : string }.
Definition empty_label := mkLabel "" "".
Definition AT : ascii := "@"%char.

Definition label_to_string (l : label) : string :=
  if String.eqb (l_ext l) "" then l_name l else (l_name l ++ String AT (l_ext l))%string.

(** split at the LAST '@' ([std::string::rfind]) *)
Fixpoint rsplit_at (s : string) : option (string * string) :=
  match s with
  | EmptyString => None
  | String c r =>
      match rsplit_at r with
      | Some (a, b) => Some (String c a, b)
      | None => if Ascii.eqb c AT then Some ("", r) else None
      end
  end.

Definition label_from_separator (s : string) : label :=
  match rsplit_at s with
  | Some (a, b) => mkLabel a b
  | None => mkLabel s ""
  end.

Definition enc_label (l : label) : json := JStr (label_to_string l).
Definition dec_label (j : json) : option label :=
  s <- dec_str j ;; Some (label_from_separator s).

Fixpoint has_at (s : string) : bool :=
  match s with
  | EmptyString => false
  | String c r => Ascii.eqb c AT || has_at r
  end.

(** A label survives iff the extension has no '@' and, when the extension is
    empty, the name has none either. *)
Definition wfb_label (l : label) : bool :=
  negb (has_at (l_ext l)) && (negb (String.eqb (l_ext l) "") || negb (has_at (l_name l))).

(* ------------------------------------------------------------------ *)
(** ** Real3 and bounding boxes *)
Definition vec3 := (flt * flt * flt)%type.
Definition vmap (f : flt -> flt) (v : vec3) : vec3 :=
  let '(a, b, c) := v in (f a, f b, f c).
Definition vall (f : flt -> bool) (v : vec3) : bool :=
  let '(a, b, c) := v in f a && f b && f c.
Definition enc_vec3 (v : vec3) : json :=
  let '(a, b, c) := v in JArr [JFlt a; JFlt b; JFlt c].
Definition dec_vec3 (j : json) : option vec3 :=
  match j with
  | JArr [a; b; c] => x <- dec_real a ;; y <- dec_real b ;; z <- dec_real c ;; Some (x, y, z)
  | _ => None
  end.

Record bbox := mkBBox { b_lo : vec3; b_hi : vec3 }.
Definition null_bbox := mkBBox (F_INF, F_INF, F_INF) (F_NINF, F_NINF, F_NINF).  (* BBox{} *)
Definition inf_bbox := mkBBox (F_NINF, F_NINF, F_NINF) (F_INF, F_INF, F_INF).   (* from_infinite *)

(** [BoundingBox::operator bool]: lower <= upper on every axis *)
Definition bbox_nonnull (b : bbox) : bool :=
  let '(a, c, e) := b_lo b in let '(a', c', e') := b_hi b in
  fleb a a' && fleb c c' && fleb e e'.
(** C++ [operator==] on bounding boxes (IEEE ==, not bitwise) *)
Definition v3_eqb (u v : vec3) : bool :=
  let '(a, b, c) := u in let '(a', b', c') := v in feqb a a' && feqb b b' && feqb c c'.
Definition bbox_eqb (a b : bbox) : bool := v3_eqb (b_lo a) (b_lo b) && v3_eqb (b_hi a) (b_hi b).

Definition inf_to_max (x : flt) : flt := if is_inf x then copysign F_MAX x else x.
Definition max_to_inf (x : flt) : flt := if is_max x then copysign F_INF x else x.

Definition enc_bbox (b : bbox) : json :=
  if bbox_nonnull b
  then JArr [enc_vec3 (vmap inf_to_max (b_lo b)); enc_vec3 (vmap inf_to_max (b_hi b))]
  else JNull.

Definition dec_bbox (j : json) : option bbox :=
  match j with
  | JNull => Some null_bbox
  | JArr [lo; hi] =>
      l <- dec_vec3 lo ;; h <- dec_vec3 hi ;;
      Some (mkBBox (vmap max_to_inf l) (vmap max_to_inf h))
  | _ => None
  end.

(** [get_bbox]: key "bbox" or infinite *)
Definition get_bbox (j : json) : option bbox :=
  match jget "bbox" j with Some b => dec_bbox b | None => Some inf_bbox end.

Definition coord_ok (x : flt) : bool := valid_fltb x && negb (is_nan x) && negb (is_max x).
(** a bounding box survives iff no coordinate is NaN or +-DBL_MAX and it is
    either non-null or *the* canonical null box *)
Definition bbox_bits_eqb (a b : bbox) : bool :=
  let '(a1, a2, a3) := b_lo a in let '(a4, a5, a6) := b_hi a in
  let '(b1, b2, b3) := b_lo b in let '(b4, b5, b6) := b_hi b in
  (a1 =? b1) && (a2 =? b2) && (a3 =? b3) && (a4 =? b4) && (a5 =? b5) && (a6 =? b6).
Definition wfb_bbox (b : bbox) : bool :=
  vall coord_ok (b_lo b) && vall coord_ok (b_hi b)
  && (bbox_nonnull b || bbox_bits_eqb b null_bbox).

(* ------------------------------------------------------------------ *)
(** ** Z order *)
Inductive zorder := ZInvalid | ZBackground | ZMedia | ZArray | ZHole | ZImplExt | ZExterior.
Definition zorder_char (z : zorder) : ascii :=
  match z with
  | ZInvalid => "!" | ZBackground => "B" | ZMedia => "M" | ZArray => "A"
  | ZHole => "H" | ZImplExt => "x" | ZExterior => "X"
  end%char.
Definition zorder_eqb (a b : zorder) : bool :=
  Ascii.eqb (zorder_char a) (zorder_char b).
Definition to_zorder (c : ascii) : zorder :=
  if Ascii.eqb c "!" then ZInvalid else if Ascii.eqb c "B" then ZBackground
  else if Ascii.eqb c "M" then ZMedia else if Ascii.eqb c "A" then ZArray
  else if Ascii.eqb c "H" then ZHole else if Ascii.eqb c "x" then ZImplExt
  else if Ascii.eqb c "X" then ZExterior else ZInvalid.
Definition dec_zorder (j : json) : option zorder :=
  match j with
  | JStr (String c EmptyString) => Some (to_zorder c)
  | JStr _ => None                       (* CELER_VALIDATE(s.size() == 1) *)
  | JInt z =>                            (* backward compatibility: integer *)
      if z =? 1 then Some ZBackground else if z =? 2 then Some ZMedia
      else if z =? 3 then Some ZArray else if z =? 4 then Some ZHole
      else if (z =? 65534) || (z =? 18446744073709551614) then Some ZImplExt
      else if (z =? 65533) || (z =? 18446744073709551615) then Some ZExterior
      else None
  | _ => None
  end.

(* ------------------------------------------------------------------ *)
(** ** Logic vectors <-> token strings *)
(** In this (host-only) build [size_type = std::size_t]: logic_int and all
    ids are 64-bit unsigned (corecel/Types.hh); checked against the harness. *)
Definition UINT : Z := 18446744073709551616.
Definition LBEGIN : Z := UINT - 7.           (* logic_int(~logic_int(6)) *)
Definition LOPEN := LBEGIN.
Definition LCLOSE := LBEGIN + 1.
Definition LTRUE := LBEGIN + 2.
Definition LOR := LBEGIN + 3.
Definition LAND := LBEGIN + 4.
Definition LNOT := LBEGIN + 5.
Definition LEND := LBEGIN + 6.

(** [to_char(OperatorToken)]: "()*|&~"[tok - lbegin]; index 6 (lend, which
    also satisfies is_operator_token) is the string's terminating NUL. *)
Definition tok_char (t : Z) : ascii :=
  let i := t - LBEGIN in
  if i =? 0 then "("%char else if i =? 1 then ")"%char else if i =? 2 then "*"%char
  else if i =? 3 then "|"%char else if i =? 4 then "&"%char else if i =? 5 then "~"%char
  else "000"%char.

Definition digit_char (d : Z) : ascii := ascii_of_nat (48 + Z.to_nat d).
Fixpoint dec_digits (fuel : nat) (n : Z) : string :=
  match fuel with
  | O => ""
  | S f => if n <? 10 then String (digit_char n) ""
           else (dec_digits f (n / 10) ++ String (digit_char (n mod 10)) "")%string
  end.
(** [os << val] for a 64-bit unsigned (at most 20 digits) *)
Definition Z_to_string (n : Z) : string := dec_digits 20 n.

Definition tok_string (t : Z) : string :=
  if LBEGIN <=? t then String (tok_char t) "" else Z_to_string t.

Fixpoint join_sp (l : list string) : string :=
  match l with
  | [] => ""
  | a :: r => match r with [] => a | _ => (a ++ String " " (join_sp r))%string end
  end.
Definition logic_to_string (l : list Z) : string := join_sp (map tok_string l).

Definition is_digit (c : ascii) : bool :=
  let n := Z.of_nat (nat_of_ascii c) in (48 <=? n) && (n <=? 57).
Definition digit_val (c : ascii) : Z := Z.of_nat (nat_of_ascii c) - 48.
Definition tok_of_char (c : ascii) : option Z :=
  if Ascii.eqb c "*" then Some LTRUE else if Ascii.eqb c "|" then Some LOR
  else if Ascii.eqb c "&" then Some LAND else if Ascii.eqb c "~" then Some LNOT
  else None.

(** the character loop of [string_to_logic]; state = (result, surf_id, reading_surf) *)
Fixpoint s2l (s : string) (res : list Z) (surf : Z) (reading : bool) : option (list Z) :=
  match s with
  | EmptyString => Some (if reading then res ++ [surf] else res)
  | String v r =>
      if is_digit v
      then s2l r res ((10 * (if reading then surf else 0) + digit_val v) mod UINT) true
      else
        let res' := if reading then res ++ [surf] else res in
        match tok_of_char v with
        | Some t => s2l r (res' ++ [t]) surf false
        | None => if Ascii.eqb v " " then s2l r res' surf false else None
        end
  end.
Definition string_to_logic (s : string) : option (list Z) := s2l s [] 0 false.

(** a token survives iff it is a face id below lbegin or one of * | & ~
    (parentheses and lend are written but not read back) *)
Definition wfb_token (t : Z) : bool :=
  ((0 <=? t) && (t <? LBEGIN)) || (t =? LTRUE) || (t =? LOR) || (t =? LAND) || (t =? LNOT).

(* ------------------------------------------------------------------ *)
(** ** Volumes *)
Record obz := mkObz { obz_inner : bbox; obz_outer : bbox; obz_tid : Z }.

Record volume := mkVolume {
  v_label : label;
  v_faces : list Z;
  v_logic : list Z;
  v_bbox : bbox;
  v_obz : option obz;        (* None = default-constructed OrientedBoundingZoneInput *)
  v_flags : Z;
  v_zorder : zorder }.

Definition opt_entry (c : bool) (k : string) (v : json) : list (string * json) :=
  if c then [(k, v)] else [].

Definition enc_volume (v : volume) : json :=
  JObj ([("faces", JArr (map JInt (v_faces v)))]
        ++ opt_entry (negb (match v_logic v with [] => true | _ => false end))
             "logic" (JStr (logic_to_string (v_logic v)))
        ++ opt_entry (negb (bbox_eqb (v_bbox v) inf_bbox)) "bbox" (enc_bbox (v_bbox v))
        ++ opt_entry (negb (v_flags v =? 0)) "flags" (JInt (v_flags v))
        ++ opt_entry (negb (zorder_eqb (v_zorder v) ZMedia))
             "zorder" (JStr (String (zorder_char (v_zorder v)) ""))).

Definition dec_volume (j : json) : option volume :=
  fj <- jget "faces" j ;; faces <- dec_arr dec_int fj ;;
  flags <- match jget "flags" j with Some f => dec_int f | None => Some 0 end ;;
  zo <- match jget "zorder" j with Some z => dec_zorder z | None => Some ZMedia end ;;
  if zorder_eqb zo ZBackground
  then Some (mkVolume empty_label faces [LTRUE; LNOT] null_bbox None flags zo)
  else
    lj <- jget "logic" j ;; ls <- dec_str lj ;; logic <- string_to_logic ls ;;
    bb <- get_bbox j ;;
    Some (mkVolume empty_label faces logic bb None flags zo).

(** what [to_json]/[from_json] of a VolumeInput preserve: everything except
    the label (carried by the unit's "volume_labels") and the OBZ (dropped) *)
Definition strip_volume (v : volume) : volume :=
  mkVolume empty_label (v_faces v) (v_logic v) (v_bbox v) None (v_flags v) (v_zorder v).

Definition is_nil {A} (l : list A) : bool := match l with [] => true | _ => false end.
Definition list_eqb (a b : list Z) : bool :=
  (Z.of_nat (List.length a) =? Z.of_nat (List.length b)) && forallb (fun p => fst p =? snd p) (combine a b).

Definition wfb_volume (v : volume) : bool :=
  forallb wfb_token (v_logic v)
  && negb (is_nil (v_logic v))                     (* "logic" is required on read unless background *)
  && wfb_bbox (v_bbox v)
  && match v_obz v with None => true | Some _ => false end     (* OBZ is not serialised *)
  && wfb_label (v_label v)
  && (negb (zorder_eqb (v_zorder v) ZBackground)
      || (list_eqb (v_logic v) [LTRUE; LNOT] && bbox_bits_eqb (v_bbox v) null_bbox)).

(* ------------------------------------------------------------------ *)
(** ** Surfaces (zipped types / sizes / data) *)
Inductive surf_type :=
| Spx | Spy | Spz | Scxc | Scyc | Sczc | Ssc | Scx | Scy | Scz | Sp | Ss
| Skx | Sky | Skz | Ssq | Sgq | Sinv.
Definition all_surf_types :=
  [Spx; Spy; Spz; Scxc; Scyc; Sczc; Ssc; Scx; Scy; Scz; Sp; Ss; Skx; Sky; Skz; Ssq; Sgq; Sinv].
Definition surf_name (t : surf_type) : string :=
  match t with
  | Spx => "px" | Spy => "py" | Spz => "pz" | Scxc => "cxc" | Scyc => "cyc" | Sczc => "czc"
  | Ssc => "sc" | Scx => "cx" | Scy => "cy" | Scz => "cz" | Sp => "p" | Ss => "s"
  | Skx => "kx" | Sky => "ky" | Skz => "kz" | Ssq => "sq" | Sgq => "gq" | Sinv => "inv"
  end.
(** [Surface::StorageSpan::extent] *)
Definition surf_arity (t : surf_type) : nat :=
  match t with
  | Spx | Spy | Spz | Scxc | Scyc | Sczc | Ssc => 1
  | Scx | Scy | Scz => 3
  | Sp | Ss | Skx | Sky | Skz => 4
  | Ssq => 7 | Sgq => 10 | Sinv => 6
  end%nat.
Fixpoint find_surf (s : string) (l : list surf_type) : option surf_type :=
  match l with
  | [] => None
  | t :: r => if String.eqb s (surf_name t) then Some t else find_surf s r
  end.
Definition to_surface_type (s : string) : option surf_type := find_surf s all_surf_types.

(** [visit_surface_type] (SurfaceTypeTraits.hh), used by the reader's
    SurfaceEmplacer, has a case for every type except [inv], which falls into
    CELER_ASSERT_UNREACHABLE (undefined behaviour in this build: refuse).
    The list of cases is re-extracted from the source on every run. *)
Definition visit_supported (t : surf_type) : bool :=
  match t with Sinv => false | _ => true end.

Fixpoint opt_map {A B} (f : A -> option B) (l : list A) : option (list B) :=
  match l with
  | [] => Some []
  | a :: r => x <- f a ;; t <- opt_map f r ;; Some (x :: t)
  end.

Record surface := mkSurf { s_type : surf_type; s_data : list flt }.

Definition enc_surfaces (ss : list surface) : json :=
  JObj [("types", JArr (map (fun s => JStr (surf_name (s_type s))) ss));
        ("data", JArr (map JFlt (List.concat (map s_data ss))));
        ("sizes", JArr (map (fun s => JInt (Z.of_nat (List.length (s_data s)))) ss))].

(** the loop of [import_zipped_surfaces]; a size different from the type's
    static extent, a missing size, or too little data is a compiled-out
    assertion in the C++ (model: refuse) *)
Fixpoint unzip_surfaces (types : list surf_type) (sizes : list Z) (data : list flt)
  : option (list surface) :=
  match types with
  | [] => Some []
  | t :: tr =>
      match sizes with
      | [] => None
      | n :: sr =>
          if negb (visit_supported t) then None
          else if negb (n =? Z.of_nat (surf_arity t)) then None
          else if (List.length data <? surf_arity t)%nat then None
          else
            rest <- unzip_surfaces tr sr (skipn (surf_arity t) data) ;;
            Some (mkSurf t (firstn (surf_arity t) data) :: rest)
      end
  end.

Definition dec_surfaces (j : json) : option (list surface) :=
  tj <- jget "types" j ;; names <- dec_arr dec_str tj ;;
  dj <- jget "data" j ;; data <- dec_arr dec_real dj ;;
  sj <- jget "sizes" j ;; sizes <- dec_arr dec_int sj ;;
  types <- opt_map to_surface_type names ;;
  unzip_surfaces types sizes data.

Definition wfb_surface (s : surface) : bool :=
  visit_supported (s_type s)
  && (List.length (s_data s) =? surf_arity (s_type s))%nat && forallb is_finite (s_data s).

(* ------------------------------------------------------------------ *)
(** ** Transforms: data arrays of size 0 / 3 / 12 *)
Inductive transform :=
| NoTrans
| Transl (t : vec3)
| Transf (r0 r1 r2 t : vec3).     (* row-major rotation rows, then translation *)

Definition v3list (v : vec3) : list flt := let '(a, b, c) := v in [a; b; c].
Definition transform_data (t : transform) : list flt :=
  match t with
  | NoTrans => []
  | Transl t => v3list t
  | Transf r0 r1 r2 t => v3list r0 ++ v3list r1 ++ v3list r2 ++ v3list t
  end.
Definition enc_transform (t : transform) : json := JArr (map JFlt (transform_data t)).
Definition transform_of_data (d : list flt) : option transform :=
  match d with
  | [] => Some NoTrans
  | [a; b; c] => Some (Transl (a, b, c))
  | [a; b; c; d; e; f; g; h; i; x; y; z] => Some (Transf (a, b, c) (d, e, f) (g, h, i) (x, y, z))
  | _ => None
  end.
Definition dec_transform (j : json) : option transform :=
  d <- dec_arr dec_real j ;; transform_of_data d.
Definition wfb_transform (t : transform) : bool := forallb is_finite (transform_data t).

(** [make_transform(Real3)]: all-zero translation becomes NoTransformation *)
Definition make_transform (t : vec3) : transform :=
  if vall is_zero t then NoTrans else Transl t.

Record daughter := mkDaughter { d_univ : Z; d_trans : transform }.

(* ------------------------------------------------------------------ *)
(** ** Units *)
Record unit_in := mkUnit {
  u_surfaces : list surface;
  u_volumes : list volume;
  u_bbox : bbox;
  u_daughters : list (Z * daughter);    (* std::map<LocalVolumeId, DaughterInput>: strictly sorted keys *)
  u_surface_labels : list label;
  u_label : label }.

Definition set_label (lv : label * volume) : volume :=
  let '(l, v) := lv in
  mkVolume l (v_faces v) (v_logic v) (v_bbox v) (v_obz v) (v_flags v) (v_zorder v).

Definition enc_unit (u : unit_in) : json :=
  JObj ([("_type", JStr "unit");
         ("md", JObj [("name", enc_label (u_label u))]);
         ("surfaces", enc_surfaces (u_surfaces u));
         ("volumes", JArr (map enc_volume (u_volumes u)));
         ("surface_labels", JArr (map enc_label (u_surface_labels u)));
         ("volume_labels", JArr (map (fun v => enc_label (v_label v)) (u_volumes u)))]
        ++ opt_entry (bbox_nonnull (u_bbox u) && negb (bbox_eqb (u_bbox u) inf_bbox))
             "bbox" (enc_bbox (u_bbox u))
        ++ (if is_nil (u_daughters u) then []
            else [("parent_cells", JArr (map (fun kd => JInt (fst kd)) (u_daughters u)));
                  ("daughters", JArr (map (fun kd => JInt (d_univ (snd kd))) (u_daughters u)));
                  ("transforms", JArr (map (fun kd => enc_transform (d_trans (snd kd))) (u_daughters u)))])).

(** first key present, in the given order *)
Fixpoint first_key (ks : list string) (j : json) : option json :=
  match ks with
  | [] => None
  | k :: r => match jget k j with Some v => Some v | None => first_key r j end
  end.

(** [std::map::emplace]: insert in key order, keep an existing entry *)
Fixpoint emplace (k : Z) (d : daughter) (m : list (Z * daughter)) : list (Z * daughter) :=
  match m with
  | [] => [(k, d)]
  | (k', d') :: r =>
      if k <? k' then (k, d) :: m
      else if k =? k' then m
      else (k', d') :: emplace k d r
  end.

Fixpoint chunk3 (l : list flt) : list vec3 :=
  match l with
  | a :: b :: c :: r => (a, b, c) :: chunk3 r
  | _ => []
  end.

Definition dec_daughters_key (key : string) (j : json) (acc : list (Z * daughter))
  : option (list (Z * daughter)) :=
  match jget key j with
  | None => Some acc
  | Some pj =>
      parents <- dec_arr dec_int pj ;;
      dj <- jget "daughters" j ;; ds <- dec_arr dec_int dj ;;
      if negb (List.length parents =? List.length ds)%nat then None else
      transforms <-
        match jget "transforms" j with
        | Some (JArr ts) => dec_list dec_transform ts
        | Some _ => None
        | None =>
            match jget "translations" j with
            | Some tj =>
                tr <- dec_arr dec_real tj ;;
                if negb (3 * List.length parents =? List.length tr)%nat then None
                else Some (map make_transform (chunk3 tr))
            | None => None
            end
        end ;;
      if negb (List.length transforms =? List.length parents)%nat then None else
      Some (fold_left (fun m pdt => emplace (fst (fst pdt)) (mkDaughter (snd (fst pdt)) (snd pdt)) m)
                      (combine (combine parents ds) transforms) acc)
  end.

Definition dec_unit (j : json) : option unit_in :=
  md <- jget "md" j ;; nj <- jget "name" md ;; lab <- dec_label nj ;;
  sj <- jget "surfaces" j ;; surfaces <- dec_surfaces sj ;;
  vols <- match first_key ["volumes"; "cells"] j with
          | Some vj => dec_arr dec_volume vj
          | None => Some []
          end ;;
  labels <- match first_key ["volume_labels"; "cell_names"] j with
            | Some lj => dec_arr dec_label lj
            | None => Some []
            end ;;
  vols' <- (if is_nil labels then Some vols
            else if (List.length labels =? List.length vols)%nat
                 then Some (map set_label (combine labels vols))
                 else None) ;;
  slabels <- match first_key ["surface_labels"; "surface_names"] j with
             | Some lj => dec_arr dec_label lj
             | None => Some []
             end ;;
  if negb ((List.length slabels =? List.length surfaces)%nat || is_nil slabels) then None else
  bb <- get_bbox j ;;
  dm1 <- dec_daughters_key "parent_volumes" j [] ;;
  dm <- dec_daughters_key "parent_cells" j dm1 ;;
  Some (mkUnit surfaces vols' bb dm slabels lab).

Fixpoint keys_sorted (m : list (Z * daughter)) : bool :=
  match m with
  | [] => true
  | (k, _) :: r =>
      match r with
      | [] => true
      | (k', _) :: _ => (k <? k') && keys_sorted r
      end
  end.

Definition wfb_unit (u : unit_in) : bool :=
  forallb wfb_surface (u_surfaces u)
  && forallb wfb_volume (u_volumes u)
  && wfb_bbox (u_bbox u) && bbox_nonnull (u_bbox u)     (* a null unit bbox is not written and reads back infinite *)
  && keys_sorted (u_daughters u)
  && forallb (fun kd => wfb_transform (d_trans (snd kd))) (u_daughters u)
  && forallb wfb_label (u_surface_labels u)
  && ((List.length (u_surface_labels u) =? List.length (u_surfaces u))%nat || is_nil (u_surface_labels u))
  && wfb_label (u_label u).

(* ------------------------------------------------------------------ *)
(** ** Rectangular arrays *)
Record rectarray := mkRect {
  r_grid : list flt * list flt * list flt;
  r_daughters : list daughter;
  r_label : label }.

(** translation written for one daughter; [None] = CELER_NOT_IMPLEMENTED *)
Definition rect_translation (d : daughter) : option (list flt) :=
  match d_trans d with
  | Transl t => Some (v3list t)
  | NoTrans => Some [F_ZERO; F_ZERO; F_ZERO]
  | Transf _ _ _ _ => None
  end.

Fixpoint opt_concat {A B} (f : A -> option (list B)) (l : list A) : option (list B) :=
  match l with
  | [] => Some []
  | a :: r => x <- f a ;; t <- opt_concat f r ;; Some (x ++ t)
  end.

Definition enc_rectarray (r : rectarray) : option json :=
  tr <- opt_concat rect_translation (r_daughters r) ;;
  let '(gx, gy, gz) := r_grid r in
  Some (JObj [("_type", JStr "rectarray");
              ("md", JObj [("name", enc_label (r_label r))]);
              ("x", JArr (map JFlt gx)); ("y", JArr (map JFlt gy)); ("z", JArr (map JFlt gz));
              ("daughters", JArr (map (fun d => JInt (d_univ d)) (r_daughters r)));
              ("translations", JArr (map JFlt tr))]).

Definition INVALID_ID : Z := 18446744073709551615.      (* OpaqueId{} *)
Definition default_daughter := mkDaughter INVALID_ID NoTrans.

Fixpoint list_set {A} (l : list A) (i : nat) (x : A) : option (list A) :=
  match l, i with
  | [], _ => None
  | _ :: r, O => Some (x :: r)
  | a :: r, S i' => t <- list_set r i' x ;; Some (a :: t)
  end.

(** daughters[parent[i]] = d_i over a default-initialised vector *)
Fixpoint place_daughters (ps : list Z) (ds : list daughter) (acc : list daughter)
  : option (list daughter) :=
  match ps, ds with
  | p :: pr, d :: dr =>
      if p <? 0 then None else
      acc' <- list_set acc (Z.to_nat p) d ;; place_daughters pr dr acc'
  | _, [] => Some acc
  | [], _ :: _ => None
  end.

Definition dec_grid (k : string) (j : json) : option (list flt) :=
  gj <- jget k j ;; g <- dec_arr dec_real gj ;;
  if (List.length g <? 2)%nat then None else Some g.

Definition dec_rectarray (j : json) : option rectarray :=
  md <- jget "md" j ;; nj <- jget "name" md ;; lab <- dec_label nj ;;
  gx <- dec_grid "x" j ;; gy <- dec_grid "y" j ;; gz <- dec_grid "z" j ;;
  if jcontains "transforms" j then None else
  parents <- match jget "parent_cells" j with
             | Some pj => dec_arr dec_int pj
             | None => Some []
             end ;;
  dj <- jget "daughters" j ;; ds <- dec_arr dec_int dj ;;
  tj <- jget "translations" j ;; tr <- dec_arr dec_real tj ;;
  if negb (3 * List.length ds =? List.length tr)%nat then None else
  let dl := map (fun ut => mkDaughter (fst ut) (make_transform (snd ut))) (combine ds (chunk3 tr)) in
  daughters <- (if is_nil parents then Some dl
                else place_daughters parents dl (repeat default_daughter (List.length ds))) ;;
  Some (mkRect (gx, gy, gz) daughters lab).

(** a daughter of a rect array survives iff it is untransformed or a
    translation that is not all-zero (an all-zero [Translation] reads back as
    [NoTransformation]); a [Transformation] makes [to_json] throw. *)
Definition rect_daughter_ok (d : daughter) : bool :=
  match d_trans d with
  | NoTrans => true
  | Transl t => negb (vall is_zero t) && vall is_finite t
  | Transf _ _ _ _ => false
  end.
Definition rect_daughter_translated_only (d : daughter) : bool :=
  match d_trans d with Transf _ _ _ _ => false | _ => true end.

Definition grid_ok (g : list flt) : bool := (2 <=? List.length g)%nat && forallb is_finite g.
Definition wfb_rectarray (r : rectarray) : bool :=
  let '(gx, gy, gz) := r_grid r in
  grid_ok gx && grid_ok gy && grid_ok gz
  && forallb rect_daughter_ok (r_daughters r)
  && wfb_label (r_label r).

(* ------------------------------------------------------------------ *)
(** ** Tolerance *)
Record tolerance := mkTol { t_rel : flt; t_abs : flt }.
(** [Tolerance::operator bool]: rel > 0 && rel < 1 && abs > 0 *)
Definition tol_valid (t : tolerance) : bool :=
  fltb F_ZERO (t_rel t) && fltb (t_rel t) F_ONE && fltb F_ZERO (t_abs t).
Definition enc_tolerance (t : tolerance) : json :=
  JObj [("rel", JFlt (t_rel t)); ("abs", JFlt (t_abs t))].
Definition dec_tolerance (j : json) : option tolerance :=
  rj <- jget "rel" j ;; rel <- dec_real rj ;;
  if negb (fltb F_ZERO rel && fltb rel F_ONE) then None else
  aj <- jget "abs" j ;; ab <- dec_real aj ;;
  if negb (fltb F_ZERO ab) then None else
  Some (mkTol rel ab).
Definition F_DEFAULT_TOL : flt := 0x3e501b2b29a4692b.    (* 1.5e-8 *)
Definition default_tol := mkTol F_DEFAULT_TOL F_DEFAULT_TOL.
Definition wfb_tolerance (t : tolerance) : bool := tol_valid t && is_finite (t_abs t).

(* ------------------------------------------------------------------ *)
(** ** The whole input *)
Inductive universe := UUnit (u : unit_in) | URect (r : rectarray).
Record orange_input := mkInput { oi_universes : list universe; oi_tol : tolerance }.

Definition NATIVE_UNITS : string := "cgs".

Definition enc_universe (u : universe) : option json :=
  match u with UUnit u => Some (enc_unit u) | URect r => enc_rectarray r end.

Definition enc_input (x : orange_input) : option json :=
  us <- opt_map enc_universe (oi_universes x) ;;
  Some (JObj ([("_format", JStr "ORANGE"); ("_version", JInt 0); ("universes", JArr us)]
              ++ opt_entry (tol_valid (oi_tol x)) "tol" (enc_tolerance (oi_tol x))
              ++ [("_units", JStr NATIVE_UNITS)])).

Definition str_in (s : string) (l : list string) : bool := existsb (String.eqb s) l.

Definition dec_universe (j : json) : option universe :=
  tj <- jget "_type" j ;; ty <- dec_str tj ;;
  if str_in ty ["unit"; "simple unit"] then u <- dec_unit j ;; Some (UUnit u)
  else if str_in ty ["rectarray"; "rectangular array"] then r <- dec_rectarray j ;; Some (URect r)
  else None.

Definition dec_input (j : json) : option orange_input :=
  fj <- jget "_format" j ;; fmt <- dec_str fj ;;
  if negb (str_in fmt ["orange"; "ORANGE"; "SCALE ORANGE"]) then None else
  _ <- match jget "_version" j with Some vj => dec_int vj | None => Some 0 end ;;
  _ <- match jget "_units" j with
       | Some uj => s <- dec_str uj ;; if String.eqb s NATIVE_UNITS then Some tt else None
       | None => Some tt
       end ;;
  uj <- jget "universes" j ;; us <- dec_arr dec_universe uj ;;
  tol <- match jget "tol" j with
         | Some tj => dec_tolerance tj
         | None => Some default_tol
         end ;;
  Some (mkInput us tol).

Definition wfb_universe (u : universe) : bool :=
  match u with UUnit u => wfb_unit u | URect r => wfb_rectarray r end.

Definition wfb_input (x : orange_input) : bool :=
  forallb wfb_universe (oi_universes x) && wfb_tolerance (oi_tol x).

(** The well-formedness hypothesis of the round-trip theorem, spelled out by
    the boolean checkers above (each conjunct is necessary: see NOTES.md). *)
Definition wf (x : orange_input) : Prop := wfb_input x = true.

(* ------------------------------------------------------------------ *)
(** ** Tables compared with the source (Generated/C19_keys.v, Properties_C19.v) *)

(** keys used by the model codec per struct: (written by enc, read by dec) *)
Definition model_keys : list (string * (list string * list string)) :=
  [("volume", (["faces"; "logic"; "bbox"; "flags"; "zorder"],
               ["faces"; "flags"; "zorder"; "logic"; "bbox"]));
   ("unit", (["_type"; "md"; "name"; "surfaces"; "volumes"; "surface_labels"; "volume_labels";
              "bbox"; "parent_cells"; "daughters"; "transforms"],
             ["md"; "name"; "surfaces"; "volumes"; "cells"; "volume_labels"; "cell_names";
              "surface_labels"; "surface_names"; "bbox"; "parent_volumes"; "parent_cells";
              "daughters"; "transforms"; "translations"]));
   ("rectarray", (["_type"; "md"; "name"; "daughters"; "translations"],
                  ["md"; "name"; "transforms"; "parent_cells"; "daughters"; "translations"]));
   ("tolerance", (["rel"; "abs"], ["rel"; "abs"]));
   ("input", (["_format"; "_version"; "universes"; "tol"; "_units"],
              ["_format"; "_version"; "_units"; "universes"; "_type"; "tol"]));
   ("surfaces", (["types"; "data"; "sizes"], ["types"; "data"; "sizes"]))].

Definition subsetb (a b : list string) : bool := forallb (fun x => str_in x b) a.
Definition set_eqb (a b : list string) : bool := subsetb a b && subsetb b a.
Fixpoint assoc {A} (k : string) (l : list (string * A)) : option A :=
  match l with
  | [] => None
  | (k', v) :: r => if String.eqb k k' then Some v else assoc k r
  end.

(** every key a struct's [to_json] writes is read by its [from_json] (the
    universes' "_type" is read by the enclosing input's reader) *)
Definition keys_written_subset_read (tbl : list (string * (list string * list string))) : bool :=
  match assoc "input" tbl with
  | None => false
  | Some (_, input_read) =>
      negb (is_nil tbl)
      && forallb (fun e => subsetb (fst (snd e)) (snd (snd e) ++ input_read)) tbl
  end.

Definition keys_tables_agree (a b : list (string * (list string * list string))) : bool :=
  (List.length a =? List.length b)%nat
  && forallb (fun e => match assoc (fst e) b with
                       | Some (w, r) => set_eqb (fst (snd e)) w && set_eqb (snd (snd e)) r
                       | None => false
                       end) a.

Fixpoint strs_eqb (a b : list string) : bool :=
  match a, b with
  | [], [] => true
  | x :: a', y :: b' => String.eqb x y && strs_eqb a' b'
  | _, _ => false
  end.
Fixpoint nats_eqb (a b : list nat) : bool :=
  match a, b with
  | [], [] => true
  | x :: a', y :: b' => (x =? y)%nat && nats_eqb a' b'
  | _, _ => false
  end.
Fixpoint pairs_eqb (a b : list (string * string)) : bool :=
  match a, b with
  | [], [] => true
  | (x, x') :: a', (y, y') :: b' => String.eqb x y && String.eqb x' y' && pairs_eqb a' b'
  | _, _ => false
  end.

Definition model_surface_names : list string := map surf_name all_surf_types.
Definition model_surface_arity : list nat := map surf_arity all_surf_types.
Definition model_visit_cases : list string := map surf_name (filter visit_supported all_surf_types).
Definition model_logic_chars : string :=
  fold_right (fun i s => String (tok_char (LBEGIN + i)) s) "" [0; 1; 2; 3; 4; 5].
Definition tok_name (t : Z) : string :=
  if t =? LOPEN then "lopen" else if t =? LCLOSE then "lclose" else if t =? LTRUE then "ltrue"
  else if t =? LOR then "lor" else if t =? LAND then "land" else if t =? LNOT then "lnot" else "?".
Definition model_logic_tokens : list string := map (fun i => tok_name (LBEGIN + i)) [0; 1; 2; 3; 4; 5].
(** the reader's switch: which characters become which token *)
Definition model_logic_read : list (string * string) :=
  fold_right (fun c acc => match tok_of_char c with
                           | Some t => (String c "", tok_name t) :: acc
                           | None => acc
                           end) [] ["*"; "|"; "&"; "~"; "("; ")"]%char.
Definition zorder_name (z : zorder) : string :=
  match z with
  | ZInvalid => "invalid" | ZBackground => "background" | ZMedia => "media" | ZArray => "array"
  | ZHole => "hole" | ZImplExt => "implicit_exterior" | ZExterior => "exterior"
  end.
Definition all_zorders := [ZInvalid; ZBackground; ZMedia; ZArray; ZHole; ZImplExt; ZExterior].
Definition model_zorder_write : list (string * string) :=
  map (fun z => (zorder_name z, String (zorder_char z) "")) all_zorders.
Definition model_zorder_read : list (string * string) :=
  map (fun z => (zorder_name (to_zorder (zorder_char z)), String (zorder_char z) "")) all_zorders.
Definition model_transform_sizes : list nat :=
  map (fun t => List.length (transform_data t))
      [NoTrans; Transl (0, 0, 0); Transf (0, 0, 0) (0, 0, 0) (0, 0, 0) (0, 0, 0)].
