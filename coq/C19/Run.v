(** * C19 — entry points evaluated by the correspondence check (props/C19/run.py).

    [dump_input] is a field-by-field rendering of an [orange_input] (every
    field, including those the codec drops), in the same shape as the
    harness's own dump of a real [OrangeInput] (props/C19/harness/roundtrip.cc). *)
From Coq Require Import ZArith List String Ascii Bool.
From Celer Require Import C19.Json C19.OrangeCodec.
Import ListNotations.
Local Open Scope string_scope.
Local Open Scope list_scope.
Local Open Scope Z_scope.

Definition dump_label (l : label) : json := JArr [JStr (l_name l); JStr (l_ext l)].
Definition dump_vec3 (v : vec3) : json := JArr (map JFlt (v3list v)).
Definition dump_bbox (b : bbox) : json := JArr [dump_vec3 (b_lo b); dump_vec3 (b_hi b)].
Definition dump_transform (t : transform) : json :=
  JObj [("k", JInt (match t with NoTrans => 0 | Transl _ => 1 | Transf _ _ _ _ => 2 end));
        ("d", JArr (map JFlt (transform_data t)))].
Definition zorder_value (z : zorder) : Z :=
  match z with
  | ZInvalid => 0 | ZBackground => 1 | ZMedia => 2 | ZArray => 3 | ZHole => 4
  | ZImplExt => UINT - 2 | ZExterior => UINT - 1
  end.
Definition dump_volume (v : volume) : json :=
  JObj [("label", dump_label (v_label v));
        ("faces", JArr (map JInt (v_faces v)));
        ("logic", JArr (map JInt (v_logic v)));
        ("bbox", dump_bbox (v_bbox v));
        ("obz", match v_obz v with
                | None => JNull
                | Some o => JObj [("inner", dump_bbox (obz_inner o)); ("outer", dump_bbox (obz_outer o));
                                  ("tid", JInt (obz_tid o))]
                end);
        ("flags", JInt (v_flags v));
        ("zorder", JInt (zorder_value (v_zorder v)))].
Fixpoint surf_index (t : surf_type) (l : list surf_type) (i : Z) : Z :=
  match l with
  | [] => -1
  | t' :: r => if String.eqb (surf_name t) (surf_name t') then i else surf_index t r (i + 1)
  end.
Definition dump_surface (s : surface) : json :=
  JObj [("t", JInt (surf_index (s_type s) all_surf_types 0)); ("d", JArr (map JFlt (s_data s)))].
Definition dump_unit (u : unit_in) : json :=
  JObj [("k", JStr "unit");
        ("label", dump_label (u_label u));
        ("surfaces", JArr (map dump_surface (u_surfaces u)));
        ("volumes", JArr (map dump_volume (u_volumes u)));
        ("bbox", dump_bbox (u_bbox u));
        ("daughters", JArr (map (fun kd => JArr [JInt (fst kd); JInt (d_univ (snd kd));
                                                 dump_transform (d_trans (snd kd))]) (u_daughters u)));
        ("surface_labels", JArr (map dump_label (u_surface_labels u)))].
Definition dump_rect (r : rectarray) : json :=
  let '(gx, gy, gz) := r_grid r in
  JObj [("k", JStr "rect");
        ("label", dump_label (r_label r));
        ("grid", JArr [JArr (map JFlt gx); JArr (map JFlt gy); JArr (map JFlt gz)]);
        ("daughters", JArr (map (fun d => JArr [JInt (d_univ d); dump_transform (d_trans d)]) (r_daughters r)))].
Definition dump_input (x : orange_input) : json :=
  JObj [("universes", JArr (map (fun u => match u with UUnit u => dump_unit u | URect r => dump_rect r end)
                                (oi_universes x)));
        ("tol", JArr [JFlt (t_rel (oi_tol x)); JFlt (t_abs (oi_tol x))])].

(** One round-trip case: (wf?, enc x, wire (enc x) if it differs, dump (dec (wire (enc x)))). *)
Definition run_rt (x : orange_input) : bool * option json * option json * option json :=
  match enc_input x with
  | None => (wfb_input x, None, None, None)
  | Some j =>
      (wfb_input x, Some j,
       (if jfinite j then None else Some (wire j)),
       option_map dump_input (dec_input (wire j)))
  end.

(** Decode an arbitrary JSON document (legacy keys, missing optional keys...). *)
Definition run_dec (j : json) : option json := option_map dump_input (dec_input j).

(** Constants the model hard-codes; compared with the build under test. *)
Definition run_consts :=
  (t_rel default_tol, t_abs default_tol, NATIVE_UNITS, LBEGIN, F_MAX, INVALID_ID,
   dump_bbox null_bbox, dump_bbox inf_bbox).
