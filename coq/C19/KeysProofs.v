(** * C19 — the obligations tying the model's tables to the source-extracted ones. *)
From Coq Require Import ZArith List String Bool.
From Celer Require Import C19.Json C19.OrangeCodec Generated.C19_keys.
Import ListNotations.

Lemma source_keys_written_subset_read : keys_written_subset_read source_keys = true.
Proof. vm_compute. reflexivity. Qed.

Lemma model_keys_eq_source : keys_tables_agree model_keys source_keys = true.
Proof. vm_compute. reflexivity. Qed.

Lemma model_tables_eq_source :
  strs_eqb model_surface_names source_surface_names = true
  /\ nats_eqb model_surface_arity source_surface_arity = true
  /\ strs_eqb model_visit_cases source_visit_cases = true
  /\ String.eqb model_logic_chars source_logic_chars = true
  /\ strs_eqb model_logic_tokens source_logic_tokens = true
  /\ pairs_eqb model_logic_read source_logic_read = true
  /\ pairs_eqb model_zorder_write source_zorder_write = true
  /\ pairs_eqb model_zorder_read source_zorder_read = true
  /\ nats_eqb model_transform_sizes source_transform_sizes = true.
Proof. repeat split; vm_compute; reflexivity. Qed.
