(** * C19 — lemmas about the JSON value model and the bit-pattern doubles. *)
From Coq Require Import ZArith List String Ascii Bool Lia ZifyBool.
From Celer Require Import C19.Json C19.OrangeCodec.
Import ListNotations.
Local Open Scope Z_scope.
Ltac Zify.zify_post_hook ::= Z.div_mod_to_equations.

(** ** Nested induction on [json] *)
Section JsonInd.
  Variable P : json -> Prop.
  Hypothesis Hnull : P JNull.
  Hypothesis Hbool : forall b, P (JBool b).
  Hypothesis Hint : forall z, P (JInt z).
  Hypothesis Hflt : forall f, P (JFlt f).
  Hypothesis Hstr : forall s, P (JStr s).
  Hypothesis Harr : forall l, Forall P l -> P (JArr l).
  Hypothesis Hobj : forall m, Forall (fun kv => P (snd kv)) m -> P (JObj m).

  Fixpoint json_ind' (j : json) : P j :=
    match j with
    | JNull => Hnull
    | JBool b => Hbool b
    | JInt z => Hint z
    | JFlt f => Hflt f
    | JStr s => Hstr s
    | JArr l =>
        Harr l ((fix go (l : list json) : Forall P l :=
                   match l with
                   | [] => Forall_nil _
                   | x :: r => Forall_cons _ (json_ind' x) (go r)
                   end) l)
    | JObj m =>
        Hobj m ((fix go (m : list (string * json)) : Forall (fun kv => P (snd kv)) m :=
                   match m with
                   | [] => Forall_nil _
                   | kv :: r => Forall_cons _ (json_ind' (snd kv)) (go r)
                   end) m)
    end.
End JsonInd.

(** The text layer is the identity on trees all of whose numbers are finite. *)
Lemma wire_finite : forall j, jfinite j = true -> wire j = j.
Proof.
  induction j as [ | b | z | f | s | l IH | m IH] using json_ind'; intro Hf; cbn in *; try reflexivity.
  - rewrite Hf. reflexivity.
  - f_equal. induction IH as [ | x r Hx _ IHr]; cbn in *; [reflexivity | ].
    apply andb_true_iff in Hf. destruct Hf as [Hf1 Hf2].
    rewrite Hx by exact Hf1. rewrite IHr by exact Hf2. reflexivity.
  - f_equal. induction IH as [ | [k v] r Hx _ IHr]; cbn in *; [reflexivity | ].
    apply andb_true_iff in Hf. destruct Hf as [Hf1 Hf2].
    rewrite Hx by exact Hf1. rewrite IHr by exact Hf2. reflexivity.
Qed.

(** ** Generic list decoders *)
Lemma dec_list_map_f : forall {A B} (d : json -> option B) (e : A -> json) (f : A -> B) (l : list A),
  (forall x, In x l -> d (e x) = Some (f x)) -> dec_list d (map e l) = Some (map f l).
Proof.
  intros A B d e f l. induction l as [ | a r IH]; intro H; cbn; [reflexivity | ].
  rewrite (H a) by (left; reflexivity). cbn.
  rewrite IH by (intros x Hx; apply H; right; exact Hx). reflexivity.
Qed.

Lemma dec_list_map : forall {A} (d : json -> option A) (e : A -> json) (l : list A),
  (forall x, In x l -> d (e x) = Some x) -> dec_list d (map e l) = Some l.
Proof.
  intros A d e l H. rewrite (dec_list_map_f d e (fun x => x)) by exact H.
  rewrite map_id. reflexivity.
Qed.

Lemma dec_reals : forall l, dec_list dec_real (map JFlt l) = Some l.
Proof. intro l. apply dec_list_map. reflexivity. Qed.
Lemma dec_ints : forall l, dec_list dec_int (map JInt l) = Some l.
Proof. intro l. apply dec_list_map. reflexivity. Qed.

(** ** Doubles as bit patterns *)
Lemma valid_fltb_true : forall b, valid_fltb b = true -> valid_flt b.
Proof. intros b H. unfold valid_fltb, valid_flt in *. lia. Qed.

(** +-inf <-> +-DBL_MAX is a bijection away from +-DBL_MAX itself *)
Lemma max_to_inf_inf_to_max : forall x,
  valid_flt x -> is_max x = false -> max_to_inf (inf_to_max x) = x.
Proof.
  intros x Hv Hm.
  unfold max_to_inf, inf_to_max, is_max, is_inf, copysign, fmag, fsign, valid_flt,
    SIGNBIT, F_MAX, F_INF in *.
  destruct (x mod 9223372036854775808 =? 9218868437227405312) eqn:Hi.
  - assert (Hq : x / 9223372036854775808 = 0 \/ x / 9223372036854775808 = 1) by lia.
    destruct Hq as [Hq | Hq]; rewrite Hq.
    + replace ((9218868437227405311 + 0 * 9223372036854775808) mod 9223372036854775808 =? 9218868437227405311)
        with true by reflexivity.
      replace ((9218868437227405311 + 0 * 9223372036854775808) / 9223372036854775808) with 0 by reflexivity.
      lia.
    + replace ((9218868437227405311 + 1 * 9223372036854775808) mod 9223372036854775808 =? 9218868437227405311)
        with true by reflexivity.
      replace ((9218868437227405311 + 1 * 9223372036854775808) / 9223372036854775808) with 1 by reflexivity.
      lia.
  - rewrite Hm. reflexivity.
Qed.

(** C++ [x == -inf] / [x == +inf] pin the bit pattern *)
Lemma feqb_ninf : forall x, valid_flt x -> feqb x F_NINF = true -> x = F_NINF.
Proof.
  intros x Hv H.
  unfold feqb, is_nan, fkey, fmag, fsign, valid_flt, F_NINF, SIGNBIT, F_INF in *.
  replace ((9223372036854775808 + 9218868437227405312) mod 9223372036854775808) with 9218868437227405312 in H by reflexivity.
  replace ((9223372036854775808 + 9218868437227405312) / 9223372036854775808) with 1 in H by reflexivity.
  cbn [Z.eqb] in H.
  destruct (x / 9223372036854775808 =? 0) eqn:Hq; lia.
Qed.

Lemma feqb_pinf : forall x, valid_flt x -> feqb x F_INF = true -> x = F_INF.
Proof.
  intros x Hv H.
  unfold feqb, is_nan, fkey, fmag, fsign, valid_flt, SIGNBIT, F_INF in *.
  replace (9218868437227405312 mod 9223372036854775808) with 9218868437227405312 in H by reflexivity.
  replace (9218868437227405312 / 9223372036854775808) with 0 in H by reflexivity.
  cbn [Z.eqb] in H.
  destruct (x / 9223372036854775808 =? 0) eqn:Hq; lia.
Qed.

(** a non-NaN double is finite or infinite; after inf->max it is finite *)
Lemma inf_to_max_finite : forall x, valid_flt x -> is_nan x = false -> is_finite (inf_to_max x) = true.
Proof.
  intros x Hv Hn.
  unfold inf_to_max, is_inf, is_finite, is_nan, copysign, fmag, fsign, valid_flt, SIGNBIT, F_MAX, F_INF in *.
  destruct (x mod 9223372036854775808 =? 9218868437227405312) eqn:Hi.
  - assert (Hq : x / 9223372036854775808 = 0 \/ x / 9223372036854775808 = 1) by lia.
    destruct Hq as [Hq | Hq]; rewrite Hq; reflexivity.
  - lia.
Qed.

(** [0 < x < 1.0] (C++) implies finite *)
Lemma fltb_unit_finite : forall x, fltb F_ZERO x = true -> fltb x F_ONE = true -> is_finite x = true.
Proof.
  intros x H0 H.
  unfold fltb, is_nan, is_finite, fkey, fmag, fsign, F_ZERO, F_ONE, F_INF, SIGNBIT in *.
  replace (4607182418800017408 mod 9223372036854775808) with 4607182418800017408 in H by reflexivity.
  replace (4607182418800017408 / 9223372036854775808) with 0 in H by reflexivity.
  replace (0 mod 9223372036854775808) with 0 in H0 by reflexivity.
  replace (0 / 9223372036854775808) with 0 in H0 by reflexivity.
  cbn [Z.eqb] in H, H0.
  destruct (x / 9223372036854775808 =? 0) eqn:Hq; lia.
Qed.
