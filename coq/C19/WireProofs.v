(** * C19 — the text layer: under [wf] every number the encoder writes is
    finite, so [dump] + [parse] ([Json.wire]) returns the same tree, and the
    round trip through the JSON *text* holds. *)
From Coq Require Import ZArith List String Ascii Bool Lia ZifyBool.
From Celer Require Import C19.Json C19.OrangeCodec C19.JsonProofs C19.LeafProofs C19.CodecProofs.
Import ListNotations.
Local Open Scope Z_scope.

Lemma forallb_map_true : forall {A B} (p : B -> bool) (f : A -> B) l,
  (forall x, In x l -> p (f x) = true) -> forallb p (map f l) = true.
Proof.
  intros A B p f l. induction l as [ | a l IH]; intro H; cbn; [reflexivity | ].
  rewrite (H a) by (left; reflexivity). rewrite IH by (intros x Hx; apply H; right; exact Hx). reflexivity.
Qed.

Lemma jfinite_arr_map : forall {A} (f : A -> json) l,
  (forall x, In x l -> jfinite (f x) = true) -> jfinite (JArr (map f l)) = true.
Proof. intros A f l H. cbn [jfinite]. apply forallb_map_true. exact H. Qed.

Lemma jfinite_flts : forall l, forallb is_finite l = true -> jfinite (JArr (map JFlt l)) = true.
Proof.
  intros l H. apply jfinite_arr_map. intros x Hx. cbn [jfinite].
  rewrite forallb_forall in H. apply H. exact Hx.
Qed.

Lemma jfinite_ints : forall {A} (f : A -> Z) l, jfinite (JArr (map (fun x => JInt (f x)) l)) = true.
Proof. intros A f l. apply jfinite_arr_map. reflexivity. Qed.

Lemma jfinite_label : forall l, jfinite (enc_label l) = true.
Proof. reflexivity. Qed.

Lemma coord_finite : forall x, coord_ok x = true -> is_finite (inf_to_max x) = true.
Proof. intros x H. apply coord_ok_valid in H. apply inf_to_max_finite; tauto. Qed.

Lemma jfinite_bbox : forall b, wfb_bbox b = true -> jfinite (enc_bbox b) = true.
Proof.
  intros b H. destruct (wfb_bbox_coords b H) as [Hlo Hhi]. unfold enc_bbox.
  destruct (bbox_nonnull b); [ | reflexivity].
  destruct b as [[[a1 a2] a3] [[a4 a5] a6]]. cbn [b_lo b_hi] in *.
  apply vall_3 in Hlo. apply vall_3 in Hhi. destruct Hlo as [H1 [H2 H3]]. destruct Hhi as [H4 [H5 H6]].
  cbn [vmap enc_vec3 jfinite forallb].
  rewrite !coord_finite by assumption. reflexivity.
Qed.

Lemma forallb_opt_entry : forall c k v, (c = true -> jfinite v = true) ->
  forallb (fun kv : string * json => jfinite (snd kv)) (opt_entry c k v) = true.
Proof. intros [ | ] k v H; cbn; [rewrite H by reflexivity | ]; reflexivity. Qed.

Lemma jfinite_volume : forall v, wfb_volume v = true -> jfinite (enc_volume v) = true.
Proof.
  intros v H. unfold wfb_volume in H.
  apply andb_true_iff in H. destruct H as [H _].
  apply andb_true_iff in H. destruct H as [H _].
  apply andb_true_iff in H. destruct H as [H _].
  apply andb_true_iff in H. destruct H as [_ Hbb].
  unfold enc_volume. cbn [jfinite]. rewrite !forallb_app.
  rewrite !forallb_opt_entry; try reflexivity.
  - cbn [forallb snd]. rewrite (jfinite_arr_map JInt) by reflexivity. reflexivity.
  - intros _. apply jfinite_bbox. exact Hbb.
Qed.

Lemma forallb_concat : forall {A} (p : A -> bool) (ls : list (list A)),
  forallb (forallb p) ls = true -> forallb p (List.concat ls) = true.
Proof.
  intros A p ls. induction ls as [ | l ls IH]; intro H; cbn in *; [reflexivity | ].
  apply andb_true_iff in H. destruct H as [H1 H2]. rewrite forallb_app. rewrite H1. apply IH. exact H2.
Qed.

Lemma jfinite_surfaces : forall ss, forallb wfb_surface ss = true -> jfinite (enc_surfaces ss) = true.
Proof.
  intros ss H. unfold enc_surfaces.
  assert (Hd : forallb is_finite (List.concat (map s_data ss)) = true).
  { apply forallb_concat. apply forallb_map_true. intros s Hs.
    rewrite forallb_forall in H. specialize (H s Hs). unfold wfb_surface in H.
    apply andb_true_iff in H. destruct H as [_ H]. exact H. }
  pose proof (jfinite_flts _ Hd) as Fd.
  pose proof (jfinite_arr_map (fun s => JStr (surf_name (s_type s))) ss (fun x _ => eq_refl)) as Ft.
  pose proof (jfinite_ints (fun s => Z.of_nat (List.length (s_data s))) ss) as Fs.
  cbn [jfinite forallb snd] in *. rewrite Fd, Ft, Fs. reflexivity.
Qed.

Lemma jfinite_transform : forall t, wfb_transform t = true -> jfinite (enc_transform t) = true.
Proof. intros t H. unfold enc_transform. apply jfinite_flts. exact H. Qed.

Lemma jfinite_unit : forall u, wfb_unit u = true -> jfinite (enc_unit u) = true.
Proof.
  intros u H. unfold wfb_unit in H.
  apply andb_true_iff in H. destruct H as [H _].
  apply andb_true_iff in H. destruct H as [H _].
  apply andb_true_iff in H. destruct H as [H _].
  apply andb_true_iff in H. destruct H as [H Htr].
  apply andb_true_iff in H. destruct H as [H _].
  apply andb_true_iff in H. destruct H as [H _].
  apply andb_true_iff in H. destruct H as [H Hbb].
  apply andb_true_iff in H. destruct H as [Hsurf Hvols].
  unfold enc_unit. cbn [jfinite]. rewrite !forallb_app.
  rewrite forallb_opt_entry by (intros _; apply jfinite_bbox; exact Hbb).
  cbn [forallb snd jfinite].
  change (jfinite (enc_label (u_label u))) with true.
  rewrite (jfinite_surfaces _ Hsurf).
  rewrite (forallb_map_true jfinite enc_volume).
  2:{ intros v Hv. apply jfinite_volume. rewrite forallb_forall in Hvols. apply Hvols. exact Hv. }
  rewrite (forallb_map_true jfinite enc_label) by reflexivity.
  rewrite (forallb_map_true jfinite (fun v => enc_label (v_label v))) by reflexivity.
  destruct (is_nil (u_daughters u)); [reflexivity | ].
  cbn [forallb snd jfinite].
  rewrite (forallb_map_true jfinite (fun kd : Z * daughter => JInt (fst kd))) by reflexivity.
  rewrite (forallb_map_true jfinite (fun kd : Z * daughter => JInt (d_univ (snd kd)))) by reflexivity.
  rewrite (forallb_map_true jfinite (fun kd : Z * daughter => enc_transform (d_trans (snd kd)))).
  - reflexivity.
  - intros kd Hkd. apply jfinite_transform. rewrite forallb_forall in Htr. apply (Htr kd Hkd).
Qed.

Lemma rect_triple_finite : forall ds, forallb rect_daughter_ok ds = true ->
  forallb is_finite (List.concat (map rect_triple ds)) = true.
Proof.
  intros ds H. apply forallb_concat. apply forallb_map_true. intros d Hd.
  rewrite forallb_forall in H. specialize (H d Hd). unfold rect_daughter_ok, rect_triple in *.
  destruct (d_trans d) as [ | [[a b] c] | ? ? ? ?]; [reflexivity | | discriminate H].
  apply andb_true_iff in H. destruct H as [_ H]. apply vall_3 in H. destruct H as [Ha [Hb Hc]].
  cbn. rewrite Ha, Hb, Hc. reflexivity.
Qed.

Lemma jfinite_rectarray : forall r j, wfb_rectarray r = true -> enc_rectarray r = Some j -> jfinite j = true.
Proof.
  intros [[[gx gy] gz] ds lab] j H He. unfold wfb_rectarray in H. cbn [r_grid r_daughters r_label] in H.
  apply andb_true_iff in H. destruct H as [H _].
  apply andb_true_iff in H. destruct H as [H Hds].
  apply andb_true_iff in H. destruct H as [H Hgz].
  apply andb_true_iff in H. destruct H as [Hgx Hgy].
  unfold enc_rectarray in He. cbn [r_grid r_daughters r_label] in He.
  rewrite (opt_concat_ok ds Hds) in He. cbn [obind] in He. inversion He. subst j. clear He.
  unfold grid_ok in *.
  apply andb_true_iff in Hgx. destruct Hgx as [_ Hgx].
  apply andb_true_iff in Hgy. destruct Hgy as [_ Hgy].
  apply andb_true_iff in Hgz. destruct Hgz as [_ Hgz].
  cbn [jfinite forallb snd].
  change (jfinite (enc_label lab)) with true.
  pose proof (jfinite_flts gx Hgx) as Fx. pose proof (jfinite_flts gy Hgy) as Fy.
  pose proof (jfinite_flts gz Hgz) as Fz.
  pose proof (jfinite_flts _ (rect_triple_finite ds Hds)) as Ft.
  cbn [jfinite] in Fx, Fy, Fz, Ft. rewrite Fx, Fy, Fz, Ft.
  rewrite (forallb_map_true jfinite (fun d => JInt (d_univ d))) by reflexivity.
  reflexivity.
Qed.

Lemma jfinite_universes : forall us js, forallb wfb_universe us = true ->
  opt_map enc_universe us = Some js -> forallb jfinite js = true.
Proof.
  induction us as [ | u us IH]; intros js H He.
  - cbn in He. inversion He. reflexivity.
  - cbn [forallb] in H. apply andb_true_iff in H. destruct H as [Hu Hr].
    cbn [opt_map] in He. destruct (enc_universe u) as [j | ] eqn:Hj; cbn [obind] in He; [ | discriminate He].
    destruct (opt_map enc_universe us) as [js' | ] eqn:Hjs; cbn [obind] in He; [ | discriminate He].
    inversion He. subst js. cbn [forallb]. rewrite (IH js' Hr eq_refl). rewrite andb_true_r.
    destruct u as [u | r]; cbn [enc_universe wfb_universe] in *.
    + inversion Hj. apply jfinite_unit. exact Hu.
    + apply (jfinite_rectarray r j Hu Hj).
Qed.

Lemma jfinite_input : forall x j, wf x -> enc_input x = Some j -> jfinite j = true.
Proof.
  intros [us tol] j H He. unfold wf, wfb_input in H. cbn [oi_universes oi_tol] in H.
  apply andb_true_iff in H. destruct H as [Hus Htol].
  unfold wfb_tolerance in Htol. apply andb_true_iff in Htol. destruct Htol as [Hvalid Habs].
  unfold enc_input in He. cbn [oi_universes oi_tol] in He.
  destruct (opt_map enc_universe us) as [js | ] eqn:Hjs; cbn [obind] in He; [ | discriminate He].
  inversion He. subst j. clear He.
  rewrite Hvalid. cbn [opt_entry app jfinite forallb snd enc_tolerance t_rel t_abs].
  rewrite (jfinite_universes us js Hus Hjs).
  unfold tol_valid in Hvalid.
  apply andb_true_iff in Hvalid. destruct Hvalid as [Hv _]. apply andb_true_iff in Hv. destruct Hv as [H0 H1].
  rewrite (fltb_unit_finite _ H0 H1). rewrite Habs. reflexivity.
Qed.

(** **** Main theorem: the round trip through the JSON text.

    [wf x] (OrangeCodec.wfb_input) spells out what must hold of [x]; under it
    [to_json] succeeds, writing and re-parsing the text gives the same tree,
    and [from_json] of it is [x], bit for bit. *)
Theorem dec_enc_orange_input : forall x, wf x ->
  exists j, enc_input x = Some j /\ wire j = j /\ dec_input (wire j) = Some x.
Proof.
  intros x H. destruct (dec_enc_orange_input_tree x H) as [j [He Hd]].
  exists j. pose proof (wire_finite j (jfinite_input x j H He)) as Hw.
  split; [exact He | split; [exact Hw | rewrite Hw; exact Hd]].
Qed.
