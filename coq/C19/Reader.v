(** * C19 — the reader-side view of the codec and the [orange-update] pipeline.

    Executable definitions only (proofs: ReaderProofs.v).

    [app/orange-update.cc]:
<<
      OrangeInput inp;
      nlohmann::json::parse( *is ).get_to(inp);
      return nlohmann::json(inp).dump(0);
>>
    i.e. parse, [from_json], [to_json], dump.  A parsed document contains only
    finite doubles (nlohmann's parser raises out_of_range on overflow and has
    no literal for NaN/inf): [jwell].  The written text is seen by the next
    reader through [wire]. *)
From Coq Require Import ZArith List String Ascii Bool.
From Celer Require Import C19.Json C19.OrangeCodec.
Import ListNotations.
Local Open Scope string_scope.
Local Open Scope list_scope.
Local Open Scope Z_scope.

(** a double a JSON text can denote: a valid bit pattern, finite *)
Definition fwell (f : flt) : bool := valid_fltb f && is_finite f.

(** what [nlohmann::json::parse] can return *)
Fixpoint jwell (j : json) : bool :=
  match j with
  | JFlt f => fwell f
  | JArr l => forallb jwell l
  | JObj m => forallb (fun kv => jwell (snd kv)) m
  | _ => true
  end.

(** [run(istream)] of orange-update on a parsed document, as a tree;
    [None] = the tool fails (exception, or undefined behaviour) *)
Definition update (j : json) : option json :=
  x <- dec_input j ;; enc_input x.

(** ... and as the next reader sees the file that was written *)
Definition update_file (j : json) : option json := option_map wire (update j).

(** two passes of the tool *)
Definition update2 (j : json) : option json := j1 <- update_file j ;; update_file j1.

(* ------------------------------------------------------------------ *)
(** ** The exceptions: what the reader accepts although it cannot be written
    and read back unchanged.  Everything else in [wf] is guaranteed by the
    reader itself (ReaderProofs.dec_input_wf_iff). *)

(** - a logic string whose digit runs evaluate (mod 2^64) to [lopen], [lclose]
      or [lend] (they are written as "(" / ")" / NUL, which the reader rejects);
    - an empty logic string (then "logic" is not written and [j.at("logic")] throws);
    - a "bbox" with lower > upper on some axis (null but not the canonical
      null: written as [null], read back as the canonical null box);
    - a label string of the form "a@b@" or "a@@" (read as name "a@b" / "a@" with
      empty extension; written without the trailing separator) *)
Definition rx_volume (v : volume) : bool :=
  forallb wfb_token (v_logic v)
  && negb (is_nil (v_logic v))
  && (bbox_nonnull (v_bbox v) || bbox_bits_eqb (v_bbox v) null_bbox)
  && wfb_label (v_label v).

(** - a unit "bbox" that is null (not written, read back infinite) *)
Definition rx_unit (u : unit_in) : bool :=
  forallb rx_volume (u_volumes u)
  && bbox_nonnull (u_bbox u)
  && forallb wfb_label (u_surface_labels u)
  && wfb_label (u_label u).

Definition rx_universe (u : universe) : bool :=
  match u with UUnit u => rx_unit u | URect r => wfb_label (r_label r) end.

Definition rx_input (x : orange_input) : bool := forallb rx_universe (oi_universes x).

(** which of the exceptions make the second pass of the tool FAIL (the others
    only change the in-memory value; the text reaches a fixed point later) *)
Definition fatal_volume (v : volume) : bool :=
  negb (forallb wfb_token (v_logic v)) || is_nil (v_logic v).

(* ------------------------------------------------------------------ *)
(** ** The oriented bounding zone: not serialised.  [drop_obz] is exactly what
    is lost. *)
Definition clear_obz (v : volume) : volume :=
  mkVolume (v_label v) (v_faces v) (v_logic v) (v_bbox v) None (v_flags v) (v_zorder v).
Definition drop_obz_unit (u : unit_in) : unit_in :=
  mkUnit (u_surfaces u) (map clear_obz (u_volumes u)) (u_bbox u) (u_daughters u)
         (u_surface_labels u) (u_label u).
Definition drop_obz_universe (u : universe) : universe :=
  match u with UUnit u => UUnit (drop_obz_unit u) | URect r => URect r end.
Definition drop_obz (x : orange_input) : orange_input :=
  mkInput (map drop_obz_universe (oi_universes x)) (oi_tol x).

(** does an input carry an OBZ anywhere *)
Definition has_obz_volume (v : volume) : bool := match v_obz v with Some _ => true | None => false end.
Definition has_obz (x : orange_input) : bool :=
  existsb (fun u => match u with UUnit u => existsb has_obz_volume (u_volumes u) | URect _ => false end)
          (oi_universes x).

(* ------------------------------------------------------------------ *)
(** ** Entry point for the correspondence check: one document, two passes.
    (decodes?, rx of the decoded input, pass-1 tree, pass-1 as re-read,
     pass-2 as re-read) *)
Definition run_update (j : json)
  : bool * bool * bool * option json * option json * option json :=
  match dec_input j with
  | None => (false, false, false, None, None, None)
  | Some x =>
      (true, rx_input x, wfb_input x,
       enc_input x,
       option_map wire (enc_input x),
       match enc_input x with Some j1 => update_file (wire j1) | None => None end)
  end.
