(** * C19 — the logic token string written by [logic_to_string] is read back
    by [string_to_logic] (for face ids below lbegin and the tokens * | & ~). *)
From Coq Require Import ZArith List String Ascii Bool Lia ZifyBool.
From Celer Require Import C19.Json C19.OrangeCodec.
Import ListNotations.
Local Open Scope Z_scope.
Ltac Zify.zify_post_hook ::= Z.div_mod_to_equations.

Lemma digit_cases : forall d, 0 <= d < 10 ->
  d = 0 \/ d = 1 \/ d = 2 \/ d = 3 \/ d = 4 \/ d = 5 \/ d = 6 \/ d = 7 \/ d = 8 \/ d = 9.
Proof. intros d H. lia. Qed.

Lemma digit_char_is_digit : forall d, 0 <= d < 10 -> is_digit (digit_char d) = true.
Proof.
  intros d H. destruct (digit_cases d H) as [E|[E|[E|[E|[E|[E|[E|[E|[E|E]]]]]]]]]; subst d; reflexivity.
Qed.

Lemma digit_char_val : forall d, 0 <= d < 10 -> digit_val (digit_char d) = d.
Proof.
  intros d H. destruct (digit_cases d H) as [E|[E|[E|[E|[E|[E|[E|[E|[E|E]]]]]]]]]; subst d; reflexivity.
Qed.

Lemma s2l_digit : forall d r res surf reading, 0 <= d < 10 ->
  s2l (String (digit_char d) r) res surf reading
  = s2l r res ((10 * (if reading then surf else 0) + d) mod UINT) true.
Proof.
  intros d r res surf reading H. cbn [s2l].
  rewrite digit_char_is_digit by exact H. rewrite digit_char_val by exact H. reflexivity.
Qed.

Lemma append_assoc' : forall a b c : string, ((a ++ b) ++ c = a ++ (b ++ c))%string.
Proof. induction a as [ | x a IH]; intros b c; cbn; [reflexivity | rewrite IH; reflexivity]. Qed.

(** the decimal digits of [n] drive the reader's accumulator to [n] *)
Lemma s2l_digits : forall f n r res surf0,
  0 <= n < 10 ^ Z.of_nat (S f) -> n < UINT ->
  s2l (dec_digits (S f) n ++ r)%string res surf0 false = s2l r res n true.
Proof.
  induction f as [ | f IH]; intros n r res surf0 Hn Hu.
  - change (10 ^ Z.of_nat 1) with 10 in Hn.
    cbn [dec_digits]. assert (Hlt : (n <? 10) = true) by lia. rewrite Hlt.
    cbn [append]. rewrite s2l_digit by lia.
    replace ((10 * 0 + n) mod UINT) with n; [reflexivity | ].
    unfold UINT in *. lia.
  - remember (S f) as f1 eqn:Hf1.
    cbn [dec_digits]. destruct (n <? 10) eqn:Hlt.
    + cbn [append]. rewrite s2l_digit by lia.
      replace ((10 * 0 + n) mod UINT) with n; [reflexivity | ].
      unfold UINT in *. lia.
    + rewrite append_assoc'. cbn [append].
      assert (Hpow : 10 ^ Z.of_nat (S f1) = 10 * 10 ^ Z.of_nat f1).
      { rewrite Nat2Z.inj_succ. rewrite Z.pow_succ_r by lia. reflexivity. }
      rewrite Hpow in Hn.
      assert (Hpos : 0 < 10 ^ Z.of_nat f1) by (apply Z.pow_pos_nonneg; lia).
      subst f1.
      rewrite IH; [ | lia | lia].
      rewrite s2l_digit by lia.
      replace ((10 * (n / 10) + n mod 10) mod UINT) with n; [reflexivity | ].
      unfold UINT in *. lia.
Qed.

Lemma LBEGIN_lt_pow : LBEGIN < 10 ^ Z.of_nat (S 19).
Proof. reflexivity. Qed.

(** one token followed by a separator or by the end of the string *)
Lemma s2l_token_sp : forall t r res surf, wfb_token t = true ->
  exists surf', s2l (tok_string t ++ String " " r)%string res surf false = s2l r (res ++ [t]) surf' false.
Proof.
  intros t r res surf Hw. unfold wfb_token in Hw.
  destruct ((0 <=? t) && (t <? LBEGIN)) eqn:Hface.
  - (* face id *)
    assert (Hlt : (LBEGIN <=? t) = false) by (unfold LBEGIN, UINT in *; lia).
    unfold tok_string. rewrite Hlt. unfold Z_to_string. change 20%nat with (S 19).
    rewrite s2l_digits; [ | pose proof LBEGIN_lt_pow; unfold LBEGIN, UINT in *; lia | unfold LBEGIN, UINT in *; lia].
    exists t. reflexivity.
  - assert (Hge : (LBEGIN <=? t) = true) by (unfold LTRUE, LOR, LAND, LNOT, LBEGIN, UINT in *; lia).
    unfold tok_string. rewrite Hge.
    assert (Hc : t = LTRUE \/ t = LOR \/ t = LAND \/ t = LNOT) by lia.
    exists surf.
    destruct Hc as [E | [E | [E | E]]]; subst t; reflexivity.
Qed.

Lemma s2l_token_end : forall t res surf, wfb_token t = true ->
  s2l (tok_string t) res surf false = Some (res ++ [t]).
Proof.
  intros t res surf Hw. unfold wfb_token in Hw.
  destruct ((0 <=? t) && (t <? LBEGIN)) eqn:Hface.
  - assert (Hlt : (LBEGIN <=? t) = false) by (unfold LBEGIN, UINT in *; lia).
    unfold tok_string. rewrite Hlt. unfold Z_to_string.
    change 20%nat with (S 19).
    replace (dec_digits (S 19) t) with (dec_digits (S 19) t ++ "")%string.
    2:{ generalize (dec_digits (S 19) t). induction s as [ | c s IH]; cbn; [reflexivity | rewrite IH; reflexivity]. }
    rewrite s2l_digits; [ | pose proof LBEGIN_lt_pow; unfold LBEGIN, UINT in *; lia | unfold LBEGIN, UINT in *; lia].
    reflexivity.
  - assert (Hge : (LBEGIN <=? t) = true) by (unfold LTRUE, LOR, LAND, LNOT, LBEGIN, UINT in *; lia).
    unfold tok_string. rewrite Hge.
    assert (Hc : t = LTRUE \/ t = LOR \/ t = LAND \/ t = LNOT) by lia.
    destruct Hc as [E | [E | [E | E]]]; subst t; reflexivity.
Qed.

Lemma s2l_join : forall l res surf, forallb wfb_token l = true ->
  s2l (join_sp (map tok_string l)) res surf false = Some (res ++ l).
Proof.
  induction l as [ | t l IH]; intros res surf Hw.
  - cbn. rewrite app_nil_r. reflexivity.
  - cbn [forallb] in Hw. apply andb_true_iff in Hw. destruct Hw as [Ht Hl].
    destruct l as [ | t' l'].
    + cbn [map join_sp]. apply s2l_token_end. exact Ht.
    + change (join_sp (map tok_string (t :: t' :: l')))
        with (tok_string t ++ String " " (join_sp (map tok_string (t' :: l'))))%string.
      destruct (s2l_token_sp t (join_sp (map tok_string (t' :: l'))) res surf Ht) as [surf' Hs].
      rewrite Hs. rewrite IH by exact Hl. rewrite <- app_assoc. reflexivity.
Qed.

Theorem logic_string_roundtrip : forall l, forallb wfb_token l = true ->
  string_to_logic (logic_to_string l) = Some l.
Proof.
  intros l Hw. unfold string_to_logic, logic_to_string. rewrite s2l_join by exact Hw. reflexivity.
Qed.

(** the excluded tokens really do not survive: parentheses are written but
    make the reader throw *)
Example logic_paren_not_read : string_to_logic (logic_to_string [0; LOPEN]) = None.
Proof. reflexivity. Qed.

Example logic_roundtrip_ex :
  forallb wfb_token [0; 12; LNOT; LAND; LBEGIN - 1; LTRUE; LOR] = true
  /\ logic_to_string [0; 12; LNOT; LAND; 4294967296; LTRUE; LOR] = "0 12 ~ & 4294967296 * |"%string.
Proof. split; reflexivity. Qed.
