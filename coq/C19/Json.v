(** * C19 — JSON value model (own inductive) and binary64 numbers as bit patterns.

    Executable definitions only (no proofs here: see JsonProofs.v).

    A double is modelled by its IEEE-754 binary64 bit pattern, a [Z] in
    [0, 2^64).  Equality of numbers is therefore *bitwise* equality, which is
    the equality the round-trip property needs (it distinguishes +0/-0 and
    NaN payloads, i.e. it is finer than C++ [==]).  The predicates below are
    the only facts about doubles that the ORANGE JSON codec uses
    ([std::isinf], [std::fabs(x) == max], [copysign], [==], [<=], [<], [>]). *)
From Coq Require Import ZArith List String Ascii Bool.
Import ListNotations.
Local Open Scope Z_scope.

Definition flt := Z.

Definition SIGNBIT : Z := 0x8000000000000000.
Definition F_INF  : Z := 0x7FF0000000000000.   (* +infinity *)
Definition F_MAX  : Z := 0x7FEFFFFFFFFFFFFF.   (* DBL_MAX *)
Definition F_ONE  : Z := 0x3FF0000000000000.   (* 1.0 *)
Definition F_ZERO : Z := 0.
Definition F_NINF : Z := SIGNBIT + F_INF.

Definition valid_flt (b : flt) : Prop := 0 <= b < 2 * SIGNBIT.
Definition valid_fltb (b : flt) : bool := (0 <=? b) && (b <? 2 * SIGNBIT).

Definition fmag (b : flt) : Z := b mod SIGNBIT.          (* bits of fabs *)
Definition fsign (b : flt) : Z := b / SIGNBIT.           (* 0 or 1 *)
Definition is_nan (b : flt) : bool := F_INF <? fmag b.
Definition is_inf (b : flt) : bool := fmag b =? F_INF.   (* std::isinf *)
Definition is_max (b : flt) : bool := fmag b =? F_MAX.   (* fabs(x) == DBL_MAX *)
Definition is_zero (b : flt) : bool := fmag b =? 0.      (* x == 0 *)
Definition copysign (m : Z) (b : flt) : flt := m + fsign b * SIGNBIT.
Definition is_finite (b : flt) : bool := fmag b <? F_INF.

(** Total order key: IEEE comparison of non-NaN values is comparison of keys. *)
Definition fkey (b : flt) : Z := if fsign b =? 0 then fmag b else - fmag b.
Definition feqb (a b : flt) : bool :=   (* C++ a == b *)
  negb (is_nan a) && negb (is_nan b) && (fkey a =? fkey b).
Definition fleb (a b : flt) : bool :=   (* C++ a <= b *)
  negb (is_nan a) && negb (is_nan b) && (fkey a <=? fkey b).
Definition fltb (a b : flt) : bool :=   (* C++ a < b *)
  negb (is_nan a) && negb (is_nan b) && (fkey a <? fkey b).

(** ** JSON values (nlohmann::json: null, boolean, integer, float, string,
    array, object).  Objects are association lists; the codec only produces
    objects with distinct keys, and lookup returns the first match. *)
Inductive json : Type :=
| JNull
| JBool (b : bool)
| JInt (z : Z)
| JFlt (f : flt)
| JStr (s : string)
| JArr (l : list json)
| JObj (m : list (string * json)).

Fixpoint jfind (k : string) (m : list (string * json)) : option json :=
  match m with
  | [] => None
  | (k', v) :: r => if String.eqb k k' then Some v else jfind k r
  end.

(** [j.find(k)] / [j.at(k)] on an object; [None] on non-objects. *)
Definition jget (k : string) (j : json) : option json :=
  match j with JObj m => jfind k m | _ => None end.

Definition jcontains (k : string) (j : json) : bool :=
  match jget k j with Some _ => true | None => false end.

(** ** The text layer: [dump] followed by [parse].

    nlohmann writes a non-finite double as [null]; every finite double is
    written in a shortest round-tripping decimal form and parses back to the
    same bits (trusted, checked dynamically by the harness).  Integers,
    strings, arrays and objects are preserved. *)
Fixpoint wire (j : json) : json :=
  match j with
  | JFlt f => if is_finite f then JFlt f else JNull
  | JArr l => JArr (map wire l)
  | JObj m => JObj (map (fun kv => (fst kv, wire (snd kv))) m)
  | _ => j
  end.

Fixpoint jfinite (j : json) : bool :=
  match j with
  | JFlt f => is_finite f
  | JArr l => forallb jfinite l
  | JObj m => forallb (fun kv => jfinite (snd kv)) m
  | _ => true
  end.

(** ** Generic decoders *)
Definition obind {A B} (o : option A) (f : A -> option B) : option B :=
  match o with Some a => f a | None => None end.
Notation "x <- m ;; k" := (obind m (fun x => k))
  (at level 61, m at next level, right associativity).

Fixpoint dec_list {A} (d : json -> option A) (l : list json) : option (list A) :=
  match l with
  | [] => Some []
  | x :: r => a <- d x ;; t <- dec_list d r ;; Some (a :: t)
  end.

Definition dec_arr {A} (d : json -> option A) (j : json) : option (list A) :=
  match j with JArr l => dec_list d l | _ => None end.

(** [get<real_type>()]: the model accepts only float-typed numbers (every
    real the encoder writes is float-typed; integer-typed reals in
    hand-written files would need an int->double conversion, not modelled). *)
Definition dec_real (j : json) : option flt :=
  match j with JFlt f => Some f | _ => None end.
Definition dec_int (j : json) : option Z :=
  match j with JInt z => Some z | _ => None end.
Definition dec_str (j : json) : option string :=
  match j with JStr s => Some s | _ => None end.
