(** * C19 — reader-side witnesses and the OBZ statement. *)
From Coq Require Import ZArith List String Ascii Bool.
From Celer Require Import C19.Json C19.OrangeCodec C19.JsonProofs C19.LeafProofs C19.CodecProofs
  C19.WireProofs C19.Reader C19.ReaderProofs C19.ReaderWitness.
Import ListNotations.
Local Open Scope Z_scope.

(** non-vacuity of the reader-side theorems *)
Example doc_ok_accepted :
  jwell doc_ok = true /\ exists x, dec_input doc_ok = Some x /\ rx_input x = true.
Proof. split; [vm_compute; reflexivity | eexists; split; [vm_compute; reflexivity | vm_compute; reflexivity]]. Qed.

Example doc_ok_fixed_point :
  exists x j1, dec_input doc_ok = Some x /\ update_file doc_ok = Some j1 /\ dec_input j1 = Some x
               /\ update_file j1 = Some j1.
Proof.
  destruct doc_ok_accepted as [Hw [x [Hd Hrx]]].
  destruct (update_fixed_point doc_ok x Hw Hd Hrx) as [j1 [H1 [H2 H3]]].
  exists x, j1. auto.
Qed.

(** **** The exceptions are real: (1) the tool's own output is rejected by the
    tool, (2) the value changes, (3) the text is not yet a fixed point at the
    second pass. *)
Lemma exception_second_pass_fails : forall d, In d [doc_empty_logic; doc_digits_lopen] ->
  jwell d = true /\ exists x j1, dec_input d = Some x /\ rx_input x = false
                                 /\ update_file d = Some j1 /\ update_file j1 = None.
Proof.
  intros d [H | [H | []]]; subst d; (split; [vm_compute; reflexivity | ]);
    eexists; eexists; (split; [vm_compute; reflexivity | ]); (split; [vm_compute; reflexivity | ]);
    (split; [vm_compute; reflexivity | vm_compute; reflexivity]).
Qed.

Lemma exception_value_changes :
  (exists x j1 x1, jwell doc_bbox_inverted = true /\ dec_input doc_bbox_inverted = Some x
      /\ update_file doc_bbox_inverted = Some j1 /\ dec_input j1 = Some x1
      /\ first_vol_bbox x1 = Some null_bbox /\ first_vol_bbox x <> Some null_bbox)
  /\ (exists x j1 x1, jwell doc_unit_bbox_null = true /\ dec_input doc_unit_bbox_null = Some x
      /\ update_file doc_unit_bbox_null = Some j1 /\ dec_input j1 = Some x1
      /\ first_unit_bbox x = Some null_bbox /\ first_unit_bbox x1 = Some inf_bbox).
Proof.
  split.
  - eexists; eexists; eexists. split; [vm_compute; reflexivity | ].
    split; [vm_compute; reflexivity | ]. split; [vm_compute; reflexivity | ].
    split; [vm_compute; reflexivity | ]. split; [vm_compute; reflexivity | ].
    vm_compute. intro H. discriminate H.
  - eexists; eexists; eexists. split; [vm_compute; reflexivity | ].
    split; [vm_compute; reflexivity | ]. split; [vm_compute; reflexivity | ].
    split; [vm_compute; reflexivity | ]. split; [vm_compute; reflexivity | vm_compute; reflexivity].
Qed.

Lemma exception_label_not_fixed_at_second_pass :
  exists j1 j2, jwell doc_label_at_at = true /\ update_file doc_label_at_at = Some j1
    /\ update_file j1 = Some j2 /\ j2 <> j1 /\ update_file j2 = Some j2.
Proof.
  eexists; eexists. split; [vm_compute; reflexivity | ].
  split; [vm_compute; reflexivity | ]. split; [vm_compute; reflexivity | ].
  split; [ | vm_compute; reflexivity].
  intro H. apply (f_equal (fun j => match j with
                                    | JObj (_ :: _ :: (_, JArr [JObj (_ :: (_, md) :: _)]) :: _) => Some md
                                    | _ => None end)) in H.
  vm_compute in H. discriminate H.
Qed.

(* ------------------------------------------------------------------ *)
(** ** The oriented bounding zone *)
Lemma enc_volume_clear_obz : forall v, enc_volume (clear_obz v) = enc_volume v.
Proof. intros [lab faces logic bb ob flags zo]. reflexivity. Qed.

Lemma enc_unit_drop_obz : forall u, enc_unit (drop_obz_unit u) = enc_unit u.
Proof.
  intros [surfs vols bb dm sl lab]. unfold enc_unit, drop_obz_unit.
  cbn [u_surfaces u_volumes u_bbox u_daughters u_surface_labels u_label].
  rewrite !map_map.
  rewrite (map_ext (fun x => enc_volume (clear_obz x)) enc_volume enc_volume_clear_obz).
  rewrite (map_ext (fun x => enc_label (v_label (clear_obz x))) (fun v => enc_label (v_label v)))
    by (intros [? ? ? ? ? ? ?]; reflexivity).
  reflexivity.
Qed.

Lemma enc_universes_drop_obz : forall us,
  opt_map enc_universe (map drop_obz_universe us) = opt_map enc_universe us.
Proof.
  induction us as [ | u us IH]; [reflexivity | ].
  cbn [map opt_map]. rewrite IH. destruct u as [u | r]; cbn [drop_obz_universe enc_universe].
  - rewrite enc_unit_drop_obz. reflexivity.
  - reflexivity.
Qed.

(** the writer does not look at the OBZ *)
Lemma enc_input_drop_obz : forall x, enc_input (drop_obz x) = enc_input x.
Proof.
  intros [us tol]. unfold enc_input, drop_obz. cbn [oi_universes oi_tol].
  rewrite enc_universes_drop_obz. reflexivity.
Qed.

(** **** Round trip with the OBZ included: everything but the OBZ survives,
    and the OBZ comes back default-constructed.  [drop_obz] is exactly what is
    lost. *)
Theorem dec_enc_orange_input_obz : forall x, wf (drop_obz x) ->
  exists j, enc_input x = Some j /\ wire j = j /\ dec_input (wire j) = Some (drop_obz x).
Proof.
  intros x H. destruct (dec_enc_orange_input (drop_obz x) H) as [j [He Hd]].
  exists j. rewrite <- enc_input_drop_obz. split; [exact He | exact Hd].
Qed.

Lemma clear_obz_id : forall v, v_obz v = None -> clear_obz v = v.
Proof. intros [lab faces logic bb ob flags zo] H. cbn in H. subst ob. reflexivity. Qed.

Lemma wfb_volume_no_obz : forall v, wfb_volume v = true -> v_obz v = None.
Proof.
  intros v H. rewrite wfb_volume_split in H.
  destruct (v_obz v); [ | reflexivity]. rewrite !andb_false_r in H. discriminate H.
Qed.

(** on well-formed inputs nothing is dropped (the new statement subsumes the old one) *)
Lemma drop_obz_wf_id : forall x, wf x -> drop_obz x = x.
Proof.
  intros [us tol] H. unfold wf, wfb_input in H. cbn [oi_universes oi_tol] in H.
  apply andb_true_iff in H. destruct H as [Hus _]. unfold drop_obz. cbn [oi_universes oi_tol].
  f_equal. induction us as [ | u us IH]; [reflexivity | ].
  cbn [forallb] in Hus. apply andb_true_iff in Hus. destruct Hus as [Hu Hr].
  cbn [map]. rewrite (IH Hr). f_equal. destruct u as [u | r]; [ | reflexivity].
  cbn [drop_obz_universe]. f_equal. destruct u as [surfs vols bb dm sl lab].
  unfold drop_obz_unit. cbn [u_surfaces u_volumes u_bbox u_daughters u_surface_labels u_label]. f_equal.
  cbn [wfb_universe] in Hu. unfold wfb_unit in Hu. cbn [u_surfaces u_volumes u_bbox u_daughters u_surface_labels u_label] in Hu.
  do 7 (apply andb_true_iff in Hu; destruct Hu as [Hu _]).
  apply andb_true_iff in Hu. destruct Hu as [_ Hv].
  induction vols as [ | v vols IHv]; [reflexivity | ].
  cbn [forallb] in Hv. apply andb_true_iff in Hv. destruct Hv as [Hv0 Hvr].
  cbn [map]. rewrite (IHv Hvr). rewrite (clear_obz_id v (wfb_volume_no_obz v Hv0)). reflexivity.
Qed.

(** **** ... and something IS lost: the full statement (with OBZ) is false. *)
Theorem obz_round_trip_refuted :
  exists x j, wf (drop_obz x) /\ has_obz x = true /\ enc_input x = Some j
              /\ dec_input (wire j) = Some (drop_obz x) /\ drop_obz x <> x.
Proof.
  exists x_obz. destruct (dec_enc_orange_input_obz x_obz) as [j [He [_ Hd]]]; [vm_compute; reflexivity | ].
  exists j. split; [vm_compute; reflexivity | ]. split; [reflexivity | ].
  split; [exact He | ]. split; [exact Hd | ].
  intro H. apply (f_equal has_obz) in H. vm_compute in H. discriminate H.
Qed.
