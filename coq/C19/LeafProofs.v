(** * C19 — round-trip lemmas for the leaf structs: labels, bounding boxes,
    z order, transforms, tolerances, zipped surfaces. *)
From Coq Require Import ZArith List String Ascii Bool Lia ZifyBool.
From Celer Require Import C19.Json C19.OrangeCodec C19.JsonProofs.
Import ListNotations.
Local Open Scope Z_scope.

(* ------------------------------------------------------------------ *)
(** ** Labels *)
Lemma rsplit_no_at : forall s, has_at s = false -> rsplit_at s = None.
Proof.
  induction s as [ | c s IH]; intro H; cbn in *; [reflexivity | ].
  apply orb_false_iff in H. destruct H as [Hc Hs].
  rewrite IH by exact Hs. rewrite Hc. reflexivity.
Qed.

Lemma rsplit_app : forall n e, has_at e = false ->
  rsplit_at (n ++ String AT e)%string = Some (n, e).
Proof.
  induction n as [ | c n IH]; intros e He.
  - cbn [append rsplit_at]. rewrite rsplit_no_at by exact He. reflexivity.
  - cbn [append rsplit_at]. rewrite IH by exact He. reflexivity.
Qed.

Lemma string_eqb_empty : forall s, String.eqb s "" = true -> s = ""%string.
Proof. intros s H. apply String.eqb_eq. exact H. Qed.

Theorem dec_enc_label : forall l, wfb_label l = true -> dec_label (enc_label l) = Some l.
Proof.
  intros [n e] H. unfold wfb_label in H. cbn [l_name l_ext] in H.
  apply andb_true_iff in H. destruct H as [He Hn].
  apply negb_true_iff in He.
  unfold enc_label, dec_label, label_to_string, label_from_separator. cbn [l_name l_ext dec_str obind].
  destruct (String.eqb e "") eqn:Hee.
  - apply string_eqb_empty in Hee. subst e. cbn in Hn. apply negb_true_iff in Hn.
    rewrite rsplit_no_at by exact Hn. reflexivity.
  - rewrite rsplit_app by exact He. reflexivity.
Qed.

Lemma dec_enc_labels : forall ls, forallb wfb_label ls = true ->
  dec_list dec_label (map enc_label ls) = Some ls.
Proof.
  intros ls H. apply dec_list_map. intros x Hx. apply dec_enc_label.
  rewrite forallb_forall in H. apply H. exact Hx.
Qed.

(* ------------------------------------------------------------------ *)
(** ** Bounding boxes *)
Lemma coord_ok_valid : forall x, coord_ok x = true -> valid_flt x /\ is_nan x = false /\ is_max x = false.
Proof.
  intros x H. unfold coord_ok in H.
  apply andb_true_iff in H. destruct H as [H Hm]. apply andb_true_iff in H. destruct H as [Hv Hn].
  apply negb_true_iff in Hm. apply negb_true_iff in Hn.
  split; [apply valid_fltb_true; exact Hv | split; assumption].
Qed.

Lemma vall_3 : forall f a b c, vall f (a, b, c) = true -> f a = true /\ f b = true /\ f c = true.
Proof.
  intros f a b c H. cbn in H. apply andb_true_iff in H. destruct H as [H Hc].
  apply andb_true_iff in H. destruct H as [Ha Hb]. auto.
Qed.

Lemma vmap_round : forall v, vall coord_ok v = true -> vmap max_to_inf (vmap inf_to_max v) = v.
Proof.
  intros [[a b] c] H. apply vall_3 in H. destruct H as [Ha [Hb Hc]].
  apply coord_ok_valid in Ha. apply coord_ok_valid in Hb. apply coord_ok_valid in Hc.
  cbn. rewrite !max_to_inf_inf_to_max by tauto. reflexivity.
Qed.

Lemma bbox_bits_eqb_eq : forall a b, bbox_bits_eqb a b = true -> a = b.
Proof.
  intros [[[a1 a2] a3] [[a4 a5] a6]] [[[b1 b2] b3] [[b4 b5] b6]] H.
  cbn in H. repeat (apply andb_true_iff in H; destruct H as [H ?]).
  repeat match goal with E : (_ =? _) = true |- _ => apply Z.eqb_eq in E end.
  subst. reflexivity.
Qed.

Theorem dec_enc_bbox : forall b, wfb_bbox b = true -> dec_bbox (enc_bbox b) = Some b.
Proof.
  intros [lo hi] H. unfold wfb_bbox in H. cbn [b_lo b_hi] in H.
  apply andb_true_iff in H. destruct H as [H Hnull].
  apply andb_true_iff in H. destruct H as [Hlo Hhi].
  unfold enc_bbox. cbn [b_lo b_hi].
  destruct (bbox_nonnull {| b_lo := lo; b_hi := hi |}) eqn:Hnn.
  - pose proof (vmap_round lo Hlo) as Rlo. pose proof (vmap_round hi Hhi) as Rhi.
    destruct lo as [[a b] c]. destruct hi as [[a' b'] c'].
    cbn in Rlo, Rhi |- *. rewrite Rlo, Rhi. reflexivity.
  - cbn in Hnull. apply bbox_bits_eqb_eq in Hnull. rewrite Hnull. reflexivity.
Qed.

(** C++ [bbox == BBox::from_infinite()] pins the bits *)
Lemma bbox_eqb_inf : forall b, vall coord_ok (b_lo b) = true -> vall coord_ok (b_hi b) = true ->
  bbox_eqb b inf_bbox = true -> b = inf_bbox.
Proof.
  intros [[[a1 a2] a3] [[a4 a5] a6]] Hlo Hhi H. cbn [b_lo b_hi] in *.
  apply vall_3 in Hlo. apply vall_3 in Hhi.
  destruct Hlo as [H1 [H2 H3]]. destruct Hhi as [H4 [H5 H6]].
  apply coord_ok_valid in H1, H2, H3, H4, H5, H6.
  unfold bbox_eqb, inf_bbox in H. cbn [b_lo b_hi v3_eqb] in H.
  apply andb_true_iff in H. destruct H as [Hl Hh].
  apply andb_true_iff in Hl. destruct Hl as [Hl E3]. apply andb_true_iff in Hl. destruct Hl as [E1 E2].
  apply andb_true_iff in Hh. destruct Hh as [Hh E6]. apply andb_true_iff in Hh. destruct Hh as [E4 E5].
  apply feqb_ninf in E1; [ | tauto]. apply feqb_ninf in E2; [ | tauto]. apply feqb_ninf in E3; [ | tauto].
  apply feqb_pinf in E4; [ | tauto]. apply feqb_pinf in E5; [ | tauto]. apply feqb_pinf in E6; [ | tauto].
  subst. reflexivity.
Qed.

Lemma wfb_bbox_coords : forall b, wfb_bbox b = true ->
  vall coord_ok (b_lo b) = true /\ vall coord_ok (b_hi b) = true.
Proof.
  intros b H. unfold wfb_bbox in H.
  apply andb_true_iff in H. destruct H as [H _]. apply andb_true_iff in H. exact H.
Qed.

(* ------------------------------------------------------------------ *)
(** ** Z order *)
Lemma to_zorder_char : forall z, to_zorder (zorder_char z) = z.
Proof. destruct z; reflexivity. Qed.

Lemma zorder_eqb_eq : forall a b, zorder_eqb a b = true -> a = b.
Proof. destruct a, b; cbn; intro H; try reflexivity; discriminate H. Qed.

Lemma dec_zorder_char : forall z, dec_zorder (JStr (String (zorder_char z) "")) = Some z.
Proof. intro z. cbn. rewrite to_zorder_char. reflexivity. Qed.

(* ------------------------------------------------------------------ *)
(** ** Transforms (all three variants, no hypothesis) *)
Theorem dec_enc_transform : forall t, dec_transform (enc_transform t) = Some t.
Proof.
  intro t. destruct t as [ | [[a b] c] | [[a b] c] [[d e] f] [[g h] i] [[x y] z]]; reflexivity.
Qed.

(* ------------------------------------------------------------------ *)
(** ** Tolerance *)
Theorem dec_enc_tolerance : forall t, tol_valid t = true -> dec_tolerance (enc_tolerance t) = Some t.
Proof.
  intros [rel ab] H. unfold tol_valid in H. cbn [t_rel t_abs] in H.
  apply andb_true_iff in H. destruct H as [H Ha]. apply andb_true_iff in H. destruct H as [Hr0 Hr1].
  unfold dec_tolerance, enc_tolerance. cbn [t_rel t_abs].
  cbn [jget jfind String.eqb Ascii.eqb Bool.eqb obind dec_real].
  rewrite Hr0, Hr1. cbn [andb negb]. rewrite Ha. reflexivity.
Qed.

(* ------------------------------------------------------------------ *)
(** ** Zipped surfaces: every surface type's arity *)
Lemma to_surface_type_name : forall t, to_surface_type (surf_name t) = Some t.
Proof. destruct t; reflexivity. Qed.

Lemma opt_map_some : forall {A B} (f : A -> option B) (g : A -> B) l,
  (forall x, In x l -> f x = Some (g x)) -> opt_map f l = Some (map g l).
Proof.
  intros A B f g l. induction l as [ | a r IH]; intro H; cbn; [reflexivity | ].
  rewrite (H a) by (left; reflexivity). cbn.
  rewrite IH by (intros x Hx; apply H; right; exact Hx). reflexivity.
Qed.

Lemma opt_map_map_some : forall {A B C} (f : B -> option C) (h : A -> B) (g : A -> C) l,
  (forall x, In x l -> f (h x) = Some (g x)) -> opt_map f (map h l) = Some (map g l).
Proof.
  intros A B C f h g l. induction l as [ | a r IH]; intro H; cbn; [reflexivity | ].
  rewrite (H a) by (left; reflexivity). cbn.
  rewrite IH by (intros x Hx; apply H; right; exact Hx). reflexivity.
Qed.

Lemma firstn_app_len : forall {A} (a b : list A), firstn (List.length a) (a ++ b) = a.
Proof.
  intros A a b. rewrite firstn_app. rewrite Nat.sub_diag. cbn. rewrite app_nil_r. apply firstn_all.
Qed.
Lemma skipn_app_len : forall {A} (a b : list A), skipn (List.length a) (a ++ b) = b.
Proof.
  intros A a b. rewrite skipn_app. rewrite Nat.sub_diag. cbn. rewrite skipn_all. reflexivity.
Qed.

Lemma unzip_zip : forall ss, forallb wfb_surface ss = true ->
  unzip_surfaces (map s_type ss) (map (fun s => Z.of_nat (List.length (s_data s))) ss)
                 (List.concat (map s_data ss)) = Some ss.
Proof.
  induction ss as [ | [t d] ss IH]; intro H; [reflexivity | ].
  cbn [forallb] in H. apply andb_true_iff in H. destruct H as [Hs Hr].
  unfold wfb_surface in Hs. cbn [s_type s_data] in Hs.
  apply andb_true_iff in Hs. destruct Hs as [Hs _].
  apply andb_true_iff in Hs. destruct Hs as [Hv Hlen].
  apply Nat.eqb_eq in Hlen.
  cbn [map List.concat unzip_surfaces s_type s_data].
  rewrite Hv. cbn [negb]. rewrite Hlen. rewrite Z.eqb_refl. cbn [negb].
  assert (Hnlt : (List.length (d ++ List.concat (map s_data ss)) <? surf_arity t)%nat = false).
  { apply Nat.ltb_ge. rewrite app_length. lia. }
  rewrite Hnlt.
  rewrite <- Hlen. rewrite skipn_app_len, firstn_app_len.
  rewrite IH by exact Hr. reflexivity.
Qed.

Theorem dec_enc_surfaces : forall ss, forallb wfb_surface ss = true ->
  dec_surfaces (enc_surfaces ss) = Some ss.
Proof.
  intros ss H. unfold dec_surfaces, enc_surfaces.
  cbn [jget jfind String.eqb Ascii.eqb Bool.eqb obind dec_arr].
  rewrite (dec_list_map_f dec_str (fun s => JStr (surf_name (s_type s))) (fun s => surf_name (s_type s)))
    by reflexivity.
  cbn [obind]. rewrite dec_reals. cbn [obind].
  rewrite (dec_list_map_f dec_int (fun s => JInt (Z.of_nat (List.length (s_data s))))
             (fun s => Z.of_nat (List.length (s_data s)))) by reflexivity.
  cbn [obind].
  rewrite (opt_map_map_some to_surface_type (fun s => surf_name (s_type s)) s_type)
    by (intros x _; apply to_surface_type_name).
  cbn [obind].
  apply unzip_zip. exact H.
Qed.

(** every non-involute type with data of its own arity is well-formed *)
Example every_surface_type_round_trips :
  let mk t := mkSurf t (repeat F_ONE (surf_arity t)) in
  let ss := map mk (filter visit_supported all_surf_types) in
  List.length ss = 17%nat /\ forallb wfb_surface ss = true /\ dec_surfaces (enc_surfaces ss) = Some ss.
Proof. cbn zeta. split; [reflexivity | split; [reflexivity | apply dec_enc_surfaces; reflexivity]]. Qed.

(** the involute case is refuted in the model (and crashes the real reader) *)
Lemma dec_enc_surfaces_involute_refuted :
  exists ss, dec_surfaces (enc_surfaces ss) = None.
Proof. exists [mkSurf Sinv (repeat F_ONE 6)]. reflexivity. Qed.
