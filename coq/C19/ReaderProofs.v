(** * C19 — the reader side: what [from_json] returns is well-formed up to a
    short list of exceptions, hence the round trip holds for every accepted
    file (not only for writer output), and [orange-update] reaches a fixed
    point at its second pass. *)
From Coq Require Import ZArith List String Ascii Bool Lia ZifyBool.
From Celer Require Import C19.Json C19.OrangeCodec C19.JsonProofs C19.LogicProofs C19.LeafProofs
  C19.CodecProofs C19.WireProofs C19.Reader.
Import ListNotations.
Local Open Scope Z_scope.
Ltac Zify.zify_post_hook ::= Z.div_mod_to_equations.

(** invert [x <- m ;; k = Some y] *)
Ltac oinv H :=
  match type of H with
  | obind ?m _ = Some _ =>
      let E := fresh "E" in destruct m eqn:E; cbn [obind] in H; [ | discriminate H]
  end.

(* ------------------------------------------------------------------ *)
(** ** parsed documents: sub-documents are parsed documents *)
Lemma jfind_well : forall m k v, forallb (fun kv => jwell (snd kv)) m = true ->
  jfind k m = Some v -> jwell v = true.
Proof.
  induction m as [ | [k' v'] m IH]; intros k v Hw Hf; cbn [jfind] in Hf; [discriminate Hf | ].
  cbn [forallb snd] in Hw. apply andb_true_iff in Hw. destruct Hw as [Hv Hm].
  destruct (String.eqb k k').
  - inversion Hf. subst. exact Hv.
  - apply (IH k v Hm Hf).
Qed.

Lemma jget_well : forall j k v, jwell j = true -> jget k j = Some v -> jwell v = true.
Proof.
  intros j k v Hw Hg. destruct j; cbn [jget] in Hg; try discriminate Hg.
  cbn [jwell] in Hw. apply (jfind_well m k v Hw Hg).
Qed.

Lemma first_key_well : forall ks j v, jwell j = true -> first_key ks j = Some v -> jwell v = true.
Proof.
  induction ks as [ | k ks IH]; intros j v Hw Hf; cbn [first_key] in Hf; [discriminate Hf | ].
  destruct (jget k j) eqn:E.
  - inversion Hf. subst. apply (jget_well j k v Hw E).
  - apply (IH j v Hw Hf).
Qed.

(** [dec_list] with an invariant on the elements *)
Lemma dec_list_forall : forall {A} (d : json -> option A) (P : A -> bool) l xs,
  (forall j x, In j l -> d j = Some x -> P x = true) ->
  dec_list d l = Some xs -> forallb P xs = true.
Proof.
  intros A d P. induction l as [ | j l IH]; intros xs Hd H; cbn [dec_list] in H.
  - inversion H. reflexivity.
  - oinv H. oinv H. inversion H. subst xs. cbn [forallb].
    rewrite (Hd j a) by (try left; auto). cbn [andb].
    apply IH; [ | reflexivity]. intros j' x' Hin. apply Hd. right. exact Hin.
Qed.

Lemma dec_arr_forall : forall {A} (d : json -> option A) (P : A -> bool) j xs,
  jwell j = true ->
  (forall j' x, jwell j' = true -> d j' = Some x -> P x = true) ->
  dec_arr d j = Some xs -> forallb P xs = true.
Proof.
  intros A d P j xs Hw Hd H. destruct j; cbn [dec_arr] in H; try discriminate H.
  cbn [jwell] in Hw. rewrite forallb_forall in Hw.
  apply (dec_list_forall d P l xs); [ | exact H].
  intros j' x Hin. apply Hd. apply Hw. exact Hin.
Qed.

Lemma dec_real_well : forall j f, jwell j = true -> dec_real j = Some f -> fwell f = true.
Proof. intros j f Hw H. destruct j; cbn in H; try discriminate H. inversion H. subst. exact Hw. Qed.

Lemma dec_reals_well : forall j l, jwell j = true -> dec_arr dec_real j = Some l -> forallb fwell l = true.
Proof. intros j l Hw H. apply (dec_arr_forall dec_real fwell j l Hw dec_real_well H). Qed.

Lemma fwell_finite : forall l, forallb fwell l = true -> forallb is_finite l = true.
Proof.
  induction l as [ | f l IH]; intro H; [reflexivity | ].
  cbn [forallb] in *. apply andb_true_iff in H. destruct H as [Hf Hl].
  unfold fwell in Hf. apply andb_true_iff in Hf. destruct Hf as [_ Hf].
  rewrite Hf. cbn [andb]. apply IH. exact Hl.
Qed.

(* ------------------------------------------------------------------ *)
(** ** bounding boxes *)
Lemma coord_core : forall f, 0 <= f < 18446744073709551616 ->
  f mod 9223372036854775808 < 9218868437227405312 ->
  let g := if f mod 9223372036854775808 =? 9218868437227405311
           then 9218868437227405312 + (f / 9223372036854775808) * 9223372036854775808 else f in
  (0 <= g < 18446744073709551616) /\ g mod 9223372036854775808 <= 9218868437227405312
  /\ g mod 9223372036854775808 <> 9218868437227405311.
Proof.
  intros f Hv Hf. cbv zeta.
  destruct (Z.eqb_spec (f mod 9223372036854775808) 9218868437227405311) as [Hm | Hm].
  - assert (Hq : f / 9223372036854775808 = 0 \/ f / 9223372036854775808 = 1).
    { assert (0 <= f / 9223372036854775808 < 2); [ | lia].
      split; [apply Z.div_pos; lia | apply Z.div_lt_upper_bound; lia]. }
    destruct Hq as [Hq | Hq]; rewrite Hq; vm_compute; repeat split; discriminate.
  - repeat split; try lia.
Qed.
Lemma coord_ok_max_to_inf : forall f, fwell f = true -> coord_ok (max_to_inf f) = true.
Proof.
  intros f H. unfold fwell in H. apply andb_true_iff in H. destruct H as [Hv Hf].
  apply valid_fltb_true in Hv. unfold valid_flt in Hv.
  unfold is_finite, fmag in Hf. apply Z.ltb_lt in Hf.
  change (2 * SIGNBIT) with 18446744073709551616 in Hv.
  change SIGNBIT with 9223372036854775808 in Hf. change F_INF with 9218868437227405312 in Hf.
  destruct (coord_core f Hv Hf) as [[G1 G2] [G3 G4]].
  unfold coord_ok, max_to_inf, is_max, is_nan, valid_fltb, copysign, fmag, fsign.
  change SIGNBIT with 9223372036854775808. change F_INF with 9218868437227405312.
  change F_MAX with 9218868437227405311. change (2 * 9223372036854775808) with 18446744073709551616.
  set (g := if f mod 9223372036854775808 =? 9218868437227405311
           then 9218868437227405312 + (f / 9223372036854775808) * 9223372036854775808 else f) in *.
  apply andb_true_iff. split; [apply andb_true_iff; split | ].
  - apply andb_true_iff. split; [apply Z.leb_le; exact G1 | apply Z.ltb_lt; exact G2].
  - apply negb_true_iff. apply Z.ltb_ge. exact G3.
  - apply negb_true_iff. apply Z.eqb_neq. exact G4.
Qed.

Lemma dec_vec3_well : forall j v, jwell j = true -> dec_vec3 j = Some v -> vall fwell v = true.
Proof.
  intros j v Hw H. destruct j as [ | | | | | l | ]; try discriminate H.
  destruct l as [ | a [ | b [ | c [ | ? ?]]]]; try discriminate H.
  cbn [dec_vec3] in H. cbn [jwell forallb] in Hw.
  apply andb_true_iff in Hw. destruct Hw as [Ha Hw].
  apply andb_true_iff in Hw. destruct Hw as [Hb Hw].
  apply andb_true_iff in Hw. destruct Hw as [Hc _].
  oinv H. oinv H. oinv H. inversion H. subst v. cbn [vall].
  rewrite (dec_real_well a f Ha E), (dec_real_well b f0 Hb E0), (dec_real_well c f1 Hc E1). reflexivity.
Qed.

Lemma vall_coord_ok : forall v, vall fwell v = true -> vall coord_ok (vmap max_to_inf v) = true.
Proof.
  intros [[a b] c] H. apply vall_3 in H. destruct H as [Ha [Hb Hc]]. cbn [vmap vall].
  rewrite !coord_ok_max_to_inf by assumption. reflexivity.
Qed.

Lemma dec_bbox_coords : forall j b, jwell j = true -> dec_bbox j = Some b ->
  vall coord_ok (b_lo b) = true /\ vall coord_ok (b_hi b) = true.
Proof.
  intros j b Hw H. destruct j as [ | | | | | l | ]; try discriminate H.
  - inversion H. subst b. split; vm_compute; reflexivity.
  - destruct l as [ | lo [ | hi [ | ? ?]]]; try discriminate H.
    cbn [dec_bbox] in H. cbn [jwell forallb] in Hw.
    apply andb_true_iff in Hw. destruct Hw as [Hlo Hw].
    apply andb_true_iff in Hw. destruct Hw as [Hhi _].
    oinv H. oinv H. inversion H. subst b. cbn [b_lo b_hi].
    split; apply vall_coord_ok; [apply (dec_vec3_well lo v Hlo E) | apply (dec_vec3_well hi v0 Hhi E0)].
Qed.

Lemma get_bbox_coords : forall j b, jwell j = true -> get_bbox j = Some b ->
  vall coord_ok (b_lo b) = true /\ vall coord_ok (b_hi b) = true.
Proof.
  intros j b Hw H. unfold get_bbox in H. destruct (jget "bbox" j) eqn:E.
  - apply (dec_bbox_coords j0 b); [ | exact H]. apply (jget_well j "bbox" j0 Hw E).
  - inversion H. subst b. split; vm_compute; reflexivity.
Qed.

(* ------------------------------------------------------------------ *)
(** ** volumes *)
Lemma dec_volume_shape : forall j v, dec_volume j = Some v ->
  v_label v = empty_label /\ v_obz v = None
  /\ (zorder_eqb (v_zorder v) ZBackground = true -> v_logic v = [LTRUE; LNOT] /\ v_bbox v = null_bbox).
Proof.
  intros j v H. unfold dec_volume in H.
  oinv H. oinv H. oinv H. oinv H.
  destruct (zorder_eqb z0 ZBackground) eqn:Hz.
  - inversion H. subst v. cbn. auto.
  - oinv H. oinv H. oinv H. oinv H. inversion H. subst v. cbn [v_label v_obz v_zorder v_logic v_bbox].
    split; [reflexivity | split; [reflexivity | ]]. intro Hc. rewrite Hz in Hc. discriminate Hc.
Qed.

Lemma dec_volume_bbox : forall j v, jwell j = true -> dec_volume j = Some v ->
  vall coord_ok (b_lo (v_bbox v)) = true /\ vall coord_ok (b_hi (v_bbox v)) = true.
Proof.
  intros j v Hw H. unfold dec_volume in H.
  oinv H. oinv H. oinv H. oinv H.
  destruct (zorder_eqb z0 ZBackground) eqn:Hz.
  - inversion H. subst v. split; vm_compute; reflexivity.
  - oinv H. oinv H. oinv H. oinv H. inversion H. subst v. cbn [v_bbox].
    apply (get_bbox_coords j b Hw E6).
Qed.

(** the well-formedness of a volume, split into what the reader guarantees
    and the exceptions *)
Lemma wfb_volume_split : forall v,
  wfb_volume v =
  (rx_volume v
   && (vall coord_ok (b_lo (v_bbox v)) && vall coord_ok (b_hi (v_bbox v)))
   && match v_obz v with None => true | Some _ => false end
   && (negb (zorder_eqb (v_zorder v) ZBackground)
       || (list_eqb (v_logic v) [LTRUE; LNOT] && bbox_bits_eqb (v_bbox v) null_bbox))).
Proof.
  intro v. unfold wfb_volume, rx_volume, wfb_bbox.
  destruct (forallb wfb_token (v_logic v)); destruct (negb (is_nil (v_logic v)));
    destruct (vall coord_ok (b_lo (v_bbox v))); destruct (vall coord_ok (b_hi (v_bbox v)));
    destruct (bbox_nonnull (v_bbox v) || bbox_bits_eqb (v_bbox v) null_bbox);
    destruct (v_obz v); destruct (wfb_label (v_label v));
    destruct (negb (zorder_eqb (v_zorder v) ZBackground)
              || list_eqb (v_logic v) [LTRUE; LNOT] && bbox_bits_eqb (v_bbox v) null_bbox);
    reflexivity.
Qed.

Lemma wfb_volume_set_label : forall l v,
  wfb_volume (set_label (l, v))
  = wfb_volume (set_label (empty_label, v)) && wfb_label l.
Proof.
  intros l [lab faces logic bb ob flags zo]. unfold set_label, wfb_volume.
  cbn [v_label v_faces v_logic v_bbox v_obz v_flags v_zorder].
  replace (wfb_label empty_label) with true by reflexivity.
  destruct (forallb wfb_token logic); destruct (negb (is_nil logic)); destruct (wfb_bbox bb);
    destruct ob; destruct (wfb_label l);
    destruct (negb (zorder_eqb zo ZBackground) || list_eqb logic [LTRUE; LNOT] && bbox_bits_eqb bb null_bbox);
    reflexivity.
Qed.

Lemma rx_volume_set_label : forall l v,
  rx_volume (set_label (l, v)) = rx_volume (set_label (empty_label, v)) && wfb_label l.
Proof.
  intros l [lab faces logic bb ob flags zo]. unfold set_label, rx_volume.
  cbn [v_label v_faces v_logic v_bbox v_obz v_flags v_zorder].
  replace (wfb_label empty_label) with true by reflexivity.
  rewrite andb_true_r. reflexivity.
Qed.

Lemma set_empty_label_id : forall j v, dec_volume j = Some v -> set_label (empty_label, v) = v.
Proof.
  intros j v H. destruct (dec_volume_shape j v H) as [Hl _].
  destruct v as [lab faces logic bb ob flags zo]. cbn in Hl. subst lab. reflexivity.
Qed.

(** a decoded volume is well-formed iff it is none of the exceptions *)
Lemma dec_volume_wf : forall j v, jwell j = true -> dec_volume j = Some v ->
  wfb_volume v = rx_volume v.
Proof.
  intros j v Hw H. rewrite wfb_volume_split.
  destruct (dec_volume_bbox j v Hw H) as [Hlo Hhi]. rewrite Hlo, Hhi.
  destruct (dec_volume_shape j v H) as [_ [Ho Hbg]]. rewrite Ho.
  destruct (zorder_eqb (v_zorder v) ZBackground) eqn:Hz.
  - destruct (Hbg eq_refl) as [Hl Hb]. rewrite Hl, Hb.
    replace (list_eqb [LTRUE; LNOT] [LTRUE; LNOT]) with true by (vm_compute; reflexivity).
    replace (bbox_bits_eqb null_bbox null_bbox) with true by (vm_compute; reflexivity).
    cbn [negb orb andb]. rewrite !andb_true_r. reflexivity.
  - cbn [negb orb andb]. rewrite !andb_true_r. reflexivity.
Qed.

(* ------------------------------------------------------------------ *)
(** ** surfaces *)
Lemma forallb_firstn : forall {A} (p : A -> bool) n l, forallb p l = true -> forallb p (firstn n l) = true.
Proof.
  intros A p. induction n as [ | n IH]; intros [ | a l] H; cbn [firstn forallb] in *; try reflexivity.
  apply andb_true_iff in H. destruct H as [Ha Hl]. rewrite Ha. cbn [andb]. apply IH. exact Hl.
Qed.
Lemma forallb_skipn : forall {A} (p : A -> bool) n l, forallb p l = true -> forallb p (skipn n l) = true.
Proof.
  intros A p. induction n as [ | n IH]; intros [ | a l] H; cbn [skipn forallb] in *; try reflexivity; try exact H.
  apply andb_true_iff in H. destruct H as [_ Hl]. apply IH. exact Hl.
Qed.

Lemma unzip_surfaces_wf : forall types sizes data ss, forallb is_finite data = true ->
  unzip_surfaces types sizes data = Some ss -> forallb wfb_surface ss = true.
Proof.
  induction types as [ | t tr IH]; intros sizes data ss Hd H; cbn [unzip_surfaces] in H.
  - inversion H. reflexivity.
  - destruct sizes as [ | n sr]; [discriminate H | ].
    destruct (visit_supported t) eqn:Hv; cbn [negb] in H; [ | discriminate H].
    destruct (n =? Z.of_nat (surf_arity t)) eqn:Hn; cbn [negb] in H; [ | discriminate H].
    destruct (List.length data <? surf_arity t)%nat eqn:Hl; [discriminate H | ].
    oinv H. inversion H. subst ss. cbn [forallb].
    rewrite (IH sr (skipn (surf_arity t) data) l (forallb_skipn _ _ _ Hd) E). rewrite andb_true_r.
    unfold wfb_surface. cbn [s_type s_data]. rewrite Hv. cbn [andb].
    rewrite (forallb_firstn _ _ _ Hd). rewrite andb_true_r.
    apply Nat.eqb_eq. apply firstn_length_le. apply Nat.ltb_ge in Hl. exact Hl.
Qed.

Lemma dec_surfaces_wf : forall j ss, jwell j = true -> dec_surfaces j = Some ss ->
  forallb wfb_surface ss = true.
Proof.
  intros j ss Hw H. unfold dec_surfaces in H.
  oinv H. oinv H. oinv H. oinv H. oinv H. oinv H. oinv H.
  apply (unzip_surfaces_wf l2 l1 l0 ss); [ | exact H].
  apply fwell_finite. apply (dec_reals_well j1 l0); [ | exact E2].
  apply (jget_well j "data" j1 Hw E1).
Qed.

(* ------------------------------------------------------------------ *)
(** ** transforms and daughter maps *)
Lemma transform_of_data_data : forall d t, transform_of_data d = Some t -> transform_data t = d.
Proof.
  intros d t H.
  destruct d as [ | a [ | b [ | c [ | d0 [ | e [ | f [ | g [ | h [ | i [ | x [ | y [ | z [ | ? ?]]]]]]]]]]]]];
    cbn [transform_of_data] in H; try discriminate H; inversion H; reflexivity.
Qed.

Lemma dec_transform_wf : forall j t, jwell j = true -> dec_transform j = Some t -> wfb_transform t = true.
Proof.
  intros j t Hw H. unfold dec_transform in H. oinv H.
  unfold wfb_transform. rewrite (transform_of_data_data l t H).
  apply fwell_finite. apply (dec_reals_well j l Hw E).
Qed.

Lemma chunk3_finite : forall l, forallb is_finite l = true -> forallb (vall is_finite) (chunk3 l) = true.
Proof.
  fix IH 1. intros [ | a [ | b [ | c r]]] H; try reflexivity.
  cbn [chunk3 forallb vall] in *.
  apply andb_true_iff in H. destruct H as [Ha H].
  apply andb_true_iff in H. destruct H as [Hb H].
  apply andb_true_iff in H. destruct H as [Hc H].
  rewrite Ha, Hb, Hc. cbn [andb]. apply IH. exact H.
Qed.

Lemma make_transform_wf : forall t, vall is_finite t = true -> wfb_transform (make_transform t) = true.
Proof.
  intros [[a b] c] H. unfold make_transform. destruct (vall is_zero (a, b, c)); [reflexivity | ].
  unfold wfb_transform. cbn [transform_data v3list forallb]. cbn [vall] in H.
  rewrite andb_true_r. rewrite andb_assoc. exact H.
Qed.

Lemma make_transform_rect_ok : forall u t, vall is_finite t = true ->
  rect_daughter_ok (mkDaughter u (make_transform t)) = true.
Proof.
  intros u t H. unfold rect_daughter_ok, make_transform. cbn [d_trans].
  destruct (vall is_zero t) eqn:Hz; [reflexivity | ]. rewrite Hz, H. reflexivity.
Qed.

Definition dm_ok (m : list (Z * daughter)) : bool :=
  keys_sorted m && forallb (fun kd => wfb_transform (d_trans (snd kd))) m.

Lemma keys_sorted_cons : forall k d m, keys_sorted ((k, d) :: m) = true <->
  keys_sorted m = true /\ (forall k' d', In (k', d') m -> k < k').
Proof.
  intros k d m. split.
  - intro H. split; [apply (keys_sorted_tail _ _ H) | apply (keys_sorted_head_lt _ _ _ H)].
  - intros [Hs Hlt]. destruct m as [ | [k' d'] m]; [reflexivity | ].
    cbn [keys_sorted]. apply andb_true_iff. split.
    + apply Z.ltb_lt. apply (Hlt k' d'). left. reflexivity.
    + exact Hs.
Qed.

Lemma emplace_in : forall k d m k' d', In (k', d') (emplace k d m) -> (k', d') = (k, d) \/ In (k', d') m.
Proof.
  induction m as [ | [k0 d0] m IH]; intros k' d' H; cbn [emplace] in H.
  - destruct H as [H | []]. left. symmetry. exact H.
  - destruct (k <? k0).
    + destruct H as [H | H]; [left; symmetry; exact H | right; exact H].
    + destruct (k =? k0); [right; exact H | ].
      destruct H as [H | H]; [right; left; exact H | ].
      destruct (IH k' d' H) as [Hk | Hk]; [left; exact Hk | right; right; exact Hk].
Qed.

Lemma emplace_sorted : forall k d m, keys_sorted m = true -> keys_sorted (emplace k d m) = true.
Proof.
  induction m as [ | [k0 d0] m IH]; intro H; cbn [emplace]; [reflexivity | ].
  destruct (k <? k0) eqn:Hlt.
  - cbn [keys_sorted]. rewrite Hlt. exact H.
  - destruct (k =? k0) eqn:Heq; [exact H | ].
    apply keys_sorted_cons in H. destruct H as [Hs Hall].
    apply keys_sorted_cons. split; [apply IH; exact Hs | ].
    intros k' d' Hin. destruct (emplace_in k d m k' d' Hin) as [Hk | Hk].
    + inversion Hk. subst. lia.
    + apply (Hall k' d' Hk).
Qed.

Lemma emplace_forallb : forall (P : Z * daughter -> bool) k d m, P (k, d) = true ->
  forallb P m = true -> forallb P (emplace k d m) = true.
Proof.
  intros P k d. induction m as [ | [k0 d0] m IH]; intros Hp H; cbn [emplace].
  - cbn [forallb]. rewrite Hp. reflexivity.
  - destruct (k <? k0); [cbn [forallb]; rewrite Hp; exact H | ].
    destruct (k =? k0); [exact H | ].
    cbn [forallb] in *. apply andb_true_iff in H. destruct H as [H0 Hm].
    rewrite H0. cbn [andb]. apply IH; assumption.
Qed.

Lemma fold_emplace_ok : forall (l : list (Z * Z * transform)) acc,
  forallb (fun pdt => wfb_transform (snd pdt)) l = true -> dm_ok acc = true ->
  dm_ok (fold_left (fun m pdt => emplace (fst (fst pdt)) (mkDaughter (snd (fst pdt)) (snd pdt)) m) l acc) = true.
Proof.
  induction l as [ | [[p u] t] l IH]; intros acc Hl Ha; cbn [fold_left]; [exact Ha | ].
  cbn [forallb snd fst] in *. apply andb_true_iff in Hl. destruct Hl as [Ht Hl].
  apply IH; [exact Hl | ]. unfold dm_ok in *. apply andb_true_iff in Ha. destruct Ha as [Hs Hf].
  rewrite emplace_sorted by exact Hs. cbn [andb].
  apply emplace_forallb; [exact Ht | exact Hf].
Qed.

Lemma forallb_combine_snd : forall {A B} (P : B -> bool) (a : list A) (b : list B),
  forallb P b = true -> forallb (fun x => P (snd x)) (combine a b) = true.
Proof.
  intros A B P. induction a as [ | x a IH]; intros [ | y b] H; cbn [combine forallb] in *; try reflexivity.
  apply andb_true_iff in H. destruct H as [Hy Hb]. cbn [snd]. rewrite Hy. cbn [andb]. apply IH. exact Hb.
Qed.

Lemma forallb_map_iff : forall {A B} (P : B -> bool) (f : A -> B) l,
  forallb P (map f l) = forallb (fun x => P (f x)) l.
Proof. intros A B P f. induction l as [ | a l IH]; cbn; [reflexivity | rewrite IH; reflexivity]. Qed.

Lemma dec_daughters_key_ok : forall key j acc dm, jwell j = true -> dm_ok acc = true ->
  dec_daughters_key key j acc = Some dm -> dm_ok dm = true.
Proof.
  intros key j acc dm Hw Ha H. unfold dec_daughters_key in H.
  destruct (jget key j) eqn:Ek; [ | inversion H; subst; exact Ha].
  oinv H. oinv H. oinv H.
  destruct (negb (List.length l =? List.length l0)%nat); [discriminate H | ].
  oinv H. destruct (negb (List.length l1 =? List.length l)%nat); [discriminate H | ].
  inversion H. subst dm. apply fold_emplace_ok; [ | exact Ha].
  apply forallb_combine_snd.
  destruct (jget "transforms" j) eqn:Et.
  - destruct j2; try discriminate E2.
    pose proof (jget_well j "transforms" _ Hw Et) as Hwt.
    apply (dec_arr_forall dec_transform wfb_transform (JArr l2) l1 Hwt dec_transform_wf E2).
  - destruct (jget "translations" j) eqn:Etl; [ | discriminate E2].
    oinv E2. destruct (negb (3 * List.length l =? List.length l2)%nat); [discriminate E2 | ].
    inversion E2. rewrite forallb_map_iff.
    pose proof (dec_reals_well j2 l2 (jget_well j "translations" _ Hw Etl) E3) as Hf.
    apply fwell_finite in Hf. apply chunk3_finite in Hf.
    rewrite forallb_forall in Hf. apply forallb_forall. intros t Hin. apply make_transform_wf. apply Hf. exact Hin.
Qed.

(* ------------------------------------------------------------------ *)
(** ** units *)
Lemma relabel_wf : forall labels vols,
  forallb (fun v => Bool.eqb (wfb_volume v) (rx_volume v)) vols = true ->
  (forall v, In v vols -> set_label (empty_label, v) = v) ->
  forallb (fun v => Bool.eqb (wfb_volume v) (rx_volume v)) (map set_label (combine labels vols)) = true.
Proof.
  induction labels as [ | l labels IH]; intros [ | v vols] H Hid; cbn [combine map forallb] in *; try reflexivity.
  apply andb_true_iff in H. destruct H as [Hv Hr].
  rewrite IH; [ | exact Hr | intros v' Hin; apply Hid; right; exact Hin]. rewrite andb_true_r.
  rewrite wfb_volume_set_label, rx_volume_set_label. rewrite (Hid v) by (left; reflexivity).
  apply eqb_prop in Hv. rewrite Hv. apply eqb_reflx.
Qed.

Lemma forallb_eqb_eq : forall {A} (f g : A -> bool) l,
  forallb (fun v => Bool.eqb (f v) (g v)) l = true -> forallb f l = forallb g l.
Proof.
  intros A f g. induction l as [ | a l IH]; intro H; [reflexivity | ].
  cbn [forallb] in *. apply andb_true_iff in H. destruct H as [Ha Hl].
  apply eqb_prop in Ha. rewrite Ha, (IH Hl). reflexivity.
Qed.

Lemma dec_volumes_wf : forall j vols, jwell j = true -> dec_arr dec_volume j = Some vols ->
  forallb (fun v => Bool.eqb (wfb_volume v) (rx_volume v)) vols = true
  /\ (forall v, In v vols -> set_label (empty_label, v) = v).
Proof.
  intros j vols Hw H. destruct j; cbn [dec_arr] in H; try discriminate H.
  cbn [jwell] in Hw. revert vols H. induction l as [ | j l IH]; intros vols H; cbn [dec_list] in H.
  - inversion H. split; [reflexivity | intros v []].
  - cbn [forallb] in Hw. apply andb_true_iff in Hw. destruct Hw as [Hj Hl].
    oinv H. oinv H. inversion H. subst vols. destruct (IH Hl l0 eq_refl) as [I1 I2]. split.
    + cbn [forallb]. rewrite I1. rewrite (dec_volume_wf j v Hj E). rewrite eqb_reflx. reflexivity.
    + intros v' [Hv | Hv]; [subst v'; apply (set_empty_label_id j v E) | apply I2; exact Hv].
Qed.

Lemma dec_labels_any : forall j ls, dec_arr dec_label j = Some ls -> True.
Proof. trivial. Qed.

(** a decoded unit is well-formed iff it is none of the exceptions *)
Lemma dec_unit_wf : forall j u, jwell j = true -> dec_unit j = Some u -> wfb_unit u = rx_unit u.
Proof.
  intros j u Hw H. unfold dec_unit in H.
  oinv H. oinv H. oinv H. oinv H. oinv H. oinv H. oinv H. oinv H. oinv H.
  destruct (negb ((List.length l4 =? List.length l0)%nat || is_nil l4)) eqn:Hsl; [discriminate H | ].
  oinv H. oinv H. oinv H. inversion H. subst u. clear H.
  unfold wfb_unit, rx_unit. cbn [u_surfaces u_volumes u_bbox u_daughters u_surface_labels u_label].
  (* surfaces *)
  rewrite (dec_surfaces_wf j2 l0 (jget_well j "surfaces" j2 Hw E2) E3). cbn [andb].
  (* volumes *)
  assert (Hv : forallb wfb_volume l3 = forallb rx_volume l3).
  { apply forallb_eqb_eq.
    assert (Hl1 : forallb (fun v => Bool.eqb (wfb_volume v) (rx_volume v)) l1 = true
                  /\ (forall v, In v l1 -> set_label (empty_label, v) = v)).
    { destruct (first_key ["volumes"; "cells"]%string j) eqn:Efk.
      - apply (dec_volumes_wf j3 l1); [ | exact E4]. apply (first_key_well _ j j3 Hw Efk).
      - inversion E4. split; [reflexivity | intros v []]. }
    destruct Hl1 as [Hl1 Hid].
    destruct (is_nil l2); [inversion E6; subst; exact Hl1 | ].
    destruct (List.length l2 =? List.length l1)%nat; [ | discriminate E6].
    inversion E6. apply relabel_wf; assumption. }
  rewrite Hv.
  (* bbox *)
  destruct (get_bbox_coords j b Hw E8) as [Hlo Hhi].
  unfold wfb_bbox. rewrite Hlo, Hhi. cbn [andb].
  (* daughters *)
  assert (Hdm : dm_ok l6 = true).
  { apply (dec_daughters_key_ok "parent_cells" j l5 l6 Hw); [ | exact E10].
    apply (dec_daughters_key_ok "parent_volumes" j [] l5 Hw); [reflexivity | exact E9]. }
  unfold dm_ok in Hdm. apply andb_true_iff in Hdm. destruct Hdm as [Hs Hf]. rewrite Hs, Hf.
  apply negb_false_iff in Hsl. rewrite Hsl.
  destruct (forallb rx_volume l3); destruct (bbox_nonnull b); destruct (bbox_bits_eqb b null_bbox);
    destruct (forallb wfb_label l4); destruct (wfb_label l); reflexivity.
Qed.

(* ------------------------------------------------------------------ *)
(** ** rectangular arrays *)
Lemma dec_grid_ok : forall k j g, jwell j = true -> dec_grid k j = Some g -> grid_ok g = true.
Proof.
  intros k j g Hw H. unfold dec_grid in H. oinv H. oinv H.
  destruct (List.length l <? 2)%nat eqn:Hl; [discriminate H | ]. inversion H. subst g.
  unfold grid_ok. apply andb_true_iff. split.
  - apply Nat.leb_le. apply Nat.ltb_ge in Hl. exact Hl.
  - apply fwell_finite. apply (dec_reals_well j0 l (jget_well j k j0 Hw E) E0).
Qed.

Lemma list_set_forallb : forall {A} (P : A -> bool) l i x l', P x = true -> forallb P l = true ->
  list_set l i x = Some l' -> forallb P l' = true.
Proof.
  intros A P. induction l as [ | a l IH]; intros i x l' Hx Hl H; cbn [list_set] in H; [discriminate H | ].
  cbn [forallb] in Hl. apply andb_true_iff in Hl. destruct Hl as [Ha Hl].
  destruct i as [ | i].
  - inversion H. cbn [forallb]. rewrite Hx, Hl. reflexivity.
  - oinv H. inversion H. cbn [forallb]. rewrite Ha. cbn [andb]. apply (IH i x l0 Hx Hl E).
Qed.

Lemma place_daughters_forallb : forall (P : daughter -> bool) ps ds acc r,
  forallb P ds = true -> forallb P acc = true ->
  place_daughters ps ds acc = Some r -> forallb P r = true.
Proof.
  intros P. induction ps as [ | p ps IH]; intros ds acc r Hd Ha H; destruct ds as [ | d ds]; cbn [place_daughters] in H.
  - inversion H. subst. exact Ha.
  - discriminate H.
  - inversion H. subst. exact Ha.
  - destruct (p <? 0); [discriminate H | ]. oinv H.
    cbn [forallb] in Hd. apply andb_true_iff in Hd. destruct Hd as [Hd0 Hd].
    apply (IH ds l r Hd); [ | exact H]. apply (list_set_forallb P acc (Z.to_nat p) d l Hd0 Ha E).
Qed.

Lemma forallb_repeat : forall {A} (P : A -> bool) x n, P x = true -> forallb P (repeat x n) = true.
Proof. intros A P x n H. induction n as [ | n IH]; cbn; [reflexivity | rewrite H, IH; reflexivity]. Qed.

Lemma dec_rectarray_wf : forall j r, jwell j = true -> dec_rectarray j = Some r ->
  wfb_rectarray r = wfb_label (r_label r).
Proof.
  intros j r Hw H. unfold dec_rectarray in H.
  oinv H. oinv H. oinv H. oinv H. oinv H. oinv H.
  destruct (jcontains "transforms" j); [discriminate H | ].
  oinv H. oinv H. oinv H. oinv H. oinv H.
  destruct (negb (3 * List.length l4 =? List.length l5)%nat); [discriminate H | ].
  oinv H. inversion H. subst r. clear H.
  unfold wfb_rectarray. cbn [r_grid r_daughters r_label].
  rewrite (dec_grid_ok "x" j l0 Hw E2), (dec_grid_ok "y" j l1 Hw E3), (dec_grid_ok "z" j l2 Hw E4).
  cbn [andb].
  assert (Hdl : forallb rect_daughter_ok
                  (map (fun ut => mkDaughter (fst ut) (make_transform (snd ut))) (combine l4 (chunk3 l5))) = true).
  { rewrite forallb_map_iff.
    pose proof (dec_reals_well j3 l5 (jget_well j "translations" j3 Hw E8) E9) as Hf.
    apply fwell_finite in Hf. apply chunk3_finite in Hf.
    pose proof (forallb_combine_snd (vall is_finite) l4 (chunk3 l5) Hf) as Hc.
    rewrite forallb_forall in Hc. apply forallb_forall. intros ut Hin.
    apply make_transform_rect_ok. apply Hc. exact Hin. }
  assert (Hds : forallb rect_daughter_ok l6 = true).
  { destruct (is_nil l3).
    - inversion E10. subst l6. exact Hdl.
    - eapply (place_daughters_forallb rect_daughter_ok); [exact Hdl | | exact E10].
      apply forallb_repeat. reflexivity. }
  rewrite Hds. reflexivity.
Qed.

(* ------------------------------------------------------------------ *)
(** ** tolerance and the whole input *)
Lemma dec_tolerance_wf : forall j t, jwell j = true -> dec_tolerance j = Some t -> wfb_tolerance t = true.
Proof.
  intros j t Hw H. unfold dec_tolerance in H. oinv H. oinv H.
  destruct (fltb F_ZERO f && fltb f F_ONE) eqn:Hr; cbn [negb] in H; [ | discriminate H].
  oinv H. oinv H. destruct (fltb F_ZERO f0) eqn:Ha; cbn [negb] in H; [ | discriminate H].
  inversion H. subst t. unfold wfb_tolerance, tol_valid. cbn [t_rel t_abs].
  apply andb_true_iff in Hr. destruct Hr as [Hr0 Hr1]. rewrite Hr0, Hr1, Ha. cbn [andb].
  pose proof (dec_real_well j1 f0 (jget_well j "abs" j1 Hw E1) E2) as Hf.
  unfold fwell in Hf. apply andb_true_iff in Hf. destruct Hf as [_ Hf]. exact Hf.
Qed.

Lemma default_tol_wf : wfb_tolerance default_tol = true.
Proof. vm_compute. reflexivity. Qed.

Lemma dec_universe_wf : forall j u, jwell j = true -> dec_universe j = Some u ->
  wfb_universe u = rx_universe u.
Proof.
  intros j u Hw H. unfold dec_universe in H. oinv H. oinv H.
  destruct (str_in s ["unit"; "simple unit"]%string).
  - oinv H. inversion H. subst u. cbn [wfb_universe rx_universe]. apply (dec_unit_wf j u0 Hw E1).
  - destruct (str_in s ["rectarray"; "rectangular array"]%string); [ | discriminate H].
    oinv H. inversion H. subst u. cbn [wfb_universe rx_universe]. apply (dec_rectarray_wf j r Hw E1).
Qed.

Lemma dec_universes_wf : forall l us, forallb jwell l = true -> dec_list dec_universe l = Some us ->
  forallb wfb_universe us = forallb rx_universe us.
Proof.
  induction l as [ | j l IH]; intros us Hw H; cbn [dec_list] in H.
  - inversion H. reflexivity.
  - cbn [forallb] in Hw. apply andb_true_iff in Hw. destruct Hw as [Hj Hl].
    oinv H. oinv H. inversion H. subst us. cbn [forallb].
    rewrite (dec_universe_wf j u Hj E), (IH l0 Hl eq_refl). reflexivity.
Qed.

(** **** Reader-side theorem: for every parsed document the reader accepts,
    the decoded input is well-formed exactly when it is none of the listed
    exceptions. *)
Theorem dec_input_wf_iff : forall j x, jwell j = true -> dec_input j = Some x ->
  wfb_input x = rx_input x.
Proof.
  intros j x Hw H. unfold dec_input in H. oinv H. oinv H.
  destruct (negb (str_in s ["orange"; "ORANGE"; "SCALE ORANGE"]%string)); [discriminate H | ].
  oinv H. oinv H. oinv H. oinv H. oinv H. inversion H. subst x. clear H.
  unfold wfb_input, rx_input. cbn [oi_universes oi_tol].
  assert (Ht : wfb_tolerance t = true).
  { destruct (jget "tol" j) eqn:Et.
    - apply (dec_tolerance_wf j2 t (jget_well j "tol" j2 Hw Et) E5).
    - inversion E5. apply default_tol_wf. }
  rewrite Ht, andb_true_r.
  destruct j1; cbn [dec_arr] in E4; try discriminate E4.
  apply (dec_universes_wf l0 l); [ | exact E4].
  pose proof (jget_well j "universes" _ Hw E3) as Hwu. exact Hwu.
Qed.

Theorem dec_produces_wf : forall j x, jwell j = true -> dec_input j = Some x ->
  rx_input x = true -> wf x.
Proof. intros j x Hw H Hrx. unfold wf. rewrite (dec_input_wf_iff j x Hw H). exact Hrx. Qed.

(** **** Round trip for every accepted file (outside the exceptions): what the
    reader returned is written and read back unchanged, through the text. *)
Theorem dec_enc_dec : forall j x, jwell j = true -> dec_input j = Some x -> rx_input x = true ->
  exists j', enc_input x = Some j' /\ wire j' = j' /\ dec_input (wire j') = Some x.
Proof. intros j x Hw H Hrx. apply dec_enc_orange_input. apply (dec_produces_wf j x Hw H Hrx). Qed.

(** **** [orange-update]: the tool succeeds, and its output is a fixed point
    of the tool (second pass = first pass, as trees and hence as text). *)
Theorem update_fixed_point : forall j x, jwell j = true -> dec_input j = Some x -> rx_input x = true ->
  exists j1, update_file j = Some j1 /\ dec_input j1 = Some x /\ update_file j1 = Some j1.
Proof.
  intros j x Hw H Hrx. destruct (dec_enc_dec j x Hw H Hrx) as [j' [He [Hwire Hd]]].
  exists j'. unfold update_file, update. rewrite H. cbn [obind]. rewrite He. cbn [option_map].
  rewrite Hwire in *. split; [reflexivity | ]. split; [exact Hd | ].
  rewrite Hd. cbn [obind]. rewrite He. cbn [option_map]. rewrite Hwire. reflexivity.
Qed.
