(** * C19 — round-trip theorems for volumes, units, rectangular arrays and
    the whole ORANGE input. *)
From Coq Require Import ZArith List String Ascii Bool Lia ZifyBool.
From Celer Require Import C19.Json C19.OrangeCodec C19.JsonProofs C19.LogicProofs C19.LeafProofs.
Import ListNotations.
Local Open Scope Z_scope.

(* ------------------------------------------------------------------ *)
(** ** Volumes *)
Lemma list_eqb_eq : forall a b, list_eqb a b = true -> a = b.
Proof.
  unfold list_eqb. induction a as [ | x a IH]; intros [ | y b] H; cbn in H; try reflexivity; try discriminate H.
  apply andb_true_iff in H. destruct H as [Hlen H].
  apply andb_true_iff in H. destruct H as [Hxy Hr].
  apply Z.eqb_eq in Hxy. subst y. f_equal. apply IH.
  apply andb_true_iff. split; [ | exact Hr]. lia.
Qed.

Lemma is_nil_false_cons : forall {A} (l : list A), is_nil l = false -> exists a r, l = a :: r.
Proof. intros A [ | a r] H; [discriminate H | eauto]. Qed.

Theorem dec_enc_volume : forall v, wfb_volume v = true ->
  dec_volume (enc_volume v) = Some (strip_volume v).
Proof.
  intros [lab faces logic bb ob flags zo] H. unfold wfb_volume in H.
  cbn [v_label v_faces v_logic v_bbox v_obz v_flags v_zorder] in H.
  apply andb_true_iff in H. destruct H as [H Hbg].
  apply andb_true_iff in H. destruct H as [H _].
  apply andb_true_iff in H. destruct H as [H _].
  apply andb_true_iff in H. destruct H as [H Hbb].
  apply andb_true_iff in H. destruct H as [Htok Hne].
  apply negb_true_iff in Hne. destruct (is_nil_false_cons _ Hne) as [t0 [lr Hl]].
  pose proof (logic_string_roundtrip logic Htok) as Hlogic.
  pose proof (dec_enc_bbox bb Hbb) as Hdbb.
  destruct (wfb_bbox_coords bb Hbb) as [Hclo Hchi].
  unfold enc_volume, dec_volume, strip_volume, get_bbox.
  cbn [v_label v_faces v_logic v_bbox v_obz v_flags v_zorder].
  assert (Hnn : negb (match logic with [] => true | _ :: _ => false end) = true) by (rewrite Hl; reflexivity).
  rewrite Hnn.
  pose proof (dec_zorder_char zo) as Hdz.
  pose proof (dec_ints faces) as Hfaces.
  generalize dependent (logic_to_string logic). intros ls Hlogic.
  generalize dependent (enc_bbox bb). intros ebb Hdbb.
  generalize dependent (JStr (String (zorder_char zo) "")). intros ezo Hdz.
  generalize dependent (map JInt faces). intros efaces Hfaces.
  destruct (bbox_eqb bb inf_bbox) eqn:Hbi;
    destruct (flags =? 0) eqn:Hfl;
    destruct (zorder_eqb zo ZMedia) eqn:Hzm;
    cbn [negb opt_entry app jget jfind String.eqb Ascii.eqb Bool.eqb obind dec_arr dec_int dec_str];
    rewrite Hfaces; cbn [obind];
    try rewrite Hdz; cbn [obind];
    try (apply zorder_eqb_eq in Hzm; subst zo; cbn [zorder_eqb zorder_char Ascii.eqb Bool.eqb]);
    try (apply Z.eqb_eq in Hfl; subst flags);
    try (apply bbox_eqb_inf in Hbi; [subst bb | assumption | assumption]);
    try (destruct (zorder_eqb zo ZBackground) eqn:Hzb;
         [ apply zorder_eqb_eq in Hzb; subst zo; cbn in Hbg;
           apply andb_true_iff in Hbg; destruct Hbg as [Hlg Hbn];
           first [ (vm_compute in Hbn; discriminate Hbn)
                 | (apply list_eqb_eq in Hlg; apply bbox_bits_eqb_eq in Hbn; subst; reflexivity) ]
         | rewrite Hlogic; cbn [obind]; try rewrite Hdbb; reflexivity ]);
    try (rewrite Hlogic; cbn [obind]; try rewrite Hdbb; reflexivity).
Qed.

Example dec_enc_volume_ex :
  let v := mkVolume (mkLabel "shell" "0x1") [0; 1; 5] [0; 1; LNOT; LAND; 5; LOR]
             (mkBBox (F_NINF, 0, 0) (F_INF, F_ONE, F_ONE)) None 1 ZHole in
  wfb_volume v = true /\ dec_volume (enc_volume v) = Some (strip_volume v).
Proof. cbn zeta. split; [reflexivity | apply dec_enc_volume; reflexivity]. Qed.

(* ------------------------------------------------------------------ *)
(** ** std::map emplace of a sorted sequence *)
Definition all_lt (m : list (Z * daughter)) (k : Z) : Prop := forall k' d', In (k', d') m -> k' < k.

Lemma emplace_last : forall m k d, all_lt m k -> emplace k d m = m ++ [(k, d)].
Proof.
  induction m as [ | [k' d'] m IH]; intros k d H; cbn [emplace app]; [reflexivity | ].
  assert (Hlt : k' < k) by (apply (H k' d'); left; reflexivity).
  assert (E1 : (k <? k') = false) by lia. assert (E2 : (k =? k') = false) by lia.
  rewrite E1, E2. rewrite IH; [reflexivity | ].
  intros k'' d'' Hin. apply (H k'' d''). right. exact Hin.
Qed.

Lemma keys_sorted_tail : forall kd m, keys_sorted (kd :: m) = true -> keys_sorted m = true.
Proof.
  intros [k d] [ | [k' d'] m] H; [reflexivity | ].
  cbn [keys_sorted] in H. apply andb_true_iff in H. destruct H as [_ H]. exact H.
Qed.

Lemma keys_sorted_head_lt : forall m k d, keys_sorted ((k, d) :: m) = true -> forall k' d', In (k', d') m -> k < k'.
Proof.
  induction m as [ | [k1 d1] m IH]; intros k d H k' d' Hin; [destruct Hin | ].
  cbn [keys_sorted] in H. apply andb_true_iff in H. destruct H as [Hlt Hs].
  destruct Hin as [E | Hin].
  - inversion E. subst. lia.
  - pose proof (IH k1 d1 Hs k' d' Hin). lia.
Qed.

Lemma keys_sorted_app_lt : forall acc k d l, keys_sorted (acc ++ (k, d) :: l) = true -> all_lt acc k.
Proof.
  induction acc as [ | [k0 d0] acc IH]; intros k d l H k' d' Hin; [destruct Hin | ].
  destruct Hin as [E | Hin].
  - inversion E. subst k0 d0. cbn [app] in H.
    apply (keys_sorted_head_lt _ _ _ H k d). apply in_or_app. right. left. reflexivity.
  - cbn [app] in H. apply keys_sorted_tail in H. apply (IH k d l H k' d' Hin).
Qed.

Lemma fold_emplace_sorted : forall l acc, keys_sorted (acc ++ l) = true ->
  fold_left (fun m kd => emplace (fst kd) (snd kd) m) l acc = acc ++ l.
Proof.
  induction l as [ | [k d] l IH]; intros acc H; cbn [fold_left]; [rewrite app_nil_r; reflexivity | ].
  cbn [fst snd]. rewrite emplace_last by (apply (keys_sorted_app_lt acc k d l H)).
  rewrite IH; rewrite <- app_assoc; [reflexivity | exact H].
Qed.

Lemma combine_map3 : forall (l : list (Z * daughter)),
  combine (combine (map (fun kd => fst kd) l) (map (fun kd => d_univ (snd kd)) l))
          (map (fun kd => d_trans (snd kd)) l)
  = map (fun kd => ((fst kd, d_univ (snd kd)), d_trans (snd kd))) l.
Proof. induction l as [ | kd l IH]; cbn; [reflexivity | rewrite IH; reflexivity]. Qed.

Lemma fold_left_map : forall {A B C} (f : A -> C -> A) (g : B -> C) l a,
  fold_left f (map g l) a = fold_left (fun x y => f x (g y)) l a.
Proof. intros A B C f g l. induction l as [ | b l IH]; intro a; cbn; [reflexivity | apply IH]. Qed.

Lemma fold_left_ext : forall {A B} (f g : A -> B -> A) l a,
  (forall x y, f x y = g x y) -> fold_left f l a = fold_left g l a.
Proof. intros A B f g l. induction l as [ | b l IH]; intros a H; cbn; [reflexivity | rewrite H; apply IH; exact H]. Qed.

Lemma daughters_rebuilt : forall l, keys_sorted l = true ->
  fold_left (fun m pdt => emplace (fst (fst pdt)) (mkDaughter (snd (fst pdt)) (snd pdt)) m)
            (combine (combine (map (fun kd => fst kd) l) (map (fun kd => d_univ (snd kd)) l))
                     (map (fun kd => d_trans (snd kd)) l)) [] = l.
Proof.
  intros l H. rewrite combine_map3. rewrite fold_left_map.
  rewrite (fold_left_ext _ (fun m kd => emplace (fst kd) (snd kd) m)).
  - rewrite fold_emplace_sorted; [reflexivity | exact H].
  - intros m [k [u t]]. reflexivity.
Qed.

(* ------------------------------------------------------------------ *)
(** ** Units *)
Lemma volumes_relabelled : forall vols, forallb wfb_volume vols = true ->
  map set_label (combine (map v_label vols) (map strip_volume vols)) = vols.
Proof.
  induction vols as [ | v vols IH]; intro H; [reflexivity | ].
  cbn [forallb] in H. apply andb_true_iff in H. destruct H as [Hv Hr].
  cbn [map combine]. rewrite IH by exact Hr. f_equal.
  destruct v as [lab faces logic bb ob flags zo]. unfold wfb_volume in Hv.
  cbn [v_label v_faces v_logic v_bbox v_obz v_flags v_zorder] in Hv.
  destruct ob as [o | ]; [ | reflexivity].
  rewrite !andb_false_r in Hv. cbn in Hv. rewrite ?andb_false_r in Hv. discriminate Hv.
Qed.

Lemma wfb_volume_label : forall v, wfb_volume v = true -> wfb_label (v_label v) = true.
Proof.
  intros v H. unfold wfb_volume in H.
  apply andb_true_iff in H. destruct H as [H _].
  apply andb_true_iff in H. destruct H as [_ H]. exact H.
Qed.

Local Opaque enc_surfaces dec_surfaces enc_volume dec_volume enc_label dec_label enc_bbox dec_bbox
  enc_transform dec_transform.

Theorem dec_enc_unit : forall u, wfb_unit u = true -> dec_unit (enc_unit u) = Some u.
Proof.
  intros [surfs vols bb dm slabels lab] H. unfold wfb_unit in H.
  cbn [u_surfaces u_volumes u_bbox u_daughters u_surface_labels u_label] in H.
  apply andb_true_iff in H. destruct H as [H Hlab].
  apply andb_true_iff in H. destruct H as [H Hslen].
  apply andb_true_iff in H. destruct H as [H Hsl].
  apply andb_true_iff in H. destruct H as [H _].
  apply andb_true_iff in H. destruct H as [H Hsorted].
  apply andb_true_iff in H. destruct H as [H Hbnn].
  apply andb_true_iff in H. destruct H as [H Hbb].
  apply andb_true_iff in H. destruct H as [Hsurf Hvols].
  pose proof (dec_enc_surfaces surfs Hsurf) as Dsurf.
  pose proof (dec_enc_label lab Hlab) as Dlab.
  pose proof (dec_enc_bbox bb Hbb) as Dbb.
  destruct (wfb_bbox_coords bb Hbb) as [Hclo Hchi].
  assert (Dvols : dec_list dec_volume (map enc_volume vols) = Some (map strip_volume vols)).
  { apply dec_list_map_f. intros v Hv. apply dec_enc_volume.
    rewrite forallb_forall in Hvols. apply Hvols. exact Hv. }
  assert (Dvl : dec_list dec_label (map (fun v => enc_label (v_label v)) vols) = Some (map v_label vols)).
  { apply dec_list_map_f. intros v Hv. apply dec_enc_label. apply wfb_volume_label.
    rewrite forallb_forall in Hvols. apply Hvols. exact Hv. }
  pose proof (dec_enc_labels slabels Hsl) as Dsl.
  assert (Dtr : dec_list dec_transform (map (fun kd : Z * daughter => enc_transform (d_trans (snd kd))) dm)
                = Some (map (fun kd => d_trans (snd kd)) dm)).
  { apply dec_list_map_f. intros x _. apply dec_enc_transform. }
  pose proof (dec_ints (map (fun kd : Z * daughter => fst kd) dm)) as Dpar. rewrite map_map in Dpar.
  pose proof (dec_ints (map (fun kd : Z * daughter => d_univ (snd kd)) dm)) as Ddau. rewrite map_map in Ddau.
  pose proof (daughters_rebuilt dm Hsorted) as Dfold.
  pose proof (volumes_relabelled vols Hvols) as Drel.
  unfold enc_unit, dec_unit, get_bbox, dec_daughters_key, first_key.
  cbn [u_surfaces u_volumes u_bbox u_daughters u_surface_labels u_label].
  rewrite Hbnn. cbn [andb].
  destruct (bbox_eqb bb inf_bbox) eqn:Hbi; destruct (is_nil dm) eqn:Hdm;
    cbn [negb opt_entry app jget jfind String.eqb Ascii.eqb Bool.eqb obind dec_arr];
    rewrite Dlab; cbn [obind]; rewrite Dsurf; cbn [obind]; rewrite Dvols; cbn [obind];
    rewrite Dvl; cbn [obind];
    (destruct vols as [ | v0 vr];
     [ cbn [map is_nil obind]
     | change (is_nil (map v_label (v0 :: vr))) with false; cbv iota;
       rewrite !map_length; rewrite Nat.eqb_refl; cbn [obind];
       rewrite Drel ]);
    rewrite Dsl; cbn [obind]; rewrite Hslen; cbn [negb];
    try rewrite Dbb; cbn [obind];
    try (apply bbox_eqb_inf in Hbi; [subst bb | assumption | assumption]);
    try (destruct dm as [ | kd0 dmr]; [reflexivity | discriminate Hdm]);
    try (rewrite Dpar; cbn [obind]; rewrite Ddau; cbn [obind];
         rewrite !map_length; rewrite Nat.eqb_refl; cbn [negb];
         rewrite Dtr; cbn [obind]; rewrite !map_length; rewrite Nat.eqb_refl; cbn [negb];
         rewrite Dfold; reflexivity).
Qed.

(* ------------------------------------------------------------------ *)
(** ** Rectangular arrays *)
Definition rect_triple (d : daughter) : list flt :=
  match d_trans d with Transl t => v3list t | _ => [F_ZERO; F_ZERO; F_ZERO] end.

Lemma opt_concat_ok : forall ds, forallb rect_daughter_ok ds = true ->
  opt_concat rect_translation ds = Some (List.concat (map rect_triple ds)).
Proof.
  induction ds as [ | d ds IH]; intro H; [reflexivity | ].
  cbn [forallb] in H. apply andb_true_iff in H. destruct H as [Hd Hr].
  cbn [opt_concat map List.concat]. rewrite IH by exact Hr.
  unfold rect_translation, rect_triple, rect_daughter_ok in *.
  destruct (d_trans d); [reflexivity | reflexivity | discriminate Hd].
Qed.

Lemma rect_triple_length : forall ds, List.length (List.concat (map rect_triple ds)) = (3 * List.length ds)%nat.
Proof.
  induction ds as [ | d ds IH]; [reflexivity | ].
  cbn [map List.concat]. rewrite app_length. rewrite IH.
  unfold rect_triple. destruct (d_trans d) as [ | [[a b] c] | ? ? ? ?]; cbn [List.length v3list]; lia.
Qed.

Lemma rect_daughters_rebuilt : forall ds, forallb rect_daughter_ok ds = true ->
  map (fun ut => mkDaughter (fst ut) (make_transform (snd ut)))
      (combine (map d_univ ds) (chunk3 (List.concat (map rect_triple ds)))) = ds.
Proof.
  induction ds as [ | [u t] ds IH]; intro H; [reflexivity | ].
  cbn [forallb] in H. apply andb_true_iff in H. destruct H as [Hd Hr].
  unfold rect_daughter_ok in Hd. cbn [d_trans] in Hd.
  cbn [map List.concat]. unfold rect_triple at 1. cbn [d_trans d_univ].
  destruct t as [ | [[a b] c] | ? ? ? ?]; [ | | discriminate Hd].
  - cbn [app chunk3 combine map fst snd]. rewrite IH by exact Hr. reflexivity.
  - cbn [v3list app chunk3 combine map fst snd]. rewrite IH by exact Hr.
    apply andb_true_iff in Hd. destruct Hd as [Hz _]. apply negb_true_iff in Hz.
    unfold make_transform. rewrite Hz. reflexivity.
Qed.

Lemma grid_ok_dec : forall g k m, grid_ok g = true -> jfind k m = Some (JArr (map JFlt g)) ->
  dec_grid k (JObj m) = Some g.
Proof.
  intros g k m H Hf. unfold dec_grid. cbn [jget]. rewrite Hf. cbn [obind dec_arr].
  rewrite dec_reals. cbn [obind]. unfold grid_ok in H. apply andb_true_iff in H. destruct H as [H _].
  assert (E : (List.length g <? 2)%nat = false) by (apply Nat.ltb_ge; apply Nat.leb_le; exact H).
  rewrite E. reflexivity.
Qed.

Theorem dec_enc_rectarray : forall r, wfb_rectarray r = true ->
  exists j, enc_rectarray r = Some j /\ dec_rectarray j = Some r.
Proof.
  intros [[[gx gy] gz] ds lab] H. unfold wfb_rectarray in H. cbn [r_grid r_daughters r_label] in H.
  apply andb_true_iff in H. destruct H as [H Hlab].
  apply andb_true_iff in H. destruct H as [H Hds].
  apply andb_true_iff in H. destruct H as [H Hgz].
  apply andb_true_iff in H. destruct H as [Hgx Hgy].
  unfold enc_rectarray. cbn [r_grid r_daughters r_label].
  rewrite (opt_concat_ok ds Hds). cbn [obind].
  eexists. split; [reflexivity | ].
  pose proof (dec_enc_label lab Hlab) as Dlab.
  pose proof (dec_ints (map d_univ ds)) as Ddau. rewrite map_map in Ddau.
  pose proof (dec_reals (List.concat (map rect_triple ds))) as Dtr.
  pose proof (rect_triple_length ds) as Hlen.
  pose proof (rect_daughters_rebuilt ds Hds) as Dreb.
  unfold dec_rectarray.
  rewrite (grid_ok_dec gx "x") by (try exact Hgx; reflexivity).
  rewrite (grid_ok_dec gy "y") by (try exact Hgy; reflexivity).
  rewrite (grid_ok_dec gz "z") by (try exact Hgz; reflexivity).
  unfold jcontains.
  cbn [jget jfind String.eqb Ascii.eqb Bool.eqb obind dec_arr].
  rewrite Dlab. cbn [obind]. rewrite Ddau. cbn [obind]. rewrite Dtr. cbn [obind].
  rewrite Hlen. rewrite map_length. rewrite Nat.eqb_refl. cbn [negb is_nil].
  rewrite Dreb. reflexivity.
Qed.

(** [to_json] of a rect array throws exactly when some daughter carries a
    rotation ([Transformation]) *)
Theorem enc_rectarray_error_iff : forall r,
  enc_rectarray r = None <-> exists d, In d (r_daughters r) /\ rect_daughter_translated_only d = false.
Proof.
  intros [[[gx gy] gz] ds lab]. unfold enc_rectarray. cbn [r_grid r_daughters r_label].
  assert (Hc : opt_concat rect_translation ds = None
               <-> exists d, In d ds /\ rect_daughter_translated_only d = false).
  { induction ds as [ | d ds IH].
    - cbn. split; [discriminate | intros [d [[] _]]].
    - cbn [opt_concat]. unfold rect_translation at 1, rect_daughter_translated_only.
      destruct (d_trans d) eqn:Ht; cbn [obind].
      + destruct (opt_concat rect_translation ds) eqn:Ho; cbn [obind].
        * split; [discriminate | ]. intros [d' [[E | Hin] Hd']].
          -- subst d'. rewrite Ht in Hd'. discriminate Hd'.
          -- destruct IH as [_ IH2]. assert (X : @None (list flt) = None) by reflexivity.
             exfalso. assert (Hn : Some l = None) by (apply IH2; exists d'; split; assumption). discriminate Hn.
        * split; [ | reflexivity]. intros _. destruct IH as [IH1 _]. destruct (IH1 eq_refl) as [d' [Hin Hd']].
          exists d'. split; [right; exact Hin | exact Hd'].
      + destruct (opt_concat rect_translation ds) eqn:Ho; cbn [obind].
        * split; [discriminate | ]. intros [d' [[E | Hin] Hd']].
          -- subst d'. rewrite Ht in Hd'. discriminate Hd'.
          -- destruct IH as [_ IH2].
             exfalso. assert (Hn : Some l = None) by (apply IH2; exists d'; split; assumption). discriminate Hn.
        * split; [ | reflexivity]. intros _. destruct IH as [IH1 _]. destruct (IH1 eq_refl) as [d' [Hin Hd']].
          exists d'. split; [right; exact Hin | exact Hd'].
      + split; [ | reflexivity]. intros _. exists d. split; [left; reflexivity | rewrite Ht; reflexivity]. }
  destruct (opt_concat rect_translation ds) eqn:Ho; cbn [obind].
  - split; [discriminate | ]. intro Hex. destruct Hc as [_ Hc2]. specialize (Hc2 Hex). discriminate Hc2.
  - split; [ | reflexivity]. intros _. apply Hc. reflexivity.
Qed.

(* ------------------------------------------------------------------ *)
(** ** The whole input *)
Local Open Scope string_scope.
Local Opaque enc_unit dec_unit.

Lemma enc_unit_type : forall u, jget "_type" (enc_unit u) = Some (JStr "unit").
Proof. intro u. Local Transparent enc_unit. unfold enc_unit. reflexivity. Qed.
Local Opaque enc_unit.

Lemma dec_enc_universe : forall u, wfb_universe u = true ->
  exists j, enc_universe u = Some j /\ dec_universe j = Some u.
Proof.
  intros [u | r] H; cbn [wfb_universe enc_universe] in *.
  - exists (enc_unit u). split; [reflexivity | ].
    unfold dec_universe. rewrite enc_unit_type. cbn [obind dec_str].
    replace (str_in "unit" ["unit"; "simple unit"]) with true by reflexivity.
    rewrite dec_enc_unit by exact H. reflexivity.
  - destruct (dec_enc_rectarray r H) as [j [He Hd]]. exists j. split; [exact He | ].
    assert (Ht : jget "_type" j = Some (JStr "rectarray")).
    { destruct r as [[[gx gy] gz] ds lab]. unfold enc_rectarray in He.
      destruct (opt_concat rect_translation (r_daughters {| r_grid := (gx, gy, gz); r_daughters := ds; r_label := lab |}));
        cbn [obind r_grid r_label r_daughters] in He; [ | discriminate He].
      inversion He. reflexivity. }
    unfold dec_universe. rewrite Ht. cbn [obind dec_str].
    replace (str_in "rectarray" ["unit"; "simple unit"]) with false by reflexivity.
    replace (str_in "rectarray" ["rectarray"; "rectangular array"]) with true by reflexivity.
    rewrite Hd. reflexivity.
Qed.

Lemma dec_enc_universes : forall us, forallb wfb_universe us = true ->
  exists js, opt_map enc_universe us = Some js /\ dec_list dec_universe js = Some us.
Proof.
  induction us as [ | u us IH]; intro H.
  - exists []. split; reflexivity.
  - cbn [forallb] in H. apply andb_true_iff in H. destruct H as [Hu Hr].
    destruct (dec_enc_universe u Hu) as [j [He Hd]]. destruct (IH Hr) as [js [Hes Hds]].
    exists (j :: js). split.
    + cbn [opt_map]. rewrite He. cbn [obind]. rewrite Hes. reflexivity.
    + cbn [dec_list]. rewrite Hd. cbn [obind]. rewrite Hds. reflexivity.
Qed.

Local Opaque enc_tolerance dec_tolerance.

(** **** Main theorem (in-memory JSON tree) *)
Theorem dec_enc_orange_input_tree : forall x, wf x ->
  exists j, enc_input x = Some j /\ dec_input j = Some x.
Proof.
  intros [us tol] H. unfold wf, wfb_input in H. cbn [oi_universes oi_tol] in H.
  apply andb_true_iff in H. destruct H as [Hus Htol].
  unfold wfb_tolerance in Htol. apply andb_true_iff in Htol. destruct Htol as [Hvalid _].
  destruct (dec_enc_universes us Hus) as [js [Hes Hds]].
  unfold enc_input. cbn [oi_universes oi_tol]. rewrite Hes. cbn [obind].
  eexists. split; [reflexivity | ].
  rewrite Hvalid. unfold dec_input.
  cbn [opt_entry app jget jfind String.eqb Ascii.eqb Bool.eqb obind dec_str dec_int dec_arr].
  replace (str_in "ORANGE" ["orange"; "ORANGE"; "SCALE ORANGE"]) with true by reflexivity.
  cbn [negb]. replace (String.eqb NATIVE_UNITS NATIVE_UNITS) with true by reflexivity.
  cbn [obind]. rewrite Hds. cbn [obind].
  rewrite dec_enc_tolerance by exact Hvalid. reflexivity.
Qed.
