(** * C19 — extraction of the executable model to OCaml (ExtrOcamlBasic only)
    for the volume of the correspondence check; driver: props/C19/harness/driver.ml *)
From Coq Require Import Extraction ExtrOcamlBasic.
From Celer Require Import C19.Json C19.OrangeCodec C19.Run C19.Reader.
Extraction Language OCaml.
Extraction "c19model.ml" run_rt run_dec run_consts run_update.
