(** * C19 — the hypotheses of the theorems are satisfiable by a non-trivial
    input: two units (all three transform kinds, semi-infinite and infinite
    bounding boxes, labels with extensions, every readable surface type), a
    rectangular array, a non-default tolerance. *)
From Coq Require Import ZArith List String Ascii Bool.
From Celer Require Import C19.Json C19.OrangeCodec C19.JsonProofs C19.LeafProofs C19.CodecProofs C19.WireProofs.
Import ListNotations.
Local Open Scope string_scope.
Local Open Scope list_scope.
Local Open Scope Z_scope.

Definition f2 : flt := 0x4000000000000000.    (* 2.0 *)
Definition fm3 : flt := 0xC008000000000000.   (* -3.0 *)
Definition fhalf : flt := 0x3FE0000000000000. (* 0.5 *)
Definition ftol : flt := 0x3EE4F8B588E368F1.  (* 1e-5 *)

Definition ex_unit0 : unit_in :=
  mkUnit
    (map (fun t => mkSurf t (repeat f2 (surf_arity t))) (filter visit_supported all_surf_types))
    [mkVolume (mkLabel "[EXTERIOR]" "outer") [0; 1; 2] [0; 1; LNOT; LAND; 2; LAND; LNOT]
       inf_bbox None 1 ZExterior;
     mkVolume (mkLabel "inner@x" "0x7f") [3; 4] [3; 4; LOR]
       (mkBBox (fm3, F_NINF, 0) (f2, F_INF, F_ONE)) None 0 ZMedia;
     mkVolume (mkLabel "bg" "") [] [LTRUE; LNOT] null_bbox None 2 ZBackground;
     mkVolume (mkLabel "hole" "") [5] [5; LNOT] (mkBBox (0, 0, 0) (F_ONE, F_ONE, F_ONE)) None 0 ZHole]
    (mkBBox (fm3, fm3, fm3) (f2, f2, f2))
    [(1, mkDaughter 1 NoTrans);
     (2, mkDaughter 2 (Transl (f2, fm3, 0)));
     (3, mkDaughter 1 (Transf (0, F_ONE, 0) (F_ONE, 0, 0) (0, 0, F_ONE) (fhalf, fhalf, fm3)))]
    (map (fun t => mkLabel (surf_name t) "s") (filter visit_supported all_surf_types))
    (mkLabel "outer" "").

Definition ex_unit1 : unit_in :=
  mkUnit [mkSurf Ssc [f2]]
    [mkVolume (mkLabel "ball" "inner") [0] [0; LNOT] (mkBBox (fm3, fm3, fm3) (f2, f2, f2)) None 0 ZMedia;
     mkVolume (mkLabel "rest" "inner") [0] [0] inf_bbox None 0 ZMedia]
    inf_bbox [] [] (mkLabel "inner" "").

Definition ex_rect : rectarray :=
  mkRect ([fm3; 0; f2], [0; F_ONE], [fm3; f2])
    [mkDaughter 1 NoTrans; mkDaughter 1 (Transl (f2, 0, 0))] (mkLabel "arr" "2x1x1").

Definition ex_input : orange_input :=
  mkInput [UUnit ex_unit0; UUnit ex_unit1; URect ex_rect] (mkTol ftol fhalf).

Lemma ex_input_wf : wf ex_input.
Proof. vm_compute. reflexivity. Qed.

(** the theorem applies, and its conclusion is also what evaluation gives *)
Example ex_input_round_trip :
  exists j, enc_input ex_input = Some j /\ wire j = j /\ dec_input (wire j) = Some ex_input.
Proof. apply dec_enc_orange_input. exact ex_input_wf. Qed.

Example ex_input_round_trip_computed :
  match enc_input ex_input with Some j => dec_input (wire j) | None => None end = Some ex_input.
Proof. vm_compute. reflexivity. Qed.

(** every object key the model encoder emits for this input is one of the
    model's written keys (or a rect-array axis key) *)
Fixpoint all_keys (fuel : nat) (j : json) : list string :=
  match fuel with
  | O => []
  | S f =>
      match j with
      | JArr l => flat_map (all_keys f) l
      | JObj m => flat_map (fun kv => fst kv :: all_keys f (snd kv)) m
      | _ => []
      end
  end.
Example ex_input_keys_are_model_keys :
  match enc_input ex_input with
  | Some j => subsetb (all_keys 12 j) (["x"; "y"; "z"] ++ flat_map (fun e => fst (snd e)) model_keys)
  | None => false
  end = true.
Proof. vm_compute. reflexivity. Qed.

(** a rect array with a rotated daughter makes the encoder fail (explicit error) *)
Example ex_rect_error :
  enc_rectarray (mkRect ([0; F_ONE], [0; F_ONE], [0; F_ONE])
                   [mkDaughter 0 (Transf (0, F_ONE, 0) (F_ONE, 0, 0) (0, 0, F_ONE) (0, 0, 0))]
                   (mkLabel "a" "")) = None.
Proof. reflexivity. Qed.

(** each conjunct of [wf] is needed: witnesses that do NOT survive *)
Definition with_vol (v : volume) : orange_input :=
  mkInput [UUnit (mkUnit [] [v] inf_bbox [] [] (mkLabel "u" ""))] (mkTol ftol ftol).
Definition rt (x : orange_input) : option orange_input :=
  match enc_input x with Some j => dec_input (wire j) | None => None end.

Example not_wf_dbl_max :   (* a bbox coordinate equal to DBL_MAX comes back as +inf *)
  option_map (fun y => match oi_universes y with
                       | [UUnit u] => map (fun v => snd (b_hi (v_bbox v))) (u_volumes u) | _ => [] end)
    (rt (with_vol (mkVolume (mkLabel "v" "") [] [LTRUE] (mkBBox (0, 0, 0) (F_ONE, F_ONE, F_MAX)) None 0 ZMedia)))
  = Some [F_INF].
Proof. vm_compute. reflexivity. Qed.

Example not_wf_paren :     (* parentheses are written but the reader rejects them *)
  rt (with_vol (mkVolume (mkLabel "v" "") [] [LOPEN; 0; LCLOSE] inf_bbox None 0 ZMedia)) = None.
Proof. vm_compute. reflexivity. Qed.

Example not_wf_empty_logic :   (* an implicit volume without logic cannot be read back *)
  rt (with_vol (mkVolume (mkLabel "v" "") [] [] inf_bbox None 2 ZMedia)) = None.
Proof. vm_compute. reflexivity. Qed.

Example not_wf_nan_surface :   (* NaN is written as null, which the reader rejects *)
  rt (mkInput [UUnit (mkUnit [mkSurf Spx [0x7FF8000000000000]] [] inf_bbox [] [] (mkLabel "u" ""))]
        (mkTol ftol ftol)) = None.
Proof. vm_compute. reflexivity. Qed.

Example not_wf_null_unit_bbox :   (* a null unit bbox is not written and comes back infinite *)
  option_map (fun y => match oi_universes y with [UUnit u] => Some (u_bbox u) | _ => None end)
    (rt (mkInput [UUnit (mkUnit [] [] null_bbox [] [] (mkLabel "u" ""))] (mkTol ftol ftol)))
  = Some (Some inf_bbox).
Proof. vm_compute. reflexivity. Qed.

Example not_wf_obz :   (* the oriented bounding zone is dropped *)
  option_map (fun y => match oi_universes y with
                       | [UUnit u] => map v_obz (u_volumes u) | _ => [] end)
    (rt (with_vol (mkVolume (mkLabel "v" "") [] [LTRUE] inf_bbox
                     (Some (mkObz inf_bbox inf_bbox 0)) 0 ZMedia)))
  = Some [None].
Proof. vm_compute. reflexivity. Qed.

Example not_wf_rect_zero_translation :   (* Translation{0,0,0} in an array comes back as NoTransformation *)
  option_map (fun y => match oi_universes y with [URect r] => map d_trans (r_daughters r) | _ => [] end)
    (rt (mkInput [URect (mkRect ([0; F_ONE], [0; F_ONE], [0; F_ONE]) [mkDaughter 0 (Transl (0, SIGNBIT, 0))]
                           (mkLabel "a" ""))] (mkTol ftol ftol)))
  = Some [NoTrans].
Proof. vm_compute. reflexivity. Qed.

Example not_wf_label :   (* "a@b" with empty extension comes back as name "a", ext "b" *)
  option_map (fun y => match oi_universes y with [UUnit u] => Some (u_label u) | _ => None end)
    (rt (mkInput [UUnit (mkUnit [] [] inf_bbox [] [] (mkLabel "a@b" ""))] (mkTol ftol ftol)))
  = Some (Some (mkLabel "a" "b")).
Proof. vm_compute. reflexivity. Qed.

Example not_wf_involute :   (* reader: CELER_ASSERT_UNREACHABLE (known finding) *)
  rt (mkInput [UUnit (mkUnit [mkSurf Sinv (repeat F_ONE 6)] [] inf_bbox [] [] (mkLabel "u" ""))]
        (mkTol ftol ftol)) = None.
Proof. vm_compute. reflexivity. Qed.
