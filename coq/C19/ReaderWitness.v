(** * C19 — documents the reader accepts that are NOT fixed points of
    write-and-read-back: one witness per exception of [rx_input], the OBZ loss,
    and a non-vacuity example for the reader-side theorems.
    (Definitions; the statements are proved in ReaderWitnessProofs.v.) *)
From Coq Require Import ZArith List String Ascii Bool.
From Celer Require Import C19.Json C19.OrangeCodec C19.Reader.
Import ListNotations.
Local Open Scope string_scope.
Local Open Scope list_scope.
Local Open Scope Z_scope.

Definition w_surfaces : json := JObj [("types", JArr []); ("data", JArr []); ("sizes", JArr [])].
Definition w_vol (logic : string) (extra : list (string * json)) : json :=
  JObj ([("faces", JArr []); ("logic", JStr logic)] ++ extra).
Definition w_doc (uname : string) (vol : json) (extra : list (string * json)) : json :=
  JObj [("_format", JStr "ORANGE");
        ("universes", JArr [JObj ([("_type", JStr "unit"); ("md", JObj [("name", JStr uname)]);
                                    ("surfaces", w_surfaces); ("volumes", JArr [vol])] ++ extra)])].

Definition w1 : flt := 0x3FF0000000000000.   (* 1.0 *)
Definition w_vec (a b c : flt) : json := JArr [JFlt a; JFlt b; JFlt c].

(** a plain accepted document (legacy: no "_units", no "tol", no labels) *)
Definition doc_ok : json := w_doc "u@ext" (w_vol "* ~ 3 |" [("zorder", JInt 65534)]) [].
(** exceptions *)
Definition doc_empty_logic : json := w_doc "u" (w_vol "" [("flags", JInt 2)]) [].       (* implicit_vol *)
Definition doc_digits_lopen : json := w_doc "u" (w_vol "18446744073709551609 0 ~" []) [].
Definition doc_bbox_inverted : json :=
  w_doc "u" (w_vol "*" [("bbox", JArr [w_vec w1 w1 w1; w_vec 0 0 0])]) [].
Definition doc_unit_bbox_null : json := w_doc "u" (w_vol "*" []) [("bbox", JNull)].
Definition doc_label_at_at : json := w_doc "a@@" (w_vol "*" []) [].

(** projections used to exhibit a difference *)
Definition first_unit (x : orange_input) : option unit_in :=
  match oi_universes x with UUnit u :: _ => Some u | _ => None end.
Definition first_vol_bbox (x : orange_input) : option bbox :=
  match first_unit x with
  | Some u => match u_volumes u with v :: _ => Some (v_bbox v) | [] => None end
  | None => None
  end.
Definition first_unit_bbox (x : orange_input) : option bbox := option_map u_bbox (first_unit x).
Definition first_unit_label (x : orange_input) : option label := option_map u_label (first_unit x).

(** an input carrying an oriented bounding zone (as every UnitProto output does) *)
Definition x_obz : orange_input :=
  mkInput [UUnit (mkUnit [] [mkVolume (mkLabel "v" "") [] [LTRUE] inf_bbox
                                (Some (mkObz inf_bbox inf_bbox 0)) 0 ZMedia]
                         inf_bbox [] [] (mkLabel "u" ""))]
          (mkTol 0x3EE4F8B588E368F1 0x3EE4F8B588E368F1).
