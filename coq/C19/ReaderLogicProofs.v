(** * C19 — the tokens [string_to_logic] can return: 64-bit values; the only
    ones that are not written back readably are [lopen], [lclose], [lend]
    (reachable through digit strings, e.g. "18446744073709551609"). *)
From Coq Require Import ZArith List String Ascii Bool Lia.
From Celer Require Import C19.Json C19.OrangeCodec.
Import ListNotations.
Local Open Scope Z_scope.

Definition inrange (t : Z) : Prop := 0 <= t < UINT.

Lemma const_inrange : forall t, ((0 <=? t) && (t <? UINT)) = true -> inrange t.
Proof.
  intros t H. apply andb_true_iff in H. destruct H as [H1 H2].
  split; [apply Z.leb_le; exact H1 | apply Z.ltb_lt; exact H2].
Qed.

Lemma tok_of_char_range : forall c t, tok_of_char c = Some t -> inrange t.
Proof.
  intros c t H. unfold tok_of_char in H.
  destruct (Ascii.eqb c "*"); [inversion H; apply const_inrange; vm_compute; reflexivity | ].
  destruct (Ascii.eqb c "|"); [inversion H; apply const_inrange; vm_compute; reflexivity | ].
  destruct (Ascii.eqb c "&"); [inversion H; apply const_inrange; vm_compute; reflexivity | ].
  destruct (Ascii.eqb c "~"); [inversion H; apply const_inrange; vm_compute; reflexivity | discriminate H].
Qed.

Lemma UINT_pos : 0 < UINT.
Proof. reflexivity. Qed.

Lemma s2l_range : forall s res surf reading l, Forall inrange res -> inrange surf ->
  s2l s res surf reading = Some l -> Forall inrange l.
Proof.
  induction s as [ | v r IH]; intros res surf reading l Hres Hsurf H; cbn [s2l] in H.
  - inversion H. destruct reading; [ | exact Hres].
    apply Forall_app. split; [exact Hres | constructor; [exact Hsurf | constructor]].
  - assert (Hres' : Forall inrange (if reading then res ++ [surf] else res)).
    { destruct reading; [ | exact Hres].
      apply Forall_app. split; [exact Hres | constructor; [exact Hsurf | constructor]]. }
    destruct (is_digit v).
    + apply (IH _ _ _ _ Hres) in H; [exact H | ]. apply Z.mod_pos_bound. exact UINT_pos.
    + destruct (tok_of_char v) as [t | ] eqn:Et.
      * apply IH in H; [exact H | | exact Hsurf].
        apply Forall_app. split; [exact Hres' | ].
        constructor; [apply (tok_of_char_range v t Et) | constructor].
      * destruct (Ascii.eqb v " "); [ | discriminate H].
        apply IH in H; [exact H | exact Hres' | exact Hsurf].
Qed.

Lemma wfb_token_exception : forall t, inrange t -> wfb_token t = false ->
  t = LOPEN \/ t = LCLOSE \/ t = LEND.
Proof.
  intros t [H0 H1] H. unfold wfb_token in H.
  apply orb_false_iff in H. destruct H as [H Hnot]. apply Z.eqb_neq in Hnot.
  apply orb_false_iff in H. destruct H as [H Hand]. apply Z.eqb_neq in Hand.
  apply orb_false_iff in H. destruct H as [H Hor]. apply Z.eqb_neq in Hor.
  apply orb_false_iff in H. destruct H as [H Htrue]. apply Z.eqb_neq in Htrue.
  apply andb_false_iff in H.
  assert (Hge : LBEGIN <= t).
  { destruct H as [H | H]; [apply Z.leb_gt in H; lia | apply Z.ltb_ge in H; exact H]. }
  unfold LOPEN, LCLOSE, LEND, LTRUE, LOR, LAND, LNOT, LBEGIN, UINT in *. lia.
Qed.

(** **** every token the reader returns is readable again after being written,
    except the three operator codes that can only come from digit strings *)
Theorem string_to_logic_exceptions : forall s l, string_to_logic s = Some l ->
  forall t, In t l -> wfb_token t = false -> t = LOPEN \/ t = LCLOSE \/ t = LEND.
Proof.
  intros s l H t Hin Hw. unfold string_to_logic in H.
  assert (Hr : Forall inrange l).
  { apply (s2l_range s [] 0 false l); [constructor | split; [lia | exact UINT_pos] | exact H]. }
  rewrite Forall_forall in Hr. apply wfb_token_exception; [apply Hr; exact Hin | exact Hw].
Qed.

Example string_to_logic_lopen :
  string_to_logic "18446744073709551609" = Some [LOPEN] /\ wfb_token LOPEN = false.
Proof. split; vm_compute; reflexivity. Qed.
