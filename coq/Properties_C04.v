(** * C04 property theorems -- statements only; proofs live in C04/*Proofs.v.
    Each theorem is closed by [exact] and followed by [Print Assumptions]. *)
From Coq Require Import Reals ZArith List Lra.
From Celer Require Import Base.Num Base.NumR Base.Stream Base.Vec3 C15.Samplers C15.SamplersProofs
  C04.Common C04.CommonProofs C04.KleinNishina C04.KleinNishinaProofs
  C04.EPlusGG C04.EPlusGGProofs C04.Ionization C04.IonizationProofs
  C04.BetheHeitler C04.BetheHeitlerProofs C04.Rayleigh C04.FinalStates C04.FinalStatesProofs
  C04.AcceptProofs C04.BHAcceptProofs C04.RayleighProofs C04.RayleighTable C04.RayleighTableProofs
  C04.BremEnergy C04.BremEnergyProofs C04.Chips C04.ChipsProofs.
From Celer Require C04.BremEnergyFloat.
From Celer Require Import C04.Relax C04.RelaxProofs.
Import ListNotations.
Local Open Scope R_scope.

(** ** rotate / ExitingDirectionSampler *)
Theorem C04_rotate_unit : forall dir rot : vec3 R, unitv dir -> unitv rot ->
  unitv (rotate (min_acc (T:=R)) dir rot).
Proof. exact rotate_unit. Qed.
Print Assumptions C04_rotate_unit.

(** the tree's rotate ([Base.Vec3.rotate]): only under the branch hypothesis *)
Theorem C04_rotate_preserves_polar : forall dir rot : vec3 R, unitv dir -> unitv rot ->
  (5 / 1000 <= sintheta_of rot \/ 0 <= vy rot) ->
  dot (rotate (min_acc (T:=R)) dir rot) rot = vz dir.
Proof. exact rotate_preserves_polar. Qed.
Print Assumptions C04_rotate_preserves_polar.

(** the tree's rotate is the copy [rotate_old] the _refuted statement is about *)
Theorem C04_tree_rotate_is_rotate_old : forall m (d r : vec3 R), rotate m d r = rotate_old m d r.
Proof. intros m d r. unfold rotate, rotate_old. rewrite base_rotate_old. reflexivity. Qed.
Print Assumptions C04_tree_rotate_is_rotate_old.

(** the tree's code ([rotate_old] = [Base.Vec3.rotate], see C04_tree_rotate_is_rotate_old):
    in the branch 0 < sin(theta) < 0.005 the sign of rot[Y] is dropped.  KNOWN FINDING
    rotate-small-sintheta-branch-drops-sign-of-y *)
Theorem C04_rotate_preserves_polar_small_branch_refuted :
  exists dir rot : vec3 R, unitv dir /\ unitv rot /\
    0 < sintheta_of rot < 5 / 1000 /\ vy rot < 0 /\
    dot (rotate (min_acc (T:=R)) dir rot) rot <> vz dir.
Proof. exact rotate_preserves_polar_small_branch_refuted. Qed.
Print Assumptions C04_rotate_preserves_polar_small_branch_refuted.

(** CANDIDATE REPAIR, NOT IN THE TREE ([rotate_new]: branch on x^2+y^2 > 0,
    (cosphi, sinphi) = (x, y)/sqrt(x^2+y^2)): polar angle preserved for every unit rot *)
Theorem C04_rotate_new_preserves_polar : forall dir rot : vec3 R, unitv dir -> unitv rot ->
  unitv (rotate_new (min_acc (T:=R)) dir rot) /\ dot (rotate_new (min_acc (T:=R)) dir rot) rot = vz dir.
Proof. intros d r Hd Hr. split; [exact (rotate_new_unit d r Hd Hr) | exact (rotate_new_preserves_polar d r Hd Hr)]. Qed.
Print Assumptions C04_rotate_new_preserves_polar.

(** ** Klein-Nishina *)
Theorem C04_kn_energy_conserved : forall (p : kn_params R) a s r a' s',
  kn_sample p a s = Some ((r, a'), s') -> i_action r <> Failed ->
  kn_energy p = i_energy r + sec_energy_sum (i_secs r) + i_deposit r.
Proof. exact kn_energy_conserved. Qed.
Print Assumptions C04_kn_energy_conserved.

Theorem C04_kn_momentum_conserved : forall (me : R) (p : kn_params R) a s r a' s' sec,
  kn_ok me p -> canon s -> rot_branch_ok (kn_dir p) ->
  kn_sample p a s = Some ((r, a'), s') -> i_secs r = [sec] -> s_pid sec = PElectron ->
  let pe := sqrt (s_energy sec * (s_energy sec + 2 * me)) in
  let E := kn_energy p in
  vx (kn_dir p) * E = vx (i_dir r) * i_energy r + vx (s_dir sec) * pe /\
  vy (kn_dir p) * E = vy (i_dir r) * i_energy r + vy (s_dir sec) * pe /\
  vz (kn_dir p) * E = vz (i_dir r) * i_energy r + vz (s_dir sec) * pe.
Proof. exact kn_momentum_conserved. Qed.
Print Assumptions C04_kn_momentum_conserved.

Theorem C04_kn_outputs_valid : forall (me : R) (p : kn_params R) a s r a' s',
  kn_ok me p -> canon s -> kn_sample p a s = Some ((r, a'), s') -> i_action r <> Failed ->
  i_action r = Scattered /\ 0 < i_energy r <= kn_energy p /\ unitv (i_dir r) /\ 0 <= i_deposit r /\
  a' = ((fst a + 1)%nat, snd a) /\
  exists sec, i_secs r = [sec] /\
    ((s_pid sec = PNone /\ s_energy sec = 0 /\ i_deposit r < 1 / 10000) \/
     (s_pid sec = PElectron /\ 1 / 10000 <= s_energy sec /\ unitv (s_dir sec) /\ i_deposit r = 0)).
Proof. exact kn_outputs_valid. Qed.
Print Assumptions C04_kn_outputs_valid.

(** every candidate (epsilon in [eps0,1], |cos theta| <= 1) is rejected with probability <= 1/2 *)
Theorem C04_kn_accept_lower_bound : forall (k : R) s eps omc rp s',
  kn_candidate k (kn_eps0 k) s = Some ((eps, omc, rp), s') -> 0 < k -> canon s ->
  exists u1 u2, s = u1 :: u2 :: s' /\ kn_eps0 k <= eps <= 1 /\
    omc = (1 - eps) / (eps * k) /\ 0 <= omc <= 2 /\ 0 <= rp <= 1 / 2.
Proof. exact kn_candidate_spec. Qed.
Print Assumptions C04_kn_accept_lower_bound.

Theorem C04_kn_terminates_on_high_draw : forall k : R, 0 < k ->
  forall (n : nat) (pre : list R), length pre = (3 * n)%nat -> canon pre ->
  forall u1 u2 u3 s fuel, canon [u1; u2; u3] -> 1 / 2 <= u3 -> (n < fuel)%nat ->
  exists r s', kn_loop fuel k (kn_eps0 k) (pre ++ u1 :: u2 :: u3 :: s) = Some (r, s') /\
               (length s <= length s')%nat.
Proof. exact kn_loop_exits_by_first_high_draw. Qed.
Print Assumptions C04_kn_terminates_on_high_draw.

Theorem C04_kn_failure_is_atomic : forall (p : kn_params R) (a : alloc) s,
  allocate 1 a = None ->
  kn_sample p a s = Some ((from_failure, a), s) /\
  i_action (from_failure (T:=R)) = Failed /\ i_secs (from_failure (T:=R)) = [].
Proof. exact kn_failure_is_atomic. Qed.
Print Assumptions C04_kn_failure_is_atomic.

Theorem C04_kn_fails_only_on_exhausted_storage : forall (p : kn_params R) a s r a' s',
  kn_sample p a s = Some ((r, a'), s') -> i_action r = Failed -> allocate 1 a = None /\ a' = a /\ s' = s.
Proof. exact kn_fails_only_on_exhausted_storage. Qed.
Print Assumptions C04_kn_fails_only_on_exhausted_storage.

(** ** e+ annihilation ([fixed = false]: the tree's code; [fixed = true]: CANDIDATE REPAIR, NOT IN THE TREE) *)
Theorem C04_eplusgg_energy_conserved : forall fixed (p : ep_params R) a s r a' s',
  ep_sample fixed p a s = Some ((r, a'), s') -> i_action r <> Failed ->
  i_action r = Absorbed /\ i_deposit r = 0 /\
  ep_energy p + 2 * ep_me p = sec_energy_sum (i_secs r).
Proof. exact ep_energy_conserved. Qed.
Print Assumptions C04_eplusgg_energy_conserved.

Theorem C04_eplusgg_outputs_valid : forall fixed (p : ep_params R) a s r a' s',
  ep_ok p -> 0 < ep_energy p -> canon s -> (fixed = false \/ rot_branch_ok (ep_dir p)) ->
  ep_sample fixed p a s = Some ((r, a'), s') -> i_action r <> Failed ->
  exists g0 g1, i_secs r = [g0; g1] /\ s_pid g0 = PGamma /\ s_pid g1 = PGamma /\
    0 < s_energy g0 /\ 0 < s_energy g1 /\ unitv (s_dir g0) /\ unitv (s_dir g1).
Proof. exact ep_outputs_valid. Qed.
Print Assumptions C04_eplusgg_outputs_valid.

Theorem C04_eplusgg_cost_in_range : forall m E : R, 0 < m -> 0 < E -> forall eps : R,
  let tau := E / m in let q := sqrt (tau / (tau + 2)) * (1 / 2) in
  1 / 2 - q <= eps <= 1 / 2 + q ->
  -1 <= (eps * (tau + 2) - 1) / (eps * sqrt (tau * (tau + 2))) <= 1.
Proof. exact ep_cost_range. Qed.
Print Assumptions C04_eplusgg_cost_in_range.

(** candidate repair only (fixed = true), not in the tree *)
Theorem C04_eplusgg_repaired_momentum_conserved : forall (p : ep_params R) a s r a' s' g0 g1,
  ep_ok p -> 0 < ep_energy p -> canon s -> rot_branch_ok (ep_dir p) ->
  ep_sample true p a s = Some ((r, a'), s') -> i_secs r = [g0; g1] ->
  let pin := sqrt (ep_energy p * (ep_energy p + 2 * ep_me p)) in
  vx (ep_dir p) * pin = vx (s_dir g0) * s_energy g0 + vx (s_dir g1) * s_energy g1 /\
  vy (ep_dir p) * pin = vy (s_dir g0) * s_energy g0 + vy (s_dir g1) * s_energy g1 /\
  vz (ep_dir p) * pin = vz (s_dir g0) * s_energy g0 + vz (s_dir g1) * s_energy g1.
Proof. exact ep_momentum_conserved. Qed.
Print Assumptions C04_eplusgg_repaired_momentum_conserved.

(** the tree's code (fixed = false): KNOWN FINDING eplusgg-second-gamma-direction-ignores-first-gamma *)
Theorem C04_eplusgg_momentum_refuted :
  exists (p : ep_params R) (epsil u : R) r,
    ep_ok p /\ 0 < ep_energy p /\ canonical u /\
    1 / 2 - ep_sqgrate (ep_tau p) <= epsil <= 1 / 2 + ep_sqgrate (ep_tau p) /\
    ep_assemble false p epsil [u] = Some (r, []) /\
    exists g0 g1, i_secs r = [g0; g1] /\
      vz (ep_dir p) * sqrt (ep_energy p * (ep_energy p + 2 * ep_me p))
      <> vz (s_dir g0) * s_energy g0 + vz (s_dir g1) * s_energy g1.
Proof. exact ep_momentum_old_refuted. Qed.
Print Assumptions C04_eplusgg_momentum_refuted.

Theorem C04_eplusgg_failure_is_atomic : forall fixed (p : ep_params R) (a : alloc) s,
  allocate 2 a = None -> ep_sample fixed p a s = Some ((from_failure, a), s).
Proof. exact ep_failure_is_atomic. Qed.
Print Assumptions C04_eplusgg_failure_is_atomic.

(** ** IoniFinalStateHelper (Moller-Bhabha, Mu/Had ionisation) *)
Theorem C04_ioni_energy_conserved : forall (e_inc : R) dir p_inc m_inc t_e m_e s r s',
  ioni_final e_inc dir p_inc m_inc t_e m_e s = Some (r, s') ->
  e_inc = i_energy r + sec_energy_sum (i_secs r) + i_deposit r.
Proof. exact ioni_energy_conserved. Qed.
Print Assumptions C04_ioni_energy_conserved.

Theorem C04_ioni_momentum_conserved : forall (e_inc m_inc t_e m_e : R) dir s r s' sec,
  0 < m_inc -> 0 < m_e -> 0 < e_inc -> 0 < t_e < tmax_R m_inc e_inc m_e -> t_e < e_inc ->
  unitv dir -> rot_branch_ok dir ->
  ioni_final e_inc dir (sqrt (e_inc * e_inc + 2 * m_inc * e_inc)) m_inc t_e m_e s = Some (r, s') ->
  i_secs r = [sec] ->
  let p_inc := sqrt (e_inc * e_inc + 2 * m_inc * e_inc) in
  let p_out := sqrt (i_energy r * (i_energy r + 2 * m_inc)) in
  let p_e := sqrt (s_energy sec * (s_energy sec + 2 * m_e)) in
  vx dir * p_inc = vx (i_dir r) * p_out + vx (s_dir sec) * p_e /\
  vy dir * p_inc = vy (i_dir r) * p_out + vy (s_dir sec) * p_e /\
  vz dir * p_inc = vz (i_dir r) * p_out + vz (s_dir sec) * p_e.
Proof. exact ioni_momentum_conserved. Qed.
Print Assumptions C04_ioni_momentum_conserved.

Theorem C04_ioni_outputs_valid : forall (e_inc m_inc t_e m_e : R) dir s r s',
  0 < m_e <= m_inc -> 0 < e_inc -> 0 < t_e <= tmax_R m_inc e_inc m_e -> t_e < e_inc ->
  unitv dir ->
  ioni_final e_inc dir (sqrt (e_inc * e_inc + 2 * m_inc * e_inc)) m_inc t_e m_e s = Some (r, s') ->
  -1 <= ioni_costheta e_inc (sqrt (e_inc * e_inc + 2 * m_inc * e_inc)) m_inc t_e m_e <= 1 /\
  i_action r = Scattered /\ 0 < i_energy r < e_inc /\ unitv (i_dir r) /\ i_deposit r = 0 /\
  exists sec, i_secs r = [sec] /\ s_pid sec = PElectron /\ s_energy sec = t_e /\ unitv (s_dir sec).
Proof. exact ioni_outputs_valid. Qed.
Print Assumptions C04_ioni_outputs_valid.

Theorem C04_calc_tmax_is_kinematic_limit : forall m_inc e_inc m_e : R, 0 < m_inc -> 0 < m_e -> 0 <= e_inc ->
  calc_tmax m_inc e_inc m_e = tmax_R m_inc e_inc m_e.
Proof. exact calc_tmax_R. Qed.
Print Assumptions C04_calc_tmax_is_kinematic_limit.

(** ** Moller-Bhabha *)
Theorem C04_mb_energy_conserved : forall (p : mb_params R) a s r a' s',
  mb_sample p a s = Some ((r, a'), s') -> i_action r <> Failed ->
  mb_energy p = i_energy r + sec_energy_sum (i_secs r) + i_deposit r.
Proof. exact mb_energy_conserved. Qed.
Print Assumptions C04_mb_energy_conserved.

Theorem C04_mb_outputs_valid : forall (p : mb_params R) a s r a' s',
  mb_ok p -> canon s -> mb_sample p a s = Some ((r, a'), s') -> i_action r <> Failed ->
  (forall sec, i_secs r = [sec] -> s_energy sec < mb_energy p) ->
  i_action r = Scattered /\ 0 < i_energy r < mb_energy p /\ unitv (i_dir r) /\ i_deposit r = 0 /\
  exists sec, i_secs r = [sec] /\ s_pid sec = PElectron /\ mb_cut p <= s_energy sec /\ unitv (s_dir sec).
Proof. exact mb_outputs_valid. Qed.
Print Assumptions C04_mb_outputs_valid.

Theorem C04_mb_failure_is_atomic : forall (p : mb_params R) (a : alloc) s,
  allocate 1 a = None -> mb_sample p a s = Some ((from_failure, a), s).
Proof. exact mb_failure_is_atomic. Qed.
Print Assumptions C04_mb_failure_is_atomic.

(** ** Mu/Had ionisation *)
Theorem C04_muhad_energy_conserved : forall (p : mh_params R) a s r a' s',
  mh_sample p a s = Some ((r, a'), s') -> i_action r = Scattered ->
  mh_energy p = i_energy r + sec_energy_sum (i_secs r) + i_deposit r.
Proof. exact mh_energy_conserved. Qed.
Print Assumptions C04_muhad_energy_conserved.

Theorem C04_muhad_sampled_energy_in_range : forall (p : mh_params R) (tmax : R), 0 < mh_tmin p < tmax ->
  forall fuel s t_e s', mh_loop fuel p tmax s = Some (t_e, s') -> canon s ->
  mh_tmin p <= t_e <= tmax /\ canon s'.
Proof. exact mh_loop_spec. Qed.
Print Assumptions C04_muhad_sampled_energy_in_range.

Theorem C04_muhad_bb_accept_lower_bound : forall (p : mh_params R) (tmax energy : R),
  mh_kind_ p <> KMuBB -> 0 < mh_minc p -> 0 < mh_energy p -> 0 < tmax -> 0 <= energy <= tmax ->
  1 - beta_sq (mh_minc p) (mh_energy p) <= mh_target p tmax energy /\
  0 < 1 - beta_sq (mh_minc p) (mh_energy p) /\ mh_envelope p tmax = 1.
Proof. exact mh_bb_accept_lower_bound. Qed.
Print Assumptions C04_muhad_bb_accept_lower_bound.

Theorem C04_muhad_bb_terminates_on_low_draw : forall (p : mh_params R) (tmax : R) fuel u t s,
  mh_kind_ p <> KMuBB -> 0 < mh_minc p -> 0 < mh_energy p -> 0 < mh_tmin p < tmax ->
  canonical u -> 0 <= t <= 1 - beta_sq (mh_minc p) (mh_energy p) ->
  exists e, mh_loop (S fuel) p tmax (u :: t :: s) = Some (e, s) /\ mh_tmin p <= e <= tmax.
Proof. exact mh_bb_terminates_on_low_draw. Qed.
Print Assumptions C04_muhad_bb_terminates_on_low_draw.

Theorem C04_muhad_failure_is_atomic : forall (p : mh_params R) (a : alloc) s,
  mh_tmin p < calc_tmax (mh_minc p) (mh_energy p) (mh_me p) -> allocate 1 a = None ->
  mh_sample p a s = Some ((from_failure, a), s).
Proof. exact mh_failure_is_atomic. Qed.
Print Assumptions C04_muhad_failure_is_atomic.

(** ** Bethe-Heitler (LPM branch not modelled) *)
Theorem C04_bh_energy_conserved : forall (p : bh_params R) a s r a' s',
  bh_sample p a s = Some ((r, a'), s') -> i_action r <> Failed ->
  i_action r = Absorbed /\ i_deposit r = 0 /\
  bh_energy p = sec_energy_sum (i_secs r) + 2 * bh_me p.
Proof. exact bh_energy_conserved. Qed.
Print Assumptions C04_bh_energy_conserved.

Theorem C04_bh_outputs_valid : forall (p : bh_params R) a s r a' s',
  bh_ok p -> canon s -> bh_sample p a s = Some ((r, a'), s') -> i_action r <> Failed ->
  exists em ep, i_secs r = [em; ep] /\ s_pid em = PElectron /\ s_pid ep = PPositron /\
    0 <= s_energy em /\ 0 <= s_energy ep /\ unitv (s_dir em) /\ unitv (s_dir ep).
Proof. exact bh_outputs_valid. Qed.
Print Assumptions C04_bh_outputs_valid.

Theorem C04_tsai_urban_cosine_in_range : forall (energy mass : R) s c s', 0 <= energy -> 0 < mass ->
  tsai_urban energy mass s = Some (c, s') -> canon s -> -1 <= c <= 1 /\ canon s'.
Proof. exact tsai_urban_range. Qed.
Print Assumptions C04_tsai_urban_cosine_in_range.

Theorem C04_bh_failure_is_atomic : forall (p : bh_params R) (a : alloc) s,
  allocate 2 a = None -> bh_sample p a s = Some ((from_failure, a), s).
Proof. exact bh_failure_is_atomic. Qed.
Print Assumptions C04_bh_failure_is_atomic.

(** ** Rayleigh *)
Theorem C04_rayleigh_energy_conserved : forall (p : ry_params R) a s r a' s',
  ry_sample p a s = Some ((r, a'), s') ->
  i_action r = Scattered /\ i_energy r = ry_energy p /\ i_secs r = [] /\ i_deposit r = 0 /\ a' = a.
Proof. exact ry_energy_conserved. Qed.
Print Assumptions C04_rayleigh_energy_conserved.

Theorem C04_rayleigh_outputs_valid_partial : forall (p : ry_params R) a s r a' s',
  unitv (ry_dir p) -> ry_sample p a s = Some ((r, a'), s') ->
  exists c s1, ry_loop (length s) p (ry_weights p) (ry_probs p) s = Some (c, s1) /\ -1 <= c /\
    (c <= 1 -> unitv (i_dir r)).
Proof. exact ry_outputs_valid_partial. Qed.
Print Assumptions C04_rayleigh_outputs_valid_partial.

(** ** Tier B: bremsstrahlung final state for any energy/angle sampler with the documented support *)
Theorem C04_brem_energy_conserved : forall (sampler : M R (R * R)) (e_inc : R) dir p_inc a s r a' s',
  brem_sample sampler e_inc dir p_inc a s = Some ((r, a'), s') -> i_action r <> Failed ->
  e_inc = i_energy r + sec_energy_sum (i_secs r) + i_deposit r.
Proof. exact brem_energy_conserved. Qed.
Print Assumptions C04_brem_energy_conserved.

Theorem C04_brem_outputs_valid : forall (sampler : M R (R * R)) (cut e_inc m_inc : R) dir a s r a' s',
  0 <= m_inc -> 0 < cut -> unitv dir -> canon s ->
  (forall s0 eg ct s1, canon s0 -> sampler s0 = Some ((eg, ct), s1) -> cut <= eg < e_inc /\ -1 <= ct <= 1 /\ canon s1) ->
  brem_sample sampler e_inc dir (sqrt (e_inc * e_inc + 2 * m_inc * e_inc)) a s = Some ((r, a'), s') ->
  i_action r <> Failed ->
  i_action r = Scattered /\ 0 < i_energy r < e_inc /\ unitv (i_dir r) /\ i_deposit r = 0 /\
  exists g, i_secs r = [g] /\ s_pid g = PGamma /\ cut <= s_energy g /\ unitv (s_dir g).
Proof. exact brem_outputs_valid. Qed.
Print Assumptions C04_brem_outputs_valid.

Theorem C04_brem_failure_is_atomic : forall (sampler : M R (R * R)) (e_inc : R) dir p_inc (a : alloc) s,
  allocate 1 a = None -> brem_sample sampler e_inc dir p_inc a s = Some ((from_failure, a), s).
Proof. exact brem_failure_is_atomic. Qed.
Print Assumptions C04_brem_failure_is_atomic.

(** ** Tier B: Coulomb scattering and Livermore photoelectric bookkeeping *)
Theorem C04_coulomb_energy_conserved : forall (m_inc e_inc m_target : R) dir ct s r s',
  coulomb_final m_inc e_inc m_target dir ct s = Some (r, s') ->
  i_action r = Scattered /\ i_secs r = [] /\ e_inc = i_energy r + i_deposit r.
Proof. exact coulomb_energy_conserved. Qed.
Print Assumptions C04_coulomb_energy_conserved.

Theorem C04_coulomb_outputs_valid : forall (m_inc e_inc m_target : R) dir ct s r s',
  0 <= m_inc -> 0 < e_inc -> 2 * m_inc <= m_target -> 0 < m_target -> -1 <= ct <= 1 -> unitv dir ->
  coulomb_final m_inc e_inc m_target dir ct s = Some (r, s') ->
  0 <= i_deposit r <= e_inc /\ 0 <= i_energy r /\ unitv (i_dir r).
Proof. exact coulomb_outputs_valid. Qed.
Print Assumptions C04_coulomb_outputs_valid.

Theorem C04_livermore_energy_conserved : forall (e_inc binding : R) edir relax,
  (forall secs esum, relax = Some (secs, esum) -> esum = sec_energy_sum secs) ->
  let r := livermore_final e_inc binding edir relax in
  i_action r = Absorbed /\ e_inc = sec_energy_sum (i_secs r) + i_deposit r.
Proof. exact livermore_energy_conserved. Qed.
Print Assumptions C04_livermore_energy_conserved.

Theorem C04_livermore_outputs_valid : forall (e_inc binding : R) edir relax,
  0 <= binding <= e_inc -> unitv edir ->
  (forall secs esum, relax = Some (secs, esum) -> 0 <= esum <= binding) ->
  let r := livermore_final e_inc binding edir relax in
  0 <= i_deposit r /\ exists el rest, i_secs r = el :: rest /\ s_pid el = PElectron /\ 0 <= s_energy el /\ unitv (s_dir el).
Proof. exact livermore_outputs_valid. Qed.
Print Assumptions C04_livermore_outputs_valid.

(** atomic relaxation (transition cascade abstract): every emitted secondary is at or
    above the production cut of ITS OWN particle type (Auger e-: electron cut,
    fluorescence photon: gamma cut), unit directions, and the energy of the
    suppressed transitions is deposited locally; energy balance of the whole PE event *)
Theorem C04_livermore_relax_thresholds_and_deposit :
  forall (e_inc binding : R) edir (cut_g cut_e : R) trs s r s',
  canon s -> livermore_relax e_inc binding edir cut_g cut_e trs s = Some (r, s') ->
  exists el secs, i_secs r = el :: secs /\ s_pid el = PElectron /\ s_energy el = e_inc - binding /\
    Forall (fun x => sec_cut cut_g cut_e x <= s_energy x /\ unitv (s_dir x) /\
                     (s_pid x = PElectron \/ s_pid x = PGamma)) secs /\
    i_deposit r = (binding - tr_energy_sum trs) + relax_suppressed cut_g cut_e trs /\
    e_inc = sec_energy_sum (i_secs r) + i_deposit r.
Proof. exact livermore_relax_thresholds_and_deposit. Qed.
Print Assumptions C04_livermore_relax_thresholds_and_deposit.

(** Livermore PE, E < thresh_lo (tabulated subshell cross sections as inputs): the skip
    test and the fall-through are concrete: a selected shell is accessible, so the
    photoelectron's kinetic energy E - E_bind is >= 0; if every binding energy
    exceeds E nothing is emitted and E is deposited *)
Theorem C04_livermore_lo_valid : forall (e_inc cutoff : R) shells edir,
  0 <= e_inc -> Forall (fun s => 0 <= fst s) shells ->
  let r := livermore_lo e_inc cutoff shells edir in
  i_action r = Absorbed /\ 0 <= i_deposit r <= e_inc /\
  Forall (fun x => 0 <= s_energy x) (i_secs r) /\
  e_inc = sec_energy_sum (i_secs r) + i_deposit r /\
  (Forall (fun s => e_inc < fst s) shells -> i_secs r = [] /\ i_deposit r = e_inc).
Proof. exact livermore_lo_valid. Qed.
Print Assumptions C04_livermore_lo_valid.

(** ** non-vacuity: the hypotheses are satisfiable by concrete states *)
Example C04_example_kn_ok : kn_ok (1 / 2) (KN 2 1 (V3 0 0 1)).
Proof. unfold kn_ok, unitv. rewrite dot_R. cbn. repeat split; try lra; field. Qed.
Example C04_example_canon : canon [0; 1 / 2; 3 / 4].
Proof. repeat constructor; unfold canonical; lra. Qed.
Example C04_example_branch_ok : rot_branch_ok (V3 0 0 1) /\ unitv (V3 0 0 1).
Proof. split; [right; cbn; lra | unfold unitv; rewrite dot_R; cbn; ring]. Qed.
Example C04_example_alloc : allocate 1 (4%nat, 4%nat) = None /\ allocate 1 (3%nat, 4%nat) = Some (4%nat, 4%nat).
Proof. split; reflexivity. Qed.
Example C04_example_mb_ok : mb_ok (MB (1 / 2) (1 / 1000) 10 (V3 0 0 1) true).
Proof. unfold mb_ok, unitv. rewrite dot_R. cbn. repeat split; try lra; ring. Qed.
Example C04_example_bh_ok : bh_ok (BH (1 / 2) 100 (V3 0 0 1) 3 3 (1 / 100)).
Proof. unfold bh_ok, unitv. rewrite dot_R. cbn. repeat split; try lra; ring. Qed.
Example C04_example_ep_ok : ep_ok (EP (1 / 2) 10 (V3 1 0 0)) /\ 0 < ep_energy (EP (1 / 2) 10 (V3 1 0 0)).
Proof. unfold ep_ok, unitv. rewrite dot_R. cbn. repeat split; try lra; ring. Qed.
Example C04_example_relax : exists r s',
  livermore_relax 1 (1 / 2) (V3 0 0 1) (1 / 100) (1 / 10) [Tr true (1 / 20); Tr false (1 / 20)] [1 / 2; 1 / 4] = Some (r, s')
  /\ length (i_secs r) = 2%nat.
Proof.
  unfold livermore_relax, relax_emit, bind. cbn [tr_auger tr_energy]. numR.
  destruct (Rleb_spec (1 / 10) (1 / 20)) as [H|H]; [lra|].
  destruct (Rleb_spec (1 / 100) (1 / 20)) as [H2|H2]; [|lra].
  eexists; eexists; split; reflexivity.
Qed.

(** ** Round 3: acceptance lower bounds / termination of the remaining rejection loops *)
(** e+ annihilation: every candidate epsilon of the loop's own proposal is rejected with probability
    <= 1 - p_min(tau), p_min(tau) = 2 (tau+1)/(tau+2)^2 > 0, decreasing in tau = T/mc^2 *)
Theorem C04_eplusgg_accept_lower_bound : forall tau eps : R, 0 < tau ->
  let q := sqrt (tau / (tau + 2)) * (1 / 2) in
  1 / 2 - q <= eps <= 1 / 2 + q ->
  ep_reject_prob tau eps <= 1 - ep_pmin tau /\ 0 < ep_pmin tau.
Proof. exact ep_accept_lower_bound. Qed.
Print Assumptions C04_eplusgg_accept_lower_bound.

Theorem C04_eplusgg_terminates_on_high_draw : forall (tau : R) fuel u t s, 0 < tau ->
  canonical u -> 1 - ep_pmin tau <= t ->
  exists eps, ep_loop (S fuel) tau (u :: t :: s) = Some (eps, s) /\
    1 / 2 - ep_sqgrate tau <= eps <= 1 / 2 + ep_sqgrate tau.
Proof. exact ep_terminates_on_high_draw. Qed.
Print Assumptions C04_eplusgg_terminates_on_high_draw.

(** uniform on the applicability interval (0, tau_max] (T_max = 1e8 MeV): p_min(tau_max) *)
Theorem C04_eplusgg_terminates_uniform : forall (tau tmax : R) fuel u t s, 0 < tau <= tmax ->
  canonical u -> 1 - ep_pmin tmax <= t ->
  exists eps, ep_loop (S fuel) tau (u :: t :: s) = Some (eps, s).
Proof. exact ep_terminates_uniform. Qed.
Print Assumptions C04_eplusgg_terminates_uniform.

(** no bound independent of the energy: the candidate at the top of the epsilon interval is accepted
    with probability <= 3/(tau+2) *)
Theorem C04_eplusgg_accept_uniform_in_tau_refuted : forall tau : R, 0 < tau ->
  let eps := 1 / 2 + sqrt (tau / (tau + 2)) * (1 / 2) in
  1 - ep_reject_prob tau eps <= 3 / (tau + 2).
Proof. exact ep_accept_uniform_in_tau_refuted. Qed.
Print Assumptions C04_eplusgg_accept_uniform_in_tau_refuted.

Theorem C04_moller_accept_lower_bound : forall gamma eps : R, 1 <= gamma -> 0 <= eps <= 1 / 2 ->
  4 / 9 * moller_g gamma (1 / 2) <= moller_g gamma eps /\ 0 < moller_g gamma (1 / 2).
Proof. exact moller_accept_lower_bound. Qed.
Print Assumptions C04_moller_accept_lower_bound.

Theorem C04_moller_terminates_on_low_draw : forall (me cut e_inc : R) fuel u t s,
  0 < me -> 0 < cut -> 2 * cut <= e_inc -> canonical u -> 0 <= t <= 4 / 9 ->
  exists eps, eps_loop (S fuel) (1 / (1 / 2)) (1 / (cut / e_inc))
                (moller_g (1 + e_inc / me)) (moller_g (1 + e_inc / me) (1 / 2)) (u :: t :: s) = Some (eps, s) /\
    cut / e_inc <= eps <= 1 / 2.
Proof. exact moller_terminates_on_low_draw. Qed.
Print Assumptions C04_moller_terminates_on_low_draw.

Theorem C04_bhabha_accept_lower_bound : forall gamma minf eps : R, 1 <= gamma -> 0 <= minf <= 1 -> 0 <= eps <= 1 ->
  1 / 10 * bhabha_g gamma minf 1 <= bhabha_g gamma eps eps /\ 0 < bhabha_g gamma minf 1.
Proof. exact bhabha_accept_lower_bound. Qed.
Print Assumptions C04_bhabha_accept_lower_bound.

Theorem C04_bhabha_terminates_on_low_draw : forall (me cut e_inc : R) fuel u t s,
  0 < me -> 0 < cut <= e_inc -> canonical u -> 0 <= t <= 1 / 10 ->
  exists eps, eps_loop (T:=R) (S fuel) (1 / 1) (1 / (cut / e_inc))
                (fun e : R => bhabha_g (1 + e_inc / me) e e) (bhabha_g (1 + e_inc / me) (cut / e_inc) 1)
                (u :: t :: s) = Some (eps, s) /\ cut / e_inc <= eps <= 1.
Proof. exact bhabha_terminates_on_low_draw. Qed.
Print Assumptions C04_bhabha_terminates_on_low_draw.

(** MuBB up to 1e8 MeV (the two magnitude hypotheses hold there: AcceptProofs.mubb_accept_nonvacuous) *)
Theorem C04_mubb_accept_lower_bound : forall (p : mh_params R) (tmax energy : R),
  mh_kind_ p = KMuBB -> 0 < mh_minc p -> 0 < mh_me p -> 0 < mh_energy p ->
  0 < energy <= tmax -> tmax <= mh_energy p ->
  1 + 2 * tmax / mh_me p <= 400000000 -> 2 * (mh_energy p + mh_minc p) / mh_minc p <= 2000000 ->
  2 / 5 * (1 - beta_sq (mh_minc p) (mh_energy p)) * mh_envelope p tmax <= mh_target p tmax energy /\
  0 < 1 - beta_sq (mh_minc p) (mh_energy p) /\ 1 <= mh_envelope p tmax.
Proof. exact mubb_accept_lower_bound. Qed.
Print Assumptions C04_mubb_accept_lower_bound.

Theorem C04_mubb_terminates_on_low_draw : forall (p : mh_params R) (tmax : R) fuel u t s,
  mh_kind_ p = KMuBB -> 0 < mh_minc p -> 0 < mh_me p -> 0 < mh_energy p ->
  0 < mh_tmin p < tmax -> tmax <= mh_energy p ->
  1 + 2 * tmax / mh_me p <= 400000000 -> 2 * (mh_energy p + mh_minc p) / mh_minc p <= 2000000 ->
  canonical u -> 0 <= t <= 2 / 5 * (1 - beta_sq (mh_minc p) (mh_energy p)) ->
  exists e, mh_loop (S fuel) p tmax (u :: t :: s) = Some (e, s) /\ mh_tmin p <= e <= tmax.
Proof. exact mubb_terminates_on_low_draw. Qed.
Print Assumptions C04_mubb_terminates_on_low_draw.

(** the kinematic maximum never exceeds the incident kinetic energy (hypothesis tmax <= E above) *)
Theorem C04_tmax_le_energy : forall m_inc e_inc m_e : R, 0 < m_inc -> 0 < m_e -> 0 <= e_inc ->
  tmax_R m_inc e_inc m_e <= e_inc.
Proof. exact tmax_R_le_energy. Qed.
Print Assumptions C04_tmax_le_energy.

(** Bethe-Heitler: NO positive per-candidate bound.  In the screened regime (eps_min = eps1 > eps0; inhabited:
    BHAcceptProofs.bh_witness_screened, 2 MeV photon on hydrogen) the candidate with u = 0 in the uniform branch
    has rejection-function value exactly 0 and is rejected by every positive test draw. *)
Theorem C04_bh_accept_lower_bound_refuted : forall (p : bh_params R) f10 f20 fuel u1 t s, bh_screened p ->
  let st := (1 / 2 - bh_eps_min p) * (1 / 2 - bh_eps_min p) * f10 in
  let sf := 15 / 10 * f20 in
  st / (st + sf) <= u1 -> 0 < t ->
  bh_loop (S fuel) p (bh_eps_min p) (bh_fz p) f10 f20 (u1 :: 0 :: t :: s) =
  bh_loop fuel p (bh_eps_min p) (bh_fz p) f10 f20 s.
Proof. exact bh_accept_lower_bound_refuted. Qed.
Print Assumptions C04_bh_accept_lower_bound_refuted.

Theorem C04_bh_screened_regime_inhabited : bh_screened bh_witness.
Proof. exact (proj1 bh_witness_screened). Qed.
Print Assumptions C04_bh_screened_regime_inhabited.

(** what holds: three draws per iteration; a candidate at eps = 1/2 is accepted by every test draw *)
Theorem C04_bh_terminates_on_symmetric_candidate : forall (p : bh_params R) eps_min fuel u1 t s,
  0 < bh_f1 (bh_delta_min p) - bh_fz p -> 0 < bh_me p -> 0 < bh_energy p -> 0 < bh_cbrt_z p ->
  let f10 := bh_f1 (bh_delta_min p) - bh_fz p in
  let f20 := bh_f2 (bh_delta_min p) - bh_fz p in
  u1 < (1 / 2 - eps_min) * (1 / 2 - eps_min) * f10 / ((1 / 2 - eps_min) * (1 / 2 - eps_min) * f10 + 15 / 10 * f20) ->
  canonical t ->
  bh_loop (S fuel) p eps_min (bh_fz p) f10 f20 (u1 :: 0 :: t :: s) = Some (1 / 2, s).
Proof. exact bh_terminates_on_symmetric_candidate. Qed.
Print Assumptions C04_bh_terminates_on_symmetric_candidate.

(** ** Rayleigh, full validity under the data hypothesis [ry_ok] (b > 0, 1/100 <= n <= 50; checked at run time
    on all 100 elements of RayleighModel.cc and on the parameters read back from the real RayleighModel) *)
Theorem C04_rayleigh_outputs_valid : forall (p : ry_params R) a s r a' s',
  ry_ok p -> unitv (ry_dir p) -> canon s -> ry_sample p a s = Some ((r, a'), s') ->
  i_action r = Scattered /\ i_energy r = ry_energy p /\ unitv (i_dir r) /\ i_secs r = [] /\ i_deposit r = 0 /\
  a' = a /\ (length s' < length s)%nat.
Proof. exact ry_outputs_valid. Qed.
Print Assumptions C04_rayleigh_outputs_valid.

Theorem C04_rayleigh_cosine_in_range : forall (p : ry_params R) probs, ry_ok p -> forall fuel s c s',
  ry_loop fuel p (ry_weights p) probs s = Some (c, s') -> canon s -> -1 <= c <= 1 /\ canon s'.
Proof. exact ry_loop_range. Qed.
Print Assumptions C04_rayleigh_cosine_in_range.

Theorem C04_rayleigh_accept_lower_bound : forall c t : R, -1 <= c -> t <= 1 / 2 ->
  orb (Rltb (1 + c * c) (2 * t)) (Rltb c (- 1)) = false.
Proof. exact ry_accept_lower_bound. Qed.
Print Assumptions C04_rayleigh_accept_lower_bound.

Theorem C04_rayleigh_terminates_on_low_draw : forall (p : ry_params R) ws probs f u0 u t s,
  -1 <= ry_cost p ws probs u0 u -> t <= 1 / 2 ->
  ry_loop (S f) p ws probs (u0 :: u :: t :: s) = Some (ry_cost p ws probs u0 u, s).
Proof. exact ry_terminates_on_low_draw. Qed.
Print Assumptions C04_rayleigh_terminates_on_low_draw.

(** no positive bound on (0, 1e8] MeV: for f = (kfac E)^2 -> 0 only candidates with u <= f/(f+1) can be accepted *)
Theorem C04_rayleigh_accept_lower_bound_refuted : forall E b u0 u : R,
  0 < E -> 0 < b -> b * (E * E + 1) <= 2 / 100 -> E * E / (E * E + 1) < u < 1 ->
  ry_ok (ry_low E b) /\
  ry_cost (ry_low E b) (ry_weights (ry_low E b)) (ry_probs (ry_low E b)) u0 u < -1.
Proof. exact ry_accept_lower_bound_refuted. Qed.
Print Assumptions C04_rayleigh_accept_lower_bound_refuted.

Theorem C04_rayleigh_candidate_below_minus_one_rejected : forall (p : ry_params R) ws probs f u0 u t s,
  ry_cost p ws probs u0 u < -1 ->
  ry_loop (S f) p ws probs (u0 :: u :: t :: s) = ry_loop f p ws probs s.
Proof. exact ry_candidate_below_minus_one_rejected. Qed.
Print Assumptions C04_rayleigh_candidate_below_minus_one_rejected.

(** the table of RayleighModel.cc (C04/RayleighTable.v, regenerated from the source on every run by
    translators/rayleigh_table.py) satisfies the data hypothesis, for all 100 elements *)
Theorem C04_rayleigh_table_ok : length ry_table = 100%nat /\ Forall ry_elem_ok ry_table.
Proof. exact ry_table_ok. Qed.
Print Assumptions C04_rayleigh_table_ok.

Theorem C04_rayleigh_table_elements_ok : forall (E kfac : R) (d : vec3 R), 0 < E -> 0 < kfac ->
  Forall (fun e => let '(a, b, n) := e in ry_ok (RY E d a b n kfac)) ry_table.
Proof. exact ry_table_elements_ok. Qed.
Print Assumptions C04_rayleigh_table_elements_ok.

(** ** detail/SBEnergySampler.hh, detail/RBEnergySampler.hh: the rejection loop over the cross-section oracle
    (xs i e = value of the table / calculator at iteration i, xs_max = its bound) *)
Theorem C04_brem_energy_loop_range : forall (tmin tmax dc : R) xs xs_max, 0 < tmin <= tmax -> 0 <= dc ->
  forall fuel i s e s', be_loop fuel i (tmin * tmin) (tmax * tmax) dc xs xs_max s = Some (e, s') -> canon s ->
  tmin <= e <= tmax /\ (tmin < tmax -> e < tmax) /\ canon s' /\ (length s' < length s)%nat.
Proof. exact be_loop_range. Qed.
Print Assumptions C04_brem_energy_loop_range.

Theorem C04_sb_energy_in_range : forall (cut e_inc dc : R) xs xs_max s e s',
  0 < cut < e_inc -> 0 <= dc -> canon s -> sb_energy cut e_inc dc xs xs_max s = Some (e, s') ->
  cut <= e < e_inc /\ canon s' /\ (length s' < length s)%nat.
Proof. exact sb_energy_in_range. Qed.
Print Assumptions C04_sb_energy_in_range.

Theorem C04_rb_energy_in_range : forall (cut e_inc dc : R) xs xs_max s e s',
  0 < cut < e_inc -> e_inc <= 100000000 -> 0 <= dc -> canon s ->
  rb_energy cut e_inc dc xs xs_max s = Some (e, s') ->
  cut <= e < e_inc /\ canon s' /\ (length s' < length s)%nat.
Proof. exact rb_energy_in_range. Qed.
Print Assumptions C04_rb_energy_in_range.

(** accept bound given the table maximum; two uniforms per iteration *)
Theorem C04_brem_energy_terminates_on_low_draw : forall (tmin tmax dc : R) xs xs_max pmin f i u t s,
  0 < tmin <= tmax -> 0 <= dc -> 0 < xs_max ->
  (forall e, tmin <= e <= tmax -> pmin * xs_max <= xs i e) ->
  canonical u -> 0 <= t <= pmin ->
  exists e, be_loop (S f) i (tmin * tmin) (tmax * tmax) dc xs xs_max (u :: t :: s) = Some (e, s) /\
    tmin <= e <= tmax.
Proof. exact be_terminates_on_low_draw. Qed.
Print Assumptions C04_brem_energy_terminates_on_low_draw.

Theorem C04_brem_energy_zero_xs_rejected : forall (tmin_sq tmax_sq dc : R) xs xs_max f i u t s,
  0 < xs_max -> 0 < t -> (forall e, xs i e = 0) ->
  be_loop (S f) i tmin_sq tmax_sq dc xs xs_max (u :: t :: s) = be_loop f (S i) tmin_sq tmax_sq dc xs xs_max s.
Proof. exact be_zero_xs_rejected. Qed.
Print Assumptions C04_brem_energy_zero_xs_rejected.

(** SeltzerBerger / RelativisticBrem interactors with the modelled energy loop, any cross-section oracle and any
    angular sampler supported on [-1, 1]: the support hypothesis of C04_brem_outputs_valid is discharged *)
Theorem C04_sb_outputs_valid : forall (angle : M R R) (cut e_inc m_inc dc : R) xs xs_max dir a s r a' s',
  0 <= m_inc -> 0 < cut < e_inc -> 0 <= dc -> unitv dir -> canon s ->
  (forall s0 c s1, canon s0 -> angle s0 = Some (c, s1) -> -1 <= c <= 1 /\ canon s1) ->
  sb_sample angle cut e_inc dc xs xs_max dir (sqrt (e_inc * e_inc + 2 * m_inc * e_inc)) a s = Some ((r, a'), s') ->
  i_action r <> Failed ->
  i_action r = Scattered /\ 0 < i_energy r /\ unitv (i_dir r) /\ i_deposit r = 0 /\
  e_inc = i_energy r + sec_energy_sum (i_secs r) + i_deposit r /\
  exists sec, i_secs r = [sec] /\ s_pid sec = PGamma /\ cut <= s_energy sec < e_inc /\ unitv (s_dir sec).
Proof. exact sb_outputs_valid. Qed.
Print Assumptions C04_sb_outputs_valid.

Theorem C04_rb_outputs_valid : forall (angle : M R R) (cut e_inc m_inc dc : R) xs xs_max dir a s r a' s',
  0 <= m_inc -> 0 < cut < e_inc -> e_inc <= 100000000 -> 0 <= dc -> unitv dir -> canon s ->
  (forall s0 c s1, canon s0 -> angle s0 = Some (c, s1) -> -1 <= c <= 1 /\ canon s1) ->
  rb_sample angle cut e_inc dc xs xs_max dir (sqrt (e_inc * e_inc + 2 * m_inc * e_inc)) a s = Some ((r, a'), s') ->
  i_action r <> Failed ->
  i_action r = Scattered /\ 0 < i_energy r /\ unitv (i_dir r) /\ i_deposit r = 0 /\
  e_inc = i_energy r + sec_energy_sum (i_secs r) + i_deposit r /\
  exists sec, i_secs r = [sec] /\ s_pid sec = PGamma /\ cut <= s_energy sec < e_inc /\ unitv (s_dir sec).
Proof. exact rb_outputs_valid. Qed.
Print Assumptions C04_rb_outputs_valid.

(** ** neutron/interactor/ChipsNeutronElasticInteractor.hh (two-body elastic final state; the CHIPS momentum
    transfer Q^2 is an oracle; cos(theta) clamped to [-1,1] since /repo 2618c34) *)
(** valid final state for EVERY Q^2 the sampler can return, including a rounding excess over 4 p_cm^2 *)
Theorem C04_chips_outputs_valid : forall (p : chips_params R) (q2 : R) s r s',
  ch_ok p -> ch_mn p <> ch_mtarget p -> unitv (ch_dir p) -> chips_final p q2 s = Some (r, s') ->
  i_action r = Scattered /\ i_secs r = [] /\ -1 <= ch_cos_theta p q2 <= 1 /\
  0 <= i_deposit r /\ 0 < i_energy r <= ch_energy p /\ unitv (i_dir r) /\
  ch_energy p = i_energy r + sec_energy_sum (i_secs r) + i_deposit r /\ exists u, s = u :: s'.
Proof. exact chips_outputs_valid. Qed.
Print Assumptions C04_chips_outputs_valid.

(** within the sampler's contract 0 <= Q^2 <= 4 p_cm^2 (= clamp(q_sq, 0, max_q_sq)): recoil = Q^2/(2M) *)
Theorem C04_chips_energy_conserved : forall (p : chips_params R) (q2 : R) s r s',
  ch_ok p -> 0 <= q2 <= 4 * (ch_cm_p p * ch_cm_p p) -> chips_final p q2 s = Some (r, s') ->
  i_action r = Scattered /\ i_secs r = [] /\
  i_deposit r = q2 / (2 * ch_mtarget p) /\ i_energy r = ch_energy p - q2 / (2 * ch_mtarget p) /\
  ch_energy p = i_energy r + sec_energy_sum (i_secs r) + i_deposit r /\
  0 <= i_deposit r /\ 0 <= i_energy r <= ch_energy p /\ -1 <= ch_cos_theta p q2 <= 1 /\
  exists u, s = u :: s'.
Proof. exact chips_energy_conserved. Qed.
Print Assumptions C04_chips_energy_conserved.

(** the boosted neutron energy, for every Q^2 and azimuth: E' = E_n - Q^2/(2M) (two-body elastic kinematics) *)
Theorem C04_chips_boosted_energy : forall (p : chips_params R), ch_ok p -> forall q2 phi : R,
  fv_e (ch_boosted p (ch_cos_raw p q2) phi) = ch_mn p + ch_energy p - q2 / (2 * ch_mtarget p).
Proof. exact ch_boosted_energy. Qed.
Print Assumptions C04_chips_boosted_energy.

(** |p'|^2 > 0 for every cosine in [-1,1] unless the target has exactly the neutron's mass *)
Theorem C04_chips_boosted_momentum_nonzero : forall (p : chips_params R), ch_ok p -> forall c phi : R,
  -1 <= c <= 1 -> ch_mn p <> ch_mtarget p ->
  0 < dot (fv_mom (ch_boosted p c phi)) (fv_mom (ch_boosted p c phi)).
Proof. exact ch_boosted_mom_pos. Qed.
Print Assumptions C04_chips_boosted_momentum_nonzero.

Theorem C04_chips_max_recoil_le_energy : forall (p : chips_params R), ch_ok p ->
  4 * (ch_cm_p p * ch_cm_p p) / (2 * ch_mtarget p) <= ch_energy p.
Proof. exact ch_max_recoil. Qed.
Print Assumptions C04_chips_max_recoil_le_energy.

(** the code BEFORE the repair ([ch_cos_raw], no clamp): Q^2 above 4 p_cm^2 (rounding on the real sampler; FIXED finding
    chips-costheta-exceeds-1-by-rounding-nan-direction, /repo 2618c34) gives cos(theta) < -1 and a negative
    argument of the square root in from_spherical; the clamp maps it to -1 *)
Theorem C04_chips_costheta_before_repair_refuted : forall (p : chips_params R) (q2 : R),
  ch_ok p -> 4 * (ch_cm_p p * ch_cm_p p) < q2 ->
  ch_cos_raw p q2 < -1 /\ 1 - ch_cos_raw p q2 * ch_cos_raw p q2 < 0 /\ ch_cos_theta p q2 = -1.
Proof. exact chips_costheta_before_repair_refuted. Qed.
Print Assumptions C04_chips_costheta_before_repair_refuted.

Theorem C04_chips_negative_q2_is_forward : forall (p : chips_params R) (q2 : R),
  ch_ok p -> q2 < 0 -> ch_cos_theta p q2 = 1.
Proof. exact chips_negative_q2_is_forward. Qed.
Print Assumptions C04_chips_negative_q2_is_forward.

(** KNOWN FINDING relbrem-photon-below-cut-by-density-correction-rounding: the SAME model function [rb_energy], run on
    the binary64 instance at E = 1e8 MeV, cut 1e-3 MeV, d_rho = 1.3003e8 MeV^2, candidate draw 0, returns a photon
    energy in [cut (1 - 1e-3), cut): C04_rb_energy_in_range (over R) does not survive the rounding of
    sqrt(esq - d_rho).  Replayed on the real RelativisticBremInteractor by the corpus case. *)
Theorem C04_rb_energy_below_cut_float_refuted : C04.BremEnergyFloat.rb_witness_below_cut = true.
Proof. exact C04.BremEnergyFloat.rb_energy_below_cut_float_refuted. Qed.
Print Assumptions C04_rb_energy_below_cut_float_refuted.

(** ** Allocation of the relaxation cascade (AtomicRelaxationParams constructor minima + detail::calc_max_secondaries):
    LivermorePEInteractor reserves 1 + max_secondary slots before sampling *)
Theorem C04_relax_elem_min_le_all : forall (cuts : list R) init c, In c cuts -> elem_min init cuts <= c.
Proof. exact elem_min_le_all. Qed.
Print Assumptions C04_relax_elem_min_le_all.

Theorem C04_relax_max_sec_bounds_cascade : forall shells (ce cg : R) fuel h v l,
  cascade shells h v l -> (h <= fuel)%nat -> (emitted ce cg l <= max_sec fuel shells ce cg v)%nat.
Proof. exact max_sec_bounds_cascade. Qed.
Print Assumptions C04_relax_max_sec_bounds_cascade.

(** the recorded per-element cuts being the minima over the materials containing the element, a cascade in ANY of those
    materials (its own cuts), from any subshell, of nesting depth <= fuel, emits at most max_secondary secondaries *)
Theorem C04_relax_allocation_sufficient : forall shells (e_cuts g_cuts : list R) (init_e init_g ce_m cg_m : R) fuel h i l,
  In ce_m e_cuts -> In cg_m g_cuts -> (i < length shells)%nat ->
  cascade shells h (Some i) l -> (h <= fuel)%nat ->
  (emitted ce_m cg_m l <= max_secondary fuel shells (elem_min init_e e_cuts) (elem_min init_g g_cuts))%nat.
Proof. exact allocation_sufficient. Qed.
Print Assumptions C04_relax_allocation_sufficient.

(** and with a recorded cut above a material's own cut the bound fails (the effect of the seeded change C04-m5) *)
Theorem C04_relax_allocation_insufficient_with_too_high_cut :
  exists shells l, cascade shells 1 (Some 0%nat) l /\
    (max_secondary 2 shells 10%R 1%R < emitted 1%R 1%R l)%nat.
Proof. exact allocation_insufficient_with_too_high_cut. Qed.
Print Assumptions C04_relax_allocation_insufficient_with_too_high_cut.

(** IoniFinalStateHelper, primary stopped by the collision (T_e = E; Bhabha at eps = 1): since /repo a57af2a the primary keeps
    the incident direction -- a unit vector -- instead of the un-normalisable zero momentum difference (0/0 = NaN before) *)
Theorem C04_ioni_outputs_valid_stopped_primary : forall (e_inc m_inc m_e : R) dir s r s',
  0 < m_e <= m_inc -> 0 < e_inc -> e_inc <= tmax_R m_inc e_inc m_e -> unitv dir ->
  ioni_final e_inc dir (sqrt (e_inc * e_inc + 2 * m_inc * e_inc)) m_inc e_inc m_e s = Some (r, s') ->
  i_action r = Scattered /\ i_energy r = 0 /\ i_dir r = dir /\ unitv (i_dir r) /\ i_deposit r = 0 /\
  exists sec, i_secs r = [sec] /\ s_pid sec = PElectron /\ s_energy sec = e_inc /\ unitv (s_dir sec).
Proof. exact ioni_outputs_valid_stopped_primary. Qed.
Print Assumptions C04_ioni_outputs_valid_stopped_primary.
