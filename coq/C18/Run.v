(** * C18: entry points of the discrete model for the correspondence check
    (extracted to OCaml with ExtrOcamlBasic only; elements are (key, payload)). *)
From Coq Require Import List Arith Bool ZArith.
From Celer Require Import C18.Algorithms.
Import ListNotations.

Definition elt := (Z * Z)%type.
Definition d0 : elt := (0%Z, 0%Z).

(** comparators used by the harness: 0 key<, 1 key>, 2 lexicographic <,
    3 = 0 (indirect distance comparator of SimpleUnitTracker: by key) *)
Definition cmp_of (id : nat) : elt -> elt -> bool :=
  match id with
  | 1 => fun a b => Z.ltb (fst b) (fst a)
  | 2 => fun a b => Z.ltb (fst a) (fst b) || (Z.eqb (fst a) (fst b) && Z.ltb (snd a) (snd b))
  | _ => fun a b => Z.ltb (fst a) (fst b)
  end.
(** predicates for partition: 0 key even, 1 key < 1, 2 key <> 1, 3 always true, 4 always false *)
Definition pred_of (id : nat) : elt -> bool :=
  match id with
  | 0 => fun a => Z.even (fst a)
  | 1 => fun a => Z.ltb (fst a) 1
  | 2 => fun a => negb (Z.eqb (fst a) 1)
  | 3 => fun _ => true
  | _ => fun _ => false
  end.

Definition run_sort (c : nat) (l : list elt) := sort d0 (cmp_of c) l.
Definition run_partial_sort (c : nat) (l : list elt) (mid : nat) := partial_sort d0 (cmp_of c) l mid.
Definition run_partition (p : nat) (l : list elt) := partition d0 (pred_of p) l.
Definition run_lower (c : nat) (l : list elt) (v : elt) := lower_bound d0 (cmp_of c) l v.
Definition run_upper (c : nat) (l : list elt) (v : elt) := upper_bound d0 (cmp_of c) l v.
Definition run_linear (c : nat) (l : list elt) (v : elt) := lower_bound_linear (cmp_of c) l v.
Definition run_find_sorted (c : nat) (l : list elt) (v : elt) := find_sorted d0 (cmp_of c) l v.
Definition run_min (c : nat) (l : list elt) := min_element (cmp_of c) l.
Definition run_all_of (p : nat) (l : list elt) := all_of (pred_of p) l.
Definition run_any_of (p : nat) (l : list elt) := any_of (pred_of p) l.
Definition run_all_adjacent (c : nat) (l : list elt) := all_adjacent (cmp_of c) l.
Definition run_step_range := step_range.
Definition run_range := range.
Definition run_hs_index := hyperslab_index.
Definition run_hs_coords := hyperslab_coords.
Definition run_rr_index (offs : list nat) (a b : nat) := ragged_index offs (a, b).
Definition run_rr_coords := ragged_coords.
Definition run_ceil_div := ceil_div.
Definition run_local_work := local_work.
Definition run_ipow_z (n : nat) (v : Z) : Z := ipow 1%Z Z.mul n v.
