(** * C18: binary64 witness — UniformGrid::find WITHOUT the step back violates
    bin + 1 < size (finding F3; the current code steps back).  Separate file:
    Floats and Reals must not be mixed. *)
From Coq Require Import ZArith Floats.
From Celer Require Import Base.Num Base.NumF C18.Grids.

Lemma uniform_find_raw_refuted : exists (front back : float) (size : Z) (v : float),
  PrimFloat.leb front v = true /\ PrimFloat.ltb v back = true /\
  (ug_find_raw (ug_from_bounds front back size) v + 1 = size)%Z /\
  (ug_find (ug_from_bounds front back size) v + 1 < size)%Z.
Proof.
  exists 0%float, 1%float, 4%Z, 0x1.fffffffffffffp-1%float.
  repeat split; vm_compute; reflexivity.
Qed.
