(** * C18: binary/linear searches, find_sorted, min_element, partition *)
From Coq Require Import List Arith Bool Lia Permutation.
From Celer Require Import C18.Algorithms C18.Specs C18.ArrayLemmas.
Import ListNotations.

Section Search.
  Context {A : Type}.
  Variable d : A.
  Notation get := (get d).

  (** ** bisection on a partitioned predicate *)
  Lemma bound_loop_spec : forall (p : A -> bool) (l : list A), partitioned p d l ->
    forall fuel first len, len <= fuel -> first + len <= length l ->
    (forall i, i < first -> p (get l i) = true) ->
    (forall i, first + len <= i -> i < length l -> p (get l i) = false) ->
    let k := bound_loop d p fuel l first len in
    k <= length l /\ (forall i, i < k -> p (get l i) = true) /\
    (forall i, k <= i -> i < length l -> p (get l i) = false).
  Proof.
    intros p l HP. induction fuel as [|f IH]; intros first len Hf Hlen Ht Hfa.
    - cbn. assert (len = 0) by lia. subst. repeat split; try lia; auto.
      intros i Hi1 Hi2. apply Hfa; lia.
    - cbn [bound_loop]. destruct (Nat.eqb_spec len 0) as [->|Hn0].
      + repeat split; try lia; auto. intros i Hi1 Hi2. apply Hfa; lia.
      + assert (Hh : len / 2 < len) by (apply Nat.div_lt; lia).
        set (m := first + len / 2) in *.
        destruct (p (get l m)) eqn:Pm.
        * apply IH; try lia.
          -- intros i Hi. destruct (Nat.eq_dec i m) as [->|Hne]; [exact Pm|].
             destruct (lt_dec i first) as [Hlt|Hge]; [apply Ht; exact Hlt|].
             apply (HP i m); try lia. exact Pm.
          -- intros i Hi1 Hi2. apply Hfa; lia.
        * apply IH; try lia; auto.
          intros i Hi1 Hi2. fold m in Hi1.
          destruct (Nat.eq_dec i m) as [->|Hne]; [exact Pm|].
          destruct (p (get l i)) eqn:Pi; [|reflexivity].
          rewrite (HP m i) in Pm; [discriminate|lia|lia|exact Pi].
  Qed.

  Lemma lower_bound_p_spec : forall (p : A -> bool) (l : list A), partitioned p d l ->
    let k := lower_bound_p d p l in
    k <= length l /\ (forall i, i < k -> p (get l i) = true) /\
    (forall i, k <= i -> i < length l -> p (get l i) = false).
  Proof.
    intros p l HP. unfold lower_bound_p. apply bound_loop_spec; auto; try lia.
  Qed.

  (** the partition point is unique *)
  Lemma partition_point_unique : forall (p : A -> bool) (l : list A) k k',
    k <= length l -> k' <= length l ->
    (forall i, i < k -> p (get l i) = true) ->
    (forall i, k <= i -> i < length l -> p (get l i) = false) ->
    (forall i, i < k' -> p (get l i) = true) ->
    (k' < length l -> p (get l k') = false) ->
    k = k'.
  Proof.
    intros p l k k' Hk Hk' Ht Hf Ht' Hf'.
    destruct (lt_eq_lt_dec k k') as [[H|H]|H]; [|exact H|].
    - pose proof (Ht' k H) as X. rewrite Hf in X by lia. discriminate.
    - specialize (Hf' ltac:(lia)). rewrite Ht in Hf' by lia. discriminate.
  Qed.

  (** ** linear lower bound *)
  Lemma linear_loop_spec : forall (p : A -> bool) (l : list A) it,
    let k := linear_loop p l it - it in
    it <= linear_loop p l it /\ k <= length l /\
    (forall i, i < k -> p (get l i) = true) /\ (k < length l -> p (get l k) = false).
  Proof.
    intros p. induction l as [|a r IH]; intros it; cbn [linear_loop].
    - cbn. replace (it - it) with 0 by lia. repeat split; try lia.
    - destruct (p a) eqn:Pa; cbn [negb].
      + destruct (IH (S it)) as (H0 & H1 & H2 & H3). cbn zeta.
        replace (linear_loop p r (S it) - it) with (S (linear_loop p r (S it) - S it)) by lia.
        repeat split; try lia.
        * cbn [length]. lia.
        * intros [|i] Hi; [exact Pa|]. cbn. apply H2. lia.
        * intros Hk. cbn. apply H3. cbn [length] in Hk. lia.
      + cbn zeta. replace (it - it) with 0 by lia. repeat split; try lia.
        intros _. exact Pa.
  Qed.

  Lemma lower_bound_linear_p_eq : forall (p : A -> bool) (l : list A), partitioned p d l ->
    lower_bound_linear_p p l = lower_bound_p d p l.
  Proof.
    intros p l HP. unfold lower_bound_linear_p.
    destruct (linear_loop_spec p l 0) as (_ & H1 & H2 & H3).
    rewrite Nat.sub_0_r in *.
    destruct (lower_bound_p_spec p l HP) as (K1 & K2 & K3).
    symmetry. eapply partition_point_unique; eauto.
  Qed.

  (** ** the comparator-based entry points *)
  Section WithCmp.
    Variable cmp : A -> A -> bool.
    Hypothesis O : strict_weak_order cmp.

    Lemma sorted_partitioned_lower : forall l v, sorted cmp d l ->
      partitioned (fun a => cmp a v) d l.
    Proof.
      intros l v HS i j Hij Hj Hp. cbn beta in *.
      pose proof (HS i j Hij Hj) as Hji.
      destruct (swo_negtrans cmp O _ (get l i) _ Hp) as [H|H]; congruence.
    Qed.

    Lemma sorted_partitioned_upper : forall l v, sorted cmp d l ->
      partitioned (fun a => negb (cmp v a)) d l.
    Proof.
      intros l v HS i j Hij Hj Hp. cbn beta in *.
      pose proof (HS i j Hij Hj) as Hji.
      apply negb_true_iff in Hp. apply negb_true_iff.
      destruct (cmp v (get l i)) eqn:E; [|reflexivity].
      destruct (swo_negtrans cmp O _ (get l j) _ E) as [H|H]; congruence.
    Qed.

    (** std::lower_bound: first position whose element is not less than v *)
    Theorem lower_bound_spec : forall l v, sorted cmp d l ->
      let k := lower_bound d cmp l v in
      k <= length l /\ (forall i, i < k -> cmp (get l i) v = true) /\
      (forall i, k <= i -> i < length l -> cmp (get l i) v = false).
    Proof.
      intros l v HS. unfold lower_bound.
      apply (lower_bound_p_spec (fun a => cmp a v)). apply sorted_partitioned_lower; assumption.
    Qed.

    (** std::upper_bound: first position whose element is greater than v *)
    Theorem upper_bound_spec : forall l v, sorted cmp d l ->
      let k := upper_bound d cmp l v in
      k <= length l /\ (forall i, i < k -> cmp v (get l i) = false) /\
      (forall i, k <= i -> i < length l -> cmp v (get l i) = true).
    Proof.
      intros l v HS. unfold upper_bound.
      destruct (lower_bound_p_spec (fun a => negb (cmp v a)) l
                  (sorted_partitioned_upper l v HS)) as (K1 & K2 & K3).
      cbn zeta. repeat split; [exact K1| |].
      - intros i Hi. apply negb_true_iff. apply K2; exact Hi.
      - intros i Hi1 Hi2. apply negb_false_iff. apply K3; assumption.
    Qed.

    Theorem lower_bound_linear_eq : forall l v, sorted cmp d l ->
      lower_bound_linear cmp l v = lower_bound d cmp l v.
    Proof.
      intros l v HS. unfold lower_bound_linear, lower_bound.
      apply lower_bound_linear_p_eq. apply sorted_partitioned_lower; assumption.
    Qed.

    Definition equiv (a b : A) : Prop := cmp a b = false /\ cmp b a = false.

    (** find_sorted returns the first element equivalent to v, or [length l]
        when there is none *)
    Theorem find_sorted_spec : forall l v, sorted cmp d l ->
      let r := find_sorted d cmp l v in
      (r < length l /\ equiv (get l r) v /\ forall i, i < r -> ~ equiv (get l i) v)
      \/ (r = length l /\ forall i, i < length l -> ~ equiv (get l i) v).
    Proof.
      intros l v HS. unfold find_sorted.
      destruct (lower_bound_spec l v HS) as (K1 & K2 & K3).
      set (k := lower_bound d cmp l v) in *. cbn zeta.
      destruct (Nat.eqb_spec k (length l)) as [E|E]; cbn [orb].
      - right. split; [reflexivity|]. intros i Hi [H1 H2]. rewrite K2 in H1 by lia. discriminate.
      - destruct (cmp (get l k) v) eqn:E1; cbn [orb].
        + rewrite K3 in E1 by lia. discriminate.
        + destruct (cmp v (get l k)) eqn:E2.
          * right. split; [reflexivity|]. intros i Hi [H1 H2].
            destruct (lt_dec i k) as [Hlt|Hge].
            -- rewrite K2 in H1 by lia. discriminate.
            -- destruct (Nat.eq_dec i k) as [->|Hne]; [congruence|].
               pose proof (HS k i ltac:(lia) Hi) as Hik.
               destruct (swo_negtrans cmp O _ (get l i) _ E2); congruence.
          * left. split; [lia|]. split; [split; assumption|].
            intros i Hi [H1 H2]. rewrite K2 in H1 by lia. discriminate.
    Qed.

    (** ** min_element: the FIRST minimal element *)
    Lemma min_loop_spec : forall rest pre res rv,
      res < length pre -> rv = get pre res ->
      (forall j, j < length pre -> cmp (get pre j) rv = false) ->
      (forall j, j < res -> cmp rv (get pre j) = true) ->
      let l := pre ++ rest in
      let r := min_loop cmp rest (length pre) res rv in
      r < length l /\ (forall j, j < length l -> cmp (get l j) (get l r) = false) /\
      (forall j, j < r -> cmp (get l r) (get l j) = true).
    Proof.
      induction rest as [|x rest IH]; intros pre res rv Hres Hrv Hmin Hfirst.
      - cbn [min_loop]. rewrite app_nil_r. subst rv. cbn zeta. repeat split; auto.
      - cbn [min_loop].
        assert (Hl : pre ++ x :: rest = (pre ++ [x]) ++ rest) by (rewrite <- app_assoc; reflexivity).
        assert (Hlen : length (pre ++ [x]) = S (length pre)) by (rewrite app_length; cbn; lia).
        assert (Hgx : get (pre ++ [x]) (length pre) = x).
        { rewrite get_app_r by lia. rewrite Nat.sub_diag. reflexivity. }
        destruct (cmp x rv) eqn:E.
        + rewrite Hl. rewrite <- Hlen.
          apply IH; rewrite ?Hlen; try lia.
          * symmetry. exact Hgx.
          * intros j Hj. destruct (Nat.eq_dec j (length pre)) as [->|Hne].
            -- rewrite Hgx. apply (swo_irrefl _ O).
            -- rewrite get_app_l by lia.
               destruct (cmp (get pre j) x) eqn:E2; [|reflexivity].
               pose proof (swo_trans _ O _ _ _ E2 E) as H3.
               rewrite Hmin in H3 by lia. discriminate.
          * intros j Hj. rewrite get_app_l by lia.
            destruct (swo_negtrans cmp O _ (get pre j) _ E) as [H|H]; [exact H|].
            rewrite Hmin in H by lia. discriminate.
        + rewrite Hl. rewrite <- Hlen.
          apply IH; rewrite ?Hlen; try lia.
          * rewrite get_app_l by lia. exact Hrv.
          * intros j Hj. destruct (Nat.eq_dec j (length pre)) as [->|Hne].
            -- rewrite Hgx. exact E.
            -- rewrite get_app_l by lia. apply Hmin. lia.
          * intros j Hj. rewrite get_app_l by lia. apply Hfirst. exact Hj.
    Qed.

    Theorem min_element_first_min : forall l, l <> [] ->
      let r := min_element cmp l in
      r < length l /\ (forall j, j < length l -> cmp (get l j) (get l r) = false) /\
      (forall j, j < r -> cmp (get l r) (get l j) = true).
    Proof.
      intros [|x rest] Hne; [congruence|]. unfold min_element.
      change (x :: rest) with ([x] ++ rest).
      apply (min_loop_spec rest [x] 0 x); cbn [length]; try lia; try reflexivity.
      intros j Hj. assert (j = 0) by lia. subst. cbn. apply (swo_irrefl _ O).
    Qed.
  End WithCmp.

  (** ** partition_impl *)
  Section Partition.
    Variable p : A -> bool.

    Lemma scan_true_spec : forall (l : list A) fuel first last,
      last - first <= fuel -> first <= last ->
      (forall i, i < first -> p (get l i) = true) ->
      let f1 := scan_true d p fuel l first last in
      first <= f1 /\ f1 <= last /\ (forall i, i < f1 -> p (get l i) = true) /\
      (f1 <> last -> p (get l f1) = false).
    Proof.
      intros l. induction fuel as [|f IH]; intros first last Hf Hle Ht; cbn [scan_true].
      - assert (first = last) by lia. subst. cbn zeta. repeat split; auto; try lia.
      - destruct (Nat.eqb_spec first last) as [->|Hne].
        + cbn zeta. repeat split; auto; try lia.
        + destruct (p (get l first)) eqn:Pf; cbn [negb].
          * destruct (IH (S first) last) as (H1 & H2 & H3 & H4); try lia.
            { intros i Hi. destruct (Nat.eq_dec i first) as [->|]; [exact Pf|apply Ht; lia]. }
            cbn zeta. repeat split; auto; lia.
          * cbn zeta. repeat split; auto; try lia.
    Qed.

    Lemma scan_false_spec : forall (l : list A) fuel first last,
      last - first <= fuel -> first < last -> last <= length l ->
      p (get l first) = false ->
      (forall i, last <= i -> i < length l -> p (get l i) = false) ->
      let l1 := scan_false d p fuel l first last in
      first <= l1 /\ l1 < last /\
      (forall i, l1 < i -> i < length l -> p (get l i) = false) /\
      (l1 <> first -> p (get l l1) = true).
    Proof.
      intros l. induction fuel as [|f IH]; intros first last Hf Hlt Hlast Pf Hfa; cbn [scan_false].
      - lia.
      - destruct (Nat.eqb_spec first (last - 1)) as [E|Hne].
        + cbn zeta. repeat split; try lia.
          intros i Hi1 Hi2. apply Hfa; lia.
        + destruct (p (get l (last - 1))) eqn:Pl.
          * cbn zeta. repeat split; try lia; auto.
            intros i Hi1 Hi2. apply Hfa; lia.
          * destruct (IH first (last - 1)) as (H1 & H2 & H3 & H4); try lia; auto.
            { intros i Hi1 Hi2. destruct (Nat.eq_dec i (last - 1)) as [->|]; [exact Pl|apply Hfa; lia]. }
            cbn zeta. repeat split; auto; lia.
    Qed.

    Lemma partition_loop_spec : forall l0 fuel (l : list A) first last,
      last - first < fuel -> first <= last -> last <= length l ->
      Permutation l0 l ->
      (forall i, i < first -> p (get l i) = true) ->
      (forall i, last <= i -> i < length l -> p (get l i) = false) ->
      let r := partition_loop d p fuel l first last in
      Permutation l0 (fst r) /\ snd r <= length (fst r) /\
      (forall i, i < snd r -> p (get (fst r) i) = true) /\
      (forall i, snd r <= i -> i < length (fst r) -> p (get (fst r) i) = false).
    Proof.
      intros l0. induction fuel as [|f IH]; intros l first last Hf Hle Hlast HP Ht Hfa; [lia|].
      cbn [partition_loop].
      destruct (scan_true_spec l (length l) first last) as (S1 & S2 & S3 & S4); try lia; auto.
      set (first1 := scan_true d p (length l) l first last) in *.
      destruct (Nat.eqb_spec first1 last) as [E|Hne].
      - cbn [fst snd]. repeat split; auto; try lia. intros i Hi1 Hi2. apply Hfa; lia.
      - destruct (scan_false_spec l (length l) first1 last) as (F1 & F2 & F3 & F4); try lia; auto.
        set (last1 := scan_false d p (length l) l first1 last) in *.
        destruct (Nat.eqb_spec first1 last1) as [E|Hne2].
        + cbn [fst snd]. repeat split; auto; try lia.
          intros i Hi1 Hi2. destruct (Nat.eq_dec i first1) as [->|]; [apply S4; exact Hne|].
          apply F3; lia.
        + apply IH; rewrite ?length_swap; try lia.
          * eapply perm_trans; [exact HP|]. apply perm_swap_lt; lia.
          * intros i Hi. destruct (Nat.eq_dec i first1) as [->|Hn].
            -- rewrite get_swap_l by lia. apply F4. lia.
            -- rewrite get_swap_other by lia. apply S3. lia.
          * intros i Hi1 Hi2. destruct (Nat.eq_dec i last1) as [->|Hn].
            -- rewrite get_swap_r by lia. apply S4. exact Hne.
            -- rewrite get_swap_other by lia. apply F3; lia.
    Qed.

    (** std::partition: a permutation with all the true elements first; the
        returned index is the number of true elements *)
    Theorem partition_spec : forall l,
      let r := partition d p l in
      Permutation l (fst r) /\ snd r = count p l /\ snd r <= length l /\
      (forall i, i < snd r -> p (get (fst r) i) = true) /\
      (forall i, snd r <= i -> i < length l -> p (get (fst r) i) = false).
    Proof.
      intros l. unfold partition.
      destruct (partition_loop_spec l (S (length l)) l 0 (length l)) as (H1 & H2 & H3 & H4);
        try lia; auto; try (intros; lia).
      set (r := partition_loop d p (S (length l)) l 0 (length l)) in *. cbn zeta.
      assert (Hlen : length (fst r) = length l) by (symmetry; apply Permutation_length; exact H1).
      repeat split; auto; try lia.
      - rewrite (count_perm p _ _ H1). symmetry. apply (count_prefix d); auto.
      - intros i Hi1 Hi2. apply H4; lia.
    Qed.
  End Partition.
End Search.

(** non-vacuity *)
Lemma ltb_swo : strict_weak_order Nat.ltb.
Proof.
  constructor.
  - intros a. apply Nat.ltb_irrefl.
  - intros a b c H1 H2. apply Nat.ltb_lt in H1, H2. apply Nat.ltb_lt. lia.
  - intros a b c H1 H2 H3 H4. apply Nat.ltb_ge in H1, H2, H3, H4.
    split; apply Nat.ltb_ge; lia.
Qed.

Example sorted_ex : sorted Nat.ltb 0 [1; 2; 2; 5].
Proof.
  intros i j Hij Hj. cbn in Hj. apply Nat.ltb_ge.
  destruct j as [|[|[|[|j]]]]; destruct i as [|[|[|[|i]]]]; cbn; lia.
Qed.

Example search_ex :
  lower_bound 0 Nat.ltb [1; 2; 2; 5] 2 = 1 /\ upper_bound 0 Nat.ltb [1; 2; 2; 5] 2 = 3 /\
  find_sorted 0 Nat.ltb [1; 2; 2; 5] 3 = 4 /\ min_element Nat.ltb [3; 1; 2; 1] = 1 /\
  partition 0 Nat.even [1; 2; 3; 4; 6] = ([6; 2; 4; 3; 1], 3).
Proof. repeat split. Qed.
