(** * C18: stepped ranges, HyperslabIndexer, RaggedRightIndexer *)
From Coq Require Import List Arith Bool ZArith Lia.
From Celer Require Import C18.Algorithms.
Import ListNotations.

(** ** ranges *)
Section RangeProofs.
  Local Open Scope Z_scope.

  (** the arithmetic progression v, v+s, ... (n terms) *)
  Fixpoint arith (n : nat) (v s : Z) : list Z :=
    match n with O => [] | S m => v :: arith m (v + s) s end.

  Lemma arith_length : forall n v s, length (arith n v s) = n.
  Proof. induction n; intros; cbn; auto. Qed.

  Lemma arith_nth : forall n v s k, (k < n)%nat -> nth k (arith n v s) 0 = v + Z.of_nat k * s.
  Proof.
    induction n as [|n IH]; intros v s k Hk; [lia|]. destruct k as [|k]; cbn [arith nth].
    - lia.
    - rewrite IH by lia. lia.
  Qed.

  Lemma step_iter_pos : forall fuel v e s, 0 < s ->
    (Z.to_nat ((e - 1 - v) / s + 1) <= fuel)%nat ->
    step_iter fuel v e s = arith (Z.to_nat ((e - 1 - v) / s + 1)) v s.
  Proof.
    induction fuel as [|f IH]; intros v e s Hs Hf.
    - assert (E : Z.to_nat ((e - 1 - v) / s + 1) = 0%nat) by lia. rewrite E. reflexivity.
    - cbn [step_iter]. unfold step_iter_eq. destruct (Z.leb_spec 0 s); [|lia].
      destruct (Z.ltb_spec v e) as [Hlt|Hge]; cbn [negb].
      + assert (Hc : (e - 1 - v) / s + 1 = ((e - 1 - (v + s)) / s + 1) + 1).
        { replace (e - 1 - v) with ((e - 1 - (v + s)) + 1 * s) by lia.
          rewrite Z.div_add by lia. lia. }
        assert (Hnn : 0 <= (e - 1 - (v + s)) / s + 1).
        { assert (-1 <= (e - 1 - (v + s)) / s); [|lia].
          apply Z.div_le_lower_bound; lia. }
        rewrite Hc. rewrite Z2Nat.inj_add by lia. rewrite Nat.add_1_r. cbn [arith].
        f_equal. apply IH; [lia|]. rewrite Hc in Hf. lia.
      + assert (E : (e - 1 - v) / s + 1 <= 0).
        { assert ((e - 1 - v) / s < 0); [|lia]. apply Z.div_lt_upper_bound; lia. }
        replace (Z.to_nat ((e - 1 - v) / s + 1)) with 0%nat by lia. reflexivity.
  Qed.

  Lemma step_iter_neg : forall fuel v e s, s < 0 ->
    (Z.to_nat ((v - e) / (- s) + 1) <= fuel)%nat ->
    step_iter fuel v e s = arith (Z.to_nat ((v - e) / (- s) + 1)) v s.
  Proof.
    induction fuel as [|f IH]; intros v e s Hs Hf.
    - assert (E : Z.to_nat ((v - e) / (- s) + 1) = 0%nat) by lia. rewrite E. reflexivity.
    - cbn [step_iter]. unfold step_iter_eq. destruct (Z.leb_spec 0 s); [lia|].
      destruct (Z.ltb_spec v e) as [Hlt|Hge].
      + assert (E : (v - e) / (- s) + 1 <= 0).
        { assert ((v - e) / (- s) < 0); [|lia]. apply Z.div_lt_upper_bound; lia. }
        replace (Z.to_nat ((v - e) / (- s) + 1)) with 0%nat by lia. reflexivity.
      + assert (Hc : (v - e) / (- s) + 1 = ((v + s - e) / (- s) + 1) + 1).
        { replace (v - e) with ((v + s - e) + 1 * (- s)) by lia.
          rewrite Z.div_add by lia. lia. }
        assert (Hnn : 0 <= (v + s - e) / (- s) + 1).
        { assert (-1 <= (v + s - e) / (- s)); [|lia].
          apply Z.div_le_lower_bound; lia. }
        rewrite Hc. rewrite Z2Nat.inj_add by lia. rewrite Nat.add_1_r. cbn [arith].
        f_equal. apply IH; [lia|]. rewrite Hc in Hf. lia.
  Qed.

  (** range(a, b).step(s), s > 0:  a, a+s, ... below b  (ceil((b-a)/s) terms);
      s < 0:  b+s, b+2s, ... not below a  (floor((b-a)/-s) terms) *)
  Theorem range_elements : forall a b s, a <= b -> s <> 0 ->
    step_range a b s =
      if 0 <? s then arith (Z.to_nat ((b - 1 - a) / s + 1)) a s
      else arith (Z.to_nat ((b - a) / (- s))) (b + s) s.
  Proof.
    intros a b s Hab Hs. unfold step_range.
    destruct (Z.ltb_spec s 0) as [Hneg|Hpos]; destruct (Z.ltb_spec 0 s); try lia.
    - assert (Hc : (b + s - a) / (- s) + 1 = (b - a) / (- s)).
      { replace (b - a) with ((b + s - a) + 1 * (- s)) by lia. rewrite Z.div_add by lia. lia. }
      rewrite step_iter_neg; [rewrite Hc; reflexivity|lia|].
      rewrite Hc. assert ((b - a) / (- s) <= b - a); [|lia].
      apply Z.div_le_upper_bound; nia.
    - rewrite step_iter_pos; [reflexivity|lia|].
      assert ((b - 1 - a) / s + 1 <= b - a); [|lia].
      assert ((b - 1 - a) / s <= b - 1 - a); [|lia].
      destruct (Z.eq_dec a b) as [->|].
      + replace (b - 1 - b) with (-1) by lia.
        assert (-1 / s < 0); [apply Z.div_lt_upper_bound; lia|lia].
      + apply Z.div_le_upper_bound; nia.
  Qed.

  Lemma range_iter_spec : forall fuel v e, v <= e -> Z.to_nat (e - v) = fuel ->
    range_iter fuel v e = arith fuel v 1.
  Proof.
    induction fuel as [|f IH]; intros v e Hve Hf; [reflexivity|].
    cbn [range_iter arith]. destruct (Z.eqb_spec v e); [lia|]. f_equal. apply IH; lia.
  Qed.

  Theorem range_plain : forall a b, a <= b -> range a b = arith (Z.to_nat (b - a)) a 1.
  Proof. intros. unfold range. apply range_iter_spec; auto. Qed.

  Example range_ex : step_range 0 10 (-3) = [7; 4; 1] /\ step_range 0 10 3 = [0; 3; 6; 9]
                     /\ range 2 5 = [2; 3; 4].
  Proof. repeat split. Qed.
End RangeProofs.

(** ** HyperslabIndexer <-> HyperslabInverseIndexer *)
Section Hyperslab.
  Fixpoint prod (l : list nat) : nat := match l with [] => 1 | x :: r => x * prod r end.

  Lemma prod_app : forall a b, prod (a ++ b) = prod a * prod b.
  Proof. induction a; intros; cbn; [lia|]. rewrite IHa. lia. Qed.

  Lemma hs_index_loop_snoc : forall ds cs d c acc, length ds = length cs ->
    hs_index_loop (ds ++ [d]) (cs ++ [c]) acc = d * hs_index_loop ds cs acc + c.
  Proof.
    induction ds as [|d0 ds IH]; intros [|c0 cs] d c acc Hl; cbn in *; try lia.
    apply IH. lia.
  Qed.

  Lemma hyperslab_index_snoc : forall ds cs d c, ds <> [] -> length ds = length cs ->
    hyperslab_index (ds ++ [d]) (cs ++ [c]) = d * hyperslab_index ds cs + c.
  Proof.
    intros [|d0 ds] [|c0 cs] d c Hne Hl; cbn in *; try congruence; try lia.
    apply hs_index_loop_snoc. lia.
  Qed.

  Lemma hs_inv_loop_acc : forall r i acc, hs_inv_loop r i acc = hs_inv_loop r i [] ++ acc.
  Proof.
    induction r as [|d r IH]; intros i acc; [reflexivity|].
    destruct r as [|d' r'].
    - reflexivity.
    - change (hs_inv_loop (d :: d' :: r') i acc)
        with (hs_inv_loop (d' :: r') ((i - i mod d) / d) (i mod d :: acc)).
      change (hs_inv_loop (d :: d' :: r') i [])
        with (hs_inv_loop (d' :: r') ((i - i mod d) / d) [i mod d]).
      rewrite IH. rewrite (IH _ [i mod d]). rewrite <- app_assoc. reflexivity.
  Qed.

  Lemma sub_mod_div : forall i d, 0 < d -> (i - i mod d) / d = i / d.
  Proof.
    intros i d Hd. pose proof (Nat.div_mod i d ltac:(lia)) as H.
    replace (i - i mod d) with (d * (i / d)) by lia.
    rewrite Nat.mul_comm. apply Nat.div_mul. lia.
  Qed.

  Lemma hyperslab_coords_snoc : forall ds d i, ds <> [] -> 0 < d ->
    hyperslab_coords (ds ++ [d]) i = hyperslab_coords ds (i / d) ++ [i mod d].
  Proof.
    intros ds d i Hne Hd. unfold hyperslab_coords. rewrite rev_app_distr. cbn [rev app].
    destruct (rev ds) as [|d' r'] eqn:E.
    - exfalso. apply Hne. apply (f_equal (@rev nat)) in E. rewrite rev_involutive in E. exact E.
    - change (hs_inv_loop (d :: d' :: r') i [])
        with (hs_inv_loop (d' :: r') ((i - i mod d) / d) [i mod d]).
      rewrite sub_mod_div by lia. apply hs_inv_loop_acc.
  Qed.

  Definition coords_valid (dims coords : list nat) : Prop := Forall2 lt coords dims.

  Lemma Forall2_length : forall (l1 l2 : list nat), Forall2 lt l1 l2 -> length l1 = length l2.
  Proof. intros l1 l2 H. induction H; cbn; auto. Qed.

  Lemma coords_valid_snoc : forall ds cs d c, coords_valid ds cs -> c < d ->
    coords_valid (ds ++ [d]) (cs ++ [c]).
  Proof. intros. apply Forall2_app; [assumption|]. constructor; [assumption|constructor]. Qed.

  Lemma coords_valid_snoc_inv : forall ds d coords, coords_valid (ds ++ [d]) coords ->
    exists cs c, coords = cs ++ [c] /\ coords_valid ds cs /\ c < d.
  Proof.
    intros ds d coords H. unfold coords_valid in H.
    apply Forall2_app_inv_r in H. destruct H as (cs & l2 & H1 & H2 & ->).
    inversion H2 as [|c ? l2' ? Hc Hn]; subst. inversion Hn; subst.
    exists cs, c. auto.
  Qed.

  Lemma hyperslab_inverse_of_index : forall dims, dims <> [] -> Forall (lt 0) dims ->
    forall coords, coords_valid dims coords ->
    hyperslab_index dims coords < prod dims /\
    hyperslab_coords dims (hyperslab_index dims coords) = coords.
  Proof.
    induction dims as [|d ds IH] using rev_ind; intros Hne Hpos coords Hv; [congruence|].
    apply Forall_app in Hpos. destruct Hpos as [Hpds Hpd]. inversion Hpd as [|? ? Hd _]; subst.
    destruct (coords_valid_snoc_inv ds d coords Hv) as (cs & c & -> & Hvs & Hc).
    destruct ds as [|d0 ds'].
    - inversion Hvs; subst. cbn. split; [lia|reflexivity].
    - assert (Hne' : d0 :: ds' <> []) by congruence.
      assert (Hl : length (d0 :: ds') = length cs) by (symmetry; eapply Forall2_length; exact Hvs).
      destruct (IH Hne' Hpds cs Hvs) as [IH1 IH2].
      rewrite hyperslab_index_snoc by assumption. rewrite prod_app. change (prod [d]) with (d * 1).
      split; [remember (prod (d0 :: ds')) as P; remember (hyperslab_index (d0 :: ds') cs) as I; nia|].
      rewrite hyperslab_coords_snoc by assumption.
      replace ((d * hyperslab_index (d0 :: ds') cs + c) / d) with (hyperslab_index (d0 :: ds') cs).
      2:{ symmetry. rewrite Nat.mul_comm. rewrite Nat.div_add_l by lia. rewrite Nat.div_small by lia. lia. }
      replace ((d * hyperslab_index (d0 :: ds') cs + c) mod d) with c.
      2:{ symmetry. rewrite Nat.add_comm, Nat.mul_comm. rewrite Nat.mod_add by lia. apply Nat.mod_small. lia. }
      rewrite IH2. reflexivity.
  Qed.

  Lemma hyperslab_index_of_inverse : forall dims, dims <> [] -> Forall (lt 0) dims ->
    forall index, index < prod dims ->
    coords_valid dims (hyperslab_coords dims index) /\
    hyperslab_index dims (hyperslab_coords dims index) = index.
  Proof.
    induction dims as [|d ds IH] using rev_ind; intros Hne Hpos index Hi; [congruence|].
    apply Forall_app in Hpos. destruct Hpos as [Hpds Hpd]. inversion Hpd as [|? ? Hd _]; subst.
    destruct ds as [|d0 ds'].
    - cbn in *. split; [constructor; [lia|constructor]|reflexivity].
    - assert (Hne' : d0 :: ds' <> []) by congruence.
      rewrite prod_app in Hi. change (prod [d]) with (d * 1) in Hi.
      assert (Hq : index / d < prod (d0 :: ds')).
      { remember (prod (d0 :: ds')) as P. apply Nat.div_lt_upper_bound; nia. }
      destruct (IH Hne' Hpds (index / d) Hq) as [IH1 IH2].
      rewrite hyperslab_coords_snoc by assumption. split.
      + apply coords_valid_snoc; [assumption|]. apply Nat.mod_upper_bound. lia.
      + rewrite hyperslab_index_snoc; [|assumption|].
        * rewrite IH2. pose proof (Nat.div_mod index d ltac:(lia)). lia.
        * symmetry. eapply Forall2_length. exact IH1.
  Qed.

  (** index <-> coordinate maps are mutually inverse bijections between valid
      coordinates and [0, prod dims) *)
  Theorem hyperslab_bijective : forall dims, dims <> [] -> Forall (lt 0) dims ->
    (forall coords, coords_valid dims coords ->
       hyperslab_index dims coords < prod dims /\
       hyperslab_coords dims (hyperslab_index dims coords) = coords) /\
    (forall index, index < prod dims ->
       coords_valid dims (hyperslab_coords dims index) /\
       hyperslab_index dims (hyperslab_coords dims index) = index).
  Proof.
    intros dims Hne Hpos. split.
    - apply hyperslab_inverse_of_index; assumption.
    - apply hyperslab_index_of_inverse; assumption.
  Qed.

  Example hyperslab_ex : hyperslab_index [2; 3; 4] [1; 1; 1] = 17 /\ hyperslab_coords [2; 3; 4] 17 = [1; 1; 1].
  Proof. split; reflexivity. Qed.
End Hyperslab.

(** ** RaggedRightIndexer <-> RaggedRightInverseIndexer *)
Section Ragged.
  Definition off (offsets : list nat) (k : nat) : nat := nth k offsets 0.
  Definition offsets_mono (offsets : list nat) : Prop :=
    forall i j, i <= j -> j < length offsets -> off offsets i <= off offsets j.

  Lemma ragged_loop_spec : forall offsets index fuel i m,
    i + 1 <= m -> m < length offsets -> index < off offsets m -> m - i <= fuel ->
    let r := ragged_loop fuel offsets index i in
    i <= r /\ r < m /\ index < off offsets (r + 1) /\
    (forall k, i < k -> k <= r -> off offsets k <= index).
  Proof.
    intros offsets index. induction fuel as [|f IH]; intros i m Him Hm Hidx Hf; [lia|].
    cbn [ragged_loop]. fold (off offsets (i + 1)).
    destruct (Nat.leb_spec (off offsets (i + 1)) index) as [Hle|Hgt].
    - assert (Hne : i + 1 <> m) by (intro Hx; subst m; lia).
      destruct (IH (S i) m) as (R1 & R2 & R3 & R4); try lia.
      cbn zeta. repeat split; try lia; auto.
      intros k Hk1 Hk2. destruct (Nat.eq_dec k (S i)) as [->|]; [replace (S i) with (i + 1) by lia; exact Hle|].
      apply R4; lia.
    - cbn zeta. repeat split; try lia.
  Qed.

  Theorem ragged_right_bijective : forall offsets, 2 <= length offsets -> offsets_mono offsets ->
    (forall a b, a + 1 < length offsets -> b < off offsets (a + 1) - off offsets a ->
       ragged_coords offsets (ragged_index offsets (a, b)) = (a, b)) /\
    (forall index, off offsets 0 <= index -> index < off offsets (length offsets - 1) ->
       let c := ragged_coords offsets index in
       fst c + 1 < length offsets /\ snd c < off offsets (fst c + 1) - off offsets (fst c) /\
       ragged_index offsets c = index).
  Proof.
    intros offsets Hlen Hmono. split.
    - intros a b Ha Hb. unfold ragged_index, ragged_coords. cbn [fst snd]. fold (off offsets a).
      set (index := off offsets a + b).
      assert (Hidx : index < off offsets (a + 1)) by (unfold index; lia).
      destruct (ragged_loop_spec offsets index (length offsets) 0 (a + 1)) as (R1 & R2 & R3 & R4); try lia.
      set (r := ragged_loop (length offsets) offsets index 0) in *.
      assert (Hr : r = a).
      { destruct (lt_eq_lt_dec r a) as [[H|H]|H]; [|exact H|lia].
        pose proof (Hmono (r + 1) a ltac:(lia) ltac:(lia)). unfold index in R3. lia. }
      rewrite Hr. fold (off offsets a). f_equal. unfold index. lia.
    - intros index H0 H1. unfold ragged_coords. cbn zeta. cbn [fst snd].
      destruct (ragged_loop_spec offsets index (length offsets) 0 (length offsets - 1)) as (R1 & R2 & R3 & R4); try lia.
      set (r := ragged_loop (length offsets) offsets index 0) in *.
      assert (Hlo : off offsets r <= index).
      { destruct r as [|r']; [exact H0|]. apply R4; lia. }
      fold (off offsets r). unfold ragged_index. cbn [fst snd]. fold (off offsets r).
      repeat split; lia.
  Qed.

  Example ragged_ex : ragged_coords [0; 2; 5; 6] 4 = (1, 2) /\ ragged_index [0; 2; 5; 6] (1, 2) = 4.
  Proof. split; reflexivity. Qed.
End Ragged.
