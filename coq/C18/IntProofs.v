(** * C18: integer helpers — ceil_div, LocalWorkCalculator, ipow *)
From Coq Require Import List Arith Bool ZArith Lia Reals.
From Celer Require Import C18.Algorithms.
Import ListNotations.

(** ceil_div top bottom is the least q with q * bottom >= top *)
Lemma ceil_div_spec : forall top bottom, 0 < bottom ->
  let q := ceil_div top bottom in
  top <= q * bottom /\ (forall q', top <= q' * bottom -> q <= q').
Proof.
  intros top bottom Hb. unfold ceil_div.
  pose proof (Nat.div_mod top bottom ltac:(lia)) as Hdm.
  pose proof (Nat.mod_upper_bound top bottom ltac:(lia)) as Hm.
  destruct (Nat.eqb_spec (top mod bottom) 0) as [E|E]; cbn zeta; split.
  - nia.
  - intros q' Hq'. rewrite Nat.add_0_r.
    apply Nat.div_le_upper_bound; lia.
  - nia.
  - intros q' Hq'.
    destruct (le_lt_dec (top / bottom + 1) q') as [Hle|Hlt]; [exact Hle|exfalso].
    assert (q' <= top / bottom) by lia. nia.
Qed.

Example ceil_div_ex : ceil_div 7 2 = 4 /\ ceil_div 8 2 = 4 /\ ceil_div 0 3 = 0.
Proof. repeat split. Qed.

(** the local work counts add up to the total *)
Fixpoint sum_upto (f : nat -> nat) (n : nat) : nat :=
  match n with O => 0 | S k => sum_upto f k + f k end.

Lemma sum_local_aux : forall t w n, n <= w -> 0 < w ->
  sum_upto (local_work t w) n = n * (t / w) + Nat.min n (t mod w).
Proof.
  intros t w n. induction n as [|n IH]; intros Hn Hw.
  - reflexivity.
  - cbn [sum_upto]. rewrite IH by lia. unfold local_work.
    destruct (Nat.ltb_spec n (t mod w)); lia.
Qed.

Lemma local_work_total : forall t w, 0 < w -> sum_upto (local_work t w) w = t.
Proof.
  intros t w Hw. rewrite sum_local_aux by lia.
  pose proof (Nat.div_mod t w ltac:(lia)). pose proof (Nat.mod_upper_bound t w ltac:(lia)).
  rewrite Nat.min_r by lia. lia.
Qed.

(** ipow<N>(v) = v^N, over Z (exact integers) and over R *)
Lemma ipow_fuel_Z : forall fuel n v, n < fuel -> ipow_fuel 1%Z Z.mul fuel n v = (v ^ Z.of_nat n)%Z.
Proof.
  induction fuel as [|f IH]; intros n v Hn; [lia|].
  cbn [ipow_fuel]. destruct (Nat.eqb_spec n 0) as [->|Hn0]; [reflexivity|].
  destruct (Nat.even n) eqn:Ev.
  - apply Nat.even_spec in Ev. destruct Ev as [k ->].
    replace (2 * k / 2) with k by (apply Nat.div_unique_exact; lia).
    rewrite IH by lia. rewrite <- Z.pow_add_r by lia. f_equal. lia.
  - assert (Od : Nat.odd n = true) by (unfold Nat.odd; rewrite Ev; reflexivity).
    apply Nat.odd_spec in Od. destruct Od as [k ->].
    replace ((2 * k + 1 - 1) / 2) with k by (apply Nat.div_unique_exact; lia).
    rewrite IH by lia.
    replace (Z.of_nat (2 * k + 1)) with (1 + Z.of_nat k + Z.of_nat k)%Z by lia.
    rewrite !Z.pow_add_r by lia. rewrite Z.pow_1_r. ring.
Qed.

Lemma ipow_spec_Z : forall n v, ipow 1%Z Z.mul n v = (v ^ Z.of_nat n)%Z.
Proof. intros. unfold ipow. apply ipow_fuel_Z. lia. Qed.

Lemma ipow_fuel_R : forall fuel n v, n < fuel -> ipow_fuel 1%R Rmult fuel n v = pow v n.
Proof.
  induction fuel as [|f IH]; intros n v Hn; [lia|].
  cbn [ipow_fuel]. destruct (Nat.eqb_spec n 0) as [->|Hn0]; [reflexivity|].
  destruct (Nat.even n) eqn:Ev.
  - apply Nat.even_spec in Ev. destruct Ev as [k ->].
    replace (2 * k / 2) with k by (apply Nat.div_unique_exact; lia).
    rewrite IH by lia. rewrite <- pow_add. f_equal. lia.
  - assert (Od : Nat.odd n = true) by (unfold Nat.odd; rewrite Ev; reflexivity).
    apply Nat.odd_spec in Od. destruct Od as [k ->].
    replace ((2 * k + 1 - 1) / 2) with k by (apply Nat.div_unique_exact; lia).
    rewrite IH by lia.
    replace (2 * k + 1) with (1 + k + k) by lia.
    rewrite !pow_add. rewrite pow_1. ring.
Qed.

Lemma ipow_spec_R : forall n v, ipow 1%R Rmult n v = pow v n.
Proof. intros. unfold ipow. apply ipow_fuel_R. lia. Qed.

Example ipow_ex : ipow 1%Z Z.mul 8 2%Z = 256%Z.
Proof. reflexivity. Qed.

Lemma ipow_spec : forall n,
  (forall v : Z, ipow 1%Z Z.mul n v = (v ^ Z.of_nat n)%Z) /\
  (forall v : R, ipow 1%R Rmult n v = pow v n).
Proof. intro n; split; [exact (ipow_spec_Z n) | exact (ipow_spec_R n)]. Qed.
