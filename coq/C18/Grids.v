(** * C18/C14: executable model of corecel/grid/{UniformGrid,UniformGridData,
    NonuniformGrid,FindInterp,Interpolator,TwodGridCalculator,
    TwodSubgridCalculator}.hh over [Num] (instance R: theorems; instance float:
    run against the C++).  No proofs here. *)
From Coq Require Import List ZArith.
From Celer Require Import Base.Num C18.Algorithms.
Import ListNotations.

Section Grids.
  Context {T : Type} `{Num T}.
  Local Open Scope num_scope.

  (** UniformGridData *)
  Record ugrid := { ug_size : Z; ug_front : T; ug_back : T; ug_delta : T }.

  (* result.delta = (back - front) / (size - 1) *)
  Definition ug_from_bounds (front back : T) (size : Z) : ugrid :=
    {| ug_size := size; ug_front := front; ug_back := back;
       ug_delta := (back - front) / nofZ (size - 1) |}.

  (* operator[]: data_.front + data_.delta * i *)
  Definition ug_at (g : ugrid) (i : Z) : T := ug_front g + ug_delta g * nofZ i.

  (* static_cast<size_type>((value - data_.front) / data_.delta): the operand is
     non-negative under the precondition, so truncation = floor *)
  Definition ug_find_raw (g : ugrid) (v : T) : Z :=
    nfloorZ ((v - ug_front g) / ug_delta g).

  (* UniformGrid::find as it is now (commit e0c3783): step back from the last
     grid point *)
  Definition ug_find (g : ugrid) (v : T) : Z :=
    let bin := ug_find_raw g v in
    if (bin + 1 =? ug_size g)%Z then (bin - 1)%Z else bin.

  (** NonuniformGrid<T>::find on the list of grid values *)
  Definition nu_find (g : list T) (v : T) : nat :=
    let it := lower_bound_p n0 (fun a => a <? v) g in
    if negb (v =? get n0 g it) then it - 1 else it.

  (** find_interp for both grid kinds *)
  Definition find_interp_u (g : ugrid) (v : T) : Z * T :=
    let i := ug_find g v in
    let lower_val := ug_at g i in
    let upper_val := ug_at g (i + 1) in
    (i, (v - lower_val) / (upper_val - lower_val)).

  Definition find_interp_n (g : list T) (v : T) : nat * T :=
    let i := nu_find g v in
    let lower_val := get n0 g i in
    let upper_val := get n0 g (i + 1) in
    (i, (v - lower_val) / (upper_val - lower_val)).

  (** Interpolator<linear, linear>: constructor + operator() *)
  Definition lin_interp (xl yl xr yr x : T) : T :=
    let intercept := yl in
    let slope := (- yl + yr) / (- xl + xr) in
    let offset := - xl in
    nfma slope (offset + x) intercept.

  (** TwodGridCalculator({x, y}) = TwodSubgridCalculator(find_interp(x_grid, x))(y);
      values are row-major [x][y] *)
  Definition twod (xs ys vals : list T) (x y : T) : T :=
    let '(ix, fx) := find_interp_n xs x in
    let '(iy, fy) := find_interp_n ys y in
    let at_corner (xo yo : nat) := get n0 vals ((ix + xo) * length ys + (iy + yo)) in
    (n1 - fx) * ((n1 - fy) * at_corner 0%nat 0%nat + fy * at_corner 0%nat 1%nat)
    + fx * ((n1 - fy) * at_corner 1%nat 0%nat + fy * at_corner 1%nat 1%nat).
End Grids.

Arguments ugrid T : clear implicits.
