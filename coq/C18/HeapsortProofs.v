(** * C18: heap sort (sift_down / make_heap / pop_heap / sort_heap) is a sorting
    permutation for every strict weak order *)
From Coq Require Import List Arith Bool Lia Permutation ZArith ZifyBool.
From Celer Require Import C18.Algorithms C18.Specs C18.ArrayLemmas.
Import ListNotations.

(** lia does not know nat division: add the defining equations of every _ / 2 *)
Ltac div2_facts :=
  repeat match goal with
  | |- context [?a / 2] =>
      lazymatch goal with
      | _ : a = 2 * (a / 2) + a mod 2 |- _ => fail
      | _ => pose proof (Nat.div_mod a 2 ltac:(lia)); pose proof (Nat.mod_upper_bound a 2 ltac:(lia))
      end
  | _ : context [?a / 2] |- _ =>
      lazymatch goal with
      | _ : a = 2 * (a / 2) + a mod 2 |- _ => fail
      | _ => pose proof (Nat.div_mod a 2 ltac:(lia)); pose proof (Nat.mod_upper_bound a 2 ltac:(lia))
      end
  end.
Ltac dlia := first [lia | div2_facts; lia].

Section Heapsort.
  Context {A : Type}.
  Variable d : A.
  Variable cmp : A -> A -> bool.
  Notation get := (get d).
  Notation swap := (swap d).
  Notation sift_loop := (sift_loop d cmp).
  Notation sift_down := (sift_down d cmp).
  Notation pick_child := (pick_child d cmp).

  (** ** permutation (no hypothesis on cmp) *)
  Lemma pick_child_cases : forall l len c, pick_child l len c = c \/
    (pick_child l len c = c + 1 /\ c + 1 < len /\ cmp (get l c) (get l (c + 1)) = true).
  Proof.
    intros l len c. unfold Algorithms.pick_child.
    destruct (Nat.ltb_spec (c + 1) len); cbn [andb]; [|left; reflexivity].
    destruct (cmp (get l c) (get l (c + 1))) eqn:E; [right; auto|left; reflexivity].
  Qed.

  Lemma pick_child_lt : forall l len c, c < len -> pick_child l len c < len.
  Proof. intros l len c Hc. destruct (pick_child_cases l len c) as [->|(-> & H & _)]; dlia. Qed.

  Lemma hole_move_perm : forall (l : list A) start child top,
    start < length l -> child < length l ->
    Permutation (upd l start top) (upd (upd l start (get l child)) child top).
  Proof.
    intros l start child top Hs Hc.
    destruct (Nat.eq_dec start child) as [->|Hne].
    - rewrite upd_upd. apply Permutation_refl.
    - assert (E : upd (upd l start (get l child)) child top = swap (upd l start top) start child).
      { unfold Algorithms.swap. rewrite (get_upd_neq d) by dlia. rewrite (get_upd_eq d) by dlia.
        rewrite upd_upd. reflexivity. }
      rewrite E. apply perm_swap_any; rewrite length_upd; dlia.
  Qed.

  Lemma sift_loop_perm : forall fuel (l : list A) len start child top,
    2 <= len -> len <= length l -> start < len -> child < len ->
    Permutation (upd l start top) (sift_loop fuel l len start child top) /\
    length (sift_loop fuel l len start child top) = length l.
  Proof.
    induction fuel as [|f IH]; intros l len start child top H2 Hlen Hs Hc; cbn [Algorithms.sift_loop].
    - split; [apply Permutation_refl|apply length_upd].
    - assert (Hs' : start < length l) by dlia. assert (Hc' : child < length l) by dlia.
      pose proof (hole_move_perm l start child top Hs' Hc') as HP.
      destruct (Nat.ltb_spec ((len - 2) / 2) child) as [Hb|Hb].
      + split; [exact HP|]. rewrite !length_upd. reflexivity.
      + set (l1 := upd l start (get l child)) in *.
        assert (Hl1 : length l1 = length l) by apply length_upd.
        assert (Hc1 : pick_child l1 len (2 * child + 1) < len) by (apply pick_child_lt; dlia).
        destruct (cmp (get l1 (pick_child l1 len (2 * child + 1))) top).
        * split; [exact HP|]. rewrite length_upd. exact Hl1.
        * destruct (IH l1 len child (pick_child l1 len (2 * child + 1)) top) as [P L]; try dlia.
          split; [eapply perm_trans; [exact HP|exact P]|dlia].
  Qed.

  Lemma sift_down_perm : forall (l : list A) len start, len <= length l ->
    Permutation l (sift_down l len start) /\ length (sift_down l len start) = length l.
  Proof.
    intros l len start Hlen. unfold Algorithms.sift_down.
    destruct (Nat.ltb_spec len 2) as [H2|H2]; cbn [orb]; [split; [apply Permutation_refl|reflexivity]|].
    destruct (Nat.ltb_spec ((len - 2) / 2) start) as [Hb|Hb]; [split; [apply Permutation_refl|reflexivity]|].
    destruct (cmp (get l (pick_child l len (2 * start + 1))) (get l start));
      [split; [apply Permutation_refl|reflexivity]|].
    assert (Hc : pick_child l len (2 * start + 1) < len) by (apply pick_child_lt; dlia).
    destruct (sift_loop_perm len l len start (pick_child l len (2 * start + 1)) (get l start)) as [P L]; try dlia.
    rewrite upd_get_same in P. split; assumption.
  Qed.

  Lemma pop_heap_perm : forall (l : list A) len, len <= length l ->
    Permutation l (pop_heap d cmp l len) /\ length (pop_heap d cmp l len) = length l.
  Proof.
    intros l len Hlen. unfold pop_heap. destruct (Nat.ltb_spec 1 len); [|split; [apply Permutation_refl|reflexivity]].
    destruct (sift_down_perm (swap l 0 (len - 1)) (len - 1) 0) as [P L]; [rewrite length_swap; dlia|].
    rewrite length_swap in L. split; [|exact L].
    eapply perm_trans; [apply (perm_swap_any d l 0 (len - 1)); dlia|exact P].
  Qed.

  Lemma make_heap_loop_perm : forall k (l : list A) n, n <= length l ->
    Permutation l (make_heap_loop d cmp k l n) /\ length (make_heap_loop d cmp k l n) = length l.
  Proof.
    induction k as [|k IH]; intros l n Hn; cbn [make_heap_loop]; [split; [apply Permutation_refl|reflexivity]|].
    destruct (sift_down_perm l n k Hn) as [P L].
    destruct (IH (sift_down l n k) n ltac:(lia)) as [P2 L2].
    split; [eapply perm_trans; eassumption|dlia].
  Qed.

  Lemma make_heap_perm : forall l : list A,
    Permutation l (make_heap d cmp l) /\ length (make_heap d cmp l) = length l.
  Proof.
    intros l. unfold make_heap. destruct (1 <? length l); [|split; [apply Permutation_refl|reflexivity]].
    apply make_heap_loop_perm. dlia.
  Qed.

  Lemma sort_heap_loop_perm : forall n (l : list A), n <= length l ->
    Permutation l (sort_heap_loop d cmp n l) /\ length (sort_heap_loop d cmp n l) = length l.
  Proof.
    induction n as [|n IH]; intros l Hn; cbn [sort_heap_loop]; [split; [apply Permutation_refl|reflexivity]|].
    destruct (Nat.ltb_spec 1 (S n)); [|split; [apply Permutation_refl|reflexivity]].
    destruct (pop_heap_perm l (S n) Hn) as [P L].
    destruct (IH (pop_heap d cmp l (S n)) ltac:(lia)) as [P2 L2].
    split; [eapply perm_trans; eassumption|dlia].
  Qed.

  Theorem sort_permutation : forall l : list A, Permutation l (sort d cmp l).
  Proof.
    intros l. unfold sort, sort_heap. destruct (make_heap_perm l) as [P L].
    eapply perm_trans; [exact P|]. apply sort_heap_loop_perm. dlia.
  Qed.

  Theorem sort_length : forall l : list A, length (sort d cmp l) = length l.
  Proof. intros. symmetry. apply Permutation_length, sort_permutation. Qed.

  (** ** sortedness, for a strict weak order *)
  Hypothesis O : strict_weak_order cmp.

  (** heap order on the prefix [0, len) for all parents >= s *)
  Definition heap_from (l : list A) (len s : nat) : Prop :=
    forall i, 1 <= i -> i < len -> s <= (i - 1) / 2 -> cmp (get l ((i - 1) / 2)) (get l i) = false.

  Lemma pick_child_max : forall l len c c', c < len -> (c' = c \/ c' = c + 1) -> c' < len ->
    cmp (get l (pick_child l len c)) (get l c') = false.
  Proof.
    intros l len c c' Hc Hc' Hlt. unfold Algorithms.pick_child.
    destruct (Nat.ltb_spec (c + 1) len) as [H1|H1]; cbn [andb].
    - destruct (cmp (get l c) (get l (c + 1))) eqn:E.
      + destruct Hc' as [->| ->]; [apply (swo_asym cmp O); exact E|apply (swo_irrefl _ O)].
      + destruct Hc' as [->| ->]; [apply (swo_irrefl _ O)|exact E].
    - destruct Hc' as [->| ->]; [apply (swo_irrefl _ O)|dlia].
  Qed.

  (** the loop invariant of sift_down's do-while (see NOTES.md) *)
  Record sift_inv (l : list A) (len s0 hole child : nat) (top : A) : Prop := {
    si_len : len <= length l;
    si_hole : s0 <= hole;
    si_child : child < len;
    si_kid : child = 2 * hole + 1 \/ child = 2 * hole + 2;
    si_max : forall c, (c = 2 * hole + 1 \/ c = 2 * hole + 2) -> c < len ->
             cmp (get l child) (get l c) = false;
    si_top : cmp (get l child) top = false;
    si_heap : forall i, 1 <= i -> i < len -> s0 <= (i - 1) / 2 -> (i - 1) / 2 <> hole ->
              cmp (get l ((i - 1) / 2)) (get l i) = false;
    si_stale : s0 < hole ->
               cmp (get l hole) top = false /\
               (forall i, 1 <= i -> i < len -> (i - 1) / 2 = hole -> cmp (get l hole) (get l i) = false) }.

  Lemma sift_loop_heap : forall fuel l len s0 hole child top,
    len - child <= fuel -> sift_inv l len s0 hole child top ->
    let r := sift_loop fuel l len hole child top in
    heap_from r len s0 /\ (forall i, len <= i -> get r i = get l i).
  Proof.
    induction fuel as [|f IH]; intros l len s0 hole child top Hf I.
    { destruct I. dlia. }
    destruct I as [Ilen Ihole Ichild Ikid Imax Itop Iheap Istale].
    cbn [Algorithms.sift_loop].
    set (l1 := upd l hole (get l child)).
    assert (Hl1 : length l1 = length l) by apply length_upd.
    assert (Hhc : hole <> child) by dlia.
    assert (G1h : get l1 hole = get l child) by (apply (get_upd_eq d); dlia).
    assert (G1o : forall i, i <> hole -> get l1 i = get l i) by (intros; apply (get_upd_neq d); dlia).
    (* heap order in l1 for all pairs whose parent is not the new hole [child] *)
    assert (H1 : forall i, 1 <= i -> i < len -> s0 <= (i - 1) / 2 -> (i - 1) / 2 <> child ->
                 cmp (get l1 ((i - 1) / 2)) (get l1 i) = false).
    { intros i Hi1 Hi2 Hi3 Hi4.
      destruct (Nat.eq_dec ((i - 1) / 2) hole) as [Ep|Ep].
      - rewrite Ep, G1h. destruct (Nat.eq_dec i hole) as [->|Eh]; [dlia|]. rewrite G1o by exact Eh.
        apply Imax; dlia.
      - rewrite (G1o ((i - 1) / 2)) by exact Ep.
        destruct (Nat.eq_dec i hole) as [->|Eh].
        + rewrite G1h. assert (Hsh : s0 < hole) by dlia. destruct (Istale Hsh) as [_ St].
          apply (swo_nlt_trans cmp O _ (get l hole)); [apply Iheap; dlia|apply St; dlia].
        + rewrite G1o by exact Eh. apply Iheap; assumption. }
    (* writing top into the new hole: pairs with kid = child *)
    assert (Hup : cmp (get l1 ((child - 1) / 2)) top = false).
    { replace ((child - 1) / 2) with hole by dlia. rewrite G1h. exact Itop. }
    assert (Hfin : forall l2, l2 = upd l1 child top ->
              (forall i, 1 <= i -> i < len -> (i - 1) / 2 = child -> cmp top (get l1 i) = false) ->
              heap_from l2 len s0 /\ (forall i, len <= i -> get l2 i = get l i)).
    { intros l2 -> Hk. split.
      - intros i Hi1 Hi2 Hi3.
        destruct (Nat.eq_dec ((i - 1) / 2) child) as [Ep|Ep].
        + rewrite Ep. rewrite (get_upd_eq d) by dlia.
          rewrite (get_upd_neq d) by dlia. apply Hk; assumption.
        + rewrite (get_upd_neq d _ child ((i - 1) / 2)) by dlia.
          destruct (Nat.eq_dec i child) as [->|Ec].
          * rewrite (get_upd_eq d) by dlia. exact Hup.
          * rewrite (get_upd_neq d) by dlia. apply H1; assumption.
      - intros i Hi. rewrite (get_upd_neq d) by dlia. apply G1o. dlia. }
    destruct (Nat.ltb_spec ((len - 2) / 2) child) as [Hb|Hb].
    - (* the new hole is a leaf *)
      apply Hfin; [reflexivity|]. intros i Hi1 Hi2 Hi3. dlia.
    - set (child1 := pick_child l1 len (2 * child + 1)).
      assert (Hc1 : child1 < len) by (apply pick_child_lt; dlia).
      assert (Hk1 : child1 = 2 * child + 1 \/ child1 = 2 * child + 2).
      { unfold child1. destruct (pick_child_cases l1 len (2 * child + 1)) as [->|(-> & _)]; dlia. }
      assert (Hmax1 : forall c, (c = 2 * child + 1 \/ c = 2 * child + 2) -> c < len ->
                      cmp (get l1 child1) (get l1 c) = false).
      { intros c Hc Hlt. apply pick_child_max; dlia. }
      destruct (cmp (get l1 child1) top) eqn:Et.
      + (* top is larger than the larger child: done *)
        apply Hfin; [reflexivity|]. intros i Hi1 Hi2 Hi3.
        destruct (cmp top (get l1 i)) eqn:E; [|reflexivity].
        pose proof (swo_trans _ O _ _ _ Et E) as Hc. rewrite Hmax1 in Hc by dlia. discriminate.
      + (* continue with the hole at [child] *)
        assert (I1 : sift_inv l1 len s0 child child1 top).
        { constructor; try dlia; auto.
          intros _. split.
          - rewrite G1o by dlia. exact Itop.
          - intros i Hi1 Hi2 Hi3. rewrite !G1o by dlia. rewrite <- Hi3. apply Iheap; dlia. }
        destruct (IH l1 len s0 child child1 top ltac:(lia) I1) as [Hh Hfr].
        split; [exact Hh|]. intros i Hi. rewrite Hfr by assumption. apply G1o. dlia.
  Qed.

  (** sift_down at [start] extends the heap from the nodes > start to the nodes >= start *)
  Lemma sift_down_heap : forall l len start, len <= length l ->
    heap_from l len (S start) ->
    heap_from (sift_down l len start) len start /\
    (forall i, len <= i -> get (sift_down l len start) i = get l i).
  Proof.
    intros l len start Hlen H. unfold Algorithms.sift_down.
    destruct (Nat.ltb_spec len 2) as [H2|H2]; cbn [orb].
    { split; [|reflexivity]. intros i Hi1 Hi2 Hi3. dlia. }
    destruct (Nat.ltb_spec ((len - 2) / 2) start) as [Hb|Hb].
    { split; [|reflexivity]. intros i Hi1 Hi2 Hi3. apply H; try dlia.
      (* start has no children inside len: parent i = start impossible *) }
    set (child := pick_child l len (2 * start + 1)).
    assert (Hc : child < len) by (apply pick_child_lt; dlia).
    assert (Hk : child = 2 * start + 1 \/ child = 2 * start + 2).
    { unfold child. destruct (pick_child_cases l len (2 * start + 1)) as [->|(-> & _)]; dlia. }
    assert (Hmax : forall c, (c = 2 * start + 1 \/ c = 2 * start + 2) -> c < len ->
                   cmp (get l child) (get l c) = false).
    { intros c Hcc Hlt. apply pick_child_max; dlia. }
    destruct (cmp (get l child) (get l start)) eqn:Et.
    - split; [|reflexivity]. intros i Hi1 Hi2 Hi3.
      destruct (Nat.eq_dec ((i - 1) / 2) start) as [Ep|Ep]; [|apply H; dlia].
      rewrite Ep. destruct (cmp (get l start) (get l i)) eqn:E; [|reflexivity].
      pose proof (swo_trans _ O _ _ _ Et E) as Hx. rewrite Hmax in Hx by dlia. discriminate.
    - apply (sift_loop_heap len l len start start child (get l start)); [dlia|].
      constructor; try dlia; auto.
      intros i Hi1 Hi2 Hi3 Hi4. apply H; dlia.
  Qed.

  Lemma make_heap_loop_heap : forall k l n, n <= length l -> heap_from l n k ->
    heap_from (make_heap_loop d cmp k l n) n 0.
  Proof.
    induction k as [|k IH]; intros l n Hn H; cbn [make_heap_loop]; [exact H|].
    destruct (sift_down_heap l n k Hn H) as [H' _].
    apply IH; [|exact H']. destruct (sift_down_perm l n k Hn) as [_ L]. dlia.
  Qed.

  Lemma make_heap_is_heap : forall l, heap_from (make_heap d cmp l) (length l) 0.
  Proof.
    intros l. unfold make_heap. destruct (Nat.ltb_spec 1 (length l)) as [H|H].
    - apply make_heap_loop_heap; [dlia|]. intros i Hi1 Hi2 Hi3. dlia.
    - intros i Hi1 Hi2 Hi3. dlia.
  Qed.

  (** the root of a heap is a maximum *)
  Lemma heap_root_max : forall l len, heap_from l len 0 ->
    forall i, i < len -> cmp (get l 0) (get l i) = false.
  Proof.
    intros l len H i. induction i as [i IH] using lt_wf_ind. intros Hi.
    destruct (Nat.eq_dec i 0) as [->|Hne]; [apply (swo_irrefl _ O)|].
    apply (swo_nlt_trans cmp O _ (get l ((i - 1) / 2))).
    - apply IH; dlia.
    - apply H; dlia.
  Qed.

  (** invariant of sort_heap: heap prefix, sorted suffix, prefix below suffix *)
  Definition sort_inv (l : list A) (n : nat) : Prop :=
    n <= length l /\ heap_from l n 0 /\
    (forall i j, n <= i -> i < j -> j < length l -> cmp (get l j) (get l i) = false) /\
    (forall i j, i < n -> n <= j -> j < length l -> cmp (get l j) (get l i) = false).

  Lemma get_firstn : forall (l : list A) n i, i < n -> get (firstn n l) i = get l i.
  Proof.
    induction l as [|a r IH]; intros n i Hi; destruct n as [|n]; try dlia.
    - reflexivity.
    - destruct i as [|i]; cbn; [reflexivity|]. apply IH. dlia.
  Qed.

  Lemma skipn_ext : forall (l l' : list A) n, length l = length l' ->
    (forall i, n <= i -> get l i = get l' i) -> skipn n l = skipn n l'.
  Proof.
    induction l as [|a r IH]; intros [|a' r'] n Hl Hg; cbn in Hl; try dlia.
    - reflexivity.
    - destruct n as [|n]; cbn [skipn].
      + f_equal.
        * apply (Hg 0). dlia.
        * apply (IH r' 0); [dlia|]. intros i _. apply (Hg (S i)). dlia.
      + apply IH; [dlia|]. intros i Hi. apply (Hg (S i)). dlia.
  Qed.

  (** every element of the prefix of the result was in the prefix before *)
  Lemma sift_down_prefix : forall l len start i, len <= length l -> heap_from l len (S start) ->
    i < len -> exists i', i' < len /\ get (sift_down l len start) i = get l i'.
  Proof.
    intros l len start i Hlen H Hi.
    destruct (sift_down_perm l len start Hlen) as [P L].
    destruct (sift_down_heap l len start Hlen H) as [_ Fr].
    set (l' := sift_down l len start) in *.
    assert (Hs : skipn len l = skipn len l') by (apply skipn_ext; [dlia|intros; symmetry; apply Fr; assumption]).
    assert (P' : Permutation (firstn len l) (firstn len l')).
    { apply (Permutation_app_inv_r (skipn len l)). rewrite firstn_skipn.
      rewrite Hs at 1. rewrite firstn_skipn. exact P. }
    assert (Hin : In (get l' i) (firstn len l')).
    { rewrite <- (get_firstn l' len i Hi). apply nth_In. rewrite firstn_length. dlia. }
    apply (Permutation_in _ (Permutation_sym P')) in Hin.
    destruct (In_nth _ _ d Hin) as (i' & Hi' & E). rewrite firstn_length in Hi'.
    exists i'. split; [dlia|]. rewrite <- E. apply (get_firstn l len i'). dlia.
  Qed.

  Lemma pop_heap_inv : forall l n, 1 < n -> sort_inv l n -> sort_inv (pop_heap d cmp l n) (n - 1).
  Proof.
    intros l n Hn (Hlen & Hheap & Hsorted & Hps).
    unfold pop_heap. destruct (Nat.ltb_spec 1 n); [|dlia].
    set (l1 := swap l 0 (n - 1)).
    assert (Hl1 : length l1 = length l) by apply length_swap.
    assert (G0 : get l1 0 = get l (n - 1)) by (apply get_swap_l; dlia).
    assert (Gn : get l1 (n - 1) = get l 0) by (apply get_swap_r; dlia).
    assert (Go : forall i, i <> 0 -> i <> n - 1 -> get l1 i = get l i) by (intros; apply get_swap_other; assumption).
    assert (Hh1 : heap_from l1 (n - 1) 1).
    { intros i Hi1 Hi2 Hi3. rewrite !Go by dlia. apply Hheap; dlia. }
    destruct (sift_down_heap l1 (n - 1) 0 ltac:(lia) Hh1) as [Hh2 Fr].
    destruct (sift_down_perm l1 (n - 1) 0 ltac:(lia)) as [_ L2].
    pose proof (heap_root_max l n Hheap) as Hroot.
    set (l2 := sift_down l1 (n - 1) 0) in *.
    split; [dlia|]. split; [exact Hh2|]. split.
    - intros i j Hi Hij Hj. rewrite !Fr by dlia.
      destruct (Nat.eq_dec i (n - 1)) as [->|Hne].
      + rewrite Gn. rewrite Go by dlia. apply Hps; dlia.
      + rewrite !Go by dlia. apply Hsorted; dlia.
    - intros i j Hi Hj Hjl.
      destruct (sift_down_prefix l1 (n - 1) 0 i ltac:(lia) Hh1 Hi) as (i' & Hi' & E).
      fold l2 in E. rewrite E. rewrite Fr by dlia.
      assert (Hx : exists k, k < n /\ get l1 i' = get l k).
      { destruct (Nat.eq_dec i' 0) as [->|]; [exists (n - 1); split; [dlia|exact G0]|].
        exists i'. split; [dlia|apply Go; dlia]. }
      destruct Hx as (k & Hk & ->).
      destruct (Nat.eq_dec j (n - 1)) as [->|Hne].
      + rewrite Gn. apply Hroot. exact Hk.
      + rewrite Go by dlia. apply Hps; dlia.
  Qed.

  Lemma sort_heap_loop_inv : forall n l, sort_inv l n -> sorted cmp d (sort_heap_loop d cmp n l).
  Proof.
    induction n as [|n IH]; intros l I; cbn [sort_heap_loop].
    - destruct I as (_ & _ & Hs & _). intros i j Hij Hj. apply Hs; dlia.
    - destruct (Nat.ltb_spec 1 (S n)) as [H|H].
      + apply IH. replace n with (S n - 1) at 2 by dlia. apply pop_heap_inv; [dlia|exact I].
      + destruct I as (_ & _ & Hs & Hp). intros i j Hij Hj.
        destruct (Nat.eq_dec i 0) as [->|]; [apply Hp; dlia|apply Hs; dlia].
  Qed.

  Theorem sort_sorted : forall l, sorted cmp d (sort d cmp l).
  Proof.
    intros l. unfold sort, sort_heap. destruct (make_heap_perm l) as [_ L].
    apply sort_heap_loop_inv. rewrite L. split; [dlia|]. split; [apply make_heap_is_heap|].
    split; intros; dlia.
  Qed.
End Heapsort.

Example sort_ex : sort 0 Nat.ltb [3; 1; 2; 1; 5; 0] = [0; 1; 1; 2; 3; 5].
Proof. reflexivity. Qed.
