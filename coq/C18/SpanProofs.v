(** * C18: Span::first / last / subspan = firstn / skipn of the viewed elements *)
From Coq Require Import List Arith Bool ZArith Lia.
From Celer Require Import C18.Span.
Import ListNotations.
Local Open Scope Z_scope.

(** a span lies inside its buffer *)
Definition span_wf {A} (buf : list A) (s : span) : Prop :=
  0 <= span_data s /\ 0 <= span_size s /\ span_data s + span_size s <= Z.of_nat (length buf)
  /\ span_size s < dynamic_extent.

Lemma dyn_val : dynamic_extent = 18446744073709551615 /\ size_mod = 18446744073709551616.
Proof. split; reflexivity. Qed.

Lemma firstn_firstn_le : forall {A} (l : list A) i j, (i <= j)%nat -> firstn i (firstn j l) = firstn i l.
Proof. intros. rewrite firstn_firstn. f_equal. lia. Qed.

Lemma skipn_skipn' : forall {A} (l : list A) x y, skipn x (skipn y l) = skipn (y + x) l.
Proof.
  intros A l x y. revert l. induction y as [|y IH]; intro l; [reflexivity|].
  destruct l as [|a l]; [rewrite !skipn_nil; reflexivity|]. cbn [skipn Nat.add]. apply IH.
Qed.

(** first(count), precondition CELER_EXPECT(count <= size()) *)
Theorem span_first_spec : forall {A} (buf : list A) s count, span_wf buf s ->
  0 <= count -> first_pre s count = true ->
  span_elems buf (span_first s count) = firstn (Z.to_nat count) (span_elems buf s) /\
  span_wf buf (span_first s count) /\ length (span_elems buf (span_first s count)) = Z.to_nat count.
Proof.
  intros A buf [p n] count (Hp & Hn & Hb & Hd) Hc Hpre. unfold first_pre in Hpre. cbn [fst snd span_size span_data] in *.
  apply Z.leb_le in Hpre. unfold span_elems, span_first; cbn [fst snd span_size span_data].
  split; [rewrite firstn_firstn_le by lia; reflexivity|]. split.
  - repeat split; cbn [fst snd span_size span_data]; lia.
  - rewrite firstn_length, skipn_length. lia.
Qed.

(** last(count), precondition CELER_EXPECT(count <= size()) *)
Theorem span_last_spec : forall {A} (buf : list A) s count, span_wf buf s ->
  0 <= count -> last_pre s count = true ->
  span_elems buf (span_last s count)
    = skipn (Z.to_nat (span_size s - count)) (span_elems buf s) /\
  span_wf buf (span_last s count) /\ length (span_elems buf (span_last s count)) = Z.to_nat count.
Proof.
  intros A buf [p n] count (Hp & Hn & Hb & Hd) Hc Hpre. unfold last_pre in Hpre. cbn [fst snd span_size span_data] in *.
  apply Z.leb_le in Hpre. unfold span_elems, span_last; cbn [fst snd span_size span_data].
  assert (E : firstn (Z.to_nat count) (skipn (Z.to_nat (p + n - count)) buf)
              = skipn (Z.to_nat (n - count)) (firstn (Z.to_nat n) (skipn (Z.to_nat p) buf))).
  { rewrite skipn_firstn_comm, skipn_skipn'. f_equal; [lia|]. f_equal. lia. }
  split; [exact E|]. split.
  - repeat split; cbn [fst snd span_size span_data]; lia.
  - rewrite firstn_length, skipn_length. lia.
Qed.

(** the number of elements of subspan(offset, count): count, or size - offset for the default *)
Definition subspan_count (s : span) (offset count : Z) : Z :=
  if count =? dynamic_extent then span_size s - offset else count.

(** subspan(offset, count) under the precondition of std::span::subspan *)
Theorem span_subspan_spec : forall {A} (buf : list A) s offset count, span_wf buf s ->
  0 <= offset -> 0 <= count -> std_subspan_pre s offset count = true ->
  span_elems buf (span_subspan s offset count)
    = firstn (Z.to_nat (subspan_count s offset count)) (skipn (Z.to_nat offset) (span_elems buf s)) /\
  span_wf buf (span_subspan s offset count) /\
  span_size (span_subspan s offset count) = subspan_count s offset count.
Proof.
  intros A buf [p n] offset count (Hp & Hn & Hb & Hd) Ho Hc Hpre.
  destruct dyn_val as [Edyn Emod].
  unfold std_subspan_pre in Hpre. cbn [fst snd span_size span_data] in *. apply andb_true_iff in Hpre. destruct Hpre as [Hoff Hcnt].
  apply Z.leb_le in Hoff.
  assert (Esz : subspan_size n offset count = subspan_count (p, n) offset count).
  { unfold subspan_size, subspan_count; cbn [fst snd span_size span_data]. destruct (Z.eqb_spec count dynamic_extent); cbn [negb]; [|reflexivity].
    unfold sz. rewrite Z.mod_small; lia. }
  assert (Hle : 0 <= subspan_count (p, n) offset count <= n - offset).
  { unfold subspan_count; cbn [fst snd span_size span_data]. destruct (Z.eqb_spec count dynamic_extent); cbn [orb] in *; [lia|].
    apply Z.leb_le in Hcnt. lia. }
  unfold span_elems, span_subspan; cbn [fst snd span_size span_data]. rewrite Esz. split; [|split].
  - rewrite skipn_firstn_comm, skipn_skipn', firstn_firstn_le by lia.
    f_equal. f_equal. lia.
  - repeat split; cbn [fst snd span_size span_data]; lia.
  - reflexivity.
Qed.

(** for an explicit count the CELER_EXPECT of subspan IS the std precondition (no wrap) *)
Theorem subspan_pre_explicit_count : forall s offset count, 0 <= span_size s ->
  0 <= offset -> 0 <= count -> count <> dynamic_extent -> offset + count < size_mod ->
  subspan_pre s offset count = std_subspan_pre s offset count.
Proof.
  intros [p n] offset count Hn Ho Hc Hne Hnw. unfold subspan_pre, std_subspan_pre, sz; cbn [fst snd span_size span_data] in *.
  rewrite Z.mod_small by lia.
  destruct (Z.eqb_spec count dynamic_extent); [contradiction|]. cbn [orb].
  destruct (Z.leb_spec (offset + count) n), (Z.leb_spec offset n), (Z.leb_spec count (n - offset));
    cbn [andb]; try reflexivity; lia.
Qed.

(** ... but with the DEFAULT count (dynamic_extent) [offset + count] wraps: the EXPECT rejects
    the valid call subspan(0) and accepts the invalid call subspan(size()+1), whose result
    has size 2^64 - 1.  For every span size. *)
Theorem subspan_pre_default_count_refuted : forall p n, 0 <= n < dynamic_extent ->
  let s : span := (p, n) in
  (std_subspan_pre s 0 dynamic_extent = true /\ subspan_pre s 0 dynamic_extent = false) /\
  (std_subspan_pre s (n + 1) dynamic_extent = false /\ subspan_pre s (n + 1) dynamic_extent = true /\
   span_size (span_subspan s (n + 1) dynamic_extent) = dynamic_extent) /\
  (forall offset, 1 <= offset <= n -> subspan_pre s offset dynamic_extent = true).
Proof.
  intros p n Hn s. destruct dyn_val as [Edyn Emod]. subst s.
  unfold std_subspan_pre, subspan_pre, span_subspan, subspan_size, sz; cbn [fst snd span_size span_data].
  rewrite Z.eqb_refl; cbn [negb orb]. repeat split.
  - apply andb_true_iff; split; [apply Z.leb_le; lia|reflexivity].
  - apply Z.leb_gt. rewrite Z.mod_small; lia.
  - apply andb_false_iff. left. apply Z.leb_gt. lia.
  - apply Z.leb_le. replace (n + 1 + dynamic_extent) with (n + 1 * size_mod) by lia.
    rewrite Z.mod_add by lia. rewrite Z.mod_small; lia.
  - replace (n - (n + 1)) with (-1) by lia. reflexivity.
  - intros offset Hoff. apply Z.leb_le.
    replace (offset + dynamic_extent) with (offset - 1 + 1 * size_mod) by lia.
    rewrite Z.mod_add by lia. rewrite Z.mod_small; lia.
Qed.

Example span_ex :
  let buf := [10; 11; 12; 13; 14; 15]%Z in let s : span := (1, 4) in
  span_elems buf s = [11; 12; 13; 14]%Z /\
  span_elems buf (span_first s 2) = [11; 12]%Z /\
  span_elems buf (span_last s 3) = [12; 13; 14]%Z /\
  span_elems buf (span_subspan s 1 2) = [12; 13]%Z /\
  span_elems buf (span_subspan s 1 dynamic_extent) = [12; 13; 14]%Z /\
  span_elems buf (span_subspan s 4 dynamic_extent) = [] /\
  span_wf buf s /\ std_subspan_pre s 1 dynamic_extent = true /\ first_pre s 2 = true /\
  subspan_extent 5 2 dynamic_extent = 3 /\ subspan_extent dynamic_extent 2 dynamic_extent = dynamic_extent
  /\ subspan_extent 5 2 1 = 1.
Proof. cbv zeta. repeat split; try (vm_compute; reflexivity); cbn; lia. Qed.
