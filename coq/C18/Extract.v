(** extraction of the discrete C18 model (ExtrOcamlBasic only) *)
From Coq Require Import Extraction ExtrOcamlBasic.
From Celer Require Import C18.Run.
Extraction Language OCaml.
Extraction "c18model.ml" run_sort run_partial_sort run_partition run_lower run_upper run_linear
  run_find_sorted run_min run_all_of run_any_of run_all_adjacent run_step_range run_range
  run_hs_index run_hs_coords run_rr_index run_rr_coords run_ceil_div run_local_work run_ipow_z.
