(** * C18: executable model of corecel/cont/detail/RangeImpl.hh + corecel/cont/Range.hh
    on MACHINE integers (two's-complement wrap-around made explicit).

    A counter type is [Signed w] or [Unsigned w] (w = number of bits).  Every C++
    operation on a counter is followed by [norm ct] (reduction into the type's
    range), so the model agrees with the compiled code even where an unsigned
    counter wraps; signed overflow is undefined behaviour in C++ and the
    theorems exclude it by an explicit no-overflow hypothesis.

    NO proofs here (BUILDING.md). *)
From Coq Require Import List Bool ZArith.
Import ListNotations.
Local Open Scope Z_scope.

Inductive ctype := Signed (w : Z) | Unsigned (w : Z).
Definition width (ct : ctype) : Z := match ct with Signed w | Unsigned w => w end.
Definition wrapu (w x : Z) : Z := x mod 2 ^ w.
Definition wraps (w x : Z) : Z := (x + 2 ^ (w - 1)) mod 2 ^ w - 2 ^ (w - 1).
Definition norm (ct : ctype) (x : Z) : Z :=
  match ct with Signed w => wraps w x | Unsigned w => wrapu w x end.
Definition ct_min (ct : ctype) : Z := match ct with Signed w => - 2 ^ (w - 1) | Unsigned _ => 0 end.
Definition ct_max (ct : ctype) : Z :=
  match ct with Signed w => 2 ^ (w - 1) - 1 | Unsigned w => 2 ^ w - 1 end.
Definition in_rangeb (ct : ctype) (x : Z) : bool := (ct_min ct <=? x) && (x <=? ct_max ct).

(** ** RangeTypeTraits<T> (integers; enums and OpaqueId cast to their counter and back) *)
(* static_cast<difference_type>(counter) : difference_type = make_signed_t<counter_type> *)
Definition to_diff (ct : ctype) (x : Z) : Z := wraps (width ct) x.
(* v += i; return v *)
Definition increment (ct : ctype) (v i : Z) : Z := norm ct (v + i).
(* v -= i; return v *)
Definition decrement (ct : ctype) (v i : Z) : Z := norm ct (v - i).

(** ** range_iter<T>:  operator!= is value inequality, ++ is increment(value, 1) *)
Fixpoint range_elems (fuel : nat) (ct : ctype) (v e : Z) : list Z :=
  match fuel with
  | O => []
  | S f => if v =? e then [] else v :: range_elems f ct (increment ct v 1) e
  end.

(** ** Range<T>(begin, end); Range<T>(end) has begin = TraitsT::zero() *)
Definition Range_zero : Z := 0.
(* size(): to_counter( *end_) - to_counter( *begin_)  in counter_type *)
Definition Range_size (ct : ctype) (b e : Z) : Z := norm ct (e - b).
Definition Range_empty (b e : Z) : bool := b =? e.
(* operator[](size_type i) = *(begin_ + i) : range_iter::operator+(difference_type) *)
Definition Range_at (ct : ctype) (b i : Z) : Z := increment ct b (to_diff ct i).
Definition Range_front (b : Z) : Z := b.
(* back() = ( *this)[size() - 1] *)
Definition Range_back (ct : ctype) (b e : Z) : Z := Range_at ct b (norm ct (Range_size ct b e - 1)).

(** ** step_range_iter<T> / StepRange<T> *)
Record StepRange := { sr_ct : ctype; sr_begin : Z; sr_end : Z; sr_step : Z }.

(* operator==: signed counter:  step_ >= 0 ? !(value_ < other.value_) : value_ < other.value_
               unsigned counter: !(value_ < other.value_) *)
Definition sri_eq (ct : ctype) (v e step : Z) : bool :=
  match ct with
  | Signed _ => if 0 <=? step then negb (v <? e) else v <? e
  | Unsigned _ => negb (v <? e)
  end.
(* operator++: value_ = increment(value_, step_)  (step_ converts to difference_type) *)
Fixpoint step_elems (fuel : nat) (ct : ctype) (v e step : Z) : list Z :=
  match fuel with
  | O => []
  | S f => if sri_eq ct v e step then []
           else v :: step_elems f ct (increment ct v (to_diff ct step)) e step
  end.
Definition StepRange_elems (fuel : nat) (r : StepRange) : list Z :=
  step_elems fuel (sr_ct r) (sr_begin r) (sr_end r) (sr_step r).

(** Range<T>::step(U step), U signed with common_type<T,U> = T (same width):
      if (step < 0) return {increment( *end_, step), *begin_, step};
      return { *begin_, *end_, step};
    the third member converts to T's counter type. *)
Definition Range_step_signed (ct : ctype) (b e s : Z) : StepRange :=
  if s <? 0
  then {| sr_ct := ct; sr_begin := increment ct e s; sr_end := b; sr_step := norm ct s |}
  else {| sr_ct := ct; sr_begin := b; sr_end := e; sr_step := norm ct s |}.
(** Range<T>::step(U step), U unsigned of the same width: the StepRange is over
    common_type<T,U> = the unsigned type;  { *begin_, *end_, static_cast<size_type>(step)} *)
Definition Range_step_unsigned (ct : ctype) (b e s : Z) : StepRange :=
  let cu := Unsigned (width ct) in
  {| sr_ct := cu; sr_begin := norm cu b; sr_end := norm cu e; sr_step := norm cu (norm ct s) |}.

(** ** inf_range_iter / Count<T>: operator!= is always true *)
Fixpoint count_elems (fuel : nat) (ct : ctype) (v : Z) : list Z :=
  match fuel with
  | O => []
  | S f => v :: count_elems f ct (increment ct v 1)
  end.
(** Count<T>::step(T step) -> InfStepRange<T>{ *begin_, step} *)
Fixpoint count_step_elems (fuel : nat) (ct : ctype) (v step : Z) : list Z :=
  match fuel with
  | O => []
  | S f => v :: count_step_elems f ct (increment ct v (to_diff ct step)) step
  end.

(** ** enums: RangeTypeTraits<Enum>: to_counter/to_value are static_casts, zero() = Enum{} = 0;
    range_iter's CELER_EXPECT(is_valid(value)) is  value <= Enum::size_ *)
Definition enum_is_valid (size v : Z) : bool := v <=? size.
(* range(Enum::size_) *)
Definition enum_range (ct : ctype) (size : Z) : list Z :=
  range_elems (Z.to_nat size) ct Range_zero size.

(** Range<Enum>::step(U step), U unsigned: step_type<U> = the enum itself, so the StepRange
    keeps the enum's counter type:  { *begin_, *end_, static_cast<size_type>(step)} *)
Definition Range_step_enum (ct : ctype) (b e s : Z) : StepRange :=
  {| sr_ct := ct; sr_begin := b; sr_end := e; sr_step := norm ct s |}.
