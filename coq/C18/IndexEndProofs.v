(** * C18: HyperslabInverseIndexer on its FULL precondition domain.
    [CELER_EXPECT(index <= hyperslab_size(dims))] admits the one-past-the-end
    index.  The code keeps the whole remaining quotient for the leading axis
    ([coords[0] = index], modelled by the [[_] => index :: acc] case of
    [hs_inv_loop]), so the result is the mixed-radix representation with an
    UNBOUNDED leading digit: the round trip through HyperslabIndexer is the
    identity for EVERY index, and the end index maps to (dims[0], 0, ..., 0). *)
From Coq Require Import List Arith Lia.
From Celer Require Import C18.Algorithms C18.IndexProofs.
Import ListNotations.

Lemma tl_snoc : forall (l : list nat) x, l <> [] -> tl (l ++ [x]) = tl l ++ [x].
Proof. intros [|a l] x H; [congruence|reflexivity]. Qed.

Lemma hd_snoc : forall (l : list nat) x, l <> [] -> hd 0 (l ++ [x]) = hd 0 l.
Proof. intros [|a l] x H; [congruence|reflexivity]. Qed.

Lemma prod_pos : forall l, Forall (lt 0) l -> 0 < prod l.
Proof. induction 1; cbn; [lia|]. nia. Qed.

Lemma repeat_snoc : forall n, repeat 0 n ++ [0] = repeat 0 (S n).
Proof. induction n; cbn; [reflexivity|]. f_equal. exact IHn. Qed.

(** digits: every coordinate but the first is a proper digit; the first is the
    whole remaining quotient; flattening gives the index back — for ALL indices *)
Theorem hyperslab_inverse_spec : forall dims, dims <> [] -> Forall (lt 0) dims ->
  forall index,
  let coords := hyperslab_coords dims index in
  length coords = length dims /\
  Forall2 lt (tl coords) (tl dims) /\
  hd 0 coords = index / prod (tl dims) /\
  hyperslab_index dims coords = index.
Proof.
  induction dims as [|d ds IH] using rev_ind; intros Hne Hpos index; [congruence|].
  apply Forall_app in Hpos. destruct Hpos as [Hpds Hpd]. inversion Hpd as [|? ? Hd _]; subst.
  destruct ds as [|d0 ds'].
  - cbn zeta. change (hyperslab_coords ([] ++ [d]) index) with [index].
    cbn [app length tl hd prod hyperslab_index hs_index_loop].
    repeat split; try constructor. symmetry. apply Nat.div_1_r.
  - assert (Hne' : d0 :: ds' <> []) by congruence.
    cbn zeta. rewrite hyperslab_coords_snoc by assumption.
    destruct (IH Hne' Hpds (index / d)) as (L & T & H & I). cbn zeta in L, T, H, I.
    set (cs := hyperslab_coords (d0 :: ds') (index / d)) in *.
    assert (Hcs : cs <> []) by (intros E; rewrite E in L; cbn in L; lia).
    split; [rewrite !app_length, L; reflexivity|].
    split.
    { rewrite !tl_snoc by assumption. apply Forall2_app; [exact T|].
      constructor; [apply Nat.mod_upper_bound; lia|constructor]. }
    split.
    { rewrite hd_snoc by assumption. rewrite H. rewrite tl_snoc by assumption.
      rewrite prod_app. change (prod [d]) with (d * 1). rewrite Nat.mul_1_r.
      rewrite Nat.div_div by (try lia; pose proof (prod_pos (tl (d0 :: ds'))
        ltac:(cbn; inversion Hpds; assumption)); lia).
      f_equal. lia. }
    rewrite hyperslab_index_snoc; [|assumption|symmetry; exact L].
    rewrite I. pose proof (Nat.div_mod index d ltac:(lia)). lia.
Qed.

(** inside the precondition [index <= size] the leading coordinate is at most
    dims[0] (and < dims[0] iff index < size) *)
Theorem hyperslab_inverse_leading : forall dims, dims <> [] -> Forall (lt 0) dims ->
  forall index, index <= prod dims ->
  hd 0 (hyperslab_coords dims index) <= hd 0 dims /\
  (index < prod dims -> hd 0 (hyperslab_coords dims index) < hd 0 dims).
Proof.
  intros dims Hne Hpos index Hi.
  destruct (hyperslab_inverse_spec dims Hne Hpos index) as (_ & _ & H & _). cbn zeta in H.
  rewrite H. destruct dims as [|d0 ds]; [congruence|]. cbn [hd tl prod] in *.
  inversion Hpos as [|? ? Hd0 Hds]; subst. pose proof (prod_pos ds Hds) as Hp.
  split.
  - apply Nat.div_le_upper_bound; lia.
  - intros Hlt. apply Nat.div_lt_upper_bound; lia.
Qed.

(** the end index: (dims[0], 0, ..., 0), which flattens back to size *)
Theorem hyperslab_inverse_end : forall dims, dims <> [] -> Forall (lt 0) dims ->
  hyperslab_coords dims (prod dims) = hd 0 dims :: repeat 0 (length dims - 1) /\
  hyperslab_index dims (hyperslab_coords dims (prod dims)) = prod dims.
Proof.
  intros dims Hne Hpos. split.
  2:{ apply (hyperslab_inverse_spec dims Hne Hpos (prod dims)). }
  induction dims as [|d ds IH] using rev_ind; [congruence|].
  apply Forall_app in Hpos. destruct Hpos as [Hpds Hpd]. inversion Hpd as [|? ? Hd _]; subst.
  destruct ds as [|d0 ds'].
  - change (hyperslab_coords ([] ++ [d]) (prod ([] ++ [d]))) with [prod [d]].
    cbn [app length hd prod repeat Nat.sub]. rewrite Nat.mul_1_r. reflexivity.
  - assert (Hne' : d0 :: ds' <> []) by congruence.
    rewrite hyperslab_coords_snoc by assumption. rewrite prod_app.
    change (prod [d]) with (d * 1). rewrite Nat.mul_1_r.
    rewrite Nat.div_mul by lia. rewrite Nat.mod_mul by lia.
    rewrite (IH Hne' Hpds). rewrite hd_snoc by assumption.
    rewrite app_length. cbn [length hd]. rewrite <- app_comm_cons. f_equal.
    replace (S (length ds') + 1 - 1) with (S (length ds' - 0)) by lia.
    rewrite repeat_snoc. f_equal; try lia.
Qed.

(** what the seeded "uniform loop" variant computes instead: every axis reduced
    modulo its extent sends the end index to the origin, i.e. to the same
    coordinates as index 0 — not a valid implementation on [0, size] *)
Example hyperslab_end_ex :
  hyperslab_coords [3; 4; 5] 60 = [3; 0; 0] /\ hyperslab_index [3; 4; 5] [3; 0; 0] = 60 /\
  hyperslab_coords [3; 4; 5] 0 = [0; 0; 0].
Proof. repeat split; reflexivity. Qed.
