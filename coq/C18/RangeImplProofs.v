(** * C18: Range.hh / RangeImpl.hh on machine integers = arithmetic progressions
    (reference semantics) under explicit no-overflow preconditions. *)
From Coq Require Import List Arith Bool ZArith Lia.
From Celer Require Import C18.Algorithms C18.IndexProofs C18.RangeImpl.
Import ListNotations.
Local Open Scope Z_scope.

Definition in_range (ct : ctype) (x : Z) : Prop := ct_min ct <= x <= ct_max ct.

Lemma pow_half : forall w, 0 < w -> 2 ^ w = 2 * 2 ^ (w - 1) /\ 0 < 2 ^ (w - 1).
Proof.
  intros w Hw. split.
  - replace w with (Z.succ (w - 1)) at 1 by lia. rewrite Z.pow_succ_r by lia. reflexivity.
  - apply Z.pow_pos_nonneg; lia.
Qed.

Lemma norm_id : forall ct x, 0 < width ct -> in_range ct x -> norm ct x = x.
Proof.
  intros [w|w] x Hw [Hlo Hhi]; cbn in *; destruct (pow_half w Hw) as [E P].
  - unfold wraps. rewrite Z.mod_small; lia.
  - unfold wrapu. apply Z.mod_small. lia.
Qed.

Lemma wraps_congr : forall w s, 0 < w -> exists k, wraps w s = s + k * 2 ^ w.
Proof.
  intros w s Hw. destruct (pow_half w Hw) as [E P]. unfold wraps.
  exists (- ((s + 2 ^ (w - 1)) / 2 ^ w)). rewrite Z.mod_eq by lia. lia.
Qed.

Lemma norm_shift : forall ct x k, 0 < width ct -> norm ct (x + k * 2 ^ width ct) = norm ct x.
Proof.
  intros [w|w] x k Hw; cbn in *; destruct (pow_half w Hw) as [E P].
  - unfold wraps. replace (x + k * 2 ^ w + 2 ^ (w - 1)) with (x + 2 ^ (w - 1) + k * 2 ^ w) by lia.
    rewrite Z.mod_add by lia. reflexivity.
  - unfold wrapu. rewrite Z.mod_add by lia. reflexivity.
Qed.

(** the conversion of the step to difference_type does not change the sum modulo 2^w *)
Lemma increment_to_diff : forall ct v s, 0 < width ct ->
  increment ct v (to_diff ct s) = norm ct (v + s).
Proof.
  intros ct v s Hw. unfold increment, to_diff.
  destruct (wraps_congr (width ct) s Hw) as [k ->].
  replace (v + (s + k * 2 ^ width ct)) with (v + s + k * 2 ^ width ct) by lia.
  apply norm_shift; auto.
Qed.

Lemma in_range_max_pos : forall ct, 0 < width ct -> ct_min ct <= 0 /\ 0 <= ct_max ct.
Proof. intros [w|w] Hw; cbn in *; destruct (pow_half w Hw); lia. Qed.

(** ** stepping iterators agree with the unbounded-integer iteration [step_iter] *)
Lemma step_elems_pos : forall fuel ct v e s, 0 < width ct -> 0 < s -> s <= ct_max ct ->
  in_range ct v ->
  (v < e -> v + ((e - 1 - v) / s + 1) * s <= ct_max ct) ->
  step_elems fuel ct v e s = step_iter fuel v e s.
Proof.
  induction fuel as [|f IH]; intros ct v e s Hw Hs Hsm Hv Hov; [reflexivity|].
  cbn [step_elems step_iter]. unfold step_iter_eq.
  assert (Eq : sri_eq ct v e s = negb (v <? e)).
  { destruct ct; cbn; [destruct (Z.leb_spec 0 s); [reflexivity|lia]|reflexivity]. }
  rewrite Eq. destruct (Z.leb_spec 0 s); [|lia].
  destruct (Z.ltb_spec v e) as [Hlt|Hge]; cbn [negb]; [|reflexivity].
  specialize (Hov Hlt).
  assert (Hc : (e - 1 - v) / s + 1 = ((e - 1 - (v + s)) / s + 1) + 1).
  { replace (e - 1 - v) with ((e - 1 - (v + s)) + 1 * s) by lia.
    rewrite Z.div_add by lia. lia. }
  assert (Hnn : 0 <= (e - 1 - (v + s)) / s + 1).
  { assert (-1 <= (e - 1 - (v + s)) / s); [|lia]. apply Z.div_le_lower_bound; lia. }
  rewrite increment_to_diff by auto.
  assert (Hin : in_range ct (v + s)).
  { destruct Hv as [Hlo Hhi]. split; [lia|]. rewrite Hc in Hov. nia. }
  rewrite norm_id by auto. f_equal. apply IH; auto.
  intros _. rewrite Hc in Hov. lia.
Qed.

Lemma step_elems_neg : forall fuel w v e s, 0 < w -> s < 0 -> - 2 ^ (w - 1) <= s ->
  in_range (Signed w) v ->
  (e <= v -> ct_min (Signed w) <= v + ((v - e) / (- s) + 1) * s) ->
  step_elems fuel (Signed w) v e s = step_iter fuel v e s.
Proof.
  induction fuel as [|f IH]; intros w v e s Hw Hs Hsm Hv Hov; [reflexivity|].
  cbn [step_elems step_iter sri_eq]. unfold step_iter_eq.
  destruct (Z.leb_spec 0 s); [lia|].
  destruct (Z.ltb_spec v e) as [Hlt|Hge]; [reflexivity|].
  specialize (Hov Hge).
  assert (Hc : (v - e) / (- s) + 1 = ((v + s - e) / (- s) + 1) + 1).
  { replace (v - e) with ((v + s - e) + 1 * (- s)) by lia.
    rewrite Z.div_add by lia. lia. }
  assert (Hnn : 0 <= (v + s - e) / (- s) + 1).
  { assert (-1 <= (v + s - e) / (- s)); [|lia]. apply Z.div_le_lower_bound; lia. }
  rewrite increment_to_diff by auto.
  assert (Hin : in_range (Signed w) (v + s)).
  { destruct Hv as [Hlo Hhi]. split; [|lia]. rewrite Hc in Hov. nia. }
  rewrite norm_id by auto. f_equal. apply IH; auto.
  intros _. rewrite Hc in Hov. lia.
Qed.

(** ** range(a, b).step(s), s > 0, any counter type (signed or unsigned U of T's width):
    a, a+s, ... below b, provided the LAST increment a + n*s does not leave the type.
    Preconditions (none of them is a CELER_EXPECT in the header): a <= b, s > 0. *)
Definition n_pos (a b s : Z) : nat := Z.to_nat ((b - 1 - a) / s + 1).

Theorem Range_step_pos_spec : forall ct a b s cap, 0 < width ct ->
  in_range ct a -> in_range ct b -> a <= b -> 0 < s <= ct_max ct ->
  (a < b -> a + Z.of_nat (n_pos a b s) * s <= ct_max ct) -> (n_pos a b s <= cap)%nat ->
  StepRange_elems cap (Range_step_signed ct a b s) = arith (n_pos a b s) a s.
Proof.
  intros ct a b s cap Hw Ha Hb Hab [Hs Hsm] Hov Hcap. unfold Range_step_signed.
  destruct (Z.ltb_spec s 0); [lia|]. unfold StepRange_elems; cbn [sr_ct sr_begin sr_end sr_step].
  destruct (in_range_max_pos ct Hw).
  rewrite (norm_id ct s) by (auto; split; lia).
  rewrite step_elems_pos; auto.
  - apply step_iter_pos; auto.
  - intros Hlt. specialize (Hov Hlt). unfold n_pos in Hov.
    assert (0 <= (b - 1 - a) / s) by (apply Z.div_pos; lia).
    rewrite Z2Nat.id in Hov by lia. exact Hov.
Qed.

(** the unsigned-U overload on an unsigned T is the same StepRange *)
Theorem Range_step_unsigned_pos_spec : forall w a b s cap, 0 < w ->
  in_range (Unsigned w) a -> in_range (Unsigned w) b -> a <= b -> 0 < s <= ct_max (Unsigned w) ->
  (a < b -> a + Z.of_nat (n_pos a b s) * s <= ct_max (Unsigned w)) -> (n_pos a b s <= cap)%nat ->
  StepRange_elems cap (Range_step_unsigned (Unsigned w) a b s) = arith (n_pos a b s) a s.
Proof.
  intros w a b s cap Hw Ha Hb Hab Hs Hov Hcap.
  rewrite <- (Range_step_pos_spec (Unsigned w) a b s cap) by auto.
  unfold Range_step_unsigned, Range_step_signed. destruct (Z.ltb_spec s 0); [lia|].
  cbn [width]. assert (Hsr : in_range (Unsigned w) s) by (split; cbn in *; lia).
  rewrite !(norm_id (Unsigned w) s), (norm_id _ a), (norm_id _ b); auto.
Qed.

(** range(a, b).step(s), s < 0, SIGNED counter: b+s, b+2s, ... not below a, provided
    b + (n+1)*s (the last value computed) does not underflow *)
Definition n_neg (a b s : Z) : nat := Z.to_nat ((b - a) / (- s)).

Theorem Range_step_neg_spec : forall w a b s cap, 0 < w ->
  in_range (Signed w) a -> in_range (Signed w) b -> a <= b -> - 2 ^ (w - 1) <= s < 0 ->
  ct_min (Signed w) <= b + (Z.of_nat (n_neg a b s) + 1) * s -> (n_neg a b s <= cap)%nat ->
  StepRange_elems cap (Range_step_signed (Signed w) a b s) = arith (n_neg a b s) (b + s) s.
Proof.
  intros w a b s cap Hw Ha Hb Hab [Hsm Hs] Hov Hcap. unfold Range_step_signed.
  destruct (Z.ltb_spec s 0); [|lia]. unfold StepRange_elems; cbn [sr_ct sr_begin sr_end sr_step].
  assert (Hq : 0 <= (b - a) / (- s)) by (apply Z.div_pos; lia).
  unfold n_neg in *. rewrite Z2Nat.id in Hov by lia.
  assert (Hsr : in_range (Signed w) s).
  { destruct (pow_half w Hw). split; cbn; lia. }
  assert (Hbs : in_range (Signed w) (b + s)).
  { destruct Hb as [Hlo Hhi]. split; [|lia]. cbn in *. nia. }
  unfold increment. rewrite !norm_id by auto.
  assert (Hc : (b + s - a) / (- s) + 1 = (b - a) / (- s)).
  { replace (b - a) with ((b + s - a) + 1 * (- s)) by lia. rewrite Z.div_add by lia. lia. }
  rewrite step_elems_neg; auto.
  - rewrite step_iter_neg; [rewrite Hc; reflexivity|lia|]. rewrite Hc. exact Hcap.
  - intros _. rewrite Hc. lia.
Qed.

(** a negative step on an UNSIGNED range is not the reversed range: whenever the
    range is at least |s| long the result is empty ... *)
Theorem Range_step_neg_unsigned_empty : forall w a b s cap, 0 < w ->
  in_range (Unsigned w) a -> in_range (Unsigned w) b -> a <= b -> s < 0 -> - s <= b - a ->
  StepRange_elems cap (Range_step_signed (Unsigned w) a b s) = [].
Proof.
  intros w a b s cap Hw Ha Hb Hab Hs Hlen. unfold Range_step_signed.
  destruct (Z.ltb_spec s 0); [|lia]. unfold StepRange_elems; cbn [sr_ct sr_begin sr_end sr_step].
  unfold increment. rewrite (norm_id _ (b + s)); auto.
  - destruct cap; [reflexivity|]. cbn [step_elems sri_eq].
    destruct (Z.ltb_spec (b + s) a); [lia|reflexivity].
  - destruct Ha, Hb. split; cbn in *; lia.
Qed.

(** ... and when it is shorter the elements are junk below [a] (model witness; replayed on
    celeritas::range(3u, 3u).step(-1) by the check) *)
Example Range_step_neg_unsigned_junk :
  StepRange_elems 10 (Range_step_signed (Unsigned 32) 3 3 (-1)) = [2; 1; 0] /\
  StepRange_elems 10 (Range_step_signed (Unsigned 32) 3 5 (-3)) = [2].
Proof. split; vm_compute; reflexivity. Qed.

(** the no-overflow hypothesis is needed: an unsigned counter wraps and keeps going *)
Example Range_step_pos_overflow_witness :
  StepRange_elems 5 (Range_step_unsigned (Unsigned 32) 4294967286 4294967295 4)
  = [4294967286; 4294967290; 4294967294; 2; 6].
Proof. vm_compute; reflexivity. Qed.

Example Range_step_ex :
  StepRange_elems 10 (Range_step_signed (Signed 32) 0 10 3) = [0; 3; 6; 9] /\
  StepRange_elems 10 (Range_step_signed (Signed 32) 0 10 (-3)) = [7; 4; 1] /\
  StepRange_elems 10 (Range_step_unsigned (Unsigned 32) 20 25 2) = [20; 22; 24] /\
  StepRange_elems 10 (Range_step_signed (Signed 32) (-2147483645) (-2147483640) (-3))
    = [-2147483643].
Proof. repeat split; vm_compute; reflexivity. Qed.

(** ** range(a, b): a, a+1, ..., b-1;  size / empty / front / back *)
Lemma range_elems_spec : forall fuel ct v e, 0 < width ct -> in_range ct v -> in_range ct e ->
  v <= e -> Z.to_nat (e - v) = fuel -> range_elems fuel ct v e = arith fuel v 1.
Proof.
  induction fuel as [|f IH]; intros ct v e Hw Hv He Hve Hf; [reflexivity|].
  cbn [range_elems arith]. destruct (Z.eqb_spec v e); [lia|]. f_equal.
  unfold increment. rewrite norm_id; auto.
  - apply IH; auto; try lia. destruct Hv, He; split; lia.
  - destruct Hv, He; split; lia.
Qed.

Lemma range_elems_more_fuel : forall fuel ct v e, 0 < width ct -> in_range ct v -> in_range ct e ->
  v <= e -> (Z.to_nat (e - v) <= fuel)%nat -> range_elems fuel ct v e = arith (Z.to_nat (e - v)) v 1.
Proof.
  induction fuel as [|f IH]; intros ct v e Hw Hv He Hve Hf.
  - replace (Z.to_nat (e - v)) with 0%nat by lia. reflexivity.
  - cbn [range_elems]. destruct (Z.eqb_spec v e) as [->|Hne].
    + rewrite Z.sub_diag. reflexivity.
    + replace (Z.to_nat (e - v)) with (S (Z.to_nat (e - (v + 1)))) by lia. cbn [arith]. f_equal.
      unfold increment. assert (in_range ct (v + 1)) by (destruct Hv, He; split; lia).
      rewrite norm_id by auto. apply IH; auto; lia.
Qed.

Theorem Range_spec : forall ct a b cap, 0 < width ct -> in_range ct a -> in_range ct b -> a <= b ->
  (Z.to_nat (b - a) <= cap)%nat ->
  range_elems cap ct a b = arith (Z.to_nat (b - a)) a 1 /\
  (Range_empty a b = true <-> a = b) /\
  (b - a <= ct_max ct -> Range_size ct a b = b - a /\
     (a < b -> Range_back ct a b = b - 1 /\ Range_front a = a)).
Proof.
  intros ct a b cap Hw Ha Hb Hab Hcap. split; [apply range_elems_more_fuel; auto|]. split.
  - unfold Range_empty. destruct (Z.eqb_spec a b); split; congruence.
  - intros Hsz. destruct (in_range_max_pos ct Hw).
    assert (Hd : in_range ct (b - a)) by (split; lia).
    unfold Range_size. rewrite norm_id by auto. split; [reflexivity|]. intros Hlt.
    split; [|reflexivity]. unfold Range_back, Range_size, Range_at.
    rewrite (norm_id ct (b - a)) by auto.
    rewrite (norm_id ct (b - a - 1)) by (auto; split; lia).
    rewrite increment_to_diff by auto. replace (a + (b - a - 1)) with (b - 1) by lia.
    apply norm_id; auto. destruct Ha, Hb; split; lia.
Qed.

Example Range_ex : range_elems 10 (Unsigned 32) 2 5 = [2; 3; 4] /\ range_elems 10 (Signed 32) 7 7 = []
  /\ Range_size (Unsigned 64) 3 18446744073709551615 = 18446744073709551612
  /\ Range_back (Signed 32) (-3) 4 = 3.
Proof. repeat split; vm_compute; reflexivity. Qed.

(** size() of a signed range longer than the type's maximum wraps (signed overflow = UB in C++):
    the hypothesis b - a <= ct_max is needed *)
Example Range_size_overflow_witness : Range_size (Signed 32) (-2147483648) 2147483647 = -1.
Proof. vm_compute; reflexivity. Qed.

(** ** count(v), count(v).step(s): the first n values are v, v+s, ..., as long as the last
    one produced, v + (n-1) s, is representable *)
Theorem count_step_spec : forall n ct v s, 0 < width ct -> in_range ct v ->
  in_range ct (v + (Z.of_nat n - 1) * s) ->
  count_step_elems n ct v s = arith n v s.
Proof.
  induction n as [|n IH]; intros ct v s Hw Hv Hl; [reflexivity|].
  cbn [count_step_elems arith]. f_equal. destruct n as [|n]; [reflexivity|].
  rewrite increment_to_diff by auto.
  assert (Hin : in_range ct (v + s)).
  { destruct Hv as [H1 H2], Hl as [H3 H4]. split; nia. }
  rewrite norm_id by auto. apply IH; auto.
  replace (v + s + (Z.of_nat (S n) - 1) * s) with (v + (Z.of_nat (S (S n)) - 1) * s) by lia. exact Hl.
Qed.

Theorem count_spec : forall n ct v, 0 < width ct -> in_range ct v ->
  v + Z.of_nat n - 1 <= ct_max ct -> count_elems n ct v = arith n v 1.
Proof.
  induction n as [|n IH]; intros ct v Hw Hv Hl; [reflexivity|].
  cbn [count_elems arith]. f_equal. destruct n as [|n]; [reflexivity|].
  unfold increment. assert (Hin : in_range ct (v + 1)) by (destruct Hv; split; lia).
  rewrite norm_id by auto. apply IH; auto. lia.
Qed.

Example count_ex : count_step_elems 4 (Signed 32) 100 (-3) = [100; 97; 94; 91] /\
  count_elems 3 (Unsigned 32) 10 = [10; 11; 12] /\
  count_step_elems 3 (Unsigned 32) 10 15 = [10; 25; 40] /\
  (* wrap-around of an unsigned counter, outside the hypothesis *)
  count_elems 3 (Unsigned 32) 4294967295 = [4294967295; 0; 1].
Proof. repeat split; vm_compute; reflexivity. Qed.

(** ** range(Enum::size_) visits every enumerator 0 .. size_-1 once, in order; every
    iterator constructed on the way (including end) passes CELER_EXPECT(is_valid) *)
Theorem enum_range_spec : forall ct size, 0 < width ct -> 0 <= size <= ct_max ct ->
  enum_range ct size = arith (Z.to_nat size) 0 1 /\
  Forall (fun v => 0 <= v < size /\ enum_is_valid size v = true) (enum_range ct size) /\
  enum_is_valid size size = true.
Proof.
  intros ct size Hw [H0 Hm]. destruct (in_range_max_pos ct Hw).
  assert (E : enum_range ct size = arith (Z.to_nat size) 0 1).
  { unfold enum_range, Range_zero.
    replace (arith (Z.to_nat size) 0 1) with (arith (Z.to_nat (size - 0)) 0 1) by (f_equal; lia).
    apply range_elems_more_fuel; auto; try (split; lia); lia. }
  split; [exact E|]. split.
  - rewrite E. apply Forall_forall. intros x Hx. apply (In_nth _ _ 0) in Hx.
    destruct Hx as [k [Hk Hx]]. rewrite arith_length in Hk. rewrite arith_nth in Hx by auto.
    subst x. unfold enum_is_valid. split; [lia|]. apply Z.leb_le. lia.
  - unfold enum_is_valid. apply Z.leb_le. lia.
Qed.

Example enum_range_ex : enum_range (Signed 32) 3 = [0; 1; 2] /\ enum_range (Unsigned 8) 0 = [].
Proof. split; vm_compute; reflexivity. Qed.
