(** * C18: executable model of corecel/math/detail/AlgorithmsImpl.hh,
    corecel/math/Algorithms.hh, corecel/cont/Range.hh (stepped ranges),
    corecel/data/HyperslabIndexer.hh, orange/univ/detail/RaggedRightIndexer.hh.

    Arrays are lists addressed by [get]/[upd]; iterators are indices (nat);
    every C++ loop is a fuelled fixpoint whose body follows the C++ statement
    order.  NO proofs here (BUILDING.md): the file must keep running when a
    proof breaks. *)
From Coq Require Import List Arith Bool ZArith.
Import ListNotations.

Section Arrays.
  Context {A : Type}.
  Variable d : A.   (* value of an out-of-bounds read; never used under the preconditions *)

  Definition get (l : list A) (i : nat) : A := nth i l d.

  Fixpoint upd (l : list A) (i : nat) (x : A) : list A :=
    match l, i with
    | [], _ => []
    | _ :: r, O => x :: r
    | y :: r, S k => y :: upd r k x
    end.

  (** trivial_swap(l[i], l[j]) *)
  Definition swap (l : list A) (i j : nat) : list A :=
    upd (upd l i (get l j)) j (get l i).

  (** ** lower_bound_impl / upper_bound_impl
      Both are the same bisection on a predicate [p] ("go right"):
      lower_bound: p a = comp(a, value);  upper_bound: p a = !comp(value, a). *)
  Fixpoint bound_loop (p : A -> bool) (fuel : nat) (l : list A) (first len : nat) : nat :=
    match fuel with
    | O => first
    | S f =>
        if len =? 0 then first
        else
          let half_len := len / 2 in          (* half_positive *)
          let m := first + half_len in
          if p (get l m)
          then bound_loop p f l (S m) (len - (half_len + 1))
          else bound_loop p f l first half_len
    end.

  Definition lower_bound_p (p : A -> bool) (l : list A) : nat :=
    bound_loop p (length l) l 0 (length l).

  (** ** lower_bound_linear_impl *)
  Fixpoint linear_loop (p : A -> bool) (l : list A) (it : nat) : nat :=
    match l with
    | [] => it                       (* it == last: return last *)
    | x :: r => if negb (p x) then it else linear_loop p r (S it)
    end.
  Definition lower_bound_linear_p (p : A -> bool) (l : list A) : nat := linear_loop p l 0.

  (** ** partition_impl (first/last are indices; returns the array and [first]) *)
  (* while (true) { if (first == last) return; if (!pred( *first)) break; ++first; } *)
  Fixpoint scan_true (p : A -> bool) (fuel : nat) (l : list A) (first last : nat) : nat :=
    match fuel with
    | O => first
    | S f =>
        if first =? last then first
        else if negb (p (get l first)) then first
        else scan_true p f l (S first) last
    end.
  (* do { if (first == --last) return; } while (!pred( *last));   result = last;
     result == first means "return first" *)
  Fixpoint scan_false (p : A -> bool) (fuel : nat) (l : list A) (first last : nat) : nat :=
    match fuel with
    | O => first
    | S f =>
        let last' := last - 1 in
        if first =? last' then last'
        else if p (get l last') then last'
        else scan_false p f l first last'
    end.
  Fixpoint partition_loop (p : A -> bool) (fuel : nat) (l : list A) (first last : nat)
    : list A * nat :=
    match fuel with
    | O => (l, first)
    | S f =>
        let first1 := scan_true p (length l) l first last in
        if first1 =? last then (l, first1)
        else
          let last1 := scan_false p (length l) l first1 last in
          if first1 =? last1 then (l, first1)
          else partition_loop p f (swap l first1 last1) (S first1) last1
    end.
  Definition partition (p : A -> bool) (l : list A) : list A * nat :=
    partition_loop p (S (length l)) l 0 (length l).

  (** ** all_of / any_of / all_adjacent *)
  Fixpoint all_of (p : A -> bool) (l : list A) : bool :=
    match l with [] => true | x :: r => if negb (p x) then false else all_of p r end.
  Fixpoint any_of (p : A -> bool) (l : list A) : bool :=
    match l with [] => false | x :: r => if p x then true else any_of p r end.
  Fixpoint all_adjacent_loop (p : A -> A -> bool) (prev : A) (l : list A) : bool :=
    match l with
    | [] => true
    | x :: r => if negb (p prev x) then false else all_adjacent_loop p x r
    end.
  Definition all_adjacent (p : A -> A -> bool) (l : list A) : bool :=
    match l with [] => true | x :: r => all_adjacent_loop p x r end.

  Section WithCmp.
    Variable cmp : A -> A -> bool.

    Definition lower_bound (l : list A) (v : A) : nat := lower_bound_p (fun a => cmp a v) l.
    Definition upper_bound (l : list A) (v : A) : nat := lower_bound_p (fun a => negb (cmp v a)) l.
    Definition lower_bound_linear (l : list A) (v : A) : nat :=
      lower_bound_linear_p (fun a => cmp a v) l.

    (** find_sorted: index, or [length l] (= last) when absent *)
    Definition find_sorted (l : list A) (v : A) : nat :=
      let it := lower_bound l v in
      if (it =? length l) || cmp (get l it) v || cmp v (get l it) then length l else it.

    (** ** min_element: index of the result iterator ([length l] = last for empty) *)
    Fixpoint min_loop (rest : list A) (it : nat) (result : nat) (rv : A) : nat :=
      match rest with
      | [] => result
      | x :: r => if cmp x rv then min_loop r (S it) it x else min_loop r (S it) result rv
      end.
    Definition min_element (l : list A) : nat :=
      match l with [] => 0 | x :: r => min_loop r 1 0 x end.

    (** ** heap sort *)
    (* if ((child + 1) < len && comp(child_i[0], child_i[1])) { ++child_i; ++child; } *)
    Definition pick_child (l : list A) (len child : nat) : nat :=
      if (child + 1 <? len) && cmp (get l child) (get l (child + 1)) then child + 1 else child.

    (* the do { ... } while (!comp( *child_i, top)) loop; the hole is at [start] *)
    Fixpoint sift_loop (fuel : nat) (l : list A) (len start child : nat) (top : A) : list A :=
      match fuel with
      | O => upd l start top
      | S f =>
          let l1 := upd l start (get l child) in      (* start[0] = move(child_i[0]) *)
          let start1 := child in                      (* start = child_i *)
          if (len - 2) / 2 <? child then upd l1 start1 top   (* break *)
          else
            let child1 := pick_child l1 len (2 * child + 1) in
            if cmp (get l1 child1) top then upd l1 start1 top
            else sift_loop f l1 len start1 child1 top
      end.

    Definition sift_down (l : list A) (len start : nat) : list A :=
      if (len <? 2) || ((len - 2) / 2 <? start) then l
      else
        let child := pick_child l len (2 * start + 1) in
        if cmp (get l child) (get l start) then l
        else sift_loop len l len start child (get l start).

    (* pop_heap(first, last, comp, len) *)
    Definition pop_heap (l : list A) (len : nat) : list A :=
      if 1 <? len then sift_down (swap l 0 (len - 1)) (len - 1) 0 else l.

    (* for (start = (n - 2) / 2; start >= 0; --start) sift_down(first, last, comp, n, first + start);
       [k] = start + 1 *)
    Fixpoint make_heap_loop (k : nat) (l : list A) (n : nat) : list A :=
      match k with
      | O => l
      | S start => make_heap_loop start (sift_down l n start) n
      end.
    Definition make_heap (l : list A) : list A :=
      let n := length l in
      if 1 <? n then make_heap_loop ((n - 2) / 2 + 1) l n else l.

    (* for (n = last - first; n > 1; --last, --n) pop_heap(first, last, comp, n); *)
    Fixpoint sort_heap_loop (n : nat) (l : list A) : list A :=
      match n with
      | O => l
      | S n' => if 1 <? n then sort_heap_loop n' (pop_heap l n) else l
      end.
    Definition sort_heap (l : list A) : list A := sort_heap_loop (length l) l.

    (* partial_sort(first, middle, last):  heap on [0, mid), then the scan of
       [mid, n) that swaps smaller elements into the heap, then sort_heap on [0, mid) *)
    Fixpoint partial_scan (k : nat) (l : list A) (mid i : nat) : list A :=
      match k with
      | O => l
      | S k' =>
          let l' := if cmp (get l i) (get l 0)
                    then sift_down (swap l i 0) mid 0 else l in
          partial_scan k' l' mid (S i)
      end.
    Definition partial_sort (l : list A) (mid : nat) : list A :=
      let h := make_heap (firstn mid l) ++ skipn mid l in
      let s := partial_scan (length l - mid) h mid mid in
      sort_heap (firstn mid s) ++ skipn mid s.

    (** celeritas::sort = heapsort_impl = partial_sort(first, last, last): the
        scan loop over [last, last) is empty *)
    Definition sort (l : list A) : list A := sort_heap (make_heap l).
  End WithCmp.
End Arrays.

(** ** Range / StepRange over (signed, non-overflowing) integers *)
Section Ranges.
  Local Open Scope Z_scope.
  (* step_range_iter::operator== for signed counters:
       step >= 0 ? !(value < other.value) : value < other.value *)
  Definition step_iter_eq (v e s : Z) : bool := if 0 <=? s then negb (v <? e) else v <? e.
  Fixpoint step_iter (fuel : nat) (v e s : Z) : list Z :=
    match fuel with
    | O => []
    | S f => if step_iter_eq v e s then [] else v :: step_iter f (v + s) e s
    end.
  (** range(a, b).step(s): for s < 0 the iteration starts at b + s and ends before a *)
  Definition step_range (a b s : Z) : list Z :=
    let fuel := S (Z.to_nat (b - a)) in
    if s <? 0 then step_iter fuel (b + s) a s else step_iter fuel a b s.
  (** range(a, b): iterator != end, ++ *)
  Fixpoint range_iter (fuel : nat) (v e : Z) : list Z :=
    match fuel with
    | O => []
    | S f => if v =? e then [] else v :: range_iter f (v + 1) e
    end.
  Definition range (a b : Z) : list Z := range_iter (Z.to_nat (b - a)) a b.
End Ranges.

(** ** HyperslabIndexer / HyperslabInverseIndexer *)
Section Indexers.
  (* result = coords[0]; for i in 1..N-1: result = dims[i] * result + coords[i] *)
  Fixpoint hs_index_loop (dims coords : list nat) (result : nat) : nat :=
    match dims, coords with
    | dm :: ds, c :: cs => hs_index_loop ds cs (dm * result + c)
    | _, _ => result
    end.
  Definition hyperslab_index (dims coords : list nat) : nat :=
    match dims, coords with
    | _ :: ds, c :: cs => hs_index_loop ds cs c
    | _, _ => 0
    end.
  (* for i = N-1 .. 1: coords[i] = index % dims[i]; index = (index - coords[i]) / dims[i];
     coords[0] = index.   [rdims] = dims reversed *)
  Fixpoint hs_inv_loop (rdims : list nat) (index : nat) (acc : list nat) : list nat :=
    match rdims with
    | [] => acc
    | [_] => index :: acc
    | dm :: r => let c := index mod dm in hs_inv_loop r ((index - c) / dm) (c :: acc)
    end.
  Definition hyperslab_coords (dims : list nat) (index : nat) : list nat :=
    hs_inv_loop (rev dims) index [].

  (** RaggedRightIndexer: offsets has N+1 entries *)
  Definition ragged_index (offsets : list nat) (c : nat * nat) : nat :=
    nth (fst c) offsets 0 + snd c.
  (* i = 0; while (index >= offsets[i + 1]) ++i; *)
  Fixpoint ragged_loop (fuel : nat) (offsets : list nat) (index i : nat) : nat :=
    match fuel with
    | O => i
    | S f => if nth (i + 1) offsets 0 <=? index then ragged_loop f offsets index (S i) else i
    end.
  Definition ragged_coords (offsets : list nat) (index : nat) : nat * nat :=
    let i := ragged_loop (length offsets) offsets index 0 in
    (i, index - nth i offsets 0).

  (** ceil_div (unsigned) *)
  Definition ceil_div (top bottom : nat) : nat :=
    top / bottom + (if top mod bottom =? 0 then 0 else 1).
  (** LocalWorkCalculator *)
  Definition local_work (total workers id : nat) : nat :=
    total / workers + (if id <? total mod workers then 1 else 0).
End Indexers.

(** ** ipow<N>: template recursion on N, generic in the multiplication *)
Section Ipow.
  Context {T : Type} (one : T) (mul : T -> T -> T).
  Fixpoint ipow_fuel (fuel n : nat) (v : T) : T :=
    match fuel with
    | O => one
    | S f =>
        if n =? 0 then one
        else if Nat.even n then mul (ipow_fuel f (n / 2) v) (ipow_fuel f (n / 2) v)
        else mul (mul v (ipow_fuel f ((n - 1) / 2) v)) (ipow_fuel f ((n - 1) / 2) v)
    end.
  Definition ipow (n : nat) (v : T) : T := ipow_fuel (S n) n v.
End Ipow.
